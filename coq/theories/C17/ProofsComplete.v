(* C17/ProofsComplete.v — completeness of a failure-free pass on well-formed, current
   metadata, and the link theorem  forall i, spec_ok i (pass i) = true. *)
From Verif Require Import C17.Model C17.Spec C17.Proofs.
From VerifGen Require Import Consts.
From Coq Require Import ZifyBool.
Open Scope Z_scope.

(* ---------- well-formedness ---------- *)

Definition wf_rp (r : policy) : Prop := NoDup (map g_id (rp_groups r)).
Definition wf_db (d : database) : Prop := NoDup (map rp_name (db_rps d)) /\ Forall wf_rp (db_rps d).
Definition wf (m : meta) : Prop := NoDup (map db_name m) /\ Forall wf_db m.

Lemma nodup_b_sound l : nodup_b l = true -> NoDup l.
Proof.
  induction l as [|x l IH]; cbn [nodup_b]; intros H; [constructor|].
  apply andb_true_iff in H. destruct H as [H1 H2]. constructor; [|apply IH; exact H2].
  apply negb_true_iff in H1. apply mem_false_In. exact H1.
Qed.

Lemma wf_b_sound m : wf_b m = true -> wf m.
Proof.
  unfold wf_b, wf. intros H. apply andb_true_iff in H. destruct H as [H1 H2].
  split; [apply nodup_b_sound; exact H1|].
  apply Forall_forall. intros d Hd. rewrite forallb_forall in H2. specialize (H2 d Hd).
  unfold wf_db_b in H2. apply andb_true_iff in H2. destruct H2 as [H3 H4].
  split; [apply nodup_b_sound; exact H3|].
  apply Forall_forall. intros r Hr. rewrite forallb_forall in H4. apply nodup_b_sound. apply (H4 r Hr).
Qed.

(* ---------- decidable equality is equality ---------- *)

Lemma list_eqb_sound {A} (eqb : A -> A -> bool) :
  (forall a b, eqb a b = true -> a = b) -> forall l l', list_eqb eqb l l' = true -> l = l'.
Proof.
  intros Hs. induction l as [|x l IH]; intros [|y l'] H; cbn in H; try discriminate; [reflexivity|].
  apply andb_true_iff in H. destruct H as [H1 H2]. f_equal; [apply Hs; exact H1 | apply IH; exact H2].
Qed.

Lemma optz_eqb_sound a b : optz_eqb a b = true -> a = b.
Proof. destruct a, b; cbn; intros H; try discriminate; [f_equal; lia | reflexivity]. Qed.

Ltac split_andb :=
  repeat match goal with H : (_ && _) = true |- _ => apply andb_true_iff in H; destruct H end.

Lemma shard_eqb_sound a b : shard_eqb a b = true -> a = b.
Proof.
  destruct a, b. unfold shard_eqb. cbn. intros H. split_andb.
  repeat match goal with
  | H : N.eqb _ _ = true |- _ => apply N.eqb_eq in H
  | H : list_eqb N.eqb _ _ = true |- _ => apply (list_eqb_sound N.eqb (fun x y => proj1 (N.eqb_eq x y))) in H
  end. congruence.
Qed.

Lemma group_eqb_sound a b : group_eqb a b = true -> a = b.
Proof.
  destruct a, b. unfold group_eqb. cbn. intros H. split_andb.
  repeat match goal with
  | H : N.eqb _ _ = true |- _ => apply N.eqb_eq in H
  | H : Z.eqb _ _ = true |- _ => apply Z.eqb_eq in H
  | H : optz_eqb _ _ = true |- _ => apply optz_eqb_sound in H
  | H : list_eqb shard_eqb _ _ = true |- _ => apply (list_eqb_sound _ shard_eqb_sound) in H
  end. congruence.
Qed.

Lemma policy_eqb_sound a b : policy_eqb a b = true -> a = b.
Proof.
  destruct a, b. unfold policy_eqb. cbn. intros H. split_andb.
  repeat match goal with
  | H : N.eqb _ _ = true |- _ => apply N.eqb_eq in H
  | H : Z.eqb _ _ = true |- _ => apply Z.eqb_eq in H
  | H : list_eqb group_eqb _ _ = true |- _ => apply (list_eqb_sound _ group_eqb_sound) in H
  end. congruence.
Qed.

Lemma db_eqb_sound a b : db_eqb a b = true -> a = b.
Proof.
  destruct a, b. unfold db_eqb. cbn. intros H. split_andb.
  repeat match goal with
  | H : N.eqb _ _ = true |- _ => apply N.eqb_eq in H
  | H : list_eqb policy_eqb _ _ = true |- _ => apply (list_eqb_sound _ policy_eqb_sound) in H
  end. congruence.
Qed.

Lemma meta_eqb_sound a b : meta_eqb a b = true -> a = b.
Proof. apply list_eqb_sound. exact db_eqb_sound. Qed.

(* ---------- generic list facts ---------- *)

Lemma NoDup_app_intro {A} (l l' : list A) :
  NoDup l -> NoDup l' -> (forall x, In x l -> ~ In x l') -> NoDup (l ++ l').
Proof.
  induction l as [|a l IH]; intros H1 H2 H3; cbn; [exact H2|].
  inversion H1; subst. constructor.
  - intros Hin. apply in_app_or in Hin. destruct Hin as [Hin|Hin]; [contradiction|].
    apply (H3 a); [left; reflexivity | exact Hin].
  - apply IH; [assumption | assumption |]. intros x Hx. apply H3. right. exact Hx.
Qed.

Lemma NoDup_flat_map_keys {A B K K1} (f : A -> list B) (key : B -> K) (k1 : A -> K1) (proj : K -> K1) l :
  NoDup (map k1 l) -> (forall x, In x l -> NoDup (map key (f x))) ->
  (forall x y, In x l -> In y (f x) -> proj (key y) = k1 x) ->
  NoDup (map key (flat_map f l)).
Proof.
  induction l as [|x l IH]; intros H1 H2 H3; cbn; [constructor|].
  rewrite map_app. cbn in H1. inversion H1; subst. apply NoDup_app_intro.
  - apply H2. left. reflexivity.
  - apply IH; [assumption | intros; apply H2; right; assumption | intros; apply H3; [right|]; assumption].
  - intros k Hk Hk'. apply in_map_iff in Hk. destruct Hk as [y [Hy Hyin]].
    apply in_map_iff in Hk'. destruct Hk' as [y' [Hy' Hyin']]. apply in_flat_map in Hyin'.
    destruct Hyin' as [x' [Hx' Hyx']].
    assert (E : k1 x = k1 x').
    { rewrite <- (H3 x y (or_introl eq_refl) Hyin), <- (H3 x' y' (or_intror Hx') Hyx'). congruence. }
    match goal with Hn : ~ In (k1 x) (map k1 l) |- _ => apply Hn end.
    rewrite E. apply in_map. exact Hx'.
Qed.

Lemma NoDup_map_inj2 {A B C} (g : A -> B) (h : B -> C) l :
  (forall a b, h a = h b -> a = b) -> NoDup (map g l) -> NoDup (map (fun x => h (g x)) l).
Proof.
  intros Hinj. induction l as [|x l IH]; cbn; intros H; [constructor|].
  inversion H; subst. constructor; [|apply IH; assumption].
  intros Hin. apply in_map_iff in Hin. destruct Hin as [y [Hy Hyin]]. apply Hinj in Hy.
  match goal with Hn : ~ In (g x) (map g l) |- _ => apply Hn end. rewrite <- Hy. apply in_map. exact Hyin.
Qed.

Lemma NoDup_map_injective {A B} (f : A -> B) l x y :
  NoDup (map f l) -> In x l -> In y l -> f x = f y -> x = y.
Proof.
  induction l as [|a l IH]; cbn; intros H Hx Hy E; [contradiction|].
  inversion H; subst.
  destruct Hx as [Hx|Hx], Hy as [Hy|Hy]; subst.
  - reflexivity.
  - exfalso. match goal with Hn : ~ In _ _ |- _ => apply Hn end. rewrite E. apply in_map. exact Hy.
  - exfalso. match goal with Hn : ~ In _ _ |- _ => apply Hn end. rewrite <- E. apply in_map. exact Hx.
  - apply IH; assumption.
Qed.

Lemma map_eq_In {A B} (f : A -> B) l l' x : map f l = map f l' -> In x l -> exists y, In y l' /\ f y = f x.
Proof.
  intros E Hx. apply (in_map f) in Hx. rewrite E in Hx. apply in_map_iff in Hx.
  destruct Hx as [y [H1 H2]]. exists y. auto.
Qed.

(* ---------- keys ---------- *)

Definition ekey (e : entry) : N * N * N := (e_db e, e_rp e, g_id (e_g e)).
(* everything the property looks at except the deletion mark *)
Definition estatic (e : entry) : (N * N * N) * Z * Z * list N :=
  (ekey e, e_dur e, g_end (e_g e), shard_ids (e_g e)).
Definition mark (t : Z) (e : entry) : entry := mkE (e_db e) (e_rp e) (e_dur e) (set_del t (e_g e)).

Lemma estatic_mark t e : estatic (mark t e) = estatic e.
Proof. reflexivity. Qed.
Lemma estatic_key e e' : estatic e = estatic e' -> ekey e = ekey e'.
Proof. unfold estatic. intros H. congruence. Qed.

Lemma key_is_ekey db rp gid e : key_is db rp gid e = true <-> ekey e = (db, rp, gid).
Proof.
  unfold key_is, ekey. rewrite !andb_true_iff, !N.eqb_eq. split.
  - intros [[-> ->] ->]. reflexivity.
  - intros H. inversion H. auto.
Qed.

Lemma wf_keys_nodup m : wf m -> NoDup (map ekey (entries m)).
Proof.
  intros [H1 H2]. unfold entries.
  apply (NoDup_flat_map_keys db_entries ekey db_name (fun k => fst (fst k))); [exact H1| |].
  - intros d Hd. rewrite Forall_forall in H2. destruct (H2 d Hd) as [H3 H4]. unfold db_entries.
    apply (NoDup_flat_map_keys (rp_entries (db_name d)) ekey rp_name (fun k => snd (fst k))); [exact H3| |].
    + intros r Hr. rewrite Forall_forall in H4. specialize (H4 r Hr). unfold wf_rp in H4.
      unfold rp_entries. rewrite map_map. unfold ekey. cbn [e_db e_rp e_g].
      apply (NoDup_map_inj2 g_id (fun i => (db_name d, rp_name r, i))); [|exact H4].
      intros a b E. inversion E. reflexivity.
    + intros r y Hr Hy. unfold rp_entries in Hy. apply in_map_iff in Hy. destruct Hy as [g [<- _]]. reflexivity.
  - intros d y Hd Hy. unfold db_entries in Hy. apply in_flat_map in Hy. destruct Hy as [r [_ Hy]].
    unfold rp_entries in Hy. apply in_map_iff in Hy. destruct Hy as [g [<- _]]. reflexivity.
Qed.

(* ---------- upd_first ---------- *)

Lemma upd_first_decomp {A} (p : A -> bool) f : forall l l',
  upd_first p f l = Some l' ->
  exists l1 x y l2, l = l1 ++ x :: l2 /\ l' = l1 ++ y :: l2 /\ p x = true /\ f x = Some y.
Proof.
  induction l as [|a l IH]; intros l' H; cbn in H; [discriminate|].
  destruct (p a) eqn:Ep.
  - destruct (f a) as [y|] eqn:Ef; [|discriminate]. inversion H; subst.
    exists [], a, y, l. auto.
  - destruct (upd_first p f l) as [r|] eqn:Er; [|discriminate]. inversion H; subst.
    destruct (IH _ eq_refl) as [l1 [x [y [l2 [E1 [E2 [E3 E4]]]]]]].
    exists (a :: l1), x, y, l2. subst. auto.
Qed.

Lemma upd_first_none_key {A} (key : A -> N) (k : N) f l x :
  NoDup (map key l) -> In x l -> key x = k ->
  upd_first (fun y => N.eqb (key y) k) f l = None -> f x = None.
Proof.
  induction l as [|a l IH]; cbn; intros Hn Hx Hk H; [contradiction|].
  inversion Hn; subst.
  destruct (N.eqb (key a) (key x)) eqn:E.
  - apply N.eqb_eq in E.
    assert (a = x).
    { destruct Hx as [Hx|Hx]; [exact Hx|]. exfalso.
      match goal with Hnn : ~ In _ _ |- _ => apply Hnn end. rewrite E. apply in_map. exact Hx. }
    subst a. destruct (f x); [discriminate | reflexivity].
  - destruct Hx as [Hx|Hx]; [subst a; rewrite N.eqb_refl in E; discriminate|].
    destruct (upd_first (fun y => N.eqb (key y) (key x)) f l) eqn:Eu; [discriminate|].
    apply IH; auto.
Qed.

(* ---------- Data.DeleteShardGroup ---------- *)

Lemma delete_decomp m db rp gid t m' :
  delete_shard_group m db rp gid t = Some m' ->
  exists D1 d D2 R1 r R2 G1 g G2,
    m = D1 ++ d :: D2 /\ db_rps d = R1 ++ r :: R2 /\ rp_groups r = G1 ++ g :: G2 /\
    m' = D1 ++ mkDb (db_name d)
                 (R1 ++ mkPolicy (rp_name r) (rp_dur r) (rp_sgdur r) (G1 ++ set_del t g :: G2) :: R2) :: D2 /\
    db_name d = db /\ rp_name r = rp /\ g_id g = gid.
Proof.
  unfold delete_shard_group. intros H.
  apply upd_first_decomp in H. destruct H as [D1 [d [d' [D2 [E1 [E2 [E3 E4]]]]]]].
  unfold del_in_db in E4.
  destruct (upd_first (fun r => N.eqb (rp_name r) rp) (del_in_rp gid t) (db_rps d)) as [rs|] eqn:Er; [|discriminate].
  inversion E4; subst d'; clear E4.
  apply upd_first_decomp in Er. destruct Er as [R1 [r [r' [R2 [F1 [F2 [F3 F4]]]]]]].
  unfold del_in_rp in F4.
  destruct (upd_first (fun g => N.eqb (g_id g) gid) (fun g => Some (set_del t g)) (rp_groups r)) as [gs|] eqn:Eg; [|discriminate].
  inversion F4; subst r'; clear F4.
  apply upd_first_decomp in Eg. destruct Eg as [G1 [g [g' [G2 [K1 [K2 [K3 K4]]]]]]].
  inversion K4; subst g'; clear K4.
  apply N.eqb_eq in E3, F3, K3.
  exists D1, d, D2, R1, r, R2, G1, g, G2. subst. auto 10.
Qed.

Lemma entries_app a b : entries (a ++ b) = entries a ++ entries b.
Proof. unfold entries. apply flat_map_app. Qed.

Lemma delete_entries m db rp gid t m' :
  delete_shard_group m db rp gid t = Some m' ->
  exists E1 e E2, entries m = E1 ++ e :: E2 /\ entries m' = E1 ++ mark t e :: E2 /\ ekey e = (db, rp, gid).
Proof.
  intros H. apply delete_decomp in H.
  destruct H as [D1 [d [D2 [R1 [r [R2 [G1 [g [G2 [E1 [E2 [E3 [E4 [E5 [E6 E7]]]]]]]]]]]]]]].
  exists (entries D1 ++ flat_map (rp_entries (db_name d)) R1 ++ map (mkE (db_name d) (rp_name r) (rp_dur r)) G1),
         (mkE (db_name d) (rp_name r) (rp_dur r) g),
         (map (mkE (db_name d) (rp_name r) (rp_dur r)) G2 ++ flat_map (rp_entries (db_name d)) R2 ++ entries D2).
  split; [|split].
  - rewrite E1, entries_app. change (entries (d :: D2)) with (db_entries d ++ entries D2).
    unfold db_entries. rewrite E2, flat_map_app. cbn [flat_map]. unfold rp_entries at 2. rewrite E3, map_app.
    cbn [map]. rewrite <- !app_assoc. reflexivity.
  - rewrite E4, entries_app.
    match goal with |- context [entries (?d' :: D2)] => change (entries (d' :: D2)) with (db_entries d' ++ entries D2) end.
    unfold db_entries. cbn [db_name db_rps]. rewrite flat_map_app. cbn [flat_map]. unfold rp_entries at 2.
    cbn [rp_name rp_dur rp_groups]. rewrite map_app. cbn [map]. rewrite <- !app_assoc. reflexivity.
  - unfold ekey. cbn. congruence.
Qed.

Lemma delete_wf m db rp gid t m' : delete_shard_group m db rp gid t = Some m' -> wf m -> wf m'.
Proof.
  intros H [W1 W2]. apply delete_decomp in H.
  destruct H as [D1 [d [D2 [R1 [r [R2 [G1 [g [G2 [E1 [E2 [E3 [E4 _]]]]]]]]]]]]].
  subst m m'. split.
  - rewrite map_app in *. cbn [map db_name] in *. exact W1.
  - apply Forall_app in W2. destruct W2 as [W2 W3]. inversion W3 as [|? ? W4 W5]; subst.
    apply Forall_app. split; [exact W2|]. constructor; [|exact W5].
    destruct W4 as [W6 W7]. unfold wf_db. cbn [db_rps]. rewrite E2 in W6, W7. split.
    + rewrite map_app in *. cbn [map rp_name] in *. exact W6.
    + apply Forall_app in W7. destruct W7 as [W7 W8]. inversion W8 as [|? ? W9 W10]; subst.
      apply Forall_app. split; [exact W7|]. constructor; [|exact W10].
      unfold wf_rp in *. cbn [rp_groups]. rewrite E3 in W9. rewrite map_app in *. cbn [map] in *. exact W9.
Qed.

Lemma delete_succeeds m e t :
  wf m -> In e (entries m) -> delete_shard_group m (e_db e) (e_rp e) (g_id (e_g e)) t <> None.
Proof.
  intros [W1 W2] He Hnone. destruct (entry_inv m e He) as [d [r [Hd [Hr [Hg Heq]]]]].
  rewrite Heq in Hnone. cbn [e_db e_rp e_g] in Hnone. unfold delete_shard_group in Hnone.
  apply (upd_first_none_key db_name (db_name d) _ m d W1 Hd eq_refl) in Hnone.
  rewrite Forall_forall in W2. destruct (W2 d Hd) as [W3 W4].
  unfold del_in_db in Hnone.
  destruct (upd_first (fun r0 => N.eqb (rp_name r0) (rp_name r)) (del_in_rp (g_id (e_g e)) t) (db_rps d)) eqn:Er; [discriminate|].
  apply (upd_first_none_key rp_name (rp_name r) _ (db_rps d) r W3 Hr eq_refl) in Er.
  rewrite Forall_forall in W4. specialize (W4 r Hr). unfold wf_rp in W4.
  unfold del_in_rp in Er.
  destruct (upd_first (fun g => N.eqb (g_id g) (g_id (e_g e))) (fun g => Some (set_del t g)) (rp_groups r)) eqn:Eg; [discriminate|].
  apply (upd_first_none_key g_id (g_id (e_g e)) _ (rp_groups r) (e_g e) W4 Hg eq_refl) in Eg. discriminate.
Qed.

(* ---------- prune ---------- *)

Lemma prune_entries_incl tp m e : In e (entries (prune tp m)) -> In e (entries m).
Proof.
  intros H. destruct (entry_inv _ _ H) as [d' [r' [Hd [Hr [Hg Heq]]]]].
  unfold prune in Hd. apply in_map_iff in Hd. destruct Hd as [d [<- Hd]].
  cbn [prune_db db_rps db_name] in *. apply in_map_iff in Hr. destruct Hr as [r [<- Hr]].
  cbn [prune_rp rp_groups rp_name rp_dur] in *. apply filter_In in Hg. destruct Hg as [Hg _].
  rewrite Heq. apply entry_in; assumption.
Qed.

Lemma NoDup_map_filter {A B} (f : A -> B) p l : NoDup (map f l) -> NoDup (map f (filter p l)).
Proof.
  induction l as [|a l IH]; cbn; intros H; [constructor|]. inversion H; subst.
  destruct (p a); cbn; [constructor|]; try (apply IH; assumption).
  intros Hin. apply in_map_iff in Hin. destruct Hin as [y [Hy Hyin]]. apply filter_In in Hyin.
  match goal with Hn : ~ In _ _ |- _ => apply Hn end. rewrite <- Hy. apply in_map. tauto.
Qed.

Lemma prune_wf tp m : wf m -> wf (prune tp m).
Proof.
  intros [W1 W2]. unfold prune. split.
  - rewrite map_map. cbn [prune_db db_name]. exact W1.
  - apply Forall_forall. intros d' Hd. apply in_map_iff in Hd. destruct Hd as [d [<- Hd]].
    rewrite Forall_forall in W2. destruct (W2 d Hd) as [W3 W4]. unfold wf_db. cbn [prune_db db_rps]. split.
    + rewrite map_map. cbn [prune_rp rp_name]. exact W3.
    + apply Forall_forall. intros r' Hr. apply in_map_iff in Hr. destruct Hr as [r [<- Hr]].
      rewrite Forall_forall in W4. specialize (W4 r Hr). unfold wf_rp in *. cbn [prune_rp rp_groups].
      apply NoDup_map_filter. exact W4.
Qed.

(* ---------- oracle without failures ---------- *)

Lemma next_fok o : forallb is_fok o = true -> fst (next o) = FOk /\ forallb is_fok (snd (next o)) = true.
Proof.
  destruct o as [|f o]; cbn; [auto|]. intros H. apply andb_true_iff in H. destruct H as [H1 H2].
  destruct f; try discriminate. auto.
Qed.

(* ---------- the metadata loops on a clean input ---------- *)

Section Complete.
Variable snap : meta.
Variable now tdel : Z.
Hypothesis wf_snap : wf snap.

Definition alldel (D : list entry) (a : meta) : Prop :=
  forall e, In e D -> forall e', In e' (entries a) -> ekey e' = ekey e -> e_deleted e' = true.

Definition cinv (D : list entry) (s : mstate) : Prop :=
  map estatic (entries (m_auth s)) = map estatic (entries snap) /\
  (forall e', In e' (entries (m_auth s)) -> e_deleted e' = true ->
     (exists e, In e (entries snap) /\ estatic e = estatic e' /\ e_deleted e = true) \/
     (forall id, holds e' id = true -> mem id (m_del s) = true)) /\
  wf (m_auth s) /\
  forallb is_fok (m_orc s) = true /\
  forallb call_ok (m_calls s) = true /\
  alldel D (m_auth s).

Lemma keys_of_static a : map estatic (entries a) = map estatic (entries snap) ->
  map ekey (entries a) = map ekey (entries snap).
Proof.
  intros H. assert (E : forall l, map ekey l = map (fun s => fst (fst (fst s))) (map estatic l)).
  { intros l. rewrite map_map. reflexivity. }
  rewrite !E, H. reflexivity.
Qed.

Lemma mark_step_cinv dbn rpn dur g D s :
  In (mkE dbn rpn dur g) (entries snap) -> cinv D s ->
  cinv (D ++ [mkE dbn rpn dur g]) (mark_step tdel dbn rpn s g).
Proof.
  intros Hin [C1 [C2 [C4 [C5 [C6 C7]]]]].
  set (e0 := mkE dbn rpn dur g) in *.
  destruct (next_fok _ C5) as [Hf Ho].
  destruct (map_eq_In estatic _ _ e0 (eq_sym C1) Hin) as [e1 [He1 Hs1]].
  pose proof (estatic_key _ _ Hs1) as Hk1.
  destruct (delete_shard_group (m_auth s) dbn rpn (g_id g) tdel) as [a|] eqn:Ed.
  2:{ exfalso. apply (delete_succeeds (m_auth s) e1 tdel C4 He1).
      unfold ekey in Hk1. inversion Hk1 as [[K1 K2 K3]]. rewrite K1, K2, K3. exact Ed. }
  assert (Hstep : mark_step tdel dbn rpn s g =
                  mkM a (snd (next (m_orc s))) (m_calls s ++ [CDelGroup dbn rpn (g_id g) true]) (m_del s ++ shard_ids g)).
  { unfold mark_step. destruct (next (m_orc s)) as [f o']. cbn [fst snd] in *. subst f. rewrite Ed. reflexivity. }
  rewrite Hstep. clear Hstep.
  destruct (delete_entries _ _ _ _ _ _ Ed) as [E1 [ex [E2 [HE [HE' Hkx]]]]].
  assert (Hnd : NoDup (map ekey (entries (m_auth s)))).
  { rewrite (keys_of_static _ C1). apply wf_keys_nodup. exact wf_snap. }
  assert (Hnds : NoDup (map ekey (entries snap))) by (apply wf_keys_nodup; exact wf_snap).
  assert (Hother : forall e', In e' (E1 ++ E2) -> ekey e' <> ekey ex).
  { intros e' He' Heq. rewrite HE, map_app in Hnd. cbn [map] in Hnd. apply NoDup_remove_2 in Hnd.
    apply Hnd. rewrite <- Heq, <- map_app. apply in_map. exact He'. }
  assert (Hin' : forall e', In e' (entries a) -> e' = mark tdel ex \/ (In e' (entries (m_auth s)) /\ In e' (E1 ++ E2))).
  { intros e' He'. rewrite HE' in He'. apply in_app_or in He'. destruct He' as [He'|[He'|He']].
    - right. split; [rewrite HE; apply in_or_app; left; exact He' | apply in_or_app; left; exact He'].
    - left. symmetry. exact He'.
    - right. split; [rewrite HE; apply in_or_app; right; right; exact He' | apply in_or_app; right; exact He']. }
  assert (Hex : In ex (entries (m_auth s))) by (rewrite HE; apply in_or_app; right; left; reflexivity).
  unfold cinv. cbn [m_auth m_orc m_calls m_del]. split; [|split; [|split; [|split; [|split]]]].
  - rewrite HE', <- C1, HE, !map_app. cbn [map]. rewrite estatic_mark. reflexivity.
  - intros e' He' Hdel. destruct (Hin' e' He') as [->|[Hold _]].
    + right. intros id Hid. rewrite mem_app. apply orb_true_iff. right.
      destruct (map_eq_In estatic _ _ ex C1 Hex) as [e2 [He2 Hs2]].
      assert (e2 = e0).
      { apply (NoDup_map_injective ekey (entries snap)); try assumption.
        rewrite (estatic_key _ _ Hs2), Hkx. reflexivity. }
      subst e2. unfold holds in Hid. cbn [mark e_g set_del shard_ids g_shards] in Hid.
      unfold estatic in Hs2. inversion Hs2 as [[K1 K2 K3 K4 K5 K6]]. unfold shard_ids in K6 at 1. cbn [e0 e_g] in K6.
      fold (shard_ids g) in K6. rewrite K6. exact Hid.
    + destruct (C2 e' Hold Hdel) as [Hl|Hr]; [left; exact Hl|right].
      intros id Hid. rewrite mem_app, (Hr id Hid). reflexivity.
  - apply (delete_wf _ _ _ _ _ _ Ed). exact C4.
  - exact Ho.
  - rewrite forallb_app, C6. reflexivity.
  - intros e He e' He' Hk. destruct (Hin' e' He') as [->|[Hold Hoth]]; [reflexivity|].
    apply in_app_or in He. destruct He as [He|[He|[]]].
    + apply (C7 e He e' Hold Hk).
    + exfalso. subst e. apply (Hother e' Hoth). rewrite Hk, Hkx. reflexivity.
Qed.

Lemma cinv_del_mono D a o c d x : cinv D (mkM a o c d) -> cinv D (mkM a o c (d ++ x)).
Proof.
  intros [C1 [C2 [C4 [C5 [C6 C7]]]]]. unfold cinv in *. cbn [m_auth m_orc m_calls m_del] in *.
  split; [exact C1|]. split; [|auto].
  intros e' He' Hd. destruct (C2 e' He' Hd) as [Hl|Hr]; [left; exact Hl|right].
  intros id Hid. rewrite mem_app, (Hr id Hid). reflexivity.
Qed.

Lemma mark_fold_cinv dbn rpn dur gs : forall s D,
  (forall g, In g gs -> In (mkE dbn rpn dur g) (entries snap)) -> cinv D s ->
  cinv (D ++ map (mkE dbn rpn dur) gs) (fold_left (mark_step tdel dbn rpn) gs s).
Proof.
  induction gs as [|g gs IH]; intros s D H Hc; cbn [fold_left map].
  - rewrite app_nil_r. exact Hc.
  - replace (D ++ mkE dbn rpn dur g :: map (mkE dbn rpn dur) gs)
      with ((D ++ [mkE dbn rpn dur g]) ++ map (mkE dbn rpn dur) gs) by (rewrite <- app_assoc; reflexivity).
    apply IH; [intros g' Hg'; apply H; right; exact Hg'|].
    apply mark_step_cinv; [apply H; left; reflexivity | exact Hc].
Qed.

Lemma rp_fold_cinv dbn rs : forall s D,
  (forall r g, In r rs -> In g (rp_groups r) -> In (mkE dbn (rp_name r) (rp_dur r) g) (entries snap)) ->
  cinv D s ->
  cinv (D ++ flat_map (rp_expired now dbn) rs) (fold_left (rp_step now tdel dbn) rs s).
Proof.
  induction rs as [|r rs IH]; intros s D H Hc; cbn [fold_left flat_map].
  - rewrite app_nil_r. exact Hc.
  - rewrite app_assoc. apply IH; [intros r' g Hr' Hg; apply H; [right; exact Hr' | exact Hg]|].
    unfold rp_step, rp_expired. apply mark_fold_cinv.
    + intros g Hg. unfold expired_groups in Hg. apply filter_In in Hg. apply H; [left; reflexivity | tauto].
    + destruct s as [a o c d]. cbn [m_auth m_orc m_calls m_del]. apply cinv_del_mono. exact Hc.
Qed.

Lemma db_fold_cinv ds : forall s D,
  (forall d r g, In d ds -> In r (db_rps d) -> In g (rp_groups r) ->
                 In (mkE (db_name d) (rp_name r) (rp_dur r) g) (entries snap)) ->
  cinv D s ->
  cinv (D ++ flat_map (db_expired now) ds) (fold_left (db_step now tdel) ds s).
Proof.
  induction ds as [|d ds IH]; intros s D H Hc; cbn [fold_left flat_map].
  - rewrite app_nil_r. exact Hc.
  - rewrite app_assoc. apply IH; [intros d' r g Hd'; apply H; right; exact Hd'|].
    unfold db_step, db_expired. apply rp_fold_cinv; [|exact Hc].
    intros r g Hr Hg. apply H; [left; reflexivity | exact Hr | exact Hg].
Qed.

Lemma cinv_init orc :
  forallb is_fok orc = true -> cinv (filter e_deleted (entries snap)) (mkM snap orc [] []).
Proof.
  intros Ho. unfold cinv. cbn [m_auth m_orc m_calls m_del]. repeat split; try assumption; try reflexivity.
  - intros e' He' Hd. left. exists e'. auto.
  - destruct wf_snap; assumption.
  - destruct wf_snap; assumption.
  - intros e He e' He' Hk. apply filter_In in He. destruct He as [He Hd].
    assert (e' = e) by (apply (NoDup_map_injective ekey (entries snap)); try assumption; apply wf_keys_nodup; exact wf_snap).
    subst. exact Hd.
Qed.

(* ids of groups the snapshot shows as deleted all end up in the deletedShardIDs map *)
Definition dels (E : list entry) (d : list N) : Prop :=
  forall e, In e E -> e_deleted e = true -> forall id, holds e id = true -> mem id d = true.

Lemma mark_fold_del_mono dbn rpn gs id : forall s,
  mem id (m_del s) = true -> mem id (m_del (fold_left (mark_step tdel dbn rpn) gs s)) = true.
Proof.
  induction gs as [|g gs IH]; intros s H; cbn [fold_left]; [exact H|]. apply IH.
  destruct (mark_step_shape tdel dbn rpn s g) as [ok [_ [Hd|[_ Hd]]]]; rewrite Hd; [exact H|].
  rewrite mem_app, H. reflexivity.
Qed.

Lemma rp_step_dels dbn r s E :
  dels E (m_del s) -> dels (E ++ rp_entries dbn r) (m_del (rp_step now tdel dbn s r)).
Proof.
  intros H e He Hd id Hid. unfold rp_step. apply mark_fold_del_mono. cbn [m_del]. rewrite mem_app.
  apply in_app_or in He. destruct He as [He|He]; [rewrite (H e He Hd id Hid); reflexivity|].
  unfold rp_entries in He. apply in_map_iff in He. destruct He as [g [<- Hg]].
  unfold e_deleted, holds in *. cbn [e_g] in *.
  apply orb_true_iff. right. apply mem_In. apply in_flat_map. exists g. split.
  - unfold deleted_groups. apply filter_In. auto.
  - apply mem_In. exact Hid.
Qed.

Lemma rp_fold_dels dbn rs : forall s E,
  dels E (m_del s) -> dels (E ++ flat_map (rp_entries dbn) rs) (m_del (fold_left (rp_step now tdel dbn) rs s)).
Proof.
  induction rs as [|r rs IH]; intros s E H; cbn [fold_left flat_map].
  - rewrite app_nil_r. exact H.
  - rewrite app_assoc. apply IH. apply rp_step_dels. exact H.
Qed.

Lemma db_fold_dels ds : forall s E,
  dels E (m_del s) -> dels (E ++ flat_map db_entries ds) (m_del (fold_left (db_step now tdel) ds s)).
Proof.
  induction ds as [|d ds IH]; intros s E H; cbn [fold_left flat_map].
  - rewrite app_nil_r. exact H.
  - rewrite app_assoc. apply IH. unfold db_step, db_entries. apply rp_fold_dels. exact H.
Qed.

(* the result of the metadata loops on a clean input *)
Lemma meta_phase_complete orc :
  forallb is_fok orc = true ->
  let s1 := meta_phase now tdel snap (mkM snap orc [] []) in
  forallb call_ok (m_calls s1) = true /\ forallb is_fok (m_orc s1) = true /\ wf (m_auth s1) /\ (forall e', In e' (entries (m_auth s1)) -> e_expired now e' = false) /\ (forall e', In e' (entries (m_auth s1)) -> e_deleted e' = true ->
              forall id, holds e' id = true -> mem id (m_del s1) = true).
Proof.
  intros Ho s1.
  assert (C : cinv (filter e_deleted (entries snap) ++ flat_map (db_expired now) snap) s1).
  { unfold s1, meta_phase. apply db_fold_cinv; [|apply cinv_init; exact Ho].
    intros d r g Hd Hr Hg. apply entry_in; assumption. }
  assert (Dl : dels (entries snap) (m_del s1)).
  { unfold s1, meta_phase. apply (db_fold_dels snap (mkM snap orc [] []) []). intros e []. }
  destruct C as [C1 [C2 [C4 [C5 [C6 C7]]]]].
  split; [exact C6|]. split; [exact C5|]. split; [exact C4|]. split.
  - intros e' He'. destruct (e_expired now e') eqn:Hexp; [|reflexivity]. exfalso.
    destruct (map_eq_In estatic _ _ e' C1 He') as [e [He Hs]].
    pose proof (estatic_key _ _ Hs) as Hk.
    unfold e_expired in Hexp. pose proof Hexp as Hexp'. apply expired_at_spec in Hexp'. destruct Hexp' as [Hnd [Hdur Hend]].
    assert (Hdel' : e_deleted e' = true).
    { destruct (e_deleted e) eqn:Hde.
      - apply (C7 e); [apply in_or_app; left; apply filter_In; auto | exact He' | symmetry; exact Hk].
      - apply (C7 e); [apply in_or_app; right | exact He' | symmetry; exact Hk].
        apply expired_entry_listed; [exact He|]. unfold e_expired. apply expired_at_spec.
        unfold estatic in Hs. inversion Hs as [[K1 K2 K3 K4 K5 K6]]. unfold e_deleted in Hde.
        rewrite K4, K5. auto. }
    unfold e_deleted in Hdel'. congruence.
  - intros e' He' Hd id Hid. destruct (C2 e' He' Hd) as [[e [He [Hs Hde]]]|Hr]; [|apply Hr; exact Hid].
    apply (Dl e He Hde). unfold holds in *. unfold estatic in Hs. inversion Hs as [[K1 K2 K3 K4 K5 K6]].
    rewrite K6. exact Hid.
Qed.

End Complete.

(* ---------- shard loop without failures ---------- *)

Lemma remove_id_not_in id l : ~ In id (remove_id id l).
Proof. unfold remove_id. intros H. apply filter_In in H. destruct H as [_ H]. rewrite N.eqb_refl in H. discriminate. Qed.

Lemma shard_fold_fok del ids : forall s P,
  forallb is_fok (s_orc s) = true -> forallb call_ok (s_calls s) = true ->
  (forall x, In x (s_local s) -> In x P -> mem x del = false) ->
  let s' := fold_left (shard_step del) ids s in
  forallb is_fok (s_orc s') = true /\ forallb call_ok (s_calls s') = true /\ (forall x, In x (s_local s') -> In x (P ++ ids) -> mem x del = false).
Proof.
  induction ids as [|id ids IH]; intros s P Ho Hc Hl; cbn [fold_left].
  - rewrite app_nil_r. auto.
  - replace (P ++ id :: ids) with ((P ++ [id]) ++ ids) by (rewrite <- app_assoc; reflexivity).
    apply IH; unfold shard_step; destruct (mem id del) eqn:Em.
    + destruct (next_fok _ Ho) as [Hf Ho']. destruct (next (s_orc s)) as [f o']. cbn [fst snd] in *. subst f. exact Ho'.
    + exact Ho.
    + destruct (next_fok _ Ho) as [Hf Ho']. destruct (next (s_orc s)) as [f o']. cbn [fst snd] in *. subst f.
      cbn [s_calls]. rewrite forallb_app, Hc. reflexivity.
    + exact Hc.
    + destruct (next_fok _ Ho) as [Hf Ho']. destruct (next (s_orc s)) as [f o']. cbn [fst snd] in *. subst f.
      cbn [s_local]. intros x Hx HP. apply in_app_or in HP. destruct HP as [HP|[HP|[]]].
      * apply Hl; [apply (remove_id_incl id); exact Hx | exact HP].
      * subst x. exfalso. apply (remove_id_not_in id (s_local s)). exact Hx.
    + intros x Hx HP. apply in_app_or in HP. destruct HP as [HP|[HP|[]]]; [apply Hl; assumption|].
      subst x. exact Em.
Qed.

(* ---------- the clean pass is complete ---------- *)

Lemma pass_fok i :
  fst (next (s_orc (pass_s2 i))) = FOk ->
  pass i = mkResult (s_calls (pass_s2 i) ++ [CPrune true]) (prune (i_tprune i) (m_auth (pass_s1 i)))
                    (s_local (pass_s2 i)).
Proof. unfold pass_s2, pass_s1, pass. cbv zeta. intros H. rewrite H. reflexivity. Qed.

Lemma clean_inv i : clean i = true -> forallb is_fok (i_orc i) = true /\ i_auth i = i_snap i /\ wf (i_snap i).
Proof.
  unfold clean. intros H. apply andb_true_iff in H. destruct H as [H H3]. apply andb_true_iff in H.
  destruct H as [H1 H2]. apply meta_eqb_sound in H2. apply wf_b_sound in H3. auto.
Qed.

Lemma pass_clean_complete i :
  forallb is_fok (i_orc i) = true -> i_auth i = i_snap i -> wf (i_snap i) ->
  forallb call_ok (r_calls (pass i)) = true /\ nothing_left (i_now i) (r_auth (pass i)) (r_local (pass i)) = true /\ wf (r_auth (pass i)).
Proof.
  intros Ho Ha Hw.
  pose proof (meta_phase_complete (i_snap i) (i_now i) (i_tdel i) Hw (i_orc i) Ho) as M. cbv zeta in M.
  assert (E1 : pass_s1 i = meta_phase (i_now i) (i_tdel i) (i_snap i) (mkM (i_snap i) (i_orc i) [] [])).
  { unfold pass_s1. rewrite Ha. reflexivity. }
  rewrite <- E1 in M. destruct M as [M1 [M2 [M3 [M4 M5]]]].
  pose proof (shard_fold_fok (m_del (pass_s1 i)) (i_local i)
                (mkS (m_orc (pass_s1 i)) (m_calls (pass_s1 i)) (i_local i)) [] M2 M1) as S.
  cbv zeta in S. fold (pass_s2 i) in S. destruct S as [S1 [S2 S3]]; [intros x _ []|].
  destruct (next_fok _ S1) as [Hf _]. rewrite (pass_fok i Hf). cbn [r_calls r_auth r_local].
  split; [rewrite forallb_app, S2; reflexivity|]. split; [|apply prune_wf; exact M3].
  unfold nothing_left. apply andb_true_iff. split.
  - apply forallb_forall. intros e He. apply prune_entries_incl in He. rewrite (M4 e He). reflexivity.
  - apply forallb_forall. intros id Hid. apply negb_true_iff.
    destruct (existsb (fun e => e_deleted e && holds e id) (entries (prune (i_tprune i) (m_auth (pass_s1 i))))) eqn:Ex; [|reflexivity].
    exfalso. apply existsb_exists in Ex. destruct Ex as [e [He Hdh]]. apply andb_true_iff in Hdh.
    destruct Hdh as [Hd Hh]. apply prune_entries_incl in He.
    pose proof (M5 e He Hd id Hh) as Hm.
    assert (Hl : In id (i_local i)).
    { destruct (pass_s2_sinv i) as [_ [_ [_ Hsub]]]. apply Hsub. exact Hid. }
    rewrite (S3 id Hid Hl) in Hm. discriminate.
Qed.

(* ---------- the link: the model satisfies the executable spec on every input ---------- *)

Theorem spec_ok_model : forall i, spec_ok i (pass i) = true.
Proof.
  intros i. unfold spec_ok. rewrite pass_calls_safe, pass_attempts, pass_local_subset. cbn [andb].
  destruct (clean i) eqn:Hc; [|reflexivity].
  destruct (clean_inv i Hc) as [H1 [H2 H3]].
  destruct (pass_clean_complete i H1 H2 H3) as [A [B _]]. rewrite A, B. reflexivity.
Qed.
