(* C17/Store.v — executable model of what removing a shard does to the rest of a
   tsdb.Store.  Definitions only (model, observation, executable specification).

   tsdb/store.go   Store.DeleteShard   ([delete_shard])
                   Store.WriteToShard  ([write_shard]: series creation in the series file /
                                        shared inmem index, as far as DeleteShard depends on it)
                   Store.Close + Open  ([reopen]: the shared inmem index is rebuilt)

   Abstract store: the shard map (id -> database, retention policy, index type, series with
   their points), per database the series file (set of live series keys) and the shared
   in-memory index of the database (inmem.Index: one per database, used by all its inmem
   shards).  A series key is (measurement, tag value) — the series file maps keys to IDs
   bijectively per database, so sets of IDs (SeriesIDSet) are sets of keys here. *)
From Coq Require Export List NArith ZArith Lia Bool.
Export ListNotations.
Open Scope N_scope.

Definition skey := (N * N)%type.
Definition pt := (Z * Z)%type.
Definition series := (skey * list pt)%type.

Definition key_eqb (a b : skey) : bool := N.eqb (fst a) (fst b) && N.eqb (snd a) (snd b).
Definition kmem (k : skey) (l : list skey) : bool := existsb (key_eqb k) l.
Definition nmem (x : N) (l : list N) : bool := existsb (N.eqb x) l.

Record sshard := mkSS { ss_id : N; ss_db : N; ss_rp : N; ss_inmem : bool; ss_series : list series }.

(* database -> keys *)
Definition dbmap := list (N * list skey).
Record store := mkSt { st_shards : list sshard; st_sfile : dbmap; st_inmem : dbmap }.

Fixpoint lookup (db : N) (m : dbmap) : list skey :=
  match m with
  | [] => []
  | e :: r => if N.eqb (fst e) db then snd e else lookup db r
  end.

Definition keys (s : sshard) : list skey := map fst (ss_series s).
(* SeriesIDSet.Diff *)
Definition diff (a b : list skey) : list skey := filter (fun k => negb (kmem k b)) a.

Definition remove_keys (db : N) (ks : list skey) (m : dbmap) : dbmap :=
  map (fun e => if N.eqb (fst e) db then (fst e, diff (snd e) ks) else e) m.
Definition has_db (db : N) (m : dbmap) : bool := existsb (fun e => N.eqb (fst e) db) m.
Definition add_to (k : skey) (l : list skey) : list skey := if kmem k l then l else k :: l.
Definition add_key (db : N) (k : skey) (m : dbmap) : dbmap :=
  if has_db db m then map (fun e => if N.eqb (fst e) db then (fst e, add_to k (snd e)) else e) m
  else m ++ [(db, [k])].

Definition find_shard (st : store) (id : N) : option sshard :=
  find (fun s => N.eqb (ss_id s) id) (st_shards st).

(* ---------- Store.DeleteShard ---------- *)

(*  sh := s.Shard(shardID); if sh == nil { return ErrShardNotFound }
    delete(s.shards, shardID)
    shards := s.filterShards(byDatabase(db))          -- every remaining shard of the DATABASE,
                                                         whatever its retention policy
    ss := index.SeriesIDSet(); walkShards(shards, ss.Diff(index.SeriesIDSet()))
    ss.ForEach: [inmem] index.DropSeriesGlobal(key); sfile.DeleteSeriesID(id)
    sh.Close(); os.RemoveAll(...)
   The shared inmem index is updated when the deleted shard uses it or — since "fix: DeleteShard
   left series in the shared inmem index ..." — when a remaining shard of the database does.
   Not modelled: pendingShardDeletes / epoch tracking (C10), failing Index() of a closed
   shard, file-system errors. *)
Inductive derr := DOk | DNotFound.

Definition others_of (st : store) (id db : N) : list sshard :=
  filter (fun s => N.eqb (ss_db s) db) (filter (fun s => negb (N.eqb (ss_id s) id)) (st_shards st)).
Definition exclusive (sh : sshard) (others : list sshard) : list skey :=
  fold_left (fun acc o => diff acc (keys o)) others (keys sh).

Definition delete_shard (st : store) (id : N) : derr * store :=
  match find_shard st id with
  | None => (DNotFound, st)
  | Some sh =>
      let db := ss_db sh in
      let others := others_of st id db in
      let ss := exclusive sh others in
      (DOk, mkSt (filter (fun s => negb (N.eqb (ss_id s) id)) (st_shards st))
                 (remove_keys db ss (st_sfile st))
                 (if ss_inmem sh || existsb ss_inmem others then remove_keys db ss (st_inmem st)
                  else st_inmem st))
  end.

(* ---------- Store.WriteToShard of the points of one series ---------- *)

Fixpoint upsert (k : skey) (pts : list pt) (l : list series) : list series :=
  match l with
  | [] => [(k, pts)]
  | e :: r => if key_eqb (fst e) k then (fst e, snd e ++ pts) :: r else e :: upsert k pts r
  end.

Definition write_shard (st : store) (id : N) (k : skey) (pts : list pt) : derr * store :=
  match find_shard st id with
  | None => (DNotFound, st)
  | Some sh =>
      (DOk, mkSt (map (fun s => if N.eqb (ss_id s) id
                                then mkSS (ss_id s) (ss_db s) (ss_rp s) (ss_inmem s) (upsert k pts (ss_series s))
                                else s) (st_shards st))
                 (add_key (ss_db sh) k (st_sfile st))
                 (if ss_inmem sh then add_key (ss_db sh) k (st_inmem st) else st_inmem st))
  end.

(* ---------- Close + Open: shards and series files are persistent, the shared inmem index
   of each database is rebuilt from its inmem shards ---------- *)

Fixpoint dedupe_n (l : list N) : list N :=
  match l with [] => [] | x :: r => if nmem x r then dedupe_n r else x :: dedupe_n r end.
Definition dbs_of (shs : list sshard) : list N := dedupe_n (map ss_db shs).
Definition build_inmem (shs : list sshard) : dbmap :=
  map (fun db => (db, flat_map keys (filter (fun s => N.eqb (ss_db s) db && ss_inmem s) shs))) (dbs_of shs).
Definition reopen (st : store) : store := mkSt (st_shards st) (st_sfile st) (build_inmem (st_shards st)).

(* the store the harness builds: shards created and written one after the other *)
Definition init_store (shs : list sshard) : store :=
  mkSt shs (map (fun db => (db, flat_map keys (filter (fun s => N.eqb (ss_db s) db) shs))) (dbs_of shs))
       (build_inmem shs).

Inductive sop := ODel (id : N) | OReopen | OWrite (id : N) (k : skey) (pts : list pt).
Definition err_code (e : derr) : N := match e with DOk => 0 | DNotFound => 1 end.
Definition apply_op (st : store) (o : sop) : N * store :=
  match o with
  | ODel id => let r := delete_shard st id in (err_code (fst r), snd r)
  | OReopen => (0, reopen st)
  | OWrite id k pts => let r := write_shard st id k pts in (err_code (fst r), snd r)
  end.

(* ---------- observation: what the public API returns ---------- *)

(* a series of a shard is found by queries when the series file has it (tombstoned series
   are filtered out) and, for an inmem shard, the shared inmem index has it *)
Definition visible (st : store) (s : sshard) (k : skey) : bool :=
  kmem k (lookup (ss_db s) (st_sfile st)) &&
  (if ss_inmem s then kmem k (lookup (ss_db s) (st_inmem st)) else true).
(* Shard.CreateIterator over every measurement: series and points *)
Definition read_shard (st : store) (s : sshard) : list series :=
  filter (fun e => visible st s (fst e)) (ss_series s).

Record shobs := mkShO { o_id : N; o_db : N; o_rp : N; o_series : list series }.
Record dbobs := mkDbO {
  d_db : N;
  d_sfile : list skey;   (* series-file membership *)
  d_names : list N;      (* Store.MeasurementNames(db) *)
  d_keys : list skey;    (* Store.TagValues over the database's shards *)
  d_card : N }.          (* Store.SeriesCardinality(db) *)
Record sobs := mkSO { so_shards : list shobs; so_dbs : list dbobs }.

Fixpoint dedupe (l : list skey) : list skey :=
  match l with [] => [] | x :: r => if kmem x r then dedupe r else x :: dedupe r end.
Definition count (l : list skey) : N := N.of_nat (length (dedupe l)).

Definition shard_obs (st : store) (s : sshard) : shobs :=
  mkShO (ss_id s) (ss_db s) (ss_rp s) (read_shard st s).
Definition db_shards (st : store) (db : N) : list sshard := filter (fun s => N.eqb (ss_db s) db) (st_shards st).
Definition vis_keys (st : store) (db : N) : list skey :=
  flat_map (fun s => map fst (read_shard st s)) (db_shards st db).
Definition all_keys (st : store) (db : N) : list skey := flat_map keys (db_shards st db).
Definition db_obs (st : store) (db : N) : dbobs :=
  mkDbO db (lookup db (st_sfile st))
        (* measurement names: tsi1 shards' live series, plus whatever the shared inmem
           index holds when the database has an inmem shard *)
        (map fst (vis_keys st db) ++
         (if existsb ss_inmem (db_shards st db) then map fst (lookup db (st_inmem st)) else []))
        (vis_keys st db)
        (* SeriesCardinality merges the shards' SeriesIDSets; the series file is not consulted *)
        (count (all_keys st db)).
Definition obs_of (dbs : list N) (st : store) : sobs :=
  mkSO (map (shard_obs st) (st_shards st)) (map (db_obs st) dbs).

(* ---------- executable specification, on observations only ---------- *)

(* comparison of observations: lists are compared as sets *)
Definition subset {A} (eqb : A -> A -> bool) (a b : list A) : bool :=
  forallb (fun x => existsb (eqb x) b) a.
Definition seteq {A} (eqb : A -> A -> bool) (a b : list A) : bool := subset eqb a b && subset eqb b a.
Fixpoint leqb {A} (eqb : A -> A -> bool) (a b : list A) : bool :=
  match a, b with
  | [], [] => true
  | x :: a', y :: b' => eqb x y && leqb eqb a' b'
  | _, _ => false
  end.
Definition pt_eqb (a b : pt) : bool := Z.eqb (fst a) (fst b) && Z.eqb (snd a) (snd b).
Definition series_eqb (a b : series) : bool := key_eqb (fst a) (fst b) && leqb pt_eqb (snd a) (snd b).
Definition shobs_eqb (a b : shobs) : bool :=
  N.eqb (o_id a) (o_id b) && N.eqb (o_db a) (o_db b) && N.eqb (o_rp a) (o_rp b) &&
  seteq series_eqb (o_series a) (o_series b).
Definition dbobs_eqb (a b : dbobs) : bool :=
  N.eqb (d_db a) (d_db b) && seteq key_eqb (d_sfile a) (d_sfile b) && seteq N.eqb (d_names a) (d_names b) &&
  seteq key_eqb (d_keys a) (d_keys b) && N.eqb (d_card a) (d_card b).
Definition sobs_eqb (a b : sobs) : bool :=
  seteq shobs_eqb (so_shards a) (so_shards b) && seteq dbobs_eqb (so_dbs a) (so_dbs b).

Definition o_keys (o : shobs) : list skey := map fst (o_series o).
(* the series read from the shards [shs] that belong to database [db] (any retention policy) *)
Definition held_in (shs : list shobs) (db : N) : list skey :=
  flat_map o_keys (filter (fun o => N.eqb (o_db o) db) shs).
Definition find_obs (shs : list shobs) (id : N) : option shobs := find (fun o => N.eqb (o_id o) id) shs.

(* what the listings of database [d] must be when its shards read as [shs] and its series
   file is [sfile]: exactly the series readable from those shards *)
Definition exp_db (shs : list shobs) (d : dbobs) (sfile : list skey) : dbobs :=
  let h := held_in shs (d_db d) in mkDbO (d_db d) sfile (map fst h) h (count h).

(* THE specification of DeleteShard(id), from the observation [prev] made before it:
   - an unknown shard: ErrShardNotFound, nothing changes;
   - otherwise the shard is gone; every other shard reads exactly as before; per database
     the series file loses exactly the series of the deleted shard that no remaining shard
     of the same database (ANY retention policy) holds, and the listings are exactly the
     series readable from the remaining shards. *)
Definition expected_del (prev : sobs) (id : N) : N * sobs :=
  match find_obs (so_shards prev) id with
  | None => (1, prev)
  | Some del =>
      let rem := filter (fun o => negb (N.eqb (o_id o) id)) (so_shards prev) in
      (0, mkSO rem
            (map (fun d => exp_db rem d
                     (if N.eqb (d_db d) (o_db del)
                      then diff (d_sfile d) (diff (o_keys del) (held_in rem (d_db d)))
                      else d_sfile d)) (so_dbs prev)))
  end.
(* WriteToShard(id, points of series k): the points are appended to that series of that
   shard, the key is in the series file, everything else is as before *)
Definition expected_write (prev : sobs) (id : N) (k : skey) (pts : list pt) : N * sobs :=
  match find_obs (so_shards prev) id with
  | None => (1, prev)
  | Some sh =>
      let shs := map (fun o => if N.eqb (o_id o) id
                               then mkShO (o_id o) (o_db o) (o_rp o) (upsert k pts (o_series o)) else o)
                     (so_shards prev) in
      (0, mkSO shs
            (map (fun d => exp_db shs d (if N.eqb (d_db d) (o_db sh) then add_to k (d_sfile d) else d_sfile d))
                 (so_dbs prev)))
  end.
Definition expected (prev : sobs) (o : sop) : N * sobs :=
  match o with
  | ODel id => expected_del prev id
  | OReopen => (0, prev)
  | OWrite id k pts => expected_write prev id k pts
  end.

(* the safety half on its own (implied by the above for a consistent [prev]): after
   DeleteShard every series read before from a shard that is still there is still read from
   it, and is still in the series file of its database *)
Definition del_safe (prev : sobs) (id : N) (next : sobs) : bool :=
  forallb (fun o => if N.eqb (o_id o) id then true else
             existsb (fun o' => N.eqb (o_id o') (o_id o) && subset series_eqb (o_series o) (o_series o')) (so_shards next)
             && forallb (fun d => if N.eqb (d_db d) (o_db o) then subset key_eqb (o_keys o) (d_sfile d) else true)
                        (so_dbs next))
          (so_shards prev).

Definition step_spec (prev : sobs) (o : sop) (err : N) (next : sobs) : bool :=
  N.eqb err (fst (expected prev o)) && sobs_eqb next (snd (expected prev o)) &&
  match o with ODel id => del_safe prev id next | _ => true end.

Fixpoint steps_spec (prev : sobs) (steps : list (sop * N * sobs)) : bool :=
  match steps with
  | [] => true
  | (o, err, next) :: r => step_spec prev o err next && steps_spec next r
  end.

(* the model's run in the same shape *)
Fixpoint run_ops (dbs : list N) (st : store) (ops : list sop) : list (sop * N * sobs) :=
  match ops with
  | [] => []
  | o :: r => let x := apply_op st o in (o, fst x, obs_of dbs (snd x)) :: run_ops dbs (snd x) r
  end.

Fixpoint steps_agree (dbs : list N) (st : store) (steps : list (sop * N * sobs)) : bool :=
  match steps with
  | [] => true
  | (o, err, next) :: r =>
      let x := apply_op st o in
      N.eqb err (fst x) && sobs_eqb next (obs_of dbs (snd x)) && steps_agree dbs (snd x) r
  end.

(* descriptions the harness may build: shard ids unique, series keys unique in a shard *)
Fixpoint nodup_n (l : list N) : bool := match l with [] => true | x :: r => negb (nmem x r) && nodup_n r end.
Fixpoint nodup_k (l : list skey) : bool := match l with [] => true | x :: r => negb (kmem x r) && nodup_k r end.
Definition valid_shards (shs : list sshard) : bool :=
  nodup_n (map ss_id shs) && forallb (fun s => nodup_k (keys s)) shs.
