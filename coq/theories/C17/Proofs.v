(* C17/Proofs.v — safety of a retention pass for every input, the pure expiry functions,
   and the write-path cut-off.  Completeness is in ProofsComplete.v, histories in
   ProofsHist.v. *)
From Verif Require Import C17.Model C17.Spec.
From VerifGen Require Import Consts.
From Coq Require Import ZifyBool.
Open Scope Z_scope.

(* the translator still finds the expiry test in the shape the model was written from *)
Lemma expiry_shape_checked : c17_expiry_shape_checked = true.
Proof. reflexivity. Qed.

(* ---------- generic ---------- *)

Lemma fold_left_ind {A B} (f : A -> B -> A) (P : A -> Prop) l a :
  P a -> (forall a' x, In x l -> P a' -> P (f a' x)) -> P (fold_left f l a).
Proof.
  revert a. induction l as [|x l IH]; intros a Ha Hs; cbn; [exact Ha|].
  apply IH.
  - apply Hs; [left; reflexivity | exact Ha].
  - intros a' y Hy. apply Hs. right. exact Hy.
Qed.

Lemma mem_In x l : mem x l = true <-> In x l.
Proof.
  unfold mem. rewrite existsb_exists. split.
  - intros [y [Hy He]]. apply N.eqb_eq in He. subst. exact Hy.
  - intros H. exists x. split; [exact H | apply N.eqb_refl].
Qed.

Lemma mem_app x a b : mem x (a ++ b) = mem x a || mem x b.
Proof. unfold mem. apply existsb_app. Qed.

Lemma mem_false_In x l : mem x l = false <-> ~ In x l.
Proof.
  split.
  - intros H Hin. apply mem_In in Hin. congruence.
  - intros H. destruct (mem x l) eqn:E; [|reflexivity]. apply mem_In in E. contradiction.
Qed.

Lemma forallb_rev {A} (p : A -> bool) l : forallb p (rev l) = forallb p l.
Proof.
  induction l as [|x l IH]; cbn; [reflexivity|].
  rewrite forallb_app, IH. cbn. rewrite andb_true_r. apply andb_comm.
Qed.

(* ---------- entries ---------- *)

Lemma entry_in (m : meta) d r g :
  In d m -> In r (db_rps d) -> In g (rp_groups r) ->
  In (mkE (db_name d) (rp_name r) (rp_dur r) g) (entries m).
Proof.
  intros Hd Hr Hg. unfold entries. apply in_flat_map. exists d. split; [exact Hd|].
  unfold db_entries. apply in_flat_map. exists r. split; [exact Hr|].
  unfold rp_entries. apply in_map. exact Hg.
Qed.

Lemma entry_inv (m : meta) e :
  In e (entries m) ->
  exists d r, In d m /\ In r (db_rps d) /\ In (e_g e) (rp_groups r) /\
              e = mkE (db_name d) (rp_name r) (rp_dur r) (e_g e).
Proof.
  unfold entries. intros H. apply in_flat_map in H. destruct H as [d [Hd H]].
  unfold db_entries in H. apply in_flat_map in H. destruct H as [r [Hr H]].
  unfold rp_entries in H. apply in_map_iff in H. destruct H as [g [He Hg]].
  exists d, r. subst e. cbn. auto.
Qed.

(* ---------- monotonicity in the calls made so far ---------- *)

Lemma marked_ok_app cs x e : marked_ok cs e = true -> marked_ok (cs ++ x) e = true.
Proof. unfold marked_ok. rewrite existsb_app. intros ->. reflexivity. Qed.

Lemma justified_mono snap now cs x id :
  shard_justified snap now cs id = true -> shard_justified snap now (cs ++ x) id = true.
Proof.
  unfold shard_justified. rewrite !existsb_exists. intros [e [He H]]. exists e. split; [exact He|].
  apply andb_true_iff in H. destruct H as [Hh H]. rewrite Hh. cbn.
  apply orb_true_iff in H. destruct H as [H|H]; [rewrite H; reflexivity|].
  apply andb_true_iff in H. destruct H as [H1 H2].
  rewrite H1, (marked_ok_app _ x _ H2). apply orb_true_r.
Qed.

Lemma calls_safe_app snap now local b x y :
  calls_safe snap now local b (x ++ y) =
  calls_safe snap now local b x && calls_safe snap now local (b ++ x) y.
Proof.
  revert b. induction x as [|c x IH]; intros b; cbn.
  - rewrite app_nil_r. reflexivity.
  - rewrite IH, <- app_assoc. cbn. rewrite andb_assoc. reflexivity.
Qed.

Lemma calls_safe_snoc snap now local cs c :
  calls_safe snap now local [] cs = true -> call_safe snap now local cs c = true ->
  calls_safe snap now local [] (cs ++ [c]) = true.
Proof.
  intros H1 H2. rewrite calls_safe_app, H1. cbn. rewrite H2. reflexivity.
Qed.

Definition noprune (cs : list call) : bool := forallb (fun c => negb (is_prune c)) cs.

Lemma noprune_snoc cs c : noprune cs = true -> is_prune c = false -> noprune (cs ++ [c]) = true.
Proof. unfold noprune. intros H1 H2. rewrite forallb_app, H1. cbn. rewrite H2. reflexivity. Qed.

(* ---------- metadata loops: safety invariant ---------- *)

Section Safety.
Variable snap : meta.
Variable now : Z.
Variable local : list N.

Definition minv (s : mstate) : Prop :=
  calls_safe snap now local [] (m_calls s) = true /\
  noprune (m_calls s) = true /\
  (forall id, mem id (m_del s) = true -> shard_justified snap now (m_calls s) id = true).

(* what one DeleteShardGroup iteration does to the calls and to the deletedShardIDs keys *)
Lemma mark_step_shape tdel dbn rpn s g :
  exists ok, m_calls (mark_step tdel dbn rpn s g) = m_calls s ++ [CDelGroup dbn rpn (g_id g) ok] /\
             (m_del (mark_step tdel dbn rpn s g) = m_del s \/
              (ok = true /\ m_del (mark_step tdel dbn rpn s g) = m_del s ++ shard_ids g)).
Proof.
  unfold mark_step. destruct (next (m_orc s)) as [f o'].
  destruct f; destruct (delete_shard_group (m_auth s) dbn rpn (g_id g) tdel) as [a|]; cbn;
    try (exists false; split; [reflexivity | left; reflexivity]).
  exists true. split; [reflexivity | right; split; reflexivity].
Qed.

Lemma delgroup_call_safe cs dbn rpn dur g ok :
  In (mkE dbn rpn dur g) (entries snap) -> expired_at dur now g = true ->
  call_safe snap now local cs (CDelGroup dbn rpn (g_id g) ok) = true.
Proof.
  intros Hin Hexp. cbn [call_safe]. apply existsb_exists. exists (mkE dbn rpn dur g). split; [exact Hin|].
  unfold key_is, e_expired. cbn [e_g e_dur e_db e_rp]. rewrite !N.eqb_refl, Hexp. reflexivity.
Qed.

Lemma mark_step_minv tdel dbn rpn dur s g :
  In (mkE dbn rpn dur g) (entries snap) -> expired_at dur now g = true ->
  minv s -> minv (mark_step tdel dbn rpn s g).
Proof.
  intros Hin Hexp [Hs [Hp Hj]].
  destruct (mark_step_shape tdel dbn rpn s g) as [ok [Hc Hd]].
  unfold minv. rewrite Hc. split; [|split].
  - apply calls_safe_snoc; [exact Hs|]. apply (delgroup_call_safe _ _ _ dur); assumption.
  - apply noprune_snoc; [exact Hp | reflexivity].
  - intros id Hid. destruct Hd as [Hd|[Hok Hd]]; rewrite Hd in Hid.
    + apply justified_mono. apply Hj. exact Hid.
    + rewrite mem_app in Hid. apply orb_true_iff in Hid. destruct Hid as [Hid|Hid].
      * apply justified_mono. apply Hj. exact Hid.
      * subst ok. unfold shard_justified. apply existsb_exists.
        exists (mkE dbn rpn dur g). split; [exact Hin|].
        unfold holds, e_expired, marked_ok. cbn [e_g e_dur e_db e_rp]. rewrite Hid, Hexp.
        rewrite existsb_app. cbn [existsb is_delgroup_ok]. rewrite !N.eqb_refl. cbn [andb orb].
        rewrite !orb_true_r. reflexivity.
Qed.

Lemma mem_deleted_ids id r :
  mem id (flat_map shard_ids (deleted_groups r)) = true ->
  exists g, In g (rp_groups r) /\ deleted g = true /\ mem id (shard_ids g) = true.
Proof.
  intros H. apply mem_In in H. apply in_flat_map in H. destruct H as [g [Hg Hid]].
  unfold deleted_groups in Hg. apply filter_In in Hg. destruct Hg as [Hg Hd].
  exists g. repeat split; try assumption. apply mem_In. exact Hid.
Qed.

Lemma rp_step_minv tdel d r s :
  In d snap -> In r (db_rps d) -> minv s -> minv (rp_step now tdel (db_name d) s r).
Proof.
  intros Hd Hr [Hs [Hp Hj]]. unfold rp_step. apply fold_left_ind.
  - unfold minv. cbn [m_calls m_del]. split; [exact Hs|split; [exact Hp|]]. intros id Hid.
    rewrite mem_app in Hid. apply orb_true_iff in Hid. destruct Hid as [Hid|Hid]; [apply Hj; exact Hid|].
    apply mem_deleted_ids in Hid. destruct Hid as [g [Hg [Hdel Hid]]].
    unfold shard_justified. apply existsb_exists.
    exists (mkE (db_name d) (rp_name r) (rp_dur r) g). split; [apply entry_in; assumption|].
    unfold holds, e_deleted. cbn [e_g]. rewrite Hid, Hdel. reflexivity.
  - intros s' g Hg Hinv. unfold expired_groups in Hg. apply filter_In in Hg. destruct Hg as [Hg Hexp].
    apply (mark_step_minv tdel _ _ (rp_dur r)); [apply entry_in; assumption | exact Hexp | exact Hinv].
Qed.

Lemma meta_phase_minv tdel s : minv s -> minv (meta_phase now tdel snap s).
Proof.
  intros H. unfold meta_phase. apply fold_left_ind; [exact H|].
  intros s' d Hd Hs'. unfold db_step. apply fold_left_ind; [exact Hs'|].
  intros s'' r Hr Hs''. apply rp_step_minv; assumption.
Qed.

(* ---------- shard loop ---------- *)

Definition sinv (del : list N) (s : sstate) : Prop :=
  calls_safe snap now local [] (s_calls s) = true /\
  noprune (s_calls s) = true /\
  (forall id, mem id del = true -> shard_justified snap now (s_calls s) id = true) /\
  (forall id, In id (s_local s) -> In id local).

Lemma remove_id_incl id l x : In x (remove_id id l) -> In x l.
Proof. unfold remove_id. intros H. apply filter_In in H. tauto. Qed.

Lemma shard_step_sinv del s id : In id local -> sinv del s -> sinv del (shard_step del s id).
Proof.
  intros Hid [Hs [Hp [Hj Hl]]]. unfold shard_step. destruct (mem id del) eqn:Hm; [|repeat split; assumption].
  destruct (next (s_orc s)) as [f o'].
  assert (Hsafe : forall ok, call_safe snap now local (s_calls s) (CDelShard id ok) = true).
  { intros ok. cbn [call_safe]. rewrite (proj2 (mem_In id local) Hid), (Hj id Hm). reflexivity. }
  destruct f; unfold sinv; cbn [s_calls s_local s_orc]; (split; [apply calls_safe_snoc; [exact Hs | apply Hsafe]|]);
    (split; [apply noprune_snoc; [exact Hp | reflexivity]|]);
    (split; [intros id' H'; apply justified_mono, Hj; exact H'|]);
    intros x Hx; try (apply remove_id_incl in Hx); apply Hl; exact Hx.
Qed.

End Safety.

(* ---------- the pass: safety, attempts, locals ---------- *)

Definition pass_s1 (i : input) : mstate :=
  meta_phase (i_now i) (i_tdel i) (i_snap i) (mkM (i_auth i) (i_orc i) [] []).
Definition pass_s2 (i : input) : sstate :=
  fold_left (shard_step (m_del (pass_s1 i))) (i_local i)
            (mkS (m_orc (pass_s1 i)) (m_calls (pass_s1 i)) (i_local i)).

Lemma pass_unfold i :
  exists ok, r_calls (pass i) = s_calls (pass_s2 i) ++ [CPrune ok] /\
             r_local (pass i) = s_local (pass_s2 i) /\
             (r_auth (pass i) = prune (i_tprune i) (m_auth (pass_s1 i)) \/
              (ok = false /\ r_auth (pass i) = m_auth (pass_s1 i))).
Proof.
  unfold pass_s2, pass_s1, pass. cbv zeta.
  match goal with |- context [match ?x with FOk => _ | FErr => _ | FErrApplied => _ end] => destruct x end;
    cbn [r_calls r_local r_auth].
  - exists true. auto.
  - exists false. auto.
  - exists false. auto.
Qed.

Lemma pass_s1_minv i : minv (i_snap i) (i_now i) (i_local i) (pass_s1 i).
Proof.
  unfold pass_s1. apply meta_phase_minv. unfold minv. cbn. split; [reflexivity|split; [reflexivity|]].
  intros id H. discriminate.
Qed.

Lemma pass_s2_sinv i : sinv (i_snap i) (i_now i) (i_local i) (m_del (pass_s1 i)) (pass_s2 i).
Proof.
  destruct (pass_s1_minv i) as [Hs [Hp Hj]].
  unfold pass_s2. apply fold_left_ind.
  - unfold sinv. cbn [s_calls s_local s_orc]. repeat split; try assumption. intros id H. exact H.
  - intros s id Hid Hs'. apply shard_step_sinv; assumption.
Qed.

Lemma pass_calls_safe i :
  calls_safe (i_snap i) (i_now i) (i_local i) [] (r_calls (pass i)) = true.
Proof.
  destruct (pass_unfold i) as [ok [Hc _]]. rewrite Hc.
  destruct (pass_s2_sinv i) as [Hs _]. apply calls_safe_snoc; [exact Hs | reflexivity].
Qed.

Lemma pass_local_subset i : forallb (fun id => mem id (i_local i)) (r_local (pass i)) = true.
Proof.
  destruct (pass_unfold i) as [ok [_ [Hl _]]]. rewrite Hl.
  destruct (pass_s2_sinv i) as [_ [_ [_ Hsub]]].
  apply forallb_forall. intros id Hid. apply mem_In. apply Hsub. exact Hid.
Qed.

(* every group expired in the snapshot gets its DeleteShardGroup call *)
Definition has_attempt (cs : list call) (e : entry) : bool :=
  existsb (is_delgroup (e_db e) (e_rp e) (g_id (e_g e))) cs.
Definition att (E : list entry) (cs : list call) : Prop := forall e, In e E -> has_attempt cs e = true.

Lemma att_mono E cs x : att E cs -> att E (cs ++ x).
Proof. intros H e He. specialize (H e He). unfold has_attempt in *. rewrite existsb_app, H. reflexivity. Qed.

Lemma mark_fold_att tdel dbn rpn dur gs : forall s E,
  att E (m_calls s) ->
  att (E ++ map (mkE dbn rpn dur) gs) (m_calls (fold_left (mark_step tdel dbn rpn) gs s)).
Proof.
  induction gs as [|g gs IH]; intros s E H; cbn.
  - rewrite app_nil_r. exact H.
  - replace (E ++ mkE dbn rpn dur g :: map (mkE dbn rpn dur) gs)
      with ((E ++ [mkE dbn rpn dur g]) ++ map (mkE dbn rpn dur) gs) by (rewrite <- app_assoc; reflexivity).
    apply IH. destruct (mark_step_shape tdel dbn rpn s g) as [ok [Hc _]]. rewrite Hc.
    intros e He. apply in_app_or in He. destruct He as [He|[He|[]]].
    + exact (att_mono _ _ _ H e He).
    + subst e. unfold has_attempt. rewrite existsb_app. cbn. rewrite !N.eqb_refl. cbn. apply orb_true_r.
Qed.

Definition rp_expired (now : Z) (dbn : N) (r : policy) : list entry :=
  map (mkE dbn (rp_name r) (rp_dur r)) (expired_groups r now).
Definition db_expired (now : Z) (d : database) : list entry := flat_map (rp_expired now (db_name d)) (db_rps d).

Lemma rp_fold_att now tdel dbn rs : forall s E,
  att E (m_calls s) ->
  att (E ++ flat_map (rp_expired now dbn) rs) (m_calls (fold_left (rp_step now tdel dbn) rs s)).
Proof.
  induction rs as [|r rs IH]; intros s E H; cbn.
  - rewrite app_nil_r. exact H.
  - rewrite app_assoc. apply IH. unfold rp_step, rp_expired. apply mark_fold_att. exact H.
Qed.

Lemma db_fold_att now tdel ds : forall s E,
  att E (m_calls s) ->
  att (E ++ flat_map (db_expired now) ds) (m_calls (fold_left (db_step now tdel) ds s)).
Proof.
  induction ds as [|d ds IH]; intros s E H; cbn.
  - rewrite app_nil_r. exact H.
  - rewrite app_assoc. apply IH. unfold db_step, db_expired. apply rp_fold_att. exact H.
Qed.

Lemma expired_entry_listed now m e :
  In e (entries m) -> e_expired now e = true -> In e (flat_map (db_expired now) m).
Proof.
  intros He Hexp. destruct (entry_inv m e He) as [d [r [Hd [Hr [Hg Heq]]]]].
  apply in_flat_map. exists d. split; [exact Hd|].
  unfold db_expired. apply in_flat_map. exists r. split; [exact Hr|].
  unfold rp_expired. rewrite Heq. apply in_map. unfold expired_groups. apply filter_In. split; [exact Hg|].
  unfold e_expired in Hexp. rewrite Heq in Hexp. cbn in Hexp. exact Hexp.
Qed.

Lemma shard_step_calls_ext del s id : exists x, s_calls (shard_step del s id) = s_calls s ++ x.
Proof.
  unfold shard_step. destruct (mem id del); [|exists []; rewrite app_nil_r; reflexivity].
  destruct (next (s_orc s)) as [f o']. destruct f; cbn; eexists; reflexivity.
Qed.

Lemma shard_fold_calls_ext del ids : forall s, exists x, s_calls (fold_left (shard_step del) ids s) = s_calls s ++ x.
Proof.
  induction ids as [|id ids IH]; intros s; cbn.
  - exists []. rewrite app_nil_r. reflexivity.
  - destruct (IH (shard_step del s id)) as [x Hx]. destruct (shard_step_calls_ext del s id) as [y Hy].
    exists (y ++ x). rewrite Hx, Hy, app_assoc. reflexivity.
Qed.

Lemma pass_attempts i : attempts_complete (i_snap i) (i_now i) (r_calls (pass i)) = true.
Proof.
  unfold attempts_complete. destruct (pass_unfold i) as [ok [Hc _]]. rewrite Hc.
  apply andb_true_iff. split.
  - apply forallb_forall. intros e He. destruct (e_expired (i_now i) e) eqn:Hexp; [cbn [implb]|reflexivity].
    assert (A : att (flat_map (db_expired (i_now i)) (i_snap i)) (m_calls (pass_s1 i))).
    { unfold pass_s1, meta_phase.
      apply (db_fold_att (i_now i) (i_tdel i) (i_snap i) (mkM (i_auth i) (i_orc i) [] []) []).
      intros e' []. }
    destruct (shard_fold_calls_ext (m_del (pass_s1 i)) (i_local i)
                (mkS (m_orc (pass_s1 i)) (m_calls (pass_s1 i)) (i_local i))) as [x Hx].
    fold (pass_s2 i) in Hx. cbn [s_calls] in Hx. rewrite Hx.
    apply (att_mono _ _ (x ++ [CPrune ok])) in A. rewrite app_assoc in A.
    apply A. apply expired_entry_listed; assumption.
  - rewrite rev_app_distr. cbn. rewrite forallb_rev.
    destruct (pass_s2_sinv i) as [_ [Hp _]]. exact Hp.
Qed.

(* ---------- reading the executable spec back as statements ---------- *)

(* retention_safe, in logical form: every DeleteShard(id) is for a local shard that belongs
   to a group deleted in the snapshot or to a group expired at now whose DeleteShardGroup
   returned nil earlier in the pass; every DeleteShardGroup is for an expired group *)
Definition retention_safe_prop (snap : meta) (now : Z) (local : list N) (calls : list call) : Prop :=
  forall pre c post, calls = pre ++ c :: post ->
  match c with
  | CDelShard id _ =>
      In id local /\
      exists e, In e (entries snap) /\ In id (shard_ids (e_g e)) /\
                (deleted (e_g e) = true \/
                 (deleted (e_g e) = false /\ e_dur e <> 0 /\ g_end (e_g e) + e_dur e < now /\
                  In (CDelGroup (e_db e) (e_rp e) (g_id (e_g e)) true) pre))
  | CDelGroup db rp gid _ =>
      exists e, In e (entries snap) /\ e_db e = db /\ e_rp e = rp /\ g_id (e_g e) = gid /\
                deleted (e_g e) = false /\ e_dur e <> 0 /\ g_end (e_g e) + e_dur e < now
  | CPrune _ => True
  end.

Lemma expired_at_spec dur now g :
  expired_at dur now g = true <-> deleted g = false /\ dur <> 0 /\ g_end g + dur < now.
Proof. unfold expired_at. destruct (deleted g); cbn; lia. Qed.

Lemma marked_ok_In cs e :
  marked_ok cs e = true -> In (CDelGroup (e_db e) (e_rp e) (g_id (e_g e)) true) cs.
Proof.
  unfold marked_ok. rewrite existsb_exists. intros [c [Hc H]].
  destruct c as [d r g [|]| |]; cbn in H; try discriminate.
  apply andb_true_iff in H. destruct H as [H H3]. apply andb_true_iff in H. destruct H as [H1 H2].
  apply N.eqb_eq in H1, H2, H3. subst. exact Hc.
Qed.

Lemma calls_safe_sound snap now local : forall cs b,
  calls_safe snap now local b cs = true ->
  forall pre c post, cs = pre ++ c :: post -> call_safe snap now local (b ++ pre) c = true.
Proof.
  induction cs as [|c0 cs IH]; intros b H pre c post Heq.
  - destruct pre; discriminate.
  - cbn in H. apply andb_true_iff in H. destruct H as [H0 H].
    destruct pre as [|p pre]; cbn in Heq; inversion Heq; subst.
    + rewrite app_nil_r. exact H0.
    + specialize (IH _ H pre c post eq_refl). rewrite <- app_assoc in IH. exact IH.
Qed.

Lemma calls_safe_prop snap now local calls :
  calls_safe snap now local [] calls = true -> retention_safe_prop snap now local calls.
Proof.
  intros H pre c post Heq. pose proof (calls_safe_sound _ _ _ _ _ H pre c post Heq) as Hc. cbn [app] in Hc.
  destruct c as [db rp gid ok|id ok|ok]; cbn [call_safe] in Hc; [| |exact I].
  - apply existsb_exists in Hc. destruct Hc as [e [He Hk]]. cbv beta in Hk.
    apply andb_true_iff in Hk. destruct Hk as [Hk Hexp]. unfold key_is in Hk. unfold e_expired in Hexp.
    apply andb_true_iff in Hk. destruct Hk as [Hk K3]. apply andb_true_iff in Hk. destruct Hk as [K1 K2].
    apply N.eqb_eq in K1, K2, K3. apply expired_at_spec in Hexp.
    exists e. tauto.
  - apply andb_true_iff in Hc. destruct Hc as [Hm Hj]. split; [apply mem_In; exact Hm|].
    unfold shard_justified in Hj. apply existsb_exists in Hj. destruct Hj as [e [He Hj]]. cbv beta in Hj.
    apply andb_true_iff in Hj. destruct Hj as [Hh Hj]. exists e. split; [exact He|].
    split; [apply mem_In; exact Hh|].
    apply orb_true_iff in Hj. destruct Hj as [Hj|Hj]; [left; exact Hj|right].
    apply andb_true_iff in Hj. destruct Hj as [Hexp Hmk]. unfold e_expired in Hexp. apply expired_at_spec in Hexp.
    apply marked_ok_In in Hmk. tauto.
Qed.

Lemma pass_retention_safe i :
  retention_safe_prop (i_snap i) (i_now i) (i_local i) (r_calls (pass i)).
Proof. apply calls_safe_prop, pass_calls_safe. Qed.

(* young_data_kept: a group handed to DeleteShardGroup has End + Duration < now for the
   duration the pass saw, so every timestamp it can hold (t < End) is older than the
   retention period: t < now - Duration *)
Lemma pass_young_data_kept i db rp gid ok :
  In (CDelGroup db rp gid ok) (r_calls (pass i)) ->
  exists e, In e (entries (i_snap i)) /\ e_db e = db /\ e_rp e = rp /\ g_id (e_g e) = gid /\
            e_dur e <> 0 /\
            forall t, t < g_end (e_g e) -> t < i_now i - e_dur e.
Proof.
  intros Hin. apply in_split in Hin. destruct Hin as [pre [post Heq]].
  pose proof (pass_retention_safe i pre _ post Heq) as H. cbn in H.
  destruct H as [e [He [H1 [H2 [H3 [H4 [H5 H6]]]]]]]. exists e. repeat split; try assumption.
  intros t Ht. lia.
Qed.

(* infinite_never_expires *)
Lemma expired_infinite r now : rp_dur r = 0 -> expired_groups r now = [].
Proof.
  intros H. unfold expired_groups. rewrite H.
  induction (rp_groups r) as [|g gs IH]; cbn [filter]; [reflexivity|].
  assert (E : expired_at 0 now g = false) by (unfold expired_at; cbn; apply andb_false_r).
  rewrite E. exact IH.
Qed.

Lemma pass_infinite_never i :
  (forall e, In e (entries (i_snap i)) -> e_dur e = 0) ->
  forall c, In c (r_calls (pass i)) -> match c with CDelGroup _ _ _ _ => False | _ => True end.
Proof.
  intros Hinf c Hc. destruct c as [db rp gid ok| |]; [|exact I|exact I].
  destruct (pass_young_data_kept i db rp gid ok Hc) as [e [He [_ [_ [_ [Hd _]]]]]].
  apply Hd. apply Hinf. exact He.
Qed.

(* ---------- pure functions ---------- *)

Lemma list_eqb_N_refl (l : list N) : list_eqb N.eqb l l = true.
Proof. induction l as [|x l IH]; cbn; [reflexivity|]. rewrite N.eqb_refl. exact IH. Qed.

Lemma expired_spec_model r t : expired_spec r t (map g_id (expired_groups r t)) = true.
Proof.
  unfold expired_spec, expired_groups.
  assert (E : forall gs, filter (expired_at (rp_dur r) t) gs =
               filter (fun g => match g_del g with
                                | Some _ => false
                                | None => negb (rp_dur r =? 0) && (g_end g + rp_dur r <? t)
                                end) gs).
  { intros gs. apply filter_ext. intros g. unfold expired_at, deleted. destruct (g_del g); reflexivity. }
  rewrite E. apply list_eqb_N_refl.
Qed.

Lemma deleted_spec_model r : deleted_spec r (map g_id (deleted_groups r)) = true.
Proof. unfold deleted_spec, deleted_groups, deleted. apply list_eqb_N_refl. Qed.

(* ---------- write path ---------- *)

Section WritePath.
Variable create : Z -> option group.
(* MetaClient.CreateShardGroup(t) returns a group that accepts t (meta.Client returns
   rpi.ShardGroupByTimestamp(t)) *)
Hypothesis create_ok : forall t g, create t = Some g -> contains g t = true.

Lemma covers_app l x t : covers (l ++ x) t = covers l t || covers x t.
Proof. unfold covers. apply existsb_app. Qed.

Lemma collect_covers min : forall pts l l',
  collect create min pts l = Some l' ->
  (forall t, covers l t = true -> covers l' t = true) /\
  (forall t, In t pts -> (t <? min) = false -> covers l' t = true).
Proof.
  induction pts as [|p pts IH]; intros l l' H; cbn in H.
  - inversion H; subst. split; [auto | intros t []].
  - destruct ((p <? min) || covers l p) eqn:E.
    + destruct (IH _ _ H) as [H1 H2]. split; [exact H1|].
      intros t [Ht|Ht] Hmin; [subst t | apply H2; assumption].
      rewrite Hmin in E. cbn in E. apply H1. exact E.
    + destruct (create p) as [g|] eqn:Ec; [|discriminate].
      destruct (IH _ _ H) as [H1 H2]. split.
      * intros t Ht. apply H1. rewrite covers_app, Ht. reflexivity.
      * intros t [Ht|Ht] Hmin; [subst t | apply H2; assumption].
        apply H1. rewrite covers_app. unfold covers at 2. cbn [existsb]. rewrite (create_ok _ _ Ec).
        cbn [orb]. apply orb_true_r.
Qed.

Lemma map_shards_drops now dur pts flags :
  map_shards create now dur pts = Some flags -> drops_ok now dur pts flags = true.
Proof.
  unfold map_shards. destruct (collect create (write_min now dur) pts []) as [l|] eqn:E; [|discriminate].
  intros H. inversion H; subst; clear H.
  destruct (collect_covers _ _ _ _ E) as [_ Hc].
  assert (G : forall ps, (forall t, In t ps -> In t pts) ->
            drops_ok now dur ps (map (fun t => (t <? write_min now dur) || negb (covers l t)) ps) = true).
  { induction ps as [|p ps IH]; intros Hs; cbn [drops_ok map]; [reflexivity|].
    rewrite IH by (intros t Ht; apply Hs; right; exact Ht). rewrite andb_true_r.
    unfold too_old. destruct (p <? write_min now dur) eqn:Em; [reflexivity|].
    rewrite (Hc p (Hs p (or_introl eq_refl)) Em). reflexivity. }
  apply G. auto.
Qed.

Lemma drops_ok_nth now dur : forall pts flags, drops_ok now dur pts flags = true ->
  length flags = length pts /\
  forall k t f, nth_error pts k = Some t -> nth_error flags k = Some f ->
                (f = true <-> t < write_min now dur).
Proof.
  induction pts as [|p pts IH]; intros [|f flags] H; cbn [drops_ok] in H; try discriminate.
  - split; [reflexivity|]. intros [|k] t f; discriminate.
  - apply andb_true_iff in H. destruct H as [H0 H]. destruct (IH _ H) as [Hl Hn].
    split; [cbn; congruence|]. intros [|k] t f' Ht Hf; cbn in Ht, Hf.
    + inversion Ht; inversion Hf; subst. apply eqb_prop in H0. unfold too_old in H0. rewrite H0. lia.
    + apply (Hn k); assumption.
Qed.

End WritePath.
