(* C17/Model.v — executable model of retention enforcement.  Definitions only.

   services/meta/data.go      ShardGroupInfo, RetentionPolicyInfo.ExpiredShardGroups /
                              DeletedShardGroups, Data.DeleteShardGroup, Data.PruneShardGroups
   services/retention/service.go   the body of one tick of Service.run  ([pass])
   coordinator/points_writer.go    the too-old cut-off of PointsWriter.MapShards ([map_shards])

   Times are UnixNano values in Z (time.Time.Add / Before / After are exact on them: the
   wall clock of time.Time has 64-bit seconds, so EndTime.Add(Duration) cannot wrap for
   int64 nanosecond inputs).  Database / policy names are abstracted to numbers (the code
   only compares them for equality).  A zero time.Time (IsZero) is [None]. *)
From Coq Require Export List NArith ZArith Lia Bool.
From VerifGen Require Import Consts.
Export ListNotations.
Open Scope Z_scope.

(* ---------- metadata: databases -> policies -> shard groups -> shards(owners) ---------- *)

Record shard := mkShard { sh_id : N; sh_owners : list N }.
Record group := mkGroup {
  g_id : N; g_start : Z; g_end : Z;
  g_del : option Z;      (* DeletedAt   (None = zero time) *)
  g_trunc : option Z;    (* TruncatedAt (None = zero time) *)
  g_shards : list shard }.
Record policy := mkPolicy { rp_name : N; rp_dur : Z; rp_sgdur : Z; rp_groups : list group }.
Record database := mkDb { db_name : N; db_rps : list policy }.
Definition meta := list database.

Definition shard_ids (g : group) : list N := map sh_id (g_shards g).

(* ShardGroupInfo.Deleted *)
Definition deleted (g : group) : bool := match g_del g with Some _ => true | None => false end.

(* the test inside RetentionPolicyInfo.ExpiredShardGroups(t):
     if Deleted() { continue }
     if rpi.Duration != 0 && EndTime.Add(rpi.Duration).Before(t) { append }
   strict <, nominal EndTime (TruncatedAt is not consulted) *)
Definition expired_at (dur now : Z) (g : group) : bool :=
  negb (deleted g) && (negb (dur =? 0) && (g_end g + dur <? now)).

Definition expired_groups (r : policy) (now : Z) : list group :=
  filter (expired_at (rp_dur r) now) (rp_groups r).
Definition deleted_groups (r : policy) : list group := filter deleted (rp_groups r).

(* ---------- Data.DeleteShardGroup ---------- *)

Definition set_del (t : Z) (g : group) : group :=
  mkGroup (g_id g) (g_start g) (g_end g) (Some t) (g_trunc g) (g_shards g).

(* update the FIRST element satisfying p (Go: loop with return on first match); None = not
   found, or the update of that first match failed *)
Fixpoint upd_first {A} (p : A -> bool) (f : A -> option A) (l : list A) : option (list A) :=
  match l with
  | [] => None
  | x :: r => if p x then match f x with Some y => Some (y :: r) | None => None end
              else match upd_first p f r with Some r' => Some (x :: r') | None => None end
  end.

Definition del_in_rp (id : N) (t : Z) (r : policy) : option policy :=
  match upd_first (fun g => N.eqb (g_id g) id) (fun g => Some (set_del t g)) (rp_groups r) with
  | Some gs => Some (mkPolicy (rp_name r) (rp_dur r) (rp_sgdur r) gs)
  | None => None                                   (* ErrShardGroupNotFound *)
  end.
Definition del_in_db (rp id : N) (t : Z) (d : database) : option database :=
  match upd_first (fun r => N.eqb (rp_name r) rp) (del_in_rp id t) (db_rps d) with
  | Some rs => Some (mkDb (db_name d) rs)
  | None => None                                   (* ErrRetentionPolicyNotFound / group not found *)
  end.
(* data.RetentionPolicy(database, policy): first database of that name, first policy of that
   name in it; first group with that ID gets DeletedAt = t (even when already deleted). *)
Definition delete_shard_group (m : meta) (db rp id : N) (t : Z) : option meta :=
  upd_first (fun d => N.eqb (db_name d) db) (del_in_db rp id t) m.

(* ---------- Data.PruneShardGroups ---------- *)

(* removed iff !DeletedAt.IsZero() && expiration.After(DeletedAt),
   expiration = now.Add(ShardGroupDeletedExpiration)   (the constant is negative: -2 weeks) *)
Definition prunable (tp : Z) (g : group) : bool :=
  match g_del g with
  | Some d => d <? tp + c17_shard_group_deleted_expiration
  | None => false
  end.
Definition prune_rp (tp : Z) (r : policy) : policy :=
  mkPolicy (rp_name r) (rp_dur r) (rp_sgdur r) (filter (fun g => negb (prunable tp g)) (rp_groups r)).
Definition prune_db (tp : Z) (d : database) : database := mkDb (db_name d) (map (prune_rp tp) (db_rps d)).
Definition prune (tp : Z) (m : meta) : meta := map (prune_db tp) m.

(* ---------- one enforcement pass (body of the ticker case of Service.run) ---------- *)

(* what an external call does: succeed; fail without effect; fail although the effect
   happened (e.g. a raft command that committed but whose reply was lost) *)
Inductive fault := FOk | FErr | FErrApplied.
(* failure oracle: one entry consumed per external call, in call order; exhausted = FOk *)
Definition next (o : list fault) : fault * list fault :=
  match o with [] => (FOk, []) | f :: r => (f, r) end.

(* external calls in the order made, with whether they returned nil *)
Inductive call :=
| CDelGroup (db rp id : N) (ok : bool)   (* MetaClient.DeleteShardGroup(db, rp, id) *)
| CDelShard (id : N) (ok : bool)         (* TSDBStore.DeleteShard(id) *)
| CPrune (ok : bool).                    (* MetaClient.PruneShardGroups() *)

Definition mem (x : N) (l : list N) : bool := existsb (N.eqb x) l.

(* state threaded through the metadata loops: authoritative metadata (what the meta
   service holds), remaining oracle, calls so far, keys of the deletedShardIDs map *)
Record mstate := mkM { m_auth : meta; m_orc : list fault; m_calls : list call; m_del : list N }.

(* `for _, g := range r.ExpiredShardGroups(now)`: one iteration *)
Definition mark_step (tdel : Z) (dbn rpn : N) (s : mstate) (g : group) : mstate :=
  let '(f, o') := next (m_orc s) in
  match f, delete_shard_group (m_auth s) dbn rpn (g_id g) tdel with
  | FOk, Some a =>
      mkM a o' (m_calls s ++ [CDelGroup dbn rpn (g_id g) true]) (m_del s ++ shard_ids g)
  | FErrApplied, Some a =>
      mkM a o' (m_calls s ++ [CDelGroup dbn rpn (g_id g) false]) (m_del s)
  | _, _ =>  (* injected error, or the real error of Data.DeleteShardGroup: `continue` *)
      mkM (m_auth s) o' (m_calls s ++ [CDelGroup dbn rpn (g_id g) false]) (m_del s)
  end.

(* `for _, r := range d.RetentionPolicies`: already-deleted groups first, then expired *)
Definition rp_step (now tdel : Z) (dbn : N) (s : mstate) (r : policy) : mstate :=
  fold_left (mark_step tdel dbn (rp_name r)) (expired_groups r now)
    (mkM (m_auth s) (m_orc s) (m_calls s) (m_del s ++ flat_map shard_ids (deleted_groups r))).

Definition db_step (now tdel : Z) (s : mstate) (d : database) : mstate :=
  fold_left (rp_step now tdel (db_name d)) (db_rps d) s.

Definition meta_phase (now tdel : Z) (snap : meta) (s : mstate) : mstate :=
  fold_left (db_step now tdel) snap s.

(* `for _, id := range s.TSDBStore.ShardIDs()` *)
Record sstate := mkS { s_orc : list fault; s_calls : list call; s_local : list N }.

Definition remove_id (id : N) (l : list N) : list N := filter (fun x => negb (N.eqb x id)) l.

Definition shard_step (del : list N) (s : sstate) (id : N) : sstate :=
  if mem id del then
    let '(f, o') := next (s_orc s) in
    match f with
    | FOk => mkS o' (s_calls s ++ [CDelShard id true]) (remove_id id (s_local s))
    | FErr => mkS o' (s_calls s ++ [CDelShard id false]) (s_local s)
    | FErrApplied => mkS o' (s_calls s ++ [CDelShard id false]) (remove_id id (s_local s))
    end
  else s.

Record input := mkInput {
  i_now : Z;          (* the service's time.Now() (one reading per pass, see Spec.v) *)
  i_tdel : Z;         (* the meta service's time.Now() stamped into DeletedAt *)
  i_tprune : Z;       (* the meta service's time.Now() in PruneShardGroups *)
  i_snap : meta;      (* MetaClient.Databases(): the (possibly stale) cached snapshot *)
  i_auth : meta;      (* the metadata the meta service holds *)
  i_local : list N;   (* TSDBStore.ShardIDs() *)
  i_orc : list fault }.
Record result := mkResult { r_calls : list call; r_auth : meta; r_local : list N }.

Definition pass (i : input) : result :=
  let s1 := meta_phase (i_now i) (i_tdel i) (i_snap i) (mkM (i_auth i) (i_orc i) [] []) in
  let s2 := fold_left (shard_step (m_del s1)) (i_local i) (mkS (m_orc s1) (m_calls s1) (i_local i)) in
  match fst (next (s_orc s2)) with
  | FOk => mkResult (s_calls s2 ++ [CPrune true]) (prune (i_tprune i) (m_auth s1)) (s_local s2)
  | FErrApplied => mkResult (s_calls s2 ++ [CPrune false]) (prune (i_tprune i) (m_auth s1)) (s_local s2)
  | FErr => mkResult (s_calls s2 ++ [CPrune false]) (m_auth s1) (s_local s2)
  end.

(* ---------- several nodes, several passes ---------- *)

(* cluster state: the metadata and every data node's local shard set *)
Record cluster := mkCl { c_meta : meta; c_nodes : list (N * list N) }.

Fixpoint set_node (n : N) (l : list N) (ns : list (N * list N)) : list (N * list N) :=
  match ns with
  | [] => []
  | (k, v) :: r => if N.eqb k n then (k, l) :: r else (k, v) :: set_node n l r
  end.
Fixpoint get_node (n : N) (ns : list (N * list N)) : list N :=
  match ns with
  | [] => []
  | (k, v) :: r => if N.eqb k n then v else get_node n r
  end.

(* a step of a history: a node runs a pass on an up-to-date snapshot, or the environment
   replaces the metadata / a node's shard set arbitrarily (ALTER RETENTION POLICY, new
   groups, truncation, a restart restoring old shards, ...) *)
Inductive step :=
| SPass (node : N) (now tdel tprune : Z) (orc : list fault)
| SEnvMeta (m : meta)
| SEnvNode (node : N) (l : list N).

Definition node_input (c : cluster) (node : N) (now tdel tprune : Z) (orc : list fault) : input :=
  mkInput now tdel tprune (c_meta c) (c_meta c) (get_node node (c_nodes c)) orc.

Definition do_step (c : cluster) (s : step) : cluster :=
  match s with
  | SPass n now tdel tprune orc =>
      let r := pass (node_input c n now tdel tprune orc) in
      mkCl (r_auth r) (set_node n (r_local r) (c_nodes c))
  | SEnvMeta m => mkCl m (c_nodes c)
  | SEnvNode n l => mkCl (c_meta c) (set_node n l (c_nodes c))
  end.
Definition run (c : cluster) (h : list step) : cluster := fold_left do_step h c.

(* ---------- write path: the cut-off of PointsWriter.MapShards ---------- *)

(* min := time.Unix(0, models.MinNanoTime); if rp.Duration > 0 { min = now.Add(-rp.Duration) } *)
Definition write_min (now dur : Z) : Z := if 0 <? dur then now - dur else c17_min_nano_time.

(* effectiveEnd (points_writer.go): a truncated group accepts points only before TruncatedAt *)
Definition eff_end (g : group) : Z :=
  match g_trunc g with
  | Some tr => if tr <? g_end g then tr else g_end g
  | None => g_end g
  end.
(* ShardGroupInfo.Contains(t) && t.Before(effectiveEnd) *)
Definition contains (g : group) (t : Z) : bool := (g_start g <=? t) && (t <? eff_end g).
(* sgList.Covers / ShardGroupAt(t) != nil.  ShardGroupAt is a binary search on the effective
   end with a linear fallback; it returns non-nil exactly when some item contains t (which
   item is C08's concern) — modelled at that level. *)
Definition covers (l : list group) (t : Z) : bool := existsb (fun g => contains g t) l.

(* first loop: create = MetaClient.CreateShardGroup (None = error / nil group) *)
Fixpoint collect (create : Z -> option group) (min : Z) (pts : list Z) (l : list group) : option (list group) :=
  match pts with
  | [] => Some l
  | t :: r =>
      if (t <? min) || covers l t then collect create min r l
      else match create t with
           | None => None
           | Some g => collect create min r (l ++ [g])
           end
  end.
(* second loop: one flag per point, true = appended to mapping.Dropped:
     var sg; if !p.Time().Before(min) { sg = list.ShardGroupAt(p.Time()) }; if sg == nil { dropped }
   (the guard was added by commit "fix: MapShards drops every point older than the
   retention period"; before it an old point covered by a sibling's group was accepted) *)
Definition map_shards (create : Z -> option group) (now dur : Z) (pts : list Z) : option (list bool) :=
  match collect create (write_min now dur) pts [] with
  | None => None
  | Some l => Some (map (fun t => (t <? write_min now dur) || negb (covers l t)) pts)
  end.
