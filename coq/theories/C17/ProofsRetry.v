(* C17/ProofsRetry.v — several passes: a pass hands EVERY local shard of every group the
   snapshot marks deleted to DeleteShard, whatever the failure oracle and whatever earlier
   passes did; so a failed local delete is retried by the next pass of any history. *)
From Verif Require Import C17.Model C17.Spec C17.Proofs C17.ProofsComplete C17.ProofsHist.
Open Scope Z_scope.

Lemma shard_step_emits del s id :
  mem id del = true -> exists ok, s_calls (shard_step del s id) = s_calls s ++ [CDelShard id ok].
Proof.
  intros Hm. unfold shard_step. rewrite Hm. destruct (next (s_orc s)) as [f o']. destruct f; cbn [s_calls]; eexists; reflexivity.
Qed.

Lemma shard_fold_attempts del ids : forall s id,
  In id ids -> mem id del = true ->
  exists ok, In (CDelShard id ok) (s_calls (fold_left (shard_step del) ids s)).
Proof.
  induction ids as [|x ids IH]; intros s id Hin Hm; [contradiction|]. cbn [fold_left].
  destruct Hin as [Hx|Hin]; [subst x | apply IH; assumption].
  destruct (shard_step_emits del s id Hm) as [ok Hok].
  destruct (shard_fold_calls_ext del ids (shard_step del s id)) as [y Hy].
  exists ok. rewrite Hy, Hok. apply in_or_app. left. apply in_or_app. right. left. reflexivity.
Qed.

(* one pass *)
Lemma pass_retries i id e :
  In id (i_local i) -> In e (entries (i_snap i)) -> e_deleted e = true -> holds e id = true ->
  exists ok, In (CDelShard id ok) (r_calls (pass i)).
Proof.
  intros Hl He Hd Hh.
  assert (Dl : dels (entries (i_snap i)) (m_del (pass_s1 i))).
  { unfold pass_s1, meta_phase.
    apply (db_fold_dels (i_now i) (i_tdel i) (i_snap i) (mkM (i_auth i) (i_orc i) [] []) []). intros x []. }
  pose proof (Dl e He Hd id Hh) as Hm.
  destruct (shard_fold_attempts (m_del (pass_s1 i)) (i_local i)
              (mkS (m_orc (pass_s1 i)) (m_calls (pass_s1 i)) (i_local i)) id Hl Hm) as [ok Hok].
  destruct (pass_unfold i) as [okp [Hc _]]. exists ok. rewrite Hc. apply in_or_app. left. exact Hok.
Qed.

Lemma retry_ok_model : forall i, retry_ok i (pass i) = true.
Proof.
  intros i. unfold retry_ok. apply forallb_forall. intros id Hl.
  destruct (existsb (fun e => e_deleted e && holds e id) (entries (i_snap i))) eqn:Hex; [|reflexivity].
  cbn [implb]. apply existsb_exists in Hex. destruct Hex as [e [He Hc]]. apply andb_true_iff in Hc. destruct Hc as [Hd Hh].
  destruct (pass_retries i id e Hl He Hd Hh) as [ok Hok].
  apply existsb_exists. exists (CDelShard id ok). split; [exact Hok|]. cbn [is_delshard]. apply N.eqb_refl.
Qed.

Lemma tick_ok_model : forall i, tick_ok i (pass i) = true.
Proof. intros i. unfold tick_ok. rewrite spec_ok_model, retry_ok_model. reflexivity. Qed.

(* every pass of every history *)
Lemma history_retries (c : cluster) (h : list step) (n : N) (now tdel tprune : Z) (orc : list fault) (id : N) (e : entry) :
  let c' := run c h in
  In id (get_node n (c_nodes c')) -> In e (entries (c_meta c')) -> e_deleted e = true -> holds e id = true ->
  exists ok, In (CDelShard id ok) (r_calls (pass (node_input c' n now tdel tprune orc))).
Proof. intros c' Hl He Hd Hh. apply (pass_retries (node_input c' n now tdel tprune orc) id e); assumption. Qed.

(* the shape of seeded "handled groups are never rescanned": pass 1 sees the group as deleted,
   its local DeleteShard fails and the shard stays; as long as the group is still in the
   metadata (not pruned), pass 2 of the same node calls DeleteShard again, and when that call
   succeeds the shard is gone *)
Lemma shard_fold_removed del ids : forall s id,
  ~ In id (s_local s) -> ~ In id (s_local (fold_left (shard_step del) ids s)).
Proof.
  induction ids as [|x ids IH]; intros s id Hn; cbn [fold_left]; [exact Hn|]. apply IH.
  unfold shard_step. destruct (mem x del); [|exact Hn]. destruct (next (s_orc s)) as [f o']. destruct f; cbn [s_local];
    try exact Hn; intros Hin; apply Hn; apply (remove_id_incl x); exact Hin.
Qed.

Lemma clean_retry_removes i id e :
  forallb is_fok (i_orc i) = true ->
  In e (entries (i_snap i)) -> e_deleted e = true -> holds e id = true -> ~ In id (r_local (pass i)).
Proof.
  intros Ho He Hd Hh Hin.
  assert (Dl : dels (entries (i_snap i)) (m_del (pass_s1 i))).
  { unfold pass_s1, meta_phase.
    apply (db_fold_dels (i_now i) (i_tdel i) (i_snap i) (mkM (i_auth i) (i_orc i) [] []) []). intros x []. }
  pose proof (Dl e He Hd id Hh) as Hm.
  destruct (pass_unfold i) as [okp [_ [Hl _]]]. rewrite Hl in Hin.
  (* the oracle stays failure-free through the metadata loops only on a clean input; here we
     use the weaker fact that suffices: a successful DeleteShard removes the shard.  We show
     the contrapositive on the shard loop directly. *)
  revert Hin. unfold pass_s2.
  assert (G : forall ids s, forallb is_fok (s_orc s) = true -> (In id (s_local s) -> In id ids) ->
              ~ In id (s_local (fold_left (shard_step (m_del (pass_s1 i))) ids s))).
  { induction ids as [|x ids IH]; intros s Hs Hsub; cbn [fold_left].
    - intros Hin. apply (Hsub Hin).
    - destruct (N.eq_dec x id) as [->|Hne].
      + apply shard_fold_removed. unfold shard_step. rewrite Hm.
        destruct (next_fok _ Hs) as [Hf Ho']. destruct (next (s_orc s)) as [f o']. cbn [fst snd] in *. subst f.
        cbn [s_local]. apply remove_id_not_in.
      + apply IH.
        * unfold shard_step. destruct (mem x (m_del (pass_s1 i))); [|exact Hs].
          destruct (next_fok _ Hs) as [Hf Ho']. destruct (next (s_orc s)) as [f o']. cbn [fst snd] in *. subst f. exact Ho'.
        * intros Hin. assert (Hin' : In id (s_local s)).
          { unfold shard_step in Hin. destruct (mem x (m_del (pass_s1 i))); [|exact Hin].
            destruct (next (s_orc s)) as [f o']. destruct f; cbn [s_local] in Hin; try exact Hin; apply (remove_id_incl x); exact Hin. }
          destruct (Hsub Hin') as [E|E]; [congruence | exact E]. }
  apply G; [|cbn [s_local]; auto].
  cbn [s_orc]. (* the oracle after the metadata loops is a suffix of a failure-free oracle *)
  assert (Hsuf : forall s, forallb is_fok (m_orc s) = true ->
                 forallb is_fok (m_orc (meta_phase (i_now i) (i_tdel i) (i_snap i) s)) = true).
  { intros s0 H0. unfold meta_phase. apply fold_left_ind; [exact H0|]. intros s1 d _ H1.
    unfold db_step. apply fold_left_ind; [exact H1|]. intros s2 r _ H2. unfold rp_step.
    apply fold_left_ind; [exact H2|]. intros s3 g _ H3. unfold mark_step.
    destruct (next_fok _ H3) as [Hf Ho']. destruct (next (m_orc s3)) as [f o']. cbn [fst snd] in *. subst f.
    destruct (delete_shard_group (m_auth s3) (db_name d) (rp_name r) (g_id g) (i_tdel i)); cbn [m_orc]; exact Ho'. }
  unfold pass_s1. apply Hsuf. exact Ho.
Qed.
