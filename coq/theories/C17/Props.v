(* C17/Props.v — property theorems only.  Each is closed by [exact] of a lemma proved in
   Proofs.v / ProofsComplete.v / ProofsHist.v and followed by Print Assumptions.
   Quantification: [i : input] ranges over every clock reading, every snapshot and every
   authoritative metadata (any durations incl. 0 = infinite and negative, any group set —
   truncated, deleted, prunable, duplicate names/IDs —, snapshot possibly stale), every
   local shard list and every failure oracle. *)
From Verif Require Import C17.Model C17.Spec C17.Proofs C17.ProofsComplete C17.ProofsHist C17.ProofsRetry.
From Verif Require Import C17.Store C17.StoreProofs C17.StoreLink C17.StoreSpec.
From VerifGen Require Import Consts.
Open Scope Z_scope.

(* the link: the model satisfies the executable specification (Spec.v) on EVERY input *)
Theorem spec_ok_for_all_inputs : forall i : input, spec_ok i (pass i) = true.
Proof. exact spec_ok_model. Qed.
Print Assumptions spec_ok_for_all_inputs.

(* retention_safe: every shard handed to DeleteShard is local and belongs to a group that
   the snapshot marks deleted, or to a group expired at now (not deleted, finite duration,
   End + Duration < now) whose DeleteShardGroup returned nil EARLIER in this pass; every
   DeleteShardGroup is for such an expired group.  Shards of no group are never passed. *)
Theorem retention_safe :
  forall (i : input) (pre : list call) (c : call) (post : list call),
  r_calls (pass i) = pre ++ c :: post ->
  match c with
  | CDelShard id _ =>
      In id (i_local i) /\
      exists e, In e (entries (i_snap i)) /\ In id (shard_ids (e_g e)) /\
                (deleted (e_g e) = true \/
                 (deleted (e_g e) = false /\ e_dur e <> 0 /\ g_end (e_g e) + e_dur e < i_now i /\
                  In (CDelGroup (e_db e) (e_rp e) (g_id (e_g e)) true) pre))
  | CDelGroup db rp gid _ =>
      exists e, In e (entries (i_snap i)) /\ e_db e = db /\ e_rp e = rp /\ g_id (e_g e) = gid /\
                deleted (e_g e) = false /\ e_dur e <> 0 /\ g_end (e_g e) + e_dur e < i_now i
  | CPrune _ => True
  end.
Proof. exact pass_retention_safe. Qed.
Print Assumptions retention_safe.

(* young_data_kept: a group the pass marks deleted can only hold timestamps older than the
   retention period the pass saw: t < End  ==>  t < now - Duration *)
Theorem young_data_kept :
  forall (i : input) (db rp gid : N) (ok : bool),
  In (CDelGroup db rp gid ok) (r_calls (pass i)) ->
  exists e, In e (entries (i_snap i)) /\ e_db e = db /\ e_rp e = rp /\ g_id (e_g e) = gid /\
            e_dur e <> 0 /\ forall t, t < g_end (e_g e) -> t < i_now i - e_dur e.
Proof. exact pass_young_data_kept. Qed.
Print Assumptions young_data_kept.

(* infinite_never_expires: Duration = 0 expires nothing, at any time; and a pass over
   metadata with only infinite policies calls DeleteShardGroup never *)
Theorem infinite_never_expires :
  (forall r now, rp_dur r = 0 -> expired_groups r now = []) /\
  (forall i, (forall e, In e (entries (i_snap i)) -> e_dur e = 0) ->
             forall c, In c (r_calls (pass i)) -> match c with CDelGroup _ _ _ _ => False | _ => True end).
Proof. split; [exact expired_infinite | exact pass_infinite_never]. Qed.
Print Assumptions infinite_never_expires.

(* ExpiredShardGroups(t), exactly: strict <, nominal EndTime, TruncatedAt not consulted *)
Theorem expired_is_exactly :
  forall r t g, In g (expired_groups r t) <->
                In g (rp_groups r) /\ g_del g = None /\ rp_dur r <> 0 /\ g_end g + rp_dur r < t.
Proof. exact expired_groups_iff. Qed.
Print Assumptions expired_is_exactly.

(* pass_complete_without_errors: on a current, well-formed snapshot and without injected
   failures every call returns nil, afterwards no group of the metadata is expired and
   unmarked, and no local shard belongs to a group marked deleted *)
Theorem pass_complete_without_errors :
  forall i : input,
  forallb is_fok (i_orc i) = true -> i_auth i = i_snap i -> wf (i_snap i) ->
  (forall c, In c (r_calls (pass i)) -> call_ok c = true) /\
  (forall e, In e (entries (r_auth (pass i))) -> e_expired (i_now i) e = false) /\
  (forall id e, In id (r_local (pass i)) -> In e (entries (r_auth (pass i))) ->
                e_deleted e = true -> holds e id = false) /\
  wf (r_auth (pass i)).
Proof. exact pass_complete_lemma. Qed.
Print Assumptions pass_complete_without_errors.

(* ... and with failures: after ANY history of passes (arbitrary oracles, any node) and
   environment changes that keep the metadata well-formed, the next failure-free pass of a
   node completes that node's work as of every time now' <= now *)
Theorem next_clean_pass_completes :
  forall (c : cluster) (h : list step) (n : N) (now now' tdel tprune : Z) (orc : list fault),
  wf (c_meta c) -> wf_hist h -> forallb is_fok orc = true -> now' <= now ->
  let c' := run c h in
  let r := pass (node_input c' n now tdel tprune orc) in
  forallb call_ok (r_calls r) = true /\ nothing_left now' (r_auth r) (r_local r) = true.
Proof. exact eventually_complete. Qed.
Print Assumptions next_clean_pass_completes.

(* every pass of every history is safe w.r.t. the state it ran on *)
Theorem every_pass_of_every_history_safe :
  forall (c : cluster) (h : list step) (n : N) (now tdel tprune : Z) (orc : list fault),
  let c' := run c h in
  retention_safe_prop (c_meta c') now (get_node n (c_nodes c'))
                      (r_calls (pass (node_input c' n now tdel tprune orc))).
Proof. exact history_safe. Qed.
Print Assumptions every_pass_of_every_history_safe.

(* shards are removed from every node that holds them: after each node of ns has run one
   failure-free pass (any order, any meta-service clocks), nothing is expired-and-unmarked
   and NO node of ns holds a shard of a group the metadata marks deleted.  Ownership
   recorded in the metadata is not consulted by the service. *)
Theorem all_nodes_clean :
  forall (c : cluster) (now : Z) (td tp : N -> Z) (ns : list N),
  wf (c_meta c) -> ns <> [] -> (forall n, In n ns -> In n (map fst (c_nodes c))) ->
  let c' := run c (sweep now td tp ns) in
  wf (c_meta c') /\
  (forall e, In e (entries (c_meta c')) -> e_expired now e = false) /\
  (forall n id e, In n ns -> In id (get_node n (c_nodes c')) -> In e (entries (c_meta c')) ->
                  e_deleted e = true -> holds e id = false).
Proof. exact all_nodes_clean_lemma. Qed.
Print Assumptions all_nodes_clean.

(* boundary: a local shard that belongs to no group of the snapshot is kept and never
   passed to DeleteShard ... *)
Theorem unknown_shards_never_touched :
  forall (i : input) (id : N),
  (forall e, In e (entries (i_snap i)) -> holds e id = false) -> In id (i_local i) ->
  In id (r_local (pass i)) /\ forall ok, ~ In (CDelShard id ok) (r_calls (pass i)).
Proof. exact unknown_shard_untouched. Qed.
Print Assumptions unknown_shards_never_touched.

(* ... hence shards of a group pruned while their node was away stay on that node: a
   concrete well-formed cluster where shard 7 belonged to a deleted group, the group is
   pruned by another node's pass, and node 2 keeps shard 7 through its own passes *)
Theorem pruned_group_shards_linger :
  wf_b (c_meta linger_cluster) = true /\
  existsb (fun e => e_deleted e && holds e 7%N) (entries (c_meta linger_cluster)) = true /\
  entries (c_meta (run linger_cluster linger_hist)) = [] /\
  get_node 2 (c_nodes (run linger_cluster linger_hist)) = [7%N].
Proof. exact linger_witness. Qed.
Print Assumptions pruned_group_shards_linger.

(* dropped_iff_too_old (MapShards as repaired by "fix: MapShards drops every point older
   than the retention period"): given a CreateShardGroup that returns a group accepting the
   timestamp, a point is reported dropped iff it is older than the cut-off *)
Theorem dropped_iff_too_old :
  forall (create : Z -> option group) (now dur : Z) (pts : list Z) (flags : list bool),
  (forall t g, create t = Some g -> contains g t = true) ->
  map_shards create now dur pts = Some flags ->
  length flags = length pts /\
  forall k t f, nth_error pts k = Some t -> nth_error flags k = Some f ->
                (f = true <-> t < (if 0 <? dur then now - dur else c17_min_nano_time)).
Proof. exact dropped_iff_lemma. Qed.
Print Assumptions dropped_iff_too_old.

(* ---------- several passes: a failed local delete is retried ---------- *)

(* the link for what Run.v evaluates per tick (spec_ok and retry_ok) *)
Theorem tick_ok_for_all_inputs : forall i : input, tick_ok i (pass i) = true.
Proof. exact tick_ok_model. Qed.
Print Assumptions tick_ok_for_all_inputs.

(* failed_delete_is_retried: after ANY history (passes of any node with arbitrary failure
   oracles — in particular passes in which DeleteShard of this very shard failed — and
   arbitrary environment changes) the next pass of node n calls DeleteShard for every shard
   that is on n and belongs to a group the metadata marks deleted.  The service carries no
   memory from pass to pass: the state of a history is the cluster state alone. *)
Theorem failed_delete_is_retried :
  forall (c : cluster) (h : list step) (n : N) (now tdel tprune : Z) (orc : list fault) (id : N) (e : entry),
  let c' := run c h in
  In id (get_node n (c_nodes c')) -> In e (entries (c_meta c')) -> e_deleted e = true -> holds e id = true ->
  exists ok, In (CDelShard id ok) (r_calls (pass (node_input c' n now tdel tprune orc))).
Proof. exact history_retries. Qed.
Print Assumptions failed_delete_is_retried.

(* ... and when that pass runs without injected failures the shard is gone afterwards *)
Theorem clean_retry_removes_the_shard :
  forall (i : input) (id : N) (e : entry),
  forallb is_fok (i_orc i) = true ->
  In e (entries (i_snap i)) -> e_deleted e = true -> holds e id = true -> ~ In id (r_local (pass i)).
Proof. exact clean_retry_removes. Qed.
Print Assumptions clean_retry_removes_the_shard.

(* ---------- Store.DeleteShard: what removing the shard does to the rest ---------- *)
(* [st] ranges over EVERY abstract store (any shard list — duplicate ids, several databases and
   retention policies, both index types —, any series-file and shared-index content, healthy
   or not), [id] over every shard id, [sh] is the shard DeleteShard finds. *)

(* delete_keeps_held_series: no series that ANY remaining shard of the database (whatever its
   retention policy) still holds is removed from the series file or from the shared inmem
   index *)
Theorem delete_keeps_held_series :
  forall (st : store) (id : N) (sh o : sshard) (k : skey),
  find_shard st id = Some sh ->
  In o (st_shards st) -> ss_id o <> id -> In k (keys o) ->
  (In k (lookup (ss_db o) (st_sfile st)) -> In k (lookup (ss_db o) (st_sfile (snd (delete_shard st id))))) /\
  (In k (lookup (ss_db o) (st_inmem st)) -> In k (lookup (ss_db o) (st_inmem (snd (delete_shard st id))))).
Proof.
  intros st id sh o k Hf Ho Hid Hk. split.
  - exact (delete_keeps_sfile st id sh Hf o k Ho Hid Hk).
  - exact (delete_keeps_inmem st id sh Hf o k Ho Hid Hk).
Qed.
Print Assumptions delete_keeps_held_series.

(* delete_reads_unchanged: the remaining shards are exactly the shards with another id,
   every read of each of them (series and points) is what it was, and the series listing of
   every database is exactly what its remaining shards (others_of = other id, same database,
   any retention policy) read before *)
Theorem delete_reads_unchanged :
  forall (st : store) (id : N) (sh : sshard),
  find_shard st id = Some sh ->
  (forall o, In o (st_shards (snd (delete_shard st id))) <-> In o (st_shards st) /\ ss_id o <> id) /\
  (forall o, In o (st_shards st) -> ss_id o <> id ->
             read_shard (snd (delete_shard st id)) o = read_shard st o) /\
  (forall db, vis_keys (snd (delete_shard st id)) db =
              flat_map (fun s => map fst (read_shard st s)) (others_of st id db)).
Proof.
  intros st id sh Hf. split; [|split].
  - exact (delete_remaining st id sh Hf).
  - exact (delete_read st id sh Hf).
  - intros db. exact (delete_listing st id sh db Hf).
Qed.
Print Assumptions delete_reads_unchanged.

(* delete_shard_exact: the series file of every database afterwards = before, minus exactly
   the series of the deleted shard that no remaining shard of the SAME database holds (so:
   series held only by the deleted shard are removed; other databases are untouched); an
   unknown shard id changes nothing *)
Theorem delete_shard_exact :
  (forall (st : store) (id : N) (sh : sshard),
   find_shard st id = Some sh -> forall (db : N) (k : skey),
   (In k (lookup db (st_sfile (snd (delete_shard st id)))) <->
    In k (lookup db (st_sfile st)) /\
    ~ (db = ss_db sh /\ In k (keys sh) /\
       forall o, In o (st_shards st) -> ss_id o <> id -> ss_db o = db -> ~ In k (keys o)))) /\
  (forall (st : store) (id : N), find_shard st id = None -> delete_shard st id = (DNotFound, st)).
Proof. split; [exact delete_exact | exact delete_not_found]. Qed.
Print Assumptions delete_shard_exact.

(* reachable stores: the invariant [healthy] (one shard per id; every series of every shard is
   live in its database's series file and, for inmem shards, in the shared index; the shared
   index in use lists no series that no shard of the database holds) holds for every store the
   harness builds and is preserved by DeleteShard, WriteToShard and close+reopen.  The last
   clause is the one the code violated before "fix: DeleteShard left series in the shared
   inmem index of a database with mixed index types". *)
Theorem store_invariant :
  (forall shs, valid_shards shs = true -> healthy (init_store shs)) /\
  (forall st o, healthy st -> healthy (snd (apply_op st o))).
Proof. split; [exact init_healthy | exact apply_healthy]. Qed.
Print Assumptions store_invariant.

(* the link for the store cases: on every healthy store and for every operation the model's
   observation satisfies the executable specification (remaining shards read as before, series
   file minus exactly the exclusively-held series, listings = the series readable from the
   remaining shards); hence for every valid description and every operation sequence *)
Theorem store_spec_ok_for_all :
  (forall dbs st, healthy st -> forall o,
     step_spec (obs_of dbs st) o (fst (apply_op st o)) (obs_of dbs (snd (apply_op st o))) = true) /\
  (forall dbs shs ops, valid_shards shs = true ->
     steps_spec (obs_of dbs (init_store shs)) (run_ops dbs (init_store shs) ops) = true).
Proof. split; [exact link_step | exact store_spec_ok_model]. Qed.
Print Assumptions store_spec_ok_for_all.

(* ---------- non-vacuity ---------- *)

Definition ex_now : Z := 1790000000000000000.
Definition ex_hour : Z := 3600000000000.

(* the shape of seeded C17-4: series (0,0) in a shard of policy 0 and in a shard of policy 1 of
   database 0; deleting the first keeps it everywhere; series (1,1) only the deleted shard
   holds goes, also from the listings; database 1 is untouched *)
Definition ex_shards : list sshard :=
  [ mkSS 1 0 0 false [((0, 0), [(10%Z, 1%Z)]); ((1, 1), [(10%Z, 1%Z)])]
  ; mkSS 2 0 1 true [((0, 0), [(20%Z, 2%Z)])]
  ; mkSS 3 1 0 false [((1, 1), [(30%Z, 3%Z)])] ]%N.
Example store_nonvacuous :
  valid_shards ex_shards = true /\
  find_shard (init_store ex_shards) 1%N = Some (mkSS 1 0 0 false [((0, 0), [(10%Z, 1%Z)]); ((1, 1), [(10%Z, 1%Z)])])%N /\
  (let st' := snd (delete_shard (init_store ex_shards) 1%N) in
   kmem (0, 0)%N (lookup 0%N (st_sfile st')) = true /\ kmem (1, 1)%N (lookup 0%N (st_sfile st')) = false /\
   kmem (1, 1)%N (lookup 1%N (st_sfile st')) = true /\
   nmem 1%N (d_names (db_obs st' 0%N)) = false /\ nmem 0%N (d_names (db_obs st' 0%N)) = true /\
   read_shard st' (mkSS 2 0 1 true [((0, 0), [(20%Z, 2%Z)])])%N = [((0, 0)%N, [(20%Z, 2%Z)])]) /\
  steps_spec (obs_of [0; 1]%N (init_store ex_shards))
             (run_ops [0; 1]%N (init_store ex_shards) [ODel 1; OWrite 2 (1, 1) [(40%Z, 4%Z)]; OReopen; ODel 9; ODel 2]%N) = true.
Proof. vm_compute. repeat split; reflexivity. Qed.

(* a history in which DeleteShard(7) fails twice and then succeeds *)
Example retry_nonvacuous :
  let m := [mkDb 0 [mkPolicy 0 ex_hour ex_hour
              [mkGroup 1 (ex_now - 5 * ex_hour) (ex_now - 4 * ex_hour) (Some (ex_now - 60)) None [mkShard 7 []]]]] in
  let c := mkCl m [(1%N, [7%N])] in
  r_calls (pass (node_input (run c [SPass 1 ex_now ex_now ex_now [FErr]]) 1 ex_now ex_now ex_now [FErr]))
    = [CDelShard 7 false; CPrune true] /\
  r_local (pass (node_input (run c [SPass 1 ex_now ex_now ex_now [FErr]; SPass 1 ex_now ex_now ex_now [FErr]]) 1 ex_now ex_now ex_now []))
    = [].
Proof. vm_compute. auto. Qed.

Definition ex_meta : meta :=
  [mkDb 0 [mkPolicy 0 ex_hour ex_hour
     [ mkGroup 1 (ex_now - 3 * ex_hour) (ex_now - 2 * ex_hour) None None [mkShard 2 [1%N]; mkShard 3 [2%N]]
     ; mkGroup 4 (ex_now - 2 * ex_hour) (ex_now - ex_hour) None None [mkShard 5 [1%N]]      (* End+Dur = now: not expired *)
     ; mkGroup 6 (ex_now - 9 * ex_hour) (ex_now - 8 * ex_hour) (Some (ex_now - ex_hour)) None [mkShard 7 [1%N]] ];
           mkPolicy 1 0 ex_hour
     [ mkGroup 8 (ex_now - 99 * ex_hour) (ex_now - 98 * ex_hour) None None [mkShard 9 [1%N]] ]]].
Definition ex_input (orc : list fault) : input := mkInput ex_now ex_now ex_now ex_meta ex_meta [3; 5; 7; 9; 1001]%N orc.

(* a clean input exists, and the pass on it does something *)
Example clean_nonvacuous :
  clean (ex_input []) = true /\
  r_calls (pass (ex_input [])) = [CDelGroup 0 0 1 true; CDelShard 3 true; CDelShard 7 true; CPrune true] /\
  r_local (pass (ex_input [])) = [5; 9; 1001]%N.
Proof. vm_compute. auto. Qed.

(* with a failing DeleteShardGroup the shard of that group is NOT deleted in this pass *)
Example failure_nonvacuous :
  r_calls (pass (ex_input [FErr])) = [CDelGroup 0 0 1 false; CDelShard 7 true; CPrune true].
Proof. vm_compute. reflexivity. Qed.

Example history_nonvacuous :
  wf (c_meta linger_cluster) /\ wf_hist linger_hist.
Proof. split; [apply wf_b_sound; vm_compute; reflexivity | intros m [H|[H|[H|[]]]]; discriminate]. Qed.

Example dropped_nonvacuous :
  map_shards (fun t => Some (mkGroup 1 (t - 5) (t + 5) None None [])) 1000 100 [899; 900; 2000]
  = Some [true; false; false].
Proof. vm_compute. reflexivity. Qed.
