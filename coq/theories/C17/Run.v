(* C17/Run.v — correspondence cases.  The harness records an input and what the real code
   did; [check_case] compares with the model (agree) and evaluates the executable spec of
   Spec.v on the implementation's observation (spec_ok).
   result code: 0 agree & spec_ok, 1 differ & spec_ok, 2 differ & spec fails,
                3 agree & spec fails (model mirrors a defect) *)
From Verif Require Export C17.Model C17.Spec C17.Store.
Open Scope Z_scope.

Definition code (agree spec_ok : bool) : N :=
  match agree, spec_ok with
  | true, true => 0 | false, true => 1 | false, false => 2 | true, false => 3
  end%N.

Definition call_eqb (a b : call) : bool :=
  match a, b with
  | CDelGroup d r g k, CDelGroup d' r' g' k' => N.eqb d d' && N.eqb r r' && N.eqb g g' && Bool.eqb k k'
  | CDelShard i k, CDelShard i' k' => N.eqb i i' && Bool.eqb k k'
  | CPrune k, CPrune k' => Bool.eqb k k'
  | _, _ => false
  end.
Definition result_eqb (a b : result) : bool :=
  list_eqb call_eqb (r_calls a) (r_calls b) && meta_eqb (r_auth a) (r_auth b) &&
  list_eqb N.eqb (r_local a) (r_local b).

Inductive case :=
(* one tick of the real retention.Service: input as seen by the fakes, observed calls,
   metadata (DeletedAt canonicalised) and shard set afterwards *)
| CPass (i : input) (o : result) (panicked : bool)
(* RetentionPolicyInfo.ExpiredShardGroups(t) / DeletedShardGroups() on policy r: IDs returned *)
| CExp (r : policy) (t : Z) (exp_ids del_ids : list N)
(* PointsWriter.MapShards at time now on a policy of duration dur, point times pts;
   created = (timestamp, group returned) per CreateShardGroup call; err = MapShards failed;
   flags = per point, reported in mapping.Dropped *)
| CDrop (now dur : Z) (pts : list Z) (created : list (Z * group)) (err : bool) (flags : list bool)
(* consecutive ticks of ONE real retention.Service (started fresh for the scenario): per tick
   the input as seen by the fakes and what was observed *)
| CScen (ticks : list (input * result)) (panicked : bool)
(* a REAL tsdb.Store built from shs (databases, retention policies, both index types, series
   with points), observed (o0), then operations DeleteShard / WriteToShard / close+reopen, each
   with its error code and the observation afterwards (every remaining shard read through
   Shard.CreateIterator; per database series-file membership, MeasurementNames, TagValues,
   SeriesCardinality).  dbs = the databases observed. *)
| CStore (shs : list sshard) (dbs : list N) (o0 : sobs) (steps : list (sop * N * sobs)) (failed : bool).

Definition create_of (created : list (Z * group)) (t : Z) : option group :=
  match find (fun e => fst e =? t) created with Some e => Some (snd e) | None => None end.

Definition check_case (c : case) : N :=
  match c with
  | CPass i o panicked =>
      code (negb panicked && result_eqb (pass i) o) (negb panicked && tick_ok i o)
  | CScen ticks panicked =>
      code (negb panicked && forallb (fun t => result_eqb (pass (fst t)) (snd t)) ticks)
           (negb panicked && forallb (fun t => tick_ok (fst t) (snd t)) ticks)
  | CStore shs dbs o0 steps failed =>
      let st := init_store shs in
      code (negb failed && valid_shards shs && sobs_eqb o0 (obs_of dbs st) && steps_agree dbs st steps)
           (negb failed && steps_spec o0 steps)
  | CExp r t ex de =>
      code (list_eqb N.eqb (map g_id (expired_groups r t)) ex && list_eqb N.eqb (map g_id (deleted_groups r)) de)
           (expired_spec r t ex && deleted_spec r de)
  | CDrop now dur pts created err flags =>
      let agree := match map_shards (create_of created) now dur pts with
                   | Some fl => negb err && list_eqb Bool.eqb fl flags
                   | None => err
                   end in
      code agree (if err then true else drops_ok now dur pts flags)
  end.
