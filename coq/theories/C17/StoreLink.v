(* C17/StoreLink.v — the invariant of reachable stores ([healthy]), its preservation by
   DeleteShard / WriteToShard / reopen, and the link theorem: on every healthy store the model
   satisfies the executable specification [step_spec] of Store.v. *)
From Verif Require Import C17.Store C17.StoreProofs.
Open Scope N_scope.

(* ---------- the invariant ---------- *)

Record healthy (st : store) : Prop := mkH {
  (* s.shards is a map: one shard per id *)
  h_ids : NoDup (map ss_id (st_shards st));
  (* every series of every shard is live in the series file of its database ... *)
  h_sfile : forall s k, In s (st_shards st) -> In k (keys s) -> In k (lookup (ss_db s) (st_sfile st));
  (* ... and, for an inmem shard, in the shared index of its database *)
  h_inmem : forall s k, In s (st_shards st) -> ss_inmem s = true -> In k (keys s) ->
                        In k (lookup (ss_db s) (st_inmem st));
  (* the shared index in use by some shard lists no series that no shard of the database holds *)
  h_orphan : forall db k, existsb ss_inmem (db_shards st db) = true -> In k (lookup db (st_inmem st)) ->
                          In k (all_keys st db) }.

(* ---------- list helpers ---------- *)

Lemma filter_true {A} (p : A -> bool) l : (forall x, In x l -> p x = true) -> filter p l = l.
Proof.
  induction l as [|x l IH]; intros H; cbn [filter]; [reflexivity|].
  rewrite (H x (or_introl eq_refl)). f_equal. apply IH. intros y Hy. apply H. right. exact Hy.
Qed.

Lemma flat_map_ext_in' {A B} (f g : A -> list B) l : (forall x, In x l -> f x = g x) -> flat_map f l = flat_map g l.
Proof.
  induction l as [|x l IH]; intros H; cbn [flat_map]; [reflexivity|].
  rewrite (H x (or_introl eq_refl)). f_equal. apply IH. intros y Hy. apply H. right. exact Hy.
Qed.

Lemma filter_map_comm {A B} (p : B -> bool) (f : A -> B) l : filter p (map f l) = map f (filter (fun x => p (f x)) l).
Proof.
  induction l as [|x l IH]; cbn [map filter]; [reflexivity|].
  destruct (p (f x)); cbn [map]; rewrite IH; reflexivity.
Qed.

Lemma filter_filter_absorb {A} (p q : A -> bool) l :
  (forall x, In x l -> p x = true -> q x = true) -> filter p (filter q l) = filter p l.
Proof.
  induction l as [|x l IH]; intros H; cbn [filter]; [reflexivity|].
  assert (IH' : filter p (filter q l) = filter p l) by (apply IH; intros y Hy; apply H; right; exact Hy).
  destruct (q x) eqn:Hq; cbn [filter].
  - rewrite IH'. reflexivity.
  - destruct (p x) eqn:Hp; [|exact IH']. rewrite (H x (or_introl eq_refl) Hp) in Hq. discriminate.
Qed.

Lemma NoDup_map_filter' {A B} (f : A -> B) p l : NoDup (map f l) -> NoDup (map f (filter p l)).
Proof.
  induction l as [|x l IH]; cbn [map filter]; intros H; [constructor|].
  inversion H as [|? ? Hn Hd]; subst. destruct (p x); cbn [map]; [|apply IH; exact Hd].
  constructor; [|apply IH; exact Hd]. intros Hin. apply Hn. apply in_map_iff in Hin. destruct Hin as [y [Hy Hin]].
  apply filter_In in Hin. apply in_map_iff. exists y. tauto.
Qed.

Lemma NoDup_map_inj {A B} (f : A -> B) l x y : NoDup (map f l) -> In x l -> In y l -> f x = f y -> x = y.
Proof.
  induction l as [|z l IH]; cbn [map]; intros Hn Hx Hy He; [contradiction|].
  inversion Hn as [|? ? Hnot Hd]; subst. destruct Hx as [Hx|Hx], Hy as [Hy|Hy]; subst.
  - reflexivity.
  - exfalso. apply Hnot. rewrite He. apply in_map. exact Hy.
  - exfalso. apply Hnot. rewrite <- He. apply in_map. exact Hx.
  - apply IH; assumption.
Qed.

Lemma dedupe_n_In x l : In x (dedupe_n l) <-> In x l.
Proof.
  induction l as [|y l IH]; cbn [dedupe_n]; [reflexivity|].
  destruct (nmem y l) eqn:Hm.
  - apply nmem_In in Hm. rewrite IH. split; [intros H; right; exact H | intros [H|H]; [subst; exact Hm | exact H]].
  - cbn [In]. rewrite IH. reflexivity.
Qed.

Lemma lookup_mapf (f : N -> list skey) db l :
  lookup db (map (fun d => (d, f d)) l) = if nmem db l then f db else [].
Proof.
  induction l as [|d l IH]; cbn [map lookup nmem existsb fst snd]; [reflexivity|].
  fold (nmem db l). rewrite N.eqb_sym. destruct (N.eqb db d) eqn:Hd; cbn [orb].
  - apply N.eqb_eq in Hd. subst d. reflexivity.
  - exact IH.
Qed.

Lemma upsert_keys k pts l x : In x (map fst (upsert k pts l)) <-> In x (map fst l) \/ x = k.
Proof.
  induction l as [|e l IH]; cbn [upsert map In fst].
  - split; [intros [H|[]]; auto | intros [[]|H]; auto].
  - destruct (key_eqb (fst e) k) eqn:He; cbn [map In fst].
    + apply key_eqb_eq in He. split; [intros [H|H]; auto | intros [[H|H]|H]; auto]. left. congruence.
    + rewrite IH. tauto.
Qed.

(* ---------- consequences of the invariant for what is observed ---------- *)

Lemma healthy_read st s : healthy st -> In s (st_shards st) -> read_shard st s = ss_series s.
Proof.
  intros H Hs. unfold read_shard. apply filter_true. intros e He.
  assert (Hk : In (fst e) (keys s)) by (apply in_map; exact He).
  unfold visible. apply andb_true_iff. split.
  - apply kmem_In. apply (h_sfile st H s _ Hs Hk).
  - destruct (ss_inmem s) eqn:Hi; [|reflexivity]. apply kmem_In. apply (h_inmem st H s _ Hs Hi Hk).
Qed.

Lemma healthy_vis st db : healthy st -> vis_keys st db = all_keys st db.
Proof.
  intros H. unfold vis_keys, all_keys. apply flat_map_ext_in'. intros s Hs.
  apply filter_In in Hs. destruct Hs as [Hs _]. rewrite (healthy_read st s H Hs). reflexivity.
Qed.

Lemma held_in_obs st l db :
  held_in (map (shard_obs st) l) db =
  flat_map (fun s => map fst (read_shard st s)) (filter (fun s => N.eqb (ss_db s) db) l).
Proof.
  unfold held_in. rewrite filter_map_comm. cbn [shard_obs o_db].
  induction (filter (fun x => N.eqb (ss_db x) db) l) as [|s r IH]; cbn [map flat_map]; [reflexivity|].
  rewrite IH. reflexivity.
Qed.

(* ---------- comparing observations ---------- *)

Lemma subset_key_iff a b : subset key_eqb a b = true <-> forall k, In k a -> In k b.
Proof.
  unfold subset. rewrite forallb_forall. split; intros H k Hk.
  - apply kmem_In. apply (H k Hk).
  - apply kmem_In. apply (H k Hk).
Qed.
Lemma subset_n_iff a b : subset N.eqb a b = true <-> forall k, In k a -> In k b.
Proof.
  unfold subset. rewrite forallb_forall. split; intros H k Hk.
  - apply nmem_In. apply (H k Hk).
  - apply nmem_In. apply (H k Hk).
Qed.
Lemma seteq_key_iff a b : seteq key_eqb a b = true <-> forall k, In k a <-> In k b.
Proof.
  unfold seteq. rewrite andb_true_iff, !subset_key_iff. split.
  - intros [H1 H2] k. split; [apply H1 | apply H2].
  - intros H. split; intros k; apply H.
Qed.
Lemma seteq_n_iff a b : seteq N.eqb a b = true <-> forall k, In k a <-> In k b.
Proof.
  unfold seteq. rewrite andb_true_iff, !subset_n_iff. split.
  - intros [H1 H2] k. split; [apply H1 | apply H2].
  - intros H. split; intros k; apply H.
Qed.

Definition dequiv (a b : dbobs) : Prop :=
  d_db a = d_db b /\ (forall k, In k (d_sfile a) <-> In k (d_sfile b)) /\
  (forall n, In n (d_names a) <-> In n (d_names b)) /\ (forall k, In k (d_keys a) <-> In k (d_keys b)) /\
  d_card a = d_card b.

Lemma dbobs_eqb_iff a b : dbobs_eqb a b = true <-> dequiv a b.
Proof.
  unfold dbobs_eqb, dequiv. rewrite !andb_true_iff, !N.eqb_eq, !seteq_key_iff, seteq_n_iff. tauto.
Qed.
Lemma dequiv_refl a : dequiv a a.
Proof. unfold dequiv. repeat split; auto. Qed.
Lemma dequiv_sym a b : dequiv a b -> dequiv b a.
Proof.
  unfold dequiv. intros [H1 [H2 [H3 [H4 H5]]]]. repeat split; try (symmetry; assumption);
    try (apply H2); try (apply H3); try (apply H4); auto.
Qed.
Lemma dequiv_trans a b c : dequiv a b -> dequiv b c -> dequiv a c.
Proof.
  unfold dequiv. intros [H1 [H2 [H3 [H4 H5]]]] [G1 [G2 [G3 [G4 G5]]]].
  split; [congruence|]. split; [intros k; rewrite H2; apply G2|]. split; [intros k; rewrite H3; apply G3|].
  split; [intros k; rewrite H4; apply G4 | congruence].
Qed.

Lemma subset_refl {A} (eqb : A -> A -> bool) l : (forall x, eqb x x = true) -> subset eqb l l = true.
Proof.
  intros Hr. unfold subset. apply forallb_forall. intros x Hx. apply existsb_exists. exists x. auto.
Qed.
Lemma seteq_refl {A} (eqb : A -> A -> bool) l : (forall x, eqb x x = true) -> seteq eqb l l = true.
Proof. intros Hr. unfold seteq. rewrite (subset_refl eqb l Hr). reflexivity. Qed.

Lemma leqb_pt_refl l : leqb pt_eqb l l = true.
Proof.
  induction l as [|x l IH]; cbn [leqb]; [reflexivity|]. rewrite IH. unfold pt_eqb. rewrite !Z.eqb_refl. reflexivity.
Qed.
Lemma series_eqb_refl e : series_eqb e e = true.
Proof. unfold series_eqb. rewrite key_eqb_refl, leqb_pt_refl. reflexivity. Qed.
Lemma shobs_eqb_refl o : shobs_eqb o o = true.
Proof. unfold shobs_eqb. rewrite !N.eqb_refl, (seteq_refl series_eqb _ series_eqb_refl). reflexivity. Qed.

Lemma seteq_pointwise {A B} (eqb : B -> B -> bool) (f g : A -> B) l :
  (forall x, In x l -> eqb (f x) (g x) = true /\ eqb (g x) (f x) = true) -> seteq eqb (map f l) (map g l) = true.
Proof.
  intros H. unfold seteq, subset. apply andb_true_iff. split; apply forallb_forall; intros y Hy;
    apply in_map_iff in Hy; destruct Hy as [x [Hx Hin]]; subst y; apply existsb_exists.
  - exists (g x). split; [apply in_map; exact Hin | apply (H x Hin)].
  - exists (f x). split; [apply in_map; exact Hin | apply (H x Hin)].
Qed.

Lemma sobs_eqb_intro shs (f g : N -> dbobs) dbs :
  (forall db, In db dbs -> dequiv (f db) (g db)) ->
  sobs_eqb (mkSO shs (map f dbs)) (mkSO shs (map g dbs)) = true.
Proof.
  intros H. unfold sobs_eqb. cbn [so_shards so_dbs]. rewrite (seteq_refl shobs_eqb _ shobs_eqb_refl). cbn [andb].
  apply seteq_pointwise. intros db Hdb. split; apply dbobs_eqb_iff; [|apply dequiv_sym]; apply (H db Hdb).
Qed.

(* on a healthy store the listings of a database are exactly the series read from its shards *)
Lemma healthy_db_obs st db (d : dbobs) :
  healthy st -> d_db d = db ->
  dequiv (db_obs st db) (exp_db (map (shard_obs st) (st_shards st)) d (lookup db (st_sfile st))).
Proof.
  intros H Hd. unfold exp_db, db_obs. rewrite Hd, held_in_obs. fold (db_shards st db). fold (vis_keys st db).
  unfold dequiv. cbn [d_db d_sfile d_names d_keys d_card]. rewrite (healthy_vis st db H).
  split; [reflexivity|]. split; [reflexivity|]. split; [|split; reflexivity].
  intros n. rewrite in_app_iff. split; [|auto]. intros [Hn|Hn]; [exact Hn|].
  destruct (existsb ss_inmem (db_shards st db)) eqn:He; [|contradiction].
  apply in_map_iff in Hn. destruct Hn as [k [Hk Hin]]. subst n. apply in_map. apply (h_orphan st H db k He Hin).
Qed.

(* the general step: if the shards and the series files of st' are what the specification
   computes from the observation of st, the observation of st' is the expected one *)
Lemma link_core dbs st st' (SF : dbobs -> list skey) :
  healthy st' ->
  (forall db, In db dbs -> SF (db_obs st db) = lookup db (st_sfile st')) ->
  sobs_eqb (obs_of dbs st')
           (mkSO (map (shard_obs st') (st_shards st'))
                 (map (fun d => exp_db (map (shard_obs st') (st_shards st')) d (SF d)) (map (db_obs st) dbs))) = true.
Proof.
  intros H HSF. unfold obs_of. rewrite map_map. apply sobs_eqb_intro. intros db Hdb.
  rewrite (HSF db Hdb). apply healthy_db_obs; [exact H | reflexivity].
Qed.

(* ---------- the invariant is established and preserved ---------- *)

Lemma nodup_n_sound l : nodup_n l = true -> NoDup l.
Proof.
  induction l as [|x l IH]; cbn [nodup_n]; intros H; [constructor|].
  apply andb_true_iff in H. destruct H as [H1 H2]. constructor; [|apply IH; exact H2].
  apply negb_true_iff in H1. intros Hin. apply nmem_In in Hin. congruence.
Qed.

Lemma in_dbs_of s l : In s l -> nmem (ss_db s) (dbs_of l) = true.
Proof. intros H. apply nmem_In. unfold dbs_of. apply dedupe_n_In. apply in_map. exact H. Qed.

Lemma build_inmem_In db k l :
  In k (lookup db (build_inmem l)) ->
  exists s, In s l /\ ss_db s = db /\ ss_inmem s = true /\ In k (keys s).
Proof.
  unfold build_inmem. rewrite (lookup_mapf (fun d => flat_map keys (filter (fun s => N.eqb (ss_db s) d && ss_inmem s) l))).
  destruct (nmem db (dbs_of l)); [|contradiction]. intros H. apply in_flat_keys in H.
  destruct H as [s [Hs Hk]]. apply filter_In in Hs. destruct Hs as [Hs Hc]. apply andb_true_iff in Hc.
  destruct Hc as [Hd Hi]. apply N.eqb_eq in Hd. exists s. auto.
Qed.
Lemma build_inmem_has s k l :
  In s l -> ss_inmem s = true -> In k (keys s) -> In k (lookup (ss_db s) (build_inmem l)).
Proof.
  intros Hs Hi Hk. unfold build_inmem.
  rewrite (lookup_mapf (fun d => flat_map keys (filter (fun s => N.eqb (ss_db s) d && ss_inmem s) l))).
  rewrite (in_dbs_of s l Hs). apply in_flat_keys. exists s. split; [|exact Hk].
  apply filter_In. split; [exact Hs|]. rewrite N.eqb_refl, Hi. reflexivity.
Qed.

Lemma all_keys_In st db k : In k (all_keys st db) <-> exists s, In s (st_shards st) /\ ss_db s = db /\ In k (keys s).
Proof.
  unfold all_keys, db_shards. rewrite in_flat_keys. split; intros [s H]; exists s.
  - destruct H as [H Hk]. apply filter_In in H. destruct H as [H Hd]. apply N.eqb_eq in Hd. auto.
  - destruct H as [H [Hd Hk]]. split; [|exact Hk]. apply filter_In. split; [exact H | apply N.eqb_eq; exact Hd].
Qed.

Lemma rebuilt_orphan shs sf db k :
  In k (lookup db (build_inmem shs)) -> In k (all_keys (mkSt shs sf (build_inmem shs)) db).
Proof.
  intros H. apply build_inmem_In in H. destruct H as [s [Hs [Hd [_ Hk]]]].
  apply all_keys_In. exists s. auto.
Qed.

Lemma init_healthy shs : valid_shards shs = true -> healthy (init_store shs).
Proof.
  intros Hv. unfold valid_shards in Hv. apply andb_true_iff in Hv. destruct Hv as [Hv _].
  unfold init_store. constructor; cbn [st_shards st_sfile st_inmem].
  - apply nodup_n_sound. exact Hv.
  - intros s k Hs Hk.
    rewrite (lookup_mapf (fun d => flat_map keys (filter (fun s => N.eqb (ss_db s) d) shs))), (in_dbs_of s shs Hs).
    apply in_flat_keys. exists s. split; [|exact Hk]. apply filter_In. split; [exact Hs | apply N.eqb_refl].
  - intros s k Hs Hi Hk. apply build_inmem_has; assumption.
  - intros db k _ Hk. apply rebuilt_orphan. exact Hk.
Qed.

Lemma reopen_healthy st : healthy st -> healthy (reopen st).
Proof.
  intros H. unfold reopen. constructor; cbn [st_shards st_sfile st_inmem].
  - apply (h_ids st H).
  - apply (h_sfile st H).
  - intros s k Hs Hi Hk. apply build_inmem_has; assumption.
  - intros db k _ Hk. apply rebuilt_orphan. exact Hk.
Qed.

Lemma delete_healthy st id : healthy st -> healthy (snd (delete_shard st id)).
Proof.
  intros H. destruct (find_shard st id) as [sh|] eqn:Hf; [|rewrite (delete_not_found st id Hf); exact H].
  destruct (find_shard_some st id sh Hf) as [Hsh Hid].
  assert (Huniq : forall s, In s (st_shards st) -> ss_id s = id -> s = sh).
  { intros s Hs He. apply (NoDup_map_inj ss_id (st_shards st) s sh (h_ids st H) Hs Hsh). congruence. }
  constructor.
  - rewrite (delete_shards_eq st id sh Hf). apply NoDup_map_filter'. apply (h_ids st H).
  - intros s k Hs Hk. apply (delete_remaining st id sh Hf) in Hs. destruct Hs as [Hs Hne].
    apply (delete_keeps_sfile st id sh Hf s k Hs Hne Hk). apply (h_sfile st H s k Hs Hk).
  - intros s k Hs Hi Hk. apply (delete_remaining st id sh Hf) in Hs. destruct Hs as [Hs Hne].
    apply (delete_keeps_inmem st id sh Hf s k Hs Hne Hk). apply (h_inmem st H s k Hs Hi Hk).
  - intros db k He Hk.
    assert (Hsh' : db_shards (snd (delete_shard st id)) db = others_of st id db).
    { unfold db_shards. rewrite (delete_shards_eq st id sh Hf). reflexivity. }
    rewrite Hsh' in He.
    assert (Hall : forall x, In x (all_keys (snd (delete_shard st id)) db) <-> In x (flat_map keys (others_of st id db))).
    { intros x. unfold all_keys. rewrite Hsh'. reflexivity. }
    apply Hall. rewrite (delete_inmem st id sh Hf) in Hk.
    assert (Hsub : existsb ss_inmem (db_shards st db) = true).
    { apply existsb_exists in He. destruct He as [o [Ho Hi]]. apply others_In in Ho. destruct Ho as [Ho [_ Hd]].
      apply existsb_exists. exists o. split; [|exact Hi]. apply filter_In. split; [exact Ho | apply N.eqb_eq; exact Hd]. }
    destruct (N.eqb (ss_db sh) db) eqn:Hd.
    + apply N.eqb_eq in Hd. subst db. rewrite He, orb_true_r in Hk. cbn [andb] in Hk.
      apply diff_In in Hk. destruct Hk as [Hk Hnx].
      pose proof (h_orphan st H (ss_db sh) k Hsub Hk) as Hheld. apply all_keys_In in Hheld.
      destruct Hheld as [s [Hs [Hsd Hsk]]]. destruct (N.eq_dec (ss_id s) id) as [He'|Hne].
      * rewrite (Huniq s Hs He') in Hsk. rewrite exclusive_eq, diff_In in Hnx.
        destruct (kmem k (flat_map keys (others_of st id (ss_db sh)))) eqn:Hm.
        -- apply kmem_In in Hm. exact Hm.
        -- apply kmem_false in Hm. exfalso. apply Hnx. split; assumption.
      * apply in_flat_keys. exists s. split; [|exact Hsk]. apply others_In. auto.
    + rewrite andb_false_r in Hk. apply N.eqb_neq in Hd.
      pose proof (h_orphan st H db k Hsub Hk) as Hheld. apply all_keys_In in Hheld.
      destruct Hheld as [s [Hs [Hsd Hsk]]]. apply in_flat_keys. exists s. split; [|exact Hsk].
      apply others_In. split; [exact Hs|]. split; [|exact Hsd]. intros He'. rewrite (Huniq s Hs He') in Hsd. congruence.
Qed.

(* the listing of every database after DeleteShard, on EVERY store: exactly what its remaining
   shards read before *)
Lemma delete_listing st id sh db :
  find_shard st id = Some sh ->
  vis_keys (snd (delete_shard st id)) db =
  flat_map (fun s => map fst (read_shard st s)) (others_of st id db).
Proof.
  intros Hf. unfold vis_keys, db_shards. rewrite (delete_shards_eq st id sh Hf). fold (others_of st id db).
  apply flat_map_ext_in'. intros s Hs. apply others_In in Hs. destruct Hs as [Hs [Hne _]].
  rewrite (delete_read st id sh Hf s Hs Hne). reflexivity.
Qed.
