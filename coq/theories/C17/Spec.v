(* C17/Spec.v — what "retention removes only expired data, and all of it" means, stated
   on an OBSERVATION of one enforcement pass (the calls made, the metadata and the local
   shard set afterwards), independently of how the pass is computed.  [spec_ok] is the
   executable form used on the implementation's observations (Run.v) and proved of the
   model for all inputs (Proofs.v). *)
From Verif Require Export C17.Model.
Open Scope Z_scope.

(* flat view of the metadata: one entry per shard group with its database, policy and the
   policy's CURRENT duration *)
Record entry := mkE { e_db : N; e_rp : N; e_dur : Z; e_g : group }.
Definition rp_entries (dbn : N) (r : policy) : list entry := map (mkE dbn (rp_name r) (rp_dur r)) (rp_groups r).
Definition db_entries (d : database) : list entry := flat_map (rp_entries (db_name d)) (db_rps d).
Definition entries (m : meta) : list entry := flat_map db_entries m.

Definition e_deleted (e : entry) : bool := deleted (e_g e).
(* expired at [now]: not yet deleted, finite duration, whole range older than the duration *)
Definition e_expired (now : Z) (e : entry) : bool := expired_at (e_dur e) now (e_g e).
Definition holds (e : entry) (id : N) : bool := mem id (shard_ids (e_g e)).
Definition key_is (db rp gid : N) (e : entry) : bool :=
  N.eqb (e_db e) db && N.eqb (e_rp e) rp && N.eqb (g_id (e_g e)) gid.

Definition is_delgroup_ok (db rp gid : N) (c : call) : bool :=
  match c with CDelGroup d r g true => N.eqb d db && N.eqb r rp && N.eqb g gid | _ => false end.
Definition is_delgroup (db rp gid : N) (c : call) : bool :=
  match c with CDelGroup d r g _ => N.eqb d db && N.eqb r rp && N.eqb g gid | _ => false end.
Definition marked_ok (cs : list call) (e : entry) : bool :=
  existsb (is_delgroup_ok (e_db e) (e_rp e) (g_id (e_g e))) cs.

(* shard [id] may be deleted locally, given the calls made before: it belongs to a group the
   snapshot shows as deleted, or to a group expired at [now] whose DeleteShardGroup call
   returned nil earlier in this pass *)
Definition shard_justified (snap : meta) (now : Z) (before : list call) (id : N) : bool :=
  existsb (fun e => holds e id && (e_deleted e || (e_expired now e && marked_ok before e))) (entries snap).

Definition call_safe (snap : meta) (now : Z) (local : list N) (before : list call) (c : call) : bool :=
  match c with
  | CDelShard id _ => mem id local && shard_justified snap now before id
  | CDelGroup db rp gid _ => existsb (fun e => key_is db rp gid e && e_expired now e) (entries snap)
  | CPrune _ => true
  end.
Fixpoint calls_safe (snap : meta) (now : Z) (local : list N) (before cs : list call) : bool :=
  match cs with
  | [] => true
  | c :: r => call_safe snap now local before c && calls_safe snap now local (before ++ [c]) r
  end.

(* every group expired in the snapshot gets a DeleteShardGroup attempt; PruneShardGroups is
   called exactly once, last *)
Definition is_prune (c : call) : bool := match c with CPrune _ => true | _ => false end.
Definition attempts_complete (snap : meta) (now : Z) (cs : list call) : bool :=
  forallb (fun e => implb (e_expired now e)
                      (existsb (is_delgroup (e_db e) (e_rp e) (g_id (e_g e))) cs)) (entries snap)
  && match rev cs with
     | CPrune _ :: r => forallb (fun c => negb (is_prune c)) r
     | _ => false
     end.

Definition call_ok (c : call) : bool :=
  match c with CDelGroup _ _ _ ok => ok | CDelShard _ ok => ok | CPrune ok => ok end.

(* after the pass nothing is left to do as of [now]: no group of the metadata is expired
   and not marked, and no local shard belongs to a group marked deleted *)
Definition nothing_left (now : Z) (m : meta) (local : list N) : bool :=
  forallb (fun e => negb (e_expired now e)) (entries m)
  && forallb (fun id => negb (existsb (fun e => e_deleted e && holds e id) (entries m))) local.

(* well-formed metadata: names and IDs unique where the code looks things up by them *)
Fixpoint nodup_b (l : list N) : bool :=
  match l with [] => true | x :: r => negb (mem x r) && nodup_b r end.
Definition wf_rp_b (r : policy) : bool := nodup_b (map g_id (rp_groups r)).
Definition wf_db_b (d : database) : bool := nodup_b (map rp_name (db_rps d)) && forallb wf_rp_b (db_rps d).
Definition wf_b (m : meta) : bool := nodup_b (map db_name m) && forallb wf_db_b m.

(* decidable equality of metadata *)
Fixpoint list_eqb {A} (eqb : A -> A -> bool) (a b : list A) : bool :=
  match a, b with
  | [], [] => true
  | x :: a', y :: b' => eqb x y && list_eqb eqb a' b'
  | _, _ => false
  end.
Definition optz_eqb (a b : option Z) : bool :=
  match a, b with Some x, Some y => x =? y | None, None => true | _, _ => false end.
Definition shard_eqb (a b : shard) : bool := N.eqb (sh_id a) (sh_id b) && list_eqb N.eqb (sh_owners a) (sh_owners b).
Definition group_eqb (a b : group) : bool :=
  N.eqb (g_id a) (g_id b) && (g_start a =? g_start b) && (g_end a =? g_end b) &&
  optz_eqb (g_del a) (g_del b) && optz_eqb (g_trunc a) (g_trunc b) && list_eqb shard_eqb (g_shards a) (g_shards b).
Definition policy_eqb (a b : policy) : bool :=
  N.eqb (rp_name a) (rp_name b) && (rp_dur a =? rp_dur b) && (rp_sgdur a =? rp_sgdur b) &&
  list_eqb group_eqb (rp_groups a) (rp_groups b).
Definition db_eqb (a b : database) : bool := N.eqb (db_name a) (db_name b) && list_eqb policy_eqb (db_rps a) (db_rps b).
Definition meta_eqb (a b : meta) : bool := list_eqb db_eqb a b.

Definition is_fok (f : fault) : bool := match f with FOk => true | _ => false end.
(* the pass is "clean": no injected failure, the snapshot is current and well-formed *)
Definition clean (i : input) : bool :=
  forallb is_fok (i_orc i) && meta_eqb (i_snap i) (i_auth i) && wf_b (i_snap i).

(* THE executable specification of one pass *)
Definition spec_ok (i : input) (o : result) : bool :=
  calls_safe (i_snap i) (i_now i) (i_local i) [] (r_calls o)
  && attempts_complete (i_snap i) (i_now i) (r_calls o)
  && forallb (fun id => mem id (i_local i)) (r_local o)          (* the pass creates no shard *)
  && (if clean i then forallb call_ok (r_calls o) && nothing_left (i_now i) (r_auth o) (r_local o)
      else true).

(* several passes: whatever earlier passes did (the service keeps no memory of them), every
   local shard of a group the snapshot marks deleted is handed to DeleteShard in THIS pass —
   a local delete that failed, or a shard that (re)appeared after its group was handled, is
   tried again on the next pass *)
Definition is_delshard (id : N) (c : call) : bool :=
  match c with CDelShard x _ => N.eqb x id | _ => false end.
Definition retry_ok (i : input) (o : result) : bool :=
  forallb (fun id => implb (existsb (fun e => e_deleted e && holds e id) (entries (i_snap i)))
                           (existsb (is_delshard id) (r_calls o))) (i_local i).

(* a scenario: consecutive ticks of ONE service; each tick is judged on its own input *)
Definition tick_ok (i : input) (o : result) : bool := spec_ok i o && retry_ok i o.

(* ---------- pure functions, checked at exact boundaries ---------- *)

(* RetentionPolicyInfo.ExpiredShardGroups(t) / DeletedShardGroups(): IDs in order *)
Definition expired_spec (r : policy) (t : Z) (ids : list N) : bool :=
  list_eqb N.eqb ids
    (map g_id (filter (fun g => match g_del g with
                                | Some _ => false
                                | None => negb (rp_dur r =? 0) && (g_end g + rp_dur r <? t)
                                end) (rp_groups r))).
Definition deleted_spec (r : policy) (ids : list N) : bool :=
  list_eqb N.eqb ids (map g_id (filter (fun g => match g_del g with Some _ => true | None => false end) (rp_groups r))).

(* ---------- write path ---------- *)

(* a point is reported dropped exactly when it is older than the retention period at the
   time of the write: the policy is finite and t < now - Duration (for an infinite policy the
   cut-off is the representable minimum, below every valid point time) *)
Definition too_old (now dur t : Z) : bool := t <? write_min now dur.
Fixpoint drops_ok (now dur : Z) (pts : list Z) (flags : list bool) : bool :=
  match pts, flags with
  | [], [] => true
  | t :: ps, f :: fs => Bool.eqb f (too_old now dur t) && drops_ok now dur ps fs
  | _, _ => false
  end.
