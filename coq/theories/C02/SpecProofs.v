(* C02/SpecProofs.v — facts about the shared LWW spec: spec_read is a correct read
   (is_read), its lookup characterisation, and the executable state form of C02/Spec.v. *)
From Verif Require Import Shard.Store C02.Spec C02.Model C02.KV.
From Coq Require Import ZifyBool ZifyNat ZifyN.
Open Scope Z_scope.

Definition in_rng (lo hi t : Z) : bool := (lo <=? t) && (t <=? hi).

Lemma times_of_app h1 h2 k : times_of (h1 ++ h2) k = times_of h1 k ++ times_of h2 k.
Proof. unfold times_of. apply flat_map_app. Qed.

(* only timestamps written for k can be visible *)
Lemma lww_times h k t v : lww h k t = Some v -> In t (times_of h k).
Proof.
  revert v. induction h as [|o h IH] using rev_ind; intros v; [cbn; discriminate|].
  rewrite lww_snoc, times_of_app, in_app_iff. destruct o as [pts|ks lo hi]; cbn [apply_op].
  - destruct (lookup_last t (batch_values k pts)) eqn:E.
    + intros _. right. cbn. rewrite app_nil_r. apply lookup_last_In in E.
      apply in_map_iff. exists (t, v0). auto.
    + intros H. left. eapply IH; eassumption.
  - destruct (existsb (key_eqb k) ks && ((lo <=? t) && (t <=? hi))); [discriminate|].
    intros H. left. eapply IH; eassumption.
Qed.

Lemma lookup_flat_map_times (g : Z -> option value) t ts :
  lookup_last t (flat_map (fun t' => match g t' with Some v => [(t', v)] | None => [] end) ts) =
  if existsb (Z.eqb t) ts then g t else None.
Proof.
  induction ts as [|t0 r IH]; cbn [flat_map existsb]; [reflexivity|].
  rewrite lookup_last_app, IH.
  destruct (Z.eqb_spec t t0) as [->|Hne]; cbn [orb].
  - destruct (existsb (Z.eqb t0) r).
    + destruct (g t0); [reflexivity|]. reflexivity.
    + destruct (g t0); cbn; [rewrite Z.eqb_refl|]; reflexivity.
  - destruct (existsb (Z.eqb t) r).
    + destruct (g t); [reflexivity|]. destruct (g t0); cbn; [|reflexivity].
      destruct (Z.eqb_spec t0 t); [congruence|reflexivity].
    + destruct (g t0); cbn; [|reflexivity]. destruct (Z.eqb_spec t0 t); [congruence|reflexivity].
Qed.

Lemma spec_read_asc_lookup h k lo hi t :
  lookup_last t (spec_read_asc h k lo hi) = if in_rng lo hi t then lww h k t else None.
Proof.
  unfold spec_read_asc. rewrite dedup_last_wins.
  rewrite (flat_map_ext _ (fun t' => match (if in_rng lo hi t' then lww h k t' else None) with Some v => [(t', v)] | None => [] end)).
  2:{ intros t'. unfold in_rng. destruct ((lo <=? t') && (t' <=? hi)); [|reflexivity]. reflexivity. }
  rewrite (lookup_flat_map_times (fun t' => if in_rng lo hi t' then lww h k t' else None)).
  destruct (existsb (Z.eqb t) (times_of h k)) eqn:E; [reflexivity|].
  destruct (in_rng lo hi t); [|reflexivity].
  destruct (lww h k t) eqn:El; [|reflexivity].
  apply lww_times in El. assert (existsb (Z.eqb t) (times_of h k) = true); [|congruence].
  apply existsb_exists. exists t. split; [assumption|apply Z.eqb_refl].
Qed.

Lemma spec_read_asc_sorted h k lo hi : ssorted (spec_read_asc h k lo hi).
Proof. apply dedup_sorted. Qed.

(* the executable spec is a correct read in the sense of Shard/Spec.v *)
Theorem spec_read_is_read h k lo hi asc : is_read h k lo hi asc (spec_read h k lo hi asc).
Proof.
  unfold is_read, spec_read.
  assert (R : (if asc then (if asc then spec_read_asc h k lo hi else rev (spec_read_asc h k lo hi))
               else rev (if asc then spec_read_asc h k lo hi else rev (spec_read_asc h k lo hi))) = spec_read_asc h k lo hi).
  { destruct asc; [reflexivity|apply rev_involutive]. }
  cbv zeta. rewrite R. split; [apply spec_read_asc_sorted|].
  intros t v. rewrite (in_sorted_lookup t v _ (spec_read_asc_sorted h k lo hi)), spec_read_asc_lookup.
  unfold in_rng. destruct (Z.leb_spec lo t) as [H1|H1]; destruct (Z.leb_spec t hi) as [H2|H2]; cbn [andb];
    split; intros H; try discriminate; try (split; [lia|assumption]);
    try (destruct H as [H3 H4]; first [assumption | lia]).
Qed.

(* any sorted list with the right lookups IS the spec read *)
Lemma spec_read_unique h k lo hi (asc : bool) l :
  ssorted l -> (forall t, lookup_last t l = if in_rng lo hi t then lww h k t else None) ->
  (if asc then l else rev l) = spec_read h k lo hi asc.
Proof.
  intros Hs Hl. unfold spec_read.
  assert (l = spec_read_asc h k lo hi) as ->; [|reflexivity].
  apply sorted_lookup_ext; [assumption|apply spec_read_asc_sorted|].
  intros t. rewrite Hl, spec_read_asc_lookup. reflexivity.
Qed.

(* ---------- executable state form ---------- *)

Lemma spec_state_snoc h o k : spec_state (h ++ [o]) k = spec_apply k (spec_state h k) o.
Proof. unfold spec_state. rewrite fold_left_app. reflexivity. Qed.

Lemma spec_state_sorted h k : ssorted (spec_state h k).
Proof.
  induction h as [|o h IH] using rev_ind; [exact I|]. rewrite spec_state_snoc.
  destruct o as [pts|ks lo hi]; cbn [spec_apply].
  - apply merge_lw_sorted. assumption.
  - destruct (existsb (key_eqb k) ks); [apply filter_ssorted|]; assumption.
Qed.

Lemma spec_state_lookup h k t : lookup_last t (spec_state h k) = lww h k t.
Proof.
  induction h as [|o h IH] using rev_ind; [reflexivity|]. rewrite spec_state_snoc, lww_snoc.
  destruct o as [pts|ks lo hi]; cbn [spec_apply apply_op].
  - rewrite merge_lw_lookup by apply spec_state_sorted. rewrite lookup_last_app, IH. reflexivity.
  - destruct (existsb (key_eqb k) ks); cbn [andb].
    + rewrite lookup_exclude_range, IH. reflexivity.
    + exact IH.
Qed.

Theorem spec_read_fast_eq h k lo hi asc : spec_read_fast h k lo hi asc = spec_read h k lo hi asc.
Proof.
  unfold spec_read_fast. cbv zeta. apply spec_read_unique.
  - apply filter_ssorted, spec_state_sorted.
  - intros t. rewrite lookup_include_range, spec_state_lookup. reflexivity.
Qed.
