(* C02/Run.v — correspondence cases.  One case = one op history run on a real tsdb.Shard
   with everything the implementation let us observe: write results, the field-type table
   after each mutating op, every read.  [check_case] replays the history on the model
   (agree) and evaluates the property on the implementation's observations against the LWW
   spec of the acknowledged history (spec_ok).
   codes: 0 agree & spec_ok, 1 differ & spec_ok, 2 differ & not spec_ok, 3 agree & not spec_ok *)
From Verif Require Export Shard.Store C02.Spec C02.Model C02.Fast C02.Blocks.
From Coq Require Import Uint63.
Open Scope Z_scope.

Definition code (agree spec_ok : bool) : N :=
  match agree, spec_ok with
  | true, true => 0 | false, true => 1 | false, false => 2 | true, false => 3
  end%N.

Inductive xop :=
| XWrite (pts : list point) (res : wres)
| XFtab (tab : ftab)                                   (* the shard's field-type table now *)
| XSnapshot (ok : bool) | XSnapBegin (ok : bool) | XSnapCommit (ok : bool)
| XCompact (start len : nat) (ok : bool)
| XDelete (ss : list (name * name)) (lo hi : Z) (drops : list name) (ok : bool)
| XReopen (ok : bool)
| XRead (m tags f : name) (lo hi : Z) (asc : bool) (res : option (list tv))    (* None: error or panic *)
(* a long read, canonicalised by the harness: number of points, the first and last 8 points,
   and two independent polynomial digests (mod 2^61-1) of the whole result *)
| XReadD (m tags f : name) (lo hi : Z) (asc : bool) (n : N) (first last : list tv) (d1 d2 d3 : Z).

(* ---- layer B cases (Blocks.v): real TSM files with chosen block boundaries, read block by
   block through the real KeyCursor, and through the cursors that merge the cache in ---- *)

(* one file, for the one key: block i holds the given timestamps; values are derived from
   (typ, vseed, running index) as in run_vals.  [req_tombs]: the ranges the harness deleted in
   this file; [eff_tombs]/[present]: what the opened file reports to the cursor
   (TombstoneRange(key); whether the key still has index entries — the index drops a key whose
   tombstones cover it completely, that is C09/C10's business and an INPUT of layer B) *)
Inductive xfile := XF (blocks : list (list Z)) (typ vseed : N) (req_tombs eff_tombs : list (Z * Z)) (present : bool).

Inductive xread :=
(* KeyCursor(key, t, asc); Read<T>Block / Next until an empty block; None = error, panic or overrun *)
| XBRead (t : Z) (asc : bool) (res : option (list (list tv)))
(* the same through Read<T>ArrayBlock *)
| XARead (t : Z) (asc : bool) (res : option (list (list tv)))
(* engine cursor over cache values (arrival order, to be de-duplicated by Cache.Values) and
   the KeyCursor: api 0 = array cursor with a result buffer of [buf] slots, 1 = iterator cursor *)
| XCRead (api : N) (buf : N) (t fin : Z) (asc : bool) (cachevals : list tv) (res : option (list tv)).

Inductive case :=
| CHist (tsi : bool) (ops : list xop)
| CBlocks (files : list xfile) (reads : list xread).

(* the harness's name universe (term size is what costs in coqc): measurement "m<i>",
   tag part ",s=<a+i>", field "f<i>"; other names are written out *)
Definition nM (i : N) : name := [109; 48 + i]%N.
Definition nT (i : N) : name := [44; 115; 61; 97 + i]%N.
Definition nF (i : N) : name := [102; 48 + i]%N.

(* compact notations the harness uses for long runs (term size is what costs in coqc) *)
Definition vals_float (l : list N) : list value := map VFloat l.
Definition vals_int (l : list Z) : list value := map VInt l.
Definition vals_uint (l : list N) : list value := map VUint l.
Definition vals_bool (l : list bool) : list value := map VBool l.
Definition vals_str (l : list (list N)) : list value := map VStr l.
Definition tvs (ts : list Z) (vs : list value) : list tv := combine ts vs.
(* the generated runs of the harness (expandRun in h_c02/main.go): n points at start,
   start+step, ... with values derived from the type and a seed *)
Fixpoint iota (n : nat) (i : N) : list N := match n with O => [] | S n' => i :: iota n' (i + 1)%N end.
Definition run_times (start step : Z) (n : nat) : list Z := map (fun i => start + Z.of_N i * step) (iota n 0%N).
Definition run_vals (typ : N) (vseed : N) (n : nat) : list value :=
  map (fun i => match typ with
                | 0 => VFloat (4607182418800017408 + vseed * 4294967296 + i)
                | 1 => VInt (Z.of_N (vseed * 1000003 + i))
                | 2 => VBool (N.odd (i + vseed))
                | 3 => VStr [118; vseed mod 256; i mod 256; i / 256]
                | _ => VUint (vseed * 7919 + i)
                end%N) (iota n 0%N).

(* digest of a read result: polynomial hash mod 2^31-1 over 32-bit words, evaluated with
   primitive 63-bit integers (products stay below 2^62) *)
Definition w64 (n : N) : list N := [N.shiftr n 32; N.land n 4294967295]%N.
Definition z64 (z : Z) : list N := w64 (Z.to_N (z mod 18446744073709551616)).
Definition tv_words (x : tv) : list N :=
  z64 (fst x) ++ vtype (snd x) ::
  match snd x with
  | VFloat b => w64 b
  | VInt z => z64 z
  | VUint n => w64 n
  | VBool b => [if b then 1 else 0]%N
  | VStr s => N.of_nat (length s) :: s
  end.
Definition dM : PrimInt63.int := 2147483647%uint63.
Definition digest (base : PrimInt63.int) (l : list tv) : Z :=
  Uint63.to_Z (fold_left (fun acc w => PrimInt63.mod (PrimInt63.add (PrimInt63.add (PrimInt63.mul acc base) (Uint63.of_Z (Z.of_N w))) 1%uint63) dM)
                         (flat_map tv_words l) 0%uint63).
Definition lastn {A} (n : nat) (l : list A) : list A := skipn (length l - n) l.

(* points of one series carrying one field each *)
Definition pts1 (m tags f : name) (ts : list Z) (vs : list value) : list point :=
  map (fun x => mkpt m tags (fst x) [(f, snd x)]) (combine ts vs).

Definition tv_eqb (a b : tv) : bool := (fst a =? fst b) && value_eqb (snd a) (snd b).

Fixpoint list_eqb {A} (eqb : A -> A -> bool) (a b : list A) : bool :=
  match a, b with
  | [], [] => true
  | x :: a', y :: b' => eqb x y && list_eqb eqb a' b'
  | _, _ => false
  end.

Definition wres_eqb (a b : wres) : bool :=
  match a, b with
  | WOk, WOk => true | WErr, WErr => true | WPartial n, WPartial m => Nat.eqb n m | _, _ => false
  end.

Definition opt_N_eqb (a b : option N) : bool :=
  match a, b with Some x, Some y => N.eqb x y | None, None => true | _, _ => false end.

(* same finite map *)
Definition ftab_sub (a b : ftab) : bool := forallb (fun e => opt_N_eqb (ft_get (fst e) b) (Some (snd e))) a.
Definition ftab_eqv (a b : ftab) : bool := ftab_sub a b && ftab_sub b a && Nat.eqb (length a) (length b).

Record rstate := mkr {
  r_st : option shard;      (* model state; None after the model said the shard cannot open *)
  r_hist : list op;         (* acknowledged history according to the implementation's answers *)
  r_keys : list key;        (* every key some batch mentioned *)
  r_itab : ftab;            (* the implementation's field-type table *)
  r_agree : bool;
  r_spec : bool
}.

Definition with_model (r : rstate) (f : shard -> shard * bool) (impl_ok : bool) : rstate :=
  match r_st r with
  | None => mkr None (r_hist r) (r_keys r) (r_itab r) false (r_spec r)
  | Some st => let '(st', ok) := f st in
               mkr (Some st') (r_hist r) (r_keys r) (r_itab r) (r_agree r && Bool.eqb ok impl_ok) (r_spec r)
  end.

Definition digest_match (l : list tv) (n : N) (first last : list tv) (d1 d2 d3 : Z) : bool :=
  N.eqb (N.of_nat (length l)) n && list_eqb tv_eqb (firstn 8 l) first && list_eqb tv_eqb (lastn 8 l) last &&
  Z.eqb (digest 1000003%uint63 l) d1 && Z.eqb (digest 998244353%uint63 l) d2 && Z.eqb (digest 16777619%uint63 l) d3.

Definition run_xop (r : rstate) (x : xop) : rstate :=
  match x with
  | XWrite pts res =>
      let keys' := r_keys r ++ map fst (flat_map point_kvs pts) in
      let '(hist', sp) := match spec_write (r_itab r) pts res with
                          | Some ws => (r_hist r ++ [OWrite ws], true)
                          | None => (r_hist r, false)
                          end in
      match r_st r with
      | None => mkr None hist' keys' (r_itab r) false (r_spec r && sp)
      | Some st => let '(st', mres) := write st pts in
                   mkr (Some st') hist' keys' (r_itab r) (r_agree r && wres_eqb mres res) (r_spec r && sp)
      end
  | XFtab tab =>
      mkr (r_st r) (r_hist r) (r_keys r) tab
          (r_agree r && match r_st r with Some st => ftab_eqv tab (s_tab st) | None => false end) (r_spec r)
  | XSnapshot ok => with_model r snapshot ok
  | XSnapBegin ok => with_model r snap_begin ok
  | XSnapCommit ok => with_model r snap_commit ok
  | XCompact a n ok => with_model r (fun st => compact st a n) ok
  | XDelete ss lo hi drops ok =>
      let hist' := r_hist r ++ [ODelete (filter (in_series ss) (r_keys r)) (conv_lo lo) (conv_hi hi)] in
      (* a measurement may lose its field types only when nothing of it is visible any more *)
      let sp := forallb (fun m => forallb (fun k => negb (nlist_eqb (fst (key_mf k)) m) ||
                                                    match spec_state_fast hist' k with [] => true | _ => false end) (r_keys r)) drops in
      match r_st r with
      | None => mkr None hist' (r_keys r) (r_itab r) false (r_spec r && sp && ok)
      | Some st => mkr (Some (delete st ss lo hi drops)) hist' (r_keys r) (r_itab r) (r_agree r && ok) (r_spec r && sp && ok)
      end
  | XReopen ok =>
      match r_st r with
      | None => mkr None (r_hist r) (r_keys r) (r_itab r) false (r_spec r && ok)
      | Some st => match reopen st with
                   | Some st' => mkr (Some st') (r_hist r) (r_keys r) (r_itab r) (r_agree r && ok) (r_spec r && ok)
                   | None => mkr None (r_hist r) (r_keys r) (r_itab r) (r_agree r && negb ok) (r_spec r && ok)
                   end
      end
  | XRead m tags f lo hi asc res =>
      let k := mkkey m tags f in
      let sp := match res with
                | None => false
                | Some l => list_eqb tv_eqb l (spec_read_fast2 (r_hist r) k lo hi asc) &&
                            (* a field never shows values of a type other than its recorded one *)
                            forallb (fun x => opt_N_eqb (ft_get (m, f) (r_itab r)) (Some (vtype (snd x)))) l
                end in
      let ag := match r_st r with
                | None => false
                | Some st => match shard_read_fast st m tags f lo hi asc, res with
                             | RVals a, Some b => list_eqb tv_eqb a b
                             | RErr, None => true
                             | _, _ => false
                             end
                end in
      mkr (r_st r) (r_hist r) (r_keys r) (r_itab r) (r_agree r && ag) (r_spec r && sp)
  | XReadD m tags f lo hi asc n first last d1 d2 d3 =>
      let k := mkkey m tags f in
      let s := spec_read_fast2 (r_hist r) k lo hi asc in
      let sp := digest_match s n first last d1 d2 d3 &&
                forallb (fun x => opt_N_eqb (ft_get (m, f) (r_itab r)) (Some (vtype (snd x)))) s in
      let ag := match r_st r with
                | None => false
                | Some st => match shard_read_fast st m tags f lo hi asc with
                             | RVals a => digest_match a n first last d1 d2 d3
                             | RErr => false
                             end
                end in
      mkr (r_st r) (r_hist r) (r_keys r) (r_itab r) (r_agree r && ag) (r_spec r && sp)
  end.

(* ---- layer B ---- *)

Definition run_val (typ vseed i : N) : value :=
  match typ with
  | 0 => VFloat (4607182418800017408 + vseed * 4294967296 + i)
  | 1 => VInt (Z.of_N (vseed * 1000003 + i))
  | 2 => VBool (N.odd (i + vseed))
  | 3 => VStr [118; vseed mod 256; i mod 256; i / 256]
  | _ => VUint (vseed * 7919 + i)
  end%N.

Fixpoint mk_blocks (typ vseed i : N) (bl : list (list Z)) : list block :=
  match bl with
  | [] => []
  | ts :: r => combine ts (map (run_val typ vseed) (iota (length ts) i)) :: mk_blocks typ vseed (i + N.of_nat (length ts))%N r
  end.

(* the file as the cursor sees it (model input) and as the harness made it (spec input) *)
Definition model_file (x : xfile) : bfile :=
  match x with XF bl typ vseed _ eff present => mkbf (if present then mk_blocks typ vseed 0 bl else []) eff end.
Definition spec_file (x : xfile) : bfile :=
  match x with XF bl typ vseed req _ _ => mkbf (mk_blocks typ vseed 0 bl) req end.

(* the seek times the layer-B theorems are about: FileStore.locations computes t-1 / t+1 in
   int64, which wraps at the very ends; the query API never seeks there (influxql.MinTime =
   MinInt64+2, MaxTime = MaxInt64-1).  Outside, only model agreement is checked. *)
Definition seek_in_domain (t : Z) (asc : bool) : bool := if asc then min_int64 <? t else t <? max_int64.

Definition blocks_eqb (a b : list (list tv)) : bool := list_eqb (list_eqb tv_eqb) a b.
Definition flatten_dir (asc : bool) (bl : list (list tv)) : list tv :=
  concat (map (fun b => if asc then b else rev b) bl).

Definition check_xread (mf sf : list bfile) (x : xread) : bool * bool :=
  match x with
  | XBRead t asc res | XARead t asc res =>
      match res with
      | None => (false, false)
      | Some bl =>
          (blocks_eqb (kc_blocks mf t asc) bl,
           negb (seek_in_domain t asc) ||
           (list_eqb tv_eqb (flatten_dir asc bl) (layerA_read sf t asc) && forallb (fun b => match b with [] => false | _ => true end) bl))
      end
  | XCRead _ _ t fin asc cv res =>
      match res with
      | None => (false, false)
      | Some l =>
          (list_eqb tv_eqb (cursor_read mf cv t fin asc) l,
           negb (seek_in_domain t asc) || list_eqb tv_eqb l (layerA_cursor_read sf cv t fin asc))
      end
  end.

Definition check_blocks (files : list xfile) (reads : list xread) : bool * bool :=
  let mf := map model_file files in
  let sf := map spec_file files in
  (* the files the harness wrote are well-formed, and a key the index dropped had nothing left *)
  let wf := forallb file_wfb sf &&
            forallb (fun x => match x with XF _ _ _ req _ present =>
                                present || match excl_tombs req (concat (bf_blocks (spec_file x))) with [] => true | _ => false end end) files in
  fold_left (fun acc x => let '(a, s) := check_xread mf sf x in (fst acc && a, snd acc && s)) reads (wf, true).

Definition check_case (c : case) : N :=
  match c with
  | CHist tsi ops =>
      let r := fold_left run_xop ops (mkr (Some (init tsi)) [] [] [] true true) in
      code (r_agree r) (r_spec r)
  | CBlocks files reads => let '(a, s) := check_blocks files reads in code a s
  end.
