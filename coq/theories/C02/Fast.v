(* C02/Fast.v — linear-time forms of the merges used when cases are evaluated (Run.v).
   Definitions only; FastProofs.v proves each equal to the definition it replaces
   (merge_fast = merge_lw on a sorted base, spec_read_fast2 = spec_read,
   shard_read_fast = shard_read), so evaluating them IS evaluating the spec and the model. *)
From Verif Require Import Shard.Store C02.Spec C02.Model.
Open Scope Z_scope.

(* merge of two sorted, duplicate-free lists; on equal timestamps the second list wins *)
Fixpoint merge2 (a : list tv) : list tv -> list tv :=
  fix aux (b : list tv) : list tv :=
    match a, b with
    | [], _ => b
    | _, [] => a
    | x :: a', y :: b' =>
        if fst x <? fst y then x :: merge2 a' b
        else if fst y <? fst x then y :: aux b'
        else y :: merge2 a' b'
    end.

(* maximal strictly ascending segments, in order *)
Fixpoint runs (l : list tv) : list (list tv) :=
  match l with
  | [] => []
  | x :: r => match runs r with
              | (y :: run) :: rest => if fst x <? fst y then (x :: y :: run) :: rest else [x] :: (y :: run) :: rest
              | [] :: rest => [x] :: rest
              | [] => [[x]]
              end
  end.

Definition merge_fast (older newer : list tv) : list tv := fold_left merge2 (runs newer) older.

Definition files_values_fast (fs : list tsmfile) (k : key) : list tv :=
  fold_left (fun acc f => merge_fast acc (file_values f k)) fs [].

Definition read_all_fast (fs : list tsmfile) (c : cache) (k : key) : list tv :=
  merge_fast (files_values_fast fs k) (cache_values c k).

Definition shard_read_fast (st : shard) (m tags f : name) (lo hi : Z) (asc : bool) : rres :=
  let k := mkkey m tags f in
  match ft_get (m, f) (s_tab st) with
  | None => RVals []
  | Some ty =>
      let all := read_all_fast (s_files st) (s_cache st) k in
      if forallb (fun x => N.eqb (vtype (snd x)) ty) all
      then RVals (let r := include_range lo hi all in if asc then r else rev r)
      else RErr
  end.

Definition spec_apply_fast (k : key) (cur : list tv) (o : op) : list tv :=
  match o with
  | OWrite pts => merge_fast cur (batch_values k pts)
  | ODelete ks lo hi => if existsb (key_eqb k) ks then exclude_range lo hi cur else cur
  end.

Definition spec_state_fast (h : list op) (k : key) : list tv := fold_left (spec_apply_fast k) h [].

Definition spec_read_fast2 (h : list op) (k : key) (lo hi : Z) (asc : bool) : list tv :=
  let r := include_range lo hi (spec_state_fast h k) in if asc then r else rev r.
