(* C02/KV.v — generic lemmas: keys, key -> values maps, the field-type table, lookups. *)
From Verif Require Import Shard.Store C02.Spec C02.Model.
From Coq Require Import ZifyBool ZifyNat ZifyN.
Open Scope Z_scope.

(* ---------- equality tests ---------- *)

Lemma key_eqb_eq a b : key_eqb a b = true <-> a = b.
Proof. apply nlist_eqb_eq. Qed.

Lemma key_eqb_refl a : key_eqb a a = true.
Proof. apply key_eqb_eq. reflexivity. Qed.

Lemma key_eqb_sym a b : key_eqb a b = key_eqb b a.
Proof.
  destruct (key_eqb a b) eqn:E1, (key_eqb b a) eqn:E2; try reflexivity.
  - apply key_eqb_eq in E1. subst. rewrite key_eqb_refl in E2. discriminate.
  - apply key_eqb_eq in E2. subst. rewrite key_eqb_refl in E1. discriminate.
Qed.

Lemma key_eqb_neq a b : key_eqb a b = false <-> a <> b.
Proof.
  split.
  - intros E H. subst. rewrite key_eqb_refl in E. discriminate.
  - intros H. destruct (key_eqb a b) eqn:E; [|reflexivity]. apply key_eqb_eq in E. contradiction.
Qed.

Lemma name2_eqb_eq a b : name2_eqb a b = true <-> a = b.
Proof.
  unfold name2_eqb. rewrite andb_true_iff, !nlist_eqb_eq. destruct a, b; cbn. split.
  - intros [-> ->]. reflexivity.
  - intros H. inversion H. auto.
Qed.

Lemma name2_eqb_refl a : name2_eqb a a = true.
Proof. apply name2_eqb_eq. reflexivity. Qed.

Lemma existsb_key_In k ks : existsb (key_eqb k) ks = true <-> In k ks.
Proof.
  rewrite existsb_exists. split.
  - intros [x [Hx E]]. apply key_eqb_eq in E. subst. assumption.
  - intros H. exists k. split; [assumption|apply key_eqb_refl].
Qed.

(* ---------- keys ---------- *)

Lemma firstn_app_exact {A} (a b : list A) : firstn (length a) (a ++ b) = a.
Proof. rewrite firstn_app, firstn_all, Nat.sub_diag, firstn_O, app_nil_r. reflexivity. Qed.

Lemma skipn_app_exact {A} (a b : list A) : skipn (length a) (a ++ b) = b.
Proof. rewrite skipn_app, skipn_all, Nat.sub_diag. reflexivity. Qed.

Lemma key_parts_mkkey m tags f : key_parts (mkkey m tags f) = (m, f, tags).
Proof.
  unfold key_parts, mkkey. rewrite !Nnat.Nat2N.id.
  rewrite firstn_app_exact, skipn_app_exact.
  rewrite !Nnat.Nat2N.id. rewrite firstn_app_exact, skipn_app_exact. reflexivity.
Qed.

Lemma key_mf_mkkey m tags f : key_mf (mkkey m tags f) = (m, f).
Proof. unfold key_mf. rewrite key_parts_mkkey. reflexivity. Qed.

Lemma key_series_mkkey m tags f : key_series (mkkey m tags f) = (m, tags).
Proof. unfold key_series. rewrite key_parts_mkkey. reflexivity. Qed.

(* ---------- lookups ---------- *)

Lemma lookup_last_In t v l : lookup_last t l = Some v -> In (t, v) l.
Proof.
  induction l as [|[t' v'] r IH]; cbn; [discriminate|].
  destruct (lookup_last t r) eqn:E.
  - intros H; inversion H; subst. right. apply IH. reflexivity.
  - destruct (t' =? t) eqn:Et; [|discriminate]. intros H; inversion H; subst.
    left. f_equal. lia.
Qed.

Lemma lookup_last_none_notin t l : (forall v, ~ In (t, v) l) -> lookup_last t l = None.
Proof.
  intros H. destruct (lookup_last t l) eqn:E; [|reflexivity].
  apply lookup_last_In in E. exfalso. eapply H; eassumption.
Qed.

Lemma In_lookup_some t v l : In (t, v) l -> exists v', lookup_last t l = Some v'.
Proof.
  induction l as [|[t' w] r IH]; [intros []|].
  intros [E|H]; cbn.
  - inversion E; subst. destruct (lookup_last t r); [eexists; reflexivity|].
    rewrite Z.eqb_refl. eexists; reflexivity.
  - destruct (IH H) as [v' ->]. eexists; reflexivity.
Qed.

Lemma lookup_nil_all l : (forall t, lookup_last t l = None) -> l = [].
Proof.
  destruct l as [|[t v] r]; [reflexivity|]. intros H.
  destruct (In_lookup_some t v ((t, v) :: r) (or_introl eq_refl)) as [v' E]. rewrite H in E. discriminate.
Qed.

(* lookups of a concatenation depend only on the lookups of the parts *)
Lemma lookup_app_congr t a a' b b' :
  lookup_last t a = lookup_last t a' -> lookup_last t b = lookup_last t b' ->
  lookup_last t (a ++ b) = lookup_last t (a' ++ b').
Proof. intros Ha Hb. rewrite !lookup_last_app, Ha, Hb. reflexivity. Qed.

Lemma In_dedup x l : In x (dedup l) -> In x l.
Proof.
  destruct x as [t v]. intros H.
  apply (in_sorted_lookup t v _ (dedup_sorted l)) in H. rewrite dedup_last_wins in H.
  apply lookup_last_In. assumption.
Qed.

Lemma In_merge_lw x older newer : ssorted older -> In x (merge_lw older newer) -> In x (older ++ newer).
Proof.
  destruct x as [t v]. intros Hs H.
  apply (in_sorted_lookup t v _ (merge_lw_sorted newer older Hs)) in H.
  rewrite merge_lw_lookup in H by assumption. apply lookup_last_In. assumption.
Qed.

Lemma In_exclude x lo hi l : In x (exclude_range lo hi l) -> In x l.
Proof. unfold exclude_range. intros H. apply filter_In in H. tauto. Qed.

Lemma In_include x lo hi l : In x (include_range lo hi l) -> In x l.
Proof. unfold include_range. intros H. apply filter_In in H. tauto. Qed.

(* ---------- key -> values maps ---------- *)

Definition kv_nodup (m : kvs) : Prop := NoDup (kv_keys m).

Lemma kv_get_append k k' vs m :
  kv_get k (kv_append k' vs m) = if key_eqb k' k then kv_get k m ++ vs else kv_get k m.
Proof.
  induction m as [|[k0 old] r IH]; cbn [kv_append kv_get].
  - destruct (key_eqb k' k); reflexivity.
  - destruct (key_eqb k0 k') eqn:E0; cbn [kv_get].
    + apply key_eqb_eq in E0. subst k0. destruct (key_eqb k' k); reflexivity.
    + destruct (key_eqb k0 k) eqn:E1.
      * apply key_eqb_eq in E1. subst k0. rewrite key_eqb_sym, E0. reflexivity.
      * exact IH.
Qed.

Lemma kv_get_notin k m : ~ In k (kv_keys m) -> kv_get k m = [].
Proof.
  induction m as [|[k0 vs] r IH]; cbn; [reflexivity|]. intros H.
  destruct (key_eqb k0 k) eqn:E.
  - apply key_eqb_eq in E. subst. tauto.
  - apply IH. tauto.
Qed.

Lemma kv_get_In k vs m : kv_nodup m -> In (k, vs) m -> kv_get k m = vs.
Proof.
  unfold kv_nodup. induction m as [|[k0 v0] r IH]; cbn; [tauto|]. intros Hn [E|H].
  - inversion E; subst. rewrite key_eqb_refl. reflexivity.
  - inversion Hn; subst. destruct (key_eqb k0 k) eqn:E.
    + apply key_eqb_eq in E. subst. exfalso. apply H2. apply in_map_iff. exists (k, vs). auto.
    + apply IH; assumption.
Qed.

Lemma kv_keys_append k vs m :
  kv_keys (kv_append k vs m) = if existsb (key_eqb k) (kv_keys m) then kv_keys m else kv_keys m ++ [k].
Proof.
  unfold kv_keys. induction m as [|[k0 old] r IH]; cbn [kv_append map existsb fst]; [reflexivity|].
  rewrite (key_eqb_sym k k0). destruct (key_eqb k0 k) eqn:E; cbn [map fst orb].
  - reflexivity.
  - rewrite IH. destruct (existsb (key_eqb k) (map fst r)); reflexivity.
Qed.

Lemma NoDup_snoc {A} (l : list A) x : NoDup l -> ~ In x l -> NoDup (l ++ [x]).
Proof.
  induction l as [|y r IH]; cbn; intros Hn Hx.
  - constructor; [tauto|constructor].
  - inversion Hn; subst. constructor.
    + rewrite in_app_iff. cbn. intros [H|[H|[]]]; [tauto|]. subst. tauto.
    + apply IH; tauto.
Qed.

Lemma kv_nodup_append k vs m : kv_nodup m -> kv_nodup (kv_append k vs m).
Proof.
  unfold kv_nodup. intros H. rewrite kv_keys_append.
  destruct (existsb (key_eqb k) (kv_keys m)) eqn:E; [assumption|].
  apply NoDup_snoc; [assumption|]. intros Hin. apply existsb_key_In in Hin. congruence.
Qed.

(* folding whole entries into a map *)
Lemma kv_fold_append_nodup gs : forall acc,
  kv_nodup acc -> kv_nodup (fold_left (fun a e => kv_append (fst e) (snd e) a) gs acc).
Proof.
  induction gs as [|g r IH]; intros acc H; cbn [fold_left]; [assumption|].
  apply IH. apply kv_nodup_append. assumption.
Qed.

Lemma kv_fold_append_get gs : kv_nodup gs -> forall acc k,
  kv_get k (fold_left (fun a e => kv_append (fst e) (snd e) a) gs acc) = kv_get k acc ++ kv_get k gs.
Proof.
  unfold kv_nodup. induction gs as [|[k0 vs] r IH]; intros Hn acc k; cbn [fold_left kv_get fst snd].
  - rewrite app_nil_r. reflexivity.
  - cbn in Hn. inversion Hn; subst. rewrite IH by assumption. rewrite kv_get_append.
    destruct (key_eqb k0 k) eqn:E.
    + apply key_eqb_eq in E. subst. rewrite (kv_get_notin k r) by assumption. rewrite app_nil_r. reflexivity.
    + reflexivity.
Qed.

(* the per-key groups of a batch *)
Lemma group_values_get k ws : kv_get k (group_values ws) = batch_values k ws.
Proof.
  unfold group_values, batch_values.
  assert (G : forall acc, kv_get k (fold_left (fun a w => kv_append (fst w) [snd w] a) ws acc) =
                          kv_get k acc ++ map snd (filter (fun p => key_eqb (fst p) k) ws)).
  { induction ws as [|w r IH]; intros acc; cbn [fold_left filter map].
    - rewrite app_nil_r. reflexivity.
    - rewrite IH, kv_get_append. destruct (key_eqb (fst w) k); cbn [map].
      + rewrite <- app_assoc. reflexivity.
      + reflexivity. }
  rewrite G. reflexivity.
Qed.

Lemma group_values_nodup ws : kv_nodup (group_values ws).
Proof.
  unfold group_values.
  assert (G : forall acc, kv_nodup acc -> kv_nodup (fold_left (fun a w => kv_append (fst w) [snd w] a) ws acc)).
  { induction ws as [|w r IH]; intros acc H; cbn [fold_left]; [assumption|]. apply IH. apply kv_nodup_append. assumption. }
  apply G. constructor.
Qed.

Lemma batch_values_In k ws x : In x (batch_values k ws) -> In (k, x) ws.
Proof.
  unfold batch_values. intros H. apply in_map_iff in H. destruct H as [[k' y] [E H]]. cbn in E. subst y.
  apply filter_In in H. destruct H as [H E]. cbn in E. apply key_eqb_eq in E. subst. assumption.
Qed.

(* ---------- field-type table ---------- *)

Lemma ft_get_app mf t e :
  ft_get mf (t ++ [e]) = match ft_get mf t with
                         | Some x => Some x
                         | None => if name2_eqb (fst e) mf then Some (snd e) else None
                         end.
Proof.
  induction t as [|[mf' ty] r IH]; cbn [app ft_get].
  - destruct e as [mf' ty]. reflexivity.
  - destruct (name2_eqb mf' mf); [reflexivity|exact IH].
Qed.

Definition ft_sub (a b : ftab) : Prop := forall mf ty, ft_get mf a = Some ty -> ft_get mf b = Some ty.

Lemma ft_sub_refl a : ft_sub a a.
Proof. intros mf ty H. exact H. Qed.

Lemma ft_sub_trans a b c : ft_sub a b -> ft_sub b c -> ft_sub a c.
Proof. intros H1 H2 mf ty H. apply H2, H1, H. Qed.

Lemma ft_create_spec mf ty t t' :
  ft_create mf ty t = Some t' -> ft_sub t t' /\ ft_get mf t' = Some ty.
Proof.
  unfold ft_create. destruct (ft_get mf t) as [ty'|] eqn:E.
  - destruct (N.eqb_spec ty' ty); [|discriminate]. intros H; inversion H; subst. split; [apply ft_sub_refl|assumption].
  - intros H; inversion H; subst. split.
    + intros mf0 ty0 H0. rewrite ft_get_app, H0. reflexivity.
    + rewrite ft_get_app, E. cbn. rewrite name2_eqb_refl. reflexivity.
Qed.

Lemma create_fields_sub cs : forall t, ft_sub t (fst (create_fields cs t)).
Proof.
  induction cs as [|[mf ty] r IH]; intros t; cbn [create_fields]; [apply ft_sub_refl|].
  destruct (ft_create mf ty t) as [t'|] eqn:E; [|apply ft_sub_refl].
  eapply ft_sub_trans; [apply (ft_create_spec _ _ _ _ E)|apply IH].
Qed.

Lemma create_fields_ok cs : forall t, snd (create_fields cs t) = true ->
  forall mf ty, In (mf, ty) cs -> ft_get mf (fst (create_fields cs t)) = Some ty.
Proof.
  induction cs as [|[mf0 ty0] r IH]; intros t Hok mf ty Hin; [destruct Hin|].
  cbn [create_fields] in *. destruct (ft_create mf0 ty0 t) as [t'|] eqn:E; [|discriminate].
  destruct Hin as [H|H].
  - inversion H; subst. apply create_fields_sub. apply (ft_create_spec _ _ _ _ E).
  - apply IH; assumption.
Qed.

Lemma ft_get_drop m' f m t :
  ft_get (m', f) (ft_drop m t) = if nlist_eqb m' m then None else ft_get (m', f) t.
Proof.
  unfold ft_drop. induction t as [|[[m0 f0] ty] r IH]; cbn [filter ft_get fst].
  - destruct (nlist_eqb m' m); reflexivity.
  - destruct (nlist_eqb m0 m) eqn:E0; cbn [negb].
    + rewrite IH. destruct (nlist_eqb m' m) eqn:E1; [reflexivity|].
      destruct (name2_eqb (m0, f0) (m', f)) eqn:E2; [|reflexivity].
      apply name2_eqb_eq in E2. inversion E2; subst. congruence.
    + cbn [ft_get]. destruct (name2_eqb (m0, f0) (m', f)) eqn:E2.
      * apply name2_eqb_eq in E2. inversion E2; subst. rewrite E0. reflexivity.
      * exact IH.
Qed.
