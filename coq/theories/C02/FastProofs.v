(* C02/FastProofs.v — the linear-time merges of Fast.v compute the same lists as the
   definitions they replace when cases are evaluated. *)
From Verif Require Import Shard.Store C02.Spec C02.Model C02.Fast C02.KV C02.SpecProofs.
From Coq Require Import ZifyBool ZifyNat ZifyN.
Open Scope Z_scope.

Lemma merge2_nil_r a : merge2 a [] = a.
Proof. destruct a; reflexivity. Qed.

Lemma merge2_cons x a' y b' :
  merge2 (x :: a') (y :: b') =
  if fst x <? fst y then x :: merge2 a' (y :: b')
  else if fst y <? fst x then y :: merge2 (x :: a') b'
  else y :: merge2 a' b'.
Proof. reflexivity. Qed.

Lemma merge2_In a : forall b z, In z (merge2 a b) -> In z a \/ In z b.
Proof.
  induction a as [|x a' IHa]; intros b z; [cbn; destruct b; tauto|].
  induction b as [|y b' IHb]; [rewrite merge2_nil_r; tauto|].
  rewrite merge2_cons. destruct (fst x <? fst y).
  - intros [<-|H]; [left; left; reflexivity|]. apply IHa in H. cbn [In]. tauto.
  - destruct (fst y <? fst x).
    + intros [<-|H]; [right; left; reflexivity|]. apply IHb in H. cbn [In] in *. tauto.
    + intros [<-|H]; [right; left; reflexivity|]. apply IHa in H. cbn [In]. tauto.
Qed.

Lemma merge2_sorted a : forall b, ssorted a -> ssorted b -> ssorted (merge2 a b).
Proof.
  induction a as [|x a' IHa]; intros b Ha Hb; [cbn; destruct b; assumption|].
  induction b as [|y b' IHb]; [rewrite merge2_nil_r; assumption|].
  pose proof (ssorted_all_gt _ _ Ha) as Ga. pose proof (ssorted_all_gt _ _ Hb) as Gb.
  rewrite merge2_cons. destruct (Z.ltb_spec (fst x) (fst y)) as [L1|L1].
  - apply ssorted_cons; [|apply IHa; [exact (ssorted_tail _ _ Ha)|assumption]].
    intros z Hz. apply merge2_In in Hz. destruct Hz as [Hz|[<-|Hz]]; [apply Ga; assumption|assumption|].
    specialize (Gb z Hz). lia.
  - destruct (Z.ltb_spec (fst y) (fst x)) as [L2|L2].
    + apply ssorted_cons; [|apply IHb; exact (ssorted_tail _ _ Hb)].
      intros z Hz. apply merge2_In in Hz. destruct Hz as [[<-|Hz]|Hz]; [assumption| |apply Gb; assumption].
      specialize (Ga z Hz). lia.
    + apply ssorted_cons; [|apply IHa; [exact (ssorted_tail _ _ Ha)|exact (ssorted_tail _ _ Hb)]].
      intros z Hz. apply merge2_In in Hz. destruct Hz as [Hz|Hz]; [specialize (Ga z Hz); lia|apply Gb; assumption].
Qed.

Lemma merge2_lookup t a : forall b, ssorted a -> ssorted b ->
  lookup_last t (merge2 a b) = lookup_last t (a ++ b).
Proof.
  induction a as [|[tx vx] a' IHa]; intros b Ha Hb; [cbn; destruct b; reflexivity|].
  induction b as [|[ty vy] b' IHb]; [rewrite merge2_nil_r, app_nil_r; reflexivity|].
  pose proof (ssorted_all_gt _ _ Ha) as Ga. pose proof (ssorted_all_gt _ _ Hb) as Gb. cbn [fst] in Ga, Gb.
  rewrite merge2_cons. cbn [fst]. destruct (Z.ltb_spec tx ty) as [L1|L1].
  - cbn [lookup_last app]. rewrite IHa by (try assumption; exact (ssorted_tail _ _ Ha)). reflexivity.
  - destruct (Z.ltb_spec ty tx) as [L2|L2].
    + cbn [lookup_last]. rewrite IHb by exact (ssorted_tail _ _ Hb).
      rewrite !lookup_last_app. cbn [lookup_last].
      destruct (lookup_last t b') eqn:Eb; [reflexivity|].
      destruct (Z.eqb_spec ty t) as [->|Hne];
        [|destruct (lookup_last t a'); [reflexivity|destruct (tx =? t); reflexivity]].
      assert (lookup_last t a' = None) as ->.
      { apply lookup_last_none_lt. intros z Hz. specialize (Ga z Hz). lia. }
      destruct (Z.eqb_spec tx t); [lia|reflexivity].
    + assert (tx = ty) by lia. subst ty.
      cbn [lookup_last app]. rewrite IHa by (first [exact (ssorted_tail _ _ Ha)|exact (ssorted_tail _ _ Hb)]).
      rewrite !lookup_last_app. cbn [lookup_last].
      destruct (lookup_last t b') eqn:Eb; [reflexivity|].
      destruct (Z.eqb_spec tx t) as [->|Hne].
      * assert (lookup_last t a' = None) as ->; [|reflexivity].
        apply lookup_last_none_lt. intros z Hz. specialize (Ga z Hz). lia.
      * destruct (lookup_last t a'); reflexivity.
Qed.

Lemma runs_concat l : concat (runs l) = l.
Proof.
  induction l as [|x r IH]; [reflexivity|]. cbn [runs].
  destruct (runs r) as [|[|y run] rest] eqn:E; cbn [concat] in *.
  - subst r. reflexivity.
  - rewrite <- IH. reflexivity.
  - destruct (fst x <? fst y); cbn [concat app]; rewrite <- IH; reflexivity.
Qed.

Lemma runs_sorted l : Forall ssorted (runs l).
Proof.
  induction l as [|x r IH]; [constructor|]. cbn [runs].
  destruct (runs r) as [|[|y run] rest] eqn:E.
  - constructor; [cbn; auto|constructor].
  - inversion IH; subst. constructor; [cbn; auto|assumption].
  - inversion IH; subst. destruct (Z.ltb_spec (fst x) (fst y)).
    + constructor; [|assumption]. cbn [ssorted]. split; [assumption|]. exact H1.
    + constructor; [cbn; auto|]. constructor; assumption.
Qed.

Lemma fold_merge2 t rs : Forall ssorted rs -> forall acc, ssorted acc ->
  ssorted (fold_left merge2 rs acc) /\
  lookup_last t (fold_left merge2 rs acc) = lookup_last t (acc ++ concat rs).
Proof.
  induction rs as [|r rs IH]; intros Hrs acc Hacc; cbn [fold_left concat].
  - rewrite app_nil_r. auto.
  - inversion Hrs; subst. destruct (IH H2 (merge2 acc r) (merge2_sorted _ _ Hacc H1)) as [S L].
    split; [exact S|]. rewrite L. rewrite app_assoc. rewrite !(lookup_last_app t _ (concat rs)).
    rewrite merge2_lookup by assumption. reflexivity.
Qed.

Theorem merge_fast_eq older newer : ssorted older -> merge_fast older newer = merge_lw older newer.
Proof.
  intros Hs. unfold merge_fast. apply sorted_lookup_ext.
  - apply (fold_merge2 0 _ (runs_sorted newer) _ Hs).
  - apply merge_lw_sorted. assumption.
  - intros t. rewrite (proj2 (fold_merge2 t _ (runs_sorted newer) _ Hs)), runs_concat.
    rewrite merge_lw_lookup by assumption. reflexivity.
Qed.

Lemma files_values_fast_eq fs k : files_values_fast fs k = files_values fs k.
Proof.
  unfold files_values_fast, files_values.
  assert (G : forall acc, ssorted acc ->
              fold_left (fun a f => merge_fast a (file_values f k)) fs acc =
              fold_left (fun a f => merge_lw a (file_values f k)) fs acc).
  { induction fs as [|f r IH]; intros acc Hacc; cbn [fold_left]; [reflexivity|].
    rewrite merge_fast_eq by assumption. apply IH. apply merge_lw_sorted. assumption. }
  apply G. exact I.
Qed.

Lemma read_all_fast_eq fs c k : read_all_fast fs c k = read_all fs c k.
Proof.
  unfold read_all_fast, read_all. rewrite files_values_fast_eq.
  apply merge_fast_eq. apply files_values_sorted.
Qed.

Theorem shard_read_fast_eq st m tags f lo hi asc :
  shard_read_fast st m tags f lo hi asc = shard_read st m tags f lo hi asc.
Proof.
  unfold shard_read_fast, shard_read, read. cbv zeta. rewrite read_all_fast_eq. reflexivity.
Qed.

Lemma spec_state_fast_eq h k : spec_state_fast h k = spec_state h k.
Proof.
  induction h as [|o h IH] using rev_ind; [reflexivity|].
  unfold spec_state_fast, spec_state in *. rewrite !fold_left_app. cbn [fold_left]. rewrite IH.
  destruct o as [pts|ks lo hi]; cbn [spec_apply_fast spec_apply]; [|reflexivity].
  apply merge_fast_eq. apply (spec_state_sorted h k).
Qed.

Theorem spec_read_fast2_eq h k lo hi asc : spec_read_fast2 h k lo hi asc = spec_read h k lo hi asc.
Proof.
  unfold spec_read_fast2. rewrite spec_state_fast_eq. apply spec_read_fast_eq.
Qed.
