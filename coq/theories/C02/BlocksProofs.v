(* C02/BlocksProofs.v — theorems about layer B (Blocks.v).

   Proved for ALL inputs:
   * sort_locations_perm / sort_locations_keeps_file_order: the insertion sort with the
     (non-transitive) Less of file_store.go keeps any two overlapping blocks in file order
     (the invariant the block merge "later location wins" needs; defect 7659585 was its
     violation by sort.Sort beyond 12 elements);
   * cmerge_asc_is_merge2 / cmerge_desc_is_rev_merge2: the cache/TSM cursor merge is the
     newest-wins merge with the cache as the newer side, in both directions;
   * cursor_refines_layerA: IF the KeyCursor stream is the layer-A file read from the seek
     time on, THEN the engine cursor (cache merged in, end cut) is the layer-A read of files
     and cache over [seek, end];
   The refinement of layer A by the KeyCursor itself (Read<T>Block/Next with read marks) is in
   BlocksRefine.v + BlocksLayerA.v (ascending) and BlocksRefineDesc.v + BlocksLayerADesc.v
   (descending). *)
From Verif Require Import Shard.Store C02.Spec C02.Fast C02.FastProofs C02.Blocks.
From Coq Require Import ZifyBool Permutation.
Open Scope Z_scope.

(* ================= 1. sortLocations ================= *)

Fixpoint ordpairs (R : loc -> loc -> Prop) (l : list loc) : Prop :=
  match l with
  | [] => True
  | a :: r => (forall b, In b r -> R a b) /\ ordpairs R r
  end.

Lemma ordpairs_app R l1 l2 :
  ordpairs R (l1 ++ l2) <-> ordpairs R l1 /\ ordpairs R l2 /\ (forall a b, In a l1 -> In b l2 -> R a b).
Proof.
  induction l1 as [|x l1 IH]; cbn [app ordpairs].
  - split; [intros H; repeat split; auto; intros a b []|tauto].
  - rewrite IH. split.
    + intros [Hx [H1 [H2 H12]]]. repeat split; auto.
      * intros b Hb. apply Hx. apply in_or_app; auto.
      * intros a b [<-|Ha] Hb; [apply Hx; apply in_or_app; auto|apply H12; auto].
    + intros [[Hx H1] [H2 H12]]. repeat split; auto.
      * intros b Hb. apply in_app_or in Hb. destruct Hb as [Hb|Hb]; [auto|apply H12; cbn; auto].
      * intros a b Ha Hb. apply H12; cbn; auto.
Qed.

Lemma ordpairs_rev R l : ordpairs R (rev l) <-> ordpairs (fun a b => R b a) l.
Proof.
  induction l as [|x l IH]; cbn [rev ordpairs]; [tauto|].
  rewrite ordpairs_app, IH. split.
  - intros [H1 [_ H12]]. split; [|exact H1]. intros b Hb. apply H12; [apply -> in_rev; exact Hb|left; reflexivity].
  - intros [Hx H1]. split; [exact H1|]. split; [cbn; split; [intros ? []|exact I]|].
    intros a b Ha [<-|[]]. apply Hx. apply in_rev. exact Ha.
Qed.

Definition overlap (a b : loc) : bool := overlaps_range a (l_min b) (l_max b).

Lemma overlap_sym a b : overlap a b = overlap b a.
Proof. unfold overlap, overlaps_range. apply andb_comm. Qed.

(* overlapping blocks are in file order *)
Definition file_order (a b : loc) : Prop := overlap a b = true -> (l_file a <= l_file b)%nat.
(* what FileStore.locations delivers: file by file, oldest first *)
Definition by_file (a b : loc) : Prop := (l_file a <= l_file b)%nat.

Lemma ins_loc_In asc x rp y : In y (ins_loc asc x rp) <-> y = x \/ In y rp.
Proof.
  induction rp as [|z r IH]; cbn [ins_loc In]; [intuition|].
  destruct (loc_less asc x z); cbn [In]; rewrite ?IH; intuition.
Qed.

Lemma ins_loc_perm asc x rp : Permutation (x :: rp) (ins_loc asc x rp).
Proof.
  induction rp as [|z r IH]; cbn [ins_loc]; [reflexivity|].
  destruct (loc_less asc x z); [|reflexivity].
  rewrite perm_swap. apply perm_skip. exact IH.
Qed.

(* the reversed prefix: later elements first *)
Lemma ins_loc_keeps asc x rp :
  (forall y, In y rp -> by_file y x) ->
  ordpairs (fun a b => file_order b a) rp ->
  ordpairs (fun a b => file_order b a) (ins_loc asc x rp).
Proof.
  induction rp as [|y r IH]; intros Hle Hrp; cbn [ins_loc].
  - cbn. split; [intros b []|exact I].
  - destruct (loc_less asc x y) eqn:El.
    + (* x travels past y: then they do not overlap *)
      assert (Hno : overlap x y = false).
      { unfold loc_less in El. fold (overlap x y) in El. destruct (overlap x y) eqn:Eo; [|reflexivity].
        specialize (Hle y (or_introl eq_refl)). unfold by_file in Hle.
        apply Nat.ltb_lt in El. lia. }
      cbn [ordpairs] in Hrp |- *. destruct Hrp as [Hy Hr]. split.
      * intros b Hb. apply ins_loc_In in Hb. destruct Hb as [->|Hb]; [|apply Hy; exact Hb].
        unfold file_order. rewrite Hno. discriminate.
      * apply IH; [intros z Hz; apply Hle; right; exact Hz|exact Hr].
    + cbn [ordpairs]. split; [|exact Hrp].
      intros b Hb _. apply Hle. exact Hb.
Qed.

Lemma sort_fold_inv asc l : forall rp,
  ordpairs by_file l -> (forall y x, In y rp -> In x l -> by_file y x) ->
  ordpairs (fun a b => file_order b a) rp ->
  ordpairs (fun a b => file_order b a) (fold_left (fun rp x => ins_loc asc x rp) l rp) /\
  Permutation (rev rp ++ l) (rev (fold_left (fun rp x => ins_loc asc x rp) l rp)).
Proof.
  induction l as [|x l IH]; intros rp Hl Hle Hrp; cbn [fold_left].
  - rewrite app_nil_r. split; [exact Hrp|reflexivity].
  - cbn [ordpairs] in Hl. destruct Hl as [Hx Hl].
    destruct (IH (ins_loc asc x rp)) as [H1 H2].
    + exact Hl.
    + intros y z Hy Hz. apply ins_loc_In in Hy. destruct Hy as [->|Hy]; [apply Hx; exact Hz|apply Hle; [exact Hy|right; exact Hz]].
    + apply ins_loc_keeps; [intros y Hy; apply Hle; [exact Hy|left; reflexivity]|exact Hrp].
    + split; [exact H1|]. rewrite <- H2.
      replace (rev rp ++ x :: l) with ((rev rp ++ [x]) ++ l) by (rewrite <- app_assoc; reflexivity).
      apply Permutation_app_tail. change (rev rp ++ [x]) with (rev (x :: rp)).
      rewrite <- !Permutation_rev. apply ins_loc_perm.
Qed.

(* For EVERY list of locations delivered file by file (any number, any time ranges, either
   direction): the sorted list is a permutation, and any two overlapping locations of it are
   in file order. *)
Theorem sort_locations_perm_lemma asc l : ordpairs by_file l -> Permutation l (sort_locations asc l).
Proof.
  intros Hl. unfold sort_locations.
  destruct (sort_fold_inv asc l [] Hl) as [_ H]; [intros y x []|exact I|exact H].
Qed.

Theorem sort_locations_keeps_file_order_lemma asc l :
  ordpairs by_file l -> ordpairs file_order (sort_locations asc l).
Proof.
  intros Hl. unfold sort_locations. apply ordpairs_rev.
  destruct (sort_fold_inv asc l [] Hl) as [H _]; [intros y x []|exact I|exact H].
Qed.

(* FileStore.locations delivers the blocks file by file *)
Lemma block_loc_file asc t fi tombs b x : In x (block_loc asc t fi tombs b) -> l_file x = fi.
Proof.
  unfold block_loc. destruct (covered _ _ _); [intros []|].
  destruct (asc && _); [intros []|]. destruct (negb asc && _); [intros []|].
  intros [<-|[]]. reflexivity.
Qed.

Lemma locations_file_ge asc t fs : forall fi x, In x (locations asc t fi fs) -> (fi <= l_file x)%nat.
Proof.
  induction fs as [|f r IH]; intros fi x Hx; cbn [locations] in Hx; [destruct Hx|].
  apply in_app_or in Hx. destruct Hx as [Hx|Hx].
  - apply in_flat_map in Hx. destruct Hx as [b [_ Hb]]. apply block_loc_file in Hb. lia.
  - apply IH in Hx. lia.
Qed.

Lemma locations_by_file asc t fs : forall fi, ordpairs by_file (locations asc t fi fs).
Proof.
  induction fs as [|f r IH]; intros fi; cbn [locations]; [exact I|].
  apply ordpairs_app. repeat split.
  - generalize (bf_blocks f). intros bl. induction bl as [|b bl IHb]; cbn [flat_map]; [exact I|].
    apply ordpairs_app. repeat split; [|exact IHb|].
    + unfold block_loc. destruct (covered _ _ _); [exact I|]. destruct (asc && _); [exact I|].
      destruct (negb asc && _); [exact I|]. cbn. split; [intros ? []|exact I].
    + intros a c Ha Hc. apply block_loc_file in Ha. apply in_flat_map in Hc. destruct Hc as [b' [_ Hc]].
      apply block_loc_file in Hc. unfold by_file. lia.
  - apply IH.
  - intros a c Ha Hc. apply in_flat_map in Ha. destruct Ha as [b [_ Ha]]. apply block_loc_file in Ha.
    apply locations_file_ge in Hc. unfold by_file. lia.
Qed.

(* the seeks of every cursor: overlapping blocks in file order *)
Theorem cursor_seeks_file_order_lemma fs t asc : ordpairs file_order (k_seeks (new_cursor fs t asc)).
Proof.
  unfold new_cursor, seek_cursor. cbn [k_seeks].
  apply sort_locations_keeps_file_order_lemma. apply locations_by_file.
Qed.

(* ================= 2. cache / TSM merge ================= *)

Lemma cmerge_asc_nil_r c : cmerge_asc c [] = c.
Proof. destruct c; reflexivity. Qed.

Lemma cmerge_asc_cons c c' x t' :
  cmerge_asc (c :: c') (x :: t') =
  if fst c =? fst x then c :: cmerge_asc c' t'
  else if fst c <? fst x then c :: cmerge_asc c' (x :: t')
  else x :: cmerge_asc (c :: c') t'.
Proof. reflexivity. Qed.

(* the ascending cursor merge IS the newest-wins merge with the cache as the newer side *)
Lemma cmerge_asc_is_merge2_lemma c : forall t, cmerge_asc c t = merge2 t c.
Proof.
  induction c as [|y c' IHc]; intros t; [destruct t; reflexivity|].
  induction t as [|x t' IHt]; [reflexivity|].
  rewrite cmerge_asc_cons, merge2_cons.
  destruct (fst y =? fst x) eqn:E1.
  - assert (fst x <? fst y = false) as -> by lia. assert (fst y <? fst x = false) as -> by lia.
    rewrite IHc. reflexivity.
  - destruct (fst y <? fst x) eqn:E2.
    + assert (fst x <? fst y = false) as -> by lia. rewrite IHc. reflexivity.
    + assert (fst x <? fst y = true) as -> by lia. rewrite IHt. reflexivity.
Qed.

(* descending: a "descending-sorted" list is the reverse of a sorted one; the descending
   merge of the reversed inputs is the reverse of the ascending merge *)
Lemma cmerge_desc_nil_r c : cmerge_desc c [] = c.
Proof. destruct c; reflexivity. Qed.

Lemma cmerge_desc_cons c c' x t' :
  cmerge_desc (c :: c') (x :: t') =
  if fst c =? fst x then c :: cmerge_desc c' t'
  else if fst x <? fst c then c :: cmerge_desc c' (x :: t')
  else x :: cmerge_desc (c :: c') t'.
Proof. reflexivity. Qed.

(* lookup characterisation of the descending merge on ANY two lists whose reverses are sorted *)
Definition dsorted (l : list tv) : Prop := ssorted (rev l).

Lemma dsorted_tail x l : dsorted (x :: l) -> dsorted l.
Proof.
  unfold dsorted. cbn [rev]. generalize (rev l). intros r. induction r as [|y r IH]; cbn [app]; [intros; exact I|].
  intros H. pose proof (ssorted_tail _ _ H) as Ht. apply ssorted_cons; [|apply IH; exact Ht].
  intros z Hz. apply (ssorted_all_gt _ _ H). apply in_or_app. auto.
Qed.

Lemma dsorted_head_gt x l : dsorted (x :: l) -> forall y, In y l -> fst y < fst x.
Proof.
  unfold dsorted. cbn [rev]. intros H y Hy. apply in_rev in Hy. revert H Hy. generalize (rev l). intros r.
  induction r as [|z r IH]; cbn [app]; intros H Hy; [destruct Hy|].
  destruct Hy as [<-|Hy].
  - apply (ssorted_all_gt _ _ H). apply in_or_app. right. left. reflexivity.
  - apply IH; [exact (ssorted_tail _ _ H)|exact Hy].
Qed.

Lemma dsorted_cons x l : (forall y, In y l -> fst y < fst x) -> dsorted l -> dsorted (x :: l).
Proof.
  unfold dsorted. cbn [rev]. intros H Hs.
  assert (G : forall r, ssorted r -> (forall y, In y r -> fst y < fst x) -> ssorted (r ++ [x])).
  { induction r as [|z r IH]; intros Hr Hlt; cbn [app]; [cbn; auto|].
    apply ssorted_cons; [|apply IH; [exact (ssorted_tail _ _ Hr)|intros y Hy; apply Hlt; right; exact Hy]].
    intros y Hy. apply in_app_or in Hy. destruct Hy as [Hy|[<-|[]]]; [exact (ssorted_all_gt _ _ Hr y Hy)|apply Hlt; left; reflexivity]. }
  apply G; [exact Hs|]. intros y Hy. apply H. apply in_rev. exact Hy.
Qed.

Lemma cmerge_desc_In c : forall t z, In z (cmerge_desc c t) -> In z c \/ In z t.
Proof.
  induction c as [|y c' IHc]; intros t z Hz; [destruct t; cbn in Hz; auto|].
  induction t as [|x t' IHt]; [rewrite cmerge_desc_nil_r in Hz; auto|].
  rewrite cmerge_desc_cons in Hz.
  destruct (fst y =? fst x).
  - destruct Hz as [<-|Hz]; [left; left; reflexivity|]. apply IHc in Hz. cbn [In]. tauto.
  - destruct (fst x <? fst y).
    + destruct Hz as [<-|Hz]; [left; left; reflexivity|]. apply IHc in Hz. cbn [In] in *. tauto.
    + destruct Hz as [<-|Hz]; [right; left; reflexivity|]. apply IHt in Hz. cbn [In] in *. tauto.
Qed.

Lemma cmerge_desc_dsorted c : forall t, dsorted c -> dsorted t -> dsorted (cmerge_desc c t).
Proof.
  induction c as [|y c' IHc]; intros t Hc Ht; [destruct t; exact Ht|].
  induction t as [|x t' IHt]; [rewrite cmerge_desc_nil_r; exact Hc|].
  pose proof (dsorted_head_gt _ _ Hc) as Gc. pose proof (dsorted_head_gt _ _ Ht) as Gt.
  rewrite cmerge_desc_cons. destruct (fst y =? fst x) eqn:E1.
  - apply dsorted_cons; [|apply IHc; [exact (dsorted_tail _ _ Hc)|exact (dsorted_tail _ _ Ht)]].
    intros z Hz. apply cmerge_desc_In in Hz. destruct Hz as [Hz|Hz]; [apply Gc; exact Hz|specialize (Gt z Hz); lia].
  - destruct (fst x <? fst y) eqn:E2.
    + apply dsorted_cons; [|apply IHc; [exact (dsorted_tail _ _ Hc)|exact Ht]].
      intros z Hz. apply cmerge_desc_In in Hz. destruct Hz as [Hz|[<-|Hz]]; [apply Gc; exact Hz|lia|specialize (Gt z Hz); lia].
    + apply dsorted_cons; [|apply IHt; exact (dsorted_tail _ _ Ht)].
      intros z Hz. apply cmerge_desc_In in Hz. destruct Hz as [[<-|Hz]|Hz]; [lia|specialize (Gc z Hz); lia|apply Gt; exact Hz].
Qed.

(* lookup in a list with at most one value per timestamp does not depend on the order *)
Fixpoint lookup_first (t : Z) (l : list tv) : option value :=
  match l with
  | [] => None
  | (t', v) :: r => if t' =? t then Some v else lookup_first t r
  end.

Lemma lookup_first_none t l : (forall y, In y l -> fst y <> t) -> lookup_first t l = None.
Proof.
  induction l as [|[t' v] r IH]; intros H; cbn [lookup_first]; [reflexivity|].
  specialize (H (t', v) (or_introl eq_refl)) as H1. cbn in H1. destruct (t' =? t) eqn:E; [lia|].
  apply IH. intros y Hy. apply H. right. exact Hy.
Qed.

Lemma lookup_first_app t a b :
  lookup_first t (a ++ b) = match lookup_first t a with Some v => Some v | None => lookup_first t b end.
Proof.
  induction a as [|[t' v] a IH]; cbn [app lookup_first]; [reflexivity|]. destruct (t' =? t); [reflexivity|exact IH].
Qed.

(* lookup_last on a sorted list = lookup_first on its reverse *)
Lemma lookup_last_rev t l : lookup_last t l = lookup_first t (rev l).
Proof.
  induction l as [|[t' v] r IH]; cbn [lookup_last rev]; [reflexivity|].
  rewrite lookup_first_app, <- IH. cbn [lookup_first]. destruct (lookup_last t r); [reflexivity|].
  destruct (t' =? t); reflexivity.
Qed.

Lemma cmerge_desc_lookup t c : forall ts, dsorted c -> dsorted ts ->
  lookup_first t (cmerge_desc c ts) = match lookup_first t c with Some v => Some v | None => lookup_first t ts end.
Proof.
  induction c as [|[ty vy] c' IHc]; intros ts Hc Ht; [destruct ts; reflexivity|].
  induction ts as [|[tx vx] t' IHt]; [rewrite cmerge_desc_nil_r; destruct (lookup_first t ((ty, vy) :: c')); reflexivity|].
  pose proof (dsorted_head_gt _ _ Hc) as Gc. pose proof (dsorted_head_gt _ _ Ht) as Gt. cbn [fst] in Gc, Gt.
  rewrite cmerge_desc_cons. cbn [fst]. destruct (ty =? tx) eqn:E1.
  - cbn [lookup_first]. rewrite IHc by (eapply dsorted_tail; eassumption).
    destruct (ty =? t) eqn:E; [reflexivity|]. assert (tx =? t = false) as -> by lia. reflexivity.
  - destruct (tx <? ty) eqn:E2.
    + cbn [lookup_first]. destruct (ty =? t) eqn:E; [reflexivity|].
      rewrite IHc by (first [eassumption | eapply dsorted_tail; eassumption]). cbn [lookup_first]. reflexivity.
    + cbn [lookup_first] in *. rewrite IHt by (eapply dsorted_tail; eassumption).
      destruct (tx =? t) eqn:E.
      * assert (ty =? t = false) as -> by lia.
        rewrite lookup_first_none; [reflexivity|]. intros y Hy. specialize (Gc y Hy). lia.
      * reflexivity.
Qed.

(* the descending cursor merge of the reversed inputs is the reverse of the newest-wins merge *)
Lemma cmerge_desc_is_rev_merge2_lemma c ts : ssorted c -> ssorted ts ->
  cmerge_desc (rev c) (rev ts) = rev (merge2 ts c).
Proof.
  intros Hc Ht.
  assert (D : dsorted (cmerge_desc (rev c) (rev ts))).
  { apply cmerge_desc_dsorted; unfold dsorted; rewrite rev_involutive; assumption. }
  rewrite <- (rev_involutive (cmerge_desc (rev c) (rev ts))). f_equal.
  apply sorted_lookup_ext; [exact D|apply merge2_sorted; assumption|].
  intros t. rewrite lookup_last_rev, rev_involutive.
  rewrite cmerge_desc_lookup by (unfold dsorted; rewrite rev_involutive; assumption).
  rewrite merge2_lookup by assumption. rewrite lookup_last_app. rewrite <- !lookup_last_rev. reflexivity.
Qed.

(* ================= 3. the engine cursor, given the KeyCursor stream ================= *)

Lemma filter_rev_eq {A} (p : A -> bool) l : filter p (rev l) = rev (filter p l).
Proof.
  induction l as [|x l IH]; cbn [rev filter]; [reflexivity|].
  rewrite filter_app, IH. cbn [filter]. destruct (p x); cbn [rev]; [reflexivity|rewrite app_nil_r; reflexivity].
Qed.

Lemma files_only_read_all fs : read_all fs empty_cache bkey = files_values fs bkey.
Proof. reflexivity. Qed.

Lemma hot_read_all fs cv :
  read_all fs {| c_snap := []; c_hot := [(bkey, cv)] |} bkey = merge_lw (files_values fs bkey) cv.
Proof. reflexivity. Qed.

(* For EVERY set of files, cache content (arrival order, duplicates allowed), seek time and
   end time: IF the KeyCursor stream equals the layer-A read of the files from the seek time
   on, THEN what the engine cursor returns (cache de-duplicated, positioned at the seek
   time, merged with the stream with the cache winning ties, cut at the end time) is the
   layer-A read of files and cache over [seek, end] in the requested direction. *)
Lemma cursor_refines_layerA_asc fs cv seek fin :
  fin <= max_int64 ->
  kc_values fs seek true = layerA_read fs seek true ->
  cursor_read fs cv seek fin true = layerA_cursor_read fs cv seek fin true.
Proof.
  intros Hfin Hkc. unfold cursor_read, layerA_cursor_read. rewrite Hkc. unfold layerA_read, read.
  rewrite files_only_read_all, hot_read_all, cmerge_asc_is_merge2_lemma.
  set (FV := files_values (to_tsmfiles 0 fs) bkey).
  assert (HFV : ssorted FV) by apply files_values_sorted.
  assert (HA : ssorted (include_range seek max_int64 FV)) by (apply filter_ssorted; exact HFV).
  assert (HB : ssorted (filter (fun x : tv => seek <=? fst x) (dedup cv))) by (apply filter_ssorted; apply dedup_sorted).
  apply sorted_lookup_ext.
  - apply filter_ssorted. apply merge2_sorted; assumption.
  - apply filter_ssorted. apply merge_lw_sorted. exact HFV.
  - intros t. rewrite lookup_last_filter by (intros; reflexivity). cbn [fst].
    rewrite merge2_lookup by assumption. rewrite lookup_last_app.
    rewrite lookup_last_filter by (intros; reflexivity). cbn [fst]. rewrite dedup_last_wins.
    rewrite !lookup_include_range. rewrite merge_lw_lookup by exact HFV. rewrite lookup_last_app.
    destruct (lookup_last t cv) as [vc|]; destruct (lookup_last t FV) as [vf|];
      destruct (seek <=? t) eqn:E1; destruct (t <=? fin) eqn:E2; destruct (t <=? max_int64) eqn:E3; cbn; try reflexivity; lia.
Qed.

Lemma cursor_refines_layerA_desc fs cv seek fin :
  min_int64 <= fin ->
  kc_values fs seek false = layerA_read fs seek false ->
  cursor_read fs cv seek fin false = layerA_cursor_read fs cv seek fin false.
Proof.
  intros Hfin Hkc. unfold cursor_read, layerA_cursor_read. rewrite Hkc. unfold layerA_read, read.
  rewrite files_only_read_all, hot_read_all.
  set (FV := files_values (to_tsmfiles 0 fs) bkey).
  assert (HFV : ssorted FV) by apply files_values_sorted.
  assert (HA : ssorted (include_range min_int64 seek FV)) by (apply filter_ssorted; exact HFV).
  assert (HB : ssorted (filter (fun x : tv => fst x <=? seek) (dedup cv))) by (apply filter_ssorted; apply dedup_sorted).
  rewrite cmerge_desc_is_rev_merge2_lemma by assumption. rewrite filter_rev_eq. f_equal.
  apply sorted_lookup_ext.
  - apply filter_ssorted. apply merge2_sorted; assumption.
  - apply filter_ssorted. apply merge_lw_sorted. exact HFV.
  - intros t. rewrite lookup_last_filter by (intros; reflexivity). cbn [fst].
    rewrite merge2_lookup by assumption. rewrite lookup_last_app.
    rewrite lookup_last_filter by (intros; reflexivity). cbn [fst]. rewrite dedup_last_wins.
    rewrite !lookup_include_range. rewrite merge_lw_lookup by exact HFV. rewrite lookup_last_app.
    destruct (lookup_last t cv) as [vc|]; destruct (lookup_last t FV) as [vf|];
      destruct (t <=? seek) eqn:E1; destruct (fin <=? t) eqn:E2; destruct (min_int64 <=? t) eqn:E3; cbn; try reflexivity; lia.
Qed.
