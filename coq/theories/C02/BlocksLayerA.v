(* C02/BlocksLayerA.v — from the cursor's location list to layer A: the values the sorted
   location list holds (newest location wins) are the values of the files overlaid oldest ->
   newest minus tombstones (Shard/Store.v files_values), from the seek time on; and the main
   theorem keycursor_asc_refines_layerA. *)
From Verif Require Import Shard.Store C02.Spec C02.Fast C02.FastProofs C02.Blocks C02.BlocksProofs C02.BlocksRefine.
From Coq Require Import ZifyBool Permutation.
Open Scope Z_scope.

(* ---------- the winner at one timestamp does not depend on the order, as long as locations
   that both hold the timestamp are in file order ---------- *)

Section Winner.
Variable t : Z.

Definition has (l : loc) : Prop := lookup_last t (live l) <> None.
Definition wins_order (a b : loc) : Prop := has a -> has b -> a = b \/ (l_file a < l_file b)%nat.

Definition win (L : list loc) (v : value) : Prop :=
  exists l, In l L /\ lookup_last t (live l) = Some v /\ forall l', In l' L -> has l' -> (l_file l' <= l_file l)%nat.

Lemma lookup_flat_none L : lookup_last t (flat_map live L) = None <-> forall l, In l L -> lookup_last t (live l) = None.
Proof.
  induction L as [|x r IH]; cbn [flat_map]; [split; [intros _ l []|reflexivity]|].
  rewrite lookup_last_app. split.
  - intros H l [<-|Hl].
    + destruct (lookup_last t (flat_map live r)); [discriminate|exact H].
    + destruct (lookup_last t (flat_map live r)) eqn:E; [discriminate|]. apply IH; [reflexivity|exact Hl].
  - intros H. assert (E : lookup_last t (flat_map live r) = None) by (apply IH; intros l Hl; apply H; right; exact Hl).
    rewrite E. apply H. left. reflexivity.
Qed.

Lemma ordpairs_either R L a b : ordpairs R L -> In a L -> In b L -> a = b \/ R a b \/ R b a.
Proof.
  induction L as [|x r IH]; intros Ho Ha Hb; [destruct Ha|]. cbn [ordpairs] in Ho. destruct Ho as [Hx Hr].
  destruct Ha as [<-|Ha], Hb as [<-|Hb]; auto.
Qed.

Lemma lookup_win L v : ordpairs wins_order L -> lookup_last t (flat_map live L) = Some v -> win L v.
Proof.
  induction L as [|x r IH]; intros Ho H; [discriminate|]. cbn [ordpairs] in Ho. destruct Ho as [Hx Hr].
  cbn [flat_map] in H. rewrite lookup_last_app in H.
  destruct (lookup_last t (flat_map live r)) as [v'|] eqn:E.
  - inversion H; subst v'. destruct (IH Hr eq_refl) as [l [Hl [Hv Hmax]]].
    exists l. split; [right; exact Hl|]. split; [exact Hv|].
    intros l' [<-|Hl'] Hh; [|apply Hmax; assumption].
    destruct (Hx l Hl Hh) as [->|Hlt]; [unfold has; rewrite Hv; discriminate|lia|lia].
  - exists x. split; [left; reflexivity|]. split; [exact H|].
    intros l' [<-|Hl'] Hh; [lia|]. exfalso. apply Hh. apply (proj1 (lookup_flat_none r) E). exact Hl'.
Qed.

Lemma win_lookup L v : ordpairs wins_order L -> win L v -> lookup_last t (flat_map live L) = Some v.
Proof.
  induction L as [|x r IH]; intros Ho [l [Hl [Hv Hmax]]]; [destruct Hl|].
  pose proof Ho as Ho'. cbn [ordpairs] in Ho. destruct Ho as [Hx Hr].
  cbn [flat_map]. rewrite lookup_last_app.
  assert (Hhl : has l) by (unfold has; rewrite Hv; discriminate).
  destruct (lookup_last t (flat_map live r)) as [v'|] eqn:E.
  - destruct (lookup_win r v' Hr E) as [l2 [Hl2 [Hv2 Hmax2]]].
    assert (Hh2 : has l2) by (unfold has; rewrite Hv2; discriminate).
    assert (l = l2).
    { destruct Hl as [<-|Hl].
      - destruct (Hx l2 Hl2 Hhl Hh2) as [E2|Hlt]; [exact E2|]. specialize (Hmax l2 (or_intror Hl2) Hh2). lia.
      - specialize (Hmax l2 (or_intror Hl2) Hh2). specialize (Hmax2 l Hl Hhl).
        destruct (ordpairs_either _ _ _ _ Hr Hl Hl2) as [E2|[Hw|Hw]]; [exact E2| |].
        + destruct (Hw Hhl Hh2) as [E2|Hlt]; [exact E2|lia].
        + destruct (Hw Hh2 Hhl) as [E2|Hlt]; [symmetry; exact E2|lia]. }
    subst l2. rewrite Hv in Hv2. symmetry. exact Hv2.
  - destruct Hl as [<-|Hl]; [exact Hv|]. exfalso. apply Hhl. apply (proj1 (lookup_flat_none r) E). exact Hl.
Qed.

Lemma lookup_perm L L' : Permutation L L' -> ordpairs wins_order L -> ordpairs wins_order L' ->
  lookup_last t (flat_map live L) = lookup_last t (flat_map live L').
Proof.
  intros Hp Ho Ho'. destruct (lookup_last t (flat_map live L)) as [v|] eqn:E.
  - symmetry. apply win_lookup; [exact Ho'|]. destruct (lookup_win L v Ho E) as [l [Hl [Hv Hmax]]].
    exists l. split; [eapply Permutation_in; eassumption|]. split; [exact Hv|].
    intros l' Hl' Hh. apply Hmax; [|exact Hh]. eapply Permutation_in; [apply Permutation_sym; exact Hp|exact Hl'].
  - symmetry. apply lookup_flat_none. intros l Hl. apply (proj1 (lookup_flat_none L) E).
    eapply Permutation_in; [apply Permutation_sym; exact Hp|exact Hl].
Qed.
End Winner.

(* ---------- the locations FileStore.locations makes (ascending) ---------- *)

Definition mk_asc_loc (t : Z) (fi : nat) (tombs : list (Z * Z)) (b : block) : loc :=
  mkloc fi (vmin b) (vmax b) b tombs min_int64 (wrap64 (t - 1)).

Lemma block_loc_asc_In t fi tombs b x : In x (block_loc true t fi tombs b) ->
  x = mk_asc_loc t fi tombs b /\ covered tombs (vmin b) (vmax b) = false /\ (vmax b <? t) = false.
Proof.
  unfold block_loc. destruct (covered tombs (vmin b) (vmax b)) eqn:Ec; [intros []|]. cbn [andb negb].
  destruct (vmax b <? t) eqn:Et; [intros []|]. intros [<-|[]]. auto.
Qed.

Lemma locations_asc_In t fs : forall fi x, In x (locations true t fi fs) ->
  exists k f b, nth_error fs k = Some f /\ In b (bf_blocks f) /\ x = mk_asc_loc t (fi + k) (bf_tombs f) b.
Proof.
  induction fs as [|f r IH]; intros fi x Hx; cbn [locations] in Hx; [destruct Hx|].
  apply in_app_or in Hx. destruct Hx as [Hx|Hx].
  - apply in_flat_map in Hx. destruct Hx as [b [Hb Hx]]. apply block_loc_asc_In in Hx. destruct Hx as [-> _].
    exists 0%nat, f, b. rewrite Nat.add_0_r. auto.
  - destruct (IH _ _ Hx) as [k [f' [b [H1 [H2 H3]]]]]. exists (S k), f', b. split; [exact H1|]. split; [exact H2|].
    rewrite H3. f_equal. lia.
Qed.

Lemma ssorted_app_inv a : forall b, ssorted (a ++ b) ->
  ssorted a /\ ssorted b /\ forall x y, In x a -> In y b -> fst x < fst y.
Proof.
  induction a as [|x a IH]; intros b H; cbn [app] in H.
  - split; [exact I|]. split; [exact H|]. intros x y [].
  - destruct (IH b (ssorted_tail _ _ H)) as [H1 [H2 H3]]. pose proof (ssorted_all_gt _ _ H) as Hgt. split; [|split; [exact H2|]].
    + apply ssorted_cons; [|exact H1]. intros y Hy. apply Hgt. apply in_or_app. auto.
    + intros u v [<-|Hu] Hv; [apply Hgt; apply in_or_app; auto|apply H3; assumption].
Qed.

Lemma blocks_disjoint bl : ssorted (concat bl) -> forall b1 b2 t v1 v2,
  In b1 bl -> In b2 bl -> In (t, v1) b1 -> In (t, v2) b2 -> b1 = b2.
Proof.
  induction bl as [|b bl IH]; intros Hs b1 b2 t v1 v2 H1 H2 Hv1 Hv2; [destruct H1|].
  cbn [concat] in Hs. destruct (ssorted_app_inv _ _ Hs) as [_ [Hs2 Hcross]].
  assert (Hin : forall b' x, In b' bl -> In x b' -> In x (concat bl)) by (intros b' x Hb Hx; apply in_concat; exists b'; auto).
  destruct H1 as [<-|H1], H2 as [<-|H2].
  - reflexivity.
  - specialize (Hcross _ _ Hv1 (Hin _ _ H2 Hv2)). cbn in Hcross. lia.
  - specialize (Hcross _ _ Hv2 (Hin _ _ H1 Hv1)). cbn in Hcross. lia.
  - eapply IH; eassumption.
Qed.

Lemma block_of_wf f b : file_wf f -> In b (bf_blocks f) -> b <> [] /\ ssorted b.
Proof.
  intros [Hne Hs] Hb. rewrite Forall_forall in Hne. split; [apply Hne; exact Hb|].
  apply in_split in Hb. destruct Hb as [l1 [l2 E]]. rewrite E, concat_app in Hs. cbn [concat] in Hs.
  destruct (ssorted_app_inv _ _ Hs) as [_ [H _]]. destruct (ssorted_app_inv _ _ H) as [H' _]. exact H'.
Qed.

Lemma mk_asc_loc_wf t fi tombs b : ssorted b -> loc_wf (mk_asc_loc t fi tombs b).
Proof.
  intros Hs. split; [exact Hs|]. cbn. intros x Hx. split; [apply vmin_le; assumption|apply vmax_ge; assumption].
Qed.

Lemma has_in t' l : has t' l -> exists v, In (t', v) (l_vals l).
Proof.
  unfold has. destruct (lookup_last t' (live l)) as [v|] eqn:E; [|congruence]. intros _. exists v.
  apply lookup_some_in in E. apply excl_tombs_In in E. exact E.
Qed.

Lemma has_range t' l : loc_wf l -> has t' l -> l_min l <= t' <= l_max l.
Proof. intros [_ Hb] Hh. destruct (has_in _ _ Hh) as [v Hv]. apply Hb in Hv. exact Hv. Qed.

Definition same_file_one (t' : Z) (L : list loc) : Prop :=
  forall a b, In a L -> In b L -> l_file a = l_file b -> has t' a -> has t' b -> a = b.

Lemma locations_same_file_one t' t fs : Forall file_wf fs -> same_file_one t' (locations true t 0 fs).
Proof.
  intros Hwf a b Ha Hb Hf Hha Hhb.
  destruct (locations_asc_In _ _ _ _ Ha) as [k1 [f1 [b1 [Hn1 [Hb1 ->]]]]].
  destruct (locations_asc_In _ _ _ _ Hb) as [k2 [f2 [b2 [Hn2 [Hb2 ->]]]]].
  cbn in Hf. assert (k1 = k2) by lia. subst k2. rewrite Hn1 in Hn2. inversion Hn2; subst f2.
  destruct (has_in _ _ Hha) as [v1 Hv1]. destruct (has_in _ _ Hhb) as [v2 Hv2]. cbn in Hv1, Hv2.
  rewrite Forall_forall in Hwf. destruct (Hwf f1 (nth_error_In _ _ Hn1)) as [_ Hs].
  rewrite (blocks_disjoint _ Hs b1 b2 t' v1 v2 Hb1 Hb2 Hv1 Hv2). reflexivity.
Qed.

Lemma ordpairs_impl_in (R Q : loc -> loc -> Prop) L :
  ordpairs R L -> (forall a b, In a L -> In b L -> R a b -> Q a b) -> ordpairs Q L.
Proof.
  induction L as [|x r IH]; intros Ho H; [exact I|]. cbn [ordpairs] in *. destruct Ho as [Hx Hr]. split.
  - intros b Hb. apply H; [left; reflexivity|right; exact Hb|apply Hx; exact Hb].
  - apply IH; [exact Hr|]. intros a b Ha Hb. apply H; right; assumption.
Qed.

Lemma wins_from_order t' L : (forall l, In l L -> loc_wf l) -> same_file_one t' L ->
  ordpairs file_order L -> ordpairs (wins_order t') L.
Proof.
  intros Hwf Hs Ho. apply (ordpairs_impl_in _ _ _ Ho). intros a b Ha Hb Hfo Hha Hhb.
  pose proof (has_range _ _ (Hwf a Ha) Hha). pose proof (has_range _ _ (Hwf b Hb) Hhb).
  assert (Hov : overlap a b = true) by (unfold overlap, overlaps_range; lia).
  specialize (Hfo Hov). destruct (Nat.eq_dec (l_file a) (l_file b)) as [E|E]; [left; apply Hs; assumption|right; lia].
Qed.

(* ---------- one file: the blocks FileStore.locations keeps hold the file's live values ---------- *)

Lemma apply_tombs_bkey tombs : forall vs, apply_tombs bkey (map (fun tb => (bkey, tb)) tombs) vs = excl_tombs tombs vs.
Proof.
  unfold apply_tombs, excl_tombs. induction tombs as [|tb r IH]; intros vs; cbn [map fold_left]; [reflexivity|].
  cbn [fst snd]. change (key_eqb bkey bkey) with true. cbv iota. apply IH.
Qed.

Lemma file_values_bfile i f : file_values (to_tsmfile i f) bkey = excl_tombs (bf_tombs f) (concat (bf_blocks f)).
Proof. unfold file_values, to_tsmfile. cbn [f_tombs f_data]. rewrite apply_tombs_bkey. reflexivity. Qed.

Lemma covered_in_tombs tombs mn mx t' : covered tombs mn mx = true -> mn <= t' <= mx -> in_tombs tombs t' = true.
Proof.
  unfold covered, in_tombs. intros H Hr. apply existsb_exists in H. destruct H as [tb [Hin Htb]].
  apply existsb_exists. exists tb. split; [exact Hin|lia].
Qed.

Lemma lookup_in_range t' b : ssorted b -> lookup_last t' b <> None -> vmin b <= t' <= vmax b.
Proof.
  intros Hs H. destruct (lookup_last t' b) as [v|] eqn:E; [|congruence]. apply lookup_some_in in E.
  pose proof (vmin_le _ _ Hs E). pose proof (vmax_ge _ Hs _ E). cbn in *. lia.
Qed.

Lemma file_locations_lookup t t' fi tombs bl : t <= t' -> ssorted (concat bl) ->
  lookup_last t' (flat_map live (flat_map (block_loc true t fi tombs) bl)) =
  if in_tombs tombs t' then None else lookup_last t' (concat bl).
Proof.
  intros Ht. induction bl as [|b bl IH]; intros Hs; cbn [flat_map concat]; [destruct (in_tombs tombs t'); reflexivity|].
  destruct (ssorted_app_inv _ _ Hs) as [Hb [Hbl _]].
  rewrite flat_map_app, !lookup_last_app, (IH Hbl).
  assert (Hhead : lookup_last t' (flat_map live (block_loc true t fi tombs b)) = if in_tombs tombs t' then None else lookup_last t' b).
  { unfold block_loc. destruct (covered tombs (vmin b) (vmax b)) eqn:Ec.
    - cbn [flat_map lookup_last]. destruct (in_tombs tombs t') eqn:Ei; [reflexivity|].
      destruct (lookup_last t' b) as [v|] eqn:E; [|reflexivity].
      assert (Hr : vmin b <= t' <= vmax b) by (apply lookup_in_range; [exact Hb|congruence]).
      rewrite (covered_in_tombs _ _ _ _ Ec Hr) in Ei. discriminate.
    - cbn [andb negb]. destruct (vmax b <? t) eqn:Et.
      + cbn [flat_map lookup_last]. destruct (lookup_last t' b) as [v|] eqn:E; [|destruct (in_tombs tombs t'); reflexivity].
        assert (Hr : vmin b <= t' <= vmax b) by (apply lookup_in_range; [exact Hb|congruence]). lia.
      + cbn [flat_map]. rewrite app_nil_r. unfold live. cbn [l_tombs l_vals]. apply excl_tombs_lookup. }
  rewrite Hhead. destruct (in_tombs tombs t'); reflexivity.
Qed.

Lemma locations_lookup t t' fs : t <= t' -> Forall file_wf fs -> forall fi,
  lookup_last t' (flat_map live (locations true t fi fs)) =
  lookup_last t' (flat_map (fun f => file_values f bkey) (to_tsmfiles fi fs)).
Proof.
  intros Ht Hwf. induction Hwf as [|f r Hf Hr IH]; intros fi; cbn [locations to_tsmfiles flat_map]; [reflexivity|].
  rewrite flat_map_app, !lookup_last_app, IH, file_values_bfile.
  rewrite file_locations_lookup by (try exact Ht; exact (proj2 Hf)). rewrite excl_tombs_lookup. reflexivity.
Qed.

(* ---------- the initial cursor state ---------- *)

Definition files_int64 (fs : list bfile) : Prop :=
  forall f b x, In f fs -> In b (bf_blocks f) -> In x b -> min_int64 <= fst x <= max_int64.

Lemma wrap64_id z : min_int64 <= z <= max_int64 -> wrap64 z = z.
Proof. unfold wrap64, min_int64, max_int64. intros H. rewrite Z.mod_small by lia. lia. Qed.

Lemma initial_asc_ok t fi tombs b : min_int64 < t <= max_int64 -> b <> [] -> ssorted b ->
  (forall x, In x b -> min_int64 <= fst x) -> asc_ok (t - 1) (mk_asc_loc t fi tombs b).
Proof.
  intros Ht Hne Hs Hlo.
  assert (Hw : wrap64 (t - 1) = t - 1) by (apply wrap64_id; unfold min_int64, max_int64 in *; lia).
  assert (Hwf : loc_wf (mk_asc_loc t fi tombs b)) by (apply mk_asc_loc_wf; exact Hs).
  assert (Hmin : min_int64 <= vmin b). { destruct b as [|x b']; [congruence|]. cbn. apply Hlo. left. reflexivity. }
  split; [exact Hwf|]. split; [exact Hmin|]. split; [cbn [l_rmax mk_asc_loc]; lia|].
  intros t'. rewrite rem_lookup_gen. cbn [l_rmin l_rmax mk_asc_loc]. rewrite Hw.
  destruct (t - 1 <? t') eqn:E.
  - assert ((t' <=? t - 1) = false) as -> by lia. rewrite andb_false_r. reflexivity.
  - assert ((t' <=? t - 1) = true) as -> by lia. rewrite andb_true_r. destruct (min_int64 <=? t') eqn:E2; [reflexivity|].
    apply live_lookup_out; [exact Hwf|]. left. cbn [l_min mk_asc_loc]. lia.
Qed.

Lemma sorted_all_none l : ssorted l -> (forall t, lookup_last t l = None) -> l = [].
Proof. intros Hs H. apply sorted_lookup_ext; [exact Hs|exact I|]. intros t. rewrite H. reflexivity. Qed.

Lemma initial_cur_inv fs t : Forall file_wf fs -> files_int64 fs -> min_int64 < t <= max_int64 ->
  cur_inv (t - 1) (k_seeks (new_cursor fs t true)) (k_pos (new_cursor fs t true)) (k_cur (new_cursor fs t true)).
Proof.
  intros Hwf Hi Ht. unfold new_cursor, seek_cursor. cbn [k_seeks k_pos k_cur].
  set (S := sort_locations true (locations true t 0 fs)).
  assert (Hok : Forall (asc_ok (t - 1)) S).
  { apply (Permutation_Forall (sort_locations_perm_lemma true _ (locations_by_file true t fs 0))).
    apply Forall_forall. intros x Hx. destruct (locations_asc_In _ _ _ _ Hx) as [k [f [b [Hn [Hb ->]]]]].
    pose proof (nth_error_In _ _ Hn) as Hf. rewrite Forall_forall in Hwf.
    destruct (block_of_wf f b (Hwf f Hf) Hb) as [Hne Hs].
    apply initial_asc_ok; [exact Ht|exact Hne|exact Hs|]. intros y Hy. apply (Hi f b y Hf Hb Hy). }
  set (cur := idx_filter (seek_ok true t) 0 S).
  split; [exact Hok|]. split; [|split].
  - pose proof (idx_filter_asc (seek_ok true t) S 0) as Ha. fold cur in Ha.
    destruct cur as [|j r]; [exact I|]. cbn [hd asc_from] in *. split; [lia|tauto].
  - intros j Hj. apply idx_filter_spec in Hj. lia.
  - intros j Hj Hnj. pose proof (Forall_get _ _ _ Hok Hj) as [Hlw [Hmin [Hmax Hf]]].
    apply sorted_all_none; [apply rem_sorted; exact Hlw|]. intros t'. rewrite Hf.
    destruct (t - 1 <? t') eqn:E; [|reflexivity].
    assert (Hso : seek_ok true t (get S j) = false).
    { destruct (seek_ok true t (get S j)) eqn:Es; [|reflexivity]. exfalso. apply Hnj. apply idx_filter_spec.
      split; [lia|]. rewrite Nat.sub_0_r. exact Es. }
    unfold seek_ok, contains in Hso. apply live_lookup_out; [exact Hlw|]. right. lia.
Qed.

(* ---------- fuel ---------- *)

Lemma flat_map_live_len L : (length (flat_map live L) <= length (flat_map l_vals L))%nat.
Proof.
  induction L as [|x r IH]; cbn [flat_map]; [lia|]. rewrite !app_length.
  pose proof (excl_tombs_length (l_tombs x) (l_vals x)) as H. fold (live x) in H. lia.
Qed.

Lemma locations_vals_len asc t fs : forall fi,
  (length (flat_map l_vals (locations asc t fi fs)) <= length (concat (flat_map bf_blocks fs)))%nat.
Proof.
  induction fs as [|f r IH]; intros fi; cbn [locations flat_map]; [cbn; lia|].
  rewrite flat_map_app, concat_app, !app_length. specialize (IH (S fi)).
  assert (length (flat_map l_vals (flat_map (block_loc asc t fi (bf_tombs f)) (bf_blocks f))) <= length (concat (bf_blocks f)))%nat; [|lia].
  generalize (bf_blocks f). intros bl. induction bl as [|b bl IHb]; cbn [flat_map concat]; [cbn; lia|].
  rewrite flat_map_app, !app_length.
  assert (length (flat_map l_vals (block_loc asc t fi (bf_tombs f) b)) <= length b)%nat; [|lia].
  unfold block_loc. destruct (covered _ _ _); [cbn; lia|]. destruct (asc && _); [cbn; lia|]. destruct (negb asc && _); [cbn; lia|].
  cbn [flat_map l_vals]. rewrite app_nil_r. lia.
Qed.

Lemma fuel_enough fs t asc F :
  (m_left F (k_seeks (new_cursor fs t asc)) < S (total_values fs))%nat.
Proof.
  unfold m_left, new_cursor, seek_cursor, total_values. cbn [k_seeks].
  pose proof (filter_len (fun x : tv => F <? fst x) (flat_map live (sort_locations asc (locations asc t 0 fs)))).
  pose proof (flat_map_live_len (sort_locations asc (locations asc t 0 fs))).
  pose proof (Permutation_length (Permutation_flat_map l_vals (sort_locations_perm_lemma asc _ (locations_by_file asc t fs 0)))).
  pose proof (locations_vals_len asc t fs 0). lia.
Qed.

Lemma to_tsmfiles_In fs : forall i tf, In tf (to_tsmfiles i fs) -> exists f, In f fs /\ exists i', tf = to_tsmfile i' f.
Proof.
  induction fs as [|f r IH]; intros i tf Hin; [destruct Hin|]. destruct Hin as [<-|H].
  - exists f. split; [left; reflexivity|exists i; reflexivity].
  - destruct (IH _ _ H) as [f' [Hf' He]]. exists f'. split; [right; exact Hf'|exact He].
Qed.

(* ================= layer B refines layer A (ascending) ================= *)

(* For EVERY list of well-formed files (blocks non-empty, strictly sorted and not overlapping
   within a file; ARBITRARY overlaps across files, any number of blocks), every tombstone set
   per file, int64 timestamps, and every seek time MinInt64 < t <= MaxInt64: the blocks the
   ascending KeyCursor returns, Read<T>Block after Next after Read<T>Block, concatenated, are
   exactly the layer-A read of the files from t on (files overlaid oldest -> newest, newest
   wins, tombstoned ranges removed): strictly ascending, every timestamp once. *)
Theorem keycursor_asc_refines_layerA_lemma fs t :
  Forall file_wf fs -> files_int64 fs -> min_int64 < t <= max_int64 ->
  kc_values fs t true = layerA_read fs t true.
Proof.
  intros Hwf Hi Ht. unfold kc_values, kc_blocks, layerA_read, read.
  change (fun b : list tv => if true then b else rev b) with (fun b : list tv => b). rewrite map_id.
  destruct (kc_stream_asc (S (total_values fs)) (new_cursor fs t true) (t - 1) eq_refl
              (initial_cur_inv fs t Hwf Hi Ht) (fuel_enough fs t true (t - 1))) as [Hs [_ Hl]].
  rewrite files_only_read_all.
  apply sorted_lookup_ext; [exact Hs|apply filter_ssorted; apply files_values_sorted|].
  intros t'. rewrite Hl, lookup_include_range.
  destruct (t - 1 <? t') eqn:E1.
  2:{ assert ((t <=? t') = false) as -> by lia. reflexivity. }
  assert ((t <=? t') = true) as -> by lia. cbn [andb].
  set (L := locations true t 0 fs).
  assert (HwfL : forall l, In l L -> loc_wf l).
  { intros l Hl'. destruct (locations_asc_In _ _ _ _ Hl') as [k [f [b [Hn [Hb ->]]]]].
    rewrite Forall_forall in Hwf. apply mk_asc_loc_wf. exact (proj2 (block_of_wf f b (Hwf f (nth_error_In _ _ Hn)) Hb)). }
  pose proof (sort_locations_perm_lemma true L (locations_by_file true t fs 0)) as Hperm.
  assert (Hlk : lookup_last t' (flat_map live (k_seeks (new_cursor fs t true))) = lookup_last t' (flat_map live L)).
  { unfold new_cursor, seek_cursor. cbn [k_seeks]. fold L. symmetry. apply lookup_perm; [exact Hperm| |].
    - apply wins_from_order; [exact HwfL|apply locations_same_file_one; exact Hwf|].
      apply (ordpairs_impl_in _ _ _ (locations_by_file true t fs 0)). intros a b _ _ Hab _. exact Hab.
    - apply wins_from_order.
      + intros l Hl'. apply HwfL. eapply Permutation_in; [apply Permutation_sym; exact Hperm|exact Hl'].
      + intros a b Ha Hb. apply (locations_same_file_one t' t fs Hwf); eapply Permutation_in; try (apply Permutation_sym; exact Hperm); assumption.
      + apply sort_locations_keeps_file_order_lemma. apply locations_by_file. }
  rewrite Hlk. unfold L. rewrite (locations_lookup t t' fs) by (try lia; exact Hwf).
  rewrite <- files_values_lookup.
  destruct (t' <=? max_int64) eqn:E2; [reflexivity|].
  (* beyond MaxInt64 there is nothing *)
  apply lookup_none_not_in. intros x Hx.
  assert (Hsub : forall y, In y (files_values (to_tsmfiles 0 fs) bkey) -> exists f b, In f fs /\ In b (bf_blocks f) /\ In y b).
  { clear. intros y Hy. destruct y as [ty vy].
    apply (in_sorted_lookup ty vy _ (files_values_sorted _ _)) in Hy. rewrite files_values_lookup in Hy.
    apply lookup_some_in in Hy. apply in_flat_map in Hy. destruct Hy as [tf [Htf Hy]].
    destruct (to_tsmfiles_In _ _ _ Htf) as [f [Hf [i' ->]]]. rewrite file_values_bfile in Hy. apply excl_tombs_In in Hy.
    apply in_concat in Hy. destruct Hy as [b [Hb Hyb]]. exists f, b. auto. }
  destruct (Hsub x Hx) as [f [b [Hf [Hb Hxb]]]]. specialize (Hi f b x Hf Hb Hxb). lia.
Qed.

(* ... and with the cache merged in: the ascending engine cursor returns the layer-A read of
   files and cache over [seek, end] *)
Theorem engine_cursor_asc_refines_layerA_lemma fs cv t fin :
  Forall file_wf fs -> files_int64 fs -> min_int64 < t <= max_int64 -> fin <= max_int64 ->
  cursor_read fs cv t fin true = layerA_cursor_read fs cv t fin true.
Proof.
  intros Hwf Hi Ht Hfin. apply cursor_refines_layerA_asc; [exact Hfin|].
  apply keycursor_asc_refines_layerA_lemma; assumption.
Qed.
