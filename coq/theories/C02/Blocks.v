(* C02/Blocks.v — "layer B": an executable model of how a read is actually produced from
   overlapping TSM files.  Definitions only (BlocksProofs.v has the theorems).

   Mirrors, statement for statement,
     tsdb/engine/tsm1/file_store.go      FileStore.locations, ascLocations/descLocations.Less,
                                         sortLocations, KeyCursor.seekAscending/seekDescending,
                                         Next, nextAscending/nextDescending, location.read/markRead
     tsdb/engine/tsm1/file_store.gen.go  KeyCursor.Read<T>Block (and file_store_array.gen.go
                                         Read<T>ArrayBlock, the same algorithm on arrays)
     tsdb/engine/tsm1/array_cursor.gen.go / iterator.gen.go  the cursor that merges the (already
                                         de-duplicated) cache values with the KeyCursor stream.

   A file (for the one key a cursor is about) is the list of its index entries = BLOCKS, each a
   non-empty strictly sorted list of values whose first/last timestamps are the entry's
   MinTime/MaxTime, plus the file's tombstone ranges for the key (TSMFile.TombstoneRange).
   Files are listed oldest -> newest, which is the order of FileStore.files (sorted by path
   "<generation>-<sequence>.tsm") and therefore also the order of TSMFile.Path() that the
   location sort compares.

   Pointers: the Go code shares *location between [seeks] and [current]; the model keeps the
   locations in the [seeks] list and [current] as a list of indices into it, so a markRead
   through either alias is seen by the other (nextDescending puts the same location into
   current twice).  All indices are in range by construction; [nth] needs a default, which is
   never reached (BlocksProofs.v never relies on it). *)
From Verif Require Export Shard.Store C02.Spec C02.Fast.
Open Scope Z_scope.

(* ---------- int64 arithmetic of FileStore.locations (t-1 / t+1 wrap around) ---------- *)

Definition wrap64 (z : Z) : Z := (z + 9223372036854775808) mod 18446744073709551616 - 9223372036854775808.

(* ---------- files as blocks ---------- *)

Definition block := list tv.                       (* decoded values of one index entry *)
Record bfile := mkbf { bf_blocks : list block; bf_tombs : list (Z * Z) }.

Definition vmin (vs : list tv) : Z := match vs with [] => 0 | x :: _ => fst x end.     (* Values.MinTime *)
Definition vmax (vs : list tv) : Z := fst (last vs (0, VInt 0)).                        (* Values.MaxTime *)

Record loc := mkloc {
  l_file : nat;                  (* position of the file in FileStore.files = order of r.Path() *)
  l_min : Z; l_max : Z;          (* entry.MinTime / entry.MaxTime *)
  l_vals : block;                (* what Read<T>BlockAt decodes *)
  l_tombs : list (Z * Z);        (* r.TombstoneRange(key) *)
  l_rmin : Z; l_rmax : Z         (* readMin / readMax *)
}.

Definition dummy_loc : loc := mkloc 0 0 0 [] [] 0 0.

(* location.read / location.markRead *)
Definition loc_is_read (l : loc) : bool := (l_rmin l <=? l_min l) && (l_max l <=? l_rmax l).
Definition mark_read (mn mx : Z) (l : loc) : loc :=
  mkloc (l_file l) (l_min l) (l_max l) (l_vals l) (l_tombs l)
        (if mn <? l_rmin l then mn else l_rmin l) (if l_rmax l <? mx then mx else l_rmax l).

(* IndexEntry.OverlapsTimeRange(min,max) / Contains(t) *)
Definition overlaps_range (l : loc) (mn mx : Z) : bool := (l_min l <=? mx) && (mn <=? l_max l).
Definition contains (l : loc) (t : Z) : bool := (l_min l <=? t) && (t <=? l_max l).

(* Values.Exclude / Values.Include (inclusive bounds) and excludeTombstones<T>Values *)
Definition excl (lo hi : Z) (vs : list tv) : list tv := exclude_range lo hi vs.
Definition incl (lo hi : Z) (vs : list tv) : list tv := include_range lo hi vs.
Definition excl_tombs (tombs : list (Z * Z)) (vs : list tv) : list tv :=
  fold_left (fun acc tb => excl (fst tb) (snd tb) acc) tombs vs.

(* ---------- FileStore.locations ---------- *)

Definition covered (tombs : list (Z * Z)) (mn mx : Z) : bool :=
  existsb (fun tb => (fst tb <=? mn) && (mx <=? snd tb)) tombs.

Definition block_loc (asc : bool) (t : Z) (fi : nat) (tombs : list (Z * Z)) (b : block) : list loc :=
  if covered tombs (vmin b) (vmax b) then []
  else if asc && (vmax b <? t) then []
  else if negb asc && (t <? vmin b) then []
  else [mkloc fi (vmin b) (vmax b) b tombs
              (if asc then min_int64 else wrap64 (t + 1))
              (if asc then wrap64 (t - 1) else max_int64)].

(* the file-level skip (maxTime < t / minTime > t on TSMFile.TimeRange) is implied by the
   per-block skip and not repeated *)
Fixpoint locations (asc : bool) (t : Z) (fi : nat) (fs : list bfile) : list loc :=
  match fs with
  | [] => []
  | f :: r => flat_map (block_loc asc t fi (bf_tombs f)) (bf_blocks f) ++ locations asc t (S fi) r
  end.

(* ---------- ascLocations/descLocations.Less and sortLocations (insertion sort) ---------- *)

Definition loc_less (asc : bool) (a b : loc) : bool :=
  if overlaps_range a (l_min b) (l_max b) then (l_file a <? l_file b)%nat
  else if asc then l_min a <? l_min b else l_max a <? l_max b.

(* the already sorted prefix is kept REVERSED (head = element j-1): x travels towards the
   front while it compares less than its left neighbour *)
Fixpoint ins_loc (asc : bool) (x : loc) (rprefix : list loc) : list loc :=
  match rprefix with
  | [] => [x]
  | y :: r => if loc_less asc x y then y :: ins_loc asc x r else x :: rprefix
  end.

Definition sort_locations (asc : bool) (l : list loc) : list loc :=
  rev (fold_left (fun rp x => ins_loc asc x rp) l []).

(* ---------- the cursor ---------- *)

Record kcursor := mkkc {
  k_seeks : list loc;
  k_cur : list nat;       (* current: indices into seeks *)
  k_pos : nat;
  k_asc : bool
}.

Definition seek_ok (asc : bool) (t : Z) (l : loc) : bool :=
  if asc then (t <? l_min l) || contains l t else (l_max l <? t) || contains l t.

Fixpoint idx_filter (p : loc -> bool) (i : nat) (l : list loc) : list nat :=
  match l with
  | [] => []
  | x :: r => if p x then i :: idx_filter p (S i) r else idx_filter p (S i) r
  end.

(* seekAscending: current = matching locations in seeks order, pos = the first of them;
   seekDescending: the same walking from the end *)
Definition seek_cursor (asc : bool) (t : Z) (seeks : list loc) : kcursor :=
  let m := idx_filter (seek_ok asc t) 0 seeks in
  let cur := if asc then m else rev m in
  mkkc seeks cur (hd 0%nat cur) asc.

(* newKeyCursor *)
Definition new_cursor (fs : list bfile) (t : Z) (asc : bool) : kcursor :=
  seek_cursor asc t (sort_locations asc (locations asc t 0 fs)).

Definition get (seeks : list loc) (i : nat) : loc := nth i seeks dummy_loc.
Fixpoint upd (i : nat) (f : loc -> loc) (l : list loc) : list loc :=
  match l, i with
  | [], _ => []
  | x :: r, O => f x :: r
  | x :: r, S i' => x :: upd i' f r
  end.

(* what a location still has to give: decoded values minus read range minus tombstones *)
Definition first_values (l : loc) : list tv := excl_tombs (l_tombs l) (excl (l_rmin l) (l_rmax l) (l_vals l)).
Definition cur_values (l : loc) : list tv := excl (l_rmin l) (l_rmax l) (excl_tombs (l_tombs l) (l_vals l)).

(* the three loops over current[1:] of Read<T>Block *)
Definition widen (asc : bool) (seeks : list loc) (rest : list nat) (mn mx : Z) : Z * Z :=
  fold_left (fun w i => let c := get seeks i in
                        if asc then (if (l_min c <? fst w) && negb (loc_is_read c) then (l_min c, snd w) else w)
                        else (if (snd w <? l_max c) && negb (loc_is_read c) then (fst w, l_max c) else w))
            rest (mn, mx).

Fixpoint first_overlap (asc : bool) (seeks : list loc) (rest : list nat) (mn mx : Z) : Z * Z :=
  match rest with
  | [] => (mn, mx)
  | i :: r => let c := get seeks i in
              if overlaps_range c mn mx && negb (loc_is_read c)
              then (if asc then (mn, if mx <? l_max c then l_max c else mx)
                    else (if l_min c <? mn then l_min c else mn, mx))
              else first_overlap asc seeks r mn mx
  end.

Fixpoint merge_rest (asc : bool) (mn mx : Z) (rest : list nat) (values : list tv) (seeks : list loc)
  : list tv * list loc :=
  match rest with
  | [] => (values, seeks)
  | i :: r =>
      let c := get seeks i in
      if negb (overlaps_range c mn mx) || loc_is_read c
      then merge_rest asc mn mx r values (upd i (mark_read mn mx) seeks)
      else let v := cur_values c in
           let values' := match v with
                          | [] => values
                          | _ => if asc then merge2 values (incl mn mx v) else merge2 (incl mn mx v) values
                          end in
           merge_rest asc mn mx r values' (upd i (mark_read mn mx) seeks)
  end.

(* KeyCursor.Read<T>Block: returns the block and the cursor state it leaves *)
Fixpoint read_block (asc : bool) (seeks : list loc) (cur : list nat) : list tv * list loc * list nat :=
  match cur with
  | [] => ([], seeks, [])
  | fi :: rest =>
      let first := get seeks fi in
      let values := first_values first in
      match values with
      | [] => read_block asc seeks rest                      (* c.current = c.current[1:]; goto LOOP *)
      | _ :: _ =>
          match rest with
          | [] => (values, upd fi (mark_read (vmin values) (vmax values)) seeks, cur)
          | _ :: _ =>
              let '(mn1, mx1) := widen asc seeks rest (vmin values) (vmax values) in
              let '(mn, mx) := first_overlap asc seeks rest mn1 mx1 in
              let values1 := incl mn mx values in    (* executed only when an overlapping block exists; a no-op otherwise *)
              let '(vals, seeks') := merge_rest asc mn mx rest values1 seeks in
              (vals, upd fi (mark_read mn mx) seeks', cur)
          end
      end
  end.

(* nextAscending / nextDescending *)
Fixpoint find_unread (i : nat) (l : list loc) : option nat :=        (* first unread at index >= i of (skipn i seeks) *)
  match l with
  | [] => None
  | x :: r => if loc_is_read x then find_unread (S i) r else Some i
  end.

Definition unread_idx (i0 : nat) (l : list loc) : list nat := idx_filter (fun x => negb (loc_is_read x)) i0 l.

Definition next_asc (seeks : list loc) (pos : nat) : list nat * nat :=
  match find_unread (S pos) (skipn (S pos) seeks) with
  | None => ([], length seeks)
  | Some p => (p :: unread_idx (S p) (skipn (S p) seeks), p)
  end.

(* pos--: candidates pos-1, pos-2, ..., 0; then current = seeks[p] followed by every unread
   location from p DOWN TO 0 — p itself included a second time, as in the code *)
Fixpoint find_unread_down (n : nat) (seeks : list loc) : option nat :=    (* first unread among indices n-1 .. 0 *)
  match n with
  | O => None
  | S m => if loc_is_read (get seeks m) then find_unread_down m seeks else Some m
  end.

Definition next_desc (seeks : list loc) (pos : nat) : list nat * nat :=
  match find_unread_down pos seeks with
  | None => ([], 0%nat)
  | Some p => (p :: rev (unread_idx 0 (firstn (S p) seeks)), p)
  end.

(* KeyCursor.Next *)
Definition kc_next (c : kcursor) : kcursor :=
  match k_cur c with
  | [] => c
  | i :: _ =>
      if negb (loc_is_read (get (k_seeks c) i)) then c
      else let '(cur, pos) := if k_asc c then next_asc (k_seeks c) (k_pos c) else next_desc (k_seeks c) (k_pos c) in
           mkkc (k_seeks c) cur pos (k_asc c)
  end.

Definition kc_read (c : kcursor) : list tv * kcursor :=
  let '(vals, seeks, cur) := read_block (k_asc c) (k_seeks c) (k_cur c) in
  (vals, mkkc seeks cur (k_pos c) (k_asc c)).

(* the consumer loop of every cursor: ReadBlock; while the block is not empty { use it; Next; ReadBlock } *)
Fixpoint kc_stream (fuel : nat) (c : kcursor) : list (list tv) :=
  match fuel with
  | O => []
  | S f => let '(vals, c1) := kc_read c in
           match vals with
           | [] => []
           | _ :: _ => vals :: kc_stream f (kc_next c1)
           end
  end.

Definition total_values (fs : list bfile) : nat := length (concat (flat_map bf_blocks fs)).

(* every non-empty block returns at least one value that is never returned again, so
   [total_values + 1] calls suffice (BlocksProofs.v; the harness records an overrun) *)
Definition kc_blocks (fs : list bfile) (t : Z) (asc : bool) : list (list tv) :=
  kc_stream (S (total_values fs)) (new_cursor fs t asc).

(* what a consumer sees: ascending cursors walk each block forwards, descending ones backwards *)
Definition kc_values (fs : list bfile) (t : Z) (asc : bool) : list tv :=
  concat (map (fun b => if asc then b else rev b) (kc_blocks fs t asc)).

(* ---------- layer A view of the same files ---------- *)

Definition bkey : key := [107%N].
Definition to_tsmfile (i : nat) (f : bfile) : tsmfile :=
  {| f_gen := N.of_nat i; f_seq := 0%N; f_data := [(bkey, concat (bf_blocks f))];
     f_tombs := map (fun tb => (bkey, tb)) (bf_tombs f) |}.
Fixpoint to_tsmfiles (i : nat) (fs : list bfile) : list tsmfile :=
  match fs with [] => [] | f :: r => to_tsmfile i f :: to_tsmfiles (S i) r end.
Definition empty_cache : cache := {| c_snap := []; c_hot := [] |}.

(* the layer-A read the KeyCursor stream must equal: everything at or after the seek time
   (ascending) / at or before it (descending) *)
Definition layerA_read (fs : list bfile) (t : Z) (asc : bool) : list tv :=
  if asc then read (to_tsmfiles 0 fs) empty_cache bkey t max_int64 true
  else read (to_tsmfiles 0 fs) empty_cache bkey min_int64 t false.

(* well-formed file: blocks non-empty and strictly sorted, consecutive blocks strictly
   increasing (no overlap within a file); overlaps ACROSS files are arbitrary *)
Definition file_wf (f : bfile) : Prop :=
  Forall (fun b => b <> []) (bf_blocks f) /\ ssorted (concat (bf_blocks f)).
Definition file_wfb (f : bfile) : bool :=
  forallb (fun b => match b with [] => false | _ => true end) (bf_blocks f) && ssortedb (concat (bf_blocks f)).

(* ---------- the cursor above: cache values merged with the TSM stream ---------- *)

(* ascending Next() of array_cursor.gen.go / iterator.gen.go nextAt: both inputs ascending;
   equal timestamps: the cache value is taken and both advance *)
Fixpoint cmerge_asc (cache : list tv) : list tv -> list tv :=
  fix aux (tsm : list tv) : list tv :=
    match cache, tsm with
    | [], _ => tsm
    | _, [] => cache
    | c :: cache', x :: tsm' =>
        if fst c =? fst x then c :: cmerge_asc cache' tsm'
        else if fst c <? fst x then c :: cmerge_asc cache' tsm
        else x :: aux tsm'
    end.

(* descending: both inputs descending *)
Fixpoint cmerge_desc (cache : list tv) : list tv -> list tv :=
  fix aux (tsm : list tv) : list tv :=
    match cache, tsm with
    | [], _ => tsm
    | _, [] => cache
    | c :: cache', x :: tsm' =>
        if fst c =? fst x then c :: cmerge_desc cache' tsm'
        else if fst x <? fst c then c :: cmerge_desc cache' tsm
        else x :: aux tsm'
    end.

(* the engine cursor: cache.Values (snapshot ++ hot, de-duplicated) positioned at the seek
   time, merged with the KeyCursor stream, cut at the end time *)
Definition cursor_read (fs : list bfile) (cachevals : list tv) (seek fin : Z) (asc : bool) : list tv :=
  let cv := dedup cachevals in
  if asc then filter (fun x => fst x <=? fin) (cmerge_asc (filter (fun x => seek <=? fst x) cv) (kc_values fs seek true))
  else filter (fun x => fin <=? fst x) (cmerge_desc (rev (filter (fun x => fst x <=? seek) cv)) (kc_values fs seek false)).

(* layer A + cache: the read the engine cursor must produce *)
Definition layerA_cursor_read (fs : list bfile) (cachevals : list tv) (t fin : Z) (asc : bool) : list tv :=
  let c := {| c_snap := []; c_hot := [(bkey, cachevals)] |} in
  if asc then read (to_tsmfiles 0 fs) c bkey t fin true else read (to_tsmfiles 0 fs) c bkey fin t false.
