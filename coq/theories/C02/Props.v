(* C02/Props.v — property theorems only; each closed by [exact] of a lemma of Proofs.v /
   SpecProofs.v / FastProofs.v and followed by Print Assumptions. *)
From Verif Require Import Shard.Store C02.Spec C02.Model C02.Fast C02.KV C02.SpecProofs C02.FastProofs C02.Proofs.
From Verif Require Import C02.Blocks C02.BlocksProofs C02.BlocksRefine C02.BlocksLayerA C02.BlocksRefineDesc C02.BlocksLayerADesc.
From Coq Require Import Permutation.
From VerifGen Require Import Consts.
Open Scope Z_scope.

(* the constants and code shapes the model is written against, re-read from the source on
   every run (tools/genconsts/c02.go): value type codes = TSM block types, the timestamp
   range of models.NewPoint = the influxql.MinTime/MaxTime the delete widens, and the
   branches of entry.add / Cache.DeleteRange / deleteSeriesRange / NewEngine /
   createFieldsAndMeasurements that Model.v mirrors *)
Example model_constants_match_source :
  (vtype (VFloat 0) = c02_block_float /\ vtype (VInt 0) = c02_block_integer /\ vtype (VBool true) = c02_block_boolean /\
   vtype (VStr []) = c02_block_string /\ vtype (VUint 0) = c02_block_unsigned) /\
  (influxql_min_time = c02_min_nano_time /\ influxql_max_time = c02_max_nano_time) /\
  (c02_entry_add_checks_only_nonzero_vtype && c02_cache_delete_hot_only && c02_cache_delete_full_range_removes_key &&
   c02_delete_widens_min_max_time && c02_series_type_check_behind_env_flag && c02_fields_saved_on_create_error = true).
Proof. repeat split; reflexivity. Qed.

(* C02, first sentence.  For EVERY history of steps (writes of any points with int64
   timestamps, snapshots — atomic or begun/committed separately —, compactions of any
   contiguous file group, range deletes of any series set with any set of emptied
   measurements dropped, reopen; with an inmem or a tsi1 index) in which no delete runs
   while a cache snapshot is in flight, the run is defined and every read of every
   (measurement, tags, field) over every range in either direction returns exactly the
   last-write-wins read of the acknowledged history: one point per timestamp, the latest
   acknowledged value, sorted in the requested direction ([is_read] of Shard/Spec.v). *)
Theorem read_refines_lww :
  forall (tsi : bool) (steps : list step),
  hist_ok false steps = true -> forallb step_int64 steps = true ->
  exists st h, run (init tsi) [] steps = Some (st, h) /\
    forall m tags f lo hi asc,
      shard_read st m tags f lo hi asc = RVals (spec_read h (mkkey m tags f) lo hi asc) /\
      is_read h (mkkey m tags f) lo hi asc (spec_read h (mkkey m tags f) lo hi asc).
Proof. exact read_refines_lww_all. Qed.
Print Assumptions read_refines_lww.

(* the refinement invariant is inductive: usable from any reachable state, for any continuation *)
Theorem read_refines_lww_from :
  forall steps st h, Inv st h -> hist_ok (s_snapping st) steps = true -> forallb step_int64 steps = true ->
  exists st' h', run st h steps = Some (st', h') /\ Inv st' h' /\
    forall m tags f lo hi asc,
      shard_read st' m tags f lo hi asc = RVals (spec_read h' (mkkey m tags f) lo hi asc).
Proof.
  intros steps st h HI Hok Hr. destruct (run_inv steps st h HI Hok Hr) as [st' [h' [E HI']]].
  exists st', h'. split; [exact E|]. split; [exact HI'|]. intros. apply read_correct. exact HI'.
Qed.
Print Assumptions read_refines_lww_from.

(* the excluded schedule is a real counterexample of the model (it mirrors the code: the
   delete does not reach the snapshot being flushed) — the finding recorded for C10 *)
Theorem delete_during_snapshot_refuted :
  exists steps st h, hist_ok false steps = false /\ run (init false) [] steps = Some (st, h) /\
    shard_read st [109%N] [] [102%N] 0 10 true <> RVals (spec_read h (mkkey [109%N] [] [102%N]) 0 10 true).
Proof.
  exists [SWrite [mkpt [109%N] [] 5 [([102%N], VInt 1)]]; SSnapBegin; SDelete [([109%N], [])] 0 10 []; SSnapCommit].
  eexists _, _. split; [reflexivity|]. split; [vm_compute; reflexivity|]. vm_compute. discriminate.
Qed.
Print Assumptions delete_during_snapshot_refuted.

(* C02, second sentence.  In any reachable state: a batch containing a point whose field
   type conflicts with the type the field already has is answered Partial n, n = number of
   such points (>= 1); afterwards every read is the LWW read of the old history extended by
   the OTHER points only — the conflicting points leave stored data unchanged and do not
   prevent the others from being stored.  (Hypothesis 3 keeps batches whose NEW fields
   disagree among themselves outside the statement: the code refuses those as a whole.) *)
Theorem type_conflict_partial :
  forall st h pts, Inv st h -> forallb point_int64 pts = true ->
  let good := filter (point_ok (s_tab st)) pts in
  snd (create_fields (flat_map (point_creates (s_tab st)) good) (s_tab st)) = true ->
  (exists p, In p pts /\ point_ok (s_tab st) p = false) ->
  snd (write st pts) = WPartial (length pts - length good) /\ (0 < length pts - length good)%nat /\
  forall m tags f lo hi asc,
    shard_read (fst (write st pts)) m tags f lo hi asc =
    RVals (spec_read (h ++ [OWrite (flat_map point_kvs good)]) (mkkey m tags f) lo hi asc).
Proof. exact type_conflict_partial_lemma. Qed.
Print Assumptions type_conflict_partial.

(* ... a field never holds values of two types: after every history all values stored under
   the keys of one (measurement, field), in any series, any file, the snapshot or the hot
   cache, carry the one type recorded for the field *)
Theorem field_single_type :
  forall (tsi : bool) (steps : list step),
  hist_ok false steps = true -> forallb step_int64 steps = true ->
  exists st h, run (init tsi) [] steps = Some (st, h) /\
    (forall k x, In x (live_values (s_files st) (s_cache st) k) ->
                 ft_get (key_mf k) (s_tab st) = Some (vtype (snd x))) /\
    (forall k1 k2 x1 x2, key_mf k1 = key_mf k2 ->
                 In x1 (live_values (s_files st) (s_cache st) k1) ->
                 In x2 (live_values (s_files st) (s_cache st) k2) -> vtype (snd x1) = vtype (snd x2)).
Proof. exact field_single_type_all. Qed.
Print Assumptions field_single_type.

(* ... and re-writing identical points changes nothing: same answer, no read changes *)
Theorem rewrite_idempotent :
  forall st h pts, Inv st h -> forallb point_int64 pts = true ->
  let good := filter (point_ok (s_tab st)) pts in
  snd (create_fields (flat_map (point_creates (s_tab st)) good) (s_tab st)) = true ->
  let st1 := fst (write st pts) in
  snd (write st1 pts) = snd (write st pts) /\
  forall m tags f lo hi asc,
    shard_read (fst (write st1 pts)) m tags f lo hi asc = shard_read st1 m tags f lo hi asc.
Proof. exact rewrite_idempotent_lemma. Qed.
Print Assumptions rewrite_idempotent.

(* the typed cursors never meet a value of another type: no read of a reachable state errs *)
Theorem read_never_errs :
  forall st h m tags f lo hi asc, Inv st h -> shard_read st m tags f lo hi asc <> RErr.
Proof. intros st h m tags f lo hi asc HI. rewrite (read_correct st h m tags f lo hi asc HI). discriminate. Qed.
Print Assumptions read_never_errs.

(* ---- link to the executable spec evaluated on every case (Run.v) ---- *)

(* [spec_write], the rule Run.v applies to the implementation's answer, is satisfied by the
   model's answer for ALL reachable states and batches, and acknowledges what the model stores *)
Theorem spec_ok_write :
  forall st h pts, Inv st h -> forallb point_int64 pts = true ->
  spec_write (s_tab st) pts (snd (write st pts)) = Some (write_acked st pts).
Proof. exact model_write_spec. Qed.
Print Assumptions spec_ok_write.

(* the read checks of Run.v (equality with the spec read of the acknowledged history; every
   value of the recorded type) hold for the model's reads in ALL reachable states *)
Theorem spec_ok_read :
  forall st h m tags f lo hi asc, Inv st h ->
  exists l, shard_read st m tags f lo hi asc = RVals l /\
            l = spec_read_fast h (mkkey m tags f) lo hi asc /\
            forall x, In x l -> ft_get (m, f) (s_tab st) = Some (vtype (snd x)).
Proof. exact model_read_spec. Qed.
Print Assumptions spec_ok_read.

(* the forms of the spec and of the model read that Run.v evaluates are the definitions *)
Theorem run_evaluates_the_spec :
  forall h k lo hi asc, spec_read_fast2 h k lo hi asc = spec_read h k lo hi asc.
Proof. exact spec_read_fast2_eq. Qed.
Print Assumptions run_evaluates_the_spec.

Theorem run_evaluates_the_model :
  forall st m tags f lo hi asc, shard_read_fast st m tags f lo hi asc = shard_read st m tags f lo hi asc.
Proof. exact shard_read_fast_eq. Qed.
Print Assumptions run_evaluates_the_model.

(* ---- non-vacuity ---- *)

Definition ex_steps : list step :=
  [ SWrite [mkpt [109%N] [44%N] 1 [([102%N], VInt 1)]; mkpt [109%N] [44%N] 2 [([102%N], VInt 2)]];
    SSnapshot;
    SWrite [mkpt [109%N] [44%N] 2 [([102%N], VInt 20)]; mkpt [109%N] [44%N] 3 [([102%N], VFloat 7)]];   (* second point conflicts *)
    SSnapBegin;
    SWrite [mkpt [109%N] [44%N] 1 [([102%N], VInt 10)]];
    SSnapCommit;
    SCompact 0 2;
    SDelete [([109%N], [44%N])] 3 influxql_max_time [];
    SReopen ].

(* the hypotheses of read_refines_lww hold for a history with an overwrite in a newer file,
   a type conflict, an in-flight snapshot, a compaction, a delete and a reopen; and the
   resulting read is not empty *)
Example read_refines_lww_nonvacuous :
  hist_ok false ex_steps = true /\ forallb step_int64 ex_steps = true /\
  match run (init true) [] ex_steps with
  | Some (st, h) => shard_read st [109%N] [44%N] [102%N] min_int64 max_int64 false =
                    RVals [(2, VInt 20); (1, VInt 10)]
  | None => False
  end.
Proof. vm_compute. auto. Qed.

(* type_conflict_partial: its hypotheses are satisfiable and the conclusion is the Partial 1 *)
Example type_conflict_partial_nonvacuous :
  let st := fst (write (init false) [mkpt [109%N] [] 1 [([102%N], VInt 1)]]) in
  let pts := [mkpt [109%N] [] 2 [([102%N], VFloat 3)]; mkpt [109%N] [97%N] 2 [([102%N], VInt 4)]] in
  snd (create_fields (flat_map (point_creates (s_tab st)) (filter (point_ok (s_tab st)) pts)) (s_tab st)) = true /\
  point_ok (s_tab st) (mkpt [109%N] [] 2 [([102%N], VFloat 3)]) = false /\
  snd (write st pts) = WPartial 1 /\
  shard_read (fst (write st pts)) [109%N] [97%N] [102%N] 0 9 true = RVals [(2, VInt 4)] /\
  shard_read (fst (write st pts)) [109%N] [] [102%N] 0 9 true = RVals [(1, VInt 1)].
Proof. vm_compute. auto 6. Qed.

(* ================= layer B: blocks, KeyCursor, cache/TSM cursor (Blocks.v) ================= *)

(* the code shapes Blocks.v mirrors, re-read from file_store.go / file_store.gen.go on every
   run: insertion sort of the locations, readMax = t-1 / readMin = t+1 and the skip of wholly
   tombstoned blocks in FileStore.locations, the loop bounds of nextAscending/nextDescending
   (the latter starts AT pos: the first location is in current twice), the merge order and
   the current[1:] / markRead steps of Read<T>Block *)
Example layerB_shapes_match_source :
  c02_keycursor_insertion_sort && c02_locations_read_marks && c02_next_desc_doubles_first && c02_readblock_merge_order = true.
Proof. reflexivity. Qed.

(* C02 "no matter how the data is split between ... any number of overlapping data files":
   For EVERY list of files, oldest -> newest, each a list of BLOCKS (non-empty, strictly
   sorted, not overlapping within a file; ARBITRARY overlaps across files, any number of
   block locations) with any tombstone ranges, int64 timestamps, and EVERY seek time
   MinInt64 < t <= MaxInt64: the blocks the ascending KeyCursor returns — FileStore.locations,
   sortLocations, seekAscending, then Read<T>Block / Next / Read<T>Block ... with their read
   marks, until an empty block — concatenated, are exactly the layer-A read of the files from
   t on (files overlaid oldest -> newest, newest file wins, tombstoned ranges removed;
   Shard/Store.v [read], the read that read_refines_lww is about): strictly ascending, each
   timestamp once, nothing lost, nothing returned twice.  The fuel of the model's loop is
   proved sufficient inside. *)
Theorem keycursor_asc_refines_layerA :
  forall (fs : list bfile) (t : Z),
  Forall file_wf fs -> files_int64 fs -> min_int64 < t <= max_int64 ->
  kc_values fs t true = layerA_read fs t true.
Proof. exact keycursor_asc_refines_layerA_lemma. Qed.
Print Assumptions keycursor_asc_refines_layerA.

(* ... and the DESCENDING KeyCursor (seekDescending, nextDescending with its doubled first
   location, the mirrored merge in which the earlier location of current wins), for every
   seek time MinInt64 <= t < MaxInt64: the returned blocks, each walked backwards as the
   cursors do, concatenated, are the layer-A read from t downwards, strictly descending. *)
Theorem keycursor_desc_refines_layerA :
  forall (fs : list bfile) (t : Z),
  Forall file_wf fs -> files_int64 fs -> min_int64 <= t < max_int64 ->
  kc_values fs t false = layerA_read fs t false.
Proof. exact keycursor_desc_refines_layerA_lemma. Qed.
Print Assumptions keycursor_desc_refines_layerA.

(* LAYER B REFINES LAYER A, both directions: for EVERY set of well-formed files, every
   tombstone set, every seek time (inside the int64 range minus the one end at which
   FileStore.locations' t-1 / t+1 wraps) and both directions. *)
Theorem keycursor_refines_layerA :
  forall (fs : list bfile) (t : Z) (asc : bool),
  Forall file_wf fs -> files_int64 fs ->
  (if asc then min_int64 < t <= max_int64 else min_int64 <= t < max_int64) ->
  kc_values fs t asc = layerA_read fs t asc.
Proof.
  intros fs t [|] Hwf Hi Ht; [apply keycursor_asc_refines_layerA_lemma; assumption|apply keycursor_desc_refines_layerA_lemma; assumption].
Qed.
Print Assumptions keycursor_refines_layerA.

(* the link to the executable spec of Run.v for the layer-B cases: the model's blocks satisfy
   the check applied to the implementation's blocks (concatenation in the cursor's direction =
   layer-A read) for ALL well-formed inputs in the seek domain *)
Theorem spec_ok_blocks :
  forall (fs : list bfile) (t : Z) (asc : bool),
  Forall file_wf fs -> files_int64 fs ->
  (if asc then min_int64 < t <= max_int64 else min_int64 <= t < max_int64) ->
  concat (map (fun b => if asc then b else rev b) (kc_blocks fs t asc)) = layerA_read fs t asc /\
  Forall (fun b : list tv => b <> []) (kc_blocks fs t asc).
Proof. intros fs t asc Hwf Hi Ht. split; [exact (keycursor_refines_layerA fs t asc Hwf Hi Ht)|apply kc_stream_nonempty]. Qed.
Print Assumptions spec_ok_blocks.

(* The seek time excluded above is a real property of the model, which mirrors the code:
   FileStore.locations computes readMax = t-1 in int64; at t = MinInt64 it wraps to MaxInt64,
   every location counts as read and an ascending cursor returns nothing.  The query API never
   seeks there (influxql.MinTime = MinInt64+2); the harness replays this on the real KeyCursor. *)
Theorem keycursor_seek_minint64_refuted :
  exists fs, Forall file_wf fs /\ files_int64 fs /\
             kc_values fs min_int64 true = [] /\ layerA_read fs min_int64 true <> [].
Proof.
  exists [mkbf [[(5, VInt 1)]] []]. split; [repeat constructor; cbn; auto; discriminate|].
  split; [intros f b x [<-|[]] [<-|[]] [<-|[]]; cbn; unfold min_int64, max_int64; lia|].
  split; [vm_compute; reflexivity|vm_compute; discriminate].
Qed.
Print Assumptions keycursor_seek_minint64_refuted.

(* the invariant the block merge ("a later location wins") rests on, for EVERY list of
   locations delivered file by file, any number of them, either direction: sortLocations
   returns a permutation in which any two OVERLAPPING blocks are in file order.  (Defect
   7659585: sort.Sort with the same non-transitive Less broke this beyond 12 locations.) *)
Theorem sort_locations_keeps_file_order :
  forall (asc : bool) (l : list loc), ordpairs by_file l ->
  Permutation l (sort_locations asc l) /\ ordpairs file_order (sort_locations asc l).
Proof. intros asc l H. split; [exact (sort_locations_perm_lemma asc l H)|exact (sort_locations_keeps_file_order_lemma asc l H)]. Qed.
Print Assumptions sort_locations_keeps_file_order.

Theorem cursor_seeks_file_order :
  forall fs t asc, ordpairs file_order (k_seeks (new_cursor fs t asc)).
Proof. exact cursor_seeks_file_order_lemma. Qed.
Print Assumptions cursor_seeks_file_order.

(* the cursor above the KeyCursor ("cache values overlaid on file values", tie: cache wins):
   for EVERY pair of sorted duplicate-free lists the ascending merge of array_cursor.gen.go /
   iterator.gen.go is the newest-wins merge with the cache as the newer side, and the
   descending merge of the reversed lists is its reverse *)
Theorem cache_tsm_merge_is_newest_wins :
  (forall cache tsm, cmerge_asc cache tsm = merge2 tsm cache) /\
  (forall cache tsm, ssorted cache -> ssorted tsm -> cmerge_desc (rev cache) (rev tsm) = rev (merge2 tsm cache)).
Proof. split; [exact cmerge_asc_is_merge2_lemma|exact cmerge_desc_is_rev_merge2_lemma]. Qed.
Print Assumptions cache_tsm_merge_is_newest_wins.

(* ... so that, for EVERY set of files, cache content (arrival order, duplicates allowed),
   seek and end time: whenever the KeyCursor stream is the layer-A file read (proved above),
   the engine cursor returns the
   layer-A read of files AND cache over the range, in the requested direction *)
Theorem engine_cursor_refines_layerA :
  forall (fs : list bfile) (cv : list tv) (t fin : Z) (asc : bool),
  (if asc then fin <= max_int64 else min_int64 <= fin) ->
  kc_values fs t asc = layerA_read fs t asc ->
  cursor_read fs cv t fin asc = layerA_cursor_read fs cv t fin asc.
Proof.
  intros fs cv t fin [|] Hfin Hkc; [apply cursor_refines_layerA_asc; assumption|apply cursor_refines_layerA_desc; assumption].
Qed.
Print Assumptions engine_cursor_refines_layerA.

(* unconditionally, both directions: the engine cursor over files and cache equals the
   layer-A read (files oldest -> newest, snapshot/hot cache on top) over the range *)
Theorem engine_cursor_reads_layerA :
  forall (fs : list bfile) (cv : list tv) (t fin : Z) (asc : bool),
  Forall file_wf fs -> files_int64 fs ->
  (if asc then min_int64 < t <= max_int64 /\ fin <= max_int64 else min_int64 <= t < max_int64 /\ min_int64 <= fin) ->
  cursor_read fs cv t fin asc = layerA_cursor_read fs cv t fin asc.
Proof.
  intros fs cv t fin [|] Hwf Hi [Ht Hfin];
    [apply engine_cursor_asc_refines_layerA_lemma; assumption|apply engine_cursor_desc_refines_layerA_lemma; assumption].
Qed.
Print Assumptions engine_cursor_reads_layerA.

(* ---- non-vacuity (layer B) ---- *)

(* three generations whose blocks overlap pairwise (> 12 locations), a value overwritten in a
   newer file, a partially tombstoned block: the hypotheses hold, the cursor returns several
   blocks, the newest value wins and the tombstoned points are gone *)
Definition ex_bfiles : list bfile :=
  [ mkbf [[(0, VInt 10); (1, VInt 11)]; [(2, VInt 12); (3, VInt 13)]; [(4, VInt 14); (5, VInt 15)]; [(6, VInt 16); (7, VInt 17)];
          [(8, VInt 18); (9, VInt 19)]] [];
    mkbf [[(1, VInt 21); (2, VInt 22)]; [(3, VInt 23); (4, VInt 24)]; [(5, VInt 25); (6, VInt 26)]; [(7, VInt 27); (8, VInt 28)]] [(4, 6)];
    mkbf [[(1, VInt 31); (3, VInt 33)]; [(5, VInt 35); (7, VInt 37)]; [(9, VInt 39); (11, VInt 41)]; [(13, VInt 43)]; [(15, VInt 45)]] [] ].

Example keycursor_asc_refines_layerA_nonvacuous :
  forallb file_wfb ex_bfiles = true /\ files_int64 ex_bfiles /\
  (13 <= length (k_seeks (new_cursor ex_bfiles 1 true)))%nat /\
  (2 <= length (kc_blocks ex_bfiles 1 true))%nat /\
  kc_values ex_bfiles 1 true =
    [(1, VInt 31); (2, VInt 22); (3, VInt 33); (4, VInt 14); (5, VInt 35); (6, VInt 16); (7, VInt 37); (8, VInt 28);
     (9, VInt 39); (11, VInt 41); (13, VInt 43); (15, VInt 45)].
Proof.
  split; [vm_compute; reflexivity|]. split; [|vm_compute; repeat split; try lia; reflexivity].
  intros f b x Hf Hb Hx. unfold ex_bfiles in Hf. cbn in Hf.
  repeat (destruct Hf as [<-|Hf]; [cbn in Hb; repeat (destruct Hb as [<-|Hb]; [cbn in Hx; repeat (destruct Hx as [<-|Hx]; [cbn; unfold min_int64, max_int64; lia|]); destruct Hx|]); destruct Hb|]).
  destruct Hf.
Qed.

Lemma file_wfb_wf f : file_wfb f = true -> file_wf f.
Proof.
  unfold file_wfb, file_wf. intros H. apply andb_true_iff in H. destruct H as [H1 H2]. split; [|apply ssortedb_spec; exact H2].
  apply Forall_forall. intros b Hb. rewrite forallb_forall in H1. specialize (H1 b Hb). destruct b; [discriminate|discriminate].
Qed.

Example keycursor_desc_refines_layerA_nonvacuous :
  (2 <= length (kc_blocks ex_bfiles 9 false))%nat /\
  kc_values ex_bfiles 9 false =
    [(9, VInt 39); (8, VInt 28); (7, VInt 37); (6, VInt 16); (5, VInt 35); (4, VInt 14); (3, VInt 33); (2, VInt 22); (1, VInt 31); (0, VInt 10)].
Proof. vm_compute. split; [lia|reflexivity]. Qed.

(* the engine cursor with cache values before, inside and after the TSM data, one of them
   overwriting a file value *)
Example engine_cursor_nonvacuous :
  cursor_read ex_bfiles [(2, VInt 92); (0, VInt 90); (12, VInt 99); (2, VInt 93)] 1 12 true =
    [(1, VInt 31); (2, VInt 93); (3, VInt 33); (4, VInt 14); (5, VInt 35); (6, VInt 16); (7, VInt 37); (8, VInt 28);
     (9, VInt 39); (11, VInt 41); (12, VInt 99)].
Proof. vm_compute. reflexivity. Qed.
