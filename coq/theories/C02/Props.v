(* C02/Props.v — property theorems only; each closed by [exact] of a lemma of Proofs.v /
   SpecProofs.v / FastProofs.v and followed by Print Assumptions. *)
From Verif Require Import Shard.Store C02.Spec C02.Model C02.Fast C02.KV C02.SpecProofs C02.FastProofs C02.Proofs.
From VerifGen Require Import Consts.
Open Scope Z_scope.

(* the constants and code shapes the model is written against, re-read from the source on
   every run (tools/genconsts/c02.go): value type codes = TSM block types, the timestamp
   range of models.NewPoint = the influxql.MinTime/MaxTime the delete widens, and the
   branches of entry.add / Cache.DeleteRange / deleteSeriesRange / NewEngine /
   createFieldsAndMeasurements that Model.v mirrors *)
Example model_constants_match_source :
  (vtype (VFloat 0) = c02_block_float /\ vtype (VInt 0) = c02_block_integer /\ vtype (VBool true) = c02_block_boolean /\
   vtype (VStr []) = c02_block_string /\ vtype (VUint 0) = c02_block_unsigned) /\
  (influxql_min_time = c02_min_nano_time /\ influxql_max_time = c02_max_nano_time) /\
  (c02_entry_add_checks_only_nonzero_vtype && c02_cache_delete_hot_only && c02_cache_delete_full_range_removes_key &&
   c02_delete_widens_min_max_time && c02_series_type_check_behind_env_flag && c02_fields_saved_on_create_error = true).
Proof. repeat split; reflexivity. Qed.

(* C02, first sentence.  For EVERY history of steps (writes of any points with int64
   timestamps, snapshots — atomic or begun/committed separately —, compactions of any
   contiguous file group, range deletes of any series set with any set of emptied
   measurements dropped, reopen; with an inmem or a tsi1 index) in which no delete runs
   while a cache snapshot is in flight, the run is defined and every read of every
   (measurement, tags, field) over every range in either direction returns exactly the
   last-write-wins read of the acknowledged history: one point per timestamp, the latest
   acknowledged value, sorted in the requested direction ([is_read] of Shard/Spec.v). *)
Theorem read_refines_lww :
  forall (tsi : bool) (steps : list step),
  hist_ok false steps = true -> forallb step_int64 steps = true ->
  exists st h, run (init tsi) [] steps = Some (st, h) /\
    forall m tags f lo hi asc,
      shard_read st m tags f lo hi asc = RVals (spec_read h (mkkey m tags f) lo hi asc) /\
      is_read h (mkkey m tags f) lo hi asc (spec_read h (mkkey m tags f) lo hi asc).
Proof. exact read_refines_lww_all. Qed.
Print Assumptions read_refines_lww.

(* the refinement invariant is inductive: usable from any reachable state, for any continuation *)
Theorem read_refines_lww_from :
  forall steps st h, Inv st h -> hist_ok (s_snapping st) steps = true -> forallb step_int64 steps = true ->
  exists st' h', run st h steps = Some (st', h') /\ Inv st' h' /\
    forall m tags f lo hi asc,
      shard_read st' m tags f lo hi asc = RVals (spec_read h' (mkkey m tags f) lo hi asc).
Proof.
  intros steps st h HI Hok Hr. destruct (run_inv steps st h HI Hok Hr) as [st' [h' [E HI']]].
  exists st', h'. split; [exact E|]. split; [exact HI'|]. intros. apply read_correct. exact HI'.
Qed.
Print Assumptions read_refines_lww_from.

(* the excluded schedule is a real counterexample of the model (it mirrors the code: the
   delete does not reach the snapshot being flushed) — the finding recorded for C10 *)
Theorem delete_during_snapshot_refuted :
  exists steps st h, hist_ok false steps = false /\ run (init false) [] steps = Some (st, h) /\
    shard_read st [109%N] [] [102%N] 0 10 true <> RVals (spec_read h (mkkey [109%N] [] [102%N]) 0 10 true).
Proof.
  exists [SWrite [mkpt [109%N] [] 5 [([102%N], VInt 1)]]; SSnapBegin; SDelete [([109%N], [])] 0 10 []; SSnapCommit].
  eexists _, _. split; [reflexivity|]. split; [vm_compute; reflexivity|]. vm_compute. discriminate.
Qed.
Print Assumptions delete_during_snapshot_refuted.

(* C02, second sentence.  In any reachable state: a batch containing a point whose field
   type conflicts with the type the field already has is answered Partial n, n = number of
   such points (>= 1); afterwards every read is the LWW read of the old history extended by
   the OTHER points only — the conflicting points leave stored data unchanged and do not
   prevent the others from being stored.  (Hypothesis 3 keeps batches whose NEW fields
   disagree among themselves outside the statement: the code refuses those as a whole.) *)
Theorem type_conflict_partial :
  forall st h pts, Inv st h -> forallb point_int64 pts = true ->
  let good := filter (point_ok (s_tab st)) pts in
  snd (create_fields (flat_map (point_creates (s_tab st)) good) (s_tab st)) = true ->
  (exists p, In p pts /\ point_ok (s_tab st) p = false) ->
  snd (write st pts) = WPartial (length pts - length good) /\ (0 < length pts - length good)%nat /\
  forall m tags f lo hi asc,
    shard_read (fst (write st pts)) m tags f lo hi asc =
    RVals (spec_read (h ++ [OWrite (flat_map point_kvs good)]) (mkkey m tags f) lo hi asc).
Proof. exact type_conflict_partial_lemma. Qed.
Print Assumptions type_conflict_partial.

(* ... a field never holds values of two types: after every history all values stored under
   the keys of one (measurement, field), in any series, any file, the snapshot or the hot
   cache, carry the one type recorded for the field *)
Theorem field_single_type :
  forall (tsi : bool) (steps : list step),
  hist_ok false steps = true -> forallb step_int64 steps = true ->
  exists st h, run (init tsi) [] steps = Some (st, h) /\
    (forall k x, In x (live_values (s_files st) (s_cache st) k) ->
                 ft_get (key_mf k) (s_tab st) = Some (vtype (snd x))) /\
    (forall k1 k2 x1 x2, key_mf k1 = key_mf k2 ->
                 In x1 (live_values (s_files st) (s_cache st) k1) ->
                 In x2 (live_values (s_files st) (s_cache st) k2) -> vtype (snd x1) = vtype (snd x2)).
Proof. exact field_single_type_all. Qed.
Print Assumptions field_single_type.

(* ... and re-writing identical points changes nothing: same answer, no read changes *)
Theorem rewrite_idempotent :
  forall st h pts, Inv st h -> forallb point_int64 pts = true ->
  let good := filter (point_ok (s_tab st)) pts in
  snd (create_fields (flat_map (point_creates (s_tab st)) good) (s_tab st)) = true ->
  let st1 := fst (write st pts) in
  snd (write st1 pts) = snd (write st pts) /\
  forall m tags f lo hi asc,
    shard_read (fst (write st1 pts)) m tags f lo hi asc = shard_read st1 m tags f lo hi asc.
Proof. exact rewrite_idempotent_lemma. Qed.
Print Assumptions rewrite_idempotent.

(* the typed cursors never meet a value of another type: no read of a reachable state errs *)
Theorem read_never_errs :
  forall st h m tags f lo hi asc, Inv st h -> shard_read st m tags f lo hi asc <> RErr.
Proof. intros st h m tags f lo hi asc HI. rewrite (read_correct st h m tags f lo hi asc HI). discriminate. Qed.
Print Assumptions read_never_errs.

(* ---- link to the executable spec evaluated on every case (Run.v) ---- *)

(* [spec_write], the rule Run.v applies to the implementation's answer, is satisfied by the
   model's answer for ALL reachable states and batches, and acknowledges what the model stores *)
Theorem spec_ok_write :
  forall st h pts, Inv st h -> forallb point_int64 pts = true ->
  spec_write (s_tab st) pts (snd (write st pts)) = Some (write_acked st pts).
Proof. exact model_write_spec. Qed.
Print Assumptions spec_ok_write.

(* the read checks of Run.v (equality with the spec read of the acknowledged history; every
   value of the recorded type) hold for the model's reads in ALL reachable states *)
Theorem spec_ok_read :
  forall st h m tags f lo hi asc, Inv st h ->
  exists l, shard_read st m tags f lo hi asc = RVals l /\
            l = spec_read_fast h (mkkey m tags f) lo hi asc /\
            forall x, In x l -> ft_get (m, f) (s_tab st) = Some (vtype (snd x)).
Proof. exact model_read_spec. Qed.
Print Assumptions spec_ok_read.

(* the forms of the spec and of the model read that Run.v evaluates are the definitions *)
Theorem run_evaluates_the_spec :
  forall h k lo hi asc, spec_read_fast2 h k lo hi asc = spec_read h k lo hi asc.
Proof. exact spec_read_fast2_eq. Qed.
Print Assumptions run_evaluates_the_spec.

Theorem run_evaluates_the_model :
  forall st m tags f lo hi asc, shard_read_fast st m tags f lo hi asc = shard_read st m tags f lo hi asc.
Proof. exact shard_read_fast_eq. Qed.
Print Assumptions run_evaluates_the_model.

(* ---- non-vacuity ---- *)

Definition ex_steps : list step :=
  [ SWrite [mkpt [109%N] [44%N] 1 [([102%N], VInt 1)]; mkpt [109%N] [44%N] 2 [([102%N], VInt 2)]];
    SSnapshot;
    SWrite [mkpt [109%N] [44%N] 2 [([102%N], VInt 20)]; mkpt [109%N] [44%N] 3 [([102%N], VFloat 7)]];   (* second point conflicts *)
    SSnapBegin;
    SWrite [mkpt [109%N] [44%N] 1 [([102%N], VInt 10)]];
    SSnapCommit;
    SCompact 0 2;
    SDelete [([109%N], [44%N])] 3 influxql_max_time [];
    SReopen ].

(* the hypotheses of read_refines_lww hold for a history with an overwrite in a newer file,
   a type conflict, an in-flight snapshot, a compaction, a delete and a reopen; and the
   resulting read is not empty *)
Example read_refines_lww_nonvacuous :
  hist_ok false ex_steps = true /\ forallb step_int64 ex_steps = true /\
  match run (init true) [] ex_steps with
  | Some (st, h) => shard_read st [109%N] [44%N] [102%N] min_int64 max_int64 false =
                    RVals [(2, VInt 20); (1, VInt 10)]
  | None => False
  end.
Proof. vm_compute. auto. Qed.

(* type_conflict_partial: its hypotheses are satisfiable and the conclusion is the Partial 1 *)
Example type_conflict_partial_nonvacuous :
  let st := fst (write (init false) [mkpt [109%N] [] 1 [([102%N], VInt 1)]]) in
  let pts := [mkpt [109%N] [] 2 [([102%N], VFloat 3)]; mkpt [109%N] [97%N] 2 [([102%N], VInt 4)]] in
  snd (create_fields (flat_map (point_creates (s_tab st)) (filter (point_ok (s_tab st)) pts)) (s_tab st)) = true /\
  point_ok (s_tab st) (mkpt [109%N] [] 2 [([102%N], VFloat 3)]) = false /\
  snd (write st pts) = WPartial 1 /\
  shard_read (fst (write st pts)) [109%N] [97%N] [102%N] 0 9 true = RVals [(2, VInt 4)] /\
  shard_read (fst (write st pts)) [109%N] [] [102%N] 0 9 true = RVals [(1, VInt 1)].
Proof. vm_compute. auto 6. Qed.
