(* C02/Model.v — executable model of a TSM shard as seen by C02: the logical (layer A)
   storage state of Shard/Store.v extended with the per-measurement field-type table,
   and one step function per operation, mirroring
     tsdb/shard.go            WritePointsWithContext, validateSeriesAndFields,
                              createFieldsAndMeasurements (as repaired by the fix: commit)
     tsdb/field_validator.go  defaultFieldValidator.Validate
     tsm1/engine.go           WritePointsWithContext, WriteSnapshot/writeSnapshotAndCommit,
                              deleteSeriesRange, LoadMetadataIndex, buildCursor
     tsm1/cache.go            WriteMulti/entry.add/newEntryValues, Snapshot, DeleteRange, Values
     tsm1/compact.go          Compactor.compact (logical content; blocks are layer B)
   Definitions only.

   Not modelled (see checks/c02.py): key string syntax and escaping (keys are the structural
   encoding [mkkey]), points with a "time" tag/field, the series index (a series with
   values is assumed listed), cache memory limit, WAL bytes (C01), block layout (Cursor.v),
   INFLUXDB_SERIES_TYPE_CHECK_ENABLED (off by default: Engine.seriesTypeMap = nil). *)
From Verif Require Export Shard.Store C02.Spec.
Open Scope Z_scope.

(* the "create any fields that are missing" loop of validateSeriesAndFields for one kept point *)
Definition point_creates (t : ftab) (p : point) : list ((name * name) * N) :=
  flat_map (fun fv => match ft_get (p_meas p, fst fv) t with
                      | Some ty => if N.eqb ty (vtype (snd fv)) then [] else [((p_meas p, fst fv), vtype (snd fv))]
                      | None => [((p_meas p, fst fv), vtype (snd fv))]
                      end) (p_fields p).

(* validateSeriesAndFields: every point is checked against the table as it is BEFORE the batch *)
Definition validate (t : ftab) (pts : list point) : list point * list ((name * name) * N) * nat :=
  let kept := filter (point_ok t) pts in
  (kept, flat_map (point_creates t) kept, length pts - length kept)%nat.

(* createFieldsAndMeasurements: stops at the first conflict; the fields created before it stay
   (and, since the fix, are saved).  Returns the table and whether every creation succeeded. *)
Fixpoint create_fields (cs : list ((name * name) * N)) (t : ftab) : ftab * bool :=
  match cs with
  | [] => (t, true)
  | (mf, ty) :: r => match ft_create mf ty t with
                     | Some t' => create_fields r t'
                     | None => (t, false)
                     end
  end.

(* ---------- cache write ---------- *)

(* entry.add / newEntryValues type check for the values [vs] one batch brings for a key whose
   hot-store entry currently holds [old]: an existing entry only checks when its vtype is not
   0 (sic: BlockFloat64 = 0), a new entry requires all values to have the type of the first *)
Definition entry_conflict (old vs : list tv) : bool :=
  match old with
  | [] => match vs with
          | [] => false
          | x :: _ => negb (forallb (fun y => N.eqb (vtype (snd y)) (vtype (snd x))) vs)
          end
  | o :: _ => let et := vtype (snd o) in
              if N.eqb et 0 then false else negb (forallb (fun y => N.eqb (vtype (snd y)) et) vs)
  end.

(* Engine.WritePointsWithContext builds [values map[string][]Value]: per key the batch's
   values in batch order *)
Definition group_values (ws : list (key * tv)) : kvs :=
  fold_left (fun acc w => kv_append (fst w) [snd w] acc) ws [].

(* Cache.WriteMulti: store.write per key of the map; a key whose values conflict with its
   entry is skipped as a whole and the call reports an error, the other keys are written *)
Definition cache_write (hot : kvs) (ws : list (key * tv)) : kvs * bool :=
  fold_left (fun acc g => if entry_conflict (kv_get (fst g) (fst acc)) (snd g) then (fst acc, false)
                          else (kv_append (fst g) (snd g) (fst acc), snd acc))
            (group_values ws) (hot, true).

(* ---------- state ---------- *)

Record shard := mkshard {
  s_files : list tsmfile;        (* oldest -> newest by (generation, sequence) *)
  s_cache : cache;
  s_tab : ftab;                  (* in-memory field set = fields.idx (saved after every change) *)
  s_snapping : bool;             (* Cache.snapshotting: a snapshot is being flushed *)
  s_gen : N;                     (* FileStore.currentGeneration *)
  s_tsi : bool                   (* index type: tsi1 (true) or inmem (false) *)
}.

Definition init (tsi : bool) : shard := mkshard [] {| c_snap := []; c_hot := [] |} [] false 0 tsi.

(* Shard.WritePointsWithContext *)
Definition write (st : shard) (pts : list point) : shard * wres :=
  let '(kept, creates, dropped) := validate (s_tab st) pts in
  let '(tab', ok) := create_fields creates (s_tab st) in
  if negb ok then
    (mkshard (s_files st) (s_cache st) tab' (s_snapping st) (s_gen st) (s_tsi st), WErr)
  else
    let '(hot', cok) := cache_write (c_hot (s_cache st)) (flat_map point_kvs kept) in
    (mkshard (s_files st) {| c_snap := c_snap (s_cache st); c_hot := hot' |} tab' (s_snapping st) (s_gen st) (s_tsi st),
     if negb cok then WErr                       (* "engine: field type conflict" *)
     else match dropped with O => WOk | _ => WPartial dropped end).

(* the points of a batch that are acknowledged as stored *)
Definition write_acked (st : shard) (pts : list point) : list (key * tv) :=
  match snd (write st pts) with
  | WErr => []
  | _ => flat_map point_kvs (fst (fst (validate (s_tab st) pts)))
  end.

(* ---------- snapshot ---------- *)

Definition nonempty (e : key * list tv) : bool := match snd e with [] => false | _ => true end.

(* CacheKeyIterator over the de-duplicated snapshot -> one new file of the next generation *)
Definition snapshot_file (gen : N) (snap : kvs) : tsmfile :=
  {| f_gen := gen; f_seq := 1; f_data := map (fun e => (fst e, dedup (snd e))) (filter nonempty snap); f_tombs := [] |}.

(* first half of Engine.WriteSnapshot: Cache.Snapshot() swaps the stores *)
Definition snap_begin (st : shard) : shard * bool :=
  if s_snapping st then (st, false)            (* ErrSnapshotInProgress *)
  else (mkshard (s_files st) {| c_snap := c_hot (s_cache st); c_hot := [] |} (s_tab st) true (s_gen st) (s_tsi st), true).

(* second half: write the file, install it, clear the snapshot *)
Definition snap_commit (st : shard) : shard * bool :=
  if negb (s_snapping st) then (st, false)
  else
    let snap := c_snap (s_cache st) in
    let cache' := {| c_snap := []; c_hot := c_hot (s_cache st) |} in
    if forallb (fun e => negb (nonempty e)) snap then   (* snapshot.Size() == 0: nothing to write *)
      (mkshard (s_files st) cache' (s_tab st) false (s_gen st) (s_tsi st), true)
    else
      (mkshard (s_files st ++ [snapshot_file (s_gen st + 1) snap]) cache' (s_tab st) false (s_gen st + 1)%N (s_tsi st), true).

Definition snapshot (st : shard) : shard * bool :=
  let '(st1, ok) := snap_begin st in if ok then snap_commit st1 else (st, false).

(* ---------- compaction of a contiguous group of files ---------- *)

Definition group_keys (g : list tsmfile) : list key := flat_map (fun f => kv_keys (f_data f)) g.

Definition max_gen_seq (g : list tsmfile) : N * N :=
  fold_left (fun acc f => let '(mg, ms) := acc in
                          if (mg <? f_gen f)%N then (f_gen f, f_seq f)
                          else if (f_gen f =? mg)%N && (ms <? f_seq f)%N then (mg, f_seq f) else acc) g (0, 0)%N.

(* tsmBatchKeyIterator at the logical level: per key the inputs' live values merged newest-wins;
   keys left without values are not written; tombstones die with the inputs *)
Definition compact_file (g : list tsmfile) : tsmfile :=
  let '(mg, ms) := max_gen_seq g in
  {| f_gen := mg; f_seq := (ms + 1)%N;
     f_data := flat_map (fun k => match files_values g k with [] => [] | vs => [(k, vs)] end) (group_keys g);
     f_tombs := [] |}.

(* Compactor.CompactFull/CompactFast(files[start .. start+len)) + FileStore.Replace.  The
   output takes the place of the group (generation of the newest input, next sequence).
   A group whose keys are all dead produces no file. *)
Definition compact (st : shard) (start len : nat) : shard * bool :=
  let fs := s_files st in
  if (len =? 0)%nat || (length fs <? start + len)%nat then (st, false)
  else
    let g := firstn len (skipn start fs) in
    let out := compact_file g in
    let outs := match f_data out with [] => [] | _ => [out] end in
    (mkshard (firstn start fs ++ outs ++ skipn (start + len) fs) (s_cache st) (s_tab st) (s_snapping st) (s_gen st) (s_tsi st), true).

(* ---------- delete ---------- *)

(* TSMFile.DeleteRange for every index key of a targeted series *)
Definition delete_file (ss : list (name * name)) (lo hi : Z) (f : tsmfile) : tsmfile :=
  {| f_gen := f_gen f; f_seq := f_seq f; f_data := f_data f;
     f_tombs := f_tombs f ++ map (fun k => (k, (lo, hi))) (filter (in_series ss) (kv_keys (f_data f))) |}.

(* Cache.DeleteRange on the HOT store only: full range removes the key; otherwise
   entry.filter = Deduplicate (if more than one value) then Exclude; emptied keys are removed *)
Definition delete_entry (lo hi : Z) (vs : list tv) : list tv :=
  if (lo =? min_int64) && (hi =? max_int64) then []
  else exclude_range lo hi (match vs with _ :: _ :: _ => dedup vs | _ => vs end).

Definition delete_hot (ss : list (name * name)) (lo hi : Z) (hot : kvs) : kvs :=
  flat_map (fun e => if in_series ss (fst e)
                     then match delete_entry lo hi (snd e) with [] => [] | vs => [(fst e, vs)] end
                     else [e]) hot.

(* every key the shard holds anything for *)
Definition state_keys (fs : list tsmfile) (c : cache) : list key :=
  group_keys fs ++ kv_keys (c_snap c) ++ kv_keys (c_hot c).

Definition live_values (fs : list tsmfile) (c : cache) (k : key) : list tv :=
  flat_map (fun f => file_values f k) fs ++ cache_values c k.

(* no value of measurement m is left anywhere *)
Definition meas_empty (fs : list tsmfile) (c : cache) (m : name) : bool :=
  forallb (fun k => negb (nlist_eqb (fst (key_mf k)) m) || match live_values fs c k with [] => true | _ => false end)
          (state_keys fs c).

(* Engine.deleteSeriesRange.  [drops] is an oracle for the index bookkeeping at its end
   (series without any file or cache key are dropped from the index; a measurement left
   without series loses its field set, cleanupMeasurement): the code decides on index-entry
   presence, which layer A does not have, so the model accepts ANY set of measurements that
   have no value left — the harness passes the set the implementation dropped.
   The files' time/key-range pre-checks of the code only skip tombstones that would remove
   nothing. *)
Definition delete (st : shard) (ss : list (name * name)) (lo0 hi0 : Z) (drops : list name) : shard :=
  let lo := conv_lo lo0 in let hi := conv_hi hi0 in
  let fs' := map (delete_file ss lo hi) (s_files st) in
  let c' := {| c_snap := c_snap (s_cache st); c_hot := delete_hot ss lo hi (c_hot (s_cache st)) |} in
  let tab' := fold_left (fun t m => if meas_empty fs' c' m then ft_drop m t else t) drops (s_tab st) in
  mkshard fs' c' tab' (s_snapping st) (s_gen st) (s_tsi st).

(* the acknowledged effect of the delete for the LWW spec *)
Definition delete_op (st : shard) (ss : list (name * name)) (lo0 hi0 : Z) : op :=
  ODelete (filter (in_series ss) (state_keys (s_files st) (s_cache st))) (conv_lo lo0) (conv_hi hi0).

(* ---------- reopen ---------- *)

(* WAL replay: the closed segments of an unfinished snapshot come first, then the hot writes *)
Definition reload_cache (c : cache) : kvs :=
  fold_left (fun acc e => kv_append (fst e) (snd e) acc) (c_hot c) (c_snap c).

(* LoadMetadataIndex -> addToIndexFromKey: CreateFieldIfNotExists for every key found in the
   files and the cache with the type of its values; None = the shard fails to open.
   With a tsi1 index and a non-empty fields.idx the scan is skipped. *)
Definition reopen_tab (tsi : bool) (tab : ftab) (fs : list tsmfile) (c : cache) : option ftab :=
  match tsi, tab with
  | true, _ :: _ => Some tab
  | _, _ =>
    fold_left (fun acc k => match acc with
                            | None => None
                            | Some t => match live_values fs c k with
                                        | [] => Some t
                                        | x :: _ => ft_create (key_mf k) (vtype (snd x)) t
                                        end
                            end) (state_keys fs c) (Some tab)
  end.

Definition max_gen (fs : list tsmfile) : N := fold_left (fun a f => N.max a (f_gen f)) fs 0%N.

Definition reopen (st : shard) : option shard :=
  let c' := {| c_snap := []; c_hot := reload_cache (s_cache st) |} in
  match reopen_tab (s_tsi st) (s_tab st) (s_files st) c' with
  | None => None
  | Some tab' => Some (mkshard (s_files st) c' tab' false (max_gen (s_files st)) (s_tsi st))
  end.

(* ---------- read ---------- *)

Inductive rres := RVals (l : list tv) | RErr.

(* Shard.CreateIterator / CreateCursorIterator for one series and field: buildCursor picks
   the cursor by the field's recorded type; a field unknown to the table yields nothing.
   Values of another type than the recorded one make the typed cursor panic (cache) or drop
   blocks silently (files): [RErr]. *)
Definition shard_read (st : shard) (m tags f : name) (lo hi : Z) (asc : bool) : rres :=
  let k := mkkey m tags f in
  match ft_get (m, f) (s_tab st) with
  | None => RVals []
  | Some ty =>
      if forallb (fun x => N.eqb (vtype (snd x)) ty) (read_all (s_files st) (s_cache st) k)
      then RVals (read (s_files st) (s_cache st) k lo hi asc)
      else RErr
  end.

(* ---------- histories ---------- *)

Inductive step :=
| SWrite (pts : list point)
| SSnapshot | SSnapBegin | SSnapCommit
| SCompact (start len : nat)
| SDelete (series : list (name * name)) (lo hi : Z) (drops : list name)
| SReopen.

(* one step: new state and the acknowledged operations it adds to the history *)
Definition do_step (st : shard) (s : step) : option (shard * list op) :=
  match s with
  | SWrite pts => Some (fst (write st pts), [OWrite (write_acked st pts)])
  | SSnapshot => Some (fst (snapshot st), [])
  | SSnapBegin => Some (fst (snap_begin st), [])
  | SSnapCommit => Some (fst (snap_commit st), [])
  | SCompact a n => Some (fst (compact st a n), [])
  | SDelete ss lo hi drops => Some (delete st ss lo hi drops, [delete_op st ss lo hi])
  | SReopen => match reopen st with Some st' => Some (st', []) | None => None end
  end.

Fixpoint run (st : shard) (h : list op) (steps : list step) : option (shard * list op) :=
  match steps with
  | [] => Some (st, h)
  | s :: r => match do_step st s with
              | Some (st', ops) => run st' (h ++ ops) r
              | None => None
              end
  end.

(* histories in the scope of the theorems: no delete while a cache snapshot is in flight
   (that schedule is the C10 finding: the delete misses the snapshot's points) *)
Fixpoint hist_ok (snapping : bool) (steps : list step) : bool :=
  match steps with
  | [] => true
  | SDelete _ _ _ _ :: r => negb snapping && hist_ok snapping r
  | SSnapBegin :: r => hist_ok true r
  | SSnapCommit :: r => hist_ok false r
  | SReopen :: r => hist_ok false r
  | _ :: r => hist_ok snapping r
  end.
