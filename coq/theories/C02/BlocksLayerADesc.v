(* C02/BlocksLayerADesc.v — layer B refines layer A, DESCENDING cursors: the mirror of the second
   half of BlocksLayerA.v (locations for a descending seek, initial cursor state, main theorem). *)
From Verif Require Import Shard.Store C02.Spec C02.Fast C02.FastProofs C02.Blocks C02.BlocksProofs C02.BlocksRefine
  C02.BlocksLayerA C02.BlocksRefineDesc.
From Coq Require Import ZifyBool Permutation.
Open Scope Z_scope.

Definition mk_desc_loc (t : Z) (fi : nat) (tombs : list (Z * Z)) (b : block) : loc :=
  mkloc fi (vmin b) (vmax b) b tombs (wrap64 (t + 1)) max_int64.

Lemma block_loc_desc_In t fi tombs b x : In x (block_loc false t fi tombs b) ->
  x = mk_desc_loc t fi tombs b /\ covered tombs (vmin b) (vmax b) = false /\ (t <? vmin b) = false.
Proof.
  unfold block_loc. destruct (covered tombs (vmin b) (vmax b)) eqn:Ec; [intros []|]. cbn [andb negb].
  destruct (t <? vmin b) eqn:Et; [intros []|]. intros [<-|[]]. auto.
Qed.

Lemma locations_desc_In t fs : forall fi x, In x (locations false t fi fs) ->
  exists k f b, nth_error fs k = Some f /\ In b (bf_blocks f) /\ x = mk_desc_loc t (fi + k) (bf_tombs f) b.
Proof.
  induction fs as [|f r IH]; intros fi x Hx; cbn [locations] in Hx; [destruct Hx|].
  apply in_app_or in Hx. destruct Hx as [Hx|Hx].
  - apply in_flat_map in Hx. destruct Hx as [b [Hb Hx]]. apply block_loc_desc_In in Hx. destruct Hx as [-> _].
    exists 0%nat, f, b. rewrite Nat.add_0_r. auto.
  - destruct (IH _ _ Hx) as [k [f' [b [H1 [H2 H3]]]]]. exists (S k), f', b. split; [exact H1|]. split; [exact H2|].
    rewrite H3. f_equal. lia.
Qed.

Lemma mk_desc_loc_wf t fi tombs b : ssorted b -> loc_wf (mk_desc_loc t fi tombs b).
Proof.
  intros Hs. split; [exact Hs|]. cbn. intros x Hx. split; [apply vmin_le; assumption|apply vmax_ge; assumption].
Qed.

Lemma locations_desc_same_file_one t' t fs : Forall file_wf fs -> same_file_one t' (locations false t 0 fs).
Proof.
  intros Hwf a b Ha Hb Hf Hha Hhb.
  destruct (locations_desc_In _ _ _ _ Ha) as [k1 [f1 [b1 [Hn1 [Hb1 ->]]]]].
  destruct (locations_desc_In _ _ _ _ Hb) as [k2 [f2 [b2 [Hn2 [Hb2 ->]]]]].
  cbn in Hf. assert (k1 = k2) by lia. subst k2. rewrite Hn1 in Hn2. inversion Hn2; subst f2.
  destruct (has_in _ _ Hha) as [v1 Hv1]. destruct (has_in _ _ Hhb) as [v2 Hv2]. cbn in Hv1, Hv2.
  rewrite Forall_forall in Hwf. destruct (Hwf f1 (nth_error_In _ _ Hn1)) as [_ Hs].
  rewrite (blocks_disjoint _ Hs b1 b2 t' v1 v2 Hb1 Hb2 Hv1 Hv2). reflexivity.
Qed.

Lemma file_locations_lookup_desc t t' fi tombs bl : t' <= t -> ssorted (concat bl) ->
  lookup_last t' (flat_map live (flat_map (block_loc false t fi tombs) bl)) =
  if in_tombs tombs t' then None else lookup_last t' (concat bl).
Proof.
  intros Ht. induction bl as [|b bl IH]; intros Hs; cbn [flat_map concat]; [destruct (in_tombs tombs t'); reflexivity|].
  destruct (ssorted_app_inv _ _ Hs) as [Hb [Hbl _]].
  rewrite flat_map_app, !lookup_last_app, (IH Hbl).
  assert (Hhead : lookup_last t' (flat_map live (block_loc false t fi tombs b)) = if in_tombs tombs t' then None else lookup_last t' b).
  { unfold block_loc. destruct (covered tombs (vmin b) (vmax b)) eqn:Ec.
    - cbn [flat_map lookup_last]. destruct (in_tombs tombs t') eqn:Ei; [reflexivity|].
      destruct (lookup_last t' b) as [v|] eqn:E; [|reflexivity].
      assert (Hr : vmin b <= t' <= vmax b) by (apply lookup_in_range; [exact Hb|congruence]).
      rewrite (covered_in_tombs _ _ _ _ Ec Hr) in Ei. discriminate.
    - cbn [andb negb]. destruct (t <? vmin b) eqn:Et.
      + cbn [flat_map lookup_last]. destruct (lookup_last t' b) as [v|] eqn:E; [|destruct (in_tombs tombs t'); reflexivity].
        assert (Hr : vmin b <= t' <= vmax b) by (apply lookup_in_range; [exact Hb|congruence]). lia.
      + cbn [flat_map]. rewrite app_nil_r. unfold live. cbn [l_tombs l_vals]. apply excl_tombs_lookup. }
  rewrite Hhead. destruct (in_tombs tombs t'); reflexivity.
Qed.

Lemma locations_lookup_desc t t' fs : t' <= t -> Forall file_wf fs -> forall fi,
  lookup_last t' (flat_map live (locations false t fi fs)) =
  lookup_last t' (flat_map (fun f => file_values f bkey) (to_tsmfiles fi fs)).
Proof.
  intros Ht Hwf. induction Hwf as [|f r Hf Hr IH]; intros fi; cbn [locations to_tsmfiles flat_map]; [reflexivity|].
  rewrite flat_map_app, !lookup_last_app, IH, file_values_bfile.
  rewrite file_locations_lookup_desc by (try exact Ht; exact (proj2 Hf)). rewrite excl_tombs_lookup. reflexivity.
Qed.

Lemma initial_desc_ok t fi tombs b : min_int64 <= t < max_int64 -> b <> [] -> ssorted b ->
  (forall x, In x b -> fst x <= max_int64) -> desc_ok (t + 1) (mk_desc_loc t fi tombs b).
Proof.
  intros Ht Hne Hs Hhi.
  assert (Hw : wrap64 (t + 1) = t + 1) by (apply wrap64_id; unfold min_int64, max_int64 in *; lia).
  assert (Hwf : loc_wf (mk_desc_loc t fi tombs b)) by (apply mk_desc_loc_wf; exact Hs).
  assert (Hmax : vmax b <= max_int64) by (apply Hhi; apply vmax_in; exact Hne).
  split; [exact Hwf|]. split; [exact Hmax|]. split; [cbn [l_rmin mk_desc_loc]; lia|].
  intros t'. rewrite rem_lookup_gen. cbn [l_rmin l_rmax mk_desc_loc]. rewrite Hw.
  destruct (t' <? t + 1) eqn:E.
  - assert ((t + 1 <=? t') = false) as -> by lia. reflexivity.
  - assert ((t + 1 <=? t') = true) as -> by lia. cbn [andb]. destruct (t' <=? max_int64) eqn:E2; [reflexivity|].
    apply live_lookup_out; [exact Hwf|]. right. cbn [l_max mk_desc_loc]. lia.
Qed.

Lemma initial_cur_inv_d fs t : Forall file_wf fs -> files_int64 fs -> min_int64 <= t < max_int64 ->
  cur_inv_d (t + 1) (k_seeks (new_cursor fs t false)) (S (k_pos (new_cursor fs t false))) (k_cur (new_cursor fs t false)).
Proof.
  intros Hwf Hi Ht. unfold new_cursor, seek_cursor. cbn [k_seeks k_pos k_cur].
  set (S0 := sort_locations false (locations false t 0 fs)).
  assert (Hok : Forall (desc_ok (t + 1)) S0).
  { apply (Permutation_Forall (sort_locations_perm_lemma false _ (locations_by_file false t fs 0))).
    apply Forall_forall. intros x Hx. destruct (locations_desc_In _ _ _ _ Hx) as [k [f [b [Hn [Hb ->]]]]].
    pose proof (nth_error_In _ _ Hn) as Hf. rewrite Forall_forall in Hwf.
    destruct (block_of_wf f b (Hwf f Hf) Hb) as [Hne Hs].
    apply initial_desc_ok; [exact Ht|exact Hne|exact Hs|]. intros y Hy. apply (Hi f b y Hf Hb Hy). }
  set (A := idx_filter (seek_ok false t) 0 S0).
  assert (HAlt : forall x, In x A -> (x < length S0)%nat) by (intros x Hx; apply idx_filter_spec in Hx; lia).
  pose proof (asc_rev_dfrom A 0%nat (length S0) (idx_filter_asc _ _ _) HAlt) as Hd.
  split; [exact Hok|]. split; [|split].
  - left. destruct (rev A) as [|h r']; [exact I|]. cbn [hd dfrom] in *. split; [lia|tauto].
  - intros j Hj. apply HAlt. apply in_rev. exact Hj.
  - intros j Hj Hnj. pose proof (Forall_get _ _ _ Hok Hj) as [Hlw [Hmax [Hmin Hf]]].
    apply sorted_all_none; [apply rem_sorted; exact Hlw|]. intros t'. rewrite Hf.
    destruct (t' <? t + 1) eqn:E; [|reflexivity].
    assert (Hso : seek_ok false t (get S0 j) = false).
    { destruct (seek_ok false t (get S0 j)) eqn:Es; [|reflexivity]. exfalso. apply Hnj. apply -> in_rev. apply idx_filter_spec.
      split; [lia|]. rewrite Nat.sub_0_r. exact Es. }
    unfold seek_ok, contains in Hso. apply live_lookup_out; [exact Hlw|]. left. lia.
Qed.

Lemma fuel_enough_d fs t F :
  (m_left_d F (k_seeks (new_cursor fs t false)) < S (total_values fs))%nat.
Proof.
  unfold m_left_d, new_cursor, seek_cursor, total_values. cbn [k_seeks].
  pose proof (filter_len (fun x : tv => fst x <? F) (flat_map live (sort_locations false (locations false t 0 fs)))).
  pose proof (flat_map_live_len (sort_locations false (locations false t 0 fs))).
  pose proof (Permutation_length (Permutation_flat_map l_vals (sort_locations_perm_lemma false _ (locations_by_file false t fs 0)))).
  pose proof (locations_vals_len false t fs 0). lia.
Qed.

Lemma rev_concat_map_rev {A} (bl : list (list A)) : rev (concat (map (@rev A) bl)) = concat (rev bl).
Proof.
  induction bl as [|b bl IH]; [reflexivity|]. cbn [map concat rev]. rewrite rev_app_distr, rev_involutive, IH.
  rewrite concat_app. cbn [concat]. rewrite app_nil_r. reflexivity.
Qed.

(* For EVERY list of well-formed files, every tombstone set, int64 timestamps and every seek
   time MinInt64 <= t < MaxInt64: the blocks the DESCENDING KeyCursor returns, each walked
   backwards as the cursors do, concatenated, are the layer-A read of the files from t
   downwards: strictly descending, every timestamp once, newest file wins. *)
Theorem keycursor_desc_refines_layerA_lemma fs t :
  Forall file_wf fs -> files_int64 fs -> min_int64 <= t < max_int64 ->
  kc_values fs t false = layerA_read fs t false.
Proof.
  intros Hwf Hi Ht. unfold kc_values, kc_blocks, layerA_read, read.
  change (fun b : list tv => if false then b else rev b) with (@rev tv).
  rewrite <- (rev_involutive (concat (map (@rev tv) _))). f_equal. rewrite rev_concat_map_rev.
  destruct (kc_stream_desc (S (total_values fs)) (new_cursor fs t false) (t + 1) eq_refl
              (initial_cur_inv_d fs t Hwf Hi Ht) (fuel_enough_d fs t (t + 1))) as [Hs [_ Hl]].
  rewrite files_only_read_all.
  apply sorted_lookup_ext; [exact Hs|apply filter_ssorted; apply files_values_sorted|].
  intros t'. rewrite Hl, lookup_include_range.
  destruct (t' <? t + 1) eqn:E1.
  2:{ assert ((t' <=? t) = false) as -> by lia. rewrite andb_false_r. reflexivity. }
  assert ((t' <=? t) = true) as -> by lia. rewrite andb_true_r.
  set (L := locations false t 0 fs).
  assert (HwfL : forall l, In l L -> loc_wf l).
  { intros l Hl'. destruct (locations_desc_In _ _ _ _ Hl') as [k [f [b [Hn [Hb ->]]]]].
    rewrite Forall_forall in Hwf. apply mk_desc_loc_wf. exact (proj2 (block_of_wf f b (Hwf f (nth_error_In _ _ Hn)) Hb)). }
  pose proof (sort_locations_perm_lemma false L (locations_by_file false t fs 0)) as Hperm.
  assert (Hlk : lookup_last t' (flat_map live (k_seeks (new_cursor fs t false))) = lookup_last t' (flat_map live L)).
  { unfold new_cursor, seek_cursor. cbn [k_seeks]. fold L. symmetry. apply lookup_perm; [exact Hperm| |].
    - apply wins_from_order; [exact HwfL|apply locations_desc_same_file_one; exact Hwf|].
      apply (ordpairs_impl_in _ _ _ (locations_by_file false t fs 0)). intros a b _ _ Hab _. exact Hab.
    - apply wins_from_order.
      + intros l Hl'. apply HwfL. eapply Permutation_in; [apply Permutation_sym; exact Hperm|exact Hl'].
      + intros a b Ha Hb. apply (locations_desc_same_file_one t' t fs Hwf); eapply Permutation_in; try (apply Permutation_sym; exact Hperm); assumption.
      + apply sort_locations_keeps_file_order_lemma. apply locations_by_file. }
  rewrite Hlk. unfold L. rewrite (locations_lookup_desc t t' fs) by (try lia; exact Hwf).
  rewrite <- files_values_lookup.
  destruct (min_int64 <=? t') eqn:E2; [reflexivity|].
  apply lookup_none_not_in. intros x Hx.
  destruct x as [ty vy].
  apply (in_sorted_lookup ty vy _ (files_values_sorted _ _)) in Hx. rewrite files_values_lookup in Hx.
  apply lookup_some_in in Hx. apply in_flat_map in Hx. destruct Hx as [tf [Htf Hy]].
  destruct (to_tsmfiles_In _ _ _ Htf) as [f [Hf [i' ->]]]. rewrite file_values_bfile in Hy. apply excl_tombs_In in Hy.
  apply in_concat in Hy. destruct Hy as [b [Hb Hyb]]. specialize (Hi f b _ Hf Hb Hyb). cbn [fst] in *. lia.
Qed.

Theorem engine_cursor_desc_refines_layerA_lemma fs cv t fin :
  Forall file_wf fs -> files_int64 fs -> min_int64 <= t < max_int64 -> min_int64 <= fin ->
  cursor_read fs cv t fin false = layerA_cursor_read fs cv t fin false.
Proof.
  intros Hwf Hi Ht Hfin. apply cursor_refines_layerA_desc; [exact Hfin|].
  apply keycursor_desc_refines_layerA_lemma; assumption.
Qed.

(* the loop never hands out an empty block *)
Lemma kc_stream_nonempty fuel : forall c, Forall (fun b : list tv => b <> []) (kc_stream fuel c).
Proof.
  induction fuel as [|f IH]; intros c; cbn [kc_stream]; [constructor|].
  destruct (kc_read c) as [vals c1]. destruct vals as [|v vs]; [constructor|].
  constructor; [discriminate|apply IH].
Qed.
