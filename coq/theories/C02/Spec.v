(* C02/Spec.v — what C02 adds to the shared last-write-wins spec (Shard/Spec.v):
   structured points and series-field keys, the field-type table, the rule which points of a
   batch are acknowledged, and an efficient executable form of [spec_read]
   ([spec_read_fast], proved equal to it in Proofs.v: spec_read_fast_eq). *)
From Verif Require Export Shard.Store.
Open Scope Z_scope.

Definition name := list N.

(* ---------- keys ---------- *)

(* series-field key: structural, length-prefixed encoding of (measurement, field, tag part).
   The real key is measurement ++ tags ++ "#!~#" ++ field; the harness maps one to the other. *)
Definition mkkey (m tags f : name) : key :=
  N.of_nat (length m) :: m ++ N.of_nat (length f) :: f ++ tags.

Definition key_parts (k : key) : name * name * name :=   (* measurement, field, tags *)
  match k with
  | [] => ([], [], [])
  | lm :: r =>
      let m := firstn (N.to_nat lm) r in
      match skipn (N.to_nat lm) r with
      | [] => (m, [], [])
      | lf :: r2 => (m, firstn (N.to_nat lf) r2, skipn (N.to_nat lf) r2)
      end
  end.

Definition key_mf (k : key) : name * name := (fst (fst (key_parts k)), snd (fst (key_parts k))).
Definition key_series (k : key) : name * name := (fst (fst (key_parts k)), snd (key_parts k)).

Definition name2_eqb (a b : name * name) : bool := nlist_eqb (fst a) (fst b) && nlist_eqb (snd a) (snd b).

(* ---------- field-type table (MeasurementFieldSet) ---------- *)

(* (measurement, field) -> type code (= block type, [vtype]); first match wins; entries are
   only ever added for absent fields, so there is one entry per field *)
Definition ftab := list ((name * name) * N).

Fixpoint ft_get (mf : name * name) (t : ftab) : option N :=
  match t with
  | [] => None
  | (mf', ty) :: r => if name2_eqb mf' mf then Some ty else ft_get mf r
  end.

Definition ft_drop (m : name) (t : ftab) : ftab :=
  filter (fun e => negb (nlist_eqb (fst (fst e)) m)) t.

(* MeasurementFields.CreateFieldIfNotExists: None = ErrFieldTypeConflict *)
Definition ft_create (mf : name * name) (ty : N) (t : ftab) : option ftab :=
  match ft_get mf t with
  | Some ty' => if N.eqb ty' ty then Some t else None
  | None => Some (t ++ [(mf, ty)])
  end.

(* ---------- points ---------- *)

Record point := mkpt { p_meas : name; p_tags : name; p_time : Z; p_fields : list (name * value) }.

(* a point is acceptable iff none of its fields has a recorded type different from the type
   of the value it carries (defaultFieldValidator.Validate: false = PartialWriteError{Dropped: 1}) *)
Definition point_ok (t : ftab) (p : point) : bool :=
  forallb (fun fv => match ft_get (p_meas p, fst fv) t with
                     | Some ty => N.eqb ty (vtype (snd fv))
                     | None => true
                     end) (p_fields p).


(* Engine.WritePointsWithContext: (key, value) pairs in batch order *)
Definition point_kvs (p : point) : list (key * tv) :=
  map (fun fv => (mkkey (p_meas p) (p_tags p) (fst fv), (p_time p, snd fv))) (p_fields p).


Definition min_int64 : Z := -9223372036854775808.
Definition max_int64 : Z := 9223372036854775807.
Definition influxql_min_time : Z := min_int64 + 2.
Definition influxql_max_time : Z := max_int64 - 1.

(* "Min and max time in the engine are slightly different from the query language values" *)
Definition conv_lo (lo : Z) : Z := if lo =? influxql_min_time then min_int64 else lo.
Definition conv_hi (hi : Z) : Z := if hi =? influxql_max_time then max_int64 else hi.

Definition in_series (ss : list (name * name)) (k : key) : bool := existsb (name2_eqb (key_series k)) ss.


(* ---------- acknowledged part of a batch ---------- *)

Inductive wres := WOk | WPartial (n : nat) | WErr.

(* Given the field types the shard reports before the batch: a point conflicting with them
   must be rejected and counted, every other point must be stored.  [WErr] acknowledges
   nothing and is acceptable only for a batch whose new fields disagree among themselves.
   Returns the acknowledged (key, value) pairs, or None when the reported result
   is not the one the property demands. *)
(* fields the acceptable points of a batch would create (absent from the table), with the
   type each point carries for them; two of them disagreeing on a type is the one situation
   in which the code refuses the whole batch ("in-batch conflicting NEW field types") *)
Definition new_fields (tab : ftab) (pts : list point) : list ((name * name) * N) :=
  flat_map (fun p => flat_map (fun fv => match ft_get (p_meas p, fst fv) tab with
                                          | None => [((p_meas p, fst fv), vtype (snd fv))]
                                          | Some _ => []
                                          end) (p_fields p)) (filter (point_ok tab) pts).

Definition new_conflict (tab : ftab) (pts : list point) : bool :=
  let nf := new_fields tab pts in
  existsb (fun a => existsb (fun b => name2_eqb (fst a) (fst b) && negb (N.eqb (snd a) (snd b))) nf) nf.

Definition spec_write (tab : ftab) (pts : list point) (res : wres) : option (list (key * tv)) :=
  let good := filter (point_ok tab) pts in
  let nbad := (length pts - length good)%nat in
  match res with
  | WErr => if new_conflict tab pts then Some [] else None
  | WOk => if Nat.eqb nbad 0 then Some (flat_map point_kvs pts) else None
  | WPartial n => if Nat.eqb n nbad && negb (Nat.eqb n 0) then Some (flat_map point_kvs good) else None
  end.

(* ---------- executable LWW state ---------- *)

(* the sorted, one-value-per-timestamp content of key k after history h *)
Definition spec_apply (k : key) (cur : list tv) (o : op) : list tv :=
  match o with
  | OWrite pts => merge_lw cur (batch_values k pts)
  | ODelete ks lo hi => if existsb (key_eqb k) ks then exclude_range lo hi cur else cur
  end.

Definition spec_state (h : list op) (k : key) : list tv := fold_left (spec_apply k) h [].

Definition spec_read_fast (h : list op) (k : key) (lo hi : Z) (asc : bool) : list tv :=
  let r := include_range lo hi (spec_state h k) in if asc then r else rev r.
