(* C02/BlocksRefine.v — layer B refines layer A: the blocks the KeyCursor returns, one
   Read<T>Block/Next after the other with their read marks, concatenated, are the
   newest-file-wins read of the files minus tombstones from the seek time on.
   This file: shared lemmas and the ASCENDING cursor, for every set of well-formed files, every
   tombstone set and every seek time above MinInt64 (the t-1 of FileStore.locations must not
   wrap).  The descending direction is the mirror in BlocksRefineDesc.v. *)
From Verif Require Import Shard.Store C02.Spec C02.Fast C02.FastProofs C02.Blocks C02.BlocksProofs.
From Coq Require Import ZifyBool Permutation.
Open Scope Z_scope.

(* ---------- get / upd ---------- *)

Lemma upd_length i f l : length (upd i f l) = length l.
Proof. revert i; induction l as [|x r IH]; intros [|i]; cbn; auto. Qed.

Lemma get_upd_same i f l : (i < length l)%nat -> get (upd i f l) i = f (get l i).
Proof. revert i; induction l as [|x r IH]; intros [|i] H; cbn in *; try lia; auto. apply IH. lia. Qed.

Lemma get_upd_other i j f l : i <> j -> get (upd i f l) j = get l j.
Proof. revert i j; induction l as [|x r IH]; intros [|i] [|j] H; cbn; auto; try congruence. apply IH. congruence. Qed.

Lemma upd_map {B} (g : loc -> B) i f l : (forall x, g (f x) = g x) -> map g (upd i f l) = map g l.
Proof. intros H. revert i; induction l as [|x r IH]; intros [|i]; cbn; auto; f_equal; auto. Qed.

Lemma Forall_upd (P : loc -> Prop) i f l : Forall P l -> (forall x, P x -> P (f x)) -> Forall P (upd i f l).
Proof.
  intros Hl Hf. revert i; induction Hl as [|x r Hx Hr IH]; intros [|i]; cbn; constructor; auto.
Qed.

Lemma Forall_get (P : loc -> Prop) l i : Forall P l -> (i < length l)%nat -> P (get l i).
Proof. intros H Hi. rewrite Forall_forall in H. apply H. apply nth_In. exact Hi. Qed.

(* ---------- filters ---------- *)

Lemma filter_comm {A} (p q : A -> bool) l : filter p (filter q l) = filter q (filter p l).
Proof.
  induction l as [|x l IH]; cbn [filter]; [reflexivity|].
  destruct (p x) eqn:Ep, (q x) eqn:Eq; cbn [filter]; rewrite ?Ep, ?Eq, IH; reflexivity.
Qed.

Lemma excl_tombs_filter p tombs : forall vs, excl_tombs tombs (filter p vs) = filter p (excl_tombs tombs vs).
Proof.
  unfold excl_tombs, excl, exclude_range. induction tombs as [|tb r IH]; intros vs; cbn [fold_left]; [reflexivity|].
  rewrite filter_comm. apply IH.
Qed.

Definition in_tombs (tombs : list (Z * Z)) (t : Z) : bool :=
  existsb (fun tb => (fst tb <=? t) && (t <=? snd tb)) tombs.

Lemma excl_tombs_lookup t tombs : forall vs,
  lookup_last t (excl_tombs tombs vs) = if in_tombs tombs t then None else lookup_last t vs.
Proof.
  unfold excl_tombs. induction tombs as [|tb r IH]; intros vs; cbn [fold_left in_tombs existsb]; [reflexivity|].
  rewrite IH. unfold excl. rewrite lookup_exclude_range. fold (in_tombs r t).
  destruct ((fst tb <=? t) && (t <=? snd tb)); cbn [orb]; [destruct (in_tombs r t); reflexivity|reflexivity].
Qed.

Lemma excl_tombs_sorted tombs : forall vs, ssorted vs -> ssorted (excl_tombs tombs vs).
Proof.
  unfold excl_tombs. induction tombs as [|tb r IH]; intros vs Hs; cbn [fold_left]; [assumption|].
  apply IH. apply filter_ssorted. assumption.
Qed.

Lemma excl_tombs_In tombs : forall vs x, In x (excl_tombs tombs vs) -> In x vs.
Proof.
  unfold excl_tombs. induction tombs as [|tb r IH]; intros vs x Hx; cbn [fold_left] in Hx; [assumption|].
  apply IH in Hx. apply filter_In in Hx. tauto.
Qed.

Lemma filter_len {A} (p : A -> bool) l : (length (filter p l) <= length l)%nat.
Proof. induction l as [|x l IH]; cbn [filter length]; [lia|]. destruct (p x); cbn [length]; lia. Qed.

Lemma excl_tombs_length tombs : forall vs, (length (excl_tombs tombs vs) <= length vs)%nat.
Proof.
  unfold excl_tombs. induction tombs as [|tb r IH]; intros vs; cbn [fold_left]; [lia|].
  etransitivity; [apply IH|]. apply filter_len.
Qed.

(* ---------- what a location holds, what it still has to give ---------- *)

Definition live (l : loc) : list tv := excl_tombs (l_tombs l) (l_vals l).
Definition rem (l : loc) : list tv := cur_values l.

Lemma first_values_rem l : first_values l = rem l.
Proof. unfold first_values, rem, cur_values, excl, exclude_range. apply excl_tombs_filter. Qed.

Definition loc_wf (l : loc) : Prop :=
  ssorted (l_vals l) /\ forall x, In x (l_vals l) -> l_min l <= fst x <= l_max l.

Lemma live_sorted l : loc_wf l -> ssorted (live l).
Proof. intros [H _]. apply excl_tombs_sorted. exact H. Qed.

Lemma rem_sorted l : loc_wf l -> ssorted (rem l).
Proof. intros H. apply filter_ssorted. apply live_sorted. exact H. Qed.

Lemma rem_In l x : In x (rem l) -> In x (live l) /\ negb (in_range (l_rmin l) (l_rmax l) x) = true.
Proof. unfold rem, cur_values, excl, exclude_range. intros H. apply filter_In in H. exact H. Qed.

Lemma rem_bounds l x : loc_wf l -> In x (rem l) -> l_min l <= fst x <= l_max l.
Proof. intros [_ H] Hx. apply rem_In in Hx. destruct Hx as [Hx _]. apply excl_tombs_In in Hx. auto. Qed.

Lemma rem_lookup_gen l t :
  lookup_last t (rem l) = if (l_rmin l <=? t) && (t <=? l_rmax l) then None else lookup_last t (live l).
Proof. unfold rem, cur_values, excl. apply lookup_exclude_range. Qed.

Lemma live_lookup_out l t : loc_wf l -> (t < l_min l \/ l_max l < t) -> lookup_last t (live l) = None.
Proof.
  intros [Hs Hb] Ht. destruct (lookup_last t (live l)) as [v|] eqn:E; [|reflexivity].
  apply in_sorted_lookup in E; [|apply live_sorted; split; assumption].
  apply excl_tombs_In in E. apply Hb in E. cbn in E. lia.
Qed.

Lemma loc_is_read_rem l : loc_wf l -> loc_is_read l = true -> rem l = [].
Proof.
  intros Hwf Hr. unfold loc_is_read in Hr.
  destruct (rem l) as [|x r] eqn:E; [reflexivity|].
  assert (Hx : In x (rem l)) by (rewrite E; left; reflexivity).
  pose proof (rem_bounds _ _ Hwf Hx) as Hb. apply rem_In in Hx. destruct Hx as [_ Hx].
  unfold in_range in Hx. lia.
Qed.

Lemma mark_read_live mn mx l : live (mark_read mn mx l) = live l.
Proof. reflexivity. Qed.

Lemma mark_read_wf mn mx l : loc_wf l -> loc_wf (mark_read mn mx l).
Proof. intros H. exact H. Qed.

(* lists with pointwise equal lookups *)
Lemma lookup_flat_map_ext {A} (f g : A -> list tv) (h : Z -> bool) t l :
  (forall x, In x l -> lookup_last t (f x) = if h t then lookup_last t (g x) else None) ->
  lookup_last t (flat_map f l) = if h t then lookup_last t (flat_map g l) else None.
Proof.
  induction l as [|x l IH]; intros H; cbn [flat_map]; [destruct (h t); reflexivity|].
  rewrite !lookup_last_app. rewrite IH by (intros y Hy; apply H; right; exact Hy).
  rewrite (H x (or_introl eq_refl)). destruct (h t); reflexivity.
Qed.

Lemma lookup_flat_map_none {A} (f : A -> list tv) t l :
  (forall x, In x l -> lookup_last t (f x) = None) -> lookup_last t (flat_map f l) = None.
Proof.
  induction l as [|x l IH]; intros H; cbn [flat_map]; [reflexivity|].
  rewrite lookup_last_app, IH by (intros y Hy; apply H; right; exact Hy). apply H. left. reflexivity.
Qed.

Lemma lookup_none_not_in t l : (forall x, In x l -> fst x <> t) -> lookup_last t l = None.
Proof.
  induction l as [|[t' v] r IH]; intros H; cbn [lookup_last]; [reflexivity|].
  rewrite IH by (intros y Hy; apply H; right; exact Hy).
  specialize (H (t', v) (or_introl eq_refl)). cbn in H. destruct (t' =? t) eqn:E; [lia|reflexivity].
Qed.

Lemma lookup_some_in t l v : lookup_last t l = Some v -> In (t, v) l.
Proof.
  induction l as [|[t' v'] r IH]; cbn [lookup_last]; [discriminate|].
  destruct (lookup_last t r) eqn:E.
  - intros H; inversion H; subst. right. apply IH. reflexivity.
  - destruct (t' =? t) eqn:Et; [|discriminate]. intros H; inversion H; subst. left. f_equal. lia.
Qed.

(* ---------- small list facts ---------- *)

Lemma filter_nil {A} (p : A -> bool) l : (forall x, In x l -> p x = false) -> filter p l = [].
Proof.
  induction l as [|x l IH]; intros H; cbn [filter]; [reflexivity|].
  rewrite (H x (or_introl eq_refl)). apply IH. intros y Hy. apply H. right. exact Hy.
Qed.

Lemma filter_all {A} (p : A -> bool) l : (forall x, In x l -> p x = true) -> filter p l = l.
Proof.
  induction l as [|x l IH]; intros H; cbn [filter]; [reflexivity|].
  rewrite (H x (or_introl eq_refl)). f_equal. apply IH. intros y Hy. apply H. right. exact Hy.
Qed.

Lemma flat_map_ext_in {A B} (f g : A -> list B) l : (forall a, In a l -> f a = g a) -> flat_map f l = flat_map g l.
Proof.
  induction l as [|x l IH]; intros H; cbn [flat_map]; [reflexivity|].
  rewrite (H x (or_introl eq_refl)), IH; [reflexivity|]. intros a Ha. apply H. right. exact Ha.
Qed.

Lemma vmin_le l x : ssorted l -> In x l -> vmin l <= fst x.
Proof.
  destruct l as [|y r]; intros Hs Hx; [destruct Hx|]. destruct Hx as [<-|Hx]; cbn [vmin]; [lia|].
  pose proof (ssorted_all_gt _ _ Hs x Hx). lia.
Qed.

Lemma vmax_ge l : ssorted l -> forall x, In x l -> fst x <= vmax l.
Proof.
  unfold vmax. induction l as [|y r IH]; intros Hs x Hx; [destruct Hx|].
  destruct r as [|z r'].
  - destruct Hx as [<-|[]]. cbn. lia.
  - change (last (y :: z :: r') (0, VInt 0)) with (last (z :: r') (0, VInt 0)).
    destruct Hx as [<-|Hx]; [|apply IH; [exact (ssorted_tail _ _ Hs)|exact Hx]].
    specialize (IH (ssorted_tail _ _ Hs) z (or_introl eq_refl)). cbn in Hs. lia.
Qed.

Lemma vmax_in l : l <> [] -> In (last l (0, VInt 0)) l.
Proof.
  induction l as [|y r IH]; intros H; [congruence|]. destruct r as [|z r']; [left; reflexivity|].
  right. apply IH. discriminate.
Qed.

(* strictly ascending index lists bounded below *)
Fixpoint asc_from (lo : nat) (l : list nat) : Prop :=
  match l with [] => True | j :: r => (lo <= j)%nat /\ asc_from (S j) r end.

Lemma asc_from_weaken l : forall lo lo', asc_from lo l -> (lo' <= lo)%nat -> asc_from lo' l.
Proof. destruct l as [|j r]; cbn; intros; [exact I|]. destruct H. split; [lia|assumption]. Qed.

Lemma asc_from_In l : forall lo j, asc_from lo l -> In j l -> (lo <= j)%nat.
Proof.
  induction l as [|i r IH]; intros lo j H Hj; [destruct Hj|]. cbn in H. destruct H as [H1 H2].
  destruct Hj as [<-|Hj]; [exact H1|]. specialize (IH _ _ H2 Hj). lia.
Qed.

Lemma asc_from_NoDup l : forall lo, asc_from lo l -> NoDup l.
Proof.
  induction l as [|i r IH]; intros lo H; [constructor|]. cbn in H. destruct H as [H1 H2].
  constructor; [|eapply IH; exact H2]. intros Hi. pose proof (asc_from_In _ _ _ H2 Hi). lia.
Qed.

Lemma asc_from_app_r pre : forall l lo, asc_from lo (pre ++ l) -> asc_from lo l.
Proof.
  induction pre as [|i pre IH]; intros l lo H; [exact H|]. cbn in H. destruct H as [H1 H2].
  apply IH in H2. eapply asc_from_weaken; [exact H2|lia].
Qed.

(* selecting the non-empty contributions: if everything outside [cur] contributes nothing,
   the contributions of [cur] (ascending) are the contributions of the whole list *)
Lemma sel_eq {B} (f : loc -> list B) : forall L i0 cur,
  asc_from i0 cur -> (forall j, In j cur -> (j < i0 + length L)%nat) ->
  (forall k, (k < length L)%nat -> ~ In (i0 + k)%nat cur -> f (nth k L dummy_loc) = []) ->
  flat_map f L = flat_map (fun j => f (nth (j - i0) L dummy_loc)) cur.
Proof.
  induction L as [|x L IH]; intros i0 cur Ha Hb He.
  - destruct cur as [|j r]; [reflexivity|]. cbn in Ha. specialize (Hb j (or_introl eq_refl)). cbn in Hb. lia.
  - cbn [flat_map]. destruct cur as [|j r].
    + cbn [flat_map]. assert (E0 : f x = []) by (apply (He 0%nat); [cbn; lia|intros []]). rewrite E0. cbn [app].
      rewrite (IH (S i0) []); [reflexivity|exact I|intros ? []|].
      intros k Hk _. apply (He (S k)); [cbn; lia|intros []].
    + cbn in Ha. destruct Ha as [Hj Hr]. destruct (Nat.eq_dec j i0) as [->|Hne].
      * cbn [flat_map]. rewrite Nat.sub_diag. cbn [nth]. f_equal.
        rewrite (IH (S i0) r).
        -- apply flat_map_ext_in. intros a Ha. pose proof (asc_from_In _ _ _ Hr Ha).
           replace (a - i0)%nat with (S (a - S i0)) by lia. reflexivity.
        -- exact Hr.
        -- intros a Ha. specialize (Hb a (or_intror Ha)). cbn in Hb. lia.
        -- intros k Hk Hn. apply (He (S k)); [cbn; lia|].
           intros [E|Hi]; [lia|]. apply Hn. replace (S i0 + k)%nat with (i0 + S k)%nat by lia. exact Hi.
      * assert (E0 : f x = []).
        { apply (He 0%nat); [cbn; lia|]. rewrite Nat.add_0_r. intros [E|Hi]; [lia|]. pose proof (asc_from_In _ _ _ Hr Hi). lia. }
        rewrite E0. cbn [app]. rewrite (IH (S i0) (j :: r)).
        -- apply flat_map_ext_in. intros a Ha.
           assert (S i0 <= a)%nat. { destruct Ha as [<-|Ha]; [lia|]. pose proof (asc_from_In _ _ _ Hr Ha). lia. }
           replace (a - i0)%nat with (S (a - S i0)) by lia. reflexivity.
        -- cbn. split; [lia|exact Hr].
        -- intros a Ha. specialize (Hb a Ha). cbn in Hb. lia.
        -- intros k Hk Hn. apply (He (S k)); [cbn; lia|].
           replace (i0 + S k)%nat with (S i0 + k)%nat by lia. exact Hn.
Qed.

Lemma sel_eq0 {B} (f : loc -> list B) seeks cur :
  asc_from 0 cur -> (forall j, In j cur -> (j < length seeks)%nat) ->
  (forall j, (j < length seeks)%nat -> ~ In j cur -> f (get seeks j) = []) ->
  flat_map f seeks = flat_map (fun j => f (get seeks j)) cur.
Proof.
  intros Ha Hb He. rewrite (sel_eq f seeks 0 cur Ha); [|exact Hb|exact He].
  apply flat_map_ext_in. intros a _. rewrite Nat.sub_0_r. reflexivity.
Qed.

(* ---------- the ascending invariant of one location, frontier F ---------- *)

Definition asc_ok (F : Z) (l : loc) : Prop :=
  loc_wf l /\ l_rmin l <= l_min l /\ l_rmax l <= F /\
  forall t, lookup_last t (rem l) = if F <? t then lookup_last t (live l) else None.

Lemma asc_ok_mark F F' mn l : asc_ok F l -> F <= F' -> asc_ok F' (mark_read mn F' l).
Proof.
  intros [Hwf [Hmin [Hmax _]]] HF. split; [exact Hwf|].
  assert (E1 : l_rmin (mark_read mn F' l) <= l_min l) by (cbn; destruct (mn <? l_rmin l) eqn:E; lia).
  assert (E2 : l_rmax (mark_read mn F' l) = F') by (cbn; destruct (l_rmax l <? F') eqn:E; lia).
  split; [exact E1|]. split; [lia|].
  intros t. rewrite rem_lookup_gen. rewrite E2. change (live (mark_read mn F' l)) with (live l).
  destruct (F' <? t) eqn:Et.
  - assert ((t <=? F') = false) as -> by lia. rewrite andb_false_r. reflexivity.
  - assert ((t <=? F') = true) as -> by lia. rewrite andb_true_r.
    destruct (l_rmin (mark_read mn F' l) <=? t) eqn:Er; [reflexivity|].
    apply live_lookup_out; [exact Hwf|left; lia].
Qed.

Lemma asc_ok_empty F F' l : asc_ok F l -> rem l = [] -> F <= F' -> asc_ok F' l.
Proof.
  intros [Hwf [Hmin [Hmax Hf]]] He HF. split; [exact Hwf|]. split; [exact Hmin|]. split; [lia|].
  intros t. rewrite He. cbn [lookup_last]. destruct (F' <? t) eqn:Et; [|reflexivity].
  specialize (Hf t). rewrite He in Hf. cbn [lookup_last] in Hf.
  assert (F <? t = true) as E by lia. rewrite E in Hf. exact Hf.
Qed.

Lemma asc_ok_rem_gt F l x : asc_ok F l -> In x (rem l) -> F < fst x.
Proof.
  intros [Hwf [_ [_ Hf]]] Hx. destruct x as [t v].
  apply (in_sorted_lookup t v _ (rem_sorted _ Hwf)) in Hx. rewrite Hf in Hx.
  destruct (F <? t) eqn:E; [cbn; lia|discriminate].
Qed.

(* ---------- the window loops (ascending) ---------- *)

Lemma widen_asc seeks rest : forall mn mx,
  snd (widen true seeks rest mn mx) = mx /\ fst (widen true seeks rest mn mx) <= mn /\
  forall i, In i rest -> loc_is_read (get seeks i) = false -> fst (widen true seeks rest mn mx) <= l_min (get seeks i).
Proof.
  unfold widen. induction rest as [|j r IH]; intros mn mx; cbn [fold_left fst snd].
  - split; [reflexivity|]. split; [lia|]. intros i [].
  - destruct ((l_min (get seeks j) <? mn) && negb (loc_is_read (get seeks j))) eqn:E.
    + destruct (IH (l_min (get seeks j)) mx) as [H1 [H2 H3]]. split; [exact H1|]. split; [lia|].
      intros i [<-|Hi] Hr; [exact H2|apply H3; assumption].
    + destruct (IH mn mx) as [H1 [H2 H3]]. split; [exact H1|]. split; [exact H2|].
      intros i [<-|Hi] Hr; [|apply H3; assumption]. rewrite Hr in E. cbn [negb] in E. lia.
Qed.

Lemma first_overlap_asc seeks rest mn mx :
  fst (first_overlap true seeks rest mn mx) = mn /\ mx <= snd (first_overlap true seeks rest mn mx).
Proof.
  induction rest as [|j r IH]; cbn [first_overlap fst snd]; [split; [reflexivity|lia]|].
  destruct (overlaps_range (get seeks j) mn mx && negb (loc_is_read (get seeks j))); [|exact IH].
  cbn [fst snd]. split; [reflexivity|]. destruct (mx <? l_max (get seeks j)) eqn:E; lia.
Qed.

(* ---------- marking a set of locations ---------- *)

Definition mark_all (mn mx : Z) (rest : list nat) (seeks : list loc) : list loc :=
  fold_left (fun s i => upd i (mark_read mn mx) s) rest seeks.

Lemma mark_all_length mn mx rest : forall seeks, length (mark_all mn mx rest seeks) = length seeks.
Proof. unfold mark_all. induction rest as [|i r IH]; intros seeks; cbn [fold_left]; [reflexivity|]. rewrite IH. apply upd_length. Qed.

Lemma mark_all_live mn mx rest : forall seeks, map live (mark_all mn mx rest seeks) = map live seeks.
Proof.
  unfold mark_all. induction rest as [|i r IH]; intros seeks; cbn [fold_left]; [reflexivity|].
  rewrite IH. apply upd_map. intros x. reflexivity.
Qed.

Lemma mark_all_get_out mn mx rest : forall seeks j, ~ In j rest -> get (mark_all mn mx rest seeks) j = get seeks j.
Proof.
  unfold mark_all. induction rest as [|i r IH]; intros seeks j Hj; cbn [fold_left]; [reflexivity|].
  rewrite IH by (intros H; apply Hj; right; exact H). apply get_upd_other. intros ->. apply Hj. left. reflexivity.
Qed.

Lemma mark_all_get_in mn mx rest : forall seeks j, NoDup rest -> In j rest -> (j < length seeks)%nat ->
  get (mark_all mn mx rest seeks) j = mark_read mn mx (get seeks j).
Proof.
  unfold mark_all. induction rest as [|i r IH]; intros seeks j Hnd Hj Hlt; [destruct Hj|]. cbn [fold_left].
  inversion Hnd as [|? ? Hni Hnd']; subst. destruct (Nat.eq_dec i j) as [->|Hne].
  - fold (mark_all mn mx r (upd j (mark_read mn mx) seeks)). rewrite mark_all_get_out by exact Hni.
    apply get_upd_same. exact Hlt.
  - destruct Hj as [E|Hj]; [congruence|]. rewrite IH; [|exact Hnd'|exact Hj|rewrite upd_length; exact Hlt].
    f_equal. apply get_upd_other. exact Hne.
Qed.

(* ---------- the merge loop (ascending) ---------- *)

Lemma merge_rest_asc mn mx rest : forall values seeks,
  NoDup rest -> Forall loc_wf seeks -> ssorted values ->
  snd (merge_rest true mn mx rest values seeks) = mark_all mn mx rest seeks /\
  ssorted (fst (merge_rest true mn mx rest values seeks)) /\
  forall t, lookup_last t (fst (merge_rest true mn mx rest values seeks)) =
            lookup_last t (values ++ flat_map (fun i => incl mn mx (rem (get seeks i))) rest).
Proof.
  induction rest as [|i r IH]; intros values seeks Hnd Hwf Hs.
  - cbn. rewrite app_nil_r. auto.
  - inversion Hnd as [|? ? Hni Hnd']; subst.
    assert (Hwf1 : Forall loc_wf (upd i (mark_read mn mx) seeks)) by (apply Forall_upd; [exact Hwf|intros x Hx; exact Hx]).
    assert (Hext : flat_map (fun j => incl mn mx (rem (get (upd i (mark_read mn mx) seeks) j))) r =
                   flat_map (fun j => incl mn mx (rem (get seeks j))) r).
    { apply flat_map_ext_in. intros a Ha. rewrite get_upd_other; [reflexivity|]. intros ->. contradiction. }
    assert (Hc : (i < length seeks)%nat -> loc_wf (get seeks i)) by (intros; apply Forall_get; assumption).
    cbn [merge_rest flat_map mark_all fold_left].
    destruct (negb (overlaps_range (get seeks i) mn mx) || loc_is_read (get seeks i)) eqn:Ec.
    + (* contributes nothing inside the window *)
      destruct (IH values _ Hnd' Hwf1 Hs) as [H1 [H2 H3]]. split; [exact H1|]. split; [exact H2|].
      intros t. rewrite H3, Hext.
      assert (E0 : incl mn mx (rem (get seeks i)) = []).
      { destruct (Nat.lt_ge_cases i (length seeks)) as [Hlt|Hge].
        - specialize (Hc Hlt). apply orb_true_iff in Ec. destruct Ec as [Eo|Er].
          + apply filter_nil. intros x Hx. pose proof (rem_bounds _ _ Hc Hx). unfold overlaps_range in Eo. unfold in_range. lia.
          + rewrite loc_is_read_rem by assumption. reflexivity.
        - unfold get. rewrite nth_overflow by exact Hge. reflexivity. }
      rewrite E0. reflexivity.
    + destruct (Nat.lt_ge_cases i (length seeks)) as [Hlt|Hge].
      2:{ unfold get in Ec. rewrite nth_overflow in Ec by exact Hge. change (loc_is_read dummy_loc) with true in Ec. rewrite orb_true_r in Ec. discriminate. }
      specialize (Hc Hlt).
      assert (Hsv : ssorted (incl mn mx (rem (get seeks i)))) by (apply filter_ssorted; apply rem_sorted; exact Hc).
      destruct (cur_values (get seeks i)) as [|y ys] eqn:Ev.
      * destruct (IH values _ Hnd' Hwf1 Hs) as [H1 [H2 H3]]. split; [exact H1|]. split; [exact H2|].
        intros t. rewrite H3, Hext. assert (Er : rem (get seeks i) = []) by exact Ev. rewrite Er. reflexivity.
      * rewrite <- Ev. fold (rem (get seeks i)).
        destruct (IH (merge2 values (incl mn mx (rem (get seeks i)))) _ Hnd' Hwf1) as [H1 [H2 H3]];
          [apply merge2_sorted; assumption|].
        split; [exact H1|]. split; [exact H2|].
        intros t. rewrite H3, Hext. rewrite !lookup_last_app. rewrite merge2_lookup by assumption.
        rewrite !lookup_last_app.
        destruct (lookup_last t (flat_map (fun j : nat => incl mn mx (rem (get seeks j))) r)); reflexivity.
Qed.

(* ---------- one Read<T>Block (ascending) ---------- *)

(* cursor invariant with frontier F: everything at or below F has been returned; every
   location outside [current] has nothing left *)
Definition cur_inv (F : Z) (seeks : list loc) (lo : nat) (cur : list nat) : Prop :=
  Forall (asc_ok F) seeks /\ asc_from lo cur /\ (forall j, In j cur -> (j < length seeks)%nat) /\
  (forall j, (j < length seeks)%nat -> ~ In j cur -> rem (get seeks j) = []).

Lemma lookup_flat_map_incl {A} (g : A -> list tv) mn mx t l :
  lookup_last t (flat_map (fun i => incl mn mx (g i)) l) =
  if (mn <=? t) && (t <=? mx) then lookup_last t (flat_map g l) else None.
Proof.
  apply (lookup_flat_map_ext (fun i => incl mn mx (g i)) g (fun t => (mn <=? t) && (t <=? mx))).
  intros x _. unfold incl. apply lookup_include_range.
Qed.

Lemma rb_finish F seeks lo fi rest mn mx vals seeks' :
  cur_inv F seeks lo (fi :: rest) ->
  rem (get seeks fi) <> [] ->
  (forall i, In i (fi :: rest) -> forall x, In x (rem (get seeks i)) -> mn <= fst x) ->
  vmax (rem (get seeks fi)) <= mx ->
  ssorted vals ->
  (forall t, lookup_last t vals = lookup_last t (flat_map (fun i => incl mn mx (rem (get seeks i))) (fi :: rest))) ->
  length seeks' = length seeks ->
  (forall j, In j (fi :: rest) -> get seeks' j = mark_read mn mx (get seeks j)) ->
  (forall j, ~ In j (fi :: rest) -> get seeks' j = get seeks j) ->
  vals <> [] /\
  exists F', F < F' /\ cur_inv F' seeks' lo (fi :: rest) /\ (forall x, In x vals -> F < fst x <= F') /\
     forall t, lookup_last t vals = if t <=? F' then lookup_last t (flat_map rem seeks) else None.
Proof.
  intros [Hok [Hasc [Hrange Hout]]] Hne Hlow Hhigh Hs Hlk Hlen Hin Hnin.
  set (cur := fi :: rest) in *.
  assert (Hfi : (fi < length seeks)%nat) by (apply Hrange; left; reflexivity).
  assert (Hwf : forall j, (j < length seeks)%nat -> loc_wf (get seeks j)).
  { intros j Hj. pose proof (Forall_get _ _ _ Hok Hj) as H. exact (proj1 H). }
  (* the last value of the first block lies in (F, mx] *)
  pose proof (vmax_in _ Hne) as Hlast. fold (vmax (rem (get seeks fi))) in Hhigh.
  set (xl := last (rem (get seeks fi)) (0, VInt 0)) in *.
  assert (HFx : F < fst xl) by exact (asc_ok_rem_gt F (get seeks fi) xl (Forall_get (asc_ok F) seeks fi Hok Hfi) Hlast).
  assert (Hxmx : fst xl <= mx) by exact Hhigh.
  assert (HF : F < mx) by lia.
  (* the values of the whole list are those of current *)
  assert (Hsel : flat_map rem seeks = flat_map (fun j => rem (get seeks j)) cur).
  { apply sel_eq0; [eapply asc_from_weaken; [exact Hasc|lia]|exact Hrange|exact Hout]. }
  assert (Hform : forall t, lookup_last t vals = if t <=? mx then lookup_last t (flat_map rem seeks) else None).
  { intros t. rewrite Hlk, lookup_flat_map_incl, Hsel.
    destruct (t <=? mx) eqn:E2; [|rewrite andb_false_r; reflexivity]. rewrite andb_true_r.
    destruct (mn <=? t) eqn:E1; [reflexivity|]. symmetry. apply lookup_flat_map_none.
    intros i Hi. apply lookup_none_not_in. intros x Hx. specialize (Hlow i Hi x Hx). lia. }
  assert (Hall : forall t, lookup_last t (flat_map rem seeks) = if F <? t then lookup_last t (flat_map live seeks) else None).
  { intros t. apply (lookup_flat_map_ext rem live (fun t => F <? t)). intros x Hx.
    rewrite Forall_forall in Hok. destruct (Hok x Hx) as [_ [_ [_ Hf]]]. apply Hf. }
  split.
  { (* not empty: the last value of the first block, or whatever overrides it, is returned *)
    intros Hv. specialize (Hform (fst xl)). rewrite Hv in Hform. cbn [lookup_last] in Hform.
    assert (fst xl <=? mx = true) as E by lia. rewrite E in Hform.
    rewrite Hsel in Hform. unfold cur in Hform. cbn [flat_map] in Hform. rewrite lookup_last_app in Hform.
    destruct (lookup_last (fst xl) (flat_map (fun j => rem (get seeks j)) rest)); [discriminate|].
    destruct xl as [tl vl]. cbn [fst] in Hform.
    apply (in_sorted_lookup tl vl _ (rem_sorted _ (Hwf fi Hfi))) in Hlast. rewrite Hlast in Hform. discriminate. }
  exists mx. split; [exact HF|]. split; [|split; [|exact Hform]].
  - split; [|split; [exact Hasc|split]].
    + apply Forall_nth. intros i d Hi. rewrite (nth_indep _ d dummy_loc Hi). fold (get seeks' i).
      rewrite Hlen in Hi. pose proof (Forall_get _ _ _ Hok Hi) as Hoki.
      destruct (in_dec Nat.eq_dec i cur) as [Hic|Hic].
      * rewrite (Hin i Hic). apply (asc_ok_mark F); [exact Hoki|lia].
      * rewrite (Hnin i Hic). apply (asc_ok_empty F); [exact Hoki|apply Hout; assumption|lia].
    + intros j Hj. rewrite Hlen. apply Hrange. exact Hj.
    + intros j Hj Hnj. rewrite Hlen in Hj. rewrite (Hnin j Hnj). apply Hout; assumption.
  - intros [t v] Hx. cbn [fst]. apply (in_sorted_lookup t v _ Hs) in Hx. rewrite Hform in Hx.
    destruct (t <=? mx) eqn:E; [|discriminate]. rewrite Hall in Hx. destruct (F <? t) eqn:E2; [lia|discriminate].
Qed.

Lemma read_block_asc F seeks : forall cur lo, cur_inv F seeks lo cur ->
  forall vals seeks' cur', read_block true seeks cur = (vals, seeks', cur') ->
  length seeks' = length seeks /\ map live seeks' = map live seeks /\ (exists pre, cur = pre ++ cur') /\
  (vals = [] -> seeks' = seeks /\ cur' = [] /\ forall j, (j < length seeks)%nat -> rem (get seeks j) = []) /\
  (vals <> [] -> exists F', F < F' /\ cur_inv F' seeks' lo cur' /\ ssorted vals /\ (forall x, In x vals -> F < fst x <= F') /\
                 forall t, lookup_last t vals = if t <=? F' then lookup_last t (flat_map rem seeks) else None).
Proof.
  induction cur as [|fi rest IH]; intros lo Hinv vals seeks' cur' Hrb.
  - cbn in Hrb. inversion Hrb; subst. destruct Hinv as [_ [_ [_ Hout]]].
    split; [reflexivity|]. split; [reflexivity|]. split; [exists []; reflexivity|]. split; [|congruence].
    intros _. split; [reflexivity|]. split; [reflexivity|]. intros j Hj. apply Hout; [exact Hj|intros []].
  - cbn [read_block] in Hrb. rewrite first_values_rem in Hrb.
    destruct Hinv as [Hok [Hasc [Hrange Hout]]]. cbn [asc_from] in Hasc. destruct Hasc as [Hlo Hasc'].
    assert (Hfi : (fi < length seeks)%nat) by (apply Hrange; left; reflexivity).
    assert (Hwf : forall j, (j < length seeks)%nat -> loc_wf (get seeks j)).
    { intros j Hj. pose proof (Forall_get _ _ _ Hok Hj) as H. exact (proj1 H). }
    assert (Hwfall : Forall loc_wf seeks) by (eapply Forall_impl; [|exact Hok]; intros a Ha; exact (proj1 Ha)).
    destruct (rem (get seeks fi)) as [|x xs] eqn:Ev.
    + (* nothing left in the first block: c.current = c.current[1:] *)
      assert (Hinv' : cur_inv F seeks lo rest).
      { split; [exact Hok|]. split; [eapply asc_from_weaken; [exact Hasc'|lia]|]. split; [intros j Hj; apply Hrange; right; exact Hj|].
        intros j Hj Hnj. destruct (Nat.eq_dec j fi) as [->|Hne]; [exact Ev|]. apply Hout; [exact Hj|].
        intros [E|Hi]; [congruence|contradiction]. }
      destruct (IH lo Hinv' vals seeks' cur' Hrb) as [H1 [H2 [[pre H3] [H4 H5]]]].
      split; [exact H1|]. split; [exact H2|]. split; [exists (fi :: pre); rewrite H3; reflexivity|]. split; assumption.
    + cbv beta iota in Hrb. set (values := x :: xs) in *.
      assert (Hne : rem (get seeks fi) <> []) by (rewrite Ev; discriminate).
      assert (Hsv : ssorted values) by (rewrite <- Ev; apply rem_sorted; apply Hwf; exact Hfi).
      assert (Hinv : cur_inv F seeks lo (fi :: rest)).
      { split; [exact Hok|]. split; [cbn; split; assumption|]. split; assumption. }
      assert (Hnd : NoDup (fi :: rest)) by (eapply (asc_from_NoDup _ fi); cbn; split; [apply Nat.le_refl|exact Hasc']).
      inversion Hnd as [|? ? Hfnr Hndr]; subst.
      assert (Hvin : forall y, In y values -> vmin values <= fst y <= vmax values).
      { intros y Hy. split; [apply vmin_le; assumption|apply vmax_ge; assumption]. }
      destruct rest as [|r0 rest'].
      * (* a single block *)
        cbv beta iota in Hrb. inversion Hrb; subst vals seeks' cur'. clear Hrb.
        destruct (rb_finish F seeks lo fi [] (vmin values) (vmax values) values
                    (upd fi (mark_read (vmin values) (vmax values)) seeks) Hinv Hne) as [Hnv [F' [HF [Hinv' [Hb Hf]]]]].
        -- intros i [<-|[]] y Hy. rewrite Ev in Hy. apply Hvin. exact Hy.
        -- rewrite Ev. lia.
        -- exact Hsv.
        -- intros t. cbn [flat_map]. rewrite app_nil_r, Ev. unfold incl, include_range. rewrite filter_all; [reflexivity|].
           intros y Hy. specialize (Hvin y Hy). unfold in_range. lia.
        -- apply upd_length.
        -- intros j [<-|[]]. apply get_upd_same. exact Hfi.
        -- intros j Hj. apply get_upd_other. intros ->. apply Hj. left. reflexivity.
        -- split; [apply upd_length|]. split; [apply upd_map; intros; reflexivity|]. split; [exists []; reflexivity|].
           split; [intros E; contradiction|]. intros _. exists F'. repeat (split; [assumption|]). exact Hf.
      * set (rest := r0 :: rest') in *.
        pose proof (widen_asc seeks rest (vmin values) (vmax values)) as [Hw1 [Hw2 Hw3]].
        destruct (widen true seeks rest (vmin values) (vmax values)) as [mn1 mx1]. cbn [fst snd] in Hw1, Hw2, Hw3.
        pose proof (first_overlap_asc seeks rest mn1 mx1) as [Ho1 Ho2].
        destruct (first_overlap true seeks rest mn1 mx1) as [mn mx]. cbn [fst snd] in Ho1, Ho2. subst mn mx1.
        assert (Hsi : ssorted (incl mn1 mx values)) by (apply filter_ssorted; exact Hsv).
        pose proof (merge_rest_asc mn1 mx rest (incl mn1 mx values) seeks Hndr Hwfall Hsi) as [Hm1 [Hm2 Hm3]].
        destruct (merge_rest true mn1 mx rest (incl mn1 mx values) seeks) as [vals0 seeks0]. cbn [fst snd] in Hm1, Hm2, Hm3.
        cbv beta iota in Hrb. inversion Hrb; subst vals seeks' cur' seeks0. clear Hrb.
        destruct (rb_finish F seeks lo fi rest mn1 mx vals0
                    (upd fi (mark_read mn1 mx) (mark_all mn1 mx rest seeks)) Hinv Hne) as [Hnv [F' [HF [Hinv' [Hb Hf]]]]].
        -- intros i [<-|Hi] y Hy.
           ++ rewrite Ev in Hy. specialize (Hvin y Hy). lia.
           ++ assert (Hil : (i < length seeks)%nat) by (apply Hrange; right; exact Hi).
              destruct (loc_is_read (get seeks i)) eqn:Er.
              ** rewrite loc_is_read_rem in Hy; [destruct Hy|apply Hwf; exact Hil|exact Er].
              ** specialize (Hw3 i Hi Er). pose proof (rem_bounds _ _ (Hwf i Hil) Hy). lia.
        -- rewrite Ev. lia.
        -- exact Hm2.
        -- intros t. rewrite Hm3. cbn [flat_map]. rewrite Ev. reflexivity.
        -- rewrite upd_length. apply mark_all_length.
        -- intros j [<-|Hj].
           ++ rewrite get_upd_same by (rewrite mark_all_length; exact Hfi). f_equal. apply mark_all_get_out. exact Hfnr.
           ++ rewrite get_upd_other by (intros ->; contradiction). apply mark_all_get_in; [exact Hndr|exact Hj|apply Hrange; right; exact Hj].
        -- intros j Hj. rewrite get_upd_other by (intros ->; apply Hj; left; reflexivity).
           apply mark_all_get_out. intros Hi. apply Hj. right. exact Hi.
        -- split; [rewrite upd_length; apply mark_all_length|].
           split; [rewrite upd_map by (intros; reflexivity); apply mark_all_live|]. split; [exists []; reflexivity|].
           split; [intros E; contradiction|]. intros _. exists F'. repeat (split; [assumption|]). exact Hf.
Qed.

(* ---------- KeyCursor.Next (ascending) ---------- *)

Lemma idx_filter_spec p : forall l i j,
  In j (idx_filter p i l) <-> (i <= j < i + length l)%nat /\ p (nth (j - i) l dummy_loc) = true.
Proof.
  induction l as [|x r IH]; intros i j; cbn [idx_filter length].
  - split; [intros []|intros [H _]; lia].
  - destruct (p x) eqn:Ep; cbn [In]; rewrite IH; split.
    + intros [<-|[H1 H2]]; [split; [lia|rewrite Nat.sub_diag; exact Ep]|split; [lia|]].
      replace (j - i)%nat with (S (j - S i)) by lia. exact H2.
    + intros [H1 H2]. destruct (Nat.eq_dec i j) as [E|E]; [left; exact E|right]. split; [lia|].
      replace (j - i)%nat with (S (j - S i)) in H2 by lia. exact H2.
    + intros [H1 H2]. split; [lia|]. replace (j - i)%nat with (S (j - S i)) by lia. exact H2.
    + intros [H1 H2]. destruct (Nat.eq_dec i j) as [<-|E].
      { rewrite Nat.sub_diag in H2. cbn [nth] in H2. congruence. }
      split; [lia|]. replace (j - i)%nat with (S (j - S i)) in H2 by lia. exact H2.
Qed.

Lemma idx_filter_asc p : forall l i, asc_from i (idx_filter p i l).
Proof.
  induction l as [|x r IH]; intros i; cbn [idx_filter]; [exact I|].
  destruct (p x); [cbn; split; [lia|apply IH]|]. eapply asc_from_weaken; [apply IH|lia].
Qed.

Lemma find_unread_spec : forall l i,
  match find_unread i l with
  | Some p => (i <= p < i + length l)%nat /\ loc_is_read (nth (p - i) l dummy_loc) = false /\
              forall k, (k < p - i)%nat -> loc_is_read (nth k l dummy_loc) = true
  | None => forall k, (k < length l)%nat -> loc_is_read (nth k l dummy_loc) = true
  end.
Proof.
  induction l as [|x r IH]; intros i; cbn [find_unread length].
  - intros k Hk. lia.
  - destruct (loc_is_read x) eqn:Ex.
    + specialize (IH (S i)). destruct (find_unread (S i) r) as [p|].
      * destruct IH as [H1 [H2 H3]]. split; [lia|]. replace (p - i)%nat with (S (p - S i)) by lia. split; [exact H2|].
        intros [|k] Hk; [exact Ex|]. apply H3. lia.
      * intros [|k] Hk; [exact Ex|]. apply IH. lia.
    + split; [lia|]. rewrite Nat.sub_diag. split; [exact Ex|]. intros k Hk. lia.
Qed.

Lemma nth_skipn_eq {A} (d : A) : forall n l k, nth k (skipn n l) d = nth (n + k) l d.
Proof.
  induction n as [|n IH]; intros l k; [reflexivity|].
  destruct l as [|x l]; [cbn; destruct k; reflexivity|]. cbn [skipn plus nth]. apply IH.
Qed.

Lemma kc_next_asc F c : k_asc c = true -> cur_inv F (k_seeks c) (k_pos c) (k_cur c) ->
  k_asc (kc_next c) = true /\ k_seeks (kc_next c) = k_seeks c /\
  cur_inv F (k_seeks (kc_next c)) (k_pos (kc_next c)) (k_cur (kc_next c)).
Proof.
  intros Hasc Hinv. unfold kc_next. destruct (k_cur c) as [|i r] eqn:Ec; [rewrite Ec; auto|].
  destruct (negb (loc_is_read (get (k_seeks c) i))) eqn:Er; [rewrite Ec; auto|].
  rewrite Hasc. unfold next_asc. set (seeks := k_seeks c) in *. set (pos := k_pos c) in *.
  destruct Hinv as [Hok [Hasc' [Hrange Hout]]].
  assert (Hwf : forall j, (j < length seeks)%nat -> loc_wf (get seeks j)).
  { intros j Hj. pose proof (Forall_get _ _ _ Hok Hj) as H. exact (proj1 H). }
  (* everything at or before pos has nothing left *)
  assert (Hold : forall j, (j < length seeks)%nat -> (j <= pos)%nat -> rem (get seeks j) = []).
  { intros j Hj Hjp. destruct (in_dec Nat.eq_dec j (i :: r)) as [Hin|Hnin]; [|apply Hout; assumption].
    cbn [asc_from] in Hasc'. destruct Hasc' as [Hpi Hr].
    assert (j = i). { destruct Hin as [E|Hin]; [congruence|]. pose proof (asc_from_In _ _ _ Hr Hin). lia. }
    subst j. apply loc_is_read_rem; [apply Hwf; exact Hj|]. destruct (loc_is_read (get seeks i)); [reflexivity|discriminate]. }
  pose proof (find_unread_spec (skipn (S pos) seeks) (S pos)) as Hfu.
  pose proof (skipn_length (S pos) seeks) as Hsl.
  destruct (find_unread (S pos) (skipn (S pos) seeks)) as [p|]; cbn [k_asc k_seeks k_pos k_cur].
  - destruct Hfu as [H1 [H2 H3]]. split; [reflexivity|]. split; [reflexivity|].
    pose proof (skipn_length (S p) seeks) as Hsl2.
    split; [exact Hok|]. split; [cbn [asc_from]; split; [lia|apply idx_filter_asc]|]. split.
    + intros j [<-|Hj]; [lia|]. apply idx_filter_spec in Hj. lia.
    + intros j Hj Hnj. destruct (Nat.le_gt_cases j pos) as [Hle|Hgt]; [apply Hold; assumption|].
      apply loc_is_read_rem; [apply Hwf; exact Hj|].
      destruct (Nat.lt_trichotomy j p) as [Hlt|[->|Hgt2]].
      * specialize (H3 (j - S pos)%nat ltac:(lia)). rewrite nth_skipn_eq in H3.
        replace (S pos + (j - S pos))%nat with j in H3 by lia. exact H3.
      * exfalso. apply Hnj. left. reflexivity.
      * destruct (loc_is_read (get seeks j)) eqn:Ej; [reflexivity|]. exfalso. apply Hnj. right.
        unfold unread_idx. apply idx_filter_spec. split; [lia|]. rewrite nth_skipn_eq.
        replace (S p + (j - S p))%nat with j by lia. fold (get seeks j). rewrite Ej. reflexivity.
  - split; [reflexivity|]. split; [reflexivity|]. split; [exact Hok|]. split; [exact I|]. split; [intros j []|].
    intros j Hj _. destruct (Nat.le_gt_cases j pos) as [Hle|Hgt]; [apply Hold; assumption|].
    apply loc_is_read_rem; [apply Hwf; exact Hj|].
    specialize (Hfu (j - S pos)%nat ltac:(lia)). rewrite nth_skipn_eq in Hfu.
    replace (S pos + (j - S pos))%nat with j in Hfu by lia. exact Hfu.
Qed.

(* ---------- the whole stream (ascending) ---------- *)

Definition m_left (F : Z) (seeks : list loc) : nat :=
  length (filter (fun x : tv => F <? fst x) (flat_map live seeks)).

Lemma filter_len_lt {A} (p q : A -> bool) l :
  (forall y, q y = true -> p y = true) -> (exists x, In x l /\ p x = true /\ q x = false) ->
  (length (filter q l) < length (filter p l))%nat.
Proof.
  intros Himp. induction l as [|y l IH]; intros [x [Hx [Hp Hq]]]; [destruct Hx|].
  assert (Hle : (length (filter q l) <= length (filter p l))%nat).
  { clear -Himp. induction l as [|z l IH]; cbn [filter length]; [lia|].
    destruct (q z) eqn:Eq; [rewrite (Himp z Eq); cbn [length]; lia|]. destruct (p z); cbn [length]; lia. }
  cbn [filter]. destruct Hx as [->|Hx].
  - rewrite Hp, Hq. cbn [length]. lia.
  - specialize (IH (ex_intro _ x (conj Hx (conj Hp Hq)))).
    destruct (q y) eqn:Eq; [rewrite (Himp y Eq); cbn [length]; lia|]. destruct (p y); cbn [length]; lia.
Qed.

Lemma ssorted_app a : forall b, ssorted a -> ssorted b -> (forall x y, In x a -> In y b -> fst x < fst y) -> ssorted (a ++ b).
Proof.
  induction a as [|x a IH]; intros b Ha Hb Hab; [exact Hb|]. cbn [app].
  apply ssorted_cons.
  - intros y Hy. apply in_app_or in Hy. destruct Hy as [Hy|Hy]; [exact (ssorted_all_gt _ _ Ha y Hy)|apply Hab; [left; reflexivity|exact Hy]].
  - apply IH; [exact (ssorted_tail _ _ Ha)|exact Hb|]. intros u v Hu Hv. apply Hab; [right; exact Hu|exact Hv].
Qed.

Lemma flat_map_live_eq a b : map live a = map live b -> flat_map live a = flat_map live b.
Proof. intros H. rewrite !flat_map_concat_map, H. reflexivity. Qed.

Lemma kc_stream_asc : forall fuel c F,
  k_asc c = true -> cur_inv F (k_seeks c) (k_pos c) (k_cur c) -> (m_left F (k_seeks c) < fuel)%nat ->
  ssorted (concat (kc_stream fuel c)) /\ (forall x, In x (concat (kc_stream fuel c)) -> F < fst x) /\
  forall t, lookup_last t (concat (kc_stream fuel c)) = if F <? t then lookup_last t (flat_map live (k_seeks c)) else None.
Proof.
  induction fuel as [|f IH]; intros c F Hasc Hinv Hm; [lia|].
  cbn [kc_stream]. unfold kc_read. rewrite Hasc.
  destruct (read_block true (k_seeks c) (k_cur c)) as [[vals seeks'] cur'] eqn:Erb.
  pose proof Hinv as [Hok _].
  destruct (read_block_asc F _ _ _ Hinv _ _ _ Erb) as [Hlen [Hlive [_ [Hnil Hcons]]]].
  assert (Hall : forall t, lookup_last t (flat_map rem (k_seeks c)) = if F <? t then lookup_last t (flat_map live (k_seeks c)) else None).
  { intros t. apply (lookup_flat_map_ext rem live (fun t => F <? t)). intros x Hx.
    rewrite Forall_forall in Hok. destruct (Hok x Hx) as [_ [_ [_ Hf]]]. apply Hf. }
  destruct vals as [|v0 vs].
  - destruct (Hnil eq_refl) as [_ [_ Hemp]]. cbn [concat]. split; [exact I|]. split; [intros x []|].
    intros t. cbn [lookup_last]. rewrite <- Hall. symmetry. apply lookup_flat_map_none.
    intros l Hl. destruct (In_nth _ _ dummy_loc Hl) as [j [Hj Hnth]]. fold (get (k_seeks c) j) in Hnth.
    rewrite <- Hnth, (Hemp j Hj). reflexivity.
  - destruct (Hcons ltac:(discriminate)) as [F' [HF [Hinv' [Hsv [Hb Hf]]]]].
    set (c1 := {| k_seeks := seeks'; k_cur := cur'; k_pos := k_pos c; k_asc := true |}).
    destruct (kc_next_asc F' c1 eq_refl Hinv') as [Hasc2 [Hseeks2 Hinv2]].
    assert (Hlive2 : flat_map live (k_seeks (kc_next c1)) = flat_map live (k_seeks c)).
    { rewrite Hseeks2. apply flat_map_live_eq. exact Hlive. }
    assert (Hm2 : (m_left F' (k_seeks (kc_next c1)) < f)%nat).
    { unfold m_left in *. rewrite Hlive2.
      assert (length (filter (fun x : tv => (F' <? fst x)%Z) (flat_map live (k_seeks c))) <
              length (filter (fun x : tv => (F <? fst x)%Z) (flat_map live (k_seeks c))))%nat; [|lia].
      apply filter_len_lt; [intros y Hy; lia|]. exists v0.
      destruct v0 as [t0 w0]. pose proof (Hb (t0, w0) (or_introl eq_refl)) as Hb0. cbn [fst] in Hb0.
      split; [|split; cbn [fst]; lia].
      assert (E : lookup_last t0 ((t0, w0) :: vs) = Some w0) by (apply lookup_last_sorted_head; exact Hsv).
      rewrite Hf in E. assert (t0 <=? F' = true) as E2 by lia. rewrite E2 in E.
      apply lookup_some_in in E. apply in_flat_map in E. destruct E as [l [Hl Hin]].
      apply in_flat_map. exists l. split; [exact Hl|]. apply rem_In in Hin. tauto. }
    destruct (IH (kc_next c1) F' Hasc2 Hinv2 Hm2) as [Hs2 [Hgt2 Hl2]].
    fold c1. cbn [concat]. set (rest := concat (kc_stream f (kc_next c1))) in *.
    split; [|split].
    + apply ssorted_app; [exact Hsv|exact Hs2|]. intros x y Hx Hy. specialize (Hb x Hx). specialize (Hgt2 y Hy). lia.
    + intros x Hx. apply in_app_or in Hx. destruct Hx as [Hx|Hx]; [specialize (Hb x Hx); lia|specialize (Hgt2 x Hx); lia].
    + intros t. rewrite lookup_last_app, Hl2, Hf, Hall, Hlive2.
      destruct (F' <? t) eqn:E1; destruct (t <=? F') eqn:E2; destruct (F <? t) eqn:E3; try lia;
        destruct (lookup_last t (flat_map live (k_seeks c))); reflexivity.
Qed.
