(* C02/BlocksRefineDesc.v — the DESCENDING KeyCursor: mirror of BlocksRefine.v.  The frontier F
   moves down: everything at or above F has been returned.  Differences from the ascending
   case that the proof has to absorb: [current] is in descending index order, the merge is
   flipped (v.Merge(values): the earlier location of current wins), and nextDescending puts
   the first location into current twice. *)
From Verif Require Import Shard.Store C02.Spec C02.Fast C02.FastProofs C02.Blocks C02.BlocksProofs C02.BlocksRefine.
From Coq Require Import ZifyBool Permutation.
Open Scope Z_scope.

Definition desc_ok (F : Z) (l : loc) : Prop :=
  loc_wf l /\ l_max l <= l_rmax l /\ F <= l_rmin l /\
  forall t, lookup_last t (rem l) = if t <? F then lookup_last t (live l) else None.

Lemma desc_ok_mark F F' mx l : desc_ok F l -> F' <= F -> desc_ok F' (mark_read F' mx l).
Proof.
  intros [Hwf [Hmax [Hmin _]]] HF. split; [exact Hwf|].
  assert (E1 : l_rmin (mark_read F' mx l) = F') by (cbn; destruct (F' <? l_rmin l) eqn:E; lia).
  assert (E2 : l_max l <= l_rmax (mark_read F' mx l)) by (cbn; destruct (l_rmax l <? mx) eqn:E; lia).
  split; [exact E2|]. split; [lia|].
  intros t. rewrite rem_lookup_gen. rewrite E1. change (live (mark_read F' mx l)) with (live l).
  destruct (t <? F') eqn:Et.
  - assert ((F' <=? t) = false) as -> by lia. reflexivity.
  - assert ((F' <=? t) = true) as -> by lia. cbn [andb].
    destruct (t <=? l_rmax (mark_read F' mx l)) eqn:Er; [reflexivity|].
    apply live_lookup_out; [exact Hwf|right; lia].
Qed.

Lemma desc_ok_empty F F' l : desc_ok F l -> rem l = [] -> F' <= F -> desc_ok F' l.
Proof.
  intros [Hwf [Hmax [Hmin Hf]]] He HF. split; [exact Hwf|]. split; [exact Hmax|]. split; [lia|].
  intros t. rewrite He. cbn [lookup_last]. destruct (t <? F') eqn:Et; [|reflexivity].
  specialize (Hf t). rewrite He in Hf. cbn [lookup_last] in Hf.
  assert (t <? F = true) as E by lia. rewrite E in Hf. exact Hf.
Qed.

Lemma desc_ok_rem_lt F l x : desc_ok F l -> In x (rem l) -> fst x < F.
Proof.
  intros [Hwf [_ [_ Hf]]] Hx. destruct x as [t v].
  apply (in_sorted_lookup t v _ (rem_sorted _ Hwf)) in Hx. rewrite Hf in Hx.
  destruct (t <? F) eqn:E; [cbn; lia|discriminate].
Qed.

(* ---------- the window loops (descending) ---------- *)

Lemma widen_desc seeks rest : forall mn mx,
  fst (widen false seeks rest mn mx) = mn /\ mx <= snd (widen false seeks rest mn mx) /\
  forall i, In i rest -> loc_is_read (get seeks i) = false -> l_max (get seeks i) <= snd (widen false seeks rest mn mx).
Proof.
  unfold widen. induction rest as [|j r IH]; intros mn mx; cbn [fold_left fst snd].
  - split; [reflexivity|]. split; [lia|]. intros i [].
  - destruct ((mx <? l_max (get seeks j)) && negb (loc_is_read (get seeks j))) eqn:E.
    + destruct (IH mn (l_max (get seeks j))) as [H1 [H2 H3]]. split; [exact H1|]. split; [lia|].
      intros i [<-|Hi] Hr; [exact H2|apply H3; assumption].
    + destruct (IH mn mx) as [H1 [H2 H3]]. split; [exact H1|]. split; [exact H2|].
      intros i [<-|Hi] Hr; [|apply H3; assumption]. rewrite Hr in E. cbn [negb] in E. lia.
Qed.

Lemma first_overlap_desc seeks rest mn mx :
  snd (first_overlap false seeks rest mn mx) = mx /\ fst (first_overlap false seeks rest mn mx) <= mn.
Proof.
  induction rest as [|j r IH]; cbn [first_overlap fst snd]; [split; [reflexivity|lia]|].
  destruct (overlaps_range (get seeks j) mn mx && negb (loc_is_read (get seeks j))); [|exact IH].
  cbn [fst snd]. split; [reflexivity|]. destruct (l_min (get seeks j) <? mn) eqn:E; lia.
Qed.

(* ---------- the merge loop (descending): the earlier location of current wins ---------- *)

Lemma merge_rest_desc mn mx rest : forall values seeks,
  NoDup rest -> Forall loc_wf seeks -> ssorted values ->
  snd (merge_rest false mn mx rest values seeks) = mark_all mn mx rest seeks /\
  ssorted (fst (merge_rest false mn mx rest values seeks)) /\
  forall t, lookup_last t (fst (merge_rest false mn mx rest values seeks)) =
            lookup_last t (flat_map (fun i => incl mn mx (rem (get seeks i))) (rev rest) ++ values).
Proof.
  induction rest as [|i r IH]; intros values seeks Hnd Hwf Hs.
  - cbn. auto.
  - inversion Hnd as [|? ? Hni Hnd']; subst.
    assert (Hwf1 : Forall loc_wf (upd i (mark_read mn mx) seeks)) by (apply Forall_upd; [exact Hwf|intros x Hx; exact Hx]).
    assert (Hext : flat_map (fun j => incl mn mx (rem (get (upd i (mark_read mn mx) seeks) j))) (rev r) =
                   flat_map (fun j => incl mn mx (rem (get seeks j))) (rev r)).
    { apply flat_map_ext_in. intros a Ha. apply in_rev in Ha. rewrite get_upd_other; [reflexivity|]. intros ->. contradiction. }
    assert (Hc : (i < length seeks)%nat -> loc_wf (get seeks i)) by (intros; apply Forall_get; assumption).
    cbn [merge_rest mark_all fold_left rev]. rewrite flat_map_app. cbn [flat_map]. rewrite app_nil_r.
    destruct (negb (overlaps_range (get seeks i) mn mx) || loc_is_read (get seeks i)) eqn:Ec.
    + destruct (IH values _ Hnd' Hwf1 Hs) as [H1 [H2 H3]]. split; [exact H1|]. split; [exact H2|].
      intros t. rewrite H3, Hext.
      assert (E0 : incl mn mx (rem (get seeks i)) = []).
      { destruct (Nat.lt_ge_cases i (length seeks)) as [Hlt|Hge].
        - specialize (Hc Hlt). apply orb_true_iff in Ec. destruct Ec as [Eo|Er].
          + apply filter_nil. intros x Hx. pose proof (rem_bounds _ _ Hc Hx). unfold overlaps_range in Eo. unfold in_range. lia.
          + rewrite loc_is_read_rem by assumption. reflexivity.
        - unfold get. rewrite nth_overflow by exact Hge. reflexivity. }
      rewrite E0, app_nil_r. reflexivity.
    + destruct (Nat.lt_ge_cases i (length seeks)) as [Hlt|Hge].
      2:{ unfold get in Ec. rewrite nth_overflow in Ec by exact Hge. change (loc_is_read dummy_loc) with true in Ec. rewrite orb_true_r in Ec. discriminate. }
      specialize (Hc Hlt).
      assert (Hsv : ssorted (incl mn mx (rem (get seeks i)))) by (apply filter_ssorted; apply rem_sorted; exact Hc).
      destruct (cur_values (get seeks i)) as [|y ys] eqn:Ev.
      * destruct (IH values _ Hnd' Hwf1 Hs) as [H1 [H2 H3]]. split; [exact H1|]. split; [exact H2|].
        intros t. rewrite H3, Hext. assert (Er : rem (get seeks i) = []) by exact Ev. rewrite Er. cbn [incl include_range filter]. rewrite app_nil_r. reflexivity.
      * rewrite <- Ev. fold (rem (get seeks i)).
        destruct (IH (merge2 (incl mn mx (rem (get seeks i))) values) _ Hnd' Hwf1) as [H1 [H2 H3]];
          [apply merge2_sorted; assumption|].
        split; [exact H1|]. split; [exact H2|].
        intros t. rewrite H3, Hext. rewrite !lookup_last_app. rewrite merge2_lookup by assumption.
        rewrite !lookup_last_app.
        destruct (lookup_last t values); reflexivity.
Qed.

Lemma mark_read_idem mn mx l : mark_read mn mx (mark_read mn mx l) = mark_read mn mx l.
Proof.
  unfold mark_read. cbn [l_file l_min l_max l_vals l_tombs l_rmin l_rmax]. f_equal.
  - destruct (mn <? l_rmin l) eqn:E; [rewrite Z.ltb_irrefl; reflexivity|rewrite E; reflexivity].
  - destruct (l_rmax l <? mx) eqn:E; [rewrite Z.ltb_irrefl; reflexivity|rewrite E; reflexivity].
Qed.

(* ---------- one Read<T>Block (descending) ---------- *)

Lemma rb_finish_desc F seeks fi rest mn mx vals seeks' :
  Forall (desc_ok F) seeks ->
  (forall j, In j (fi :: rest) -> (j < length seeks)%nat) ->
  (forall j, (j < length seeks)%nat -> ~ In j (fi :: rest) -> rem (get seeks j) = []) ->
  (forall t, lookup_last t (flat_map rem seeks) = lookup_last t (flat_map (fun j => rem (get seeks j)) (rev (fi :: rest)))) ->
  rem (get seeks fi) <> [] ->
  (forall i, In i (fi :: rest) -> forall x, In x (rem (get seeks i)) -> fst x <= mx) ->
  mn <= vmin (rem (get seeks fi)) ->
  ssorted vals ->
  (forall t, lookup_last t vals = lookup_last t (flat_map (fun i => incl mn mx (rem (get seeks i))) (rev (fi :: rest)))) ->
  length seeks' = length seeks ->
  (forall j, In j (fi :: rest) -> get seeks' j = mark_read mn mx (get seeks j)) ->
  (forall j, ~ In j (fi :: rest) -> get seeks' j = get seeks j) ->
  vals <> [] /\
  exists F', F' < F /\ Forall (desc_ok F') seeks' /\
     (forall j, (j < length seeks)%nat -> ~ In j (fi :: rest) -> rem (get seeks' j) = []) /\
     (forall x, In x vals -> F' <= fst x < F) /\
     forall t, lookup_last t vals = if F' <=? t then lookup_last t (flat_map rem seeks) else None.
Proof.
  intros Hok Hrange Hout Hsel Hne Hhigh Hlow Hs Hlk Hlen Hin Hnin.
  set (cur := fi :: rest) in *.
  assert (Hfi : (fi < length seeks)%nat) by (apply Hrange; left; reflexivity).
  assert (Hwf : forall j, (j < length seeks)%nat -> loc_wf (get seeks j)).
  { intros j Hj. pose proof (Forall_get _ _ _ Hok Hj) as H. exact (proj1 H). }
  destruct (rem (get seeks fi)) as [|x0 xs] eqn:Ev; [congruence|]. cbn [vmin] in Hlow.
  assert (Hx0 : In x0 (rem (get seeks fi))) by (rewrite Ev; left; reflexivity).
  assert (HFx : fst x0 < F) by exact (desc_ok_rem_lt F (get seeks fi) x0 (Forall_get (desc_ok F) seeks fi Hok Hfi) Hx0).
  assert (HF : mn < F) by lia.
  assert (Hform : forall t, lookup_last t vals = if mn <=? t then lookup_last t (flat_map rem seeks) else None).
  { intros t. rewrite Hlk, lookup_flat_map_incl, Hsel.
    destruct (mn <=? t) eqn:E1; [|reflexivity]. cbn [andb].
    destruct (t <=? mx) eqn:E2; [reflexivity|]. symmetry. apply lookup_flat_map_none.
    intros i Hi. apply in_rev in Hi. apply lookup_none_not_in. intros x Hx. specialize (Hhigh i Hi x Hx). lia. }
  assert (Hall : forall t, lookup_last t (flat_map rem seeks) = if t <? F then lookup_last t (flat_map live seeks) else None).
  { intros t. apply (lookup_flat_map_ext rem live (fun t => t <? F)). intros x Hx.
    rewrite Forall_forall in Hok. destruct (Hok x Hx) as [_ [_ [_ Hf]]]. apply Hf. }
  split.
  { intros Hv. specialize (Hform (fst x0)). rewrite Hv in Hform. cbn [lookup_last] in Hform.
    assert (mn <=? fst x0 = true) as E by lia. rewrite E in Hform.
    rewrite Hsel in Hform. unfold cur in Hform. cbn [rev] in Hform. rewrite flat_map_app in Hform. cbn [flat_map] in Hform.
    rewrite app_nil_r, lookup_last_app, Ev in Hform. destruct x0 as [t0 v0]. cbn [fst] in Hform.
    assert (Hsv : ssorted ((t0, v0) :: xs)) by (rewrite <- Ev; apply rem_sorted; apply Hwf; exact Hfi).
    rewrite (lookup_last_sorted_head _ _ _ Hsv) in Hform. discriminate. }
  exists mn. split; [exact HF|]. split; [|split; [|split; [|exact Hform]]].
  - apply Forall_nth. intros i d Hi. rewrite (nth_indep _ d dummy_loc Hi). fold (get seeks' i).
    rewrite Hlen in Hi. pose proof (Forall_get _ _ _ Hok Hi) as Hoki.
    destruct (in_dec Nat.eq_dec i cur) as [Hic|Hic].
    + rewrite (Hin i Hic). apply (desc_ok_mark F); [exact Hoki|lia].
    + rewrite (Hnin i Hic). apply (desc_ok_empty F); [exact Hoki|apply Hout; assumption|lia].
  - intros j Hj Hnj. rewrite (Hnin j Hnj). apply Hout; assumption.
  - intros [t v] Hx. cbn [fst]. apply (in_sorted_lookup t v _ Hs) in Hx. rewrite Hform in Hx.
    destruct (mn <=? t) eqn:E; [|discriminate]. rewrite Hall in Hx. destruct (t <? F) eqn:E2; [lia|discriminate].
Qed.

(* ---------- the shape of [current] in a descending cursor ---------- *)

Fixpoint dfrom (b : nat) (l : list nat) : Prop :=
  match l with [] => True | j :: r => (j < b)%nat /\ dfrom j r end.

(* strictly descending below b, possibly with the first index doubled (nextDescending) *)
Definition dcur (b : nat) (cur : list nat) : Prop :=
  dfrom b cur \/ exists fi r, cur = fi :: fi :: r /\ (fi < b)%nat /\ dfrom fi r.

Lemma dfrom_weaken l : forall b b', dfrom b l -> (b <= b')%nat -> dfrom b' l.
Proof. destruct l as [|j r]; cbn; intros; [exact I|]. destruct H. split; [lia|assumption]. Qed.

Lemma dfrom_In l : forall b j, dfrom b l -> In j l -> (j < b)%nat.
Proof.
  induction l as [|i r IH]; intros b j H Hj; [destruct Hj|]. cbn in H. destruct H as [H1 H2].
  destruct Hj as [<-|Hj]; [exact H1|]. specialize (IH _ _ H2 Hj). lia.
Qed.

Lemma dfrom_NoDup l : forall b, dfrom b l -> NoDup l.
Proof.
  induction l as [|i r IH]; intros b H; [constructor|]. cbn in H. destruct H as [H1 H2].
  constructor; [|eapply IH; exact H2]. intros Hi. pose proof (dfrom_In _ _ _ H2 Hi). lia.
Qed.

Lemma dfrom_app_r pre : forall l b, dfrom b (pre ++ l) -> dfrom b l.
Proof.
  induction pre as [|i pre IH]; intros l b H; [exact H|]. cbn in H. destruct H as [H1 H2].
  apply IH in H2. eapply dfrom_weaken; [exact H2|lia].
Qed.

Lemma dcur_suffix b pre l : dcur b (pre ++ l) -> dcur b l.
Proof.
  intros [H|[fi [r [E [Hb Hr]]]]]; [left; eapply dfrom_app_r; exact H|].
  destruct pre as [|a [|a' pre']]; cbn [app] in E.
  - right. exists fi, r. auto.
  - inversion E; subst. left. cbn. split; assumption.
  - inversion E; subst. left. apply dfrom_app_r in Hr. eapply dfrom_weaken; [exact Hr|lia].
Qed.

Lemma dcur_In b cur j : dcur b cur -> In j cur -> (j < b)%nat.
Proof.
  intros [H|[fi [r [-> [Hb Hr]]]]] Hj; [eapply dfrom_In; eassumption|].
  destruct Hj as [<-|[<-|Hj]]; [exact Hb|exact Hb|]. pose proof (dfrom_In _ _ _ Hr Hj). lia.
Qed.

Lemma dcur_tl_NoDup b cur : dcur b cur -> NoDup (tl cur).
Proof.
  intros [H|[fi [r [-> [Hb Hr]]]]].
  - destruct cur as [|j r]; [constructor|]. cbn in *. eapply dfrom_NoDup. exact (proj2 H).
  - cbn [tl]. apply (dfrom_NoDup _ (S fi)). cbn. split; [lia|exact Hr].
Qed.

Lemma dcur_hd_max b cur j : dcur b cur -> In j cur -> (j <= hd 0%nat cur)%nat.
Proof.
  intros [H|[fi [r [-> [Hb Hr]]]]] Hj.
  - destruct cur as [|i r]; [destruct Hj|]. cbn [hd]. destruct Hj as [<-|Hj]; [lia|]. cbn in H.
    pose proof (dfrom_In _ _ _ (proj2 H) Hj). lia.
  - cbn [hd]. destruct Hj as [<-|[<-|Hj]]; [lia|lia|]. pose proof (dfrom_In _ _ _ Hr Hj). lia.
Qed.

Lemma asc_from_snoc a : forall lo j, asc_from lo a -> (lo <= j)%nat -> (forall x, In x a -> (x < j)%nat) -> asc_from lo (a ++ [j]).
Proof.
  induction a as [|i a IH]; intros lo j Ha Hlo Hlt; cbn [app asc_from]; [split; [exact Hlo|exact I]|].
  cbn in Ha. destruct Ha as [H1 H2]. split; [exact H1|]. apply IH; [exact H2| |intros x Hx; apply Hlt; right; exact Hx].
  specialize (Hlt i (or_introl eq_refl)). lia.
Qed.

Lemma dfrom_rev_asc l : forall b, dfrom b l -> asc_from 0 (rev l).
Proof.
  induction l as [|j r IH]; intros b H; [exact I|]. cbn in H. destruct H as [H1 H2]. cbn [rev].
  apply asc_from_snoc; [eapply IH; exact H2|lia|]. intros x Hx. apply in_rev in Hx. eapply dfrom_In; eassumption.
Qed.

Lemma lookup_app_dup t a b : lookup_last t (a ++ b ++ b) = lookup_last t (a ++ b).
Proof. rewrite !lookup_last_app. destruct (lookup_last t b); reflexivity. Qed.

Lemma sel_desc seeks b cur :
  dcur b cur -> (forall j, In j cur -> (j < length seeks)%nat) ->
  (forall j, (j < length seeks)%nat -> ~ In j cur -> rem (get seeks j) = []) ->
  forall t, lookup_last t (flat_map rem seeks) = lookup_last t (flat_map (fun j => rem (get seeks j)) (rev cur)).
Proof.
  intros [H|[fi [r [-> [Hb Hr]]]]] Hrange Hout t.
  - rewrite (sel_eq0 rem seeks (rev cur)); [reflexivity|eapply dfrom_rev_asc; exact H| |].
    + intros j Hj. apply Hrange. apply in_rev. exact Hj.
    + intros j Hj Hnj. apply Hout; [exact Hj|]. intros Hi. apply Hnj. apply -> in_rev. exact Hi.
  - assert (Hd : dfrom (S fi) (fi :: r)) by (cbn; split; [lia|exact Hr]).
    rewrite (sel_eq0 rem seeks (rev (fi :: r))); [|eapply dfrom_rev_asc; exact Hd| |].
    + cbn [rev]. rewrite !flat_map_app. cbn [flat_map]. rewrite !app_nil_r, <- app_assoc. symmetry. apply lookup_app_dup.
    + intros j Hj. apply Hrange. apply in_rev in Hj. right. exact Hj.
    + intros j Hj Hnj. apply Hout; [exact Hj|]. intros Hi. apply Hnj. apply -> in_rev.
      destruct Hi as [<-|Hi]; [left; reflexivity|exact Hi].
Qed.

Definition cur_inv_d (F : Z) (seeks : list loc) (b : nat) (cur : list nat) : Prop :=
  Forall (desc_ok F) seeks /\ dcur b cur /\ (forall j, In j cur -> (j < length seeks)%nat) /\
  (forall j, (j < length seeks)%nat -> ~ In j cur -> rem (get seeks j) = []).

Lemma read_block_desc F seeks b : forall cur, cur_inv_d F seeks b cur ->
  forall vals seeks' cur', read_block false seeks cur = (vals, seeks', cur') ->
  length seeks' = length seeks /\ map live seeks' = map live seeks /\ (exists pre, cur = pre ++ cur') /\
  (vals = [] -> seeks' = seeks /\ cur' = [] /\ forall j, (j < length seeks)%nat -> rem (get seeks j) = []) /\
  (vals <> [] -> exists F', F' < F /\ cur_inv_d F' seeks' b cur' /\ ssorted vals /\ (forall x, In x vals -> F' <= fst x < F) /\
                 forall t, lookup_last t vals = if F' <=? t then lookup_last t (flat_map rem seeks) else None).
Proof.
  induction cur as [|fi rest IH]; intros Hinv vals seeks' cur' Hrb.
  - cbn in Hrb. inversion Hrb; subst. destruct Hinv as [_ [_ [_ Hout]]].
    split; [reflexivity|]. split; [reflexivity|]. split; [exists []; reflexivity|]. split; [|congruence].
    intros _. split; [reflexivity|]. split; [reflexivity|]. intros j Hj. apply Hout; [exact Hj|intros []].
  - cbn [read_block] in Hrb. rewrite first_values_rem in Hrb.
    destruct Hinv as [Hok [Hdc [Hrange Hout]]].
    assert (Hfi : (fi < length seeks)%nat) by (apply Hrange; left; reflexivity).
    assert (Hwf : forall j, (j < length seeks)%nat -> loc_wf (get seeks j)).
    { intros j Hj. pose proof (Forall_get _ _ _ Hok Hj) as H. exact (proj1 H). }
    assert (Hwfall : Forall loc_wf seeks) by (eapply Forall_impl; [|exact Hok]; intros a Ha; exact (proj1 Ha)).
    destruct (rem (get seeks fi)) as [|x xs] eqn:Ev.
    + assert (Hinv' : cur_inv_d F seeks b rest).
      { split; [exact Hok|]. split; [apply (dcur_suffix b [fi]); exact Hdc|]. split; [intros j Hj; apply Hrange; right; exact Hj|].
        intros j Hj Hnj. destruct (Nat.eq_dec j fi) as [->|Hne]; [exact Ev|]. apply Hout; [exact Hj|].
        intros [E|Hi]; [congruence|contradiction]. }
      destruct (IH Hinv' vals seeks' cur' Hrb) as [H1 [H2 [[pre H3] [H4 H5]]]].
      split; [exact H1|]. split; [exact H2|]. split; [exists (fi :: pre); rewrite H3; reflexivity|]. split; assumption.
    + cbv beta iota in Hrb. set (values := x :: xs) in *.
      assert (Hne : rem (get seeks fi) <> []) by (rewrite Ev; discriminate).
      assert (Hsv : ssorted values) by (rewrite <- Ev; apply rem_sorted; apply Hwf; exact Hfi).
      pose proof (dcur_tl_NoDup _ _ Hdc) as Hndr. cbn [tl] in Hndr.
      pose proof (sel_desc seeks b (fi :: rest) Hdc Hrange Hout) as Hsel.
      assert (Hvin : forall y, In y values -> vmin values <= fst y <= vmax values).
      { intros y Hy. split; [apply vmin_le; assumption|apply vmax_ge; assumption]. }
      assert (Hgen : forall mn mx vals0 seeks0,
                 mn <= vmin values -> (forall i, In i (fi :: rest) -> forall y, In y (rem (get seeks i)) -> fst y <= mx) ->
                 ssorted vals0 ->
                 (forall t, lookup_last t vals0 = lookup_last t (flat_map (fun i => incl mn mx (rem (get seeks i))) (rev (fi :: rest)))) ->
                 length seeks0 = length seeks -> map live seeks0 = map live seeks ->
                 (forall j, In j (fi :: rest) -> get seeks0 j = mark_read mn mx (get seeks j)) ->
                 (forall j, ~ In j (fi :: rest) -> get seeks0 j = get seeks j) ->
                 length seeks0 = length seeks /\ map live seeks0 = map live seeks /\ (exists pre, fi :: rest = pre ++ fi :: rest) /\
                 (vals0 = [] -> seeks0 = seeks /\ fi :: rest = [] /\ forall j, (j < length seeks)%nat -> rem (get seeks j) = []) /\
                 (vals0 <> [] -> exists F', F' < F /\ cur_inv_d F' seeks0 b (fi :: rest) /\ ssorted vals0 /\ (forall x, In x vals0 -> F' <= fst x < F) /\
                     forall t, lookup_last t vals0 = if F' <=? t then lookup_last t (flat_map rem seeks) else None)).
      { intros mn mx vals0 seeks0 Hlow Hhigh Hs0 Hlk Hlen Hlive Hin Hnin.
        destruct (rb_finish_desc F seeks fi rest mn mx vals0 seeks0 Hok Hrange Hout Hsel Hne Hhigh) as [Hnv [F' [HF [Hok' [Hout' [Hb Hf]]]]]];
          try assumption; [rewrite Ev; exact Hlow|].
        split; [exact Hlen|]. split; [exact Hlive|]. split; [exists []; reflexivity|]. split; [intros E; contradiction|].
        intros _. exists F'. split; [exact HF|]. split; [|split; [exact Hs0|split; [exact Hb|exact Hf]]].
        split; [exact Hok'|]. split; [exact Hdc|]. split; [intros j Hj; rewrite Hlen; apply Hrange; exact Hj|].
        intros j Hj. rewrite Hlen in Hj. apply Hout'. exact Hj. }
      destruct rest as [|r0 rest'].
      * cbv beta iota in Hrb. inversion Hrb; subst vals seeks' cur'. clear Hrb.
        apply (Hgen (vmin values) (vmax values)).
        -- lia.
        -- intros i [<-|[]] y Hy. rewrite Ev in Hy. apply Hvin. exact Hy.
        -- exact Hsv.
        -- intros t. cbn [rev app flat_map]. rewrite app_nil_r, Ev. unfold incl, include_range. rewrite filter_all; [reflexivity|].
           intros y Hy. specialize (Hvin y Hy). unfold in_range. lia.
        -- apply upd_length.
        -- apply upd_map. intros; reflexivity.
        -- intros j [<-|[]]. apply get_upd_same. exact Hfi.
        -- intros j Hj. apply get_upd_other. intros ->. apply Hj. left. reflexivity.
      * set (rest := r0 :: rest') in *.
        pose proof (widen_desc seeks rest (vmin values) (vmax values)) as [Hw1 [Hw2 Hw3]].
        destruct (widen false seeks rest (vmin values) (vmax values)) as [mn1 mx1]. cbn [fst snd] in Hw1, Hw2, Hw3.
        pose proof (first_overlap_desc seeks rest mn1 mx1) as [Ho1 Ho2].
        destruct (first_overlap false seeks rest mn1 mx1) as [mn mx]. cbn [fst snd] in Ho1, Ho2. subst mx mn1.
        assert (Hsi : ssorted (incl mn mx1 values)) by (apply filter_ssorted; exact Hsv).
        pose proof (merge_rest_desc mn mx1 rest (incl mn mx1 values) seeks Hndr Hwfall Hsi) as [Hm1 [Hm2 Hm3]].
        destruct (merge_rest false mn mx1 rest (incl mn mx1 values) seeks) as [vals0 seeks0]. cbn [fst snd] in Hm1, Hm2, Hm3.
        cbv beta iota in Hrb. inversion Hrb; subst vals seeks' cur' seeks0. clear Hrb.
        apply (Hgen mn mx1).
        -- lia.
        -- intros i [<-|Hi] y Hy.
           ++ rewrite Ev in Hy. specialize (Hvin y Hy). lia.
           ++ assert (Hil : (i < length seeks)%nat) by (apply Hrange; right; exact Hi).
              destruct (loc_is_read (get seeks i)) eqn:Er.
              ** rewrite loc_is_read_rem in Hy; [destruct Hy|apply Hwf; exact Hil|exact Er].
              ** specialize (Hw3 i Hi Er). pose proof (rem_bounds _ _ (Hwf i Hil) Hy). lia.
        -- exact Hm2.
        -- intros t. rewrite Hm3. cbn [rev]. rewrite flat_map_app. cbn [flat_map]. rewrite app_nil_r, Ev. reflexivity.
        -- rewrite upd_length. apply mark_all_length.
        -- rewrite upd_map by (intros; reflexivity). apply mark_all_live.
        -- intros j Hj. destruct (Nat.eq_dec j fi) as [->|Hne'].
           ++ rewrite get_upd_same by (rewrite mark_all_length; exact Hfi).
              destruct (in_dec Nat.eq_dec fi rest) as [Hir|Hir].
              ** rewrite mark_all_get_in by assumption. apply mark_read_idem.
              ** rewrite mark_all_get_out by assumption. reflexivity.
           ++ destruct Hj as [E|Hj]; [congruence|]. rewrite get_upd_other by congruence.
              apply mark_all_get_in; [exact Hndr|exact Hj|apply Hrange; right; exact Hj].
        -- intros j Hj. rewrite get_upd_other by (intros ->; apply Hj; left; reflexivity).
           apply mark_all_get_out. intros Hi. apply Hj. right. exact Hi.
Qed.

(* ---------- KeyCursor.Next (descending) ---------- *)

Lemma find_unread_down_spec seeks : forall n,
  match find_unread_down n seeks with
  | Some p => (p < n)%nat /\ loc_is_read (get seeks p) = false /\ forall j, (p < j < n)%nat -> loc_is_read (get seeks j) = true
  | None => forall j, (j < n)%nat -> loc_is_read (get seeks j) = true
  end.
Proof.
  induction n as [|m IH]; cbn [find_unread_down]; [intros j Hj; lia|].
  destruct (loc_is_read (get seeks m)) eqn:Em.
  - destruct (find_unread_down m seeks) as [p|].
    + destruct IH as [H1 [H2 H3]]. split; [lia|]. split; [exact H2|]. intros j Hj.
      destruct (Nat.eq_dec j m) as [->|Hne]; [exact Em|apply H3; lia].
    + intros j Hj. destruct (Nat.eq_dec j m) as [->|Hne]; [exact Em|apply IH; lia].
  - split; [lia|]. split; [exact Em|]. intros j Hj. lia.
Qed.

Lemma firstn_S_nth {A} (d : A) : forall l p, (p < length l)%nat -> firstn (S p) l = firstn p l ++ [nth p l d].
Proof.
  induction l as [|x l IH]; intros p Hp; [cbn in Hp; lia|]. destruct p as [|p]; [reflexivity|].
  cbn [firstn nth app]. f_equal. apply IH. cbn in Hp. lia.
Qed.

Lemma nth_firstn_lt {A} (d : A) : forall n l j, (j < n)%nat -> nth j (firstn n l) d = nth j l d.
Proof.
  induction n as [|n IH]; intros l j Hj; [lia|]. destruct l as [|x l]; [reflexivity|].
  destruct j as [|j]; [reflexivity|]. cbn [firstn nth]. apply IH. lia.
Qed.

Lemma idx_filter_app q : forall a c i, idx_filter q i (a ++ c) = idx_filter q i a ++ idx_filter q (i + length a) c.
Proof.
  induction a as [|x a IH]; intros c i; cbn [app idx_filter length]; [rewrite Nat.add_0_r; reflexivity|].
  rewrite IH. replace (S i + length a)%nat with (i + S (length a))%nat by lia. destruct (q x); reflexivity.
Qed.

Lemma dfrom_snoc a : forall b j, dfrom b a -> (forall x, In x a -> (j < x)%nat) -> (j < b)%nat -> dfrom b (a ++ [j]).
Proof.
  induction a as [|i a IH]; intros b j Ha Hlt Hb; cbn [app dfrom]; [split; [exact Hb|exact I]|].
  cbn in Ha. destruct Ha as [H1 H2]. split; [exact H1|]. apply IH; [exact H2|intros x Hx; apply Hlt; right; exact Hx|].
  apply Hlt. left. reflexivity.
Qed.

Lemma asc_rev_dfrom A : forall lo b, asc_from lo A -> (forall x, In x A -> (x < b)%nat) -> dfrom b (rev A).
Proof.
  induction A as [|j r IH]; intros lo b Ha Hb; [exact I|]. cbn in Ha. destruct Ha as [H1 H2]. cbn [rev].
  apply dfrom_snoc; [apply (IH (S j)); [exact H2|intros x Hx; apply Hb; right; exact Hx]| |apply Hb; left; reflexivity].
  intros x Hx. apply in_rev in Hx. pose proof (asc_from_In _ _ _ H2 Hx). lia.
Qed.

Lemma kc_next_desc F c : k_asc c = false -> cur_inv_d F (k_seeks c) (S (k_pos c)) (k_cur c) ->
  k_asc (kc_next c) = false /\ k_seeks (kc_next c) = k_seeks c /\
  cur_inv_d F (k_seeks (kc_next c)) (S (k_pos (kc_next c))) (k_cur (kc_next c)).
Proof.
  intros Hasc Hinv. unfold kc_next. destruct (k_cur c) as [|i r] eqn:Ec; [rewrite Ec; auto|].
  destruct (negb (loc_is_read (get (k_seeks c) i))) eqn:Er; [rewrite Ec; auto|].
  rewrite Hasc. unfold next_desc. set (seeks := k_seeks c) in *. set (pos := k_pos c) in *.
  destruct Hinv as [Hok [Hdc [Hrange Hout]]].
  assert (Hwf : forall j, (j < length seeks)%nat -> loc_wf (get seeks j)).
  { intros j Hj. pose proof (Forall_get _ _ _ Hok Hj) as H. exact (proj1 H). }
  assert (Hrd : forall j, (j < length seeks)%nat -> loc_is_read (get seeks j) = true -> rem (get seeks j) = []).
  { intros j Hj Hr. apply loc_is_read_rem; [apply Hwf; exact Hj|exact Hr]. }
  assert (Hold : forall j, (j < length seeks)%nat -> (pos <= j)%nat -> rem (get seeks j) = []).
  { intros j Hj Hjp. destruct (in_dec Nat.eq_dec j (i :: r)) as [Hin|Hnin]; [|apply Hout; assumption].
    pose proof (dcur_In _ _ _ Hdc Hin). pose proof (dcur_hd_max _ _ _ Hdc Hin) as Hh. cbn [hd] in Hh.
    pose proof (dcur_In _ _ i Hdc (or_introl eq_refl)). assert (j = i) by lia. subst j.
    apply Hrd; [exact Hj|]. destruct (loc_is_read (get seeks i)); [reflexivity|discriminate]. }
  pose proof (find_unread_down_spec seeks pos) as Hfu.
  destruct (find_unread_down pos seeks) as [p|]; cbn [k_asc k_seeks k_pos k_cur].
  - destruct Hfu as [H1 [H2 H3]]. split; [reflexivity|]. split; [reflexivity|].
    assert (Hpl : (p < length seeks)%nat).
    { destruct (Nat.lt_ge_cases p (length seeks)) as [Hlt|Hge]; [exact Hlt|].
      unfold get in H2. rewrite nth_overflow in H2 by exact Hge. discriminate. }
    set (A := idx_filter (fun x => negb (loc_is_read x)) 0 (firstn p seeks)).
    assert (Hlen : length (firstn p seeks) = p) by (apply firstn_length_le; lia).
    assert (EA : unread_idx 0 (firstn (S p) seeks) = A ++ [p]).
    { unfold unread_idx. rewrite (firstn_S_nth dummy_loc) by exact Hpl. rewrite idx_filter_app. fold A. f_equal.
      rewrite Hlen. cbn [idx_filter plus]. fold (get seeks p). rewrite H2. reflexivity. }
    rewrite EA, rev_app_distr. cbn [rev app].
    assert (HAlt : forall x, In x A -> (x < p)%nat) by (intros x Hx; apply idx_filter_spec in Hx; lia).
    assert (HdA : dfrom p (rev A)) by (apply (asc_rev_dfrom A 0%nat); [apply idx_filter_asc|exact HAlt]).
    split; [exact Hok|]. split; [right; exists p, (rev A); split; [reflexivity|split; [lia|exact HdA]]|]. split.
    + intros j [<-|[<-|Hj]]; [exact Hpl|exact Hpl|]. apply in_rev in Hj. specialize (HAlt j Hj). lia.
    + intros j Hj Hnj. destruct (Nat.le_gt_cases pos j) as [Hle|Hgt]; [apply Hold; assumption|].
      apply Hrd; [exact Hj|].
      destruct (Nat.lt_trichotomy j p) as [Hlt|[->|Hgt2]].
      * destruct (loc_is_read (get seeks j)) eqn:Ej; [reflexivity|]. exfalso. apply Hnj. right. right. apply -> in_rev.
        apply idx_filter_spec. split; [lia|]. rewrite Nat.sub_0_r, nth_firstn_lt by exact Hlt. fold (get seeks j). rewrite Ej. reflexivity.
      * exfalso. apply Hnj. left. reflexivity.
      * apply H3. lia.
  - split; [reflexivity|]. split; [reflexivity|]. split; [exact Hok|]. split; [left; exact I|]. split; [intros j []|].
    intros j Hj _. destruct (Nat.le_gt_cases pos j) as [Hle|Hgt]; [apply Hold; assumption|].
    apply Hrd; [exact Hj|]. apply Hfu. lia.
Qed.

(* ---------- the whole stream (descending) ---------- *)

Definition m_left_d (F : Z) (seeks : list loc) : nat :=
  length (filter (fun x : tv => fst x <? F) (flat_map live seeks)).

Lemma kc_stream_desc : forall fuel c F,
  k_asc c = false -> cur_inv_d F (k_seeks c) (S (k_pos c)) (k_cur c) -> (m_left_d F (k_seeks c) < fuel)%nat ->
  ssorted (concat (rev (kc_stream fuel c))) /\ (forall x, In x (concat (rev (kc_stream fuel c))) -> fst x < F) /\
  forall t, lookup_last t (concat (rev (kc_stream fuel c))) = if t <? F then lookup_last t (flat_map live (k_seeks c)) else None.
Proof.
  induction fuel as [|f IH]; intros c F Hasc Hinv Hm; [lia|].
  cbn [kc_stream]. unfold kc_read. rewrite Hasc.
  destruct (read_block false (k_seeks c) (k_cur c)) as [[vals seeks'] cur'] eqn:Erb.
  pose proof Hinv as [Hok _].
  destruct (read_block_desc F _ _ _ Hinv _ _ _ Erb) as [Hlen [Hlive [_ [Hnil Hcons]]]].
  assert (Hall : forall t, lookup_last t (flat_map rem (k_seeks c)) = if t <? F then lookup_last t (flat_map live (k_seeks c)) else None).
  { intros t. apply (lookup_flat_map_ext rem live (fun t => t <? F)). intros x Hx.
    rewrite Forall_forall in Hok. destruct (Hok x Hx) as [_ [_ [_ Hf]]]. apply Hf. }
  destruct vals as [|v0 vs].
  - destruct (Hnil eq_refl) as [_ [_ Hemp]]. cbn [rev concat]. split; [exact I|]. split; [intros x []|].
    intros t. cbn [lookup_last]. rewrite <- Hall. symmetry. apply lookup_flat_map_none.
    intros l Hl. destruct (In_nth _ _ dummy_loc Hl) as [j [Hj Hnth]]. fold (get (k_seeks c) j) in Hnth.
    rewrite <- Hnth, (Hemp j Hj). reflexivity.
  - destruct (Hcons ltac:(discriminate)) as [F' [HF [Hinv' [Hsv [Hb Hf]]]]].
    set (c1 := {| k_seeks := seeks'; k_cur := cur'; k_pos := k_pos c; k_asc := false |}).
    destruct (kc_next_desc F' c1 eq_refl Hinv') as [Hasc2 [Hseeks2 Hinv2]].
    assert (Hlive2 : flat_map live (k_seeks (kc_next c1)) = flat_map live (k_seeks c)).
    { rewrite Hseeks2. apply flat_map_live_eq. exact Hlive. }
    assert (Hm2 : (m_left_d F' (k_seeks (kc_next c1)) < f)%nat).
    { unfold m_left_d in *. rewrite Hlive2.
      assert (length (filter (fun x : tv => (fst x <? F')%Z) (flat_map live (k_seeks c))) <
              length (filter (fun x : tv => (fst x <? F)%Z) (flat_map live (k_seeks c))))%nat; [|lia].
      apply filter_len_lt; [intros y Hy; lia|]. exists v0.
      destruct v0 as [t0 w0]. pose proof (Hb (t0, w0) (or_introl eq_refl)) as Hb0. cbn [fst] in Hb0.
      split; [|split; cbn [fst]; lia].
      assert (E : lookup_last t0 ((t0, w0) :: vs) = Some w0) by (apply lookup_last_sorted_head; exact Hsv).
      rewrite Hf in E. assert (F' <=? t0 = true) as E2 by lia. rewrite E2 in E.
      apply lookup_some_in in E. apply in_flat_map in E. destruct E as [l [Hl Hin]].
      apply in_flat_map. exists l. split; [exact Hl|]. apply rem_In in Hin. tauto. }
    destruct (IH (kc_next c1) F' Hasc2 Hinv2 Hm2) as [Hs2 [Hlt2 Hl2]].
    fold c1. cbn [rev]. rewrite concat_app. cbn [concat]. rewrite app_nil_r.
    set (rest := concat (rev (kc_stream f (kc_next c1)))) in *.
    split; [|split].
    + apply ssorted_app; [exact Hs2|exact Hsv|]. intros x y Hx Hy. specialize (Hb y Hy). specialize (Hlt2 x Hx). lia.
    + intros x Hx. apply in_app_or in Hx. destruct Hx as [Hx|Hx]; [specialize (Hlt2 x Hx); lia|specialize (Hb x Hx); lia].
    + intros t. rewrite lookup_last_app, Hl2, Hf, Hall, Hlive2.
      destruct (t <? F') eqn:E1; destruct (F' <=? t) eqn:E2; destruct (t <? F) eqn:E3; try lia;
        destruct (lookup_last t (flat_map live (k_seeks c))); reflexivity.
Qed.
