(* C02/Proofs.v — the refinement invariant between the shard model and the LWW spec, its
   preservation by every step, and the property theorems' lemmas. *)
From Verif Require Import Shard.Store C02.Spec C02.Model C02.KV C02.SpecProofs.
From Coq Require Import ZifyBool ZifyNat ZifyN.
Open Scope Z_scope.

(* ---------- the invariant ---------- *)

Definition val_ok (tab : ftab) (k : key) (x : tv) : Prop :=
  ft_get (key_mf k) tab = Some (vtype (snd x)) /\ min_int64 <= fst x <= max_int64.

Record Inv (st : shard) (h : list op) : Prop := {
  I_ref : forall k t, lookup_last t (live_values (s_files st) (s_cache st) k) = lww h k t;
  I_val : forall k x, In x (live_values (s_files st) (s_cache st) k) -> val_ok (s_tab st) k x;
  I_hot : kv_nodup (c_hot (s_cache st));
  I_snp : kv_nodup (c_snap (s_cache st));
  I_idle : s_snapping st = false -> c_snap (s_cache st) = []
}.

Lemma val_ok_sub tab tab' k x : ft_sub tab tab' -> val_ok tab k x -> val_ok tab' k x.
Proof. intros Hs [H1 H2]. split; [apply Hs; assumption|assumption]. Qed.

Lemma inv_init tsi : Inv (init tsi) [].
Proof.
  constructor; cbn; try (intros; reflexivity); try (intros; contradiction); constructor.
Qed.

(* ---------- timestamps of the written points ---------- *)

Definition point_int64 (p : point) : bool := (min_int64 <=? p_time p) && (p_time p <=? max_int64).

Definition step_int64 (s : step) : bool :=
  match s with SWrite pts => forallb point_int64 pts | _ => true end.

(* ---------- live values ---------- *)

Lemma live_lookup t fs c k :
  lookup_last t (read_all fs c k) = lookup_last t (live_values fs c k).
Proof. apply read_all_lookup. Qed.

Lemma apply_tombs_nil k tombs : apply_tombs k tombs [] = [].
Proof.
  unfold apply_tombs. induction tombs as [|tb r IH]; cbn [fold_left]; [reflexivity|].
  destruct (key_eqb (fst tb) k); exact IH.
Qed.

Lemma apply_tombs_app k t1 t2 vs : apply_tombs k (t1 ++ t2) vs = apply_tombs k t2 (apply_tombs k t1 vs).
Proof. unfold apply_tombs. apply fold_left_app. Qed.

Lemma In_apply_tombs k tombs : forall vs x, In x (apply_tombs k tombs vs) -> In x vs.
Proof.
  unfold apply_tombs. induction tombs as [|tb r IH]; intros vs x; cbn [fold_left]; [tauto|].
  intros H. apply IH in H. destruct (key_eqb (fst tb) k); [eapply In_exclude; eassumption|assumption].
Qed.

Lemma file_values_nokey f k : ~ In k (kv_keys (f_data f)) -> file_values f k = [].
Proof. intros H. unfold file_values. rewrite kv_get_notin by assumption. apply apply_tombs_nil. Qed.

Lemma group_keys_In k g : In k (group_keys g) <-> exists f, In f g /\ In k (kv_keys (f_data f)).
Proof. unfold group_keys. rewrite in_flat_map. tauto. Qed.

Lemma flat_file_values_nokey k g : ~ In k (group_keys g) -> flat_map (fun f => file_values f k) g = [].
Proof.
  induction g as [|f r IH]; cbn [flat_map]; [reflexivity|]. intros H.
  rewrite file_values_nokey, IH; [reflexivity| |].
  - intros Hk. apply H. apply group_keys_In in Hk. destruct Hk as [f' [Hf Hk]].
    apply group_keys_In. exists f'. split; [right; assumption|assumption].
  - intros Hk. apply H. apply group_keys_In. exists f. split; [left; reflexivity|assumption].
Qed.

Lemma live_values_nokey fs c k : ~ In k (state_keys fs c) -> live_values fs c k = [].
Proof.
  unfold state_keys, live_values, cache_values. rewrite !in_app_iff. intros H.
  rewrite flat_file_values_nokey by tauto. rewrite !kv_get_notin by tauto. reflexivity.
Qed.

Lemma files_values_nil k g : (forall f, In f g -> file_values f k = []) -> files_values g k = [].
Proof.
  unfold files_values. intros H.
  assert (G : fold_left (fun acc f => merge_lw acc (file_values f k)) g [] = []); [|exact G].
  induction g as [|f r IH]; cbn [fold_left]; [reflexivity|].
  rewrite (H f (or_introl eq_refl)). cbn [merge_lw fold_left]. apply IH. intros f' Hf. apply H. right. assumption.
Qed.

Lemma In_files_values x g k : In x (files_values g k) -> In x (flat_map (fun f => file_values f k) g).
Proof.
  destruct x as [t v]. intros H.
  apply (in_sorted_lookup t v _ (files_values_sorted g k)) in H. rewrite files_values_lookup in H.
  apply lookup_last_In. assumption.
Qed.

Lemma In_read_all x fs c k : In x (read_all fs c k) -> In x (live_values fs c k).
Proof.
  destruct x as [t v]. intros H.
  apply (in_sorted_lookup t v _ (read_all_sorted fs c k)) in H. rewrite live_lookup in H.
  apply lookup_last_In. assumption.
Qed.

(* ---------- the read ---------- *)

Theorem read_correct st h m tags f lo hi asc :
  Inv st h -> shard_read st m tags f lo hi asc = RVals (spec_read h (mkkey m tags f) lo hi asc).
Proof.
  intros HI. unfold shard_read. cbv zeta. set (k := mkkey m tags f).
  assert (Hmf : key_mf k = (m, f)) by apply key_mf_mkkey.
  assert (Hread : read (s_files st) (s_cache st) k lo hi asc = spec_read h k lo hi asc).
  { unfold read. cbv zeta. apply spec_read_unique.
    - apply filter_ssorted, read_all_sorted.
    - intros t. rewrite lookup_include_range, live_lookup, (I_ref _ _ HI). reflexivity. }
  destruct (ft_get (m, f) (s_tab st)) as [ty|] eqn:Et.
  - assert (Hall : forallb (fun x => N.eqb (vtype (snd x)) ty) (read_all (s_files st) (s_cache st) k) = true).
    { apply forallb_forall. intros x Hx. apply In_read_all in Hx. destruct (I_val _ _ HI _ _ Hx) as [H1 _].
      rewrite Hmf, Et in H1. inversion H1. apply N.eqb_refl. }
    rewrite Hall, Hread. reflexivity.
  - rewrite <- Hread. f_equal. unfold read. cbv zeta.
    assert (read_all (s_files st) (s_cache st) k = []) as ->; [|destruct asc; reflexivity].
    apply lookup_nil_all. intros t. rewrite live_lookup.
    apply lookup_last_none_notin. intros v Hv. destruct (I_val _ _ HI _ _ Hv) as [H1 _].
    rewrite Hmf, Et in H1. discriminate.
Qed.

(* ---------- write ---------- *)

Lemma entry_conflict_same ty old vs :
  (forall x, In x old -> vtype (snd x) = ty) -> (forall x, In x vs -> vtype (snd x) = ty) ->
  entry_conflict old vs = false.
Proof.
  intros Ho Hv. unfold entry_conflict. destruct old as [|o r].
  - destruct vs as [|x r]; [reflexivity|]. apply negb_false_iff. apply forallb_forall.
    intros y Hy. rewrite (Hv y Hy), (Hv x (or_introl eq_refl)). apply N.eqb_refl.
  - cbv zeta. rewrite (Ho o (or_introl eq_refl)). destruct (N.eqb ty 0); [reflexivity|].
    apply negb_false_iff. apply forallb_forall. intros y Hy. rewrite (Hv y Hy). apply N.eqb_refl.
Qed.

Definition cw_step (acc : kvs * bool) (g : key * list tv) : kvs * bool :=
  if entry_conflict (kv_get (fst g) (fst acc)) (snd g) then (fst acc, false)
  else (kv_append (fst g) (snd g) (fst acc), snd acc).

(* with every value of a key carrying the key's type, Cache.WriteMulti never refuses *)
Lemma cache_write_fold (ty : key -> N) gs : kv_nodup gs ->
  (forall k vs x, In (k, vs) gs -> In x vs -> vtype (snd x) = ty k) ->
  forall acc b, (forall k x, In x (kv_get k acc) -> vtype (snd x) = ty k) ->
  snd (fold_left cw_step gs (acc, b)) = b /\
  (forall k, kv_get k (fst (fold_left cw_step gs (acc, b))) = kv_get k acc ++ kv_get k gs) /\
  (kv_nodup acc -> kv_nodup (fst (fold_left cw_step gs (acc, b)))).
Proof.
  unfold kv_nodup at 1. induction gs as [|[k0 vs] r IH]; intros Hn Hty acc b Hacc; cbn [fold_left].
  - cbn. split; [reflexivity|]. split; [intros k; rewrite app_nil_r; reflexivity|tauto].
  - cbn in Hn. inversion Hn; subst.
    assert (Hc : entry_conflict (kv_get k0 acc) vs = false).
    { apply (entry_conflict_same (ty k0)); [apply Hacc|]. intros x Hx. eapply Hty; [left; reflexivity|assumption]. }
    assert (Hstep : cw_step (acc, b) (k0, vs) = (kv_append k0 vs acc, b)).
    { unfold cw_step. cbn [fst snd]. rewrite Hc. reflexivity. }
    rewrite Hstep.
    destruct (IH H2 (fun k vs' x Hin => Hty k vs' x (or_intror Hin)) (kv_append k0 vs acc) b) as [R1 [R2 R3]].
    { intros k x. rewrite kv_get_append. destruct (key_eqb k0 k) eqn:E; [|apply Hacc].
      apply key_eqb_eq in E. subst. rewrite in_app_iff. intros [H|H]; [apply Hacc; assumption|].
      eapply Hty; [left; reflexivity|assumption]. }
    split; [exact R1|]. split.
    + intros k. rewrite R2, kv_get_append. cbn [kv_get]. destruct (key_eqb k0 k) eqn:E.
      * apply key_eqb_eq in E. subst. rewrite (kv_get_notin k r) by assumption. rewrite app_nil_r. reflexivity.
      * reflexivity.
    + intros Ha. apply R3. apply kv_nodup_append. assumption.
Qed.

Lemma cache_write_ok (ty : key -> N) hot ws :
  (forall k x, In x (kv_get k hot) -> vtype (snd x) = ty k) ->
  (forall k x, In (k, x) ws -> vtype (snd x) = ty k) ->
  snd (cache_write hot ws) = true /\
  (forall k, kv_get k (fst (cache_write hot ws)) = kv_get k hot ++ batch_values k ws) /\
  (kv_nodup hot -> kv_nodup (fst (cache_write hot ws))).
Proof.
  intros Hh Hw. unfold cache_write. change (fun acc g => _) with cw_step.
  destruct (cache_write_fold ty (group_values ws) (group_values_nodup ws)) with (acc := hot) (b := true) as [R1 [R2 R3]].
  - intros k vs x Hin Hx. apply (kv_get_In _ _ _ (group_values_nodup ws)) in Hin.
    rewrite group_values_get in Hin. subst vs. apply Hw. apply batch_values_In. assumption.
  - exact Hh.
  - split; [exact R1|]. split; [|exact R3]. intros k. rewrite R2, group_values_get. reflexivity.
Qed.

Lemma write_unfold st pts :
  let tab := s_tab st in
  let kept := filter (point_ok tab) pts in
  let cf := create_fields (flat_map (point_creates tab) kept) tab in
  let cw := cache_write (c_hot (s_cache st)) (flat_map point_kvs kept) in
  write st pts =
  if negb (snd cf) then (mkshard (s_files st) (s_cache st) (fst cf) (s_snapping st) (s_gen st) (s_tsi st), WErr)
  else (mkshard (s_files st) {| c_snap := c_snap (s_cache st); c_hot := fst cw |} (fst cf) (s_snapping st) (s_gen st) (s_tsi st),
        if negb (snd cw) then WErr
        else match (length pts - length kept)%nat with O => WOk | _ => WPartial (length pts - length kept) end).
Proof.
  cbv zeta. unfold write, validate.
  destruct (create_fields _ (s_tab st)) as [tab' ok]. cbn [fst snd]. destruct ok; cbn [negb]; [|reflexivity].
  destruct (cache_write _ _) as [hot' cok]. reflexivity.
Qed.

Lemma point_kvs_In k x p : In (k, x) (point_kvs p) ->
  exists fv, In fv (p_fields p) /\ k = mkkey (p_meas p) (p_tags p) (fst fv) /\ x = (p_time p, snd fv).
Proof.
  unfold point_kvs. intros H. apply in_map_iff in H. destruct H as [fv [E H]]. inversion E. eauto.
Qed.

(* every value of a kept point has the type its field has in the table after the creations *)
Lemma kept_val_ok tab pts k x :
  let kept := filter (point_ok tab) pts in
  let cf := create_fields (flat_map (point_creates tab) kept) tab in
  snd cf = true -> forallb point_int64 pts = true ->
  In (k, x) (flat_map point_kvs kept) -> val_ok (fst cf) k x.
Proof.
  cbv zeta. intros Hok Hrng Hin. apply in_flat_map in Hin. destruct Hin as [p [Hp Hin]].
  apply point_kvs_In in Hin. destruct Hin as [fv [Hfv [-> ->]]].
  pose proof Hp as Hp'. apply filter_In in Hp'. destruct Hp' as [Hpts Hpok].
  split.
  - rewrite key_mf_mkkey. cbn [snd]. unfold point_ok in Hpok. rewrite forallb_forall in Hpok.
    specialize (Hpok fv Hfv). destruct (ft_get (p_meas p, fst fv) tab) as [ty|] eqn:Eg.
    + apply N.eqb_eq in Hpok. subst ty. apply create_fields_sub. assumption.
    + apply create_fields_ok; [assumption|]. apply in_flat_map. exists p. split; [assumption|].
      unfold point_creates. apply in_flat_map. exists fv. split; [assumption|]. rewrite Eg. left. reflexivity.
  - cbn [fst]. rewrite forallb_forall in Hrng. specialize (Hrng p Hpts). unfold point_int64 in Hrng. lia.
Qed.

Definition tab_type (tab : ftab) (k : key) : N :=
  match ft_get (key_mf k) tab with Some ty => ty | None => 0%N end.

Lemma val_ok_type tab k x : val_ok tab k x -> vtype (snd x) = tab_type tab k.
Proof. intros [H _]. unfold tab_type. rewrite H. reflexivity. Qed.

Lemma lww_snoc_write h ws k t :
  lww (h ++ [OWrite ws]) k t = match lookup_last t (batch_values k ws) with Some v => Some v | None => lww h k t end.
Proof. rewrite lww_snoc. reflexivity. Qed.

Lemma write_inv st h pts : Inv st h -> forallb point_int64 pts = true ->
  Inv (fst (write st pts)) (h ++ [OWrite (write_acked st pts)]).
Proof.
  intros HI Hrng. unfold write_acked. rewrite (write_unfold st pts). cbv zeta.
  set (tab := s_tab st). set (kept := filter (point_ok tab) pts).
  set (cf := create_fields (flat_map (point_creates tab) kept) tab).
  assert (Hsub : ft_sub tab (fst cf)) by apply create_fields_sub.
  destruct (snd cf) eqn:Eok; cbn [negb fst snd].
  2:{ (* a creation failed: nothing stored, the table only grew *)
    constructor; cbn [s_files s_cache s_tab s_snapping].
    - intros k t. rewrite lww_snoc_write. cbn. apply (I_ref _ _ HI).
    - intros k x Hx. eapply val_ok_sub; [exact Hsub|]. apply (I_val _ _ HI). assumption.
    - apply (I_hot _ _ HI).
    - apply (I_snp _ _ HI).
    - apply (I_idle _ _ HI). }
  set (ws := flat_map point_kvs kept).
  destruct (cache_write_ok (tab_type (fst cf)) (c_hot (s_cache st)) ws) as [C1 [C2 C3]].
  { intros k x Hx. apply val_ok_type. eapply val_ok_sub; [exact Hsub|]. apply (I_val _ _ HI).
    unfold live_values, cache_values. rewrite !in_app_iff. right. right. assumption. }
  { intros k x Hx. apply val_ok_type. apply (kept_val_ok tab pts k x Eok Hrng Hx). }
  rewrite C1. cbn [negb].
  assert (Hack : match (match (length pts - length kept)%nat with O => WOk | S _ => WPartial (length pts - length kept) end) with
                 | WErr => [] | _ => flat_map point_kvs (fst (fst (validate tab pts))) end = ws).
  { unfold validate. cbn [fst]. destruct (length pts - length kept)%nat; reflexivity. }
  rewrite Hack.
  constructor; cbn [s_files s_cache s_tab s_snapping c_hot c_snap].
  - intros k t. rewrite lww_snoc_write, <- (I_ref _ _ HI). unfold live_values, cache_values. cbn [c_snap c_hot].
    rewrite C2. rewrite !app_assoc. rewrite (lookup_last_app t _ (batch_values k ws)). reflexivity.
  - intros k x. unfold live_values, cache_values. cbn [c_snap c_hot]. rewrite C2, !in_app_iff.
    intros [H|[H|[H|H]]].
    + eapply val_ok_sub; [exact Hsub|]. apply (I_val _ _ HI). unfold live_values. rewrite in_app_iff. tauto.
    + eapply val_ok_sub; [exact Hsub|]. apply (I_val _ _ HI). unfold live_values, cache_values. rewrite !in_app_iff. tauto.
    + eapply val_ok_sub; [exact Hsub|]. apply (I_val _ _ HI). unfold live_values, cache_values. rewrite !in_app_iff. tauto.
    + apply (kept_val_ok tab pts k x Eok Hrng). apply batch_values_In. assumption.
  - apply C3. apply (I_hot _ _ HI).
  - apply (I_snp _ _ HI).
  - apply (I_idle _ _ HI).
Qed.

(* ---------- snapshots ---------- *)

Lemma live_values_unfold fs c k :
  live_values fs c k = flat_map (fun f => file_values f k) fs ++ kv_get k (c_snap c) ++ kv_get k (c_hot c).
Proof. reflexivity. Qed.

Lemma snap_begin_inv st h : Inv st h -> Inv (fst (snap_begin st)) h.
Proof.
  intros HI. unfold snap_begin. destruct (s_snapping st) eqn:E; [exact HI|].
  cbn [fst]. pose proof (I_idle _ _ HI E) as Hs.
  assert (Hl : forall k, live_values (s_files st) {| c_snap := c_hot (s_cache st); c_hot := [] |} k =
                         live_values (s_files st) (s_cache st) k).
  { intros k. rewrite !live_values_unfold. cbn [c_snap c_hot]. rewrite Hs. cbn [kv_get]. rewrite app_nil_r. reflexivity. }
  constructor; cbn [s_files s_cache s_tab s_snapping c_hot c_snap].
  - intros k t. rewrite Hl. apply (I_ref _ _ HI).
  - intros k x. rewrite Hl. apply (I_val _ _ HI).
  - constructor.
  - apply (I_hot _ _ HI).
  - discriminate.
Qed.

Lemma snap_begin_snapping st : s_snapping (fst (snap_begin st)) = true.
Proof. unfold snap_begin. destruct (s_snapping st) eqn:E; [exact E|reflexivity]. Qed.

Lemma dedup_nil : dedup [] = [].
Proof. reflexivity. Qed.

Lemma snap_keys_incl k m :
  In k (kv_keys (map (fun e : key * list tv => (fst e, dedup (snd e))) (filter nonempty m))) -> In k (kv_keys m).
Proof.
  unfold kv_keys. rewrite map_map. cbn [fst]. intros H. apply in_map_iff in H. destruct H as [e [E H]].
  apply filter_In in H. apply in_map_iff. exists e. tauto.
Qed.

Lemma snapshot_data_get snap k : kv_nodup snap ->
  kv_get k (map (fun e : key * list tv => (fst e, dedup (snd e))) (filter nonempty snap)) = dedup (kv_get k snap).
Proof.
  unfold kv_nodup. induction snap as [|[k0 vs] r IH]; intros Hn; [reflexivity|].
  cbn in Hn. inversion Hn; subst. cbn [filter kv_get]. unfold nonempty at 1. cbn [snd].
  destruct vs as [|v vs'].
  - destruct (key_eqb k0 k) eqn:E; [|apply IH; assumption].
    apply key_eqb_eq in E. subst. rewrite kv_get_notin; [reflexivity|].
    intros Hk. apply snap_keys_incl in Hk. contradiction.
  - cbn [map kv_get fst snd]. destruct (key_eqb k0 k); [reflexivity|apply IH; assumption].
Qed.

Lemma all_empty_get snap k : forallb (fun e => negb (nonempty e)) snap = true -> kv_get k snap = [].
Proof.
  induction snap as [|[k0 vs] r IH]; cbn [forallb kv_get]; [reflexivity|].
  rewrite andb_true_iff. intros [H1 H2]. destruct (key_eqb k0 k); [|apply IH; assumption].
  unfold nonempty in H1. cbn in H1. destruct vs; [reflexivity|discriminate].
Qed.

Lemma file_values_notombs f k : f_tombs f = [] -> file_values f k = kv_get k (f_data f).
Proof. intros H. unfold file_values. rewrite H. reflexivity. Qed.

Lemma snap_commit_inv st h : Inv st h -> Inv (fst (snap_commit st)) h.
Proof.
  intros HI. unfold snap_commit. destruct (s_snapping st) eqn:E; cbn [negb]; [|exact HI].
  destruct (forallb (fun e => negb (nonempty e)) (c_snap (s_cache st))) eqn:Eall; cbn [fst].
  - assert (Hl : forall k, live_values (s_files st) {| c_snap := []; c_hot := c_hot (s_cache st) |} k =
                           live_values (s_files st) (s_cache st) k).
    { intros k. rewrite !live_values_unfold. cbn [c_snap c_hot kv_get]. rewrite (all_empty_get _ k Eall). reflexivity. }
    constructor; cbn [s_files s_cache s_tab s_snapping c_hot c_snap].
    + intros k t. rewrite Hl. apply (I_ref _ _ HI).
    + intros k x. rewrite Hl. apply (I_val _ _ HI).
    + apply (I_hot _ _ HI).
    + constructor.
    + reflexivity.
  - set (nf := snapshot_file (s_gen st + 1) (c_snap (s_cache st))).
    assert (Hnf : forall k, file_values nf k = dedup (kv_get k (c_snap (s_cache st)))).
    { intros k. rewrite file_values_notombs by reflexivity. apply snapshot_data_get. apply (I_snp _ _ HI). }
    assert (Hl : forall k, live_values (s_files st ++ [nf]) {| c_snap := []; c_hot := c_hot (s_cache st) |} k =
                           flat_map (fun f => file_values f k) (s_files st) ++ dedup (kv_get k (c_snap (s_cache st))) ++ kv_get k (c_hot (s_cache st))).
    { intros k. rewrite live_values_unfold. cbn [c_snap c_hot kv_get app]. rewrite flat_map_app. cbn [flat_map].
      rewrite Hnf, app_nil_r, <- app_assoc. reflexivity. }
    constructor; cbn [s_files s_cache s_tab s_snapping c_hot c_snap].
    + intros k t. rewrite Hl, <- (I_ref _ _ HI), live_values_unfold.
      apply lookup_app_congr; [reflexivity|]. apply lookup_app_congr; [apply dedup_last_wins|reflexivity].
    + intros k x. rewrite Hl. intros Hx. apply (I_val _ _ HI). rewrite live_values_unfold.
      rewrite !in_app_iff in *. destruct Hx as [H|[H|H]]; [tauto| |tauto]. right. left. apply In_dedup. assumption.
    + apply (I_hot _ _ HI).
    + constructor.
    + reflexivity.
Qed.

Lemma snapshot_inv st h : Inv st h -> Inv (fst (snapshot st)) h.
Proof.
  intros HI. unfold snapshot. pose proof (snap_begin_inv st h HI) as H1.
  destruct (snap_begin st) as [st1 ok] eqn:E. cbn [fst] in H1. destruct ok; [|exact HI].
  apply snap_commit_inv. assumption.
Qed.

(* ---------- compaction ---------- *)

Lemma skipn_add {A} n a : forall l : list A, skipn n (skipn a l) = skipn (a + n) l.
Proof.
  induction a as [|a IH]; intros l; [reflexivity|].
  destruct l as [|x r]; [cbn; destruct n; reflexivity|]. cbn [skipn Nat.add]. apply IH.
Qed.

Lemma firstn_skipn_split {A} (l : list A) a n :
  firstn a l ++ firstn n (skipn a l) ++ skipn (a + n) l = l.
Proof.
  transitivity (firstn a l ++ skipn a l); [|apply firstn_skipn]. f_equal.
  transitivity (firstn n (skipn a l) ++ skipn n (skipn a l)); [|apply firstn_skipn]. f_equal.
  symmetry. apply skipn_add.
Qed.

Lemma kv_get_flat_keys (V : key -> list tv) ks k :
  kv_get k (flat_map (fun k' => match V k' with [] => [] | vs => [(k', vs)] end) ks) =
  if existsb (key_eqb k) ks then V k else [].
Proof.
  induction ks as [|k0 r IH]; cbn [flat_map existsb]; [reflexivity|].
  destruct (V k0) as [|x l] eqn:EV; cbn [app].
  - rewrite IH. destruct (key_eqb k k0) eqn:E; cbn [orb]; [|reflexivity].
    apply key_eqb_eq in E. subst. rewrite EV. destruct (existsb (key_eqb k0) r); reflexivity.
  - cbn [kv_get]. rewrite (key_eqb_sym k0 k). destruct (key_eqb k k0) eqn:E; cbn [orb]; [|exact IH].
    apply key_eqb_eq in E. subst. symmetry. exact EV.
Qed.

Lemma compact_file_tombs g : f_tombs (compact_file g) = [].
Proof. unfold compact_file. destruct (max_gen_seq g). reflexivity. Qed.

Lemma compact_data_get g k : kv_get k (f_data (compact_file g)) = files_values g k.
Proof.
  unfold compact_file. destruct (max_gen_seq g) as [mg ms]. cbn [f_data].
  rewrite (kv_get_flat_keys (files_values g)).
  destruct (existsb (key_eqb k) (group_keys g)) eqn:E; [reflexivity|].
  symmetry. apply files_values_nil. intros f Hf. apply file_values_nokey. intros Hk.
  assert (existsb (key_eqb k) (group_keys g) = true); [|congruence].
  apply existsb_key_In. apply group_keys_In. exists f. tauto.
Qed.

Definition compact_outs (g : list tsmfile) : list tsmfile :=
  match f_data (compact_file g) with [] => [] | _ => [compact_file g] end.

Lemma compact_outs_values g k : flat_map (fun f => file_values f k) (compact_outs g) = files_values g k.
Proof.
  rewrite <- compact_data_get. unfold compact_outs. destruct (f_data (compact_file g)) eqn:E; [reflexivity|].
  cbn [flat_map]. rewrite app_nil_r, file_values_notombs by apply compact_file_tombs. rewrite E. reflexivity.
Qed.

Lemma compact_inv st h a n : Inv st h -> Inv (fst (compact st a n)) h.
Proof.
  intros HI. unfold compact. cbv zeta. destruct ((n =? 0)%nat || (length (s_files st) <? a + n)%nat); [exact HI|].
  cbn [fst]. fold (compact_outs (firstn n (skipn a (s_files st)))).
  set (A := firstn a (s_files st)). set (G := firstn n (skipn a (s_files st))). set (B := skipn (a + n) (s_files st)).
  assert (Hfs : s_files st = A ++ G ++ B) by (symmetry; apply firstn_skipn_split).
  constructor; cbn [s_files s_cache s_tab s_snapping].
  - intros k t. rewrite <- (I_ref _ _ HI). unfold live_values. rewrite Hfs.
    apply lookup_app_congr; [|reflexivity]. rewrite !flat_map_app.
    apply lookup_app_congr; [reflexivity|]. apply lookup_app_congr; [|reflexivity].
    rewrite compact_outs_values. apply files_values_lookup.
  - intros k x Hx. apply (I_val _ _ HI). revert Hx. unfold live_values. rewrite Hfs. rewrite !flat_map_app, !in_app_iff.
    intros [[H|[H|H]]|H]; try tauto. rewrite compact_outs_values in H. apply In_files_values in H. tauto.
  - apply (I_hot _ _ HI).
  - apply (I_snp _ _ HI).
  - apply (I_idle _ _ HI).
Qed.

(* ---------- delete ---------- *)

Lemma apply_tombs_cons k tb r vs :
  apply_tombs k (tb :: r) vs =
  apply_tombs k r (if key_eqb (fst tb) k then exclude_range (fst (snd tb)) (snd (snd tb)) vs else vs).
Proof. reflexivity. Qed.

Lemma apply_tombs_new k lo hi ks : forall vs t,
  lookup_last t (apply_tombs k (map (fun k' => (k', (lo, hi))) ks) vs) =
  if existsb (key_eqb k) ks && in_rng lo hi t then None else lookup_last t vs.
Proof.
  induction ks as [|k0 r IH]; intros vs t; cbn [map existsb]; [reflexivity|].
  rewrite apply_tombs_cons, IH. cbn [fst snd]. rewrite (key_eqb_sym k0 k).
  destruct (key_eqb k k0); cbn [orb].
  - rewrite lookup_exclude_range. fold (in_rng lo hi t).
    destruct (existsb (key_eqb k) r), (in_rng lo hi t); reflexivity.
  - reflexivity.
Qed.

Lemma delete_file_lookup ss lo hi f k t :
  lookup_last t (file_values (delete_file ss lo hi f) k) =
  if in_series ss k && in_rng lo hi t then None else lookup_last t (file_values f k).
Proof.
  unfold file_values, delete_file. cbn [f_tombs f_data]. rewrite apply_tombs_app, apply_tombs_new.
  destruct (existsb (key_eqb k) (filter (in_series ss) (kv_keys (f_data f)))) eqn:E.
  - apply existsb_key_In in E. apply filter_In in E. destruct E as [_ E]. rewrite E. reflexivity.
  - cbn [andb]. destruct (in_series ss k) eqn:Es; [|reflexivity]. cbn [andb].
    destruct (in_rng lo hi t); [|reflexivity].
    assert (Hk : ~ In k (kv_keys (f_data f))).
    { intros Hk. assert (existsb (key_eqb k) (filter (in_series ss) (kv_keys (f_data f))) = true); [|congruence].
      apply existsb_key_In. apply filter_In. tauto. }
    rewrite kv_get_notin, apply_tombs_nil by assumption. reflexivity.
Qed.

Lemma In_delete_file ss lo hi f k x : In x (file_values (delete_file ss lo hi f) k) -> In x (file_values f k).
Proof.
  unfold file_values, delete_file. cbn [f_tombs f_data]. rewrite apply_tombs_app. apply In_apply_tombs.
Qed.

Lemma delete_files_lookup ss lo hi fs k t :
  lookup_last t (flat_map (fun f => file_values f k) (map (delete_file ss lo hi) fs)) =
  if in_series ss k && in_rng lo hi t then None else lookup_last t (flat_map (fun f => file_values f k) fs).
Proof.
  induction fs as [|f r IH]; cbn [map flat_map].
  - cbn. destruct (in_series ss k && in_rng lo hi t); reflexivity.
  - rewrite !lookup_last_app, IH, delete_file_lookup. destruct (in_series ss k && in_rng lo hi t); reflexivity.
Qed.

Lemma In_delete_files ss lo hi fs k x :
  In x (flat_map (fun f => file_values f k) (map (delete_file ss lo hi) fs)) ->
  In x (flat_map (fun f => file_values f k) fs).
Proof.
  induction fs as [|f r IH]; cbn [map flat_map]; [tauto|]. rewrite !in_app_iff.
  intros [H|H]; [left; eapply In_delete_file; eassumption|right; apply IH; assumption].
Qed.

Lemma delete_entry_nil lo hi : delete_entry lo hi [] = [].
Proof. unfold delete_entry. destruct ((lo =? min_int64) && (hi =? max_int64)); reflexivity. Qed.

Lemma delete_entry_lookup lo hi vs t : (forall x, In x vs -> min_int64 <= fst x <= max_int64) ->
  lookup_last t (delete_entry lo hi vs) = if in_rng lo hi t then None else lookup_last t vs.
Proof.
  intros Hr. unfold delete_entry. destruct ((lo =? min_int64) && (hi =? max_int64)) eqn:E.
  - cbn [lookup_last]. destruct (in_rng lo hi t) eqn:Er; [reflexivity|]. symmetry.
    apply lookup_last_none_notin. intros v Hv. specialize (Hr _ Hv). cbn [fst] in Hr. unfold in_rng in Er. lia.
  - rewrite lookup_exclude_range. fold (in_rng lo hi t). destruct (in_rng lo hi t); [reflexivity|].
    destruct vs as [|a [|b r]]; try reflexivity. apply dedup_last_wins.
Qed.

Lemma In_delete_entry lo hi vs x : In x (delete_entry lo hi vs) -> In x vs.
Proof.
  unfold delete_entry. destruct ((lo =? min_int64) && (hi =? max_int64)); [intros []|].
  intros H. apply In_exclude in H. destruct vs as [|a [|b r]]; try assumption. apply In_dedup. assumption.
Qed.

Lemma delete_hot_keys ss lo hi hot k : In k (kv_keys (delete_hot ss lo hi hot)) -> In k (kv_keys hot).
Proof.
  unfold delete_hot, kv_keys. induction hot as [|[k0 vs] r IH]; cbn [flat_map map fst snd]; [tauto|].
  rewrite map_app, in_app_iff. intros [H|H]; [|right; apply IH; assumption].
  left. destruct (in_series ss k0).
  - destruct (delete_entry lo hi vs); [destruct H|]. cbn in H. tauto.
  - cbn in H. tauto.
Qed.

Lemma delete_hot_nodup ss lo hi hot : kv_nodup hot -> kv_nodup (delete_hot ss lo hi hot).
Proof.
  unfold kv_nodup. induction hot as [|[k0 vs] r IH]; intros Hn; [constructor|].
  cbn in Hn. inversion Hn; subst. specialize (IH H2).
  assert (Hk : ~ In k0 (kv_keys (delete_hot ss lo hi r))) by (intros Hk; apply delete_hot_keys in Hk; contradiction).
  unfold delete_hot in *. cbn [flat_map fst snd]. unfold kv_keys in *. rewrite map_app.
  destruct (in_series ss k0).
  - destruct (delete_entry lo hi vs); [exact IH|]. cbn. constructor; assumption.
  - cbn. constructor; assumption.
Qed.

Lemma delete_hot_get ss lo hi hot k : kv_nodup hot ->
  kv_get k (delete_hot ss lo hi hot) = if in_series ss k then delete_entry lo hi (kv_get k hot) else kv_get k hot.
Proof.
  unfold kv_nodup. induction hot as [|[k0 vs] r IH]; intros Hn.
  - cbn. rewrite delete_entry_nil. destruct (in_series ss k); reflexivity.
  - cbn in Hn. inversion Hn; subst. specialize (IH H2).
    assert (Hk : ~ In k0 (kv_keys (delete_hot ss lo hi r))) by (intros Hk; apply delete_hot_keys in Hk; contradiction).
    change (delete_hot ss lo hi ((k0, vs) :: r)) with
      ((if in_series ss k0 then match delete_entry lo hi vs with [] => [] | vs' => [(k0, vs')] end else [(k0, vs)]) ++ delete_hot ss lo hi r).
    cbn [kv_get]. destruct (key_eqb k0 k) eqn:E.
    + apply key_eqb_eq in E. subst k0. destruct (in_series ss k).
      * destruct (delete_entry lo hi vs) eqn:Ed; cbn [app kv_get].
        -- apply kv_get_notin. assumption.
        -- rewrite key_eqb_refl. reflexivity.
      * cbn [app kv_get]. rewrite key_eqb_refl. reflexivity.
    + destruct (in_series ss k0).
      * destruct (delete_entry lo hi vs); cbn [app kv_get]; [exact IH|]. rewrite E. exact IH.
      * cbn [app kv_get]. rewrite E. exact IH.
Qed.

Lemma drops_preserve fs c drops : forall tab k x,
  In x (live_values fs c k) -> val_ok tab k x ->
  val_ok (fold_left (fun t m => if meas_empty fs c m then ft_drop m t else t) drops tab) k x.
Proof.
  induction drops as [|m r IH]; intros tab k x Hx Hv; cbn [fold_left]; [assumption|].
  apply IH; [assumption|]. destruct (meas_empty fs c m) eqn:E; [|assumption].
  destruct Hv as [H1 H2]. split; [|assumption].
  destruct (key_mf k) as [m' f] eqn:Ek. rewrite ft_get_drop.
  assert (Hne : nlist_eqb m' m = false); [|rewrite Hne; assumption].
  unfold meas_empty in E. rewrite forallb_forall in E.
  destruct (existsb (key_eqb k) (state_keys fs c)) eqn:Ein.
  - apply existsb_key_In in Ein. specialize (E k Ein). rewrite Ek in E. cbn [fst] in E.
    destruct (live_values fs c k); [destruct Hx|]. rewrite orb_false_r in E. apply negb_true_iff in E. assumption.
  - exfalso. rewrite live_values_nokey in Hx; [destruct Hx|]. intros Hk. apply existsb_key_In in Hk. congruence.
Qed.

Lemma lww_snoc_delete h ks lo hi k t :
  lww (h ++ [ODelete ks lo hi]) k t = if existsb (key_eqb k) ks && in_rng lo hi t then None else lww h k t.
Proof. rewrite lww_snoc. reflexivity. Qed.

Lemma delete_inv st h ss lo0 hi0 drops : Inv st h -> s_snapping st = false ->
  Inv (delete st ss lo0 hi0 drops) (h ++ [delete_op st ss lo0 hi0]).
Proof.
  intros HI Hidle. pose proof (I_idle _ _ HI Hidle) as Hs. unfold delete, delete_op. cbv zeta.
  set (lo := conv_lo lo0). set (hi := conv_hi hi0).
  set (fs' := map (delete_file ss lo hi) (s_files st)).
  set (c' := {| c_snap := c_snap (s_cache st); c_hot := delete_hot ss lo hi (c_hot (s_cache st)) |}).
  assert (Hhot : forall k x, In x (kv_get k (c_hot (s_cache st))) -> min_int64 <= fst x <= max_int64).
  { intros k x Hx. apply (I_val _ _ HI k). rewrite live_values_unfold, !in_app_iff. tauto. }
  assert (Hlook : forall k t, lookup_last t (live_values fs' c' k) =
                              if in_series ss k && in_rng lo hi t then None else lookup_last t (live_values (s_files st) (s_cache st) k)).
  { intros k t. rewrite !live_values_unfold. unfold fs', c'. cbn [c_snap c_hot]. rewrite Hs. cbn [kv_get app].
    rewrite !lookup_last_app, delete_files_lookup, delete_hot_get by apply (I_hot _ _ HI).
    destruct (in_series ss k); cbn [andb]; [|reflexivity].
    rewrite delete_entry_lookup by apply Hhot. destruct (in_rng lo hi t); reflexivity. }
  assert (Hin : forall k x, In x (live_values fs' c' k) -> In x (live_values (s_files st) (s_cache st) k)).
  { intros k x. rewrite !live_values_unfold. unfold fs', c'. cbn [c_snap c_hot]. rewrite !in_app_iff.
    intros [H|[H|H]]; [left; eapply In_delete_files; eassumption|tauto|].
    right. right. rewrite delete_hot_get in H by apply (I_hot _ _ HI).
    destruct (in_series ss k); [eapply In_delete_entry; eassumption|assumption]. }
  constructor; cbn [s_files s_cache s_tab s_snapping].
  - intros k t. rewrite lww_snoc_delete, Hlook, (I_ref _ _ HI).
    destruct (existsb (key_eqb k) (filter (in_series ss) (state_keys (s_files st) (s_cache st)))) eqn:E.
    + apply existsb_key_In in E. apply filter_In in E. destruct E as [_ E]. rewrite E. reflexivity.
    + cbn [andb]. destruct (in_series ss k) eqn:Es; [|reflexivity]. cbn [andb].
      destruct (in_rng lo hi t); [|reflexivity].
      rewrite <- (I_ref _ _ HI). rewrite live_values_nokey; [reflexivity|].
      intros Hk. assert (existsb (key_eqb k) (filter (in_series ss) (state_keys (s_files st) (s_cache st))) = true); [|congruence].
      apply existsb_key_In. apply filter_In. tauto.
  - intros k x Hx. apply drops_preserve; [assumption|]. apply (I_val _ _ HI). apply Hin. assumption.
  - apply delete_hot_nodup. apply (I_hot _ _ HI).
  - apply (I_snp _ _ HI).
  - intros _. exact Hs.
Qed.

(* ---------- reopen ---------- *)

Lemma reopen_tab_same tsi tab fs c :
  (forall k x, In x (live_values fs c k) -> ft_get (key_mf k) tab = Some (vtype (snd x))) ->
  reopen_tab tsi tab fs c = Some tab.
Proof.
  intros H.
  assert (G : forall ks, fold_left (fun acc k => match acc with
                            | None => None
                            | Some t => match live_values fs c k with
                                        | [] => Some t
                                        | x :: _ => ft_create (key_mf k) (vtype (snd x)) t
                                        end
                            end) ks (Some tab) = Some tab).
  { induction ks as [|k r IH]; cbn [fold_left]; [reflexivity|].
    destruct (live_values fs c k) as [|x l] eqn:E; [exact IH|].
    unfold ft_create. rewrite (H k x) by (rewrite E; left; reflexivity). rewrite N.eqb_refl. exact IH. }
  unfold reopen_tab. destruct tsi; [destruct tab; [apply G|reflexivity]|apply G].
Qed.

Lemma reopen_inv st h : Inv st h -> exists st', reopen st = Some st' /\ Inv st' h /\ s_snapping st' = false.
Proof.
  intros HI. unfold reopen. cbv zeta.
  set (c' := {| c_snap := []; c_hot := reload_cache (s_cache st) |}).
  assert (Hl : forall k, live_values (s_files st) c' k = live_values (s_files st) (s_cache st) k).
  { intros k. rewrite !live_values_unfold. unfold c', reload_cache. cbn [c_snap c_hot kv_get app].
    rewrite kv_fold_append_get by apply (I_hot _ _ HI). reflexivity. }
  rewrite reopen_tab_same.
  2:{ intros k x. rewrite Hl. intros Hx. apply (I_val _ _ HI _ _ Hx). }
  eexists. split; [reflexivity|]. split; [|reflexivity].
  constructor; cbn [s_files s_cache s_tab s_snapping].
  - intros k t. rewrite Hl. apply (I_ref _ _ HI).
  - intros k x. rewrite Hl. apply (I_val _ _ HI).
  - unfold c', reload_cache. cbn [c_hot]. apply kv_fold_append_nodup. apply (I_snp _ _ HI).
  - constructor.
  - reflexivity.
Qed.

(* ---------- histories ---------- *)

Definition next_flag (b : bool) (s : step) : bool :=
  match s with SSnapBegin => true | SSnapCommit => false | SReopen => false | _ => b end.

Lemma hist_ok_cons b s r :
  hist_ok b (s :: r) = (match s with SDelete _ _ _ _ => negb b | _ => true end) && hist_ok (next_flag b s) r.
Proof. destruct s; reflexivity. Qed.

Lemma snap_commit_snapping st : s_snapping (fst (snap_commit st)) = false.
Proof.
  unfold snap_commit. destruct (s_snapping st) eqn:E; cbn [negb]; [|exact E].
  destruct (forallb _ _); reflexivity.
Qed.

Lemma snapshot_snapping st : s_snapping (fst (snapshot st)) = s_snapping st.
Proof.
  unfold snapshot, snap_begin. destruct (s_snapping st) eqn:E; [exact E|].
  cbn [fst]. rewrite snap_commit_snapping. reflexivity.
Qed.

Lemma write_snapping st pts : s_snapping (fst (write st pts)) = s_snapping st.
Proof. rewrite write_unfold. cbv zeta. destruct (negb _); reflexivity. Qed.

Lemma compact_snapping st a n : s_snapping (fst (compact st a n)) = s_snapping st.
Proof. unfold compact. cbv zeta. destruct (_ || _); reflexivity. Qed.

(* one step from a state satisfying the invariant: it is defined, keeps the invariant for the
   extended history, and moves the snapshot flag as [hist_ok] predicts *)
Lemma do_step_inv st h s :
  Inv st h -> step_int64 s = true ->
  (match s with SDelete _ _ _ _ => s_snapping st = false | _ => True end) ->
  exists st' ops, do_step st s = Some (st', ops) /\ Inv st' (h ++ ops) /\
                  s_snapping st' = next_flag (s_snapping st) s.
Proof.
  intros HI Hr Hd. destruct s as [pts| | | |a n|ss lo hi drops|]; cbn [do_step next_flag].
  - eexists _, _. split; [reflexivity|]. split; [apply write_inv; assumption|apply write_snapping].
  - eexists _, _. split; [reflexivity|]. rewrite app_nil_r. split; [apply snapshot_inv; assumption|apply snapshot_snapping].
  - eexists _, _. split; [reflexivity|]. rewrite app_nil_r. split; [apply snap_begin_inv; assumption|apply snap_begin_snapping].
  - eexists _, _. split; [reflexivity|]. rewrite app_nil_r. split; [apply snap_commit_inv; assumption|apply snap_commit_snapping].
  - eexists _, _. split; [reflexivity|]. rewrite app_nil_r. split; [apply compact_inv; assumption|apply compact_snapping].
  - eexists _, _. split; [reflexivity|]. split; [apply delete_inv; assumption|reflexivity].
  - destruct (reopen_inv st h HI) as [st' [E [HI' Hs]]]. rewrite E. eexists _, _. split; [reflexivity|].
    rewrite app_nil_r. split; assumption.
Qed.

Theorem run_inv steps : forall st h,
  Inv st h -> hist_ok (s_snapping st) steps = true -> forallb step_int64 steps = true ->
  exists st' h', run st h steps = Some (st', h') /\ Inv st' h'.
Proof.
  induction steps as [|s r IH]; intros st h HI Hok Hr; cbn [run].
  - eexists _, _. split; [reflexivity|assumption].
  - rewrite hist_ok_cons in Hok. apply andb_true_iff in Hok. destruct Hok as [Hs Hok].
    cbn [forallb] in Hr. apply andb_true_iff in Hr. destruct Hr as [Hr1 Hr2].
    destruct (do_step_inv st h s HI Hr1) as [st' [ops [E [HI' Hf]]]].
    { destruct s; try exact I. apply negb_true_iff in Hs. exact Hs. }
    rewrite E. apply IH; [assumption| |assumption]. rewrite Hf. assumption.
Qed.

(* C02, main statement *)
Theorem read_refines_lww_all tsi steps :
  hist_ok false steps = true -> forallb step_int64 steps = true ->
  exists st h, run (init tsi) [] steps = Some (st, h) /\
    forall m tags f lo hi asc,
      shard_read st m tags f lo hi asc = RVals (spec_read h (mkkey m tags f) lo hi asc) /\
      is_read h (mkkey m tags f) lo hi asc (spec_read h (mkkey m tags f) lo hi asc).
Proof.
  intros Hok Hr. destruct (run_inv steps (init tsi) [] (inv_init tsi) Hok Hr) as [st [h [E HI]]].
  exists st, h. split; [assumption|]. intros m tags f lo hi asc.
  split; [apply read_correct; assumption|apply spec_read_is_read].
Qed.

(* a field never holds values of two types: all values stored under keys of one
   (measurement, field) carry the type recorded for it *)
Theorem field_single_type_all tsi steps :
  hist_ok false steps = true -> forallb step_int64 steps = true ->
  exists st h, run (init tsi) [] steps = Some (st, h) /\
    (forall k x, In x (live_values (s_files st) (s_cache st) k) ->
                 ft_get (key_mf k) (s_tab st) = Some (vtype (snd x))) /\
    (forall k1 k2 x1 x2, key_mf k1 = key_mf k2 ->
                 In x1 (live_values (s_files st) (s_cache st) k1) ->
                 In x2 (live_values (s_files st) (s_cache st) k2) -> vtype (snd x1) = vtype (snd x2)).
Proof.
  intros Hok Hr. destruct (run_inv steps (init tsi) [] (inv_init tsi) Hok Hr) as [st [h [E HI]]].
  exists st, h. split; [assumption|]. split.
  - intros k x Hx. apply (I_val _ _ HI _ _ Hx).
  - intros k1 k2 x1 x2 Hk H1 H2. destruct (I_val _ _ HI _ _ H1) as [E1 _]. destruct (I_val _ _ HI _ _ H2) as [E2 _].
    rewrite Hk in E1. rewrite E1 in E2. inversion E2. reflexivity.
Qed.

(* ---------- type conflicts ---------- *)

Lemma filter_length_le {A} (p : A -> bool) l : (length (filter p l) <= length l)%nat.
Proof. induction l as [|x r IH]; cbn; [lia|]. destruct (p x); cbn; lia. Qed.

Lemma filter_length_lt {A} (p : A -> bool) l x : In x l -> p x = false -> (length (filter p l) < length l)%nat.
Proof.
  induction l as [|y r IH]; [intros []|]. intros [->|H] Hp; cbn [filter length].
  - rewrite Hp. pose proof (filter_length_le p r). lia.
  - specialize (IH H Hp). destruct (p y); cbn [length]; lia.
Qed.

Lemma filter_all {A} (p : A -> bool) l : length (filter p l) = length l -> filter p l = l.
Proof.
  induction l as [|y r IH]; [reflexivity|]. cbn [filter length]. destruct (p y) eqn:E; cbn [length].
  - intros H. f_equal. apply IH. lia.
  - pose proof (filter_length_le p r). lia.
Qed.

(* the write's outcome when no two NEW fields of the batch disagree with each other *)
Lemma write_result st h pts :
  Inv st h -> forallb point_int64 pts = true ->
  let good := filter (point_ok (s_tab st)) pts in
  snd (create_fields (flat_map (point_creates (s_tab st)) good) (s_tab st)) = true ->
  snd (write st pts) = match (length pts - length good)%nat with O => WOk | _ => WPartial (length pts - length good) end /\
  write_acked st pts = flat_map point_kvs good.
Proof.
  intros HI Hrng good Hok.
  assert (R : snd (write st pts) = match (length pts - length good)%nat with O => WOk | _ => WPartial (length pts - length good) end).
  { rewrite write_unfold. cbv zeta. fold good. rewrite Hok. cbn [negb snd].
    destruct (cache_write_ok (tab_type (fst (create_fields (flat_map (point_creates (s_tab st)) good) (s_tab st))))
                (c_hot (s_cache st)) (flat_map point_kvs good)) as [C1 _].
    - intros k x Hx. apply val_ok_type. eapply val_ok_sub; [apply create_fields_sub|]. apply (I_val _ _ HI).
      rewrite live_values_unfold, !in_app_iff. tauto.
    - intros k x Hx. apply val_ok_type. apply (kept_val_ok (s_tab st) pts k x Hok Hrng Hx).
    - rewrite C1. reflexivity. }
  split; [exact R|]. unfold write_acked. rewrite R. unfold validate. cbn [fst]. fold good.
  destruct (length pts - length good)%nat; reflexivity.
Qed.

Theorem type_conflict_partial_lemma st h pts :
  Inv st h -> forallb point_int64 pts = true ->
  let good := filter (point_ok (s_tab st)) pts in
  snd (create_fields (flat_map (point_creates (s_tab st)) good) (s_tab st)) = true ->
  (exists p, In p pts /\ point_ok (s_tab st) p = false) ->
  snd (write st pts) = WPartial (length pts - length good) /\ (0 < length pts - length good)%nat /\
  forall m tags f lo hi asc,
    shard_read (fst (write st pts)) m tags f lo hi asc =
    RVals (spec_read (h ++ [OWrite (flat_map point_kvs good)]) (mkkey m tags f) lo hi asc).
Proof.
  intros HI Hrng good Hok [p [Hp Hbad]].
  destruct (write_result st h pts HI Hrng Hok) as [R A]. fold good in R, A.
  pose proof (filter_length_lt _ _ _ Hp Hbad) as Hlt. fold good in Hlt.
  split; [|split; [lia|]].
  - rewrite R. destruct (length pts - length good)%nat eqn:E; [lia|reflexivity].
  - intros m tags f lo hi asc. rewrite <- A. apply read_correct. apply write_inv; assumption.
Qed.

(* ---------- re-writing identical points ---------- *)

Lemma point_ok_iff tab p :
  point_ok tab p = true <->
  forall fv, In fv (p_fields p) ->
    match ft_get (p_meas p, fst fv) tab with Some ty => N.eqb ty (vtype (snd fv)) | None => true end = true.
Proof. unfold point_ok. apply forallb_forall. Qed.

Lemma point_ok_after tab pts p :
  let good := filter (point_ok tab) pts in
  let cf := create_fields (flat_map (point_creates tab) good) tab in
  snd cf = true -> In p pts -> point_ok (fst cf) p = point_ok tab p.
Proof.
  cbv zeta. intros Hok Hp. destruct (point_ok tab p) eqn:E.
  - (* a kept point: afterwards every field of it is recorded with the type it carries *)
    assert (Hgood : In p (filter (point_ok tab) pts)) by (apply filter_In; tauto).
    rewrite point_ok_iff in E. apply point_ok_iff. intros fv Hfv. specialize (E fv Hfv).
    destruct (ft_get (p_meas p, fst fv) tab) as [ty|] eqn:Eg.
    + rewrite (create_fields_sub _ _ _ _ Eg). assumption.
    + rewrite (create_fields_ok _ _ Hok (p_meas p, fst fv) (vtype (snd fv))); [apply N.eqb_refl|].
      apply in_flat_map. exists p. split; [assumption|].
      unfold point_creates. apply in_flat_map. exists fv. split; [assumption|]. rewrite Eg. left. reflexivity.
  - (* a conflicting point: the field it conflicts on keeps its type *)
    apply not_true_iff_false. intros H. apply not_true_iff_false in E. apply E.
    rewrite point_ok_iff in H. apply point_ok_iff. intros fv Hfv. specialize (H fv Hfv).
    destruct (ft_get (p_meas p, fst fv) tab) as [ty|] eqn:Eg; [|reflexivity].
    rewrite (create_fields_sub _ _ _ _ Eg) in H. assumption.
Qed.

Lemma flat_map_nil {A B} (f : A -> list B) l : (forall x, In x l -> f x = []) -> flat_map f l = [].
Proof.
  induction l as [|x r IH]; intros H; cbn [flat_map]; [reflexivity|].
  rewrite (H x (or_introl eq_refl)), IH; [reflexivity|]. intros y Hy. apply H. right. assumption.
Qed.

Lemma write_tab st pts :
  let good := filter (point_ok (s_tab st)) pts in
  let cf := create_fields (flat_map (point_creates (s_tab st)) good) (s_tab st) in
  snd cf = true -> s_tab (fst (write st pts)) = fst cf.
Proof. cbv zeta. intros Hok. rewrite write_unfold. cbv zeta. rewrite Hok. reflexivity. Qed.

Lemma spec_read_ext h h' k lo hi asc :
  (forall t, lww h k t = lww h' k t) -> spec_read h k lo hi asc = spec_read h' k lo hi asc.
Proof.
  intros H. symmetry. unfold spec_read at 1. apply spec_read_unique; [apply spec_read_asc_sorted|].
  intros t. rewrite spec_read_asc_lookup, H. reflexivity.
Qed.

Theorem rewrite_idempotent_lemma st h pts :
  Inv st h -> forallb point_int64 pts = true ->
  let good := filter (point_ok (s_tab st)) pts in
  snd (create_fields (flat_map (point_creates (s_tab st)) good) (s_tab st)) = true ->
  let st1 := fst (write st pts) in
  snd (write st1 pts) = snd (write st pts) /\ forall m tags f lo hi asc,
    shard_read (fst (write st1 pts)) m tags f lo hi asc = shard_read st1 m tags f lo hi asc.
Proof.
  intros HI Hrng good Hok st1.
  destruct (write_result st h pts HI Hrng Hok) as [R A]. fold good in R, A.
  pose proof (write_inv st h pts HI Hrng) as HI1. fold st1 in HI1. rewrite A in HI1.
  pose proof (write_tab st pts Hok) as Htab. fold good st1 in Htab.
  set (cf := create_fields (flat_map (point_creates (s_tab st)) good) (s_tab st)) in *.
  assert (Hgood1 : filter (point_ok (s_tab st1)) pts = good).
  { rewrite Htab. apply filter_ext_in. intros p Hp. apply (point_ok_after (s_tab st) pts p Hok Hp). }
  assert (Hcr : flat_map (point_creates (s_tab st1)) good = []).
  { apply flat_map_nil. intros p Hp. unfold point_creates. apply flat_map_nil. intros fv Hfv.
    assert (Hv : val_ok (fst cf) (mkkey (p_meas p) (p_tags p) (fst fv)) (p_time p, snd fv)).
    { apply (kept_val_ok (s_tab st) pts _ _ Hok Hrng). apply in_flat_map. exists p. split; [assumption|].
      unfold point_kvs. apply in_map_iff. exists fv. split; [reflexivity|assumption]. }
    destruct Hv as [Hv _]. rewrite key_mf_mkkey in Hv. cbn [snd] in Hv. rewrite Htab, Hv, N.eqb_refl. reflexivity. }
  assert (Hok1 : snd (create_fields (flat_map (point_creates (s_tab st1)) (filter (point_ok (s_tab st1)) pts)) (s_tab st1)) = true).
  { rewrite Hgood1, Hcr. reflexivity. }
  destruct (write_result st1 _ pts HI1 Hrng Hok1) as [R1 A1]. rewrite Hgood1 in R1, A1.
  split; [rewrite R1, R; reflexivity|].
  intros m tags f lo hi asc.
  pose proof (write_inv st1 _ pts HI1 Hrng) as HI2. rewrite A1 in HI2.
  rewrite (read_correct _ _ m tags f lo hi asc HI2), (read_correct _ _ m tags f lo hi asc HI1). f_equal.
  apply spec_read_ext. intros t. rewrite !lww_snoc_write.
  destruct (lookup_last t (batch_values (mkkey m tags f) (flat_map point_kvs good))); reflexivity.
Qed.

(* ---------- the executable spec of Run.v holds for what the model produces ---------- *)

Lemma flat_map_ext_in' {A B} (f g : A -> list B) l : (forall x, In x l -> f x = g x) -> flat_map f l = flat_map g l.
Proof.
  induction l as [|x r IH]; intros H; cbn [flat_map]; [reflexivity|].
  rewrite (H x (or_introl eq_refl)), IH; [reflexivity|]. intros y Hy. apply H. right. assumption.
Qed.

Lemma creates_new_fields tab pts :
  flat_map (point_creates tab) (filter (point_ok tab) pts) = new_fields tab pts.
Proof.
  unfold new_fields. apply flat_map_ext_in'. intros p Hp. apply filter_In in Hp. destruct Hp as [_ Hp].
  rewrite point_ok_iff in Hp. unfold point_creates. apply flat_map_ext_in'. intros fv Hfv. specialize (Hp fv Hfv).
  destruct (ft_get (p_meas p, fst fv) tab); [rewrite Hp|]; reflexivity.
Qed.

Lemma new_fields_absent tab pts : forall e, In e (new_fields tab pts) -> ft_get (fst e) tab = None.
Proof.
  intros e He. unfold new_fields in He. apply in_flat_map in He. destruct He as [p [_ He]].
  apply in_flat_map in He. destruct He as [fv [_ He]].
  destruct (ft_get (p_meas p, fst fv) tab) eqn:E; [destruct He|]. destruct He as [<-|[]]. exact E.
Qed.

(* a creation can only fail on a field the same batch created before with another type *)
Lemma create_fields_fail_gen cs : forall done t,
  (forall mf ty, In mf (map fst cs) -> ft_get mf t = Some ty -> In (mf, ty) done) ->
  snd (create_fields cs t) = false ->
  exists a b, In a (done ++ cs) /\ In b (done ++ cs) /\ fst a = fst b /\ snd a <> snd b.
Proof.
  induction cs as [|[mf0 ty0] r IH]; intros done t Hd Hf; [cbn in Hf; discriminate|].
  cbn [create_fields] in Hf. unfold ft_create in Hf.
  destruct (ft_get mf0 t) as [ty'|] eqn:Eg.
  - destruct (N.eqb_spec ty' ty0) as [->|Hne].
    + destruct (IH (done ++ [(mf0, ty0)]) t) as [a [b H]]; [|assumption|].
      * intros mf ty Hin Hg. apply in_or_app. left. apply Hd; [right; assumption|assumption].
      * rewrite <- app_assoc in H. exists a, b. exact H.
    + exists (mf0, ty'), (mf0, ty0). repeat split.
      * apply in_or_app. left. apply Hd; [left; reflexivity|assumption].
      * apply in_or_app. right. left. reflexivity.
      * exact Hne.
  - destruct (IH (done ++ [(mf0, ty0)]) (t ++ [(mf0, ty0)])) as [a [b H]]; [|assumption|].
    + intros mf ty Hin Hg. rewrite ft_get_app in Hg. apply in_or_app.
      destruct (ft_get mf t) eqn:E.
      * left. inversion Hg; subst. apply Hd; [right; assumption|assumption].
      * cbn [fst snd] in Hg. destruct (name2_eqb mf0 mf) eqn:En; [|discriminate].
        apply name2_eqb_eq in En. inversion Hg; subst. right. left. reflexivity.
    + rewrite <- app_assoc in H. exists a, b. exact H.
Qed.

Lemma create_fields_fail cs tab :
  (forall e, In e cs -> ft_get (fst e) tab = None) -> snd (create_fields cs tab) = false ->
  existsb (fun a => existsb (fun b => name2_eqb (fst a) (fst b) && negb (N.eqb (snd a) (snd b))) cs) cs = true.
Proof.
  intros Habs Hf. destruct (create_fields_fail_gen cs [] tab) as [a [b [Ha [Hb [E1 E2]]]]]; [|assumption|].
  - intros mf ty Hin Hg. apply in_map_iff in Hin. destruct Hin as [e [<- He]]. rewrite (Habs e He) in Hg. discriminate.
  - cbn [app] in Ha, Hb. apply existsb_exists. exists a. split; [assumption|].
    apply existsb_exists. exists b. split; [assumption|].
    rewrite E1, name2_eqb_refl. cbn [andb]. apply negb_true_iff. apply N.eqb_neq. assumption.
Qed.

(* writes: the result the model reports is the one [spec_write] demands for the table the
   model shows, and it acknowledges exactly [write_acked] *)
Theorem model_write_spec st h pts :
  Inv st h -> forallb point_int64 pts = true ->
  spec_write (s_tab st) pts (snd (write st pts)) = Some (write_acked st pts).
Proof.
  intros HI Hrng. unfold spec_write. cbv zeta. set (good := filter (point_ok (s_tab st)) pts).
  destruct (snd (create_fields (flat_map (point_creates (s_tab st)) good) (s_tab st))) eqn:Hok.
  - destruct (write_result st h pts HI Hrng Hok) as [R A]. fold good in R, A. rewrite R, A.
    pose proof (filter_length_le (point_ok (s_tab st)) pts) as Hle. fold good in Hle.
    destruct (length pts - length good)%nat eqn:E.
    + cbn [Nat.eqb]. f_equal. f_equal. symmetry. apply filter_all. fold good. lia.
    + rewrite Nat.eqb_refl. reflexivity.
  - assert (R : snd (write st pts) = WErr).
    { rewrite write_unfold. cbv zeta. fold good. rewrite Hok. reflexivity. }
    unfold write_acked. rewrite R. unfold good in Hok. rewrite creates_new_fields in Hok.
    unfold new_conflict. cbv zeta. rewrite (create_fields_fail _ _ (new_fields_absent _ _) Hok). reflexivity.
Qed.

(* reads: what the model returns is the spec read of the acknowledged history, and every
   value has the type the table shows for the field *)
Theorem model_read_spec st h m tags f lo hi asc :
  Inv st h ->
  exists l, shard_read st m tags f lo hi asc = RVals l /\
            l = spec_read_fast h (mkkey m tags f) lo hi asc /\
            forall x, In x l -> ft_get (m, f) (s_tab st) = Some (vtype (snd x)).
Proof.
  intros HI. exists (spec_read h (mkkey m tags f) lo hi asc).
  split; [apply read_correct; assumption|]. split; [symmetry; apply spec_read_fast_eq|].
  intros x Hx. rewrite <- (key_mf_mkkey m tags f). apply (I_val _ _ HI).
  assert (Hr : In x (spec_read_asc h (mkkey m tags f) lo hi)).
  { unfold spec_read in Hx. destruct asc; [assumption|apply in_rev; assumption]. }
  destruct x as [t v]. apply (in_sorted_lookup t v _ (spec_read_asc_sorted _ _ _ _)) in Hr.
  rewrite spec_read_asc_lookup in Hr. destruct (in_rng lo hi t); [|discriminate].
  rewrite <- (I_ref _ _ HI) in Hr. apply lookup_last_In. assumption.
Qed.
