(* C07/Props.v — property theorems only.

   PARTIAL BY DESIGN.  Leader election, log replication and durable storage are
   hashicorp/raft + boltdb and are NOT modelled.  Raft enters as the hypothesis RaftLog,
   the inductive [replica_at] of Model.v: a replica that has applied n entries is in a state
   obtained from newStore's value by applying entries 1..n of ONE committed log in order (with
   its own wall clock), where at any point its value may have been replaced by
   Restore(Persist(v)) of the value v some replica had at the same point of the log (own
   snapshot + restart, InstallSnapshot, nested arbitrarily).  That hypothesis is only
   exercised by the thorough-tier soak of the harness, not proved.  The protobuf wire format
   is a Section hypothesis (decode o encode = id on the generated structs).  Timing of
   long-polling clients is not modelled.

   Everything else is about the Gallina model (C06/Model.v metadata + FSM, C07/Model.v
   marshal/unmarshal, heap with aliasing for Clone/Snapshot, validateCommand/Apply head).
   [bnd] is any upper bound of the shard-group durations in use ([bnd_ok]: at least the
   built-in defaults, at most MaxInt64: take MaxInt64 for no restriction); [cmd_ok bnd] = the
   arguments have their Go types (uint32 / int32 / int64) and durations <= bnd. *)
From Verif Require Import C06.Model C06.Eqb C06.Spec C06.Proofs C06.ProofsCreate.
From Verif Require Import C07.Model C07.Spec C07.ProofsMarshal C07.ProofsWf C07.ProofsHeap C07.ProofsSlice C07.Proofs.
From Verif Require Import C07.Persist C07.PersistSpec C07.ProofsPersist.
From VerifGen Require Import Consts.
From Coq Require Import Lia.
Open Scope N_scope.

(* facts re-read from the source on every run: Data.Clone copies both node lists,
   storeFSM.Snapshot clones, validateCommand looks at type and extension, and every type it
   lets through is a case of Apply's switch that asserts exactly that extension *)
Theorem source_facts :
  c07_clone_copies_node_lists = true /\ c07_snapshot_clones = true /\ c07_validate_checks_ext = true /\
  forallb (table_entry_ok c07_apply_ext) c07_validate_table = true /\
  (* every slice / map field of every struct reachable from Data is copied by its clone method *)
  c07_clone_all_deep = true /\ forallb (fun b => b) c07_clone_fields_copied = true /\
  (* store.remove decides to reset its own store from the raft peer list *)
  c07_remove_resets_by_raft_peers = true.
Proof.
  split; [reflexivity|]. split; [reflexivity|]. split; [reflexivity|]. split; [exact tables_consistent|].
  split; [reflexivity|]. split; reflexivity.
Qed.
Print Assumptions source_facts.

(* ---------- snapshot fidelity ---------- *)

(* unmarshal (marshal d) = d for EVERY metadata value satisfying the representation
   predicate; [dat]: the replica's DeletedAt stamps (unix ns), none of them the epoch *)
Theorem marshal_roundtrip :
  forall dat bnd d, (forall id, m_time (dat id) <> 0%Z) -> wf bnd d = true -> unmarshal (marshal dat d) = d.
Proof. exact ProofsMarshal.marshal_roundtrip. Qed.
Print Assumptions marshal_roundtrip.

(* wf holds initially and is preserved by every command, accepted or rejected *)
Theorem wf_preserved :
  forall bnd, bnd_ok bnd ->
    wf bnd init_data = true /\
    forall auto ex d idx term c, wf bnd d = true -> cmd_ok bnd c = true ->
      wf bnd (fst (apply auto ex d idx term c)) = true.
Proof.
  intros bnd (A & B & C & D). split; [reflexivity|]. intros. apply apply_wf; auto.
Qed.
Print Assumptions wf_preserved.

(* hence every value any replica reaches is restored exactly; cmd_ok implies C06's cmd_wf, so
   these values are the reachable ones of C06 *)
Theorem reachable_restored_exactly :
  forall bnd auto orc log dat, bnd_ok bnd -> log_ok bnd log -> (forall id, m_time (dat id) <> 0%Z) ->
    reachable auto (run auto orc log) /\
    unmarshal (marshal dat (run auto orc log)) = run auto orc log.
Proof.
  intros bnd auto orc log dat Hb L Hs. split.
  - apply run_reachable. eapply log_ok_wf; eauto.
  - apply (ProofsMarshal.marshal_roundtrip dat bnd); auto. apply run_wf; auto.
Qed.
Print Assumptions reachable_restored_exactly.

(* the image carries exactly the deletion stamps of the deleted groups *)
Theorem image_keeps_stamps :
  forall dat d, (forall id, m_time (dat id) <> 0%Z) -> pdata_stamps (marshal dat d) = data_stamps dat d.
Proof. exact image_stamps. Qed.
Print Assumptions image_keeps_stamps.

(* ---------- convergence ---------- *)

(* any two replicas satisfying RaftLog that have applied the same number of entries of the
   committed log have the same metadata (canonical form: C06.canon), whatever their clocks,
   crashes, restarts and snapshot installs were *)
Theorem replicas_converge :
  forall bnd, bnd_ok bnd ->
  forall (image : Type) (pm : pdata -> image) (pu : image -> option pdata),
    (forall p, pu (pm p) = Some p) ->
  forall auto log n d1 d2, log_ok bnd log ->
    replica_at image pm pu auto log n d1 -> replica_at image pm pu auto log n d2 -> canon d1 = canon d2.
Proof. intros bnd Hb image pm pu Hrt. exact (Proofs.replicas_converge bnd Hb image pm pu Hrt). Qed.
Print Assumptions replicas_converge.

(* crash + restart stays inside RaftLog: a replica whose snapshot file holds the image of a
   RaftLog state at k and whose log holds the committed entries k+1..k+m recovers (Restore,
   then replay) to a RaftLog state at k+m *)
Theorem recover_in_raftlog :
  forall (image : Type) (pm : pdata -> image) (pu : image -> option pdata),
    (forall p, pu (pm p) = Some p) ->
  forall auto log orc (r : replica image) k m,
    match r_snap image r with
    | None => k = 0%nat
    | Some (k', img) => k' = k /\ exists dat d, replica_at image pm pu auto log k d /\ stamps_ok dat /\ img = persist image pm dat d
    end ->
    r_suffix image r = firstn m (skipn k log) -> List.length (r_suffix image r) = m ->
    exists d', recover image pu auto orc r = Some d' /\ replica_at image pm pu auto log (k + m) d'.
Proof. intros image pm pu Hrt. exact (Proofs.recover_in_raftlog image pm pu Hrt). Qed.
Print Assumptions recover_in_raftlog.

(* ... and it is the metadata of the straight run of that prefix *)
Theorem replica_is_straight_run :
  forall bnd, bnd_ok bnd ->
  forall (image : Type) (pm : pdata -> image) (pu : image -> option pdata),
    (forall p, pu (pm p) = Some p) ->
  forall auto log orc n d, log_ok bnd log -> replica_at image pm pu auto log n d ->
    canon d = canon (run auto orc (firstn n log)).
Proof.
  intros bnd Hb image pm pu Hrt auto log orc n d L R.
  apply (replica_at_inv bnd Hb image pm pu Hrt auto log orc n d L R).
Qed.
Print Assumptions replica_is_straight_run.

(* for every log, every snapshot index k, every pair of clocks: the image persisted at k
   restores to exactly the state at k, and replaying the suffix on it gives the metadata of
   the whole log.  (Nested snapshot/restore cycles: iterate, or use replicas_converge.) *)
Theorem snapshot_restore_replay_eq :
  forall bnd, bnd_ok bnd ->
  forall (image : Type) (pm : pdata -> image) (pu : image -> option pdata),
    (forall p, pu (pm p) = Some p) ->
  forall auto log k orc orc' dat, log_ok bnd log -> (forall id, m_time (dat id) <> 0%Z) ->
    exists d, restore image pu (persist image pm dat (run auto orc (firstn k log))) = Some d /\
              d = run auto orc (firstn k log) /\
              canon (run_from auto orc' k d (skipn k log)) = canon (run auto orc log).
Proof. intros bnd Hb image pm pu Hrt. exact (Proofs.snapshot_restore_replay bnd Hb image pm pu Hrt). Qed.
Print Assumptions snapshot_restore_replay_eq.

(* a client cache that installs the image of the leader's value at index k holds that value *)
Theorem client_cache_eq :
  forall bnd, bnd_ok bnd ->
  forall auto log k orc dat, log_ok bnd log -> (forall id, m_time (dat id) <> 0%Z) ->
    unmarshal (marshal dat (run auto orc (firstn k log))) = run auto orc (firstn k log).
Proof. exact Proofs.client_cache_eq. Qed.
Print Assumptions client_cache_eq.

(* ---------- point in time ---------- *)

(* the heap machine with the repaired Clone is storeFSM.Apply of C06, for every schedule *)
Theorem fsm_refines :
  forall spare auto evs,
    let r := hrun spare true true auto init_fsm [] evs in
    hread (f_heap (fst r)) (f_cur (fst r)) = run_events auto init_data evs.
Proof. exact run_refines. Qed.
Print Assumptions fsm_refines.

(* a snapshot (or a published value) taken after the events evs1, persisted after ANY further
   events evs2 (commands accepted or rejected, other snapshots), yields the image of the
   metadata after evs1: the image is a function of the entries before the snapshot only *)
Theorem snapshot_point_in_time :
  forall (image : Type) (pm : pdata -> image) spare auto evs1 take evs2 dat p,
    is_take take = true ->
    let r := hrun spare true true auto init_fsm [] (evs1 ++ take :: evs2) in
    nth_error (snd r) (count_takes evs1) = Some p ->
    persist image pm dat (hread (f_heap (fst r)) p) = persist image pm dat (run_events auto init_data evs1).
Proof.
  intros image pm spare auto evs1 take evs2 dat p Ht r Hp. subst r.
  pose proof (taken_value_frozen spare auto evs1 take evs2 Ht) as F. cbn zeta in F.
  rewrite (map_nth_error _ _ _ Hp) in F. inversion F as [E]. rewrite E. reflexivity.
Qed.
Print Assumptions snapshot_point_in_time.

(* the same for every other slice a *Data reaches (Subscriptions, Users, RetentionPolicies,
   ContinuousQueries, ShardGroups, Shards, Owners; any element type): whatever sequence of
   append / remove-by-shifting / element assignments the FSM performs through a copy that has
   its own array, the original reads what it read before.  Together with source_facts (all
   twelve slice/map fields are copied) this is why the heap machine may keep them by value. *)
Theorem cloned_slice_frozen :
  forall (A : Type) (zero : A) (spare : nat -> nat) (h : list (list A)) (s0 : gslice) (ops : list gop),
    (gs_addr s0 < List.length h)%nat ->
    let r := fold_left (gs_step zero spare) ops (gs_clone true h s0) in
    gs_read (fst r) s0 = gs_read h s0.
Proof. intros A zero spare. exact (ProofsSlice.cloned_slice_frozen zero spare). Qed.
Print Assumptions cloned_slice_frozen.

(* ---------- removals ---------- *)

(* store.remove (decision re-read from the source, see source_facts): removing another member
   of the raft configuration never makes the executing node reset itself; its metadata is the
   one after the DeleteMetaNode command.  (Raft membership itself is NOT modelled: the
   quick-tier membership scenarios on real services are a monitor, observed not proved.) *)
Theorem remove_keeps_metadata :
  forall st id addr d',
    In (ms_self st) (ms_peers st) -> In addr (ms_peers st) -> addr <> ms_self st ->
    delete_meta_node (ms_data st) id = Ok d' ->
    ms_data (remove_step true st id addr) = d' /\ In (ms_self st) (ms_peers (remove_step true st id addr)).
Proof. exact ProofsSlice.remove_keeps_metadata. Qed.
Print Assumptions remove_keeps_metadata.

Theorem remove_by_meta_nodes_refuted :
  let d := Dt 1 6 77 [Nd 1 "a:8091" "a:8089"; Nd 2 "b:8091" "b:8089"] [] [Db "db0" "" [] []] [] false 2 0 0 in
  let st := MS "a:8089" (["a:8089"; "b:8089"]%string) d in
  ms_data (remove_step false st 2 "b:8089") = init_data /\
  ms_data (remove_step true st 2 "b:8089") = Dt 1 6 77 [Nd 1 "a:8091" "a:8089"] [] [Db "db0" "" [] []] [] false 2 0 0.
Proof. exact ProofsSlice.remove_by_meta_nodes_refuted. Qed.
Print Assumptions remove_by_meta_nodes_refuted.

(* ---------- accepted requests can be applied ---------- *)

(* for EVERY byte string and any protobuf decoder: accepted by validateCommand => Apply does
   not panic on it (tables re-read from the source) *)
Theorem validated_commands_apply_total :
  forall (decode : list N -> envelope) (b : list N), validate decode b = true -> apply_raw decode b <> Crash.
Proof. exact Proofs.validated_commands_apply_total. Qed.
Print Assumptions validated_commands_apply_total.

(* validation is necessary: each of these envelope shapes panics Apply *)
Theorem unvalidated_envelopes_crash :
  apply_raw_env c07_apply_ext (Env false 0 (fun _ => XAbsent)) = Crash /\
  apply_raw_env c07_apply_ext (Env true 99 (fun _ => XOk)) = Crash /\
  apply_raw_env c07_apply_ext (Env true 7 (fun _ => XOk)) = Crash /\
  apply_raw_env c07_apply_ext (Env true (-1) (fun _ => XOk)) = Crash /\
  apply_raw_env c07_apply_ext (Env true 3 (fun _ => XAbsent)) = Crash /\
  apply_raw_env c07_apply_ext (Env true 3 (fun f => if f =? 104 then XOk else XAbsent)) = Crash /\
  apply_raw_env c07_apply_ext (Env true 3 (fun f => if f =? 103 then XBad else XAbsent)) = Crash.
Proof. exact apply_raw_crashes. Qed.
Print Assumptions unvalidated_envelopes_crash.

(* ---------- snapshot persistence under write faults ---------- *)

(* Persist.v: raft's FileSnapshotSink as a state machine with planted faults (per Write call:
   ok / k bytes taken then error; finalisation in Close ok / error; the first of Close and
   Cancel decides), storeFSMSnapshot.Persist statement by statement ([persist_to], [m] = the
   result of Data.MarshalBinary, None = error) and the three statements of raft's takeSnapshot
   around it ([take_snapshot]).  [s] is ANY open sink (any bytes already in it, any faults
   planted): FileSnapshotStore.Create returns [fresh_sink wfl cf]. *)

(* for EVERY marshal result and EVERY fault oracle: if the sink ends up committed then Persist
   returned nil and the sink holds exactly the marshalled image *)
Theorem persist_commits_only_complete_images :
  forall m s s' tr err, is_open s = true -> persist_to m s = (s', tr, err) -> committed s' = true ->
    err = false /\ exists p, m = Some p /\ sk_buf s' = sk_buf s ++ p.
Proof. exact ProofsPersist.persist_commits_only_complete_images. Qed.
Print Assumptions persist_commits_only_complete_images.

(* if Persist returns an error the sink is not committed *)
Theorem failed_persist_leaves_no_snapshot :
  forall m s s' tr, is_open s = true -> persist_to m s = (s', tr, true) -> committed s' = false.
Proof. exact ProofsPersist.failed_persist_leaves_no_snapshot. Qed.
Print Assumptions failed_persist_leaves_no_snapshot.

(* with no fault planted the sink is committed with the full image, by one Write and one Close *)
Theorem persist_completes :
  forall p s s' tr err, is_open s = true -> no_faults s = true -> persist_to (Some p) s = (s', tr, err) ->
    err = false /\ committed s' = true /\ sk_buf s' = sk_buf s ++ p /\
    tr = [KWrite (blen p) (blen p) false; KClose false].
Proof. exact ProofsPersist.persist_completes. Qed.
Print Assumptions persist_completes.

(* the same for the whole attempt (Persist, then raft's Cancel on error / Close): what a
   restart finds is nothing new or the complete image; raft reports failure exactly when
   nothing was committed; an error of Persist fails the attempt *)
Theorem snapshot_commits_only_complete_images :
  forall m s s' tr err, is_open s = true -> take_snapshot m s = (s', tr, err) -> committed s' = true ->
    err = false /\ snd (persist_to m s) = false /\ exists p, m = Some p /\ sk_buf s' = sk_buf s ++ p.
Proof. exact ProofsPersist.snapshot_commits_only_complete_images. Qed.
Print Assumptions snapshot_commits_only_complete_images.

Theorem failed_snapshot_leaves_no_snapshot :
  forall m s s' tr, is_open s = true -> take_snapshot m s = (s', tr, true) -> committed s' = false.
Proof. exact ProofsPersist.failed_snapshot_leaves_no_snapshot. Qed.
Print Assumptions failed_snapshot_leaves_no_snapshot.

Theorem persist_error_fails_snapshot :
  forall m s, is_open s = true -> snd (persist_to m s) = true ->
    snd (take_snapshot m s) = true /\ committed (fst (fst (take_snapshot m s))) = false.
Proof. exact ProofsPersist.persist_error_fails_snapshot. Qed.
Print Assumptions persist_error_fails_snapshot.

(* liveness of the attempt: whatever was planted, if no call at the sink actually failed and
   MarshalBinary gave an image, the snapshot is committed *)
Theorem unfaulted_snapshot_commits :
  forall p s s' tr err, is_open s = true -> take_snapshot (Some p) s = (s', tr, err) -> trace_faulted tr = false ->
    err = false /\ committed s' = true.
Proof. exact ProofsPersist.unfaulted_snapshot_commits. Qed.
Print Assumptions unfaulted_snapshot_commits.

(* with marshal_roundtrip: restoring ANY committed snapshot yields the snapshotted value, for
   every metadata value satisfying wf, every marshal / write / close fault *)
Theorem committed_snapshot_restores :
  forall (pm : pdata -> list N) (pu : list N -> option pdata), (forall p, pu (pm p) = Some p) ->
  forall bnd dat d mfail wfl cf s' tr err,
    stamps_ok dat -> wf bnd d = true ->
    take_snapshot (marshal_binary pm mfail dat d) (fresh_sink wfl cf) = (s', tr, err) ->
    committed s' = true ->
    restore (list N) pu (sk_buf s') = Some d.
Proof. intros pm pu Hrt. exact (ProofsPersist.committed_snapshot_restores pm pu Hrt). Qed.
Print Assumptions committed_snapshot_restores.

(* ... in particular for the metadata any command log leads to *)
Theorem reachable_snapshot_restores :
  forall (pm : pdata -> list N) (pu : list N -> option pdata), (forall p, pu (pm p) = Some p) ->
  forall bnd auto orc log dat mfail wfl cf s' tr err,
    bnd_ok bnd -> log_ok bnd log -> stamps_ok dat ->
    take_snapshot (marshal_binary pm mfail dat (run auto orc log)) (fresh_sink wfl cf) = (s', tr, err) ->
    committed s' = true ->
    restore (list N) pu (sk_buf s') = Some (run auto orc log).
Proof. intros pm pu Hrt. exact (ProofsPersist.reachable_snapshot_restores pm pu Hrt). Qed.
Print Assumptions reachable_snapshot_restores.

(* the link for the persistfault cases: the model's observation passes PersistSpec.persist_spec
   for every value, every fault oracle, with or without a prior snapshot in the store *)
Theorem model_satisfies_persist_spec :
  forall (pm : pdata -> list N) (pu : list N -> option pdata), (forall p, pu (pm p) = Some p) ->
  forall bnd dat d mfail wfl cf prior,
    stamps_ok dat -> wf bnd d = true ->
    persist_spec (model_pfobs pm pu dat d mfail wfl cf prior) = true.
Proof. intros pm pu Hrt. exact (ProofsPersist.model_satisfies_persist_spec pm pu Hrt). Qed.
Print Assumptions model_satisfies_persist_spec.

(* seeded mutant C07-7 ("defer sink.Close()" in Persist): the write fails after 2 of 4 bytes,
   Persist reports the error, and the truncated image is committed *)
Theorem deferred_close_commits_truncated_image_refuted :
  let r := persist_deferred_close (Some [1; 2; 3; 4]) (fresh_sink [Some 2] false) in
  snd r = true /\ committed (fst r) = true /\ sk_buf (fst r) = [1; 2].
Proof. exact ProofsPersist.deferred_close_commits_truncated_image_refuted. Qed.
Print Assumptions deferred_close_commits_truncated_image_refuted.

(* ---------- the link: the model passes the executable spec on every input ---------- *)

Theorem model_satisfies_spec :
  forall bnd spare auto log orc orc' k kind dat,
    bnd_ok bnd -> log_ok bnd log -> (forall id, m_time (dat id) <> 0%Z) ->
    handle_spec (run auto orc log) (model_pobs spare auto log orc orc' k kind dat) = true.
Proof. exact Proofs.model_satisfies_spec. Qed.
Print Assumptions model_satisfies_spec.

Theorem model_satisfies_raw_spec :
  forall e, raw_spec (validate_env c07_validate_checks_ext c07_validate_table e)
                     (match apply_raw_env c07_apply_ext e with Crash => true | _ => false end) = true.
Proof. exact Proofs.model_satisfies_raw_spec. Qed.
Print Assumptions model_satisfies_raw_spec.

(* ---------- the code before the repairs, and the open finding ---------- *)

(* fix 9d70308: Clone shared the node arrays; a published value / a pending snapshot changed
   under UpdateDataNode *)
Theorem shallow_clone_published_refuted :
  let evs := [HApply w_node []; HPublish; HApply w_update []] in
  let r := hrun (fun n => n) false true false init_fsm [] evs in
  map (hread (f_heap (fst r))) (snd r) <> taken_values false init_data evs.
Proof. exact shallow_clone_refuted. Qed.
Print Assumptions shallow_clone_published_refuted.

Theorem shallow_clone_snapshot_refuted :
  let evs := [HApply w_node []; HSnapshot; HApply w_update []] in
  let r := hrun (fun n => n) false true false init_fsm [] evs in
  map (hread (f_heap (fst r))) (snd r) <> taken_values false init_data evs.
Proof. exact ProofsHeap.shallow_clone_snapshot_refuted. Qed.
Print Assumptions shallow_clone_snapshot_refuted.

(* fix b48b0da: RetentionPolicyInfo.clone shared Subscriptions with the value it copied.
   DropSubscription of a non-last subscription shifts the shared array; after the last one was
   dropped CreateSubscription appends into the cell an older, longer value still reads *)
Theorem shared_subscriptions_refuted :
  let h := [[1; 2; 3]] in let s0 := GS 0 3 in
  gs_read (fst (fold_left (gs_step 0 (fun n => n)) [GRemoveAt 0] (gs_clone false h s0))) s0 <> gs_read h s0 /\
  gs_read (fst (fold_left (gs_step 0 (fun n => n)) [GRemoveAt 2; GAppend 9] (gs_clone false h s0))) s0 <> gs_read h s0 /\
  gs_read (fst (fold_left (gs_step 0 (fun n => n)) [GSet 1 7] (gs_clone false h s0))) s0 <> gs_read h s0.
Proof.
  split; [exact shared_slice_remove_refuted|]. split; [exact shared_slice_append_refuted|exact shared_slice_set_refuted].
Qed.
Print Assumptions shared_subscriptions_refuted.

(* fix 65eba12: Snapshot() handed out fsm.data itself; a rejected command restamped it *)
Theorem snapshot_noclone_refuted :
  let evs := [HApply w_node []; HSnapshot; HApply (En 3 1 (CCreateDataNode "h1:8086" "h1:8088")) []] in
  let r := hrun (fun n => n) true false false init_fsm [] evs in
  map (hread (f_heap (fst r))) (snd r) <> taken_values false init_data evs.
Proof. exact ProofsHeap.snapshot_noclone_refuted. Qed.
Print Assumptions snapshot_noclone_refuted.

(* fix faed980: validateCommand only unmarshalled the envelope *)
Theorem validate_unchecked_refuted :
  exists e, validate_env false c07_validate_table e = true /\ apply_raw_env c07_apply_ext e = Crash.
Proof. exact Proofs.validate_unchecked_refuted. Qed.
Print Assumptions validate_unchecked_refuted.

(* fix 6bc9b44: a group truncated at the Unix epoch came back as not truncated *)
Theorem unmarshal_unpatched_trunc_refuted :
  exists d, wf max_i64 d = true /\ unmarshal_with false (marshal (fun _ => 1%Z) d) <> d.
Proof. exact ProofsMarshal.unmarshal_unpatched_trunc_refuted. Qed.
Print Assumptions unmarshal_unpatched_trunc_refuted.

(* fix 78b5206 (by the C06 builder; formerly the open finding
   C07:group-start-before-int64-range): CreateShardGroup now clamps StartTime to the int64
   nanosecond range, C06's new_group follows it, and cmd_ok admits every int64 timestamp.  The
   former witness - a group created for MinInt64+2 - is restored exactly; a value with a start
   before the range (no longer reachable) still does not survive marshalling. *)
Definition min_time_log : list entry :=
  [ En 2 1 (CCreateDataNode "h1:8086" "h1:8088"); En 3 1 (CCreateDatabase "db0" None);
    En 4 1 (CCreateShardGroup "db0" "autogen" (-9223372036854775806)) ]%string.
Theorem snapshot_fidelity_min_time :
  log_ok max_i64 min_time_log /\
  all_groups (run true (fun _ => []) min_time_log) <> [] /\
  unmarshal (marshal (fun _ => 1%Z) (run true (fun _ => []) min_time_log)) = run true (fun _ => []) min_time_log.
Proof.
  assert (L : log_ok max_i64 min_time_log) by (repeat constructor).
  split; [exact L|]. split; [vm_compute; discriminate|].
  apply (reachable_restored_exactly max_i64 true (fun _ => []) min_time_log (fun _ => 1%Z) bnd_ok_max L).
  intros id. vm_compute. discriminate.
Qed.
Print Assumptions snapshot_fidelity_min_time.

Theorem marshal_out_of_range_refuted :
  exists d, unmarshal (marshal (fun _ => 1%Z) d) <> d.
Proof. exact marshal_roundtrip_unrestricted_refuted. Qed.
Print Assumptions marshal_out_of_range_refuted.

(* ---------- non-vacuity ---------- *)

Definition ex_log : list entry :=
  [ En 2 1 (CCreateDataNode "h1:8086" "h1:8088"); En 3 1 (CCreateDataNode "h2:8086" "h2:8088");
    En 4 1 (CCreateDataNode "h3:8086" "h3:8088"); En 5 1 (CCreateDatabase "db0" None);
    En 6 1 (CCreateRetentionPolicy "db0" "rp0" 2 0 3600000000000 true);
    En 7 1 (CCreateUser "alice" "h1" true); En 8 1 (CSetPrivilege "alice" "db0" 3);
    En 9 1 (CCreateShardGroup "db0" "rp0" 1600000000000000000);
    En 10 1 (CCreateShardGroup "db0" "rp0" 1600003600000000000);
    En 11 1 (CTruncateShardGroups 1600003000000000000);
    En 12 1 (CCreateShardGroup "db0" "rp0" (-5));
    En 13 1 (CDeleteDataNode 2); En 14 1 (CDeleteShardGroup "db0" "rp0" 1); En 15 1 CPruneShardGroups ]%string.

(* the hypotheses hold for a log that builds 3 groups x 3 shards on 3 nodes, a user with a
   privilege, a truncated group, a deleted group; the bound can be MaxInt64 or 7 days *)
Example ex_log_ok :
  bnd_ok max_i64 /\ bnd_ok 604800000000000 /\
  forallb (fun e => cmd_ok max_i64 (e_cmd e)) ex_log = true /\
  forallb (fun e => cmd_ok 604800000000000 (e_cmd e)) ex_log = true /\
  wf 604800000000000 (run true (fun _ => []) ex_log) = true /\
  List.length (all_groups (run true (fun _ => []) ex_log)) = 3%nat /\
  data_stamps (fun _ => 77%Z) (run true (fun _ => []) ex_log) = [(1, 77%Z)] /\
  (forall id, m_time ((fun _ : N => 77%Z) id) <> 0%Z).
Proof.
  split; [exact bnd_ok_max|]. split; [unfold bnd_ok, c06_sgd_long, c06_sgd_mid, c06_sgd_short, max_i64; lia|].
  split; [vm_compute; reflexivity|]. split; [vm_compute; reflexivity|]. split; [vm_compute; reflexivity|].
  split; [vm_compute; reflexivity|]. split; [vm_compute; reflexivity|]. intros id. vm_compute. discriminate.
Qed.

(* RaftLog is inhabited by a replica that applied 9 entries, crashed, restored its own
   image (identity wire format), and went on *)
Example ex_replica :
  exists d, replica_at pdata (fun p => p) (fun p => Some p) true ex_log 10 d /\ d <> init_data.
Proof.
  eexists. split.
  - eapply ra_apply with (ex := []); [|reflexivity].
    eapply ra_restore with (dat := fun _ => 77%Z); [| intros id; vm_compute; discriminate | reflexivity].
    do 9 (eapply ra_apply with (ex := []); [|reflexivity]). apply ra_init.
  - vm_compute. discriminate.
Qed.

(* a schedule in which a snapshot is taken, three more commands (one rejected) are applied,
   and the handle still reads the value at the snapshot *)
Example ex_schedule :
  let evs1 := hevs (fun _ => []) 0 (firstn 5 ex_log) in
  let evs2 := hevs (fun _ => []) 5 (firstn 3 (skipn 5 ex_log)) ++ [HApply (En 30 2 (CCreateUser "alice" "h2" false)) []] in
  let r := hrun (fun n => n) true true true init_fsm [] (evs1 ++ HSnapshot :: evs2) in
  map (hread (f_heap (fst r))) (snd r) = [run true (fun _ => []) (firstn 5 ex_log)] /\
  hread (f_heap (fst r)) (f_cur (fst r)) <> run true (fun _ => []) (firstn 5 ex_log).
Proof. vm_compute. split; [reflexivity|discriminate]. Qed.

(* validateCommand accepts something *)
Example ex_validate :
  validate_env c07_validate_checks_ext c07_validate_table (Env true 3 (fun f => if f =? 103 then XOk else XAbsent)) = true /\
  apply_raw_env c07_apply_ext (Env true 3 (fun f => if f =? 103 then XOk else XAbsent)) = Dispatch 3 /\
  apply_raw_env c07_apply_ext (Env true 2 (fun f => XAbsent)) = Ignored 2.
Proof. vm_compute. repeat split; reflexivity. Qed.

(* snapshot attempts: every ending is possible.  Disk full after 2 of 4 bytes / after all
   bytes; finalisation fails; marshal fails; no fault.  The hypotheses of
   committed_snapshot_restores hold for the metadata of ex_log with a fault-free sink and an
   identity wire format, and the conclusion is the non-trivial value *)
Example ex_snapshot_attempts :
  take_snapshot (Some [1; 2; 3; 4]) (fresh_sink [Some 2] false) =
    (Sk [1; 2] SCancelled [] false, [KWrite 4 2 true; KCancel; KCancel], true) /\
  take_snapshot (Some [1; 2; 3; 4]) (fresh_sink [Some 9] false) =
    (Sk [1; 2; 3; 4] SCancelled [] false, [KWrite 4 4 true; KCancel; KCancel], true) /\
  take_snapshot (Some [1; 2; 3; 4]) (fresh_sink [] true) =
    (Sk [1; 2; 3; 4] SFailed [] true, [KWrite 4 4 false; KClose true; KCancel; KCancel], true) /\
  take_snapshot None (fresh_sink [] false) = (Sk [] SCancelled [] false, [KCancel; KCancel], true) /\
  take_snapshot (Some [1; 2; 3; 4]) (fresh_sink [None] false) =
    (Sk [1; 2; 3; 4] SCommitted [] false, [KWrite 4 4 false; KClose false; KClose false], false).
Proof. repeat split; reflexivity. Qed.

(* (the wire format is the standing hypothesis of this file; for any such format:) *)
Example ex_committed_snapshot :
  forall (pm : pdata -> list N) (pu : list N -> option pdata), (forall p, pu (pm p) = Some p) ->
  let d := run true (fun _ => []) ex_log in
  exists s' tr,
    take_snapshot (marshal_binary pm false (fun _ => 77%Z) d) (fresh_sink [None] false) = (s', tr, false) /\
    committed s' = true /\ wf 604800000000000 d = true /\ d <> init_data /\
    restore (list N) pu (sk_buf s') = Some d.
Proof.
  intros pm pu Hrt d.
  destruct (take_snapshot (marshal_binary pm false (fun _ => 77%Z) d) (fresh_sink [None] false)) as [[s' tr] err] eqn:E.
  assert (W : wf 604800000000000 d = true) by (vm_compute; reflexivity).
  destruct (ProofsPersist.snapshot_completes (persist (list N) pm (fun _ => 77%Z) d) (fresh_sink [None] false) s' tr err eq_refl eq_refl E) as (A & B & _).
  subst err. exists s', tr. split; [reflexivity|]. split; [exact B|]. split; [exact W|]. split; [vm_compute; discriminate|].
  apply (ProofsPersist.committed_snapshot_restores pm pu Hrt 604800000000000 (fun _ => 77%Z) d false [None] false s' tr false); auto.
  intros id. vm_compute. discriminate.
Qed.
