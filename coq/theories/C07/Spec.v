(* C07/Spec.v — the property as executable checks on OBSERVATIONS of the implementation.
   Nothing here mentions how the FSM, Clone, marshal or validateCommand work.

   A "handle" is a *Data the FSM gave away: the value a storeFSMSnapshot holds between
   Snapshot() and Persist() (kind 0) or the value store.snapshot() returns to the HTTP
   handlers and, marshalled, to the clients (kind 1).  For one handle the harness reports
     taken     the metadata read through the handle when it was taken
     later     the metadata read through the handle when it was persisted/marshalled,
               after further commands had been applied
     stable    whether every re-reading of the handle in between gave the same dump
     restored  what Restore / UnmarshalBinary makes of the persisted image in a fresh store
     stamps    the (group ID, DeletedAt unix ns) pairs of [taken] and of [restored]
     replayed  (kind 0) the metadata of the fresh store after it re-applied the log
               entries that follow the snapshot
   and [final], the metadata of the store that applied the whole log.
   All dumps list shard groups by ID and privileges by database name. *)
From Verif Require Import C06.Model C06.Eqb.
Open Scope N_scope.

Record pobs := PO { po_kind : N; po_taken : data; po_stamps_t : list (N * Z);
                    po_later : data; po_stable : bool;
                    po_restored : data; po_stamps_r : list (N * Z);
                    po_replayed : option data }.

Definition stamp_eqb (a b : N * Z) : bool := (fst a =? fst b) && (snd a =? snd b)%Z.

Definition handle_spec (final : data) (o : pobs) : bool :=
  (* point in time: unaffected by later changes *)
  po_stable o && data_eqb (po_later o) (po_taken o) &&
  (* fidelity: the image restores to exactly the value that produced it *)
  data_eqb (po_restored o) (po_taken o) && list_eqb stamp_eqb (po_stamps_r o) (po_stamps_t o) &&
  (* convergence: snapshot + replay of the rest of the log = the whole log *)
  match po_replayed o with
  | Some r => data_eqb (canon r) (canon final)
  | None => true
  end.

(* no request the service accepts leaves the replicas unable to apply their log *)
Definition raw_spec (accepted crashed : bool) : bool := negb (accepted && crashed).

(* membership changes on real meta services (MONITOR: observed, not proved; raft membership
   is outside the model).  [s0]: metadata of the formed cluster; [last]: highest raft index
   of an acknowledged command; [acked]: names of the databases whose creation was
   acknowledged; [finals]: metadata of every node that is a member at the end.
   Nothing acknowledged is lost: same non-zero cluster id, index not behind the last
   acknowledged command, every acknowledged database present, all members equal. *)
Definition member_spec (s0 : data) (last : N) (acked : list string) (finals : list data) : bool :=
  forallb (fun f => (d_cluster f =? d_cluster s0) && negb (d_cluster f =? 0) && (last <=? d_index f) &&
                    forallb (fun n => existsb (fun x => String.eqb (db_name x) n) (d_dbs f)) acked) finals &&
  match finals with
  | [] => false
  | f0 :: t => forallb (fun f => data_eqb (canon f) (canon f0)) t
  end.
