(* C07/ProofsSlice.v — a slice copied into a new array is not affected by anything done
   through the copy; a slice that shares its array is. *)
From Verif Require Import C06.Model C07.Model C07.ProofsHeap.
From Coq Require Import Lia.
Open Scope nat_scope.

Section SliceProofs.
  Context {A : Type}.
  Variable zero : A.
  Variable spare : nat -> nat.

  Notation step := (gs_step zero spare).

  (* everything below address n is untouched, and the working slice lives at or above n *)
  Definition above (n : nat) (h0 : list (list A)) (hs : list (list A) * gslice) : Prop :=
    n <= gs_addr (snd hs) < List.length (fst hs) /\ List.length h0 <= List.length (fst hs) /\
    forall a, a < n -> nth a (fst hs) [] = nth a h0 [].

  Lemma step_above n h0 hs o : n <= List.length h0 -> above n h0 hs -> above n h0 (step hs o).
  Proof.
    intros Hn [[A1 A2] [B C]]. destruct hs as [h s]. cbn [fst snd] in *.
    unfold above, gs_step. destruct o as [x|i|i x].
    - destruct (gs_len s <? _); cbn [fst snd].
      + rewrite set_nth_length. repeat split; auto. intros a Ha. rewrite nth_set_nth_neq by lia. auto.
      + rewrite app_length; cbn. repeat split; try lia. intros a Ha. rewrite app_nth1 by lia. auto.
    - destruct (i <? gs_len s); cbn [fst snd].
      + rewrite set_nth_length. repeat split; auto. intros a Ha. rewrite nth_set_nth_neq by lia. auto.
      + repeat split; auto.
    - destruct (i <? gs_len s); cbn [fst snd].
      + rewrite set_nth_length. repeat split; auto. intros a Ha. rewrite nth_set_nth_neq by lia. auto.
      + repeat split; auto.
  Qed.

  Lemma steps_above n h0 ops : forall hs, n <= List.length h0 -> above n h0 hs -> above n h0 (fold_left step ops hs).
  Proof. induction ops as [|o ops IH]; cbn; intros hs Hn Ha; auto. apply IH; auto. apply step_above; auto. Qed.

  (* the value read through s0 is the same after any operations on a deep copy of it *)
  Theorem cloned_slice_frozen (h : list (list A)) (s0 : gslice) (ops : list gop) :
    gs_addr s0 < List.length h ->
    let r := fold_left step ops (gs_clone true h s0) in
    gs_read (fst r) s0 = gs_read h s0.
  Proof.
    intros H0. cbn zeta.
    assert (Ha : above (List.length h) h (gs_clone true h s0)).
    { unfold above, gs_clone; cbn [fst snd gs_addr]. rewrite app_length; cbn. repeat split; try lia.
      intros a Ha. apply app_nth1; auto. }
    destruct (steps_above (List.length h) h ops _ (le_n _) Ha) as (_ & _ & C).
    unfold gs_read, gs_array. rewrite C by auto. reflexivity.
  Qed.

  (* and the copy starts out equal *)
  Lemma clone_reads_same deep (h : list (list A)) s0 :
    gs_read (fst (gs_clone deep h s0)) (snd (gs_clone deep h s0)) = gs_read h s0.
  Proof.
    unfold gs_clone. destruct deep; cbn [fst snd]; auto.
    unfold gs_read, gs_array; cbn [gs_addr gs_len]. rewrite nth_snoc_eq. apply firstn_all.
  Qed.
End SliceProofs.

(* the code before fix b48b0da: RetentionPolicyInfo.clone shared Subscriptions.
   DropSubscription of the first of three shifts the array under the older value ... *)
Lemma shared_slice_remove_refuted :
  let h := [[1; 2; 3]%N] in let s0 := GS 0 3 in
  gs_read (fst (fold_left (gs_step 0%N (fun n => n)) [GRemoveAt 0] (gs_clone false h s0))) s0 <> gs_read h s0.
Proof. vm_compute. discriminate. Qed.

(* ... and after the last one was dropped, CreateSubscription appends into the spare cell that
   the older, longer value still reads *)
Lemma shared_slice_append_refuted :
  let h := [[1; 2; 3]%N] in let s0 := GS 0 3 in
  gs_read (fst (fold_left (gs_step 0%N (fun n => n)) [GRemoveAt 2; GAppend 9%N] (gs_clone false h s0))) s0 <> gs_read h s0.
Proof. vm_compute. discriminate. Qed.

Lemma shared_slice_set_refuted :
  let h := [[1; 2; 3]%N] in let s0 := GS 0 3 in
  gs_read (fst (fold_left (gs_step 0%N (fun n => n)) [GSet 1 7%N] (gs_clone false h s0))) s0 <> gs_read h s0.
Proof. vm_compute. discriminate. Qed.

(* the idioms do what the Go statements do on the working slice *)
Example slice_ops_example :
  let r := fold_left (gs_step 0%N (fun n => n)) [GAppend 4%N; GRemoveAt 1; GSet 0 8%N; GAppend 5%N] (gs_clone true [[1; 2; 3]%N] (GS 0 3)) in
  gs_read (fst r) (snd r) = [8; 3; 4; 5]%N /\ gs_read (fst r) (GS 0 3) = [1; 2; 3]%N.
Proof. vm_compute. split; reflexivity. Qed.

(* ---------- store.remove never wipes a surviving peer ---------- *)
Open Scope nat_scope.

Lemma two_distinct_length {A} (a b : A) l : In a l -> In b l -> a <> b -> 2 <= List.length l.
Proof.
  destruct l as [|x [|y t]]; cbn; intros Ha Hb Hne; try tauto; try lia.
  destruct Ha as [->|[]], Hb as [->|[]]. congruence.
Qed.

(* removing ANOTHER member of the raft configuration never resets the store of the node that
   executes the removal: its metadata afterwards is the metadata after the DeleteMetaNode
   command, whatever the size of the cluster (2, 3, ...) *)
Theorem remove_keeps_metadata st id addr d' :
  In (ms_self st) (ms_peers st) -> In addr (ms_peers st) -> addr <> ms_self st ->
  delete_meta_node (ms_data st) id = Ok d' ->
  ms_data (remove_step true st id addr) = d' /\ In (ms_self st) (ms_peers (remove_step true st id addr)).
Proof.
  intros Hs Ha Hne E. unfold remove_step. rewrite E. unfold remove_resets.
  pose proof (two_distinct_length _ _ _ Hs Ha (fun H => Hne (eq_sym H))) as L.
  destruct (List.length (ms_peers st) <=? 1) eqn:C; [apply Nat.leb_le in C; lia|].
  cbn [ms_data ms_peers]. split; auto. apply filter_In. split; auto.
  apply negb_true_iff. apply String.eqb_neq. auto.
Qed.

(* counting the meta nodes left in the metadata instead: the leader of a two-node cluster wipes
   itself when the follower is removed *)
Lemma remove_by_meta_nodes_refuted :
  let d := Dt 1 6 77 [Nd 1 "a:8091" "a:8089"; Nd 2 "b:8091" "b:8089"] [] [Db "db0" "" [] []] [] false 2 0 0 in
  let st := MS "a:8089" (["a:8089"; "b:8089"]%string) d in
  ms_data (remove_step false st 2 "b:8089") = init_data /\
  ms_data (remove_step true st 2 "b:8089") = Dt 1 6 77 [Nd 1 "a:8091" "a:8089"] [] [Db "db0" "" [] []] [] false 2 0 0.
Proof. vm_compute. split; reflexivity. Qed.
