(* C07/Proofs.v — convergence of replicas under the RaftLog hypothesis, snapshot + replay,
   totality of Apply on validated commands, and the link model |= executable spec. *)
From Verif Require Import C06.Model C06.Eqb C06.Spec C06.ListLemmas C06.Inv C06.ProofsCmd C06.ProofsCreate
  C06.Proofs C06.ProofsDet.
From Verif Require Import C07.Model C07.Spec C07.ProofsMarshal C07.ProofsWf C07.ProofsHeap.
From VerifGen Require Import Consts.
From Coq Require Import Lia.
From Coq Require Import ZifyBool ZifyNat ZifyN.
Open Scope N_scope.

(* ---------- logs ---------- *)

Definition bnd_ok (bnd : Z) : Prop :=
  (c06_sgd_long <= bnd)%Z /\ (c06_sgd_mid <= bnd)%Z /\ (c06_sgd_short <= bnd)%Z /\ (bnd <= max_i64)%Z.

Lemma bnd_ok_max : bnd_ok max_i64.
Proof. destruct bnd_max_ok as (A & B & C). unfold bnd_ok. repeat split; auto. lia. Qed.

Lemma bnd_ok_nonneg bnd : bnd_ok bnd -> (0 <= bnd)%Z.
Proof. unfold bnd_ok, c06_sgd_long. lia. Qed.

Definition log_ok (bnd : Z) (es : list entry) : Prop := Forall (fun e => cmd_ok bnd (e_cmd e) = true) es.

Lemma log_ok_forallb bnd es : log_ok bnd es -> forallb (fun e => cmd_ok bnd (e_cmd e)) es = true.
Proof. intros H. apply forallb_forall. intros e He. unfold log_ok in H. rewrite Forall_forall in H. auto. Qed.

Lemma log_ok_wf bnd es : bnd_ok bnd -> log_ok bnd es -> log_wf es.
Proof.
  intros Hb H. unfold log_ok, log_wf in *. rewrite Forall_forall in *. intros e He.
  apply (cmd_ok_wf bnd); auto. apply bnd_ok_nonneg; auto.
Qed.

Lemma In_firstn {A} k (l : list A) x : In x (firstn k l) -> In x l.
Proof. revert k; induction l as [|a t IH]; intros [|k]; cbn; auto; try tauto. intros [->|H]; eauto. Qed.
Lemma In_skipn {A} k (l : list A) x : In x (skipn k l) -> In x l.
Proof. revert k; induction l as [|a t IH]; intros [|k]; cbn; auto. intros H. right. eapply IH; eauto. Qed.

Lemma log_ok_firstn bnd k es : log_ok bnd es -> log_ok bnd (firstn k es).
Proof. unfold log_ok. rewrite !Forall_forall. intros H e He. apply H. eapply In_firstn; eauto. Qed.
Lemma log_ok_skipn bnd k es : log_ok bnd es -> log_ok bnd (skipn k es).
Proof. unfold log_ok. rewrite !Forall_forall. intros H e He. apply H. eapply In_skipn; eauto. Qed.

Lemma run_from_app auto orc a : forall k d b,
  run_from auto orc k d (a ++ b) = run_from auto orc (k + List.length a) (run_from auto orc k d a) b.
Proof.
  induction a as [|e a IH]; cbn; intros k d b; [rewrite Nat.add_0_r; auto|].
  rewrite IH. f_equal. lia.
Qed.

Lemma run_split auto orc k es :
  run auto orc es = run_from auto orc (List.length (firstn k es)) (run auto orc (firstn k es)) (skipn k es).
Proof. unfold run. rewrite <- (firstn_skipn k es) at 1. rewrite run_from_app. reflexivity. Qed.

Lemma firstn_S_nth {A} (l : list A) n x : nth_error l n = Some x -> firstn (S n) l = firstn n l ++ [x].
Proof.
  revert n; induction l as [|a t IH]; intros [|n] H; cbn [nth_error] in H; try discriminate.
  - inversion H; auto.
  - change (a :: firstn (S n) t = a :: (firstn n t ++ [x])). f_equal. apply IH. exact H.
Qed.

(* two reachable values with the same observable stay so under the same commands, whatever
   the oracles (C06's step lemma, iterated) *)
Lemma run_from_det auto es : forall orc1 orc2 k1 k2 d1 d2,
  reachable auto d1 -> reachable auto d2 -> canon d1 = canon d2 -> log_wf es ->
  canon (run_from auto orc1 k1 d1 es) = canon (run_from auto orc2 k2 d2 es).
Proof.
  induction es as [|e es IH]; cbn; intros orc1 orc2 k1 k2 d1 d2 R1 R2 E W; auto.
  inversion W; subst. apply IH; auto.
  - constructor; auto.
  - constructor; auto.
  - apply apply_deterministic_step; auto.
Qed.

(* ---------- reachable values are well-formed ---------- *)

Section Bnd.
  Variable bnd : Z.
  Hypothesis Hb : bnd_ok bnd.

  Lemma run_from_wf' auto orc es k d : wf bnd d = true -> log_ok bnd es -> wf bnd (run_from auto orc k d es) = true.
  Proof.
    destruct Hb as (A & B & C & D). intros H L. apply run_from_wf; auto. apply log_ok_forallb; auto.
  Qed.

  Lemma run_wf auto orc es : log_ok bnd es -> wf bnd (run auto orc es) = true.
  Proof. intros L. apply run_from_wf'; auto. Qed.

  (* ---------- RaftLog ==> convergence ---------- *)

  Section Proto.
    Variable image : Type.
    Variable proto_marshal : pdata -> image.
    Variable proto_unmarshal : image -> option pdata.
    Hypothesis proto_roundtrip : forall p, proto_unmarshal (proto_marshal p) = Some p.

    Notation persist := (persist image proto_marshal).
    Notation restore := (restore image proto_unmarshal).
    Notation replica_at := (replica_at image proto_marshal proto_unmarshal).

    Lemma restore_persist dat d :
      stamps_ok dat -> wf bnd d = true -> restore (persist dat d) = Some d.
    Proof.
      intros Hs Hw. unfold Model.restore, Model.persist. rewrite proto_roundtrip. cbn.
      rewrite (marshal_roundtrip dat bnd); auto.
    Qed.

    Lemma replica_at_inv auto log orc n d :
      log_ok bnd log -> replica_at auto log n d ->
      reachable auto d /\ wf bnd d = true /\
      canon d = canon (run auto orc (firstn n log)).
    Proof.
      intros L R. induction R as [|n d e ex R IH Hn|n d dat d' R IH Hs Hr].
      - split; [constructor|split; reflexivity].
      - destruct IH as (I1 & I2 & I3).
        assert (He : In e log) by (eapply nth_error_In; eauto).
        assert (Hc : cmd_ok bnd (e_cmd e) = true) by (unfold log_ok in L; rewrite Forall_forall in L; auto).
        assert (Hw : cmd_wf (e_cmd e)) by (apply (cmd_ok_wf bnd); auto; apply bnd_ok_nonneg; auto).
        split; [constructor; auto|]. split.
        + destruct Hb as (A & B & C & D). apply apply_wf; auto.
        + rewrite (firstn_S_nth _ _ _ Hn). unfold run. rewrite run_from_app. cbn [run_from].
          apply apply_deterministic_step; auto.
          apply run_reachable. eapply log_ok_wf; eauto. apply log_ok_firstn; auto.
      - destruct IH as (I1 & I2 & I3). rewrite restore_persist in Hr by auto. inversion Hr; subst. auto.
    Qed.

    (* any two replicas that have applied the same prefix of the committed log agree *)
    Theorem replicas_converge auto log n d1 d2 :
      log_ok bnd log -> replica_at auto log n d1 -> replica_at auto log n d2 -> canon d1 = canon d2.
    Proof.
      intros L R1 R2.
      destruct (replica_at_inv auto log (fun _ => []) n d1 L R1) as (_ & _ & E1).
      destruct (replica_at_inv auto log (fun _ => []) n d2 L R2) as (_ & _ & E2).
      congruence.
    Qed.

    (* a replica record (snapshot, log suffix) whose snapshot was persisted from a RaftLog state
       at k and whose suffix is the committed entries k+1..k+m recovers, after a restart, to a
       RaftLog state at k+m: crash/restart stays inside the hypothesis *)
    Lemma skipn_cons_nth {A} k (l : list A) x rest :
      skipn k l = x :: rest -> nth_error l k = Some x /\ skipn (S k) l = rest.
    Proof.
      revert l; induction k as [|k IH]; intros [|a l]; cbn; intros H; try discriminate.
      - inversion H; auto.
      - apply IH; auto.
    Qed.

    Lemma run_from_replica_at auto log orc suffix : forall k d,
      replica_at auto log k d -> firstn (List.length suffix) (skipn k log) = suffix ->
      replica_at auto log (k + List.length suffix) (run_from auto orc k d suffix).
    Proof.
      induction suffix as [|e t IH]; intros k d R H; cbn [run_from List.length].
      - rewrite Nat.add_0_r. exact R.
      - destruct (skipn k log) as [|x rest] eqn:E; cbn in H; [discriminate|]. injection H as Hx H2. subst x.
        destruct (skipn_cons_nth _ _ _ _ E) as [Hn Hs].
        replace (k + S (List.length t))%nat with (S k + List.length t)%nat by lia.
        apply (IH (S k) (fst (apply auto (orc k) d (e_idx e) (e_term e) (e_cmd e)))).
        + eapply ra_apply; eauto.
        + rewrite Hs. exact H2.
    Qed.

    Theorem recover_in_raftlog auto log orc (r : replica image) k m :
      match r_snap image r with
      | None => k = 0%nat
      | Some (k', img) => k' = k /\ exists dat d, replica_at auto log k d /\ stamps_ok dat /\ img = persist dat d
      end ->
      r_suffix image r = firstn m (skipn k log) -> List.length (r_suffix image r) = m ->
      exists d', recover image proto_unmarshal auto orc r = Some d' /\ replica_at auto log (k + m) d'.
    Proof.
      intros Hs Hsuf Hlen. unfold recover. destruct (r_snap image r) as [[k' img]|].
      - destruct Hs as (-> & dat & d & R & Hd & ->).
        unfold Model.restore, Model.persist. rewrite proto_roundtrip. cbn [option_map].
        eexists. split; [reflexivity|]. rewrite <- Hlen.
        apply run_from_replica_at; [|rewrite Hlen; auto].
        eapply ra_restore; eauto. unfold Model.restore, Model.persist. rewrite proto_roundtrip. reflexivity.
      - subst k. eexists. split; [reflexivity|]. rewrite <- Hlen.
        apply (run_from_replica_at auto log orc (r_suffix image r) 0); [apply ra_init|rewrite Hlen; auto].
    Qed.

    (* snapshot at k + replay of the suffix = the whole log, with independent clocks *)
    Theorem snapshot_restore_replay auto log k orc orc' dat :
      log_ok bnd log -> stamps_ok dat ->
      exists d, restore (persist dat (run auto orc (firstn k log))) = Some d /\
                d = run auto orc (firstn k log) /\
                canon (run_from auto orc' k d (skipn k log)) = canon (run auto orc log).
    Proof.
      intros L Hs. exists (run auto orc (firstn k log)).
      assert (Lk : log_ok bnd (firstn k log)) by (apply log_ok_firstn; auto).
      split; [apply restore_persist; auto; apply run_wf; auto|]. split; [reflexivity|].
      rewrite (run_split auto orc k log).
      apply run_from_det; auto.
      - apply run_reachable. eapply log_ok_wf; eauto.
      - apply run_reachable. eapply log_ok_wf; eauto.
      - eapply log_ok_wf; eauto. apply log_ok_skipn; auto.
    Qed.
  End Proto.

  (* a client that unmarshals the image of the leader's value holds exactly that value *)
  Theorem client_cache_eq auto log k orc dat :
    log_ok bnd log -> (forall id, m_time (dat id) <> 0%Z) ->
    unmarshal (marshal dat (run auto orc (firstn k log))) = run auto orc (firstn k log).
  Proof. intros L Hs. apply (marshal_roundtrip dat bnd); auto. apply run_wf. apply log_ok_firstn; auto. Qed.
End Bnd.

(* ---------- validateCommand / Apply ---------- *)

Lemma assoc_In k l v : assoc k l = Some v -> In (k, v) l.
Proof.
  induction l as [|[k' v'] t IH]; cbn; [discriminate|]. destruct (k' =? k) eqn:E.
  - intros H; inversion H; subst. apply N.eqb_eq in E. subst. auto.
  - auto.
Qed.

Definition table_entry_ok (switch : list (N * N)) (tf : N * N) : bool :=
  match assoc (fst tf) switch with
  | Some f' => (f' =? 0) || (f' =? snd tf)
  | None => false
  end.

(* the two tables re-read from the source: every type validateCommand lets through is a case
   of Apply's switch whose function asserts that very extension (or none) *)
Lemma tables_consistent : forallb (table_entry_ok c07_apply_ext) c07_validate_table = true.
Proof. vm_compute. reflexivity. Qed.

Lemma validate_checks : c07_validate_checks_ext = true.
Proof. reflexivity. Qed.

Lemma validated_total_env table switch e :
  forallb (table_entry_ok switch) table = true ->
  validate_env true table e = true -> apply_raw_env switch e <> Crash.
Proof.
  intros T V. unfold validate_env in V. apply andb_true_iff in V. destruct V as [V1 V2].
  unfold apply_raw_env. rewrite V1. cbn [negb]. unfold type_lookup in *.
  destruct (ev_type e <? 0)%Z; [discriminate|].
  destruct (assoc (Z.to_N (ev_type e)) table) as [f|] eqn:A; [|discriminate].
  rewrite forallb_forall in T. specialize (T _ (assoc_In _ _ _ A)). unfold table_entry_ok in T. cbn [fst snd] in T.
  destruct (assoc (Z.to_N (ev_type e)) switch) as [f'|]; [|discriminate].
  destruct f' as [|p]; [discriminate|].
  apply orb_true_iff in T. destruct T as [T|T]; apply N.eqb_eq in T; [discriminate|].
  rewrite T, V2. discriminate.
Qed.

Theorem validated_commands_apply_total (decode : list N -> envelope) (b : list N) :
  validate decode b = true -> apply_raw decode b <> Crash.
Proof.
  unfold validate, apply_raw. rewrite validate_checks. apply validated_total_env. apply tables_consistent.
Qed.

(* the code before the fix: validateCommand = "the envelope unmarshals" *)
Lemma validate_unchecked_refuted :
  exists e, validate_env false c07_validate_table e = true /\ apply_raw_env c07_apply_ext e = Crash.
Proof.
  (* CreateDatabaseCommand without its extension *)
  exists (Env true 3 (fun _ => XAbsent)). split; vm_compute; reflexivity.
Qed.

(* every shape of a bad envelope crashes Apply (so validation is necessary): unknown type,
   known type without / with a wrong / with an undecodable extension, and bytes that do not
   unmarshal at all *)
Lemma apply_raw_crashes :
  apply_raw_env c07_apply_ext (Env false 0 (fun _ => XAbsent)) = Crash /\
  apply_raw_env c07_apply_ext (Env true 99 (fun _ => XOk)) = Crash /\
  apply_raw_env c07_apply_ext (Env true 7 (fun _ => XOk)) = Crash /\
  apply_raw_env c07_apply_ext (Env true (-1) (fun _ => XOk)) = Crash /\
  apply_raw_env c07_apply_ext (Env true 3 (fun _ => XAbsent)) = Crash /\
  apply_raw_env c07_apply_ext (Env true 3 (fun f => if f =? 104 then XOk else XAbsent)) = Crash /\
  apply_raw_env c07_apply_ext (Env true 3 (fun f => if f =? 103 then XBad else XAbsent)) = Crash.
Proof. vm_compute. repeat split; reflexivity. Qed.

(* ---------- the model satisfies the executable spec ---------- *)

Fixpoint hevs (orc : nat -> list N) (i : nat) (es : list entry) : list hevent :=
  match es with
  | [] => []
  | e :: t => HApply e (orc i) :: hevs orc (S i) t
  end.

Lemma run_events_hevs auto orc es : forall i d, run_events auto d (hevs orc i es) = run_from auto orc i d es.
Proof. induction es as [|e es IH]; cbn; intros i d; auto. Qed.

Lemma count_takes_hevs orc es : forall i, count_takes (hevs orc i es) = 0%nat.
Proof. unfold count_takes. induction es as [|e es IH]; cbn; intros i; auto. Qed.

Definition take_event (kind : N) : hevent := if kind =? 0 then HSnapshot else HPublish.

(* what the model predicts for a handle of [kind] taken after k entries of [log], persisted
   after the whole log has been applied with deletion stamps [dat], restored into a fresh
   store whose clock is [orc'] and which replays the entries after k *)
Definition model_pobs (spare : nat -> nat) (auto : bool) (log : list entry) (orc orc' : nat -> list N)
           (k : nat) (kind : N) (dat : N -> Z) : pobs :=
  let s_k := run auto orc (firstn k log) in
  let evs := hevs orc 0 (firstn k log) ++ take_event kind :: hevs orc (List.length (firstn k log)) (skipn k log) in
  let r := hrun spare true true auto init_fsm [] evs in
  let later := nth 0 (map (hread (f_heap (fst r))) (snd r)) init_data in
  let img := marshal dat later in
  let restored := unmarshal img in
  PO kind s_k (data_stamps dat s_k) later true restored (pdata_stamps img)
     (if kind =? 0 then Some (run_from auto orc' k restored (skipn k log)) else None).

Lemma list_eqb_refl_ {A} (eqb : A -> A -> bool) l : (forall x, eqb x x = true) -> list_eqb eqb l l = true.
Proof. intros H. induction l; cbn; auto. rewrite H, IHl. reflexivity. Qed.

Theorem model_satisfies_spec bnd spare auto log orc orc' k kind dat :
  bnd_ok bnd -> log_ok bnd log -> (forall id, m_time (dat id) <> 0%Z) ->
  handle_spec (run auto orc log) (model_pobs spare auto log orc orc' k kind dat) = true.
Proof.
  intros Hb L Hs. unfold model_pobs.
  assert (Lk : log_ok bnd (firstn k log)) by (apply log_ok_firstn; auto).
  set (s_k := run auto orc (firstn k log)).
  (* the handle still reads s_k *)
  assert (Hl : nth 0 (map (hread (f_heap (fst (hrun spare true true auto init_fsm []
                 (hevs orc 0 (firstn k log) ++ take_event kind :: hevs orc (List.length (firstn k log)) (skipn k log))))))
                 (snd (hrun spare true true auto init_fsm []
                 (hevs orc 0 (firstn k log) ++ take_event kind :: hevs orc (List.length (firstn k log)) (skipn k log))))) init_data = s_k).
  { assert (Ht : is_take (take_event kind) = true) by (unfold take_event; destruct (kind =? 0); reflexivity).
    pose proof (taken_value_frozen spare auto (hevs orc 0 (firstn k log)) (take_event kind)
                  (hevs orc (List.length (firstn k log)) (skipn k log)) Ht) as F. cbn zeta in F.
    rewrite count_takes_hevs, run_events_hevs in F. apply nth_error_nth with (d := init_data) in F. exact F. }
  rewrite Hl.
  assert (Hw : wf bnd s_k = true) by (apply run_wf; auto).
  rewrite (marshal_roundtrip dat bnd s_k Hs Hw), (image_stamps dat s_k Hs).
  unfold handle_spec; cbn [po_stable po_later po_taken po_restored po_stamps_r po_stamps_t po_replayed].
  rewrite data_eqb_refl. cbn [andb].
  rewrite list_eqb_refl_ by (intros [a b]; unfold stamp_eqb; cbn; rewrite N.eqb_refl, Z.eqb_refl; reflexivity).
  cbn [andb]. destruct (kind =? 0); auto.
  assert (E : canon (run_from auto orc' k s_k (skipn k log)) = canon (run auto orc log)).
  { rewrite (run_split auto orc k log). apply run_from_det; auto.
    - apply run_reachable. eapply log_ok_wf; eauto.
    - apply run_reachable. eapply log_ok_wf; eauto.
    - eapply log_ok_wf; eauto. apply log_ok_skipn; auto. }
  rewrite E. apply data_eqb_refl.
Qed.

Theorem model_satisfies_raw_spec e :
  raw_spec (validate_env c07_validate_checks_ext c07_validate_table e)
           (match apply_raw_env c07_apply_ext e with Crash => true | _ => false end) = true.
Proof.
  unfold raw_spec. destruct (validate_env c07_validate_checks_ext c07_validate_table e) eqn:V; [|reflexivity].
  rewrite validate_checks in V. pose proof (validated_total_env _ _ e tables_consistent V) as H.
  destruct (apply_raw_env c07_apply_ext e); try reflexivity. congruence.
Qed.
