(* C07/Model.v — snapshots of the cluster metadata, on top of the metadata model of C06
   (C06/Model.v: [data], every Data method, [apply], [run_from], [canon]).  Definitions only.

   1. Data.marshal / Data.unmarshal (services/meta/data.go), field by field, over records
      [pdata], [pdatabase], ... that stand for the generated protobuf structs of
      services/meta/internal (proto2: every scalar field is optional = a Go pointer; the
      getters return the zero value for an absent field).  The wire encoding of those
      structs is NOT modelled: it is a Section variable [proto_marshal]/[proto_unmarshal]
      with the hypothesis that it round-trips.
      Go conversions that can lose information are explicit: uint32(ReplicaN),
      int32(Privilege), Time.UnixNano() (wraps modulo 2^64 outside the int64 nanosecond
      range, 1677-09-21 .. 2262-04-11), MarshalTime/UnmarshalTime (0 <-> zero Time).
      DeletedAt := time.Now() is a per-replica wall-clock value: [dat id] is the stamp (unix
      nanoseconds) this replica holds for the deleted group [id]; C06's [g_deleted] only
      records that there is one.
   2. storeFSM.Snapshot / Persist / Restore, store.snapshot() and Data.Clone on a heap
      with aliasing: a metadata VALUE is an object (Term, Index, databases, users, counters
      by value = the parts Clone copies deeply) plus two slices (address, length) into
      arrays of NodeInfo.  [deep] says whether Clone copies the two node lists (the repaired
      code) or only their slice headers (the code before the fix); [snapc] whether Snapshot
      clones.  In-place effects of the FSM (Term/Index stamped on the current object,
      CreateDataNode/CreateMetaNode append + sort, SetMetaNode and UpdateDataNode assign
      through the slice) are writes to that heap, so they are visible through every alias.
   3. Replicas and the hypothesis RaftLog ([replica_at]).
   4. validateCommand (handler.go) and the head of storeFSM.Apply (unmarshal, switch on the
      type, GetExtension + type assertion) on the protobuf library's view of the bytes. *)
From Verif Require Export C06.Model.
From VerifGen Require Import Consts.
Open Scope N_scope.

(* ---------- Go integer conversions ---------- *)

Definition min_i64 : Z := (-9223372036854775808)%Z.
Definition max_i64 : Z := 9223372036854775807%Z.
Definition in_i64 (z : Z) : bool := (min_i64 <=? z)%Z && (z <=? max_i64)%Z.
(* int64 arithmetic wraps *)
Definition wrap_i64 (z : Z) : Z := ((z - min_i64) mod 18446744073709551616 + min_i64)%Z.
Definition in_i32 (z : Z) : bool := (-2147483648 <=? z)%Z && (z <=? 2147483647)%Z.
Definition wrap_i32 (z : Z) : Z := ((z + 2147483648) mod 4294967296 - 2147483648)%Z.
Definition wrap_u32 (n : N) : N := n mod 4294967296.

(* ---------- the protobuf structs (services/meta/internal) ---------- *)

Record pnode := PNd { pn_id : option N; pn_addr : option string; pn_tcp : option string }.
Record powner := POw { po_node : option N }.
Record pshard := PSh { ps_id : option N; ps_owner_ids : list N (* deprecated *); ps_owners : list powner }.
Record pgroup := PGr { pg_id : option N; pg_start : option Z; pg_end : option Z; pg_deleted_at : option Z;
                       pg_shards : list pshard; pg_trunc : option Z }.
Record psub := PSb { psb_name : option string; psb_mode : option string; psb_dests : list string }.
Record ppolicy := PRp { prp_name : option string; prp_dur : option Z; prp_sgdur : option Z;
                        prp_replica : option N; prp_groups : list pgroup; prp_subs : list psub }.
Record pcq := PCq { pcq_name : option string; pcq_query : option string }.
Record pdatabase := PDb { pdb_name : option string; pdb_default : option string;
                          pdb_rps : list ppolicy; pdb_cqs : list pcq }.
Record ppriv := PPv { ppv_db : option string; ppv_priv : option Z }.
Record puser := PUs { pu_name : option string; pu_hash : option string; pu_admin : option bool;
                      pu_privs : list ppriv }.
Record pdata := PDt { pd_term : option N; pd_index : option N; pd_cluster : option N;
                      pd_nodes : list pnode (* deprecated: pre-0.10 node list *);
                      pd_dbs : list pdatabase; pd_users : list puser;
                      pd_max_node : option N; pd_max_group : option N; pd_max_shard : option N;
                      pd_data_nodes : list pnode; pd_meta_nodes : list pnode }.

(* generated getters: zero value when the field is absent *)
Definition getN (o : option N) : N := match o with Some v => v | None => 0 end.
Definition getZ (o : option Z) : Z := match o with Some v => v | None => 0%Z end.
Definition getS (o : option string) : string := match o with Some v => v | None => EmptyString end.
Definition getB (o : option bool) : bool := match o with Some v => v | None => false end.

(* ---------- marshal ---------- *)

Definition m_node (n : node) : pnode := PNd (Some (n_id n)) (Some (n_addr n)) (Some (n_tcp n)).
Definition m_owner (o : N) : powner := POw (Some o).
Definition m_shard (s : shard) : pshard := PSh (Some (s_id s)) [] (map m_owner (s_owners s)).

(* MarshalTime of a non-zero Time: t.UnixNano() *)
Definition m_time (t : Z) : Z := wrap_i64 t.

Section Marshal.
  (* this replica's DeletedAt stamps, unix nanoseconds, by group ID *)
  Variable dat : N -> Z.

  Definition m_group (g : group) : pgroup :=
    PGr (Some (g_id g)) (Some (m_time (g_start g))) (Some (m_time (g_end g)))
        (Some (if g_deleted g then m_time (dat (g_id g)) else 0%Z))      (* MarshalTime(zero Time) = 0 *)
        (map m_shard (g_shards g))
        (match g_trunc g with Some t => Some (m_time t) | None => None end). (* only if !TruncatedAt.IsZero() *)
  Definition m_sub (s : subscription) : psub := PSb (Some (sb_name s)) (Some (sb_mode s)) (sb_dests s).
  Definition m_policy (r : policy) : ppolicy :=
    PRp (Some (rp_name r)) (Some (rp_dur r)) (Some (rp_sgdur r)) (Some (wrap_u32 (rp_replica r)))
        (map m_group (rp_groups r)) (map m_sub (rp_subs r)).
  Definition m_cq (c : cquery) : pcq := PCq (Some (cq_name c)) (Some (cq_query c)).
  Definition m_database (x : database) : pdatabase :=
    PDb (Some (db_name x)) (Some (db_default x)) (map m_policy (db_rps x)) (map m_cq (db_cqs x)).
  (* "for database, privilege := range ui.Privileges": one entry per key, in SOME order;
     the model lists them in the order of its association list *)
  Definition m_priv (kv : string * Z) : ppriv := PPv (Some (fst kv)) (Some (wrap_i32 (snd kv))).
  Definition m_user (u : user) : puser :=
    PUs (Some (u_name u)) (Some (u_hash u)) (Some (u_admin u)) (map m_priv (u_privs u)).

  (* Data.marshal: adminUserExists is not written *)
  Definition marshal (d : data) : pdata :=
    PDt (Some (d_term d)) (Some (d_index d)) (Some (d_cluster d)) []
        (map m_database (d_dbs d)) (map m_user (d_users d))
        (Some (d_max_node d)) (Some (d_max_group d)) (Some (d_max_shard d))
        (map m_node (d_nodes d)) (map m_node (d_meta d)).
End Marshal.

(* ---------- unmarshal ---------- *)

Definition u_node (p : pnode) : node := Nd (getN (pn_id p)) (getS (pn_addr p)) (getS (pn_tcp p)).
Definition u_shard (p : pshard) : shard :=
  Sh (getN (ps_id p))
     (match ps_owner_ids p with
      | _ :: _ => ps_owner_ids p
      | [] => map (fun o => getN (po_node o)) (ps_owners p)
      end).
(* "if i := pb.GetStartTime(); i == 0 { time.Unix(0, 0) } else { UnmarshalTime(i) }" *)
Definition u_time0 (i : Z) : Z := if (i =? 0)%Z then 0%Z else i.
(* [trunc_fixed]: the repaired code reads a present TruncatedAt with time.Unix(0, v); the
   code before the fix used UnmarshalTime, which maps 0 to the zero Time (= not truncated) *)
Definition u_group_with (trunc_fixed : bool) (p : pgroup) : group :=
  Gr (getN (pg_id p)) (u_time0 (getZ (pg_start p))) (u_time0 (getZ (pg_end p)))
     (negb (getZ (pg_deleted_at p) =? 0)%Z)          (* UnmarshalTime(0) = zero Time = not deleted *)
     (match pg_trunc p with
      | Some v => if trunc_fixed then Some v else if (v =? 0)%Z then None else Some v
      | None => None
      end)
     (map u_shard (pg_shards p)).
Definition u_group := u_group_with true.
Definition u_sub (p : psub) : subscription := Sb (getS (psb_name p)) (getS (psb_mode p)) (psb_dests p).
Definition u_policy_with (tf : bool) (p : ppolicy) : policy :=
  Rp (getS (prp_name p)) (getN (prp_replica p)) (getZ (prp_dur p)) (getZ (prp_sgdur p))
     (map (u_group_with tf) (prp_groups p)) (map u_sub (prp_subs p)).
Definition u_cq (p : pcq) : cquery := Cq (getS (pcq_name p)) (getS (pcq_query p)).
Definition u_database_with (tf : bool) (p : pdatabase) : database :=
  Db (getS (pdb_name p)) (getS (pdb_default p)) (map (u_policy_with tf) (pdb_rps p)) (map u_cq (pdb_cqs p)).
(* the privileges go into a fresh Go map, one assignment per entry *)
Definition un_privs (l : list ppriv) : list (string * Z) :=
  fold_left (fun m p => priv_set (getS (ppv_db p)) (getZ (ppv_priv p)) m) l [].
Definition u_user (p : puser) : user :=
  Us (getS (pu_name p)) (getS (pu_hash p)) (getB (pu_admin p)) (un_privs (pu_privs p)).

(* Data.unmarshal: the deprecated Nodes field wins over DataNodes; adminUserExists is
   recomputed by hasAdminUser *)
Definition unmarshal_with (tf : bool) (p : pdata) : data :=
  let users := map u_user (pd_users p) in
  Dt (getN (pd_term p)) (getN (pd_index p)) (getN (pd_cluster p))
     (map u_node (pd_meta_nodes p))
     (match pd_nodes p with _ :: _ => map u_node (pd_nodes p) | [] => map u_node (pd_data_nodes p) end)
     (map (u_database_with tf) (pd_dbs p)) users (has_admin users)
     (getN (pd_max_node p)) (getN (pd_max_group p)) (getN (pd_max_shard p)).
Definition unmarshal := unmarshal_with true.

(* the (id, DeletedAt) pairs an image carries *)
Definition pdata_stamps (p : pdata) : list (N * Z) :=
  flat_map (fun x => flat_map (fun r => flat_map (fun g =>
     if (getZ (pg_deleted_at g) =? 0)%Z then [] else [(getN (pg_id g), getZ (pg_deleted_at g))])
     (prp_groups r)) (pdb_rps x)) (pd_dbs p).

(* ---------- the representation predicate ---------- *)

(* values for which no Go conversion in marshal loses information *)
Definition wf_group (g : group) : bool :=
  in_i64 (g_start g) && in_i64 (g_end g) && match g_trunc g with Some t => in_i64 t | None => true end.
(* [bnd]: an upper bound of every ShardGroupDuration *)
Definition wf_policy (bnd : Z) (r : policy) : bool :=
  (rp_replica r <? 4294967296) && (0 <? rp_sgdur r)%Z && (rp_sgdur r <=? bnd)%Z && forallb wf_group (rp_groups r).
Definition wf_database (bnd : Z) (x : database) : bool := forallb (wf_policy bnd) (db_rps x).
Fixpoint nodup_keys (l : list (string * Z)) : bool :=
  match l with
  | [] => true
  | kv :: t => negb (existsb (fun kv' => String.eqb (fst kv') (fst kv)) t) && nodup_keys t
  end.
Definition wf_user (u : user) : bool := forallb (fun kv => in_i32 (snd kv)) (u_privs u) && nodup_keys (u_privs u).
Definition wf (bnd : Z) (d : data) : bool :=
  forallb (wf_database bnd) (d_dbs d) && forallb wf_user (d_users d) && Bool.eqb (d_admin d) (has_admin (d_users d)).

(* command arguments have their Go types (what decoding the protobuf command guarantees) and
   shard-group durations do not exceed [bnd] (any bound up to MaxInt64, i.e. no restriction).
   Since fix 78b5206 CreateShardGroup clamps StartTime to the int64 nanosecond range, so every
   int64 timestamp is admitted. *)
Definition sgd_ok (bnd sgd : Z) : bool := (sgd <=? bnd)%Z.
Definition cmd_ok (bnd : Z) (c : cmd) : bool :=
  match c with
  | CCreateDatabase _ (Some (_, rep, _, sgd)) => (rep <? 4294967296) && sgd_ok bnd sgd
  | CCreateRetentionPolicy _ _ rep _ sgd _ => (rep <? 4294967296) && sgd_ok bnd sgd
  | CUpdateRetentionPolicy _ _ _ _ rep sgd _ =>
      match rep with Some v => v <? 4294967296 | None => true end &&
      match sgd with Some v => sgd_ok bnd v | None => true end
  | CCreateShardGroup _ _ t => in_i64 t
  | CTruncateShardGroups t => in_i64 t
  | CSetPrivilege _ _ p => in_i32 p
  | _ => true
  end.

(* ---------- storeFSM.Snapshot / Persist / Restore over an abstract wire format ---------- *)

Section Proto.
  Variable image : Type.
  Variable proto_marshal : pdata -> image.
  Variable proto_unmarshal : image -> option pdata.

  (* storeFSMSnapshot.Persist: Data.MarshalBinary = proto.Marshal(data.marshal()) *)
  Definition persist (dat : N -> Z) (d : data) : image := proto_marshal (marshal dat d).
  (* storeFSM.Restore: Data.UnmarshalBinary; an undecodable image is an error *)
  Definition restore (b : image) : option data := option_map unmarshal (proto_unmarshal b).

  (* replica = (snapshot, log suffix, applied state) *)
  Record replica := Rep { r_snap : option (nat * image);   (* entries covered, image *)
                          r_suffix : list entry;           (* log entries after the snapshot *)
                          r_state : data }.

  (* what a (re)started replica computes from its snapshot and log suffix *)
  Definition recover (auto : bool) (orc : nat -> list N) (r : replica) : option data :=
    match r_snap r with
    | None => Some (run_from auto orc 0 init_data (r_suffix r))
    | Some (k, img) => match restore img with
                       | Some d => Some (run_from auto orc k d (r_suffix r))
                       | None => None
                       end
    end.

  (* RaftLog, the assumption about hashicorp/raft: the states a replica can be in when it has
     applied the first n entries of THE committed log are generated by
       - starting from newStore's value,
       - applying the next entry of the committed log (with the replica's own clock),
       - being replaced by Restore of an image that some replica persisted of its state at
         the same point of the log (own snapshot + restart, snapshot install from the
         leader, nested arbitrarily).
     [stamps_ok dat]: wall-clock stamps are not the Unix epoch. *)
  Definition stamps_ok (dat : N -> Z) : Prop := forall id, m_time (dat id) <> 0%Z.
  Inductive replica_at (auto : bool) (log : list entry) : nat -> data -> Prop :=
  | ra_init : replica_at auto log 0 init_data
  | ra_apply n d e ex : replica_at auto log n d -> nth_error log n = Some e ->
      replica_at auto log (S n) (fst (apply auto ex d (e_idx e) (e_term e) (e_cmd e)))
  | ra_restore n d dat d' : replica_at auto log n d -> stamps_ok dat ->
      restore (persist dat d) = Some d' -> replica_at auto log n d'.
End Proto.

(* ---------- values on a heap: Clone, Snapshot, publication ---------- *)

Record slice := Sl { sl_addr : nat; sl_len : nat }.
Record hobj := Ho { o_rest : data;       (* Term, Index, ClusterID, Databases, Users, counters: by value;
                                            d_meta / d_nodes of this component are not used *)
                    o_meta : slice; o_nodes : slice }.
Record heap := Hp { h_arrays : list (list node);   (* backing arrays; length = capacity *)
                    h_objs : list hobj }.
Record fsm := Fs { f_heap : heap; f_cur : nat }.    (* fsm.data is a pointer *)

Definition zero_node : node := Nd 0 "" "".
Definition zero_obj : hobj := Ho init_data (Sl 0 0) (Sl 0 0).

Definition get_array (h : heap) (a : nat) : list node := nth a (h_arrays h) [].
Definition get_obj (h : heap) (p : nat) : hobj := nth p (h_objs h) zero_obj.
Definition read_slice (h : heap) (s : slice) : list node := firstn (sl_len s) (get_array h (sl_addr s)).
(* the metadata value seen through pointer p *)
Definition hread (h : heap) (p : nat) : data :=
  let o := get_obj h p in
  set_nodes (set_meta (o_rest o) (read_slice h (o_meta o))) (read_slice h (o_nodes o)).

Fixpoint set_nth {A} (n : nat) (x : A) (l : list A) : list A :=
  match l, n with
  | [], _ => []
  | _ :: t, O => x :: t
  | y :: t, S n' => y :: set_nth n' x t
  end.

Definition alloc_array (h : heap) (l : list node) : heap * nat :=
  (Hp (h_arrays h ++ [l]) (h_objs h), List.length (h_arrays h)).
Definition alloc_obj (h : heap) (o : hobj) : heap * nat :=
  (Hp (h_arrays h) (h_objs h ++ [o]), List.length (h_objs h)).
(* overwrite cells [0, |l|) of array a *)
Definition write_prefix (h : heap) (a : nat) (l : list node) : heap :=
  Hp (set_nth a (l ++ skipn (List.length l) (get_array h a)) (h_arrays h)) (h_objs h).
Definition set_obj (h : heap) (p : nat) (o : hobj) : heap := Hp (h_arrays h) (set_nth p o (h_objs h)).

(* Data.Clone: "other := *data" copies the struct, CloneDatabases/CloneUsers copy deeply;
   MetaNodes/DataNodes: new arrays of exactly len elements if [deep], else the same slices *)
Definition hclone (deep : bool) (h : heap) (p : nat) : heap * nat :=
  let o := get_obj h p in
  if deep then
    let lm := read_slice h (o_meta o) in
    let ln := read_slice h (o_nodes o) in
    let (h1, a1) := alloc_array h lm in
    let (h2, a2) := alloc_array h1 ln in
    alloc_obj h2 (Ho (o_rest o) (Sl a1 (List.length lm)) (Sl a2 (List.length ln)))
  else alloc_obj h o.

(* how a command writes a node list of the value it works on *)
Inductive wmode :=
| WNone         (* not written *)
| WInPlace      (* elements assigned through the slice: same array, same length *)
| WAppendSort   (* append (in place when there is spare capacity, else a new array) then sort.Sort in place *)
| WFresh.       (* rebuilt with append from a nil slice: new array *)

Definition meta_mode (v : data) (c : cmd) : wmode :=
  match c with
  | CCreateMetaNode http tcp _ =>
      match create_meta_node v http tcp with Ok _ => WAppendSort | Er _ => WNone end
  | CSetMetaNode http tcp _ =>
      match d_meta v with
      | [] => match create_meta_node v http tcp with Ok _ => WAppendSort | Er _ => WNone end
      | [_] => WInPlace
      | _ => WNone
      end
  | CDeleteMetaNode _ => WFresh
  | _ => WNone
  end.
Definition nodes_mode (c : cmd) : wmode :=
  match c with
  | CCreateDataNode _ _ => WAppendSort
  | CUpdateDataNode _ _ _ => WInPlace
  | CDeleteDataNode _ => WFresh
  | _ => WNone
  end.

(* a schedule of the FSM goroutine: commands, Snapshot() calls, store.snapshot() calls *)
Inductive hevent :=
| HApply (e : entry) (expired : list N)
| HSnapshot
| HPublish.

Section Heap.
  (* spare cells of a newly grown array (Go's append growth policy); irrelevant when Clone is deep *)
  Variable spare : nat -> nat.

  Definition store_list (h : heap) (s : slice) (m : wmode) (l : list node) : heap * slice :=
    match m with
    | WNone => (h, s)
    | WInPlace => (write_prefix h (sl_addr s) l, s)
    | WAppendSort =>
        if (sl_len s <? List.length (get_array h (sl_addr s)))%nat
        then (write_prefix h (sl_addr s) l, Sl (sl_addr s) (List.length l))
        else let (h1, a) := alloc_array h (l ++ repeat zero_node (spare (sl_len s))) in
             (h1, Sl a (List.length l))
    | WFresh => let (h1, a) := alloc_array h (l ++ repeat zero_node (spare (List.length l))) in
                (h1, Sl a (List.length l))
    end.

  (* an apply*Command function working on the value behind p (the clone): the Data method of
     C06 decides the new contents, the heap discipline decides which cells they are written to.
     A method that returns an error has not written anything. *)
  Definition hexec (auto : bool) (expired : list N) (h : heap) (p : nat) (c : cmd) : heap * err :=
    let v := hread h p in
    match exec auto expired v c with
    | Er e => (h, e)
    | Ok d' =>
        let o := get_obj h p in
        let (h1, sm) := store_list h (o_meta o) (meta_mode v c) (d_meta d') in
        let (h2, sn) := store_list h1 (o_nodes o) (nodes_mode c) (d_nodes d') in
        (set_obj h2 p (Ho d' sm sn), ENone)
    end.

  (* "fsm.data.Term = l.Term; fsm.data.Index = l.Index": in place, on the current object *)
  Definition hstamp (h : heap) (p : nat) (idx term : N) : heap :=
    let o := get_obj h p in set_obj h p (Ho (stamp (o_rest o) idx term) (o_meta o) (o_nodes o)).

  Section Flags.
    Variables deep snapc : bool.

    (* storeFSM.Apply.  applyRemovePeerCommand neither clones nor replaces fsm.data; every
       other apply function clones, works on the clone and installs it on success *)
    Definition happly_clone (auto : bool) (expired : list N) (f : fsm) (c : cmd) (idx term : N) : fsm * err :=
      let (h1, p) := hclone deep (f_heap f) (f_cur f) in
      let (h2, er) := hexec auto expired h1 p c in
      match er with
      | ENone => (Fs (hstamp h2 p idx term) p, ENone)
      | _ => (Fs (hstamp h2 (f_cur f) idx term) (f_cur f), er)
      end.
    Definition happly (auto : bool) (expired : list N) (f : fsm) (e : entry) : fsm * err :=
      match e_cmd e with
      | CRemovePeer _ => (Fs (hstamp (f_heap f) (f_cur f) (e_idx e) (e_term e)) (f_cur f), ENone)
      | c => happly_clone auto expired f c (e_idx e) (e_term e)
      end.

    (* storeFSM.Snapshot: the pointer the storeFSMSnapshot holds until Persist *)
    Definition hsnapshot (f : fsm) : fsm * nat :=
      if snapc then let (h, p) := hclone deep (f_heap f) (f_cur f) in (Fs h (f_cur f), p)
      else (f, f_cur f).
    (* store.snapshot(): the value handed to the HTTP handlers / clients *)
    Definition hpublish (f : fsm) : fsm * nat :=
      let (h, p) := hclone deep (f_heap f) (f_cur f) in (Fs h (f_cur f), p).

    (* run a schedule; returns the pointers taken, oldest first *)
    Fixpoint hrun (auto : bool) (f : fsm) (taken : list nat) (evs : list hevent) : fsm * list nat :=
      match evs with
      | [] => (f, taken)
      | HApply e ex :: t => hrun auto (fst (happly auto ex f e)) taken t
      | HSnapshot :: t => let (f1, p) := hsnapshot f in hrun auto f1 (taken ++ [p]) t
      | HPublish :: t => let (f1, p) := hpublish f in hrun auto f1 (taken ++ [p]) t
      end.
  End Flags.
End Heap.

(* ---------- any other Go slice reachable from a *Data ---------- *)

(* The heap machine above keeps Databases, Users and everything below them BY VALUE in the
   object.  That is the semantics of the code only because Data.Clone copies every slice and
   map reachable from a *Data into new arrays (re-read from the source on every run:
   c07_clone_fields_copied / c07_clone_all_deep), for the FSM writes them in place with three
   idioms: append(s, x) (CreateSubscription, CreateUser, CreateDatabase, ...),
   append(s[:i], s[i+1:]...) (DropSubscription, DropUser, DropRetentionPolicy, DeleteDataNode's
   owners, ...) and s[i].f = v (UpdateUser, SetPrivilege, TruncateShardGroups, ...).
   This section is those idioms on one slice of any element type, with a copy that is deep
   or shares the array. *)
Section Slice.
  Context {A : Type}.
  Variable zero : A.
  Variable spare : nat -> nat.

  Record gslice := GS { gs_addr : nat; gs_len : nat }.
  Definition gs_array (h : list (list A)) (s : gslice) : list A := nth (gs_addr s) h [].
  Definition gs_read (h : list (list A)) (s : gslice) : list A := firstn (gs_len s) (gs_array h s).

  (* make + copy into exactly len cells, or "other := v" (same array) *)
  Definition gs_clone (deep : bool) (h : list (list A)) (s : gslice) : list (list A) * gslice :=
    if deep then (h ++ [gs_read h s], GS (List.length h) (List.length (gs_read h s))) else (h, s).

  Inductive gop :=
  | GAppend (x : A)          (* s = append(s, x) *)
  | GRemoveAt (i : nat)      (* s = append(s[:i], s[i+1:]...) *)
  | GSet (i : nat) (x : A).  (* s[i] = x *)

  Definition gs_step (hs : list (list A) * gslice) (o : gop) : list (list A) * gslice :=
    let (h, s) := hs in
    let arr := gs_array h s in
    match o with
    | GAppend x =>
        if (gs_len s <? List.length arr)%nat
        then (set_nth (gs_addr s) (set_nth (gs_len s) x arr) h, GS (gs_addr s) (S (gs_len s)))
        else (h ++ [gs_read h s ++ x :: repeat zero (spare (gs_len s))], GS (List.length h) (S (gs_len s)))
    | GRemoveAt i =>
        if (i <? gs_len s)%nat
        then (* cells i .. len-2 receive cells i+1 .. len-1; cell len-1 and the spare cells keep their contents *)
             let l := gs_read h s in
             (set_nth (gs_addr s) (firstn i l ++ skipn (S i) l ++ skipn (Nat.pred (gs_len s)) arr) h,
              GS (gs_addr s) (Nat.pred (gs_len s)))
        else (h, s)                                   (* not reached: the index comes from a search *)
    | GSet i x =>
        if (i <? gs_len s)%nat then (set_nth (gs_addr s) (set_nth i x arr) h, s) else (h, s)
    end.
End Slice.

(* newStore: data: &Data{Index: 1} *)
Definition init_fsm : fsm := Fs (Hp [[]; []] [Ho init_data (Sl 0 0) (Sl 1 0)]) 0.

(* the metadata value after the HApply events of a schedule (the other events do not change it) *)
Fixpoint run_events (auto : bool) (d : data) (evs : list hevent) : data :=
  match evs with
  | [] => d
  | HApply e ex :: t => run_events auto (fst (apply auto ex d (e_idx e) (e_term e) (e_cmd e))) t
  | _ :: t => run_events auto d t
  end.

(* ---------- store.remove: the only place where a store wipes itself on purpose ---------- *)

(* Raft membership is outside RaftLog; this is just the decision store.remove takes after the
   DeleteMetaNodeCommand has been applied: the node executing it (the leader) calls reset()
   - close raft, delete its directory, Data{Index: 1} - iff it counts at most one node,
   otherwise it removes the peer from the raft configuration.  [by_peers]: the count is
   len(s.peers()), the raft configuration that still contains the node being removed (the
   code; re-read from the source: c07_remove_resets_by_raft_peers), or the meta-node list of
   the metadata, which the command has already shrunk. *)
Record mstate := MS { ms_self : string; ms_peers : list string; ms_data : data }.

Definition remove_resets (by_peers : bool) (peers : list string) (d_after : data) : bool :=
  ((if by_peers then List.length peers else List.length (d_meta d_after)) <=? 1)%nat.

Definition remove_step (by_peers : bool) (st : mstate) (id : N) (addr : string) : mstate :=
  match delete_meta_node (ms_data st) id with
  | Er _ => st
  | Ok d' =>
      if remove_resets by_peers (ms_peers st) d'
      then MS (ms_self st) [] init_data
      else MS (ms_self st) (filter (fun p => negb (String.eqb p addr)) (ms_peers st)) d'
  end.

(* ---------- validateCommand and the head of storeFSM.Apply ---------- *)

(* what gogo/protobuf makes of the bytes of a command: proto.Unmarshal(b, &cmd) succeeded or
   not; cmd.GetType(); and for an extension field number what GetExtension finds *)
Inductive xstat := XAbsent | XBad (* present, cannot be decoded: GetExtension returns nil, err *) | XOk.
Record envelope := Env { ev_ok : bool; ev_type : Z; ev_ext : N -> xstat }.

Definition xstat_ok (x : xstat) : bool := match x with XOk => true | _ => false end.

Fixpoint assoc (k : N) (l : list (N * N)) : option N :=
  match l with
  | [] => None
  | (k', v) :: t => if k' =? k then Some v else assoc k t
  end.
Definition type_lookup (t : Z) (l : list (N * N)) : option N :=
  if (t <? 0)%Z then None else assoc (Z.to_N t) l.

(* validateCommand; [checks] = whether it looks at type and extension (the repaired code) *)
Definition validate_env (checks : bool) (table : list (N * N)) (e : envelope) : bool :=
  ev_ok e &&
  (if checks then match type_lookup (ev_type e) table with
                  | Some f => xstat_ok (ev_ext e f)
                  | None => false
                  end
   else true).

Inductive outcome :=
| Crash                 (* Go panics: on every replica, again at every replay of the log *)
| Dispatch (t : Z)      (* apply*Command continues with a well-typed command value *)
| Ignored (t : Z).      (* the pre-0.10 no-op commands never look at the extension *)

(* storeFSM.Apply up to the type assertion "v := ext.[*internal.X]"; [switch] maps the types of
   the switch to the extension field the arm's function asserts (0 = none) *)
Definition apply_raw_env (switch : list (N * N)) (e : envelope) : outcome :=
  if negb (ev_ok e) then Crash                              (* panic "cannot marshal command" *)
  else match type_lookup (ev_type e) switch with
       | None => Crash                                      (* default: panic "cannot apply command" *)
       | Some 0 => Ignored (ev_type e)
       | Some f => if xstat_ok (ev_ext e f) then Dispatch (ev_type e) else Crash   (* nil.[*internal.X] *)
       end.

Section Bytes.
  Variable decode_envelope : list N -> envelope.     (* the protobuf library *)
  Definition validate (b : list N) : bool :=
    validate_env c07_validate_checks_ext c07_validate_table (decode_envelope b).
  Definition apply_raw (b : list N) : outcome := apply_raw_env c07_apply_ext (decode_envelope b).
End Bytes.
