(* C07/Run.v — correspondence cases.
   CSnap: one schedule of the FSM goroutine run by the harness on the real storeFSM:
          commands (EvApply, with the error class Apply returned and the set of deleted groups
          a PruneShardGroups removed), Snapshot()/store.snapshot() calls (EvTake, with the dump
          of the value taken) and, later, Persist + Restore into a fresh store (+ replay of
          the rest of the log) of a handle taken earlier (EvPersist).
   CRaw:  one byte string given to validateCommand and to storeFSM.Apply; the case carries
          what the protobuf library makes of the bytes (VerifEnvelope).
   agree   : the model reproduces every observation: error classes, the value taken, the
             value read through the handle later (heap machine with the Clone/Snapshot
             flags re-read from the source), the restored value (unmarshal o marshal), its
             deletion stamps, the replayed value, the final value; validate / crash verdicts.
   spec_ok : Spec.handle_spec / Spec.raw_spec on the observations alone.
   CPersist: one snapshot attempt under planted write faults: FSM.Snapshot, (further commands,)
          the REAL storeFSMSnapshot.Persist into a sink whose Write / Close fail as planted
          ([store] 0: an in-memory sink with FileSnapshotSink's Close/Cancel protocol, 1: a real
          raft.FileSnapshotStore in a temp directory behind a fault-injecting wrapper), then
          raft's epilogue (Cancel on error, else Close).  The case carries the calls seen at
          the sink, what Persist returned, whether the store showed the snapshot as committed,
          its bytes, and what Restore makes of them.
          agree = Persist.take_snapshot reproduces trace, result, commit state, bytes, and
          Model.unmarshal o marshal the restored value; spec_ok = PersistSpec.persist_spec.
   result code: 0 agree/spec holds, 1 differ/spec holds, 2 differ/spec fails, 3 agree/spec fails *)
From Verif Require Export C06.Model C06.Eqb C07.Model C07.Spec C07.Persist C07.PersistSpec.
From VerifGen Require Import Consts.
Open Scope N_scope.

Definition code (agree spec_ok : bool) : N :=
  match agree, spec_ok with
  | true, true => 0 | false, true => 1 | false, false => 2 | true, false => 3
  end.

(* the model keeps shard groups in ShardGroupInfos.Less order and privileges in insertion
   order; the dumps are sorted: compare as sets keyed by ID / database *)
Definition groups_sim (a b : list group) : bool :=
  (List.length a =? List.length b)%nat &&
  forallb (fun g => match find (fun h => g_id h =? g_id g) b with
                    | Some h => group_eqb g h | None => false end) a.
Definition privs_sim (a b : list (string * Z)) : bool :=
  (List.length a =? List.length b)%nat &&
  forallb (fun kv => match find (fun kv' => String.eqb (fst kv') (fst kv)) b with
                     | Some kv' => (snd kv =? snd kv')%Z | None => false end) a.
Definition data_sim : data -> data -> bool := data_eq groups_sim privs_sim.
Definition stamps_sim (a b : list (N * Z)) : bool :=
  (List.length a =? List.length b)%nat &&
  forallb (fun kv => match find (fun kv' => fst kv' =? fst kv) b with
                     | Some kv' => (snd kv =? snd kv')%Z | None => false end) a.

Inductive sev :=
| EvApply (idx term : N) (c : cmd) (expired : list N) (err : N)
| EvTake (kind : N) (taken : data) (stamps : list (N * Z))
| EvPersist (h : nat) (later : data) (stable : bool) (restored : data) (stamps_r : list (N * Z))
            (replay : option (list (list N) * data)).   (* prune oracles of the replayed suffix, result *)

Inductive case :=
| CSnap (auto : bool) (evs : list sev) (final : data)
| CRaw (ok : bool) (ty : Z) (exts : list (N * N)) (accepted crashed : bool)
(* thorough tier: three real meta services over raft; [s0] the metadata observed on the formed
   cluster, [steps] the acknowledged commands (raft index, term, command), [finals] the
   metadata of every node after quiescence *)
| CSoak (auto : bool) (s0 : data) (steps : list (N * N * cmd)) (finals : list data)
(* both tiers: a membership scenario (join / remove / leave + re-join) on real meta services;
   [steps] includes the CreateMetaNode / DeleteMetaNode commands proposed by join and remove *)
| CMember (s0 : data) (steps : list (N * N * cmd)) (acked : list string) (finals : list data)
(* a snapshot attempt under planted faults; see the head of the file and PersistSpec.v *)
| CPersist (store : N) (prior : bool) (wfl : list (option N)) (cf : bool)
           (image : list N) (trace : list call) (err c1 c2 : bool) (held : list N)
           (taken : data) (st_t : list (N * Z)) (restored : option (data * list (N * Z))) (newest : N).

(* the commands of a schedule, in order *)
Fixpoint applies (evs : list sev) : list entry :=
  match evs with
  | [] => []
  | EvApply idx term c _ _ :: t => En idx term c :: applies t
  | _ :: t => applies t
  end.

Fixpoint replay (auto : bool) (d : data) (es : list entry) (orcs : list (list N)) : data :=
  match es with
  | [] => d
  | e :: t => replay auto (fst (apply auto (hd [] orcs) d (e_idx e) (e_term e) (e_cmd e))) t (tl orcs)
  end.

(* Go's append doubles small slices: growing a full slice of n > 0 elements leaves n - 1 spare cells *)
Definition go_spare (n : nat) : nat := Nat.pred n.

Record handle := Hd { hd_ptr : nat; hd_pos : nat; hd_kind : N; hd_taken : data; hd_stamps : list (N * Z) }.

Definition stamp_fun (l : list (N * Z)) (id : N) : Z :=
  match find (fun kv => fst kv =? id) l with Some kv => snd kv | None => 1%Z end.

Fixpoint go (auto : bool) (all : list entry) (final : data) (evs : list sev)
            (m : data) (hf : fsm) (n : nat) (hs : list handle) (ag sp : bool) : data * bool * bool :=
  match evs with
  | [] => (m, ag, sp)
  | EvApply idx term c ex err :: t =>
      let ra := apply auto ex m idx term c in
      let hf' := fst (happly go_spare c07_clone_copies_node_lists auto ex hf (En idx term c)) in
      go auto all final t (fst ra) hf' (S n) hs (ag && (err_code (snd ra) =? err)) sp
  | EvTake kind taken st :: t =>
      let r := if kind =? 0 then hsnapshot c07_clone_copies_node_lists c07_snapshot_clones hf
               else hpublish c07_clone_copies_node_lists hf in
      go auto all final t m (fst r) n (hs ++ [Hd (snd r) n kind taken st]) (ag && data_sim taken m) sp
  | EvPersist h later stable restored st_r rp :: t =>
      match nth_error hs h with
      | None => (m, false, false)
      | Some hd =>
          let later_m := hread (f_heap hf) (hd_ptr hd) in
          let img := marshal (stamp_fun (hd_stamps hd)) later_m in
          let restored_m := unmarshal img in
          let ag1 := data_sim later later_m && data_sim restored restored_m && stamps_sim st_r (pdata_stamps img) in
          let ag2 := match rp with
                     | Some (orcs, replayed) => data_sim replayed (replay auto restored_m (skipn (hd_pos hd) all) orcs)
                     | None => true
                     end in
          let o := PO (hd_kind hd) (hd_taken hd) (hd_stamps hd) later stable restored st_r
                      (match rp with Some (_, r) => Some r | None => None end) in
          go auto all final t m hf n hs (ag && ag1 && ag2) (sp && handle_spec final o)
      end
  end.

Definition env_of (ok : bool) (ty : Z) (exts : list (N * N)) : envelope :=
  Env ok ty (fun f => match assoc f exts with Some 2 => XOk | Some 1 => XBad | _ => XAbsent end).

Definition is_crash (o : outcome) : bool := match o with Crash => true | _ => false end.

Definition call_eqb (a b : call) : bool :=
  match a, b with
  | KWrite l n e, KWrite l' n' e' => (l =? l') && (n =? n') && Bool.eqb e e'
  | KClose e, KClose e' => Bool.eqb e e'
  | KCancel, KCancel => true
  | _, _ => false
  end.

Definition check_case (c : case) : N :=
  match c with
  | CSnap auto evs final =>
      match go auto (applies evs) final evs init_data init_fsm 0 [] true true with
      | (m, ag, sp) => code (ag && data_sim final m) sp
      end
  | CRaw ok ty exts accepted crashed =>
      let e := env_of ok ty exts in
      code (Bool.eqb (validate_env c07_validate_checks_ext c07_validate_table e) accepted &&
            Bool.eqb (is_crash (apply_raw_env c07_apply_ext e)) crashed)
           (raw_spec accepted crashed)
  | CSoak auto s0 steps finals =>
      let m := fold_left (fun d (s : N * N * cmd) =>
                            fst (apply auto [] d (fst (fst s)) (snd (fst s)) (snd s))) steps s0 in
      code (forallb (fun f => data_sim (canon f) (canon m)) finals)
           (match finals with
            | [] => true
            | f0 :: t => forallb (fun f => data_eqb (canon f) (canon f0)) t
            end)
  | CMember s0 steps acked finals =>
      let m := fold_left (fun d (s : N * N * cmd) =>
                            fst (apply true [] d (fst (fst s)) (snd (fst s)) (snd s))) steps s0 in
      let last := fold_left (fun a (s : N * N * cmd) => N.max a (fst (fst s))) steps 0 in
      code (forallb (fun f => data_sim (canon f) (canon m)) finals)
           (member_spec s0 last acked finals)
  | CPersist store prior wfl cf image trace err c1 c2 held taken st_t restored newest =>
      let r1 := persist_to (Some image) (fresh_sink wfl cf) in
      let r2 := take_snapshot (Some image) (fresh_sink wfl cf) in
      let s2 := fst (fst r2) in
      let img := marshal (stamp_fun st_t) taken in
      code (list_eqb call_eqb trace (snd (fst r2)) && Bool.eqb err (snd r1) &&
            Bool.eqb c1 (committed (fst (fst r1))) && Bool.eqb c2 (committed s2) &&
            (if (store =? 0) || c2 then list_eqb N.eqb held (sk_buf s2) else true) &&
            (newest =? newest_after prior s2) &&
            match restored with
            | Some (r, st) => committed s2 && data_sim r (unmarshal img) && stamps_sim st (pdata_stamps img)
            | None => negb (committed s2)
            end)
           (persist_spec (PF (trace_faulted trace) image err c1 c2 held taken st_t restored prior newest))
  end.

(* frequent strings of the harness' name pools (the harness prints z<i>) *)
Open Scope string_scope.
Definition z0 : string := "".
Definition z1 : string := "db0".
Definition z2 : string := "db1".
Definition z3 : string := "db2".
Definition z4 : string := "_internal".
Definition z5 : string := "rp0".
Definition z6 : string := "rp1".
Definition z7 : string := "autogen".
Definition z8 : string := "week".
Definition z9 : string := "alice".
Definition z10 : string := "bob".
Definition z11 : string := "root".
Definition z12 : string := "h1:8088".
Definition z13 : string := "h2:8088".
Definition z14 : string := "h3:8088".
Definition z15 : string := "h4:8088".
Definition z16 : string := "h5:8088".
Definition z17 : string := "h6:8088".
Definition z18 : string := "h1:8086".
Definition z19 : string := "h2:8086".
Definition z20 : string := "h3:8086".
Definition z21 : string := "h4:8086".
Definition z22 : string := "h5:8086".
Definition z23 : string := "h6:8086".
Definition z24 : string := "h1:8089".
Definition z25 : string := "h2:8089".
Definition z26 : string := "h3:8089".
Definition z27 : string := "h1:8091".
Definition z28 : string := "h2:8091".
Definition z29 : string := "h3:8091".
Definition z30 : string := "h4:8091".
Definition z31 : string := "cq0".
Definition z32 : string := "cq1".
Definition z33 : string := "s0".
Definition z34 : string := "s1".
Definition z35 : string := "ALL".
Definition z36 : string := "ANY".
Definition z37 : string := "h1".
Definition z38 : string := "h2".
Definition z39 : string := "h3".
Definition z40 : string := "SELECT mean(v) INTO a FROM b GROUP BY time(1m)".
Definition z41 : string := "select MEAN(v) into a from b group by TIME(1m)".
Definition z42 : string := "SELECT max(v) INTO c FROM b GROUP BY time(5m)".
Definition z43 : string := "udp://h1:9000".
Definition z44 : string := "http://h2:9001".
Definition z45 : string := "https://h3:9002".
Definition z46 : string := "ftp://h1:21".
Definition z47 : string := "http://noport".
Definition z48 : string := "://bad".
Definition z49 : string := "udp://h9:1".
Definition z50 : string := "h9:8088".
Definition z51 : string := "x".
