(* C07/ProofsHeap.v — the heap machine with a deep Clone refines storeFSM.Apply of C06, and
   every pointer taken by Snapshot() / store.snapshot() keeps its value whatever is applied
   afterwards.  With a shallow Clone, or a Snapshot that does not clone, it does not. *)
From Verif Require Import C06.Model C06.ListLemmas C06.Proofs C07.Model.
From Coq Require Import Lia.
From Coq Require Import ZifyBool ZifyNat ZifyN.
Open Scope N_scope.

(* ---------- lists ---------- *)

Lemma set_nth_length {A} n (x : A) l : List.length (set_nth n x l) = List.length l.
Proof. revert n; induction l as [|a t IH]; intros [|n]; cbn; auto. Qed.

Lemma nth_set_nth_eq {A} n (x d : A) l : (n < List.length l)%nat -> nth n (set_nth n x l) d = x.
Proof. revert n; induction l as [|a t IH]; intros [|n]; cbn; intros H; try lia; auto. apply IH. lia. Qed.

Lemma nth_set_nth_neq {A} n m (x d : A) l : n <> m -> nth m (set_nth n x l) d = nth m l d.
Proof. revert n m; induction l as [|a t IH]; intros [|n] [|m]; cbn; intros H; auto; try congruence. Qed.

Lemma firstn_app_exact {A} (l r : list A) : firstn (List.length l) (l ++ r) = l.
Proof. induction l; cbn; auto. rewrite IHl. reflexivity. Qed.

Lemma nth_snoc_lt {A} (l : list A) x d n : (n < List.length l)%nat -> nth n (l ++ [x]) d = nth n l d.
Proof. intros H. apply app_nth1; auto. Qed.

Lemma nth_snoc_eq {A} (l : list A) x d : nth (List.length l) (l ++ [x]) d = x.
Proof. rewrite app_nth2 by lia. rewrite Nat.sub_diag. reflexivity. Qed.

(* ---------- heap primitives ---------- *)

Definition narr (h : heap) : nat := List.length (h_arrays h).
Definition nobj (h : heap) : nat := List.length (h_objs h).

Lemma alloc_array_spec h l :
  let h' := fst (alloc_array h l) in
  snd (alloc_array h l) = narr h /\ narr h' = S (narr h) /\ h_objs h' = h_objs h /\
  get_array h' (narr h) = l /\ forall a, (a < narr h)%nat -> get_array h' a = get_array h a.
Proof.
  unfold alloc_array, get_array, narr; cbn. repeat split.
  - rewrite app_length; cbn; lia.
  - apply nth_snoc_eq.
  - intros a Ha. apply nth_snoc_lt; auto.
Qed.

Lemma write_prefix_spec h a l :
  (a < narr h)%nat ->
  let h' := write_prefix h a l in
  narr h' = narr h /\ h_objs h' = h_objs h /\
  firstn (List.length l) (get_array h' a) = l /\
  forall b, b <> a -> get_array h' b = get_array h b.
Proof.
  unfold write_prefix, get_array, narr; cbn. intros Ha. repeat split.
  - apply set_nth_length.
  - rewrite nth_set_nth_eq by auto. apply firstn_app_exact.
  - intros b Hb. apply nth_set_nth_neq; auto.
Qed.

Lemma data_nodes_eta d : set_nodes (set_meta d (d_meta d)) (d_nodes d) = d.
Proof. destruct d; reflexivity. Qed.

(* ---------- store_list ---------- *)

Section Store.
  Variable spare : nat -> nat.

  Lemma store_list_spec h s m l h' s' :
    store_list spare h s m l = (h', s') ->
    (sl_addr s < narr h)%nat ->
    (m = WInPlace -> List.length l = sl_len s) ->
    read_slice h' s' = (match m with WNone => read_slice h s | _ => l end) /\
    h_objs h' = h_objs h /\ (narr h <= narr h')%nat /\ (sl_addr s' < narr h')%nat /\
    (sl_addr s' = sl_addr s \/ (narr h <= sl_addr s')%nat) /\
    (forall a, (a < narr h)%nat -> a <> sl_addr s -> get_array h' a = get_array h a).
  Proof.
    intros E Ha Hl. destruct m; cbn [store_list] in E.
    - inversion E; subst. repeat split; auto.
    - inversion E; subst. destruct (write_prefix_spec h (sl_addr s') l Ha) as (A & B & C & D).
      unfold read_slice. rewrite <- (Hl eq_refl). repeat split; auto; try lia; try (intros; apply D; auto).
    - destruct (sl_len s <? _)%nat.
      + inversion E; subst. destruct (write_prefix_spec h (sl_addr s) l Ha) as (A & B & C & D).
        unfold read_slice; cbn [sl_addr sl_len]. repeat split; auto; try lia; try (intros; apply D; auto).
      + destruct (alloc_array_spec h (l ++ repeat zero_node (spare (sl_len s)))) as (A & B & C & D & F).
        destruct (alloc_array h _) as [h1 a1]; cbn [fst snd] in *. inversion E; subst.
        unfold read_slice; cbn [sl_addr sl_len]. rewrite D, firstn_app_exact. repeat split; auto; try lia.
    - destruct (alloc_array_spec h (l ++ repeat zero_node (spare (List.length l)))) as (A & B & C & D & F).
      destruct (alloc_array h _) as [h1 a1]; cbn [fst snd] in *. inversion E; subst.
      unfold read_slice; cbn [sl_addr sl_len]. rewrite D, firstn_app_exact. repeat split; auto; try lia.
  Qed.
End Store.

(* ---------- commands that do not write a node list leave it alone ---------- *)

Ltac dm H :=
  repeat match type of H with
         | (if ?b then _ else _) = _ => destruct b eqn:?
         | match ?x with _ => _ end = _ => destruct x eqn:?
         end; try discriminate; try (inversion H; subst; clear H).

Ltac fin :=
  cbn [d_meta d_nodes set_meta set_nodes set_max_node set_dbs set_users set_cluster set_group_counters upd_db];
  repeat match goal with |- context [if ?b then _ else _] => destruct b end; auto.

Lemma create_database_nodes d n d' : create_database d n = Ok d' -> d_meta d' = d_meta d /\ d_nodes d' = d_nodes d.
Proof. unfold create_database. intros H. dm H; auto. Qed.

Lemma create_rp_nodes d dbn n rep dur sgd df d' :
  create_rp d dbn n rep dur sgd df = Ok d' -> d_meta d' = d_meta d /\ d_nodes d' = d_nodes d.
Proof. unfold create_rp. intros H. dm H; auto. Qed.

Lemma update_rp_nodes d dbn n nn dur rep sgd df d' :
  update_rp d dbn n nn dur rep sgd df = Ok d' -> d_meta d' = d_meta d /\ d_nodes d' = d_nodes d.
Proof.
  unfold update_rp. intros H.
  destruct (find_db d dbn); [|discriminate]. destruct (db_rp _ n); [|discriminate].
  destruct (match nn with Some _ => _ | None => _ end); [discriminate|].
  destruct (match dur with Some _ => _ | None => false end); [discriminate|].
  destruct (match dur with Some _ => _ | None => _ end); [discriminate|].
  inversion H; subst. auto.
Qed.

Lemma upd_group_of_shard_nodes d id f :
  d_meta (upd_group_of_shard d id f) = d_meta d /\ d_nodes (upd_group_of_shard d id f) = d_nodes d.
Proof. unfold upd_group_of_shard. destruct (upd_first_opt _ _); auto. Qed.

Lemma set_cluster_nodes d r :
  d_meta (set_cluster_if_unset d r) = d_meta d /\ d_nodes (set_cluster_if_unset d r) = d_nodes d.
Proof. unfold set_cluster_if_unset. destruct (_ =? 0); auto. Qed.

Lemma create_meta_node_nodes d h t d' : create_meta_node d h t = Ok d' -> d_nodes d' = d_nodes d.
Proof. unfold create_meta_node. intros H. dm H; fin. Qed.

Lemma exec_keeps_meta auto ex d c d' :
  meta_mode d c = WNone -> exec auto ex d c = Ok d' -> d_meta d' = d_meta d.
Proof.
  intros M H. destruct c; cbn [exec meta_mode] in *; try discriminate.
  - inversion H; auto.
  - destruct (create_database d name) as [d1|] eqn:E1; [|discriminate].
    destruct (create_database_nodes _ _ _ E1) as [A _]. rewrite <- A.
    destruct rp as [[[[rn rrep] rdur] rsgd]|].
    + destruct (create_rp d1 name rn rrep rdur rsgd true) as [d2|e] eqn:E2.
      * inversion H; subst. apply (create_rp_nodes _ _ _ _ _ _ _ _ E2).
      * destruct e; discriminate.
    + destruct auto; [apply (create_rp_nodes _ _ _ _ _ _ _ _ H)|inversion H; auto].
  - inversion H; subst. unfold drop_database. destruct (find_db d name); auto.
  - apply (create_rp_nodes _ _ _ _ _ _ _ _ H).
  - inversion H; auto.
  - apply (update_rp_nodes _ _ _ _ _ _ _ _ _ H).
  - unfold create_shard_group in H. dm H; auto.
  - unfold delete_shard_group in H. dm H; auto.
  - unfold create_cq in H. dm H; auto.
  - inversion H; auto.
  - unfold create_sub in H. dm H; auto.
  - unfold drop_sub in H. dm H; auto.
  - unfold create_user in H. dm H; auto.
  - unfold drop_user in H. dm H; auto.
  - unfold update_user in H. dm H; auto.
  - unfold set_privilege in H. dm H; auto.
  - unfold set_admin_privilege in H. dm H; auto.
  - (* CreateMetaNode: only reached when create_meta_node fails *)
    destruct (create_meta_node d http tcp); [discriminate|]. inversion H; subst. apply set_cluster_nodes.
  - (* SetMetaNode *)
    inversion H; subst. unfold set_meta_node. destruct (d_meta d) as [|n0 [|n1 t]] eqn:Em; try discriminate.
    + destruct (create_meta_node d http tcp); [discriminate|]. rewrite (proj1 (set_cluster_nodes _ _)); auto.
    + rewrite (proj1 (set_cluster_nodes _ _)); auto.
  - unfold create_data_node in H. dm H; fin.
  - unfold delete_data_node in H. dm H; fin.
  - unfold update_data_node in H. dm H; fin.
  - inversion H; subst. apply upd_group_of_shard_nodes.
  - inversion H; auto.
  - inversion H; auto.
  - dm H. apply upd_group_of_shard_nodes.
  - inversion H; subst. apply upd_group_of_shard_nodes.
Qed.

Lemma exec_keeps_nodes auto ex d c d' :
  nodes_mode c = WNone -> exec auto ex d c = Ok d' -> d_nodes d' = d_nodes d.
Proof.
  intros M H. destruct c; cbn [exec nodes_mode] in *; try discriminate.
  - inversion H; auto.
  - destruct (create_database d name) as [d1|] eqn:E1; [|discriminate].
    destruct (create_database_nodes _ _ _ E1) as [_ A]. rewrite <- A.
    destruct rp as [[[[rn rrep] rdur] rsgd]|].
    + destruct (create_rp d1 name rn rrep rdur rsgd true) as [d2|e] eqn:E2.
      * inversion H; subst. apply (create_rp_nodes _ _ _ _ _ _ _ _ E2).
      * destruct e; discriminate.
    + destruct auto; [apply (create_rp_nodes _ _ _ _ _ _ _ _ H)|inversion H; auto].
  - inversion H; subst. unfold drop_database. destruct (find_db d name); auto.
  - apply (create_rp_nodes _ _ _ _ _ _ _ _ H).
  - inversion H; auto.
  - apply (update_rp_nodes _ _ _ _ _ _ _ _ _ H).
  - unfold create_shard_group in H. dm H; auto.
  - unfold delete_shard_group in H. dm H; auto.
  - unfold create_cq in H. dm H; auto.
  - inversion H; auto.
  - unfold create_sub in H. dm H; auto.
  - unfold drop_sub in H. dm H; auto.
  - unfold create_user in H. dm H; auto.
  - unfold drop_user in H. dm H; auto.
  - unfold update_user in H. dm H; auto.
  - unfold set_privilege in H. dm H; auto.
  - unfold set_admin_privilege in H. dm H; auto.
  - inversion H; subst. rewrite (proj2 (set_cluster_nodes _ _)).
    destruct (create_meta_node d http tcp) eqn:E; auto. apply (create_meta_node_nodes _ _ _ _ E).
  - unfold delete_meta_node in H. dm H; auto.
  - inversion H; subst. rewrite (proj2 (set_cluster_nodes _ _)).
    destruct (set_meta_node d http tcp) eqn:E; auto. unfold set_meta_node in E.
    destruct (d_meta d) as [|n0 [|n1 t]]; [apply (create_meta_node_nodes _ _ _ _ E)|inversion E; auto|discriminate].
  - inversion H; subst. apply upd_group_of_shard_nodes.
  - inversion H; auto.
  - inversion H; auto.
  - dm H. apply upd_group_of_shard_nodes.
  - inversion H; subst. apply upd_group_of_shard_nodes.
Qed.

(* lists written in place keep their length *)
Lemma meta_inplace_length auto ex d c d' :
  meta_mode d c = WInPlace -> exec auto ex d c = Ok d' -> List.length (d_meta d') = List.length (d_meta d).
Proof.
  intros M H. destruct c; cbn [exec meta_mode] in *; try discriminate.
  - destruct (create_meta_node d http tcp); discriminate.
  - inversion H; subst. rewrite (proj1 (set_cluster_nodes _ _)). unfold set_meta_node.
    destruct (d_meta d) as [|n0 [|n1 t]] eqn:Em; try discriminate.
    + destruct (create_meta_node d http tcp); discriminate.
    + reflexivity.
Qed.

Lemma nodes_inplace_length auto ex d c d' :
  nodes_mode c = WInPlace -> exec auto ex d c = Ok d' -> List.length (d_nodes d') = List.length (d_nodes d).
Proof.
  intros M H. destruct c; cbn [exec nodes_mode] in *; try discriminate.
  unfold update_data_node in H. dm H. cbn. apply upd_first_length.
Qed.

(* ---------- well-formed machine states ---------- *)

Record fsm_ok (f : fsm) : Prop := {
  ok_cur : (f_cur f < nobj (f_heap f))%nat;
  ok_slices : forall q, (q < nobj (f_heap f))%nat ->
              (sl_addr (o_meta (get_obj (f_heap f) q)) < narr (f_heap f))%nat /\
              (sl_addr (o_nodes (get_obj (f_heap f) q)) < narr (f_heap f))%nat
}.

Lemma init_fsm_ok : fsm_ok init_fsm.
Proof.
  constructor; cbn; [lia|]. intros [|q] Hq; cbn in *; [lia|lia].
Qed.

Lemma hread_init : hread (f_heap init_fsm) (f_cur init_fsm) = init_data.
Proof. reflexivity. Qed.

(* h' extends h: everything h had, except the object [ex] (if any), reads the same *)
Record extends (ex : option nat) (h h' : heap) : Prop := {
  ext_narr : (narr h <= narr h')%nat;
  ext_nobj : (nobj h <= nobj h')%nat;
  ext_arr : forall a, (a < narr h)%nat -> get_array h' a = get_array h a;
  ext_obj : forall q, (q < nobj h)%nat -> Some q <> ex -> get_obj h' q = get_obj h q
}.

Lemma extends_refl ex h : extends ex h h.
Proof. constructor; auto. Qed.

Lemma extends_trans ex h1 h2 h3 : extends ex h1 h2 -> extends ex h2 h3 -> extends ex h1 h3.
Proof.
  intros [A1 B1 C1 D1] [A2 B2 C2 D2]. constructor; try lia.
  - intros a Ha. rewrite C2 by lia. auto.
  - intros q Hq Hne. rewrite D2 by (auto; lia). auto.
Qed.

Lemma extends_weaken h h' ex : extends None h h' -> extends ex h h'.
Proof. intros [A B C D]. constructor; auto. intros q Hq _. apply D; auto. discriminate. Qed.

Lemma extends_hread ex h h' q :
  extends ex h h' -> (q < nobj h)%nat -> Some q <> ex ->
  (sl_addr (o_meta (get_obj h q)) < narr h)%nat -> (sl_addr (o_nodes (get_obj h q)) < narr h)%nat ->
  hread h' q = hread h q.
Proof.
  intros [A B C D] Hq Hne H1 H2. unfold hread, read_slice. rewrite D by auto. rewrite !C by auto. reflexivity.
Qed.

(* ---------- Clone (deep) ---------- *)

Lemma hclone_deep_spec h p :
  let h' := fst (hclone true h p) in
  let p' := snd (hclone true h p) in
  let o := get_obj h p in
  p' = nobj h /\ nobj h' = S (nobj h) /\ narr h' = S (S (narr h)) /\
  extends None h h' /\
  get_obj h' p' = Ho (o_rest o) (Sl (narr h) (List.length (read_slice h (o_meta o))))
                     (Sl (S (narr h)) (List.length (read_slice h (o_nodes o)))) /\
  get_array h' (narr h) = read_slice h (o_meta o) /\
  get_array h' (S (narr h)) = read_slice h (o_nodes o) /\
  hread h' p' = hread h p.
Proof.
  cbn zeta. unfold hclone.
  set (o := get_obj h p). set (lm := read_slice h (o_meta o)). set (ln := read_slice h (o_nodes o)).
  unfold alloc_array, alloc_obj; cbn [fst snd h_arrays h_objs].
  assert (G1 : get_array (Hp ((h_arrays h ++ [lm]) ++ [ln]) (h_objs h ++ [Ho (o_rest o) (Sl (narr h) (List.length lm)) (Sl (List.length (h_arrays h ++ [lm])) (List.length ln))])) (narr h) = lm).
  { unfold get_array, narr; cbn. rewrite nth_snoc_lt by (rewrite app_length; cbn; lia). apply nth_snoc_eq. }
  assert (EL : List.length (h_arrays h ++ [lm]) = S (narr h)) by (unfold narr; rewrite app_length; cbn; lia).
  rewrite EL in *.
  assert (G2 : get_array (Hp ((h_arrays h ++ [lm]) ++ [ln]) (h_objs h ++ [Ho (o_rest o) (Sl (narr h) (List.length lm)) (Sl (S (narr h)) (List.length ln))])) (S (narr h)) = ln).
  { unfold get_array; cbn. rewrite <- EL. apply nth_snoc_eq. }
  assert (GO : get_obj (Hp ((h_arrays h ++ [lm]) ++ [ln]) (h_objs h ++ [Ho (o_rest o) (Sl (narr h) (List.length lm)) (Sl (S (narr h)) (List.length ln))])) (nobj h) =
               Ho (o_rest o) (Sl (narr h) (List.length lm)) (Sl (S (narr h)) (List.length ln))).
  { unfold get_obj, nobj; cbn. apply nth_snoc_eq. }
  fold (narr h). fold (nobj h).
  repeat split; auto.
  - unfold nobj; cbn. rewrite app_length; cbn; lia.
  - unfold narr; cbn. rewrite !app_length; cbn; lia.
  - unfold narr; cbn. rewrite !app_length; cbn; lia.
  - unfold nobj; cbn. rewrite app_length; cbn; lia.
  - intros a Ha. unfold get_array, narr in *; cbn. rewrite !nth_snoc_lt; auto. rewrite app_length; cbn; lia.
  - intros q Hq _. unfold get_obj, nobj in *; cbn. apply nth_snoc_lt; auto.
  - unfold hread at 1. rewrite GO. cbn [o_rest o_meta o_nodes]. unfold read_slice at 1 2. cbn [sl_addr sl_len].
    rewrite G1, G2, !firstn_all. reflexivity.
Qed.

(* ---------- one apply function on the clone ---------- *)

Section Exec.
  Variable spare : nat -> nat.

  (* h: heap right after a deep clone that sits at p with its two exactly-sized arrays at A, A+1 *)
  Lemma hexec_clone_spec auto ex h p c A v :
    (p < nobj h)%nat -> narr h = S (S A) ->
    o_meta (get_obj h p) = Sl A (List.length (d_meta v)) ->
    o_nodes (get_obj h p) = Sl (S A) (List.length (d_nodes v)) ->
    get_array h A = d_meta v -> get_array h (S A) = d_nodes v ->
    hread h p = v ->
    let h' := fst (hexec spare auto ex h p c) in
    let e := snd (hexec spare auto ex h p c) in
    match exec auto ex v c with
    | Er er => h' = h /\ e = er
    | Ok d' =>
        e = ENone /\ hread h' p = d' /\ nobj h' = nobj h /\ (narr h <= narr h')%nat /\
        (forall a, (a < A)%nat -> get_array h' a = get_array h a) /\
        (forall q, q <> p -> get_obj h' q = get_obj h q) /\
        (sl_addr (o_meta (get_obj h' p)) < narr h')%nat /\ (sl_addr (o_nodes (get_obj h' p)) < narr h')%nat
    end.
  Proof.
    intros Hp Hn Hm Hnd Gm Gn Hv. cbn zeta. unfold hexec. rewrite Hv.
    destruct (exec auto ex v c) as [d'|er] eqn:E; [|cbn; auto].
    rewrite Hm, Hnd.
    destruct (store_list spare h (Sl A (List.length (d_meta v))) (meta_mode v c) (d_meta d')) as [h1 sm] eqn:S1.
    assert (L1 : meta_mode v c = WInPlace -> List.length (d_meta d') = List.length (d_meta v))
      by (intros M; eapply meta_inplace_length; eauto).
    pose proof (store_list_spec spare _ _ _ _ _ _ S1) as X1. cbn [sl_addr sl_len] in X1.
    specialize (X1 ltac:(lia) L1). destruct X1 as (R1 & O1 & N1 & B1 & W1 & F1).
    destruct (store_list spare h1 (Sl (S A) (List.length (d_nodes v))) (nodes_mode c) (d_nodes d')) as [h2 sn] eqn:S2.
    assert (L2 : nodes_mode c = WInPlace -> List.length (d_nodes d') = List.length (d_nodes v))
      by (intros M; eapply nodes_inplace_length; eauto).
    pose proof (store_list_spec spare _ _ _ _ _ _ S2) as X2. cbn [sl_addr sl_len] in X2.
    specialize (X2 ltac:(lia) L2). destruct X2 as (R2 & O2 & N2 & B2 & W2 & F2).
    cbn [fst snd].
    assert (Hp2 : (p < List.length (h_objs h2))%nat) by (rewrite O2, O1; exact Hp).
    assert (GO : get_obj (set_obj h2 p (Ho d' sm sn)) p = Ho d' sm sn).
    { unfold get_obj, set_obj; cbn. apply nth_set_nth_eq; auto. }
    (* what the two slices read at the end *)
    assert (Rm : read_slice h2 sm = d_meta d').
    { assert (X : read_slice h2 sm = read_slice h1 sm).
      { unfold read_slice. rewrite F2; auto. destruct W1 as [W1|W1]; lia. }
      rewrite X, R1. destruct (meta_mode v c) eqn:M; auto.
      unfold read_slice; cbn [sl_addr sl_len]. rewrite Gm, firstn_all. symmetry. eapply exec_keeps_meta; eauto. }
    assert (Rn : read_slice h2 sn = d_nodes d').
    { rewrite R2. destruct (nodes_mode c) eqn:M; auto.
      unfold read_slice; cbn [sl_addr sl_len]. rewrite F1 by lia. rewrite Gn, firstn_all.
      symmetry. eapply exec_keeps_nodes; eauto. }
    repeat split.
    - unfold hread. rewrite GO. cbn [o_rest o_meta o_nodes].
      change (read_slice (set_obj h2 p (Ho d' sm sn)) sm) with (read_slice h2 sm).
      change (read_slice (set_obj h2 p (Ho d' sm sn)) sn) with (read_slice h2 sn).
      rewrite Rm, Rn. apply data_nodes_eta.
    - unfold nobj, set_obj; cbn. rewrite set_nth_length, O2, O1. reflexivity.
    - unfold narr, set_obj in *; cbn. lia.
    - intros a Ha. change (get_array (set_obj h2 p (Ho d' sm sn)) a) with (get_array h2 a).
      rewrite F2 by lia. apply F1; lia.
    - intros q Hq. unfold get_obj, set_obj; cbn. rewrite nth_set_nth_neq by auto. rewrite O2, O1. reflexivity.
    - rewrite GO. cbn. unfold narr, set_obj in *; cbn. destruct W1 as [W1|W1]; lia.
    - rewrite GO. cbn. unfold narr, set_obj in *; cbn. lia.
  Qed.

  (* ---------- storeFSM.Apply with the repaired Clone ---------- *)

  Lemma hstamp_spec h p idx term :
    (p < nobj h)%nat ->
    let h' := hstamp h p idx term in
    hread h' p = stamp (hread h p) idx term /\ nobj h' = nobj h /\ narr h' = narr h /\
    (forall a, get_array h' a = get_array h a) /\
    (forall q, q <> p -> get_obj h' q = get_obj h q) /\
    o_meta (get_obj h' p) = o_meta (get_obj h p) /\ o_nodes (get_obj h' p) = o_nodes (get_obj h p).
  Proof.
    intros Hp. cbn zeta. unfold hstamp.
    assert (GO : get_obj (set_obj h p (Ho (stamp (o_rest (get_obj h p)) idx term) (o_meta (get_obj h p)) (o_nodes (get_obj h p)))) p =
                 Ho (stamp (o_rest (get_obj h p)) idx term) (o_meta (get_obj h p)) (o_nodes (get_obj h p))).
    { unfold get_obj at 1, set_obj; cbn. apply nth_set_nth_eq; auto. }
    repeat split.
    - unfold hread. rewrite GO. cbn [o_rest o_meta o_nodes]. reflexivity.
    - unfold nobj, set_obj; cbn. apply set_nth_length.
    - intros q Hq. unfold get_obj, set_obj; cbn. apply nth_set_nth_neq; auto.
    - rewrite GO; reflexivity.
    - rewrite GO; reflexivity.
  Qed.

  (* stamping the current object in place *)
  Lemma stamp_cur_spec h cur idx term :
    fsm_ok (Fs h cur) ->
    let h' := hstamp h cur idx term in
    fsm_ok (Fs h' cur) /\ hread h' cur = stamp (hread h cur) idx term /\ extends (Some cur) h h'.
  Proof.
    intros [Hc Hs]. cbn [f_heap f_cur] in *. cbn zeta.
    destruct (hstamp_spec h cur idx term Hc) as (A & B & C & D & F & G1 & G2).
    split; [|split]; auto.
    - constructor; cbn [f_heap f_cur]; [lia|]. intros q Hq. rewrite B in Hq. rewrite C.
      destruct (Nat.eq_dec q cur) as [->|Hne]; [rewrite G1, G2|rewrite F by auto]; apply Hs; auto.
    - constructor; try lia; auto; try (intros q Hq Hne; apply F; congruence).
  Qed.

  (* Clone keeps the machine well-formed and changes nothing that existed *)
  Lemma clone_ok f :
    fsm_ok f ->
    let h1 := fst (hclone true (f_heap f) (f_cur f)) in
    let p := snd (hclone true (f_heap f) (f_cur f)) in
    fsm_ok (Fs h1 (f_cur f)) /\ extends None (f_heap f) h1 /\ p = nobj (f_heap f) /\
    nobj h1 = S (nobj (f_heap f)) /\ hread h1 p = hread (f_heap f) (f_cur f).
  Proof.
    intros [Hc Hs]. cbn zeta.
    destruct (hclone_deep_spec (f_heap f) (f_cur f)) as (P1 & P2 & P3 & P4 & P5 & P6 & P7 & P8).
    split; [|split; [exact P4|split; [exact P1|split; [exact P2|exact P8]]]].
    constructor; cbn [f_heap f_cur]; [lia|].
    intros q Hq. rewrite P2 in Hq. destruct (Nat.eq_dec q (nobj (f_heap f))) as [->|Hne].
    - rewrite <- P1, P5. cbn [o_meta o_nodes sl_addr]. lia.
    - destruct P4 as [Q1 Q2 Q3 Q4]. rewrite Q4 by (try lia; discriminate). destruct (Hs q ltac:(lia)). lia.
  Qed.

  (* the body of every apply function except applyRemovePeerCommand *)
  Notation hstep_generic := (happly_clone spare true).

  Definition step_post (f : fsm) (r : fsm * err) (a : data * err) : Prop :=
    fsm_ok (fst r) /\
    hread (f_heap (fst r)) (f_cur (fst r)) = fst a /\ snd r = snd a /\
    extends (Some (f_cur f)) (f_heap f) (f_heap (fst r)) /\
    (f_cur (fst r) = f_cur f \/ (nobj (f_heap f) <= f_cur (fst r))%nat).

  Lemma hstep_generic_spec auto ex f c idx term :
    fsm_ok f ->
    step_post f (hstep_generic auto ex f c idx term) (apply auto ex (hread (f_heap f) (f_cur f)) idx term c).
  Proof.
    intros Hok. pose proof Hok as [Hc Hs]. unfold happly_clone, apply, step_post.
    destruct (clone_ok f Hok) as (K1 & K2 & K3 & K4 & K5).
    destruct (hclone_deep_spec (f_heap f) (f_cur f)) as (P1 & P2 & P3 & P4 & P5 & P6 & P7 & P8).
    destruct (hclone true (f_heap f) (f_cur f)) as [h1 p] eqn:EC; cbn [fst snd] in *.
    set (v := hread (f_heap f) (f_cur f)) in *.
    assert (Lm : read_slice (f_heap f) (o_meta (get_obj (f_heap f) (f_cur f))) = d_meta v) by reflexivity.
    assert (Ln : read_slice (f_heap f) (o_nodes (get_obj (f_heap f) (f_cur f))) = d_nodes v) by reflexivity.
    rewrite Lm, Ln in *.
    pose proof (hexec_clone_spec auto ex h1 p c (narr (f_heap f)) v) as X.
    rewrite P5 in X; cbn [o_meta o_nodes] in X.
    specialize (X ltac:(lia) P3 eq_refl eq_refl P6 P7 P8); cbn zeta in X.
    destruct (hexec spare auto ex h1 p c) as [h2 er] eqn:EX; cbn [fst snd] in X.
    destruct (exec auto ex v c) as [d'|er'] eqn:EE.
    - (* success: the clone is installed and stamped *)
      destruct X as (X1 & X2 & X3 & X4 & X5 & X6 & X7 & X8). subst er. cbn [fst snd].
      assert (OK2 : fsm_ok (Fs h2 p)).
      { constructor; cbn [f_heap f_cur]; [lia|]. intros q Hq. rewrite X3 in Hq.
        destruct (Nat.eq_dec q p) as [->|Hne]; [split; assumption|].
        rewrite X6 by auto. destruct K1 as [_ K1]. cbn [f_heap f_cur] in K1. destruct (K1 q Hq). lia. }
      destruct (stamp_cur_spec h2 p idx term OK2) as (S1 & S2 & S3).
      split; [exact S1|]. cbn [f_heap f_cur]. split; [rewrite S2, X2; reflexivity|]. split; [reflexivity|].
      split; [|right; lia].
      destruct K2 as [Q1 Q2 Q3 Q4]. destruct S3 as [T1 T2 T3 T4].
      constructor; try lia.
      + intros a Ha. rewrite T3 by lia. rewrite X5 by lia. apply Q3; auto.
      + intros q Hq Hne. rewrite T4 by (try lia; intros Hx; inversion Hx; lia).
        rewrite X6 by lia. apply Q4; auto. discriminate.
    - (* rejected: the clone is garbage, the current object is stamped *)
      destruct X as [X1 X2]. subst h2 er.
      assert (Hne : er' <> ENone) by (intros ->; eapply exec_err_not_none; eauto).
      destruct (stamp_cur_spec h1 (f_cur f) idx term K1) as (S1 & S2 & S3).
      assert (R : hread h1 (f_cur f) = v).
      { apply (extends_hread None (f_heap f)); auto; try discriminate; apply Hs; auto. }
      destruct er'; try congruence; cbn [fst snd f_heap f_cur];
        (split; [exact S1|]; split; [rewrite S2, R; reflexivity|]; split; [reflexivity|]; split; [|left; reflexivity];
         eapply extends_trans; [apply extends_weaken; exact K2|exact S3]).
  Qed.
End Exec.

(* ---------- schedules ---------- *)

(* the values of the metadata at the Snapshot()/store.snapshot() events of a schedule *)
Fixpoint taken_values (auto : bool) (d : data) (evs : list hevent) : list data :=
  match evs with
  | [] => []
  | HApply e ex :: t => taken_values auto (fst (apply auto ex d (e_idx e) (e_term e) (e_cmd e))) t
  | _ :: t => d :: taken_values auto d t
  end.

Definition is_take (ev : hevent) : bool := match ev with HApply _ _ => false | _ => true end.
Definition count_takes (evs : list hevent) : nat := List.length (filter is_take evs).

Lemma taken_values_app auto a : forall d b,
  taken_values auto d (a ++ b) = taken_values auto d a ++ taken_values auto (run_events auto d a) b.
Proof. induction a as [|ev a IH]; cbn; intros d b; auto. destruct ev; cbn; rewrite IH; reflexivity. Qed.

Lemma taken_values_length auto a : forall d, List.length (taken_values auto d a) = count_takes a.
Proof. unfold count_takes. induction a as [|ev a IH]; cbn; intros d; auto. destruct ev; cbn; rewrite IH; reflexivity. Qed.

Section Run.
  Variable spare : nat -> nat.

  Lemma happly_spec auto ex f e :
    fsm_ok f ->
    step_post f (happly spare true auto ex f e)
              (apply auto ex (hread (f_heap f) (f_cur f)) (e_idx e) (e_term e) (e_cmd e)).
  Proof.
    intros Hok. unfold happly. destruct (e_cmd e) eqn:Ec; try (apply hstep_generic_spec; exact Hok).
    destruct f as [h cur]. cbn [f_heap f_cur] in *.
    destruct (stamp_cur_spec spare h cur (e_idx e) (e_term e) Hok) as (S1 & S2 & S3).
    unfold step_post, apply; cbn [exec fst snd f_heap f_cur].
    split; [exact S1|split; [exact S2|split; [reflexivity|split; [exact S3|left; reflexivity]]]].
  Qed.

  Definition handle_ok (f : fsm) (p : nat) : Prop := (p < nobj (f_heap f))%nat /\ p <> f_cur f.

  Lemma handle_step f f' p :
    fsm_ok f -> handle_ok f p ->
    extends (Some (f_cur f)) (f_heap f) (f_heap f') ->
    (f_cur f' = f_cur f \/ (nobj (f_heap f) <= f_cur f')%nat) ->
    handle_ok f' p /\ hread (f_heap f') p = hread (f_heap f) p.
  Proof.
    intros [Hc Hs] [Hp Hne] E Hcur. split; [split|].
    - destruct E as [_ B _ _]. lia.
    - destruct Hcur as [->|Hcur]; [auto|lia].
    - destruct (Hs p Hp). apply (extends_hread (Some (f_cur f))); auto. congruence.
  Qed.

  (* Snapshot() / store.snapshot() with the repaired code: a deep clone *)
  Lemma take_spec f :
    fsm_ok f ->
    let f1 := fst (hpublish true f) in
    let p := snd (hpublish true f) in
    fsm_ok f1 /\ f_cur f1 = f_cur f /\ extends None (f_heap f) (f_heap f1) /\
    handle_ok f1 p /\ hread (f_heap f1) p = hread (f_heap f) (f_cur f).
  Proof.
    intros Hok. cbn zeta. unfold hpublish.
    destruct (clone_ok spare f Hok) as (K1 & K2 & K3 & K4 & K5).
    destruct (hclone true (f_heap f) (f_cur f)) as [h1 p]; cbn [fst snd f_heap f_cur] in *.
    split; [exact K1|]. split; [reflexivity|]. split; [exact K2|]. split; [|exact K5].
    destruct Hok as [Hc _]. split; cbn [f_heap f_cur]; lia.
  Qed.

  Lemma hsnapshot_is_publish f : hsnapshot true true f = hpublish true f.
  Proof. reflexivity. Qed.

  Lemma hrun_spec auto evs : forall f taken,
    fsm_ok f -> Forall (handle_ok f) taken ->
    let r := hrun spare true true auto f taken evs in
    fsm_ok (fst r) /\
    hread (f_heap (fst r)) (f_cur (fst r)) = run_events auto (hread (f_heap f) (f_cur f)) evs /\
    map (hread (f_heap (fst r))) (snd r) =
      map (hread (f_heap f)) taken ++ taken_values auto (hread (f_heap f) (f_cur f)) evs.
  Proof.
    induction evs as [|ev evs IH]; intros f taken Hok Ht; cbn zeta.
    - cbn. rewrite app_nil_r. auto.
    - assert (TAKE : forall r0, r0 = hpublish true f ->
                let r := hrun spare true true auto (fst r0) (taken ++ [snd r0]) evs in
                fsm_ok (fst r) /\
                hread (f_heap (fst r)) (f_cur (fst r)) = run_events auto (hread (f_heap f) (f_cur f)) evs /\
                map (hread (f_heap (fst r))) (snd r) =
                  map (hread (f_heap f)) taken ++ hread (f_heap f) (f_cur f) :: taken_values auto (hread (f_heap f) (f_cur f)) evs).
      { intros r0 ->. cbn zeta. destruct (take_spec f Hok) as (T1 & T2 & T3 & T4 & T5).
        set (f1 := fst (hpublish true f)) in *. set (p := snd (hpublish true f)) in *.
        assert (Ht1 : Forall (handle_ok f1) (taken ++ [p])).
        { apply Forall_app. split; [|constructor; auto].
          rewrite Forall_forall in *. intros q Hq. destruct (Ht q Hq) as [A B]. split.
          - destruct T3 as [_ T3 _ _]. lia.
          - rewrite T2. exact B. }
        destruct (IH f1 (taken ++ [p]) T1 Ht1) as (I1 & I2 & I3). cbn zeta in *.
        assert (Ecur : hread (f_heap f1) (f_cur f1) = hread (f_heap f) (f_cur f)).
        { rewrite T2. destruct Hok as [Hc Hs]. destruct (Hs _ Hc).
          apply (extends_hread None); auto. discriminate. }
        split; [exact I1|]. split; [rewrite I2, Ecur; reflexivity|].
        rewrite I3, Ecur, map_app. cbn [map]. rewrite T5, <- app_assoc. cbn [app]. f_equal.
        apply map_ext_in. intros q Hq. rewrite Forall_forall in Ht. destruct (Ht q Hq) as [A B].
        destruct Hok as [Hc Hs]. destruct (Hs q A). apply (extends_hread None); auto. discriminate. }
      destruct ev as [e ex| |].
      + cbn [hrun run_events taken_values].
        destruct (happly_spec auto ex f e Hok) as (S1 & S2 & S3 & S4 & S5).
        set (f1 := fst (happly spare true auto ex f e)) in *.
        assert (Ht1 : Forall (handle_ok f1) taken).
        { rewrite Forall_forall in *. intros q Hq. apply (handle_step f f1 q Hok (Ht q Hq) S4 S5). }
        destruct (IH f1 taken S1 Ht1) as (I1 & I2 & I3). cbn zeta in *.
        split; [exact I1|]. split; [rewrite I2, S2; reflexivity|].
        rewrite I3, S2. f_equal. apply map_ext_in. intros q Hq. rewrite Forall_forall in Ht.
        apply (handle_step f f1 q Hok (Ht q Hq) S4 S5).
      + cbn [hrun run_events taken_values]. rewrite hsnapshot_is_publish.
        specialize (TAKE (hpublish true f) eq_refl). destruct (hpublish true f) as [f1 p]. exact TAKE.
      + cbn [hrun run_events taken_values].
        specialize (TAKE (hpublish true f) eq_refl). destruct (hpublish true f) as [f1 p]. exact TAKE.
  Qed.

  (* the value read through the pointer taken after [evs1], at any later time (after [evs2]),
     is the metadata value after [evs1]: it does not depend on [evs2] *)
  Theorem taken_value_frozen auto evs1 take evs2 :
    is_take take = true ->
    let r := hrun spare true true auto init_fsm [] (evs1 ++ take :: evs2) in
    nth_error (map (hread (f_heap (fst r))) (snd r)) (count_takes evs1) = Some (run_events auto init_data evs1).
  Proof.
    intros Htake. cbn zeta.
    destruct (hrun_spec auto (evs1 ++ take :: evs2) init_fsm [] init_fsm_ok (Forall_nil _)) as (_ & _ & H).
    rewrite H. cbn [map app]. rewrite hread_init, taken_values_app.
    rewrite nth_error_app2 by (rewrite taken_values_length; lia).
    rewrite taken_values_length, Nat.sub_diag. destruct take; cbn in *; try discriminate; reflexivity.
  Qed.

  Theorem run_refines auto evs :
    let r := hrun spare true true auto init_fsm [] evs in
    hread (f_heap (fst r)) (f_cur (fst r)) = run_events auto init_data evs.
  Proof.
    cbn zeta. destruct (hrun_spec auto evs init_fsm [] init_fsm_ok (Forall_nil _)) as (_ & H & _).
    rewrite H, hread_init. reflexivity.
  Qed.
End Run.

(* ---------- the code before the repairs ---------- *)

Definition w_node := En 2 1 (CCreateDataNode "h1:8086" "h1:8088").
Definition w_update := En 3 1 (CUpdateDataNode 1 "x:8086" "x:8088").

(* Clone shares the node arrays: a value handed to a client changes when a later command
   assigns through the shared slice *)
Lemma shallow_clone_refuted :
  let evs := [HApply w_node []; HPublish; HApply w_update []] in
  let r := hrun (fun n => n) false true false init_fsm [] evs in
  map (hread (f_heap (fst r))) (snd r) <> taken_values false init_data evs.
Proof. vm_compute. discriminate. Qed.

(* the same for a pending raft snapshot, even if Snapshot() clones *)
Lemma shallow_clone_snapshot_refuted :
  let evs := [HApply w_node []; HSnapshot; HApply w_update []] in
  let r := hrun (fun n => n) false true false init_fsm [] evs in
  map (hread (f_heap (fst r))) (snd r) <> taken_values false init_data evs.
Proof. vm_compute. discriminate. Qed.

(* Snapshot() does not clone: a rejected command restamps Term/Index of the pending snapshot *)
Lemma snapshot_noclone_refuted :
  let evs := [HApply w_node []; HSnapshot; HApply (En 3 1 (CCreateDataNode "h1:8086" "h1:8088")) []] in
  let r := hrun (fun n => n) true false false init_fsm [] evs in
  map (hread (f_heap (fst r))) (snd r) <> taken_values false init_data evs.
Proof. vm_compute. discriminate. Qed.
