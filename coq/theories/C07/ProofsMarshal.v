(* C07/ProofsMarshal.v — Data.unmarshal (Data.marshal d) = d for every d with wf d. *)
From Verif Require Import C06.Model C07.Model.
From Coq Require Import Lia.
From Coq Require Import ZifyBool ZifyNat ZifyN.
Open Scope N_scope.

Lemma wrap_i64_id z : in_i64 z = true -> wrap_i64 z = z.
Proof.
  unfold in_i64, wrap_i64, min_i64, max_i64. intros H.
  rewrite Z.mod_small; lia.
Qed.

Lemma wrap_i32_id z : in_i32 z = true -> wrap_i32 z = z.
Proof. unfold in_i32, wrap_i32. intros H. rewrite Z.mod_small; lia. Qed.

Lemma wrap_u32_id n : n <? 4294967296 = true -> wrap_u32 n = n.
Proof. unfold wrap_u32. intros H. apply N.mod_small. lia. Qed.

Lemma u_time0_id i : u_time0 i = i.
Proof. unfold u_time0. destruct (i =? 0)%Z eqn:E; lia. Qed.

Lemma map_map_id {A B} (f : B -> A) (g : A -> B) l :
  (forall x, In x l -> f (g x) = x) -> map f (map g l) = l.
Proof.
  induction l as [|a t IH]; cbn; intros H; auto. rewrite H by auto. rewrite IH; auto.
Qed.

Lemma node_rt n : u_node (m_node n) = n.
Proof. destruct n; reflexivity. Qed.

Lemma shard_rt s : u_shard (m_shard s) = s.
Proof.
  destruct s as [id ow]. unfold u_shard, m_shard; cbn. f_equal.
  apply map_map_id. intros; reflexivity.
Qed.

Section RT.
  Variable dat : N -> Z.
  Hypothesis Hdat : forall id, m_time (dat id) <> 0%Z.

  Lemma group_rt g : wf_group g = true -> u_group (m_group dat g) = g.
  Proof.
    destruct g as [id st en del tr sh]. unfold wf_group, u_group, u_group_with, m_group; cbn.
    intros H. apply andb_true_iff in H. destruct H as [H Ht]. apply andb_true_iff in H. destruct H as [Hs He].
    unfold m_time. rewrite !u_time0_id, (wrap_i64_id _ Hs), (wrap_i64_id _ He).
    f_equal.
    - destruct del; cbn.
      + specialize (Hdat id). unfold m_time in Hdat. destruct (wrap_i64 (dat id) =? 0)%Z eqn:E; auto. lia.
      + reflexivity.
    - destruct tr as [t|]; auto. rewrite (wrap_i64_id _ Ht). reflexivity.
    - apply map_map_id. intros; apply shard_rt.
  Qed.

  Lemma sub_rt s : u_sub (m_sub s) = s.
  Proof. destruct s; reflexivity. Qed.
  Lemma cq_rt c : u_cq (m_cq c) = c.
  Proof. destruct c; reflexivity. Qed.

  Lemma policy_rt bnd r : wf_policy bnd r = true -> u_policy_with true (m_policy dat r) = r.
  Proof.
    destruct r as [nm rep du sg gs ss]. unfold wf_policy, u_policy_with, m_policy; cbn.
    intros H. repeat (apply andb_true_iff in H; destruct H as [H ?]).
    rewrite (wrap_u32_id _ H). f_equal.
    - apply map_map_id. intros g Hg. apply group_rt.
      match goal with Hf : forallb wf_group _ = true |- _ => rewrite forallb_forall in Hf; auto end.
    - apply map_map_id. intros; apply sub_rt.
  Qed.

  Lemma database_rt bnd x : wf_database bnd x = true -> u_database_with true (m_database dat x) = x.
  Proof.
    destruct x as [nm df rs cs]. unfold wf_database, u_database_with, m_database; cbn. intros H. f_equal.
    - apply map_map_id. intros r Hr. apply (policy_rt bnd). rewrite forallb_forall in H; auto.
    - apply map_map_id. intros; apply cq_rt.
  Qed.
End RT.

(* the privilege map: one assignment per entry into an empty map *)
Definition has_key (k : string) (m : list (string * Z)) : bool :=
  existsb (fun kv' => String.eqb (fst kv') k) m.

Lemma priv_set_new k v m : has_key k m = false -> priv_set k v m = m ++ [(k, v)].
Proof.
  induction m as [|[k' v'] t IH]; cbn; intros H; auto.
  apply orb_false_iff in H. destruct H as [H1 H2]. rewrite H1. rewrite IH; auto.
Qed.

Lemma has_key_app k a b : has_key k (a ++ b) = has_key k a || has_key k b.
Proof. unfold has_key. apply existsb_app. Qed.

Lemma un_privs_acc l : forall acc,
  forallb (fun kv => in_i32 (snd kv)) l = true -> nodup_keys l = true ->
  (forall kv, In kv l -> has_key (fst kv) acc = false) ->
  fold_left (fun m p => priv_set (getS (ppv_db p)) (getZ (ppv_priv p)) m) (map m_priv l) acc = acc ++ l.
Proof.
  induction l as [|[k v] t IH]; cbn [map fold_left forallb nodup_keys]; intros acc Hr Hn Hd.
  - rewrite app_nil_r. reflexivity.
  - apply andb_true_iff in Hr. destruct Hr as [Hv Hr]. apply andb_true_iff in Hn. destruct Hn as [Hk Hn].
    cbn [m_priv ppv_db ppv_priv getS getZ fst snd] in *.
    rewrite (wrap_i32_id _ Hv). rewrite priv_set_new by (apply (Hd (k, v)); left; reflexivity).
    rewrite IH; auto.
    + rewrite <- app_assoc. reflexivity.
    + intros [k2 v2] Hi. cbn [fst]. rewrite has_key_app.
      pose proof (Hd (k2, v2) (or_intror Hi)) as Hx. cbn [fst] in Hx. rewrite Hx. cbn.
      rewrite orb_false_r. apply negb_true_iff in Hk.
      (* k2 is a key of t, k is not *)
      destruct (String.eqb k k2) eqn:E; auto. apply String.eqb_eq in E. subst k2.
      exfalso. assert (X : existsb (fun kv' : string * Z => String.eqb (fst kv') k) t = true).
      { apply existsb_exists. exists (k, v2). split; auto. cbn. apply String.eqb_refl. }
      congruence.
Qed.

Lemma privs_rt l :
  forallb (fun kv => in_i32 (snd kv)) l = true -> nodup_keys l = true -> un_privs (map m_priv l) = l.
Proof.
  intros Hr Hn. unfold un_privs. rewrite un_privs_acc; auto.
Qed.

Lemma user_rt u : wf_user u = true -> u_user (m_user u) = u.
Proof.
  destruct u as [nm hs ad pv]. unfold wf_user; cbn [u_privs]. intros H.
  apply andb_true_iff in H. destruct H as [H1 H2]. unfold u_user, m_user.
  cbn [pu_name pu_hash pu_admin pu_privs getS getB u_name u_hash u_admin u_privs].
  rewrite privs_rt; auto.
Qed.

(* unmarshal (marshal d) = d, for every d satisfying the representation predicate; [dat] are
   the replica's deletion stamps, none of which is the Unix epoch *)
Theorem marshal_roundtrip dat bnd d :
  (forall id, m_time (dat id) <> 0%Z) -> wf bnd d = true -> unmarshal (marshal dat d) = d.
Proof.
  intros Hdat H. destruct d as [tm ix cl me ns dbs us ad mn mg ms].
  unfold wf in H; cbn in H. apply andb_true_iff in H. destruct H as [H Ha].
  apply andb_true_iff in H. destruct H as [Hd Hu].
  unfold unmarshal, unmarshal_with, marshal; cbn.
  assert (Eu : map u_user (map m_user us) = us).
  { apply map_map_id. intros u Hi. apply user_rt. rewrite forallb_forall in Hu; auto. }
  rewrite Eu. apply Bool.eqb_prop in Ha. rewrite <- Ha.
  f_equal.
  - apply map_map_id. intros; apply node_rt.
  - apply map_map_id. intros; apply node_rt.
  - apply map_map_id. intros x Hx. apply (database_rt dat Hdat bnd). rewrite forallb_forall in Hd; auto.
Qed.

(* the stamps of the image are those of the deleted groups *)
Definition data_stamps (dat : N -> Z) (d : data) : list (N * Z) :=
  flat_map (fun x => flat_map (fun r => flat_map (fun g =>
     if g_deleted g then [(g_id g, m_time (dat (g_id g)))] else []) (rp_groups r)) (db_rps x)) (d_dbs d).

Lemma flat_map_map_ {A B C} (f : B -> list C) (g : A -> B) l : flat_map f (map g l) = flat_map (fun x => f (g x)) l.
Proof. induction l; cbn; auto. rewrite IHl. reflexivity. Qed.

Lemma flat_map_ext_ {A B} (f g : A -> list B) l : (forall x, f x = g x) -> flat_map f l = flat_map g l.
Proof. intros H. induction l; cbn; auto. rewrite H, IHl. reflexivity. Qed.

Lemma image_stamps dat d :
  (forall id, m_time (dat id) <> 0%Z) -> pdata_stamps (marshal dat d) = data_stamps dat d.
Proof.
  intros Hdat. unfold pdata_stamps, data_stamps, marshal; cbn.
  rewrite flat_map_map_. apply flat_map_ext_. intros x. cbn.
  rewrite flat_map_map_. apply flat_map_ext_. intros r. cbn.
  rewrite flat_map_map_. apply flat_map_ext_. intros g. cbn.
  destruct (g_deleted g); cbn; auto.
  specialize (Hdat (g_id g)). destruct (m_time (dat (g_id g)) =? 0)%Z eqn:E; auto. lia.
Qed.

(* ---------- the unrepaired unmarshal and the conversions that are not injective ---------- *)

(* before the fix: a group truncated at the Unix epoch comes back as not truncated *)
Lemma unmarshal_unpatched_trunc_refuted :
  exists d, wf max_i64 d = true /\ unmarshal_with false (marshal (fun _ => 1%Z) d) <> d.
Proof.
  exists (Dt 0 1 0 [] [] [Db "db0" "rp0" [Rp "rp0" 1 0 3600000000000 [Gr 1 0 3600000000000 false (Some 0%Z) [Sh 1 [1]]] []] []] [] false 1 1 1).
  split; [vm_compute; reflexivity|]. vm_compute. discriminate.
Qed.

(* without wf: a shard group whose StartTime lies before the int64 nanosecond range is not
   restored (CreateShardGroup produced such groups for timestamps near MinInt64 until fix
   78b5206 clamped the start) *)
Lemma marshal_roundtrip_unrestricted_refuted :
  exists d, unmarshal (marshal (fun _ => 1%Z) d) <> d.
Proof.
  exists (Dt 0 1 0 [] [] [Db "db0" "rp0" [Rp "rp0" 1 0 604800000000000 [Gr 1 (-9223372800000000000) (-9222768000000000000) false None [Sh 1 [1]]] []] []] [] false 1 1 1).
  vm_compute. discriminate.
Qed.
