(* C07/ProofsPersist.v — storeFSMSnapshot.Persist under write faults (model: C07/Persist.v). *)
From Verif Require Import C06.Model C06.Eqb C06.Proofs.
From Verif Require Import C07.Model C07.Spec C07.Persist C07.PersistSpec C07.ProofsMarshal C07.ProofsWf C07.Proofs.
From Coq Require Import Lia.
Open Scope N_scope.

(* ---------- the sink protocol ---------- *)

(* the first of Close / Cancel decides; afterwards nothing changes the sink *)
Lemma sink_close_final s : is_open s = false -> sink_close s = (s, false).
Proof. destruct s as [b st w c]. destruct st; cbn; intros H; try discriminate; reflexivity. Qed.
Lemma sink_cancel_final s : is_open s = false -> sink_cancel s = s.
Proof. destruct s as [b st w c]. destruct st; cbn; intros H; try discriminate; reflexivity. Qed.
Lemma sink_write_final s p : is_open s = false -> sink_write s p = (s, 0, true).
Proof. destruct s as [b st w c]. destruct st; cbn; intros H; try discriminate; reflexivity. Qed.

(* committed iff Close ran, without fault, on the open sink *)
Lemma sink_close_committed s : committed (fst (sink_close s)) = committed s || (is_open s && negb (sk_cfault s)).
Proof. destruct s as [b st w c]. destruct st; cbn; try reflexivity. destruct c; reflexivity. Qed.
Lemma sink_cancel_committed s : committed (sink_cancel s) = committed s.
Proof. destruct s as [b st w c]. destruct st; reflexivity. Qed.
Lemma sink_write_committed s p : committed (fst (fst (sink_write s p))) = committed s.
Proof. destruct s as [b st w c]. destruct st; cbn; try reflexivity. destruct w as [|[k|] t]; reflexivity. Qed.

(* ---------- Persist ---------- *)

(* the two ways Persist can end on an open sink *)
Lemma persist_to_open m s : is_open s = true ->
  match persist_to m s with
  | (s', tr, err) =>
      (err = false /\ committed s' = true /\ is_open s' = false /\ trace_faulted tr = false /\
       exists p, m = Some p /\ sk_buf s' = sk_buf s ++ p) \/
      (err = true /\ committed s' = false /\ is_open s' = false /\ (m = None \/ trace_faulted tr = true))
  end.
Proof.
  destruct s as [b st w c]. destruct st; cbn; intros H; try discriminate.
  destruct m as [p|]; cbn.
  - destruct w as [|[k|] t]; cbn.
    + destruct c; cbn.
      * right. repeat split; auto.
      * left. repeat split; auto. exists p. split; reflexivity.
    + right. repeat split; auto.
    + destruct c; cbn.
      * right. repeat split; auto.
      * left. repeat split; auto. exists p. split; reflexivity.
  - right. repeat split; auto.
Qed.

Theorem persist_commits_only_complete_images m s s' tr err :
  is_open s = true -> persist_to m s = (s', tr, err) -> committed s' = true ->
  err = false /\ exists p, m = Some p /\ sk_buf s' = sk_buf s ++ p.
Proof.
  intros Ho E Hc. pose proof (persist_to_open m s Ho) as H. rewrite E in H.
  destruct H as [(A & _ & _ & _ & B)|(_ & B & _)]; [split; assumption|congruence].
Qed.

Theorem failed_persist_leaves_no_snapshot m s s' tr :
  is_open s = true -> persist_to m s = (s', tr, true) -> committed s' = false.
Proof.
  intros Ho E. pose proof (persist_to_open m s Ho) as H. rewrite E in H.
  destruct H as [(A & _)|(_ & B & _)]; [discriminate|assumption].
Qed.

Theorem persist_completes p s s' tr err :
  is_open s = true -> no_faults s = true -> persist_to (Some p) s = (s', tr, err) ->
  err = false /\ committed s' = true /\ sk_buf s' = sk_buf s ++ p /\
  tr = [KWrite (blen p) (blen p) false; KClose false].
Proof.
  destruct s as [b st w c]. destruct st; cbn; intros Ho Hn E; try discriminate.
  unfold no_faults in Hn; cbn in Hn. apply andb_true_iff in Hn. destruct Hn as [Hw Hc].
  destruct c; [discriminate|].
  destruct w as [|[k|] t]; cbn in *; try discriminate; inversion E; subst; repeat split; reflexivity.
Qed.

(* ---------- raft's takeSnapshot around Persist ---------- *)

Lemma take_snapshot_open m s : is_open s = true ->
  match take_snapshot m s with
  | (s', tr, err) =>
      (err = false /\ committed s' = true /\ trace_faulted tr = false /\
       snd (persist_to m s) = false /\ committed (fst (fst (persist_to m s))) = true /\
       exists p, m = Some p /\ sk_buf s' = sk_buf s ++ p) \/
      (err = true /\ committed s' = false /\ (m = None \/ trace_faulted tr = true) /\
       snd (persist_to m s) = true /\ committed (fst (fst (persist_to m s))) = false)
  end.
Proof.
  intros Ho. pose proof (persist_to_open m s Ho) as H. unfold take_snapshot.
  destruct (persist_to m s) as [[s1 tr1] e1]. cbn [fst snd].
  destruct H as [(A & B & C & D & p & E & F)|(A & B & C & D)]; subst e1.
  - rewrite (sink_close_final s1 C). left. repeat split; auto.
    + unfold trace_faulted in *. rewrite existsb_app, D. reflexivity.
    + exists p. split; assumption.
  - rewrite (sink_cancel_final s1 C). right. repeat split; auto.
    destruct D as [D|D]; [left; exact D|right]. unfold trace_faulted in *. rewrite existsb_app, D. reflexivity.
Qed.

Theorem snapshot_commits_only_complete_images m s s' tr err :
  is_open s = true -> take_snapshot m s = (s', tr, err) -> committed s' = true ->
  err = false /\ snd (persist_to m s) = false /\ exists p, m = Some p /\ sk_buf s' = sk_buf s ++ p.
Proof.
  intros Ho E Hc. pose proof (take_snapshot_open m s Ho) as H. rewrite E in H.
  destruct H as [(A & _ & _ & B & _ & C)|(_ & B & _)]; [repeat split; assumption|congruence].
Qed.

Theorem failed_snapshot_leaves_no_snapshot m s s' tr :
  is_open s = true -> take_snapshot m s = (s', tr, true) -> committed s' = false.
Proof.
  intros Ho E. pose proof (take_snapshot_open m s Ho) as H. rewrite E in H.
  destruct H as [(A & _)|(_ & B & _)]; [discriminate|assumption].
Qed.

(* an error of Persist is an error of the attempt *)
Theorem persist_error_fails_snapshot m s :
  is_open s = true -> snd (persist_to m s) = true ->
  snd (take_snapshot m s) = true /\ committed (fst (fst (take_snapshot m s))) = false.
Proof.
  intros Ho E. pose proof (take_snapshot_open m s Ho) as H.
  destruct (take_snapshot m s) as [[s' tr] err]. cbn [fst snd].
  destruct H as [(_ & _ & _ & B & _)|(A & B & _)]; [congruence|split; assumption].
Qed.

Theorem snapshot_completes p s s' tr err :
  is_open s = true -> no_faults s = true -> take_snapshot (Some p) s = (s', tr, err) ->
  err = false /\ committed s' = true /\ sk_buf s' = sk_buf s ++ p /\
  tr = [KWrite (blen p) (blen p) false; KClose false; KClose false].
Proof.
  intros Ho Hn E. unfold take_snapshot in E.
  destruct (persist_to (Some p) s) as [[s1 tr1] e1] eqn:P.
  destruct (persist_completes p s s1 tr1 e1 Ho Hn P) as (A & B & C & D). subst e1 tr1.
  assert (O : is_open s1 = false) by (unfold committed in B; unfold is_open; destruct (sk_st s1); congruence).
  rewrite (sink_close_final s1 O) in E. inversion E; subst. repeat split; auto.
Qed.

(* the faults that matter: if no call at the sink failed and MarshalBinary gave an image, the
   snapshot is there *)
Theorem unfaulted_snapshot_commits p s s' tr err :
  is_open s = true -> take_snapshot (Some p) s = (s', tr, err) -> trace_faulted tr = false ->
  err = false /\ committed s' = true.
Proof.
  intros Ho E Hf. pose proof (take_snapshot_open (Some p) s Ho) as H. rewrite E in H.
  destruct H as [(A & B & _)|(_ & _ & [C|C] & _)]; [split; assumption|discriminate|congruence].
Qed.

(* ---------- restoring any committed snapshot gives the snapshotted value ---------- *)

Section Restore.
  Variable proto_marshal : pdata -> list N.
  Variable proto_unmarshal : list N -> option pdata.
  Hypothesis proto_roundtrip : forall p, proto_unmarshal (proto_marshal p) = Some p.

  (* Data.MarshalBinary: [mfail] = proto.Marshal returned an error *)
  Definition marshal_binary (mfail : bool) (dat : N -> Z) (d : data) : option (list N) :=
    if mfail then None else Some (persist (list N) proto_marshal dat d).

  Theorem committed_snapshot_restores bnd dat d mfail wfl cf s' tr err :
    stamps_ok dat -> wf bnd d = true ->
    take_snapshot (marshal_binary mfail dat d) (fresh_sink wfl cf) = (s', tr, err) ->
    committed s' = true ->
    restore (list N) proto_unmarshal (sk_buf s') = Some d.
  Proof.
    intros Hs Hw E Hc.
    destruct (snapshot_commits_only_complete_images _ (fresh_sink wfl cf) _ _ _ eq_refl E Hc) as (_ & _ & p & Hm & Hb).
    unfold marshal_binary in Hm. destruct mfail; [discriminate|]. inversion Hm; subst p.
    cbn in Hb. rewrite Hb. unfold restore, persist. rewrite proto_roundtrip. cbn.
    rewrite (marshal_roundtrip dat bnd d Hs Hw). reflexivity.
  Qed.

  (* the same right after Persist returned (before raft's epilogue) *)
  Theorem committed_persist_restores bnd dat d mfail wfl cf s' tr err :
    stamps_ok dat -> wf bnd d = true ->
    persist_to (marshal_binary mfail dat d) (fresh_sink wfl cf) = (s', tr, err) ->
    committed s' = true ->
    restore (list N) proto_unmarshal (sk_buf s') = Some d.
  Proof.
    intros Hs Hw E Hc.
    destruct (persist_commits_only_complete_images _ (fresh_sink wfl cf) _ _ _ eq_refl E Hc) as (_ & p & Hm & Hb).
    unfold marshal_binary in Hm. destruct mfail; [discriminate|]. inversion Hm; subst p.
    cbn in Hb. rewrite Hb. unfold restore, persist. rewrite proto_roundtrip. cbn.
    rewrite (marshal_roundtrip dat bnd d Hs Hw). reflexivity.
  Qed.

  (* for the metadata any command log leads to, snapshotted after any further commands *)
  Theorem reachable_snapshot_restores bnd auto orc log dat mfail wfl cf s' tr err :
    bnd_ok bnd -> log_ok bnd log -> stamps_ok dat ->
    take_snapshot (marshal_binary mfail dat (run auto orc log)) (fresh_sink wfl cf) = (s', tr, err) ->
    committed s' = true ->
    restore (list N) proto_unmarshal (sk_buf s') = Some (run auto orc log).
  Proof.
    intros Hb L Hs E Hc. apply (committed_snapshot_restores bnd dat _ mfail wfl cf s' tr err); auto.
    apply run_wf; auto.
  Qed.

  (* ---------- the link: the model passes the executable spec on every input ---------- *)

  (* what the harness would observe of the model *)
  Definition model_pfobs (dat : N -> Z) (d : data) (mfail : bool) (wfl : list (option N)) (cf prior : bool) : pfobs :=
    let m := marshal_binary mfail dat d in
    let r1 := persist_to m (fresh_sink wfl cf) in
    let r2 := take_snapshot m (fresh_sink wfl cf) in
    let s2 := fst (fst r2) in
    PF (trace_faulted (snd (fst r2)) || mfail)
       (match m with Some p => p | None => [] end)
       (snd r1) (committed (fst (fst r1))) (committed s2) (sk_buf s2)
       d (data_stamps dat d)
       (if committed s2
        then option_map (fun p => (unmarshal p, pdata_stamps p)) (proto_unmarshal (sk_buf s2))
        else None)
       prior (newest_after prior s2).

  Theorem model_satisfies_persist_spec bnd dat d mfail wfl cf prior :
    stamps_ok dat -> wf bnd d = true ->
    persist_spec (model_pfobs dat d mfail wfl cf prior) = true.
  Proof.
    intros Hs Hw. unfold model_pfobs, persist_spec.
    cbn [pf_faulted pf_image pf_err pf_c1 pf_c2 pf_held pf_taken pf_stamps_t pf_restored pf_prior pf_newest].
    set (m := marshal_binary mfail dat d).
    pose proof (take_snapshot_open m (fresh_sink wfl cf) eq_refl) as H.
    destruct (take_snapshot m (fresh_sink wfl cf)) as [[s2 tr] err]. cbn [fst snd].
    destruct H as [(A & B & C & D & E & p & Hm & Hb)|(A & B & C & D & E)].
    - rewrite D, E, B, C. unfold newest_after. rewrite B. cbn [negb orb andb].
      unfold m, marshal_binary in Hm. destruct mfail; [discriminate|]. inversion Hm; subst p. clear Hm.
      cbn in Hb. unfold m, marshal_binary. rewrite Hb. unfold persist. rewrite proto_roundtrip. cbn [option_map].
      rewrite (marshal_roundtrip dat bnd d Hs Hw), (image_stamps dat d Hs), data_eqb_refl.
      rewrite !list_eqb_refl_; [reflexivity| |].
      + intros [a b]. unfold stamp_eqb; cbn. rewrite N.eqb_refl, Z.eqb_refl. reflexivity.
      + intros x. apply N.eqb_refl.
    - rewrite D, E, B. unfold newest_after. rewrite B. cbn [negb orb andb].
      assert (F : trace_faulted tr || mfail = true).
      { destruct C as [C|C]; [|rewrite C; reflexivity].
        unfold m, marshal_binary in C. destruct mfail; [apply orb_true_r|discriminate]. }
      rewrite F. destruct prior; reflexivity.
  Qed.
End Restore.

(* ---------- the code with Close deferred (seeded mutant C07-7), refuted ---------- *)

(* "defer sink.Close()" at the head of the closure: Close runs when the closure returns, before
   the Cancel of the epilogue *)
Definition persist_deferred_close (m : option (list N)) (s : sink) : sink * bool :=
  let r := match m with
           | None => (s, true)
           | Some p => match sink_write s p with
                       | (s1, _, true) => (s1, true)
                       | (s1, _, false) => sink_close s1
                       end
           end in
  let s' := fst (sink_close (fst r)) in                       (* the deferred call *)
  if snd r then (sink_cancel s', true) else (s', false).

Theorem deferred_close_commits_truncated_image_refuted :
  let r := persist_deferred_close (Some [1; 2; 3; 4]) (fresh_sink [Some 2] false) in
  snd r = true /\ committed (fst r) = true /\ sk_buf (fst r) = [1; 2].
Proof. vm_compute. repeat split; reflexivity. Qed.

(* ---------- non-vacuity ---------- *)

(* disk full after 2 of 4 bytes: error, cancelled, nothing committed *)
Example ex_write_fault :
  take_snapshot (Some [1; 2; 3; 4]) (fresh_sink [Some 2] false) =
  (Sk [1; 2] SCancelled [] false, [KWrite 4 2 true; KCancel; KCancel], true).
Proof. reflexivity. Qed.

(* all bytes taken and then an error: still nothing committed *)
Example ex_write_fault_at_end :
  take_snapshot (Some [1; 2; 3; 4]) (fresh_sink [Some 9] false) =
  (Sk [1; 2; 3; 4] SCancelled [] false, [KWrite 4 4 true; KCancel; KCancel], true).
Proof. reflexivity. Qed.

Example ex_close_fault :
  take_snapshot (Some [1; 2; 3; 4]) (fresh_sink [] true) =
  (Sk [1; 2; 3; 4] SFailed [] true, [KWrite 4 4 false; KClose true; KCancel; KCancel], true).
Proof. reflexivity. Qed.

Example ex_marshal_fault :
  take_snapshot None (fresh_sink [] false) = (Sk [] SCancelled [] false, [KCancel; KCancel], true).
Proof. reflexivity. Qed.

Example ex_no_fault :
  take_snapshot (Some [1; 2; 3; 4]) (fresh_sink [None] false) =
  (Sk [1; 2; 3; 4] SCommitted [] false, [KWrite 4 4 false; KClose false; KClose false], false).
Proof. reflexivity. Qed.
