(* C07/Persist.v — persistence of an FSM snapshot under write faults.  Definitions only.

   1. raft.SnapshotSink as raft's FileSnapshotSink implements it (hashicorp/raft v1.3.11,
      file_snapshot.go; the store services/meta/raft_state.go opens), as a state machine:

        Write(p)   appends to the state file (through a buffer).  A write fault is planted per
                   Write call: [None] = all of p is taken, [Some k] = min(k, len p) bytes are
                   taken and an error is returned (disk full, I/O error: io.Writer's contract
                   is n < len(p) => err != nil; an error with n = len(p) is allowed too).
        Close()    "if s.closed { return nil }; s.closed = true": the FIRST of Close / Cancel
                   decides.  On an open sink Close finalises (flush, fsync, size + CRC into
                   meta.json) and renames the directory out of ".tmp": from then on List()
                   shows the snapshot and a restart restores it = COMMITTED.  If finalisation
                   fails ([sk_cfault]) the temporary directory is removed and the error
                   returned: nothing is committed.  On a closed or cancelled sink Close is a
                   no-op returning nil.
        Cancel()   on an open sink: closes the file and removes the temporary directory; on a
                   closed or cancelled sink a no-op ("Cancel after Close is a no-op").
      Not modelled: a Close that fails AFTER the rename (fsync of the parent directory, reaping
      of older snapshots) returns an error although the complete snapshot is in place; Cancel's
      own error (the ".tmp" directory stays; List() ignores it).  InmemSnapshotSink
      (inmem_snapshot.go) has no commit protocol at all (Close and Cancel return nil, the store
      shows the sink from Create on); the meta service never uses it.

   2. storeFSMSnapshot.Persist (services/meta/store_fsm.go), statement by statement, over
      the result of Data.MarshalBinary ([None] = it returned an error) and a sink with planted
      faults; and the three statements of Raft.takeSnapshot (hashicorp/raft) around it (snapshot.go:
      Persist; on error sink.Cancel(); otherwise sink.Close()).

   Every function also returns the calls it made at the sink, in order: the harness records
   the same trace on the real code. *)
From Coq Require Import List NArith Bool.
Import ListNotations.
Open Scope N_scope.

Definition blen (p : list N) : N := N.of_nat (List.length p).
Definition btake (k : N) (p : list N) : list N := firstn (N.to_nat k) p.

Inductive sstatus :=
| SOpen
| SCommitted      (* Close finalised and renamed: List()/Open() give the snapshot *)
| SFailed         (* Close ran and its finalisation failed: temporary directory removed *)
| SCancelled.     (* Cancel ran first: temporary directory removed *)

Record sink := Sk { sk_buf : list N;                   (* the bytes the sink has taken *)
                    sk_st : sstatus;
                    sk_wfaults : list (option N);      (* one entry per Write call still to come; [] = no more faults *)
                    sk_cfault : bool }.                (* the finalisation in Close fails *)

(* what FileSnapshotStore.Create returns *)
Definition fresh_sink (wf : list (option N)) (cf : bool) : sink := Sk [] SOpen wf cf.
Definition committed (s : sink) : bool := match sk_st s with SCommitted => true | _ => false end.
Definition is_open (s : sink) : bool := match sk_st s with SOpen => true | _ => false end.

(* calls observed at the sink *)
Inductive call :=
| KWrite (len n : N) (err : bool)     (* Write(p) with len(p) = len returned (n, err) *)
| KClose (err : bool)
| KCancel.

(* (n, err) of sink.Write(p) *)
Definition sink_write (s : sink) (p : list N) : sink * N * bool :=
  match sk_st s with
  | SOpen =>
      match sk_wfaults s with
      | Some k :: t => let n := N.min k (blen p) in
                       (Sk (sk_buf s ++ btake n p) SOpen t (sk_cfault s), n, true)
      | None :: t => (Sk (sk_buf s ++ p) SOpen t (sk_cfault s), blen p, false)
      | [] => (Sk (sk_buf s ++ p) SOpen [] (sk_cfault s), blen p, false)
      end
  | _ => (s, 0, true)                 (* the state file is closed *)
  end.

(* err of sink.Close() *)
Definition sink_close (s : sink) : sink * bool :=
  match sk_st s with
  | SOpen => if sk_cfault s then (Sk (sk_buf s) SFailed (sk_wfaults s) (sk_cfault s), true)
             else (Sk (sk_buf s) SCommitted (sk_wfaults s) (sk_cfault s), false)
  | _ => (s, false)                   (* if s.closed { return nil } *)
  end.

(* sink.Cancel(); callers ignore its result *)
Definition sink_cancel (s : sink) : sink :=
  match sk_st s with
  | SOpen => Sk (sk_buf s) SCancelled (sk_wfaults s) (sk_cfault s)
  | _ => s                            (* if s.closed { return nil } *)
  end.

(* func (s *storeFSMSnapshot) Persist(sink raft.SnapshotSink) error: the inner closure *)
Definition persist_inner (m : option (list N)) (s : sink) : sink * list call * bool :=
  match m with
  | None => (s, [], true)                                          (* p, err := s.Data.MarshalBinary(); if err != nil { return err } *)
  | Some p =>
      match sink_write s p with                                    (* if _, err := sink.Write(p); err != nil { return err } *)
      | (s1, n, true) => (s1, [KWrite (blen p) n true], true)
      | (s1, n, false) =>
          match sink_close s1 with                                 (* if err := sink.Close(); err != nil { return err } *)
          | (s2, true) => (s2, [KWrite (blen p) n false; KClose true], true)
          | (s2, false) => (s2, [KWrite (blen p) n false; KClose false], false)   (* return nil *)
          end
      end
  end.

(* ... and its epilogue: if err != nil { sink.Cancel(); return err }; return nil.
   Result: the sink, the calls made, whether Persist returned an error *)
Definition persist_to (m : option (list N)) (s : sink) : sink * list call * bool :=
  match persist_inner m s with
  | (s1, tr, true) => (sink_cancel s1, tr ++ [KCancel], true)
  | (s1, tr, false) => (s1, tr, false)
  end.

(* Raft.takeSnapshot (hashicorp/raft) around it:
     if err := snapReq.snapshot.Persist(sink); err != nil { sink.Cancel(); return ... }
     if err := sink.Close(); err != nil { return ... }
   Result: the sink a restart finds, all calls, whether raft reports the snapshot as failed *)
Definition take_snapshot (m : option (list N)) (s : sink) : sink * list call * bool :=
  match persist_to m s with
  | (s1, tr, true) => (sink_cancel s1, tr ++ [KCancel], true)
  | (s1, tr, false) => match sink_close s1 with (s2, e) => (s2, tr ++ [KClose e], e) end
  end.

(* some call at the sink was made to fail *)
Definition call_failed (c : call) : bool :=
  match c with KWrite _ _ e => e | KClose e => e | KCancel => false end.
Definition trace_faulted (tr : list call) : bool := existsb call_failed tr.

(* no fault is planted in the sink *)
Definition no_faults (s : sink) : bool :=
  forallb (fun o => match o with None => true | Some _ => false end) (sk_wfaults s) && negb (sk_cfault s).

(* the snapshot a restart finds in a store that held [prior] (the newest snapshot before) and
   was given the sink [s]: 2 = the new one, 1 = the prior one, 0 = none *)
Definition newest_after (prior : bool) (s : sink) : N :=
  if committed s then 2 else if prior then 1 else 0.
