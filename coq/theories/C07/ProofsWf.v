(* C07/ProofsWf.v — the representation predicate [wf] holds initially and is preserved by
   every command whose arguments satisfy [cmd_ok]. *)
From Verif Require Import C06.Model C06.ListLemmas C06.Inv C06.ProofsCmd C06.ProofsCreate C07.Model.
From VerifGen Require Import Consts.
From Coq Require Import Lia.
From Coq Require Import ZifyBool ZifyNat ZifyN.
Open Scope N_scope.

(* ---------- forallb through the list operations of the model ---------- *)

Section Fb.
  Context {A : Type}.
  Variable P : A -> bool.

  Lemma fb_upd_first p f l :
    forallb P l = true -> (forall x, P x = true -> P (f x) = true) -> forallb P (upd_first p f l) = true.
  Proof.
    intros H Hf. induction l as [|a t IH]; cbn in *; auto.
    apply andb_true_iff in H. destruct H as [Ha Ht]. destruct (p a); cbn; rewrite ?Ha, ?Ht, ?Hf, ?IH; auto.
  Qed.

  Lemma fb_remove_first p l : forallb P l = true -> forallb P (remove_first p l) = true.
  Proof.
    intros H. induction l as [|a t IH]; cbn in *; auto.
    apply andb_true_iff in H. destruct H as [Ha Ht]. destruct (p a); cbn; rewrite ?Ha, ?IH; auto.
  Qed.

  Lemma fb_filter p l : forallb P l = true -> forallb P (filter p l) = true.
  Proof.
    intros H. induction l as [|a t IH]; cbn in *; auto.
    apply andb_true_iff in H. destruct H as [Ha Ht]. destruct (p a); cbn; rewrite ?Ha, ?IH; auto.
  Qed.

  Lemma fb_snoc l x : forallb P l = true -> P x = true -> forallb P (l ++ [x]) = true.
  Proof. intros H Hx. rewrite forallb_app, H; cbn. rewrite Hx. reflexivity. Qed.

  Lemma fb_map f l : forallb P l = true -> (forall x, P x = true -> P (f x) = true) -> forallb P (map f l) = true.
  Proof.
    intros H Hf. induction l as [|a t IH]; cbn in *; auto.
    apply andb_true_iff in H. destruct H as [Ha Ht]. rewrite Hf, IH; auto.
  Qed.

  Lemma fb_upd_first_opt f l l' :
    upd_first_opt f l = Some l' -> forallb P l = true ->
    (forall x y, f x = Some y -> P x = true -> P y = true) -> forallb P l' = true.
  Proof.
    intros E H Hf. revert l' E. induction l as [|a t IH]; cbn in *; intros l' E; [discriminate|].
    apply andb_true_iff in H. destruct H as [Ha Ht].
    destruct (f a) as [y|] eqn:Ef.
    - inversion E; subst. cbn. rewrite (Hf _ _ Ef Ha), Ht. reflexivity.
    - destruct (upd_first_opt f t) as [t'|]; [|discriminate]. inversion E; subst. cbn.
      rewrite Ha, (IH Ht t' eq_refl). reflexivity.
  Qed.

  Lemma fb_map_opt {B} (Q : B -> bool) (f : B -> option A) l l' :
    map_opt f l = Some l' -> forallb Q l = true ->
    (forall x y, f x = Some y -> Q x = true -> P y = true) -> forallb P l' = true.
  Proof.
    intros E H Hf. revert l' E. induction l as [|a t IH]; cbn in *; intros l' E.
    - inversion E; reflexivity.
    - apply andb_true_iff in H. destruct H as [Ha Ht].
      destruct (f a) as [y|] eqn:Ef; [|discriminate].
      destruct (map_opt f t) as [t'|]; [|discriminate]. inversion E; subst. cbn.
      rewrite (Hf _ _ Ef Ha), (IH Ht t' eq_refl). reflexivity.
  Qed.
End Fb.

Lemma fb_insert_group P x l : P x = true -> forallb P l = true -> forallb P (insert_group x l) = true.
Proof.
  intros Hx H. induction l as [|a t IH]; cbn in *; [rewrite Hx; auto|].
  apply andb_true_iff in H. destruct H as [Ha Ht]. destruct (g_less a x); cbn; rewrite ?Ha, ?Hx, ?Ht, ?IH; auto.
Qed.

Lemma fb_sort_groups P l : forallb P l = true -> forallb P (sort_groups l) = true.
Proof.
  intros H. induction l as [|a t IH]; cbn in *; auto.
  apply andb_true_iff in H. destruct H as [Ha Ht]. apply fb_insert_group; auto.
Qed.

(* ---------- users ---------- *)

Lemma has_admin_app a b : has_admin (a ++ b) = has_admin a || has_admin b.
Proof. unfold has_admin. apply existsb_app. Qed.

Lemma has_admin_remove_first p l u :
  find p l = Some u -> u_admin u = false -> has_admin (remove_first p l) = has_admin l.
Proof.
  unfold has_admin. induction l as [|a t IH]; cbn; intros F Hu; [discriminate|].
  destruct (p a).
  - inversion F; subst. rewrite Hu. reflexivity.
  - cbn. rewrite IH; auto.
Qed.

Lemma has_admin_upd_first p f l :
  (forall u, u_admin (f u) = u_admin u) -> has_admin (upd_first p f l) = has_admin l.
Proof.
  unfold has_admin. intros Hf. induction l as [|a t IH]; cbn; auto.
  destruct (p a); cbn; rewrite ?Hf, ?IH; auto.
Qed.

Lemma has_admin_map f l : (forall u, u_admin (f u) = u_admin u) -> has_admin (map f l) = has_admin l.
Proof. unfold has_admin. intros Hf. induction l as [|a t IH]; cbn; auto. rewrite Hf, IH. reflexivity. Qed.

Lemma existsb_filter_le {A} (q p : A -> bool) l : existsb q (filter p l) = true -> existsb q l = true.
Proof.
  induction l as [|a t IH]; cbn; auto. destruct (p a); cbn; intros H.
  - apply orb_true_iff in H. destruct H as [H|H]; [rewrite H; auto|rewrite IH; auto using orb_true_r].
  - rewrite IH; auto using orb_true_r.
Qed.

Lemma nodup_keys_filter p l : nodup_keys l = true -> nodup_keys (filter p l) = true.
Proof.
  induction l as [|a t IH]; cbn; auto. intros H. apply andb_true_iff in H. destruct H as [H1 H2].
  destruct (p a); cbn; [|auto]. rewrite IH by auto. rewrite andb_true_r.
  apply negb_true_iff. apply negb_true_iff in H1.
  destruct (existsb _ (filter p t)) eqn:E; auto. apply existsb_filter_le in E. congruence.
Qed.

Lemma existsb_priv_set k v m q :
  existsb (fun kv' => String.eqb (fst kv') q) (priv_set k v m) =
  existsb (fun kv' => String.eqb (fst kv') q) m || String.eqb k q.
Proof.
  induction m as [|[k' v'] t IH]; cbn; [rewrite orb_false_r; auto|].
  destruct (String.eqb k' k) eqn:E; cbn.
  - apply String.eqb_eq in E. subst k'. destruct (String.eqb k q); cbn; auto using orb_true_r.
    rewrite orb_false_r. reflexivity.
  - rewrite IH. rewrite orb_assoc. reflexivity.
Qed.

Lemma nodup_keys_priv_set k v m : nodup_keys m = true -> nodup_keys (priv_set k v m) = true.
Proof.
  induction m as [|[k' v'] t IH]; cbn; auto. intros H. apply andb_true_iff in H. destruct H as [H1 H2].
  destruct (String.eqb k' k) eqn:E; cbn [nodup_keys fst].
  - rewrite H1, H2. reflexivity.
  - rewrite IH by auto. rewrite andb_true_r. rewrite existsb_priv_set.
    apply negb_true_iff in H1. rewrite H1. cbn. rewrite String.eqb_sym, E. reflexivity.
Qed.

Lemma range_priv_set k v m :
  in_i32 v = true -> forallb (fun kv : string * Z => in_i32 (snd kv)) m = true ->
  forallb (fun kv : string * Z => in_i32 (snd kv)) (priv_set k v m) = true.
Proof.
  intros Hv. induction m as [|[k' v'] t IH]; cbn; [rewrite Hv; auto|].
  intros H. apply andb_true_iff in H. destruct H as [H1 H2].
  destruct (String.eqb k' k); cbn; rewrite ?Hv, ?H1, ?H2, ?IH; auto.
Qed.

(* ---------- groups ---------- *)

Lemma wf_group_set_shards g v : wf_group (g_set_shards g v) = wf_group g.
Proof. reflexivity. Qed.
Lemma wf_group_set_deleted g : wf_group (g_set_deleted g) = wf_group g.
Proof. reflexivity. Qed.

Lemma wf_remove_shard_from id g : wf_group (remove_shard_from id g) = wf_group g.
Proof. unfold remove_shard_from. destruct (_ =? 1)%nat; reflexivity. Qed.

Lemma wf_delete_node_group id g g' : delete_node_group id g = Some g' -> wf_group g = true -> wf_group g' = true.
Proof.
  unfold delete_node_group. destruct (_ || _).
  - intros E; inversion E; subst. auto.
  - destruct (reassign _ _ _); intros E; inversion E; subst. auto.
Qed.

Lemma wf_truncate_group t g : in_i64 t = true -> wf_group g = true -> wf_group (truncate_group t g) = true.
Proof.
  intros Ht H. unfold truncate_group. destruct (_ || _); auto.
  unfold wf_group in *. apply andb_true_iff in H. destruct H as [H _]. apply andb_true_iff in H. destruct H as [Hs He].
  destruct (t <=? g_start g)%Z; cbn; rewrite Hs, He; cbn; auto.
Qed.

Lemma clip_range_bounds t l : forall s0 e0,
  (s0 <= t)%Z -> (t <= e0)%Z ->
  (s0 <= fst (clip_range t l (s0, e0)) <= t)%Z /\ (t <= snd (clip_range t l (s0, e0)) <= e0)%Z.
Proof.
  unfold clip_range. induction l as [|g l IH]; cbn [fold_left fst snd]; intros s0 e0 Hs He; [lia|].
  destruct (g_deleted g); [apply IH; auto|].
  set (s1 := if (eff_end g <=? t)%Z && (s0 <? eff_end g)%Z then eff_end g else s0).
  set (e1 := if (t <? g_start g)%Z && (g_start g <? e0)%Z then g_start g else e0).
  assert (H1 : (s0 <= s1 <= t)%Z) by (unfold s1; destruct ((eff_end g <=? t)%Z && (s0 <? eff_end g)%Z) eqn:E; lia).
  assert (H2 : (t <= e1 <= e0)%Z) by (unfold e1; destruct ((t <? g_start g)%Z && (g_start g <? e0)%Z) eqn:E; lia).
  destruct (IH s1 e1) as [A B]; try lia.
Qed.

Section Wf.
  Variable bnd : Z.
  Hypothesis Hlong : (c06_sgd_long <= bnd)%Z.
  Hypothesis Hmid : (c06_sgd_mid <= bnd)%Z.
  Hypothesis Hshort : (c06_sgd_short <= bnd)%Z.
  Hypothesis Hmax : (bnd <= max_i64)%Z.

  Notation wfd := (wf bnd).
  Notation wfdb := (wf_database bnd).
  Notation wfrp := (wf_policy bnd).

  Lemma wf_parts d :
    wfd d = true <->
    forallb wfdb (d_dbs d) = true /\ forallb wf_user (d_users d) = true /\ d_admin d = has_admin (d_users d).
  Proof.
    unfold wf. rewrite !andb_true_iff. split.
    - intros [[A B] C]. repeat split; auto. apply Bool.eqb_prop; auto.
    - intros (A & B & C). repeat split; auto. rewrite C. apply Bool.eqb_reflx.
  Qed.

  Lemma wf_init : wfd init_data = true.
  Proof. reflexivity. Qed.

  Lemma wf_same d d' :
    d_dbs d' = d_dbs d -> d_users d' = d_users d -> d_admin d' = d_admin d -> wfd d = true -> wfd d' = true.
  Proof. unfold wf. intros -> -> ->. auto. Qed.

  Lemma wf_stamp d i t : wfd d = true -> wfd (stamp d i t) = true.
  Proof. apply wf_same; reflexivity. Qed.

  Lemma wf_set_dbs d l : wfd d = true -> forallb wfdb l = true -> wfd (set_dbs d l) = true.
  Proof. rewrite !wf_parts. cbn. intros (A & B & C) H. auto. Qed.

  Lemma wf_upd_db d n F :
    wfd d = true -> (forall x, wfdb x = true -> wfdb (F x) = true) -> wfd (upd_db d n F) = true.
  Proof.
    intros H HF. unfold upd_db. apply wf_set_dbs; auto. apply fb_upd_first; auto. apply wf_parts in H. apply H.
  Qed.

  Lemma wfdb_upd_rp x p f :
    wfdb x = true -> (forall r, wfrp r = true -> wfrp (f r) = true) -> wfdb (upd_rp x p f) = true.
  Proof. unfold wf_database, upd_rp; cbn. intros H Hf. apply fb_upd_first; auto. Qed.

  Lemma wfrp_set_groups r l : wfrp r = true -> forallb wf_group l = true -> wfrp (rp_set_groups r l) = true.
  Proof.
    unfold wf_policy; cbn. intros H Hl. repeat (apply andb_true_iff in H; destruct H as [H ?]).
    rewrite H, Hl. repeat (apply andb_true_iff; split); auto.
  Qed.

  Lemma wfrp_groups r : wfrp r = true -> forallb wf_group (rp_groups r) = true.
  Proof. unfold wf_policy. intros H. apply andb_true_iff in H. apply H. Qed.

  Lemma wfrp_set_subs r l : wfrp (rp_set_subs r l) = wfrp r.
  Proof. reflexivity. Qed.

  Lemma wfdb_set_cqs x l : wfdb (db_set_cqs x l) = wfdb x.
  Proof. reflexivity. Qed.
  Lemma wfdb_set_default x l : wfdb (db_set_default x l) = wfdb x.
  Proof. reflexivity. Qed.

  (* every group list mapped by a function that keeps groups well-formed *)
  Lemma wf_map_all d (h : list group -> list group) :
    wfd d = true -> (forall l, forallb wf_group l = true -> forallb wf_group (h l) = true) ->
    wfd (set_dbs d (map (fun x => db_set_rps x (map (fun r => rp_set_groups r (h (rp_groups r))) (db_rps x))) (d_dbs d))) = true.
  Proof.
    intros H Hh. apply wf_set_dbs; auto. apply fb_map; [apply wf_parts in H; apply H|].
    intros x Hx. unfold wf_database in *; cbn. apply fb_map; auto.
    intros r Hr. apply wfrp_set_groups; auto. apply Hh. apply wfrp_groups; auto.
  Qed.

  Lemma wf_upd_group_of_shard d id f :
    wfd d = true -> (forall g, wf_group g = true -> wf_group (f g) = true) -> wfd (upd_group_of_shard d id f) = true.
  Proof.
    intros H Hf. unfold upd_group_of_shard.
    destruct (upd_first_opt _ (d_dbs d)) as [dbs|] eqn:E; auto.
    apply wf_set_dbs; auto. eapply fb_upd_first_opt; eauto; [apply wf_parts in H; apply H|].
    intros x y Hy Hx. cbn in Hy. destruct (upd_first_opt _ (db_rps x)) as [rs|] eqn:E2; inversion Hy; subst.
    unfold wf_database in *; cbn. eapply fb_upd_first_opt; eauto.
    intros r r' Hr' Hr. cbn in Hr'. destruct (upd_first_opt _ (rp_groups r)) as [gs|] eqn:E3; inversion Hr'; subst.
    apply wfrp_set_groups; auto. eapply fb_upd_first_opt; eauto; [apply wfrp_groups; auto|].
    intros g g' Hg' Hg. cbn in Hg'. destruct (has_shard id g); inversion Hg'; subst. auto.
  Qed.

  (* ---------- retention policies ---------- *)

  Lemma sgd_default_le dur : (shard_group_duration dur <= bnd)%Z.
  Proof. unfold shard_group_duration. destruct (_ || _); [lia|]. destruct (_ <=? _)%Z; lia. Qed.

  Lemma nsd_le sgd dur : (sgd <= bnd)%Z -> (normalised_shard_duration sgd dur <= bnd)%Z.
  Proof.
    intros H. unfold normalised_shard_duration. destruct (sgd =? 0)%Z; [apply sgd_default_le|].
    destruct (sgd <? _)%Z; [apply sgd_default_le|auto].
  Qed.

  Lemma wfrp_new name rep dur sgd :
    rep <? 4294967296 = true -> (sgd <= bnd)%Z ->
    wfrp (Rp name rep dur (normalised_shard_duration sgd dur) [] []) = true.
  Proof.
    intros Hr Hs. unfold wf_policy; cbn. rewrite Hr. pose proof (sgd_pos sgd dur). pose proof (nsd_le sgd dur Hs).
    repeat (apply andb_true_iff; split); auto; lia.
  Qed.

  Lemma create_rp_wf d dbn name rep dur sgd0 dflt d' :
    wfd d = true -> rep <? 4294967296 = true -> (sgd0 <= bnd)%Z ->
    create_rp d dbn name rep dur sgd0 dflt = Ok d' -> wfd d' = true.
  Proof.
    intros H Hr Hs. unfold create_rp.
    destruct (String.eqb name ""); [discriminate|]. destruct (_ <? slen name); [discriminate|].
    destruct (rep <? 1); [discriminate|]. destruct (_ && _)%bool; [discriminate|].
    destruct (find_db d dbn) as [x|]; [|discriminate].
    destruct (db_rp x name) as [r|].
    - destruct (_ || _)%bool; [discriminate|]. destruct (_ && _)%bool; [discriminate|]. intros E; inversion E; subst; auto.
    - intros E; inversion E; subst. apply wf_upd_db; auto. intros y Hy.
      assert (X : wfdb (db_set_rps y (db_rps y ++ [Rp name rep dur (normalised_shard_duration sgd0 dur) [] []])) = true).
      { unfold wf_database in *; cbn. apply fb_snoc; auto. apply wfrp_new; auto. }
      destruct dflt; auto.
  Qed.

  Lemma create_database_wf d n d' : wfd d = true -> create_database d n = Ok d' -> wfd d' = true.
  Proof.
    intros H. unfold create_database. destruct (String.eqb n ""); [discriminate|]. destruct (_ <? slen n); [discriminate|].
    destruct (find_db d n); intros E; inversion E; subst; auto.
    apply wf_set_dbs; auto. apply fb_snoc; [apply wf_parts in H; apply H|reflexivity].
  Qed.

  Lemma update_rp_wf d dbn name nn dur rep sgd dflt d' :
    wfd d = true ->
    match rep with Some v => v <? 4294967296 | None => true end = true ->
    match sgd with Some v => sgd_ok bnd v | None => true end = true ->
    update_rp d dbn name nn dur rep sgd dflt = Ok d' -> wfd d' = true.
  Proof.
    intros H Hr Hs. unfold update_rp.
    destruct (find_db d dbn) as [x|]; [|discriminate]. destruct (db_rp x name) as [r|]; [|discriminate].
    destruct (match nn with Some _ => _ | None => _ end); [discriminate|].
    destruct (match dur with Some _ => _ | None => false end); [discriminate|].
    destruct (match dur with Some _ => _ | None => _ end); [discriminate|].
    intros E; inversion E; subst. apply wf_upd_db; auto. intros y Hy.
    match goal with |- wfdb (if ?c then db_set_default ?a ?b else ?a') = true => assert (X : wfdb a = true); [|destruct c; auto] end.
    apply wfdb_upd_rp; auto. intros r0 Hr0. unfold wf_policy in *; cbn.
    repeat (apply andb_true_iff in Hr0; destruct Hr0 as [Hr0 ?]).
    repeat (apply andb_true_iff; split); auto.
    - destruct rep; auto.
    - destruct sgd as [v|]; auto. pose proof (sgd_pos v (match dur with Some v0 => v0 | None => rp_dur r0 end)). lia.
    - destruct sgd as [v|]; auto. unfold sgd_ok in Hs.
      pose proof (nsd_le v (match dur with Some v0 => v0 | None => rp_dur r0 end)). lia.
  Qed.

  (* ---------- the new shard group ---------- *)

  Lemma new_group_wf d r t :
    wfrp r = true -> in_i64 t = true -> wf_group (new_group d r t) = true.
  Proof.
    intros Hr Ht. unfold wf_policy in Hr. repeat (apply andb_true_iff in Hr; destruct Hr as [Hr ?]).
    assert (Hpos : (0 < rp_sgdur r)%Z) by lia. assert (Hle : (rp_sgdur r <= bnd)%Z) by lia.
    unfold new_group, wf_group. cbn [g_start g_end g_trunc].
    pose proof (time_truncate_bounds t (rp_sgdur r) Hpos) as [B1 B2].
    set (s00 := time_truncate t (rp_sgdur r)) in *.
    set (e0 := if (c06_max_nano_time <? s00 + rp_sgdur r)%Z then (c06_max_nano_time + 1)%Z else (s00 + rp_sgdur r)%Z).
    set (s0 := if (s00 <? min_unix_nano)%Z then min_unix_nano else s00).
    unfold in_i64, min_i64, max_i64 in Ht.
    assert (He0 : (t <= e0 <= max_i64)%Z).
    { unfold e0. destruct (c06_max_nano_time <? s00 + rp_sgdur r)%Z eqn:E; unfold c06_max_nano_time, max_i64 in *; lia. }
    assert (Hs0 : (min_i64 <= s0 <= t)%Z).
    { unfold s0. destruct (s00 <? min_unix_nano)%Z eqn:E; unfold min_unix_nano, c06_max_nano_time, min_i64 in *; lia. }
    destruct (clip_range_bounds t (rp_groups r) s0 e0) as [[A1 A2] [A3 A4]]; try lia.
    unfold in_i64, min_i64, max_i64 in *. rewrite andb_true_r. lia.
  Qed.

  Lemma create_shard_group_wf d dbn pol t d' :
    wfd d = true -> in_i64 t = true ->
    create_shard_group d dbn pol t = Ok d' -> wfd d' = true.
  Proof.
    intros H Ht. unfold create_shard_group.
    destruct (d_nodes d); [intros E; inversion E; subst; auto|].
    destruct (find_db d dbn) as [x|] eqn:Ex; [|discriminate].
    destruct (find_rp x pol) as [r|] eqn:Er; [|discriminate].
    destruct (existsb _ _); intros E; inversion E; subst; auto.
    assert (Hwr : wfrp r = true).
    { apply wf_parts in H. destruct H as [Hd _]. rewrite forallb_forall in Hd.
      unfold find_db in Ex. apply find_some_in in Ex. destruct Ex as [Ix _].
      specialize (Hd _ Ix). unfold wf_database in Hd. rewrite forallb_forall in Hd.
      unfold find_rp in Er. apply find_some_in in Er. destruct Er as [Ir _]. auto. }
    match goal with |- wfd (set_group_counters ?a _ _) = true => assert (X : wfd a = true); [|revert X; apply wf_same; reflexivity] end.
    apply wf_upd_db; auto. intros y Hy. apply wfdb_upd_rp; auto. intros r0 Hr0.
    apply wfrp_set_groups; auto. apply fb_sort_groups. apply fb_snoc; [apply wfrp_groups; auto|].
    apply new_group_wf; auto.
  Qed.

  Lemma delete_shard_group_wf d dbn pol id d' : wfd d = true -> delete_shard_group d dbn pol id = Ok d' -> wfd d' = true.
  Proof.
    intros H. unfold delete_shard_group. destruct (find_db d dbn) as [x|]; [|discriminate].
    destruct (find_rp x pol) as [r|]; [|discriminate]. destruct (existsb _ _); [|discriminate].
    intros E; inversion E; subst. apply wf_upd_db; auto. intros y Hy. apply wfdb_upd_rp; auto. intros r0 Hr0.
    apply wfrp_set_groups; auto. apply fb_upd_first; [apply wfrp_groups; auto|]. intros g Hg. exact Hg.
  Qed.

  Lemma delete_data_node_wf d id d' : wfd d = true -> delete_data_node d id = Ok d' -> wfd d' = true.
  Proof.
    intros H. unfold delete_data_node. destruct (_ =? _)%nat; [discriminate|].
    destruct (map_opt _ (d_dbs d)) as [dbs|] eqn:E; [|discriminate]. intros E'; inversion E'; subst.
    apply wf_set_dbs; [revert H; apply wf_same; reflexivity|].
    eapply (fb_map_opt wfdb wfdb); eauto; [apply wf_parts in H; apply H|].
    intros x y Hy Hx. cbn beta in Hy. destruct (map_opt _ (db_rps x)) as [rs|] eqn:E2; inversion Hy; subst.
    unfold wf_database in *; cbn. eapply (fb_map_opt wfrp wfrp); eauto.
    intros r r' Hr' Hr. cbn beta in Hr'. destruct (map_opt _ (rp_groups r)) as [gs|] eqn:E3; inversion Hr'; subst.
    apply wfrp_set_groups; auto. eapply (fb_map_opt wf_group wf_group); eauto; [apply wfrp_groups; auto|].
    intros g g' Hg' Hg. eapply wf_delete_node_group; eauto.
  Qed.

  (* ---------- users ---------- *)

  Lemma wf_set_users d us a :
    wfd d = true -> forallb wf_user us = true -> a = has_admin us -> wfd (set_users d us a) = true.
  Proof. rewrite !wf_parts. cbn. intros (A & B & C) H1 H2. auto. Qed.

  Lemma wf_users_of d : wfd d = true -> forallb wf_user (d_users d) = true.
  Proof. intros H. apply wf_parts in H. apply H. Qed.
  Lemma wf_admin_of d : wfd d = true -> d_admin d = has_admin (d_users d).
  Proof. intros H. apply wf_parts in H. apply H. Qed.

  Lemma drop_database_wf d n : wfd d = true -> wfd (drop_database d n) = true.
  Proof.
    intros H. unfold drop_database. destruct (find_db d n); auto.
    apply wf_set_users.
    - apply wf_set_dbs; auto. apply fb_remove_first. apply wf_parts in H; apply H.
    - apply fb_map; [apply wf_users_of; auto|]. intros u Hu. unfold wf_user in *; cbn.
      apply andb_true_iff in Hu. destruct Hu as [A B]. rewrite fb_filter, nodup_keys_filter; auto.
    - cbn. rewrite has_admin_map; [apply wf_admin_of; auto|reflexivity].
  Qed.

  Lemma create_user_wf d n h a d' : wfd d = true -> create_user d n h a = Ok d' -> wfd d' = true.
  Proof.
    intros H. unfold create_user. destruct (String.eqb n ""); [discriminate|]. destruct (has_user d n); [discriminate|].
    intros E; inversion E; subst. apply wf_set_users; auto.
    - apply fb_snoc; [apply wf_users_of; auto|reflexivity].
    - rewrite has_admin_app, <- (wf_admin_of d H). unfold has_admin; cbn. destruct a, (d_admin d); reflexivity.
  Qed.

  Lemma drop_user_wf d n d' : wfd d = true -> drop_user d n = Ok d' -> wfd d' = true.
  Proof.
    intros H. unfold drop_user. destruct (find _ (d_users d)) as [u|] eqn:F; [|discriminate].
    intros E; inversion E; subst. apply wf_set_users; auto.
    - apply fb_remove_first. apply wf_users_of; auto.
    - destruct (u_admin u) eqn:Ea; auto. rewrite (has_admin_remove_first _ _ _ F Ea). apply wf_admin_of; auto.
  Qed.

  Lemma update_user_wf d n h d' : wfd d = true -> update_user d n h = Ok d' -> wfd d' = true.
  Proof.
    intros H. unfold update_user. destruct (has_user d n); [|discriminate].
    intros E; inversion E; subst. apply wf_set_users; auto.
    - apply fb_upd_first; [apply wf_users_of; auto|]. intros u Hu. exact Hu.
    - rewrite has_admin_upd_first; [apply wf_admin_of; auto|reflexivity].
  Qed.

  Lemma set_privilege_wf d n dbn p d' : wfd d = true -> in_i32 p = true -> set_privilege d n dbn p = Ok d' -> wfd d' = true.
  Proof.
    intros H Hp. unfold set_privilege. destruct (negb _); [discriminate|]. destruct (find_db d dbn); [|discriminate].
    intros E; inversion E; subst. apply wf_set_users; auto.
    - apply fb_upd_first; [apply wf_users_of; auto|]. intros u Hu. unfold wf_user in *; cbn.
      apply andb_true_iff in Hu. destruct Hu as [A B]. rewrite range_priv_set, nodup_keys_priv_set; auto.
    - rewrite has_admin_upd_first; [apply wf_admin_of; auto|reflexivity].
  Qed.

  Lemma set_admin_privilege_wf d n a d' : wfd d = true -> set_admin_privilege d n a = Ok d' -> wfd d' = true.
  Proof.
    intros H. unfold set_admin_privilege. destruct (negb _); [discriminate|].
    intros E; inversion E; subst. apply wf_set_users; auto.
    apply fb_upd_first; [apply wf_users_of; auto|]. intros u Hu. exact Hu.
  Qed.

  (* ---------- every command ---------- *)

  Lemma wf_set_cluster d r : wfd d = true -> wfd (set_cluster_if_unset d r) = true.
  Proof. unfold set_cluster_if_unset. destruct (_ =? 0); auto. Qed.

  Lemma auto_rep_small n :
    (if c06_max_auto_replica <? n then c06_max_auto_replica else if n <? 1 then 1 else n) <? 4294967296 = true.
  Proof. unfold c06_max_auto_replica. destruct (3 <? n) eqn:E; [reflexivity|]. destruct (n <? 1); lia. Qed.

  Lemma exec_wf auto ex d c d' :
    wfd d = true -> cmd_ok bnd c = true -> exec auto ex d c = Ok d' -> wfd d' = true.
  Proof.
    intros H Hc. destruct c; cbn [exec cmd_ok] in *; intros E.
    - inversion E; subst; auto.
    - (* CreateDatabase *)
      destruct (create_database d name) as [d1|] eqn:E1; [|discriminate].
      pose proof (create_database_wf _ _ _ H E1) as H1.
      destruct rp as [[[[rn rrep] rdur] rsgd]|].
      + apply andb_true_iff in Hc. destruct Hc as [Hr Hs]. unfold sgd_ok in Hs.
        destruct (create_rp d1 name rn rrep rdur rsgd true) as [d2|e] eqn:E2.
        * inversion E; subst. apply (create_rp_wf d1 name rn rrep rdur rsgd true d' H1 Hr); [lia|exact E2].
        * destruct e; discriminate.
      + destruct auto.
        * eapply (create_rp_wf d1); [exact H1|apply auto_rep_small| |exact E]. unfold c06_sgd_long in Hlong. lia.
        * inversion E; subst; auto.
    - inversion E; subst. apply drop_database_wf; auto.
    - apply andb_true_iff in Hc. destruct Hc as [Hr Hs]. unfold sgd_ok in Hs. apply (create_rp_wf d db name rep dur sgd dflt d' H Hr); [lia|exact E].
    - inversion E; subst. unfold drop_rp. apply wf_upd_db; auto. intros x Hx.
      unfold wf_database in *; cbn. apply fb_remove_first; auto.
    - apply andb_true_iff in Hc. destruct Hc as [Hr Hs]. eapply update_rp_wf; eauto.
    - apply (create_shard_group_wf d db pol t d' H Hc E).
    - eapply delete_shard_group_wf; eauto.
    - (* CreateContinuousQuery *)
      unfold create_cq in E. destruct (find_db d db) as [x|]; [|discriminate].
      destruct (find _ (db_cqs x)) as [cq|].
      + destruct (String.eqb _ _); inversion E; subst; auto.
      + inversion E; subst. apply wf_upd_db; auto.
    - inversion E; subst. unfold drop_cq. apply wf_upd_db; auto.
    - (* CreateSubscription *)
      unfold create_sub in E. destruct (negb _); [discriminate|]. destruct (find_db d db) as [x|]; [|discriminate].
      destruct (find_rp x pol) as [r|]; [|discriminate]. destruct (existsb _ _); [discriminate|].
      inversion E; subst. apply wf_upd_db; auto. intros y Hy. apply wfdb_upd_rp; auto.
    - unfold drop_sub in E. destruct (find_db d db) as [x|]; [|discriminate].
      destruct (find_rp x pol) as [r|]; [|discriminate]. destruct (existsb _ _); [|discriminate].
      inversion E; subst. apply wf_upd_db; auto. intros y Hy. apply wfdb_upd_rp; auto.
    - eapply create_user_wf; eauto.
    - eapply drop_user_wf; eauto.
    - eapply update_user_wf; eauto.
    - eapply set_privilege_wf; eauto.
    - eapply set_admin_privilege_wf; eauto.
    - (* CreateMetaNode *)
      inversion E; subst. apply wf_set_cluster. destruct (create_meta_node d http tcp) as [d1|] eqn:E1; auto.
      unfold create_meta_node in E1. destruct (existsb _ _); [discriminate|]. inversion E1; subst.
      destruct (_ =? 0); revert H; apply wf_same; reflexivity.
    - unfold delete_meta_node in E. destruct (negb _); [discriminate|]. destruct (id =? 0); [discriminate|].
      inversion E; subst. revert H; apply wf_same; reflexivity.
    - (* SetMetaNode *)
      inversion E; subst. apply wf_set_cluster. destruct (set_meta_node d http tcp) as [d1|] eqn:E1; auto.
      unfold set_meta_node in E1. destruct (d_meta d) as [|n0 [|n1 t]].
      + unfold create_meta_node in E1. destruct (existsb _ _); [discriminate|]. inversion E1; subst.
        destruct (_ =? 0); revert H; apply wf_same; reflexivity.
      + inversion E1; subst. revert H; apply wf_same; reflexivity.
      + discriminate.
    - unfold create_data_node in E. destruct (existsb _ _); [discriminate|]. inversion E; subst.
      destruct (_ || _)%bool; revert H; apply wf_same; reflexivity.
    - eapply delete_data_node_wf; eauto.
    - unfold update_data_node in E. destruct (negb _); [discriminate|]. inversion E; subst.
      revert H; apply wf_same; reflexivity.
    - inversion E; subst. unfold drop_shard. apply wf_upd_group_of_shard; auto.
      intros g Hg. rewrite wf_remove_shard_from. auto.
    - inversion E; subst. unfold map_groups. apply wf_map_all; auto.
      intros l Hl. apply fb_map; auto. intros g Hg. apply wf_truncate_group; auto.
    - inversion E; subst. unfold prune_groups. apply (wf_map_all d (fun l => filter _ l)); auto.
      intros l Hl. apply fb_filter; auto.
    - destruct (has_node _ _); [|discriminate]. inversion E; subst. unfold copy_shard_owner.
      apply wf_upd_group_of_shard; auto.
    - inversion E; subst. unfold remove_shard_owner. apply wf_upd_group_of_shard; auto.
      intros g Hg. destruct (find _ (g_shards g)); auto. destruct (remove_first _ _); auto.
      rewrite wf_remove_shard_from; auto.
  Qed.

  Lemma apply_wf auto ex d idx term c :
    wfd d = true -> cmd_ok bnd c = true -> wfd (fst (apply auto ex d idx term c)) = true.
  Proof.
    intros H Hc. unfold apply. destruct (exec auto ex d c) as [d'|e] eqn:E; cbn.
    - apply wf_stamp. eapply exec_wf; eauto.
    - apply wf_stamp; auto.
  Qed.

  Lemma run_from_wf auto orc es : forall k d,
    wfd d = true -> forallb (fun e => cmd_ok bnd (e_cmd e)) es = true -> wfd (run_from auto orc k d es) = true.
  Proof.
    induction es as [|e es IH]; cbn; intros k d H Hc; auto.
    apply andb_true_iff in Hc. destruct Hc as [H1 H2]. apply IH; auto. apply apply_wf; auto.
  Qed.
End Wf.

(* the bound can always be taken as the largest int64 *)
Lemma bnd_max_ok : (c06_sgd_long <= max_i64)%Z /\ (c06_sgd_mid <= max_i64)%Z /\ (c06_sgd_short <= max_i64)%Z.
Proof. unfold c06_sgd_long, c06_sgd_mid, c06_sgd_short, max_i64. lia. Qed.

(* cmd_ok is stronger than C06's cmd_wf *)
Lemma cmd_ok_wf bnd c : (0 <= bnd)%Z -> cmd_ok bnd c = true -> cmd_wf c.
Proof.
  intros Hb. destruct c; try exact (fun _ => I). cbn [cmd_ok cmd_wf]. intros H.
  unfold in_i64, c06_max_nano_time, min_i64, max_i64 in *. lia.
Qed.
