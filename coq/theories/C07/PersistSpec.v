(* C07/PersistSpec.v — "survives log snapshotting", as an executable check on OBSERVATIONS of
   one snapshot attempt (FSM.Snapshot, FSMSnapshot.Persist into a sink in which faults were
   planted, then raft's Cancel-on-error / Close).  Nothing here says how Persist or a sink
   work.  The harness reports
     faulted    whether some Write or Close of the sink was made to fail
     image      the bytes Persist offered to the sink (its Write arguments, concatenated)
     err        whether Persist returned an error
     c1, c2     whether the snapshot store showed the new snapshot as committed right after
                Persist returned / after raft's epilogue (what a restart finds)
     held       the bytes of the new snapshot (what Open() returns; for the in-memory sink
                the bytes it took)
     taken      the metadata read through the snapshot when FSM.Snapshot returned, with the
                (group ID, DeletedAt) stamps
     restored   what storeFSM.Restore makes of [held] in a fresh store (None: it failed, or
                there is nothing committed to restore)
     prior      whether the store already held a good snapshot of an earlier state
     newest     what the store lists as newest afterwards: 2 the new snapshot, 1 the prior
                one (intact), 0 none, 3 anything else *)
From Verif Require Import C06.Model C06.Eqb C07.Spec.
Open Scope N_scope.

Record pfobs := PF { pf_faulted : bool; pf_image : list N; pf_err : bool; pf_c1 : bool; pf_c2 : bool;
                     pf_held : list N; pf_taken : data; pf_stamps_t : list (N * Z);
                     pf_restored : option (data * list (N * Z));
                     pf_prior : bool; pf_newest : N }.

Definition persist_spec (o : pfobs) : bool :=
  (* a snapshot attempt that reported an error leaves no snapshot ... *)
  (negb (pf_err o) || (negb (pf_c1 o) && negb (pf_c2 o))) &&
  (* ... and the store still starts from the snapshot it had *)
  (negb (pf_err o) || (pf_newest o =? (if pf_prior o then 1 else 0))) &&
  (* a committed snapshot is the complete image and restores to exactly the value snapshotted *)
  (negb (pf_c1 o || pf_c2 o) ||
   (list_eqb N.eqb (pf_held o) (pf_image o) &&
    match pf_restored o with
    | Some (r, st) => data_eqb r (pf_taken o) && list_eqb stamp_eqb st (pf_stamps_t o)
    | None => false
    end)) &&
  (negb (pf_c2 o) || (pf_newest o =? 2)) &&
  (* without a fault the snapshot is taken *)
  (pf_faulted o || (negb (pf_err o) && pf_c2 o)).
