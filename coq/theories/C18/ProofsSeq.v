(* C18/ProofsSeq.v — sequences of copy-shard attempts to the same destination: whatever an
   earlier attempt left behind (no shard, a created but empty shard, an older complete copy),
   a failed attempt advertises nothing and an acknowledged attempt leaves an exact copy. *)
From Verif Require Import C18.Model C18.Names C18.Proofs C18.ProofsCopy C18.ProofsExport C18.ProofsIncr.
From VerifGen Require Import Consts.
Open Scope Z_scope.

(* ---------- a full archive is the increment since before every file ---------- *)

Lemma since_filter_all since ms : (forall m, In m ms -> since < m_mtime m) -> since_filter (Some since) ms = ms.
Proof.
  unfold since_filter. induction ms as [|m r IH]; intros H; [reflexivity|]. cbn [filter].
  destruct (Z.ltb_spec since (m_mtime m)) as [L|L]; [|specialize (H m (or_introl eq_refl)); lia].
  rewrite IH by (intros x Hx; apply H; right; exact Hx). reflexivity.
Qed.

Definition below (ms : list member) : Z := fold_left Z.min (map m_mtime ms) 0 - 1.

Lemma below_lt ms m : In m ms -> below ms < m_mtime m.
Proof.
  intros H. unfold below. destruct (fold_min_le (map m_mtime ms) 0) as [_ H2].
  specialize (H2 (m_mtime m) (in_map m_mtime ms m H)). lia.
Qed.

(* no file of the earlier copy has been removed from the source, nor lost its tombstone file *)
Definition keeps (fs0 fs1 : list sfile) : Prop :=
  forall f0, In f0 fs0 -> exists f, In f fs1 /\ sf_stem f = sf_stem f0 /\ (sf_has_ts f0 = true -> sf_has_ts f = true).

Lemma keeps_incr_hyp base fs0 fs1 : wf_files fs1 = true -> keeps fs0 fs1 -> incr_hyp (below (walk base fs1)) fs0 fs1.
Proof.
  intros Hwf Hk. rewrite (walk_wf base fs1 Hwf). unfold link_members. repeat split.
  - intros f Hf. left.
    apply (below_lt _ (mk_member (member_path base (tsm_name f)) false (sf_mtime f) (BTsm (sf_blocks f)))).
    apply in_map_iff. eexists (_, _). split; [reflexivity|]. apply in_flat_map. exists f. split; [exact Hf|].
    apply in_or_app. right. left. reflexivity.
  - intros f Hf Hts. left.
    apply (below_lt _ (mk_member (member_path base (tomb_name f)) false (sf_tmtime f) (BTomb (sf_tombs f)))).
    apply in_map_iff. eexists (_, _). split; [reflexivity|]. apply in_flat_map. exists f. split; [exact Hf|].
    apply in_or_app. left. rewrite Hts. left. reflexivity.
  - exact Hk.
Qed.

Lemma full_restore_over base fs0 fs1 d0 c :
  wf_files fs0 = true -> wf_files fs1 = true -> keeps fs0 fs1 ->
  NoDup (map fst d0) -> (forall n, dir_get n d0 = dir_get n (dir_of fs0)) ->
  let ms := walk base fs1 in
  exists d1,
    restore base (mk_dshard d0 c) ms (length ms) EndMarker = Some (mk_dshard d1 c) /\
    NoDup (map fst d1) /\ (forall n, dir_get n d1 = dir_get n (dir_of fs1)) /\
    forall k lo hi asc, dshard_read (mk_dshard d1 c) k lo hi asc = read (map to_tsm fs1) c k lo hi asc.
Proof.
  intros Hwf0 Hwf1 Hk Hnd Hd0. cbn zeta.
  pose proof (incremental_restore_lemma base (below (walk base fs1)) fs0 fs1 d0 c Hwf0 Hwf1 (keeps_incr_hyp base fs0 fs1 Hwf1 Hk) Hnd Hd0) as H.
  cbn zeta in H. rewrite since_filter_all in H by (intros m Hm; apply below_lt; exact Hm). exact H.
Qed.

(* ---------- the destination between attempts ---------- *)

(* the destination holds, as a map from names to contents, exactly the files [fs0] (nothing when
   it does not exist or was only created) and an empty cache *)
Definition copy_inv (dst : option dshard) (fs0 : list sfile) : Prop :=
  wf_files fs0 = true /\
  match dst with
  | None => fs0 = []
  | Some ds => d_cache ds = empty_cache /\ NoDup (map fst (d_dir ds)) /\ forall n, dir_get n (d_dir ds) = dir_get n (dir_of fs0)
  end.

Lemma copy_inv_d0 dst fs0 : copy_inv dst fs0 ->
  let d0 := match dst with Some d => d | None => empty_dshard end in
  copy_inv (Some d0) fs0.
Proof.
  intros [Hwf H]. destruct dst as [ds|]; cbn zeta; [split; assumption|]. subst fs0. split; [reflexivity|].
  cbn. split; [reflexivity|]. split; [constructor|]. intros n. reflexivity.
Qed.

Lemma copy_step ft stem now base sizes src dst fs0 node owners :
  let fs1 := sh_files (write_snapshot stem now src) in
  copy_inv dst fs0 -> wf_files fs1 = true -> keeps fs0 fs1 ->
  ft_snap ft = SnapIdle -> length sizes = length (walk base fs1) ->
  let r := copy_shard ft stem now base sizes src dst node owners in
  (cr_rpc_ok r = true ->
     copy_inv (cr_dst r) fs1 /\ cr_owners r = copy_shard_owner node owners /\
     exists d, cr_dst r = Some d /\ forall k lo hi asc, dshard_read d k lo hi asc = shard_read src k lo hi asc) /\
  (cr_rpc_ok r = false -> cr_owners r = owners /\ (copy_inv (cr_dst r) fs0 \/ copy_inv (cr_dst r) fs1)).
Proof.
  cbn zeta. intros Hinv Hwf1 Hk Hsnap Hlen.
  pose proof (copy_inv_d0 dst fs0 Hinv) as Hinv0. cbn zeta in Hinv0.
  set (d0 := match dst with Some d => d | None => empty_dshard end) in *.
  set (fs1 := sh_files (write_snapshot stem now src)) in *.
  unfold copy_shard. fold d0.
  destruct (ft_dial ft); [split; [discriminate|intros _; split; [reflexivity|left; exact Hinv]]|].
  (* the stream the destination sees *)
  assert (Hfail : forall ms n ek, ek <> EndMarker ->
            let r := (if ft_create_shard ft then mk_copy_result src dst false owners
                      else match restore base d0 ms n ek with
                           | None => mk_copy_result src (Some d0) false owners
                           | Some d1 => if ft_response_lost ft then mk_copy_result src (Some d1) false owners
                                        else mk_copy_result src (Some d1) true (copy_shard_owner node owners)
                           end) in
            cr_rpc_ok r = false /\ cr_owners r = owners /\ (cr_dst r = dst \/ cr_dst r = Some d0)).
  { intros ms n ek Hek. cbn zeta. destruct (ft_create_shard ft); [repeat split; left; reflexivity|].
    rewrite restore_not_marker by exact Hek. repeat split. right. reflexivity. }
  assert (Hkeepinv : forall x, (x = dst \/ x = Some d0) -> copy_inv x fs0) by (intros x [->| ->]; assumption).
  destruct (ft_src_shard_missing ft).
  { destruct (Hfail [] O EndClean ltac:(discriminate)) as (H1 & H2 & H3). cbn zeta in *.
    destruct (ft_create_shard ft); cbn [cr_rpc_ok cr_owners cr_dst] in *.
    - split; [discriminate|]. intros _. split; [reflexivity|left; exact Hinv].
    - rewrite restore_not_marker in * by discriminate. cbn [cr_rpc_ok cr_owners cr_dst] in *.
      split; [discriminate|]. intros _. split; [reflexivity|left; exact Hinv0]. }
  rewrite Hsnap. unfold backup, create_snapshot, since_filter. fold fs1.
  destruct (ft_src_fail ft) as [[k0 hdr]|].
  { destruct (ft_create_shard ft); cbn [cr_rpc_ok cr_owners cr_dst].
    - split; [discriminate|]. intros _. split; [reflexivity|left; exact Hinv].
    - rewrite restore_not_marker by (destruct hdr; discriminate). cbn [cr_rpc_ok cr_owners cr_dst].
      split; [discriminate|]. intros _. split; [reflexivity|left; exact Hinv0]. }
  destruct (stream_end sizes (ft_cut ft) (length (walk base fs1))) as [n ek] eqn:Es.
  destruct (ft_create_shard ft); cbn [cr_rpc_ok cr_owners cr_dst].
  { split; [discriminate|]. intros _. split; [reflexivity|left; exact Hinv]. }
  destruct (restore base d0 (walk base fs1) n ek) as [d1|] eqn:Er.
  2:{ cbn [cr_rpc_ok cr_owners cr_dst]. split; [discriminate|]. intros _. split; [reflexivity|left; exact Hinv0]. }
  assert (Hek : ek = EndMarker).
  { destruct ek; try reflexivity; rewrite restore_not_marker in Er by discriminate; discriminate. }
  subst ek.
  assert (Hn : n = length (walk base fs1)).
  { destruct (ft_cut ft) as [k|]; cbn [stream_end] in Es.
    - apply locate_marker in Es. destruct Es as [_ ->]. rewrite Hlen. reflexivity.
    - inversion Es. reflexivity. }
  subst n.
  destruct Hinv0 as (Hwf0 & Hc0 & Hnd0 & Hget0). destruct d0 as [dir0 c0] eqn:Ed0. cbn [d_cache d_dir] in *. subst c0.
  destruct (full_restore_over base fs0 fs1 dir0 empty_cache Hwf0 Hwf1 Hk Hnd0 Hget0) as (dir1 & Hr & Hnd1 & Hget1 & Hread).
  cbn zeta in Hr. rewrite Hr in Er. inversion Er; subst d1.
  assert (Hinv1 : copy_inv (Some (mk_dshard dir1 empty_cache)) fs1) by (split; [exact Hwf1|cbn; repeat split; assumption]).
  destruct (ft_response_lost ft); cbn [cr_rpc_ok cr_owners cr_dst].
  - split; [discriminate|]. intros _. split; [reflexivity|right; exact Hinv1].
  - split; [|discriminate]. intros _. split; [exact Hinv1|]. split; [reflexivity|].
    eexists. split; [reflexivity|]. intros k lo hi asc. rewrite Hread.
    rewrite <- (write_snapshot_read stem now src k lo hi asc). unfold shard_read. fold fs1.
    symmetry. apply read_cache_empty. apply write_snapshot_cache_empty.
Qed.

(* ---------- sequences of attempts ---------- *)

Record attempt := mk_attempt { at_ft : faults; at_stem : name; at_now : Z; at_sizes : list Z; at_src : shard }.

Definition at_files (a : attempt) : list sfile := sh_files (write_snapshot (at_stem a) (at_now a) (at_src a)).

Definition attempt_wf (base : name) (a : attempt) : Prop :=
  wf_files (at_files a) = true /\ ft_snap (at_ft a) = SnapIdle /\ length (at_sizes a) = length (walk base (at_files a)).

(* what must hold of every attempt of the sequence *)
Fixpoint attempts_ok (base : name) (node : N) (atts : list attempt) (dst : option dshard) (owners : list N) : Prop :=
  match atts with
  | [] => True
  | a :: rest =>
      let r := copy_shard (at_ft a) (at_stem a) (at_now a) base (at_sizes a) (at_src a) dst node owners in
      (cr_rpc_ok r = true ->
         cr_owners r = copy_shard_owner node owners /\
         exists d, cr_dst r = Some d /\ forall k lo hi asc, dshard_read d k lo hi asc = shard_read (at_src a) k lo hi asc) /\
      (cr_rpc_ok r = false -> cr_owners r = owners) /\
      attempts_ok base node rest (cr_dst r) (cr_owners r)
  end.

(* the source keeps its files from one attempt to every later one (no compaction removes a file) *)
Fixpoint grows (atts : list attempt) : Prop :=
  match atts with
  | [] => True
  | a :: rest => (forall b, In b rest -> keeps (at_files a) (at_files b)) /\ grows rest
  end.

Lemma copy_attempts_lemma base node atts : forall dst fs0 owners,
  copy_inv dst fs0 ->
  (forall a, In a atts -> attempt_wf base a /\ keeps fs0 (at_files a)) ->
  grows atts ->
  attempts_ok base node atts dst owners.
Proof.
  induction atts as [|a rest IH]; intros dst fs0 owners Hinv Hall Hg; [exact I|].
  destruct (Hall a (or_introl eq_refl)) as ((Hwf & Hsnap & Hlen) & Hk). destruct Hg as [Hga Hgr].
  pose proof (copy_step (at_ft a) (at_stem a) (at_now a) base (at_sizes a) (at_src a) dst fs0 node owners Hinv Hwf Hk Hsnap Hlen) as Hstep.
  cbn zeta in Hstep. destruct Hstep as [Hok Hfail]. cbn [attempts_ok]. cbn zeta.
  set (r := copy_shard (at_ft a) (at_stem a) (at_now a) base (at_sizes a) (at_src a) dst node owners) in *.
  split; [intros E; destruct (Hok E) as (_ & Ho & Hd); split; assumption|].
  split; [intros E; exact (proj1 (Hfail E))|].
  destruct (cr_rpc_ok r) eqn:E.
  - destruct (Hok eq_refl) as (Hinv1 & _ & _).
    apply (IH _ (at_files a)); [exact Hinv1| |exact Hgr].
    intros b Hb. split; [exact (proj1 (Hall b (or_intror Hb)))|exact (Hga b Hb)].
  - destruct (Hfail eq_refl) as (_ & [Hinv'|Hinv']).
    + apply (IH _ fs0); [exact Hinv'| |exact Hgr]. intros b Hb. exact (Hall b (or_intror Hb)).
    + apply (IH _ (at_files a)); [exact Hinv'| |exact Hgr].
      intros b Hb. split; [exact (proj1 (Hall b (or_intror Hb)))|exact (Hga b Hb)].
Qed.

Lemma copy_attempts_fresh base node atts owners :
  (forall a, In a atts -> attempt_wf base a) -> grows atts -> attempts_ok base node atts None owners.
Proof.
  intros Hall Hg. apply (copy_attempts_lemma base node atts None [] owners); [split; reflexivity| |exact Hg].
  intros a Ha. split; [exact (Hall a Ha)|intros f0 []].
Qed.
