(* C18/Proofs.v — backup of a shard restored into an empty shard reads like the source:
   the cache snapshot is read-neutral, the archive carries every file with its tombstone
   file, the restore installs exactly those, and reopening the directory yields the same
   file list. *)
From Verif Require Import C18.Model C18.Names.
From VerifGen Require Import Consts.
From Coq Require Import Permutation.
Open Scope Z_scope.

(* the model is written against these four facts of the code (re-read from the source) *)
Lemma code_shape_checked :
  c18_restore_accepts_tombstones = true /\ c18_restore_checks_end_marker = true /\ c18_since_is_strict_after = true /\
  c18_stream_marker_only_on_success = true.
Proof. repeat split; reflexivity. Qed.

(* ---------- the cache snapshot is read-neutral (C09 at layer A) ---------- *)

Lemma kv_get_notin k m : ~ In k (kv_keys m) -> kv_get k m = [].
Proof.
  induction m as [|[k' vs] r IH]; intros H; cbn; [reflexivity|].
  cbn in H. unfold key_eqb. rewrite nlist_eqb_neq by (intros E; apply H; left; exact E).
  apply IH. intros Hin. apply H. right. exact Hin.
Qed.

Lemma kv_get_map_keys (g : key -> list tv) ks k :
  kv_get k (map (fun k' => (k', g k')) ks) = if existsb (nlist_eqb k) ks then g k else [].
Proof.
  induction ks as [|a r IH]; cbn; [reflexivity|]. unfold key_eqb.
  destruct (nlist_eqb a k) eqn:E.
  - apply nlist_eqb_eq in E. subst a. rewrite nlist_eqb_refl. reflexivity.
  - assert (nlist_eqb k a = false) as ->.
    { destruct (nlist_eqb k a) eqn:E'; [|reflexivity]. apply nlist_eqb_eq in E'. subst. rewrite nlist_eqb_refl in E. discriminate. }
    exact IH.
Qed.

Lemma cache_values_notin c k : ~ In k (cache_keys c) -> cache_values c k = [].
Proof.
  intros H. unfold cache_values, cache_keys in *.
  rewrite !kv_get_notin; [reflexivity| |]; intros Hin; apply H; apply in_or_app; [right|left]; exact Hin.
Qed.

Lemma concat_chunk_aux n : (0 < n)%nat -> forall fuel l, (length l <= fuel)%nat -> concat (chunk_aux fuel n l) = l.
Proof.
  intros Hn. induction fuel as [|f IH]; intros l H.
  - destruct l; [reflexivity|cbn in H; lia].
  - destruct l as [|x r]; [reflexivity|]. cbn [chunk_aux concat].
    rewrite IH; [apply firstn_skipn|]. rewrite skipn_length. cbn [length] in *. lia.
Qed.

Lemma block_size_pos : (0 < block_size)%nat.
Proof. apply Nat.ltb_lt. vm_compute. reflexivity. Qed.

Lemma concat_chunk l : concat (chunk block_size l) = l.
Proof. apply concat_chunk_aux; [exact block_size_pos|apply le_n]. Qed.

Lemma dedup_nil : dedup [] = [].
Proof. reflexivity. Qed.

(* values of key k in the file a cache snapshot writes *)
Lemma flush_file_values stem now c k :
  file_values (to_tsm (flush_file stem now c)) k = dedup (cache_values c k).
Proof.
  unfold file_values, to_tsm, flush_file, flush_blocks, blocks_data. cbn [f_tombs f_data sf_blocks sf_tombs apply_tombs fold_left].
  rewrite map_map. cbn [fst snd].
  rewrite (kv_get_map_keys (fun k' => concat (chunk block_size (dedup (cache_values c k'))))).
  rewrite concat_chunk.
  destruct (existsb (nlist_eqb k) (cache_keys c)) eqn:E; [reflexivity|].
  rewrite cache_values_notin; [reflexivity|]. intros Hin. apply existsb_nlist_eqb in Hin. congruence.
Qed.

Lemma files_values_snoc fs f k : files_values (fs ++ [f]) k = merge_lw (files_values fs k) (file_values f k).
Proof. unfold files_values. rewrite fold_left_app. reflexivity. Qed.

Lemma merge_lw_dedup a v : ssorted a -> merge_lw a (dedup v) = merge_lw a v.
Proof.
  intros Ha. apply sorted_lookup_ext; try (apply merge_lw_sorted; exact Ha).
  intros t. rewrite !merge_lw_lookup by exact Ha. rewrite !lookup_last_app, dedup_last_wins. reflexivity.
Qed.

Lemma cache_is_empty_values c k : cache_is_empty c = true -> cache_values c k = [].
Proof.
  intros H. unfold cache_is_empty in H. rewrite forallb_forall in H.
  destruct (existsb (nlist_eqb k) (cache_keys c)) eqn:E.
  - apply existsb_nlist_eqb in E. specialize (H k E). destruct (cache_values c k); [reflexivity|discriminate].
  - apply cache_values_notin. intros Hin. apply existsb_nlist_eqb in Hin. congruence.
Qed.

Lemma read_all_empty_cache fs c k : cache_is_empty c = true -> read_all fs c k = read_all fs empty_cache k.
Proof. intros H. unfold read_all. rewrite (cache_is_empty_values c k H). reflexivity. Qed.

Lemma write_snapshot_read_all stem now s k :
  read_all (map to_tsm (sh_files (write_snapshot stem now s))) (sh_cache (write_snapshot stem now s)) k =
  read_all (map to_tsm (sh_files s)) (sh_cache s) k.
Proof.
  unfold write_snapshot. destruct (cache_is_empty (sh_cache s)) eqn:E; [reflexivity|].
  cbn [sh_files sh_cache]. rewrite map_app. cbn [map]. unfold read_all.
  rewrite files_values_snoc, flush_file_values.
  change (cache_values empty_cache k) with (@nil tv).
  change (merge_lw ?x []) with x.
  apply merge_lw_dedup. apply files_values_sorted.
Qed.

Lemma write_snapshot_read stem now s k lo hi asc :
  shard_read (write_snapshot stem now s) k lo hi asc = shard_read s k lo hi asc.
Proof. unfold shard_read, read. rewrite write_snapshot_read_all. reflexivity. Qed.

(* after a snapshot on an idle snapshotter the cache holds nothing a reader can see *)
Lemma write_snapshot_cache_empty stem now s : cache_is_empty (sh_cache (write_snapshot stem now s)) = true.
Proof. unfold write_snapshot. destruct (cache_is_empty (sh_cache s)) eqn:E; [exact E|reflexivity]. Qed.

(* ---------- the archive of a full backup ---------- *)

Lemma link_members_names base fs : map fst (link_members base fs) = dir_names fs.
Proof.
  unfold link_members, dir_names. induction fs as [|f r IH]; [reflexivity|]. cbn [flat_map].
  rewrite map_app, IH. f_equal. unfold file_names. destruct (sf_has_ts f); reflexivity.
Qed.

Lemma wf_files_sorted fs : wf_files fs = true -> strictly_sorted (dir_names fs) = true.
Proof. unfold wf_files. intros H. apply andb_true_iff in H. tauto. Qed.

Lemma wf_files_tombs fs f : wf_files fs = true -> In f fs -> sf_has_ts f = false -> sf_tombs f = [].
Proof.
  unfold wf_files. intros H Hin Hts. apply andb_true_iff in H. destruct H as [_ H].
  rewrite forallb_forall in H. specialize (H f Hin). rewrite Hts in H. cbn in H. destruct (sf_tombs f); [reflexivity|discriminate].
Qed.

Lemma walk_wf base fs : wf_files fs = true -> walk base fs = map snd (link_members base fs).
Proof.
  intros H. unfold walk. rewrite sort_sorted; [reflexivity|]. rewrite link_members_names. apply wf_files_sorted. exact H.
Qed.

(* ---------- readFileFromBackup on the members of a snapshot directory ---------- *)

Lemma member_path_app base x s : member_path base (x ++ s) = (base ++ slash :: x) ++ s.
Proof. unfold member_path. rewrite <- app_assoc. reflexivity. Qed.

Lemma member_path_prefix base n : has_prefix (member_path base n) base = true.
Proof. apply has_prefix_app. Qed.

Lemma member_path_rel base n : skipn (length base + 1) (member_path base n) = n.
Proof.
  unfold member_path. change (base ++ slash :: n) with (base ++ [slash] ++ n). rewrite app_assoc.
  apply skipn_app_exact. rewrite app_length. reflexivity.
Qed.

Lemma classify_tsm tf base x mt b :
  classify tf base (mk_member (member_path base (x ++ tsm_suffix)) false mt b) = Some (KTsm, x ++ tsm_suffix).
Proof.
  unfold classify. cbn [m_name m_dir]. rewrite member_path_prefix, member_path_rel.
  rewrite member_path_app, tsm_name_not_tomb, tsm_name_has_tsm_ext. rewrite !andb_false_r. reflexivity.
Qed.

Lemma classify_tomb base x mt b :
  classify true base (mk_member (member_path base (x ++ tomb_suffix)) false mt b) = Some (KTomb, x ++ tomb_suffix).
Proof.
  unfold classify. cbn [m_name m_dir]. rewrite member_path_prefix, member_path_rel.
  rewrite member_path_app, tomb_name_is_tomb. reflexivity.
Qed.

(* the unrepaired test skips the tombstone member *)
Lemma classify_tomb_unpatched base x mt b :
  classify false base (mk_member (member_path base (x ++ tomb_suffix)) false mt b) = None.
Proof.
  unfold classify. cbn [m_name m_dir]. rewrite member_path_app, tomb_name_no_tsm_ext. reflexivity.
Qed.

Definition entry_of (tf : bool) (base : name) (m : member) : list (name * (fkind * mbody)) :=
  match classify tf base m with None => [] | Some (k, fn) => [(fn, (k, m_body m))] end.

Lemma read_members_fold tf fresh base ms : forall st,
  fold_left (read_member tf fresh base false) ms st =
  mk_rstate (rs_new st ++ flat_map (entry_of tf base) ms) (rs_names st) (rs_gen st).
Proof.
  induction ms as [|m r IH]; intros [nw nm g]; cbn [fold_left flat_map rs_new rs_names rs_gen].
  - rewrite app_nil_r. reflexivity.
  - rewrite IH. unfold read_member, entry_of. destruct (classify tf base m) as [[k fn]|]; cbn [rs_new rs_names rs_gen].
    + rewrite <- app_assoc. reflexivity.
    + reflexivity.
Qed.

(* what ends up in the shard directory, file by file *)
Definition new_of (fs : list sfile) : list (name * (fkind * mbody)) :=
  flat_map (fun f => (if sf_has_ts f then [(tomb_name f, (KTomb, BTomb (sf_tombs f)))] else []) ++
                     [(tsm_name f, (KTsm, BTsm (sf_blocks f)))]) fs.

Definition dir_of (fs : list sfile) : dir := map (fun e => (fst e, snd (snd e))) (new_of fs).

Lemma entries_of_link base fs :
  flat_map (entry_of true base) (map snd (link_members base fs)) = new_of fs.
Proof.
  unfold link_members, new_of. induction fs as [|f r IH]; [reflexivity|]. cbn [flat_map].
  rewrite map_app, flat_map_app, IH. f_equal.
  unfold tomb_name, tsm_name. destruct (sf_has_ts f); cbn [map snd flat_map app].
  - unfold entry_of. rewrite classify_tomb, classify_tsm. reflexivity.
  - unfold entry_of. rewrite classify_tsm. reflexivity.
Qed.

Lemma new_of_names fs : map fst (new_of fs) = dir_names fs.
Proof.
  unfold new_of, dir_names. induction fs as [|f r IH]; [reflexivity|]. cbn [flat_map].
  rewrite map_app, IH. f_equal. unfold file_names. destruct (sf_has_ts f); reflexivity.
Qed.

Lemma new_of_installable fs : forallb (installable) (new_of fs) = true.
Proof.
  unfold new_of. induction fs as [|f r IH]; [reflexivity|]. cbn [flat_map]. rewrite forallb_app, IH.
  destruct (sf_has_ts f); reflexivity.
Qed.

Lemma install_new_of fs : wf_files fs = true -> install [] (new_of fs) = Some (dir_of fs).
Proof.
  intros H. unfold install. rewrite new_of_names.
  assert (Hnd : NoDup (dir_names fs)) by (apply strictly_sorted_NoDup, wf_files_sorted; exact H).
  apply nodup_names_spec in Hnd as Hb. rewrite Hb, new_of_installable. cbn [negb].
  rewrite (fold_put_fresh (@snd fkind mbody)); [reflexivity|]. cbn [map app]. rewrite new_of_names. exact Hnd.
Qed.

Lemma restore_dir_link base fs :
  wf_files fs = true ->
  restore_dir base [] (map snd (link_members base fs)) (length (map snd (link_members base fs))) EndMarker = Some (dir_of fs).
Proof.
  intros H. unfold restore_dir, overlay. rewrite firstn_all, read_members_fold. cbn [rs_new app].
  rewrite entries_of_link. apply install_new_of. exact H.
Qed.

(* ---------- reopening the restored directory ---------- *)

Lemma dir_of_names fs : map fst (dir_of fs) = dir_names fs.
Proof. unfold dir_of. rewrite map_map. cbn [fst]. rewrite <- new_of_names. reflexivity. Qed.

Lemma dir_of_cons f r :
  dir_of (f :: r) = ((if sf_has_ts f then [(tomb_name f, BTomb (sf_tombs f))] else []) ++ [(tsm_name f, BTsm (sf_blocks f))]) ++ dir_of r.
Proof.
  unfold dir_of. cbn [new_of flat_map]. rewrite !map_app. f_equal. destruct (sf_has_ts f); reflexivity.
Qed.

Definition tsm_entries (fs : list sfile) : list (name * mbody) := map (fun f => (tsm_name f, BTsm (sf_blocks f))) fs.

Lemma dir_of_tsm_filter fs :
  filter (fun e => has_suffix (fst e) tsm_suffix && match snd e with BTsm _ => true | _ => false end) (dir_of fs) = tsm_entries fs.
Proof.
  induction fs as [|f r IH]; [reflexivity|]. rewrite dir_of_cons, !filter_app, IH. cbn [tsm_entries map].
  unfold tomb_name, tsm_name. destruct (sf_has_ts f); cbn [filter fst snd app].
  - rewrite tomb_name_not_tsm, tsm_name_is_tsm. reflexivity.
  - rewrite tsm_name_is_tsm. reflexivity.
Qed.

Lemma in_dir_names n fs : In n (dir_names fs) ->
  exists g, In g fs /\ (n = tsm_name g \/ (sf_has_ts g = true /\ n = tomb_name g)).
Proof.
  induction fs as [|f r IH]; [intros []|]. cbn [dir_names flat_map]. intros H. apply in_app_or in H. destruct H as [H|H].
  - exists f. split; [left; reflexivity|]. unfold file_names in H. destruct (sf_has_ts f) eqn:E; cbn in H.
    + destruct H as [<-|[<-|[]]]; [right; split; reflexivity|left; reflexivity].
    + destruct H as [<-|[]]. left. reflexivity.
  - destruct (IH H) as (g & Hg & Hn). exists g. split; [right; exact Hg|exact Hn].
Qed.

Lemma tsm_name_in_dir_names f fs : In f fs -> In (tsm_name f) (dir_names fs).
Proof.
  intros H. unfold dir_names. apply in_flat_map. exists f. split; [exact H|]. unfold file_names. apply in_or_app. right. left. reflexivity.
Qed.

Lemma tsm_names_sorted fs : strictly_sorted (dir_names fs) = true -> strictly_sorted (map tsm_name fs) = true.
Proof.
  induction fs as [|f r IH]; intros H; [reflexivity|]. cbn [dir_names flat_map] in H.
  apply strictly_sorted_app in H. destruct H as (_ & Hr & Hlt). cbn [map strictly_sorted].
  rewrite (IH Hr), andb_true_r. apply forallb_forall. intros y Hy. apply in_map_iff in Hy. destruct Hy as (g & <- & Hg).
  apply Hlt; [unfold file_names; apply in_or_app; right; left; reflexivity|apply tsm_name_in_dir_names; exact Hg].
Qed.

Lemma NoDup_app_disjoint {A} (a b : list A) : NoDup (a ++ b) -> forall x, In x a -> In x b -> False.
Proof.
  induction a as [|h a IH]; intros H x Ha Hb; [destruct Ha|]. cbn in H. inversion H as [|? ? Hn Hd]; subst.
  destruct Ha as [<-|Ha]; [apply Hn, in_or_app; right; exact Hb|exact (IH Hd x Ha Hb)].
Qed.

Lemma NoDup_app_r {A} (a b : list A) : NoDup (a ++ b) -> NoDup b.
Proof. induction a as [|h a IH]; intros H; [exact H|]. cbn in H. inversion H; subst. apply IH. assumption. Qed.

Lemma stem_of_tomb_name f g : tomb_name f = tomb_name g -> tsm_name f = tsm_name g.
Proof. unfold tomb_name, tsm_name. intros E. apply app_inv_tail in E. rewrite E. reflexivity. Qed.

Lemma dir_get_tomb fs : NoDup (dir_names fs) -> forall f, In f fs ->
  dir_get (tomb_name f) (dir_of fs) = if sf_has_ts f then Some (BTomb (sf_tombs f)) else None.
Proof.
  induction fs as [|g r IH]; intros Hnd f Hin; [destruct Hin|].
  cbn [dir_names flat_map] in Hnd. rewrite dir_of_cons, dir_get_app.
  pose proof (NoDup_app_disjoint _ _ Hnd) as Hdis.
  assert (Hg_tsm : In (tsm_name g) (file_names g)) by (unfold file_names; apply in_or_app; right; left; reflexivity).
  destruct Hin as [<-|Hin].
  - destruct (sf_has_ts g) eqn:Ets; cbn [app dir_get].
    + rewrite nlist_eqb_refl. reflexivity.
    + rewrite nlist_eqb_neq by (apply tsm_tomb_names_differ).
      apply dir_get_none. rewrite dir_of_names. intros Hin'.
      destruct (in_dir_names _ _ Hin') as (g' & Hg' & [E|[_ E]]).
      * symmetry in E. exact (tsm_tomb_names_differ _ _ E).
      * apply stem_of_tomb_name in E. apply (Hdis (tsm_name g) Hg_tsm). rewrite E. apply tsm_name_in_dir_names. exact Hg'.
  - assert (Hne : tomb_name f <> tomb_name g).
    { intros E. apply stem_of_tomb_name in E. apply (Hdis (tsm_name g) Hg_tsm). rewrite <- E. apply tsm_name_in_dir_names. exact Hin. }
    assert (dir_get (tomb_name f)
              ((if sf_has_ts g then [(tomb_name g, BTomb (sf_tombs g))] else []) ++ [(tsm_name g, BTsm (sf_blocks g))]) = None) as ->.
    { destruct (sf_has_ts g); cbn [app dir_get].
      - rewrite nlist_eqb_neq by (intros E; apply Hne; symmetry; exact E).
        rewrite nlist_eqb_neq by (apply tsm_tomb_names_differ). reflexivity.
      - rewrite nlist_eqb_neq by (apply tsm_tomb_names_differ). reflexivity. }
    apply IH; [exact (NoDup_app_r _ _ Hnd)|exact Hin].
Qed.

Lemma dir_files_dir_of fs : wf_files fs = true -> dir_files (dir_of fs) = map to_tsm fs.
Proof.
  intros H. pose proof (wf_files_sorted _ H) as Hs.
  unfold dir_files, dir_tsm_entries. rewrite dir_of_tsm_filter.
  rewrite sort_sorted by (unfold tsm_entries; rewrite map_map; cbn [fst]; apply tsm_names_sorted; exact Hs).
  unfold tsm_entries. rewrite map_map. apply map_ext_in. intros f Hf. cbn [fst snd]. unfold to_tsm. f_equal.
  unfold dir_tombs, tsm_name. rewrite trim_suffix_app. fold (tomb_name f).
  rewrite (dir_get_tomb fs (strictly_sorted_NoDup _ Hs) f Hf).
  destruct (sf_has_ts f) eqn:E; [reflexivity|]. symmetry. exact (wf_files_tombs fs f H Hf E).
Qed.

(* ---------- restore (backup s) reads like s ---------- *)

Lemma read_cache_empty fs c k lo hi asc :
  cache_is_empty c = true -> read fs c k lo hi asc = read fs empty_cache k lo hi asc.
Proof. intros H. unfold read. rewrite (read_all_empty_cache fs c k H). reflexivity. Qed.

(* a complete archive of the linked files of [s'], restored into an empty shard, reads like
   the files of [s'] *)
Lemma restore_files_eq base s' :
  wf_files (sh_files s') = true ->
  exists d, restore_all base empty_dshard (walk base (sh_files s')) = Some d /\
            forall k lo hi asc, dshard_read d k lo hi asc = read (map to_tsm (sh_files s')) empty_cache k lo hi asc.
Proof.
  intros Hwf. exists (mk_dshard (dir_of (sh_files s')) empty_cache). split.
  - unfold restore_all, restore. rewrite (walk_wf base _ Hwf). cbn [d_dir empty_dshard].
    rewrite (restore_dir_link base _ Hwf). reflexivity.
  - intros k lo hi asc. unfold dshard_read. cbn [d_dir d_cache]. rewrite (dir_files_dir_of _ Hwf). reflexivity.
Qed.

Lemma restore_backup_eq_lemma stem now base s :
  wf_files (sh_files (write_snapshot stem now s)) = true ->
  exists s' ms d,
    backup SnapIdle stem now base None s = Some (s', ms) /\
    restore_all base empty_dshard ms = Some d /\
    forall k lo hi asc, dshard_read d k lo hi asc = shard_read s k lo hi asc.
Proof.
  intros Hwf. set (s' := write_snapshot stem now s) in *.
  destruct (restore_files_eq base s' Hwf) as (d & Hd & Hread).
  exists s', (walk base (sh_files s')), d. split; [reflexivity|]. split; [exact Hd|].
  intros k lo hi asc. rewrite Hread. rewrite <- (write_snapshot_read stem now s k lo hi asc). fold s'.
  unfold shard_read. symmetry. apply read_cache_empty. apply write_snapshot_cache_empty.
Qed.

(* the source is not changed, as far as any read can tell, by being backed up (whatever the
   snapshotter does, and also when the backup fails) *)
Lemma backup_preserves_source_lemma o stem now base since s s' ms :
  backup o stem now base since s = Some (s', ms) ->
  forall k lo hi asc, shard_read s' k lo hi asc = shard_read s k lo hi asc.
Proof.
  unfold backup, create_snapshot. intros H k lo hi asc. destruct o; cbn in H; inversion H; subst.
  - apply write_snapshot_read.
  - reflexivity.
Qed.

(* ---------- the pinned tree: tombstone members skipped ---------- *)

Definition restore_unpatched (base : name) (ds : dshard) (ms : list member) : option dshard :=
  match overlay false false (fun _ => []) base false 0 (d_dir ds) ms (length ms) EndMarker with
  | Some d' => Some (mk_dshard d' (d_cache ds))
  | None => None
  end.

Definition k_w : key := [109; 35; 102]%N.
Definition witness_tomb : shard :=
  mk_shard [mk_sfile [49]%N [(k_w, [[(1, VInt 7); (2, VInt 8)]])] [(k_w, (2, 2))] true 0 0 []] empty_cache.

Lemma restore_unpatched_resurrects :
  exists s stem now base s' ms d,
    wf_files (sh_files (write_snapshot stem now s)) = true /\
    backup SnapIdle stem now base None s = Some (s', ms) /\
    restore_unpatched base empty_dshard ms = Some d /\
    dshard_read d k_w 0 10 true <> shard_read s k_w 0 10 true.
Proof.
  exists witness_tomb, [50]%N, 0, [100]%N.
  eexists _, _, _. split; [vm_compute; reflexivity|]. split; [vm_compute; reflexivity|]. split; [vm_compute; reflexivity|].
  vm_compute. discriminate.
Qed.

(* ---------- the tolerated-busy branch loses the cache ---------- *)

Definition witness_busy : shard :=
  mk_shard [] {| c_snap := [(k_w, [(1, VInt 7)])]; c_hot := [(k_w, [(2, VInt 8)])] |}.

Lemma backup_busy_drops_cache :
  exists s stem now base s' ms d,
    backup SnapBusy stem now base None s = Some (s', ms) /\
    restore_all base empty_dshard ms = Some d /\
    dshard_read d k_w 0 10 true <> shard_read s k_w 0 10 true.
Proof.
  exists witness_busy, [50]%N, 0, [100]%N.
  eexists _, _, _. split; [vm_compute; reflexivity|]. split; [vm_compute; reflexivity|]. vm_compute. discriminate.
Qed.
