(* C18/ProofsIncr.v — incremental restores: an archive of the files modified after [since]
   restored OVER a destination that already holds an earlier copy.  The destination directory is
   treated as a finite map (names distinct); reopening sorts it, so only the map matters. *)
From Verif Require Import C18.Model C18.Names C18.Proofs C18.ProofsExport.
From VerifGen Require Import Consts.
Open Scope Z_scope.

(* ---------- the name order is a strict total order ---------- *)

Lemma lex_ltb_trans a : forall b c, lex_ltb a b = true -> lex_ltb b c = true -> lex_ltb a c = true.
Proof.
  induction a as [|x a IH]; intros [|y b] [|z c] H1 H2; cbn [lex_ltb] in *; try reflexivity; try discriminate.
  destruct (N.ltb_spec x y) as [L1|L1].
  - destruct (N.ltb_spec y z) as [L2|L2].
    + destruct (N.ltb_spec x z); [reflexivity|lia].
    + destruct (N.eqb_spec y z) as [E|E]; [|discriminate]. subst z. destruct (N.ltb_spec x y); [reflexivity|lia].
  - destruct (N.eqb_spec x y) as [E|E]; [|discriminate]. subst y.
    destruct (N.ltb_spec x z) as [L2|L2]; [reflexivity|].
    destruct (N.eqb_spec x z) as [E2|E2]; [|discriminate]. apply (IH b c); assumption.
Qed.

Lemma lex_ltb_total a : forall b, a <> b -> lex_ltb a b = true \/ lex_ltb b a = true.
Proof.
  induction a as [|x a IH]; intros [|y b] H; cbn [lex_ltb]; try (left; reflexivity); try (right; reflexivity); [contradiction|].
  destruct (N.ltb_spec x y) as [L|L]; [left; reflexivity|].
  destruct (N.ltb_spec y x) as [L'|L']; [right; reflexivity|].
  assert (x = y) by lia. subst y. rewrite N.eqb_refl. apply IH. intros E. apply H. rewrite E. reflexivity.
Qed.

(* ---------- insertion sort: sorted result, same elements, canonical ---------- *)

Lemma ins_in {A} (e x : name * A) l : In x (ins e l) <-> x = e \/ In x l.
Proof.
  induction l as [|y r IH]; cbn [ins]; [cbn; intuition|].
  destruct (lex_ltb (fst y) (fst e)); cbn [In]; [rewrite IH|]; intuition.
Qed.

Lemma sort_in {A} (x : name * A) l : In x (sort_entries l) <-> In x l.
Proof.
  unfold sort_entries. induction l as [|y r IH]; cbn [fold_right]; [tauto|]. rewrite ins_in, IH. cbn [In]. intuition.
Qed.

Definition sorted_entries {A} (l : list (name * A)) : Prop := strictly_sorted (map fst l) = true.

Lemma sorted_cons_inv {A} (x : name * A) r : sorted_entries (x :: r) ->
  sorted_entries r /\ forall y, In y r -> lex_ltb (fst x) (fst y) = true.
Proof.
  unfold sorted_entries. cbn [map strictly_sorted]. intros H. apply andb_true_iff in H. destruct H as [H1 H2]. split; [exact H2|].
  intros y Hy. rewrite forallb_forall in H1. apply H1. apply in_map. exact Hy.
Qed.

Lemma sorted_cons_intro {A} (x : name * A) r :
  sorted_entries r -> (forall y, In y r -> lex_ltb (fst x) (fst y) = true) -> sorted_entries (x :: r).
Proof.
  unfold sorted_entries. intros H1 H2. cbn [map strictly_sorted]. rewrite H1, andb_true_r. apply forallb_forall.
  intros n Hn. apply in_map_iff in Hn. destruct Hn as (y & <- & Hy). apply H2. exact Hy.
Qed.

Lemma ins_sorted {A} (e : name * A) l :
  sorted_entries l -> ~ In (fst e) (map fst l) -> sorted_entries (ins e l).
Proof.
  induction l as [|y r IH]; intros Hs Hn; cbn [ins].
  - apply sorted_cons_intro; [exact Hs|intros z []].
  - destruct (sorted_cons_inv _ _ Hs) as [Hr Hy]. cbn [map In] in Hn.
    destruct (lex_ltb (fst y) (fst e)) eqn:E.
    + apply sorted_cons_intro.
      * apply IH; [exact Hr|]. intros Hin. apply Hn. right. exact Hin.
      * intros z Hz. apply ins_in in Hz. destruct Hz as [->|Hz]; [exact E|apply Hy; exact Hz].
    + assert (Hey : lex_ltb (fst e) (fst y) = true).
      { destruct (lex_ltb_total (fst e) (fst y)) as [H|H]; [intros Heq; apply Hn; left; symmetry; exact Heq|exact H|congruence]. }
      apply sorted_cons_intro; [exact Hs|]. intros z [<-|Hz]; [exact Hey|].
      apply (lex_ltb_trans _ (fst y)); [exact Hey|apply Hy; exact Hz].
Qed.

Lemma sort_sorted_entries {A} (l : list (name * A)) : NoDup (map fst l) -> sorted_entries (sort_entries l).
Proof.
  induction l as [|y r IH]; intros Hnd; [reflexivity|]. cbn [map] in Hnd.
  inversion Hnd as [|? ? Hn Hd]; subst. change (sort_entries (y :: r)) with (ins y (sort_entries r)).
  apply ins_sorted; [apply IH; exact Hd|].
  intros Hin. apply Hn. apply in_map_iff in Hin. destruct Hin as (z & Ez & Hz). apply (proj1 (sort_in z r)) in Hz.
  rewrite <- Ez. apply in_map. exact Hz.
Qed.

Lemma sorted_unique {A} (a : list (name * A)) : forall b,
  sorted_entries a -> sorted_entries b -> (forall x, In x a <-> In x b) -> a = b.
Proof.
  induction a as [|x a IH]; intros [|y b] Ha Hb H.
  - reflexivity.
  - destruct (proj2 (H y) (or_introl eq_refl)).
  - destruct (proj1 (H x) (or_introl eq_refl)).
  - destruct (sorted_cons_inv _ _ Ha) as [Ha' Hxa]. destruct (sorted_cons_inv _ _ Hb) as [Hb' Hyb].
    assert (x = y).
    { destruct (proj1 (H x) (or_introl eq_refl)) as [E|Hx]; [symmetry; exact E|].
      destruct (proj2 (H y) (or_introl eq_refl)) as [E|Hy]; [exact E|].
      pose proof (Hyb x Hx) as L1. pose proof (Hxa y Hy) as L2. rewrite (lex_ltb_asym _ _ L1) in L2. discriminate. }
    subst y. f_equal. apply IH; [exact Ha'|exact Hb'|]. intros z. split; intros Hz.
    + destruct (proj1 (H z) (or_intror Hz)) as [E|Hz']; [|exact Hz'].
      subst z. pose proof (Hxa x Hz) as L. rewrite lex_ltb_irrefl in L. discriminate.
    + destruct (proj2 (H z) (or_intror Hz)) as [E|Hz']; [|exact Hz'].
      subst z. pose proof (Hyb x Hz) as L. rewrite lex_ltb_irrefl in L. discriminate.
Qed.

(* ---------- directories as finite maps ---------- *)

Lemma NoDup_app_intro_snoc {A} (l : list A) x : NoDup l -> ~ In x l -> NoDup (l ++ [x]).
Proof.
  induction l as [|a r IH]; intros H Hn; cbn; [constructor; [intros []|constructor]|].
  inversion H as [|? ? Ha Hr]; subst. constructor.
  - intros Hin. apply in_app_or in Hin. destruct Hin as [Hin|[E|[]]]; [contradiction|]. apply Hn. left. symmetry. exact E.
  - apply IH; [exact Hr|]. intros Hin. apply Hn. right. exact Hin.
Qed.

Lemma NoDup_map_filter_fst {A B} (p : A * B -> bool) (d : list (A * B)) : NoDup (map fst d) -> NoDup (map fst (filter p d)).
Proof.
  induction d as [|x r IH]; intros H; [constructor|]. cbn [map] in H. inversion H as [|? ? Hn Hd]; subst. cbn [filter].
  destruct (p x); [|exact (IH Hd)]. cbn [map]. constructor; [|exact (IH Hd)].
  intros Hin. apply Hn. apply in_map_iff in Hin. destruct Hin as (y & E & Hy). apply filter_In in Hy. rewrite <- E. apply in_map. tauto.
Qed.

Lemma dir_get_in n b d : dir_get n d = Some b -> In (n, b) d.
Proof.
  induction d as [|[n' b'] r IH]; cbn [dir_get]; [discriminate|].
  destruct (nlist_eqb n' n) eqn:E; [|intros H; right; exact (IH H)].
  apply nlist_eqb_eq in E. subst n'. intros H. inversion H. left. reflexivity.
Qed.

Lemma in_dir_get n b d : NoDup (map fst d) -> In (n, b) d -> dir_get n d = Some b.
Proof.
  induction d as [|[n' b'] r IH]; intros Hnd Hin; [destruct Hin|]. cbn [map fst] in Hnd. inversion Hnd as [|? ? Hn Hd]; subst.
  cbn [dir_get]. destruct Hin as [E|Hin].
  - inversion E; subst. rewrite nlist_eqb_refl. reflexivity.
  - rewrite nlist_eqb_neq; [exact (IH Hd Hin)|]. intros E. subst n'. apply Hn. apply (in_map fst) in Hin. exact Hin.
Qed.

Lemma dir_get_some_name n d : In n (map fst d) -> dir_get n d <> None.
Proof.
  induction d as [|[n' b'] r IH]; [intros []|]. cbn [map fst In dir_get]. intros [E|H].
  - subst n'. rewrite nlist_eqb_refl. discriminate.
  - destruct (nlist_eqb n' n); [discriminate|exact (IH H)].
Qed.

Lemma dir_put_names n b d : map fst (dir_put n b d) = if existsb (nlist_eqb n) (map fst d) then map fst d else map fst d ++ [n].
Proof.
  induction d as [|[n' b'] r IH]; [reflexivity|]. cbn [dir_put map fst existsb].
  destruct (nlist_eqb n' n) eqn:E.
  - apply nlist_eqb_eq in E. subst n'. rewrite nlist_eqb_refl. reflexivity.
  - assert (nlist_eqb n n' = false) as -> by (apply nlist_eqb_neq; intros E'; subst; rewrite nlist_eqb_refl in E; discriminate).
    cbn [map fst orb]. rewrite IH. destruct (existsb (nlist_eqb n) (map fst r)); reflexivity.
Qed.

Lemma dir_put_nodup n b d : NoDup (map fst d) -> NoDup (map fst (dir_put n b d)).
Proof.
  intros H. rewrite dir_put_names. destruct (existsb (nlist_eqb n) (map fst d)) eqn:E; [exact H|].
  apply NoDup_app_intro_snoc; [exact H|]. intros Hin. apply existsb_nlist_eqb in Hin. congruence.
Qed.

Lemma dir_get_put_same n b d : dir_get n (dir_put n b d) = Some b.
Proof.
  induction d as [|[n' b'] r IH]; cbn [dir_put dir_get]; [rewrite nlist_eqb_refl; reflexivity|].
  destruct (nlist_eqb n' n) eqn:E; cbn [dir_get]; rewrite E; [reflexivity|exact IH].
Qed.

Lemma dir_get_put_other n m b d : n <> m -> dir_get n (dir_put m b d) = dir_get n d.
Proof.
  intros Hne. induction d as [|[n' b'] r IH]; cbn [dir_put dir_get].
  - rewrite nlist_eqb_neq by (intros E; apply Hne; symmetry; exact E). reflexivity.
  - destruct (nlist_eqb n' m) eqn:E; cbn [dir_get].
    + apply nlist_eqb_eq in E. subst n'. rewrite nlist_eqb_neq by (intros E; apply Hne; symmetry; exact E). reflexivity.
    + destruct (nlist_eqb n' n); [reflexivity|exact IH].
Qed.

Definition put_all (es : list (name * (fkind * mbody))) (d : dir) : dir :=
  fold_left (fun d e => dir_put (fst e) (snd (snd e)) d) es d.

Lemma put_all_nodup es : forall d, NoDup (map fst d) -> NoDup (map fst (put_all es d)).
Proof. unfold put_all. induction es as [|e r IH]; intros d H; [exact H|]. cbn [fold_left]. apply IH, dir_put_nodup, H. Qed.

Lemma put_all_get_other n es : forall d, ~ In n (map fst es) -> dir_get n (put_all es d) = dir_get n d.
Proof.
  unfold put_all. induction es as [|e r IH]; intros d H; [reflexivity|]. cbn [fold_left map In] in *.
  rewrite IH by (intros Hin; apply H; right; exact Hin). apply dir_get_put_other. intros E. apply H. left. symmetry. exact E.
Qed.

Lemma put_all_get_in n k b es : forall d, NoDup (map fst es) -> In (n, (k, b)) es -> dir_get n (put_all es d) = Some b.
Proof.
  unfold put_all. induction es as [|e r IH]; intros d Hnd Hin; [destruct Hin|]. cbn [fold_left map] in *.
  inversion Hnd as [|? ? Hn Hd]; subst. destruct Hin as [E|Hin].
  - subst e. cbn [fst snd]. fold (put_all r (dir_put n b d)). rewrite put_all_get_other by exact Hn. apply dir_get_put_same.
  - apply IH; assumption.
Qed.

(* ---------- what a since-bounded archive installs ---------- *)

Definition ship (since : Z) (f : sfile) : list (name * (fkind * mbody)) :=
  (if sf_has_ts f && (since <? sf_tmtime f) then [(tomb_name f, (KTomb, BTomb (sf_tombs f)))] else []) ++
  (if since <? sf_mtime f then [(tsm_name f, (KTsm, BTsm (sf_blocks f)))] else []).

Lemma since_entries base since fs :
  flat_map (entry_of true base) (since_filter (Some since) (map snd (link_members base fs))) = flat_map (ship since) fs.
Proof.
  unfold since_filter, link_members. induction fs as [|f r IH]; [reflexivity|]. cbn [flat_map].
  rewrite map_app, filter_app, flat_map_app, IH. f_equal. unfold ship, tomb_name, tsm_name.
  destruct (sf_has_ts f); cbn [map snd filter m_mtime app andb];
    destruct (since <? sf_tmtime f), (since <? sf_mtime f); cbn [flat_map app]; unfold entry_of;
    rewrite ?classify_tomb, ?classify_tsm; reflexivity.
Qed.

Lemma ship_in_new since fs e : In e (flat_map (ship since) fs) -> In e (new_of fs).
Proof.
  unfold new_of. rewrite !in_flat_map. intros (f & Hf & He). exists f. split; [exact Hf|]. unfold ship in He.
  apply in_app_or in He. apply in_or_app. destruct He as [He|He].
  - left. destruct (sf_has_ts f); [|destruct He]. destruct (since <? sf_tmtime f); [exact He|destruct He].
  - right. destruct (since <? sf_mtime f); [exact He|destruct He].
Qed.

Lemma ship_names_sorted since fs :
  strictly_sorted (dir_names fs) = true -> strictly_sorted (map fst (flat_map (ship since) fs)) = true.
Proof.
  induction fs as [|f r IH]; intros H; [reflexivity|].
  cbn [dir_names flat_map] in H. apply strictly_sorted_app in H. destruct H as (Hf & Hr & Hlt).
  cbn [flat_map]. rewrite map_app. apply strictly_sorted_app_intro.
  - unfold ship, file_names in *. destruct (sf_has_ts f), (since <? sf_tmtime f), (since <? sf_mtime f);
      cbn [andb map fst app strictly_sorted forallb] in *; try reflexivity. exact Hf.
  - apply IH. exact Hr.
  - intros x y Hx Hy. apply Hlt.
    + apply in_map_iff in Hx. destruct Hx as (e & <- & He). unfold ship, file_names in *. apply in_app_or in He. apply in_or_app.
      destruct He as [He|He].
      * left. destruct (sf_has_ts f); [|destruct He]. cbn [andb] in He. destruct (since <? sf_tmtime f); [|destruct He].
        destruct He as [<-|[]]. left. reflexivity.
      * right. destruct (since <? sf_mtime f); [|destruct He]. destruct He as [<-|[]]. left. reflexivity.
    + apply in_map_iff in Hy. destruct Hy as (e & <- & He). apply ship_in_new in He.
      rewrite <- new_of_names. apply in_map. exact He.
Qed.

Lemma ship_installable since fs : forallb installable (flat_map (ship since) fs) = true.
Proof.
  apply forallb_forall. intros e He. apply ship_in_new in He.
  pose proof (new_of_installable fs) as H. rewrite forallb_forall in H. apply H. exact He.
Qed.

(* ---------- the hypothesis of an incremental restore ---------- *)

(* [fs0]: the files the destination holds (an exact earlier copy); [fs1]: the source's files when
   the increment is taken.  Whatever is not newer than [since] is unchanged, and no file of the
   earlier copy has been removed from the source (no compaction replaced it) nor lost its
   tombstone file. *)
Definition incr_hyp (since : Z) (fs0 fs1 : list sfile) : Prop :=
  (forall f, In f fs1 -> since < sf_mtime f \/
      exists f0, In f0 fs0 /\ sf_stem f0 = sf_stem f /\ sf_blocks f0 = sf_blocks f) /\
  (forall f, In f fs1 -> sf_has_ts f = true -> since < sf_tmtime f \/
      exists f0, In f0 fs0 /\ sf_stem f0 = sf_stem f /\ sf_has_ts f0 = true /\ sf_tombs f0 = sf_tombs f) /\
  (forall f0, In f0 fs0 -> exists f, In f fs1 /\ sf_stem f = sf_stem f0 /\ (sf_has_ts f0 = true -> sf_has_ts f = true)).

Lemma in_dir_of n b fs : In (n, b) (dir_of fs) ->
  exists f, In f fs /\ ((n = tsm_name f /\ b = BTsm (sf_blocks f)) \/ (sf_has_ts f = true /\ n = tomb_name f /\ b = BTomb (sf_tombs f))).
Proof.
  unfold dir_of, new_of. intros H. apply in_map_iff in H. destruct H as ([n' [k b']] & E & He). cbn [fst snd] in E. inversion E; subst.
  apply in_flat_map in He. destruct He as (f & Hf & He). exists f. split; [exact Hf|]. apply in_app_or in He. destruct He as [He|He].
  - destruct (sf_has_ts f) eqn:Ets; [|destruct He]. destruct He as [E'|[]]. inversion E'; subst. right. repeat split; reflexivity.
  - destruct He as [E'|[]]. inversion E'; subst. left. split; reflexivity.
Qed.

Lemma dir_of_tsm_in f fs : In f fs -> In (tsm_name f, BTsm (sf_blocks f)) (dir_of fs).
Proof.
  intros H. unfold dir_of, new_of. apply in_map_iff. exists (tsm_name f, (KTsm, BTsm (sf_blocks f))). split; [reflexivity|].
  apply in_flat_map. exists f. split; [exact H|]. apply in_or_app. right. left. reflexivity.
Qed.

Lemma dir_of_tomb_in f fs : In f fs -> sf_has_ts f = true -> In (tomb_name f, BTomb (sf_tombs f)) (dir_of fs).
Proof.
  intros H Hts. unfold dir_of, new_of. apply in_map_iff. exists (tomb_name f, (KTomb, BTomb (sf_tombs f))). split; [reflexivity|].
  apply in_flat_map. exists f. split; [exact H|]. apply in_or_app. left. rewrite Hts. left. reflexivity.
Qed.

Lemma dir_of_nodup fs : wf_files fs = true -> NoDup (map fst (dir_of fs)).
Proof. intros H. rewrite dir_of_names. apply strictly_sorted_NoDup, wf_files_sorted, H. Qed.

(* a destination that is, as a map, the directory of [fs0], after the increment is the directory of [fs1] *)
Lemma incr_dir_get since fs0 fs1 d0 :
  wf_files fs0 = true -> wf_files fs1 = true -> incr_hyp since fs0 fs1 ->
  (forall n, dir_get n d0 = dir_get n (dir_of fs0)) ->
  forall n, dir_get n (put_all (flat_map (ship since) fs1) d0) = dir_get n (dir_of fs1).
Proof.
  intros Hwf0 Hwf1 (Htsm & Htomb & Hkeep) Hd0 n.
  pose proof (dir_of_nodup _ Hwf0) as Hnd0. pose proof (dir_of_nodup _ Hwf1) as Hnd1.
  assert (Hsnd : NoDup (map fst (flat_map (ship since) fs1))) by (apply strictly_sorted_NoDup, ship_names_sorted, wf_files_sorted, Hwf1).
  destruct (in_dec (list_eq_dec N.eq_dec) n (map fst (flat_map (ship since) fs1))) as [Hin|Hnin].
  - apply in_map_iff in Hin. destruct Hin as ([n' [k b]] & E & He). cbn [fst] in E. subst n'.
    rewrite (put_all_get_in n k b _ d0 Hsnd He). symmetry. apply in_dir_get; [exact Hnd1|].
    apply ship_in_new in He. unfold dir_of. apply in_map_iff. exists (n, (k, b)). split; [reflexivity|exact He].
  - rewrite put_all_get_other by exact Hnin. rewrite Hd0.
    destruct (dir_get n (dir_of fs1)) as [b|] eqn:E1.
    + apply dir_get_in in E1. destruct (in_dir_of _ _ _ E1) as (f & Hf & [[-> ->]|(Hts & -> & ->)]).
      * destruct (Htsm f Hf) as [Hnew|(f0 & Hf0 & Hst & Hbl)].
        -- exfalso. apply Hnin. apply in_map_iff. exists (tsm_name f, (KTsm, BTsm (sf_blocks f))). split; [reflexivity|].
           apply in_flat_map. exists f. split; [exact Hf|]. unfold ship. apply in_or_app. right.
           destruct (Z.ltb_spec since (sf_mtime f)); [left; reflexivity|lia].
        -- apply in_dir_get; [exact Hnd0|]. replace (tsm_name f) with (tsm_name f0) by (unfold tsm_name; rewrite Hst; reflexivity).
           rewrite <- Hbl. apply dir_of_tsm_in. exact Hf0.
      * destruct (Htomb f Hf Hts) as [Hnew|(f0 & Hf0 & Hst & Hts0 & Htb)].
        -- exfalso. apply Hnin. apply in_map_iff. exists (tomb_name f, (KTomb, BTomb (sf_tombs f))). split; [reflexivity|].
           apply in_flat_map. exists f. split; [exact Hf|]. unfold ship. apply in_or_app. left. rewrite Hts. cbn [andb].
           destruct (Z.ltb_spec since (sf_tmtime f)); [left; reflexivity|lia].
        -- apply in_dir_get; [exact Hnd0|]. replace (tomb_name f) with (tomb_name f0) by (unfold tomb_name; rewrite Hst; reflexivity).
           rewrite <- Htb. apply dir_of_tomb_in; assumption.
    + destruct (dir_get n (dir_of fs0)) as [b0|] eqn:E0; [|reflexivity]. exfalso.
      apply dir_get_in in E0. destruct (in_dir_of _ _ _ E0) as (f0 & Hf0 & [[-> _]|(Hts0 & -> & _)]);
        destruct (Hkeep f0 Hf0) as (f & Hf & Hst & Hts).
      * apply (dir_get_some_name (tsm_name f0) (dir_of fs1)); [|exact E1].
        replace (tsm_name f0) with (tsm_name f) by (unfold tsm_name; rewrite Hst; reflexivity).
        apply (in_map fst (dir_of fs1) (tsm_name f, BTsm (sf_blocks f))). apply dir_of_tsm_in. exact Hf.
      * apply (dir_get_some_name (tomb_name f0) (dir_of fs1)); [|exact E1].
        replace (tomb_name f0) with (tomb_name f) by (unfold tomb_name; rewrite Hst; reflexivity).
        apply (in_map fst (dir_of fs1) (tomb_name f, BTomb (sf_tombs f))). apply dir_of_tomb_in; [exact Hf|exact (Hts Hts0)].
Qed.

(* two directories that are equal as maps reopen to the same file list *)
Lemma dir_files_ext d1 d2 :
  NoDup (map fst d1) -> NoDup (map fst d2) -> (forall n, dir_get n d1 = dir_get n d2) -> dir_files d1 = dir_files d2.
Proof.
  intros H1 H2 Hget. unfold dir_files.
  assert (Hmem : forall e, In e d1 <-> In e d2).
  { intros [n b]. split; intros H.
    - apply dir_get_in. rewrite <- Hget. apply in_dir_get; assumption.
    - apply dir_get_in. rewrite Hget. apply in_dir_get; assumption. }
  assert (Hent : dir_tsm_entries d1 = dir_tsm_entries d2).
  { unfold dir_tsm_entries. apply sorted_unique.
    - apply sort_sorted_entries. apply (NoDup_map_filter_fst _ d1 H1).
    - apply sort_sorted_entries. apply (NoDup_map_filter_fst _ d2 H2).
    - intros e. rewrite !sort_in, !filter_In, Hmem. reflexivity. }
  rewrite Hent. apply map_ext. intros e. f_equal. unfold dir_tombs. rewrite Hget. reflexivity.
Qed.

Lemma incremental_restore_lemma base since fs0 fs1 d0 c :
  wf_files fs0 = true -> wf_files fs1 = true -> incr_hyp since fs0 fs1 ->
  NoDup (map fst d0) -> (forall n, dir_get n d0 = dir_get n (dir_of fs0)) ->
  let ms := since_filter (Some since) (walk base fs1) in
  exists d1,
    restore base (mk_dshard d0 c) ms (length ms) EndMarker = Some (mk_dshard d1 c) /\
    NoDup (map fst d1) /\ (forall n, dir_get n d1 = dir_get n (dir_of fs1)) /\
    forall k lo hi asc, dshard_read (mk_dshard d1 c) k lo hi asc = read (map to_tsm fs1) c k lo hi asc.
Proof.
  intros Hwf0 Hwf1 Hh Hnd0 Hd0. cbn zeta. rewrite (walk_wf base fs1 Hwf1).
  exists (put_all (flat_map (ship since) fs1) d0).
  assert (Hnd1 : NoDup (map fst (put_all (flat_map (ship since) fs1) d0))) by (apply put_all_nodup; exact Hnd0).
  pose proof (incr_dir_get since fs0 fs1 d0 Hwf0 Hwf1 Hh Hd0) as Hget.
  split; [|split; [exact Hnd1|split; [exact Hget|]]].
  - unfold restore, restore_dir, overlay. rewrite firstn_all, read_members_fold. cbn [rs_new app d_dir d_cache].
    rewrite since_entries. unfold install.
    assert (Hs : NoDup (map fst (flat_map (ship since) fs1))) by (apply strictly_sorted_NoDup, ship_names_sorted, wf_files_sorted, Hwf1).
    apply nodup_names_spec in Hs. rewrite Hs, ship_installable. reflexivity.
  - intros k lo hi asc. unfold dshard_read. cbn [d_dir d_cache].
    rewrite (dir_files_ext _ (dir_of fs1) Hnd1 (dir_of_nodup _ Hwf1) Hget), (dir_files_dir_of _ Hwf1). reflexivity.
Qed.
