(* C18/Run.v — correspondence cases.  The harness records the layer-A state of a real source
   shard (read back from its directory and cache), the archive the implementation produced,
   and what the destination shard answers afterwards; [check_case] runs the model on the same
   state and evaluates the executable spec (C18/Spec.v) on the implementation's observation.
   result code: 0 agree & spec holds, 1 differ & spec holds, 2 differ & spec fails,
                3 agree & spec fails (model mirrors a defect). *)
From Verif Require Export C18.Model C18.Spec.
From VerifGen Require Import Consts.
Open Scope Z_scope.

Definition code (agree spec_ok : bool) : N :=
  match agree, spec_ok with
  | true, true => 0 | false, true => 1 | false, false => 2 | true, false => 3
  end%N.

(* an archive member as the harness decoded it *)
Record amember := mk_amember {
  am_name : name; am_kind : N (* 0 tsm, 1 tombstone, 2 other *); am_dir : bool; am_size : Z;
  am_blocks : blocks; am_tombs : list (key * (Z * Z))
}.

Definition to_member (a : amember) : member :=
  mk_member (am_name a) (am_dir a) 0
    (if N.eqb (am_kind a) 0 then BTsm (am_blocks a) else if N.eqb (am_kind a) 1 then BTomb (am_tombs a) else BOther).

(* one round of an incremental sequence: the source state when the backup is taken, the archive,
   and the destination after the archive has been restored over what it already held *)
Record round := mk_round {
  r_files : list sfile; r_cache : kvs; r_next_stem : name; r_has_since : bool; r_since : Z;
  r_src : kvs; r_backup_err : bool; r_members : list amember; r_archive_ok : bool;
  r_restore_err : bool; r_dst_ok : bool; r_dst : kvs; r_dst_files : list (name * bool)
}.

(* one copy-shard attempt of a sequence to the same destination *)
Record cattempt := mk_cattempt {
  ca_files : list sfile; ca_cache : kvs; ca_next_stem : name;
  ca_cut : Z; ca_total : Z; ca_src_fail : Z; ca_src_fail_hdr : bool;
  ca_src : kvs; ca_members : list amember; ca_archive_ok : bool;
  ca_advertised : bool; ca_dst_ok : bool; ca_dst : kvs; ca_dst_files : list (name * bool)
}.

Inductive case :=
| mk_copyseq (base : name) (attempts : list cattempt)
| mk_incr (base : name) (rounds : list round)
| mk_case (mode : N)                       (* 0 full, 1 import, 2 since, 3 cut, 4 rpc, 5 export, 6 busy, 7 source fault, 8 source fault through the RPC *)
          (files : list sfile) (cache : kvs)
          (retained : kvs) (retained_stem : name)   (* a snapshot the cache retained after a failed write ([] = none); the file name its flush gets *)
          (snap : N)                       (* the source's snapshotter: 0 idle, 1 busy for all attempts, 2 snapshot compactions disabled *)
          (next_stem base : name)
          (since exlo exhi cut total : Z)
          (src_fail : Z) (src_fail_hdr : bool)  (* the source fails after this many complete members (-1: no fault); header of the next one written *)
          (during : list (key * tv))
          (extra : list amember)           (* members injected in front of the archive before the restore *)
          (src_before src_after : kvs)
          (backup_err : bool) (members : list amember) (archive_ok : bool)
          (restore_err dst_ok : bool) (dst : kvs) (dst_files : list (name * bool))
          (advertised : bool).

(* ---------- comparisons ---------- *)

Fixpoint list_eqb {A} (eqb : A -> A -> bool) (a b : list A) : bool :=
  match a, b with
  | [], [] => true
  | x :: a', y :: b' => eqb x y && list_eqb eqb a' b'
  | _, _ => false
  end.

Fixpoint bl_get (k : key) (b : blocks) : list (list tv) :=
  match b with
  | [] => []
  | (k', bs) :: r => if key_eqb k' k then bs else bl_get k r
  end.

Definition blocks_equiv (a b : blocks) : bool :=
  forallb (fun k => list_eqb tvl_eqb (bl_get k a) (bl_get k b)) (map fst a ++ map fst b).

Definition tomb_eqb (a b : key * (Z * Z)) : bool :=
  nlist_eqb (fst a) (fst b) && (fst (snd a) =? fst (snd b)) && (snd (snd a) =? snd (snd b)).

Definition body_equiv (a b : mbody) : bool :=
  match a, b with
  | BTsm x, BTsm y => blocks_equiv x y
  | BTomb x, BTomb y => list_eqb tomb_eqb x y
  | BOther, BOther => true
  | _, _ => false
  end.

Definition member_equiv (a b : member) : bool :=
  nlist_eqb (m_name a) (m_name b) && Bool.eqb (m_dir a) (m_dir b) && body_equiv (m_body a) (m_body b).

(* ---------- model side ---------- *)

Definition t_min : Z := - 2 ^ 63.
Definition t_max : Z := 2 ^ 63.

Fixpoint nodup_keys (l : list key) : list key :=
  match l with
  | [] => []
  | k :: r => if existsb (nlist_eqb k) r then nodup_keys r else k :: nodup_keys r
  end.

Definition shard_keys (s : shard) : list key :=
  nodup_keys (flat_map (fun f => map fst (sf_blocks f)) (sh_files s) ++ cache_keys (sh_cache s)).

Definition shard_reads (s : shard) : kvs := map (fun k => (k, shard_read s k t_min t_max true)) (shard_keys s).

Definition dshard_keys (d : dshard) : list key :=
  nodup_keys (flat_map (fun f => kv_keys (f_data f)) (dir_files (d_dir d)) ++ cache_keys (d_cache d)).

Definition dshard_reads (d : dshard) : kvs := map (fun k => (k, dshard_read d k t_min t_max true)) (dshard_keys d).

Definition dshard_file_list (d : dshard) : list (name * bool) :=
  map (fun e => (trim_suffix (fst e) tsm_suffix,
                 match dir_get (trim_suffix (fst e) tsm_suffix ++ tomb_suffix) (d_dir d) with Some _ => true | None => false end))
      (dir_tsm_entries (d_dir d)).

(* formatFileName(g, 1) = "%09d-%09d" *)
Fixpoint digits_rev (fuel : nat) (n : N) : list N :=
  match fuel with O => [] | S f => (48 + n mod 10)%N :: digits_rev f (n / 10)%N end.
Definition pad9 (n : N) : name := rev (digits_rev 9 n).
Definition fresh_impl (g : nat) : name := pad9 (N.of_nat g) ++ 45%N :: pad9 1.

Definition name_flag_eqb (a b : name * bool) : bool := nlist_eqb (fst a) (fst b) && Bool.eqb (snd a) (snd b).

(* spec of the since filter, on the observed directory: every file modified after [since], nothing else *)
Definition expected_since (base : name) (since : Z) (files : list sfile) : list name :=
  flat_map (fun f =>
    (if sf_has_ts f && (since <? sf_tmtime f) then [base ++ slash :: sf_stem f ++ tomb_suffix] else []) ++
    (if since <? sf_mtime f then [base ++ slash :: sf_stem f ++ tsm_suffix] else [])) files.

Definition now_oracle : Z := 2 ^ 62.   (* mtime of a file written by the backup's own snapshot: newer than any [since] used *)

(* incremental sequences: the model restores each archive over the destination directory it
   computed for the previous round; the property: after every round the destination reads like
   the source did when that round's backup was taken *)
Fixpoint run_rounds (base : name) (d : dshard) (rounds : list round) : bool * bool :=
  match rounds with
  | [] => (true, true)
  | r :: rest =>
      let src := mk_shard (r_files r) {| c_snap := []; c_hot := r_cache r |} in
      let wf := wf_files (sh_files (write_snapshot (r_next_stem r) now_oracle src)) && wf_blocks (r_files r) in
      let spec := negb (r_backup_err r) && negb (r_restore_err r) && r_dst_ok r && same_reads (r_dst r) (r_src r) in
      match backup SnapIdle (r_next_stem r) now_oracle base (if r_has_since r then Some (r_since r) else None) src with
      | None => (false, false)
      | Some (_, ms) =>
          let res := restore base d ms (length ms) EndMarker in
          let d' := match res with Some x => x | None => d end in
          let agree := wf && same_reads (shard_reads src) (r_src r) &&
                       negb (r_backup_err r) && r_archive_ok r &&
                       list_eqb member_equiv ms (map to_member (r_members r)) &&
                       Bool.eqb (r_restore_err r) (match res with Some _ => false | None => true end) &&
                       r_dst_ok r && same_reads (dshard_reads d') (r_dst r) &&
                       list_eqb name_flag_eqb (dshard_file_list d') (r_dst_files r) in
          let '(a, s) := run_rounds base d' rest in
          (agree && a, spec && s)
      end
  end.

Definition check_incr (base : name) (rounds : list round) : N :=
  let '(a, s) := run_rounds base empty_dshard rounds in code a s.

(* copy-shard attempts to the same destination: the model's destination state (absent, created
   but empty, an older copy) is threaded through [copy_shard]; the property: an acknowledged
   attempt leaves the destination reading like the source at that time, a faulty attempt is
   acknowledged only if that is the case *)
Fixpoint run_copyseq (base : name) (dst : option dshard) (atts : list cattempt) : bool * bool :=
  match atts with
  | [] => (true, true)
  | a :: rest =>
      let src := mk_shard (ca_files a) {| c_snap := []; c_hot := ca_cache a |} in
      let wf := wf_files (sh_files (write_snapshot (ca_next_stem a) now_oracle src)) && wf_blocks (ca_files a) in
      let cutk := if ca_cut a <? 0 then None else Some (ca_cut a) in
      let sfail := if ca_src_fail a <? 0 then None else Some (Z.to_nat (ca_src_fail a), ca_src_fail_hdr a) in
      let faulty := ((0 <=? ca_cut a) && (ca_cut a <? ca_total a)) || (0 <=? ca_src_fail a) in
      let r := copy_shard (mk_faults false false SnapIdle cutk sfail false false) (ca_next_stem a) now_oracle base
                          (map am_size (ca_members a)) src dst 1%N [] in
      let archive_agree :=
        match backup SnapIdle (ca_next_stem a) now_oracle base None src with
        | Some (_, ms) => list_eqb member_equiv ms (map to_member (ca_members a))
        | None => false
        end in
      let agree := wf && same_reads (shard_reads src) (ca_src a) && ca_archive_ok a && archive_agree &&
                   Bool.eqb (ca_advertised a) (cr_rpc_ok r) && ca_dst_ok a &&
                   same_reads (match cr_dst r with Some x => dshard_reads x | None => [] end) (ca_dst a) &&
                   list_eqb name_flag_eqb (match cr_dst r with Some x => dshard_file_list x | None => [] end) (ca_dst_files a) in
      let spec := if faulty then advertised_only_if_exact (ca_advertised a) (ca_dst_ok a) (ca_src a) (ca_src a) (ca_dst a) []
                  else ca_advertised a && ca_dst_ok a && same_reads (ca_dst a) (ca_src a) in
      let '(ag, sp) := run_copyseq base (cr_dst r) rest in
      (agree && ag, spec && sp)
  end.

Definition check_copyseq (base : name) (atts : list cattempt) : N :=
  let '(a, s) := run_copyseq base None atts in code a s.

Definition check_case (c : case) : N :=
  match c with
  | mk_incr base rounds => check_incr base rounds
  | mk_copyseq base attempts => check_copyseq base attempts
  | mk_case mode files cache retained retained_stem snap next_stem base since exlo exhi cut total src_fail src_fail_hdr during extra
            src_before src_after backup_err members archive_ok restore_err dst_ok dst dst_files advertised =>
    (* the state the source's requests see: files, retained snapshot, live cache *)
    let src_seen := mk_shard files {| c_snap := retained; c_hot := cache |} in
    (* Engine.flushCache: a retained snapshot is written out on its own before the backup's snapshot *)
    let src0 := match retained with
                | [] => mk_shard files {| c_snap := []; c_hot := cache |}
                | _ => flush_retained retained_stem now_oracle src_seen
                end in
    let files := sh_files src0 in
    let cutk := if cut <? 0 then None else Some cut in
    let is_cut := ((0 <=? cut) && (cut <? total)) || (0 <=? src_fail) || N.eqb snap 2 in
    let sfail := if src_fail <? 0 then None else Some (Z.to_nat src_fail, src_fail_hdr) in
    let obs_members := map to_member members in
    let sizes := map am_size members in
    (* -- what the model predicts for one candidate source state -- *)
    let predict (src : shard) (late : list (key * tv)) : bool :=
      (* disabled snapshot compactions: WriteSnapshot fails unless there is nothing to write *)
      let oracle := if N.eqb snap 1 then SnapBusy
                    else if N.eqb snap 2 && negb (cache_is_empty (sh_cache src)) then SnapFail else SnapIdle in
      let wf := wf_files (sh_files (write_snapshot next_stem now_oracle src)) && wf_blocks files in
      let archive :=
        if N.eqb mode 5 then export oracle next_stem now_oracle base exlo exhi src
        else backup oracle next_stem now_oracle base (if N.eqb mode 2 then Some since else None) src in
      match archive with
      | None => (* the source's backup fails before the first byte; through the RPC the destination
                   only sees the connection close: nothing installed, nothing acknowledged *)
                wf && (backup_err ||
                       ((N.eqb mode 4 || N.eqb mode 8) && restore_err && negb advertised && dst_ok && same_reads [] dst))
      | Some (src', ms0) =>
          let ms := map to_member extra ++ ms0 in
          let members_agree := list_eqb member_equiv ms obs_members in
          let '(res, adv) :=
            if N.eqb mode 4 || N.eqb mode 8 then
              let r := copy_shard (mk_faults false false oracle cutk sfail false false) next_stem now_oracle base sizes src None 1%N [] in
              ((if cr_rpc_ok r then cr_dst r else None), cr_rpc_ok r)
            else
              let '(n, ek) := match sfail with
                              | Some (k, hdr) => (k, source_error_end hdr)
                              | None => stream_end sizes cutk (length ms)
                              end in
              let r := if N.eqb mode 1 then import fresh_impl base 0 empty_dshard ms n ek
                       else restore base empty_dshard ms n ek in
              (r, match r with Some _ => true | None => false end) in
          let d := match res with Some d => d | None => empty_dshard end in
          wf && negb backup_err && archive_ok && members_agree &&
          Bool.eqb restore_err (match res with Some _ => false | None => true end) &&
          Bool.eqb advertised adv &&
          dst_ok && same_reads (dshard_reads d) dst &&
          list_eqb name_flag_eqb (dshard_file_list d) dst_files &&
          same_reads (shard_reads (mk_shard (sh_files src') (cache_write (sh_cache src') late))) src_after
      end in
    let with_during := mk_shard files (cache_write {| c_snap := []; c_hot := cache |} during) in
    let agree :=
      same_reads (shard_reads src_seen) src_before && same_reads (shard_reads src0) src_before &&
      (predict src0 during || match during with [] => false | _ => predict with_during [] end) in
    (* -- the property, on the implementation's observation only -- *)
    let src_ok := source_preserved src_before src_after during in
    let spec_ok :=
      if N.eqb mode 5 then
        src_ok && negb backup_err && negb restore_err && dst_ok && export_exact_in_window exlo exhi src_before dst
      else if N.eqb mode 2 then
        (* an incremental archive holds exactly the files (TSM and tombstone) modified after [since] *)
        src_ok && negb backup_err && negb restore_err && dst_ok &&
        list_eqb nlist_eqb (expected_since base since files) (map am_name members)
      else if is_cut then
        src_ok && advertised_only_if_exact advertised dst_ok src_before src_after dst during
      else
        src_ok && negb backup_err && negb restore_err && advertised && dst_ok &&
        copy_exact src_before src_after dst during in
    code agree spec_ok
  end.
