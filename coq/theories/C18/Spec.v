(* C18/Spec.v — the executable specification, stated on OBSERVED reads only (key -> ascending
   points over the full time range, as returned by Shard.CreateIterator).  It does not mention
   files, archives or the model. *)
From Verif Require Export Shard.Store.
Open Scope Z_scope.

Fixpoint tvl_eqb (a b : list tv) : bool :=
  match a, b with
  | [], [] => true
  | (t1, v1) :: a', (t2, v2) :: b' => (t1 =? t2) && value_eqb v1 v2 && tvl_eqb a' b'
  | _, _ => false
  end.

(* same reads: every key has the same points (a key without points = an absent key) *)
Definition same_reads (a b : kvs) : bool :=
  forallb (fun k => tvl_eqb (kv_get k a) (kv_get k b)) (kv_keys a ++ kv_keys b).

(* the reads after a batch of acknowledged writes: last write wins per timestamp *)
Definition reads_after_writes (m : kvs) (pts : list (key * tv)) : kvs :=
  map (fun k => (k, merge_lw (kv_get k m) (batch_values k pts))) (kv_keys m ++ map fst pts).

Definition same_reads_in (lo hi : Z) (a b : kvs) : bool :=
  forallb (fun k => tvl_eqb (include_range lo hi (kv_get k a)) (include_range lo hi (kv_get k b))) (kv_keys a ++ kv_keys b).

Definition tv_in (x : tv) (l : list tv) : bool := existsb (fun y => (fst x =? fst y) && value_eqb (snd x) (snd y)) l.
Definition reads_subset (a b : kvs) : bool :=
  forallb (fun k => forallb (fun x => tv_in x (kv_get k b)) (kv_get k a)) (kv_keys a).

(* C18, part 2: the source answers reads as before; writes acknowledged meanwhile are the only change *)
Definition source_preserved (before after : kvs) (during : list (key * tv)) : bool :=
  same_reads after (reads_after_writes before during).

(* C18, part 1: the copy answers every read as the source did when the backup was taken; with
   writes going on, as the source did at some moment of the backup (here: before or after the
   one concurrent batch) *)
Definition copy_exact (before after dst : kvs) (during : list (key * tv)) : bool :=
  same_reads dst before || (match during with [] => false | _ => same_reads dst after end).

(* C18, part 3: after a failure nothing is advertised unless it is an exact copy *)
Definition advertised_only_if_exact (advertised dst_ok : bool) (before after dst : kvs) (during : list (key * tv)) : bool :=
  negb advertised || (dst_ok && copy_exact before after dst during).

(* time-bounded export: exact inside the window.  Outside the window the property claims
   nothing: the export keeps whole blocks, so the copy may hold points of the source's files
   there (including values a newer, not exported block of the source overrides). *)
Definition export_exact_in_window (lo hi : Z) (before dst : kvs) : bool :=
  same_reads_in lo hi dst before.
