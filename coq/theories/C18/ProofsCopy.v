(* C18/ProofsCopy.v — connection cuts, the copy-shard protocol, writes interleaved with a
   backup, the since filter. *)
From Verif Require Import C18.Model C18.Names C18.Proofs.
From VerifGen Require Import Consts.
Open Scope Z_scope.

(* ---------- where a cut leaves the tar reader ---------- *)

(* length of the byte stream of an archive whose members have these sizes *)
Fixpoint stream_len (sizes : list Z) : Z :=
  match sizes with
  | [] => 1024
  | sz :: r => 512 + pad512 sz + stream_len r
  end.

Lemma locate_marker sizes : forall pos k i n,
  locate sizes pos k i = (n, EndMarker) -> pos + stream_len sizes <= k /\ n = (i + length sizes)%nat.
Proof.
  induction sizes as [|sz r IH]; intros pos k i n H; cbn [locate stream_len length] in *.
  - destruct (k =? pos); [discriminate|]. destruct (k =? pos + 512); [discriminate|].
    destruct (Z.leb_spec (pos + 1024) k) as [L|L]; [|discriminate]. inversion H; subst. split; lia.
  - destruct (k =? pos); [discriminate|]. destruct (k <? pos + 512 + sz); [discriminate|].
    destruct (k <=? pos + 512 + pad512 sz); [discriminate|].
    apply IH in H. destruct H as [H1 H2]. split; lia.
Qed.

(* a stream that ends anywhere before its last byte is refused *)
Lemma restore_cut_fails base ds ms sizes k :
  k < stream_len sizes ->
  restore base ds ms (fst (locate sizes 0 k 0)) (snd (locate sizes 0 k 0)) = None.
Proof.
  intros Hk. destruct (locate sizes 0 k 0) as [n ek] eqn:E. cbn [fst snd].
  destruct ek; try reflexivity.
  apply locate_marker in E. lia.
Qed.

Lemma restore_not_marker base ds ms n ek : ek <> EndMarker -> restore base ds ms n ek = None.
Proof. intros H. destruct ek; try reflexivity. contradiction. Qed.

(* the unrepaired overlay accepts a stream cut between two members: with the tombstone
   repair in place and a two-member archive cut after the first member *)
Definition two_files : shard :=
  mk_shard [mk_sfile [49]%N [(k_w, [[(1, VInt 7)]])] [] false 0 0 [];
            mk_sfile [50]%N [(k_w, [[(2, VInt 8)]])] [] false 0 0 []] empty_cache.

Lemma cut_stream_accepted_unpatched :
  exists s base sizes k d,
    let ms := walk base (sh_files s) in
    wf_files (sh_files s) = true /\ length sizes = length ms /\ 0 <= k < stream_len sizes /\
    overlay true false (fun _ => []) base false 0 [] ms (fst (locate sizes 0 k 0)) (snd (locate sizes 0 k 0)) = Some d /\
    read (dir_files d) empty_cache k_w 0 10 true <> shard_read s k_w 0 10 true.
Proof.
  exists two_files, [100]%N, [70; 70], 1024. eexists. cbn zeta.
  split; [vm_compute; reflexivity|]. split; [reflexivity|]. split; [vm_compute; split; [discriminate|reflexivity]|].
  split; [vm_compute; reflexivity|]. vm_compute. discriminate.
Qed.

(* ---------- copy-shard ---------- *)

Definition fails (ft : faults) (sizes : list Z) : Prop :=
  ft_dial ft = true \/ ft_src_shard_missing ft = true \/ ft_snap ft = SnapFail \/
  (exists k, ft_cut ft = Some k /\ k < stream_len sizes) \/ ft_src_fail ft <> None \/
  ft_create_shard ft = true \/ ft_response_lost ft = true.

Lemma copy_failed_not_advertised ft stem now base sizes src dst node owners :
  fails ft sizes ->
  let r := copy_shard ft stem now base sizes src dst node owners in
  cr_rpc_ok r = false /\ cr_owners r = owners.
Proof.
  intros Hf. cbn zeta. unfold copy_shard.
  destruct (ft_dial ft) eqn:Ed; [split; reflexivity|].
  destruct Hf as [Hf|Hf]; [congruence|].
  destruct (ft_src_shard_missing ft) eqn:Em.
  { destruct (ft_create_shard ft); [split; reflexivity|]. cbn. split; reflexivity. }
  destruct Hf as [Hf|Hf]; [congruence|].
  destruct (backup (ft_snap ft) stem now base None src) as [[s' ms]|] eqn:Eb.
  2:{ destruct (ft_create_shard ft); [split; reflexivity|]. cbn. split; reflexivity. }
  destruct Hf as [Hf|Hf].
  { unfold backup in Eb. rewrite Hf in Eb. cbn in Eb. discriminate. }
  destruct (ft_src_fail ft) as [[k hdr]|] eqn:Esf.
  { destruct (ft_create_shard ft) eqn:Ec; [split; reflexivity|].
    rewrite restore_not_marker by (destruct hdr; discriminate). split; reflexivity. }
  destruct (stream_end sizes (ft_cut ft) (length ms)) as [n ek] eqn:Es.
  destruct (ft_create_shard ft) eqn:Ec; [split; reflexivity|].
  destruct Hf as [(k & Hk & Hlt)|[Hf|[Hf|Hf]]]; [|contradiction|discriminate|].
  - rewrite Hk in Es. cbn [stream_end] in Es.
    pose proof (restore_cut_fails base (match dst with Some d => d | None => empty_dshard end) ms sizes k Hlt) as Hr.
    rewrite Es in Hr. cbn [fst snd] in Hr. rewrite Hr. split; reflexivity.
  - destruct (restore base _ ms n ek); [rewrite Hf|]; split; reflexivity.
Qed.

(* an advertised copy into a fresh destination reads like the source did *)
Lemma copy_advertised_exact ft stem now base sizes src node owners :
  wf_files (sh_files (write_snapshot stem now src)) = true ->
  ft_snap ft = SnapIdle ->
  length sizes = length (walk base (sh_files (write_snapshot stem now src))) ->
  let r := copy_shard ft stem now base sizes src None node owners in
  cr_rpc_ok r = true ->
  cr_owners r = copy_shard_owner node owners /\
  exists d, cr_dst r = Some d /\ forall k lo hi asc, dshard_read d k lo hi asc = shard_read src k lo hi asc.
Proof.
  intros Hwf Hsnap Hlen. cbn zeta. unfold copy_shard.
  destruct (ft_dial ft); [discriminate|].
  destruct (ft_src_shard_missing ft).
  { destruct (ft_create_shard ft); [discriminate|]. cbn. discriminate. }
  destruct (restore_backup_eq_lemma stem now base src Hwf) as (s' & ms & d & Hb & Hr & Hread).
  rewrite Hsnap, Hb.
  assert (Hms : ms = walk base (sh_files (write_snapshot stem now src))) by (unfold backup in Hb; cbn in Hb; inversion Hb; reflexivity).
  destruct (ft_src_fail ft) as [[k0 hdr]|] eqn:Esf.
  { destruct (ft_create_shard ft); [discriminate|].
    rewrite restore_not_marker by (destruct hdr; discriminate). discriminate. }
  destruct (stream_end sizes (ft_cut ft) (length ms)) as [n ek] eqn:Es.
  destruct (ft_create_shard ft); [discriminate|].
  destruct (restore base empty_dshard ms n ek) as [d1|] eqn:Er; [|discriminate].
  destruct (ft_response_lost ft); [discriminate|]. cbn [cr_rpc_ok cr_owners cr_dst]. intros _. split; [reflexivity|].
  assert (Hek : ek = EndMarker).
  { destruct ek; try reflexivity; rewrite restore_not_marker in Er by discriminate; discriminate. }
  subst ek.
  assert (Hn : n = length ms).
  { destruct (ft_cut ft) as [k|]; cbn [stream_end] in Es.
    - apply locate_marker in Es. destruct Es as [_ ->]. rewrite Hms, Hlen. reflexivity.
    - inversion Es. reflexivity. }
  subst n. unfold restore_all in Hr. rewrite Hr in Er. inversion Er; subst d1.
  exists d. split; [reflexivity|exact Hread].
Qed.

(* ---------- writes (and background snapshots) between the backup's flush and the linking ---------- *)

Lemma run_steps_app s a b : run_steps s (a ++ b) = run_steps (run_steps s a) b.
Proof. unfold run_steps. apply fold_left_app. Qed.

Lemma files_at_last_flush s1 : cache_is_empty (sh_cache s1) = true -> forall mid,
  exists mid1 mid2, mid = mid1 ++ mid2 /\
    sh_files (run_steps s1 mid) = sh_files (run_steps s1 mid1) /\
    cache_is_empty (sh_cache (run_steps s1 mid1)) = true.
Proof.
  intros H0 mid. induction mid as [|st mid' IH] using rev_ind.
  - exists [], []. repeat split; assumption.
  - destruct st as [pts|stem now].
    + destruct IH as (m1 & m2 & E & Hf & Hc). exists m1, (m2 ++ [SWrite pts]). split; [rewrite E, app_assoc; reflexivity|].
      split; [|exact Hc]. rewrite run_steps_app. cbn. exact Hf.
    + exists (mid' ++ [SFlush stem now]), []. split; [rewrite app_nil_r; reflexivity|]. split; [reflexivity|].
      rewrite run_steps_app. cbn. apply write_snapshot_cache_empty.
Qed.

Lemma backup_under_writes_lemma s pre mid stem now base :
  let s1 := write_snapshot stem now (run_steps s pre) in
  let s2 := run_steps s1 mid in
  wf_files (sh_files s2) = true ->
  exists mid1 mid2 d, mid = mid1 ++ mid2 /\
    restore_all base empty_dshard (walk base (sh_files s2)) = Some d /\
    forall k lo hi asc, dshard_read d k lo hi asc = shard_read (run_steps s1 mid1) k lo hi asc.
Proof.
  cbn zeta. intros Hwf.
  set (s1 := write_snapshot stem now (run_steps s pre)) in *.
  destruct (files_at_last_flush s1 (write_snapshot_cache_empty _ _ _) mid) as (m1 & m2 & E & Hf & Hc).
  destruct (restore_files_eq base (run_steps s1 mid) Hwf) as (d & Hd & Hread).
  exists m1, m2, d. split; [exact E|]. split; [exact Hd|].
  intros k lo hi asc. rewrite Hread, Hf. unfold shard_read. symmetry. apply read_cache_empty. exact Hc.
Qed.

(* ---------- the since filter keeps every file modified after [since] ---------- *)

Lemma since_keeps_newer base since fs f :
  wf_files fs = true -> In f fs ->
  (since < sf_mtime f ->
     In (mk_member (member_path base (tsm_name f)) false (sf_mtime f) (BTsm (sf_blocks f)))
        (since_filter (Some since) (walk base fs))) /\
  (sf_has_ts f = true -> since < sf_tmtime f ->
     In (mk_member (member_path base (tomb_name f)) false (sf_tmtime f) (BTomb (sf_tombs f)))
        (since_filter (Some since) (walk base fs))).
Proof.
  intros Hwf Hin. rewrite (walk_wf base fs Hwf). unfold since_filter, link_members. split.
  - intros Hlt. apply filter_In. split; [|cbn [m_mtime]; lia].
    apply in_map_iff. eexists (_, _). split; [reflexivity|]. apply in_flat_map. exists f. split; [exact Hin|].
    apply in_or_app. right. left. reflexivity.
  - intros Hts Hlt. apply filter_In. split; [|cbn [m_mtime]; lia].
    apply in_map_iff. eexists (_, _). split; [reflexivity|]. apply in_flat_map. exists f. split; [exact Hin|].
    apply in_or_app. left. rewrite Hts. left. reflexivity.
Qed.

(* and nothing else: a member of an incremental archive is a member of the full one, newer than [since] *)
Lemma since_only_newer since ms m : In m (since_filter (Some since) ms) -> In m ms /\ since < m_mtime m.
Proof. unfold since_filter. intros H. apply filter_In in H. destruct H as [H1 H2]. split; [exact H1|lia]. Qed.

(* the pinned tree: tar.Stream closed the tar writer in a deferred call, so a walk that failed
   between two members was followed by the end-of-archive marker and the partial archive was
   installed as a complete backup *)
Lemma source_error_trailer_accepted_unpatched :
  exists s base d,
    let ms := walk base (sh_files s) in
    wf_files (sh_files s) = true /\
    restore base empty_dshard ms 1 EndMarker = Some d /\
    dshard_read d k_w 0 10 true <> shard_read s k_w 0 10 true.
Proof.
  exists two_files, [100]%N. eexists. cbn zeta.
  split; [vm_compute; reflexivity|]. split; [vm_compute; reflexivity|]. vm_compute. discriminate.
Qed.
