(* C18/Model.v — executable model of shard backup / export / restore / import / copy on the
   layer-A state of Shard/Store.v (files with tombstones + cache).  Mirrors
     tsdb/engine/tsm1/engine.go  Backup Export timeStampFilterTarFile filterFileToBackup
                                 CreateSnapshot WriteSnapshot Restore Import overlay
                                 readFileFromBackup (+ endMarkerReader)
     tsdb/engine/tsm1/file_store.go CreateSnapshot MakeSnapshotLinks Replace (install part)
     pkg/tar/stream.go           Stream SinceFilterTarFile (walk order, mtime filter)
     coordinator/service.go      processBackupShardRequest processCopyShardRequest
     services/meta/handler.go    serveCopyShard (owner added only after a successful RPC)
     services/meta/data.go       CopyShardOwner
   Definitions only.  Files are identified by their NAME (byte string), as in the code:
   which archive members are installed is decided by the code's own suffix/prefix tests on
   the member name.  Byte sizes of encoded files are not modelled: where the position of a
   connection cut matters, the member sizes are an input. *)
From Verif Require Export Shard.Store.
From VerifGen Require Import Consts.
Open Scope Z_scope.

Definition name := list N.

(* ---------- byte-string tests of the Go code ---------- *)

Fixpoint is_prefix (p l : name) : bool :=
  match p, l with
  | [], _ => true
  | x :: p', y :: l' => N.eqb x y && is_prefix p' l'
  | _ :: _, [] => false
  end.

Definition has_prefix (l p : name) : bool := is_prefix p l.               (* strings.HasPrefix(l, p) *)
Definition has_suffix (l s : name) : bool := is_prefix (rev s) (rev l).   (* strings.HasSuffix(l, s) *)
Definition trim_suffix (l s : name) : name :=                             (* strings.TrimSuffix(l, s) *)
  if has_suffix l s then firstn (length l - length s) l else l.

Definition dot : N := 46%N.
Definition slash : N := 47%N.
Definition tsm_suffix : name := dot :: c18_tsm_ext.              (* ".tsm" *)
Definition tomb_suffix : name := dot :: c18_tombstone_ext.       (* ".tombstone" *)

(* Go's string order *)
Fixpoint lex_ltb (a b : name) : bool :=
  match a, b with
  | [], [] => false
  | [], _ :: _ => true
  | _ :: _, [] => false
  | x :: a', y :: b' => if N.ltb x y then true else if N.eqb x y then lex_ltb a' b' else false
  end.

(* every element smaller than all later ones *)
Fixpoint strictly_sorted (l : list name) : bool :=
  match l with
  | [] => true
  | x :: r => forallb (lex_ltb x) r && strictly_sorted r
  end.

(* sort.Strings / filepath.Walk's lexical order / sort.Sort(tsmReaders): insertion sort on the name *)
Fixpoint ins {A} (e : name * A) (l : list (name * A)) : list (name * A) :=
  match l with
  | [] => [e]
  | x :: r => if lex_ltb (fst x) (fst e) then x :: ins e r else e :: l
  end.
Definition sort_entries {A} (l : list (name * A)) : list (name * A) := fold_right ins [] l.

(* ---------- source shard ---------- *)

(* TSM file data at block granularity (layer B, needed by the export filter only) *)
Definition blocks := list (key * list (list tv)).
Definition blocks_data (b : blocks) : kvs := map (fun kb => (fst kb, concat (snd kb))) b.

Record sfile := mk_sfile {
  sf_stem : name;                       (* file name without extension, e.g. "000000001-000000001" *)
  sf_blocks : blocks;
  sf_tombs : list (key * (Z * Z));      (* entries of <stem>.tombstone *)
  sf_has_ts : bool;                     (* <stem>.tombstone exists *)
  sf_mtime : Z;                         (* mtime of <stem>.tsm (the since filter's oracle) *)
  sf_tmtime : Z;                        (* mtime of <stem>.tombstone *)
  sf_dead : list key                    (* keys the TSM reader drops from its index when it applies the tombstone
                                           file (indirectIndex.DeleteRange finds them fully deleted): an oracle,
                                           constrained by [dead_ok]; only the export's block iterator depends on it *)
}.

Definition to_tsm (f : sfile) : tsmfile :=
  {| f_gen := 0; f_seq := 0; f_data := blocks_data (sf_blocks f); f_tombs := sf_tombs f |}.

Record shard := mk_shard { sh_files : list sfile; sh_cache : cache }.

Definition shard_read (s : shard) (k : key) (lo hi : Z) (asc : bool) : list tv :=
  read (map to_tsm (sh_files s)) (sh_cache s) k lo hi asc.

Definition tsm_name (f : sfile) : name := sf_stem f ++ tsm_suffix.
Definition tomb_name (f : sfile) : name := sf_stem f ++ tomb_suffix.

(* names of the files of the shard directory in the order of the hard-linked snapshot
   directory walk (tombstone before tsm of the same stem: 'o' < 's') *)
Definition file_names (f : sfile) : list name :=
  (if sf_has_ts f then [tomb_name f] else []) ++ [tsm_name f].
Definition dir_names (fs : list sfile) : list name := flat_map file_names fs.

(* invariant of a shard directory: names distinct and in FileStore order; a file without a
   tombstone file has no tombstones *)
Definition wf_files (fs : list sfile) : bool :=
  strictly_sorted (dir_names fs) &&
  forallb (fun f => sf_has_ts f || match sf_tombs f with [] => true | _ => false end) fs.

(* what the export filter relies on: keys unique within a file, blocks sorted and non-empty *)
Fixpoint nodup_names (l : list name) : bool :=
  match l with [] => true | x :: r => negb (existsb (nlist_eqb x) r) && nodup_names r end.

Definition wf_file_blocks (bs : blocks) : bool :=
  nodup_names (map fst bs) &&
  forallb (fun kb => forallb (fun b => ssortedb b && match b with [] => false | _ => true end) (snd kb)) bs.

(* t is inside one of the tombstoned ranges of key k *)
Definition covered (k : key) (t : Z) (tombs : list (key * (Z * Z))) : bool :=
  existsb (fun tb => key_eqb (fst tb) k && ((fst (snd tb) <=? t) && (t <=? snd (snd tb)))) tombs.

(* a key the reader dropped has every one of its values tombstoned *)
Definition dead_ok (f : sfile) : bool :=
  forallb (fun k => forallb (fun x => covered k (fst x) (sf_tombs f)) (kv_get k (blocks_data (sf_blocks f)))) (sf_dead f).

Definition wf_blocks (fs : list sfile) : bool := forallb (fun f => wf_file_blocks (sf_blocks f) && dead_ok f) fs.

(* ---------- Engine.WriteSnapshot / CreateSnapshot ---------- *)

Definition empty_cache : cache := {| c_snap := []; c_hot := [] |}.
Definition cache_keys (c : cache) : list key := kv_keys (c_snap c) ++ kv_keys (c_hot c).
Definition cache_is_empty (c : cache) : bool :=
  forallb (fun k => match cache_values c k with [] => true | _ => false end) (cache_keys c).

Fixpoint chunk_aux (fuel n : nat) (l : list tv) : list (list tv) :=
  match fuel with
  | O => []
  | S f => match l with [] => [] | _ => firstn n l :: chunk_aux f n (skipn n l) end
  end.
Definition chunk (n : nat) (l : list tv) : list (list tv) := chunk_aux (length l) n l.

Definition block_size : nat := N.to_nat c18_max_points_per_block.

(* the file a cache snapshot writes: per key the de-duplicated values, in blocks *)
Definition flush_blocks (c : cache) : blocks :=
  map (fun k => (k, chunk block_size (dedup (cache_values c k)))) (cache_keys c).

Definition flush_file (stem : name) (now : Z) (c : cache) : sfile :=
  mk_sfile stem (flush_blocks c) [] false now 0 [].

(* WriteSnapshot on an idle snapshotter: nothing to do for an empty cache, otherwise a new
   newest file and an empty cache.  [stem] is FileStore.NextGeneration's name. *)
Definition write_snapshot (stem : name) (now : Z) (s : shard) : shard :=
  if cache_is_empty (sh_cache s) then s
  else mk_shard (sh_files s ++ [flush_file stem now (sh_cache s)]) empty_cache.

(* Engine.flushCache (CreateSnapshot): a snapshot the cache retained after a failed write is
   written out on its own first, under the next file name; the live cache follows in a second
   WriteSnapshot.  This is the first pass. *)
Definition flush_retained (stem : name) (now : Z) (s : shard) : shard :=
  mk_shard (sh_files s ++ [flush_file stem now {| c_snap := c_snap (sh_cache s); c_hot := [] |}])
           {| c_snap := []; c_hot := c_hot (sh_cache s) |}.

(* what the snapshotter does during the (up to four) attempts of CreateSnapshot *)
Inductive snap_oracle := SnapIdle | SnapBusy | SnapFail.

(* Engine.CreateSnapshot(skipCacheOk): the shard state whose files get hard-linked, or an error *)
Definition create_snapshot (o : snap_oracle) (skip_cache_ok : bool) (stem : name) (now : Z) (s : shard) : option shard :=
  match o with
  | SnapIdle => Some (write_snapshot stem now s)
  | SnapBusy => if skip_cache_ok then Some s else None      (* "proceeding without cache contents" *)
  | SnapFail => None
  end.

(* ---------- archives ---------- *)

Inductive mbody := BTsm (b : blocks) | BTomb (t : list (key * (Z * Z))) | BOther.

Record member := mk_member { m_name : name; m_dir : bool; m_mtime : Z; m_body : mbody }.

Definition member_path (base n : name) : name := base ++ slash :: n.

(* the snapshot directory: hard links of every TSM file and of its tombstone file *)
Definition link_members (base : name) (fs : list sfile) : list (name * member) :=
  flat_map (fun f =>
    (if sf_has_ts f
     then [(tomb_name f, mk_member (member_path base (tomb_name f)) false (sf_tmtime f) (BTomb (sf_tombs f)))]
     else []) ++
    [(tsm_name f, mk_member (member_path base (tsm_name f)) false (sf_mtime f) (BTsm (sf_blocks f)))]) fs.

(* tar.Stream: filepath.Walk visits the directory in lexical order *)
Definition walk (base : name) (fs : list sfile) : list member := map snd (sort_entries (link_members base fs)).

(* tar.SinceFilterTarFile: f.ModTime().After(since) *)
Definition since_filter (since : option Z) (ms : list member) : list member :=
  match since with
  | None => ms                                   (* the zero time: everything is after it *)
  | Some t => filter (fun m => t <? m_mtime m) ms
  end.

(* Engine.Backup *)
Definition backup (o : snap_oracle) (stem : name) (now : Z) (base : name) (since : option Z) (s : shard)
  : option (shard * list member) :=
  match create_snapshot o true stem now s with
  | None => None
  | Some s' => Some (s', since_filter since (walk base (sh_files s')))
  end.

(* ---- Engine.Export: timeStampFilterTarFile / filterFileToBackup ---- *)

Definition block_min (b : list tv) : option Z := match b with [] => None | x :: _ => Some (fst x) end.
Definition block_max (b : list tv) : option Z := match rev b with [] => None | x :: _ => Some (fst x) end.

Definition all_blocks (bs : blocks) : list (list tv) := flat_map snd bs.

Definition zmin_list (l : list Z) : option Z :=
  match l with [] => None | x :: r => Some (fold_left Z.min r x) end.
Definition zmax_list (l : list Z) : option Z :=
  match l with [] => None | x :: r => Some (fold_left Z.max r x) end.
Definition opt_list {A} (o : option A) : list A := match o with Some x => [x] | None => [] end.

(* TSMReader.TimeRange: over every block of the file *)
Definition file_min (bs : blocks) : option Z := zmin_list (flat_map (fun b => opt_list (block_min b)) (all_blocks bs)).
Definition file_max (bs : blocks) : option Z := zmax_list (flat_map (fun b => opt_list (block_max b)) (all_blocks bs)).

(* the block test of filterFileToBackup *)
Definition block_kept (s e : Z) (b : list tv) : bool :=
  match block_min b, block_max b with
  | Some mn, Some mx =>
      ((s <=? mn) && (mn <=? e)) || ((s <=? mx) && (mx <=? e)) || ((mn <=? s) && (e <=? mx))
  | _, _ => false
  end.

Definition filter_blocks (s e : Z) (dead : list key) (bs : blocks) : blocks :=
  flat_map (fun kb => if existsb (key_eqb (fst kb)) dead then []   (* not in the reader's index: the block iterator skips it *)
                      else match filter (block_kept s e) (snd kb) with
                      | [] => []                        (* a key with no block left is not in the index *)
                      | l => [(fst kb, l)]
                      end) bs.

(* what timeStampFilterTarFile streams for one TSM file: nothing, the whole file, or the
   filtered copy under the same name (nothing when no block is left) *)
Definition export_tsm (s e : Z) (dead : list key) (bs : blocks) : option blocks :=
  match file_min bs, file_max bs with
  | Some mn, Some mx =>
      if ((s <=? mn) && (mn <=? e) && (e <? mx)) ||
         ((s <=? mx) && (mx <=? e) && (mn <? s)) ||
         ((mn <=? s) && (e <=? mx) && negb ((mn =? s) && (mx =? e)))
      then match filter_blocks s e dead bs with [] => None | l => Some l end
      else if (s <=? mn) && (mx <=? e) then Some bs
      else None
  | _, _ => None
  end.

(* the members of the snapshot directory walk, each TSM file passed through the filter *)
Definition export_members (base : name) (s e : Z) (fs : list sfile) : list (name * member) :=
  flat_map (fun f =>
    (if sf_has_ts f
     then [(tomb_name f, mk_member (member_path base (tomb_name f)) false (sf_tmtime f) (BTomb (sf_tombs f)))]
     else []) ++                                  (* not a .tsm file: streamed as it is *)
    match export_tsm s e (sf_dead f) (sf_blocks f) with
    | Some bs' => [(tsm_name f, mk_member (member_path base (tsm_name f)) false (sf_mtime f) (BTsm bs'))]
    | None => []
    end) fs.

(* Engine.Export: CreateSnapshot(false), i.e. a busy snapshotter is an error *)
Definition export (o : snap_oracle) (stem : name) (now : Z) (base : name) (s e : Z) (sh : shard)
  : option (shard * list member) :=
  match create_snapshot o false stem now sh with
  | None => None
  | Some sh' => Some (sh', map snd (sort_entries (export_members base s e (sh_files sh'))))
  end.

(* ---------- the byte stream and where a connection cut leaves the tar reader ---------- *)

Inductive end_kind :=
| EndMarker        (* both zero blocks of the end-of-archive marker arrived *)
| EndClean         (* the stream stops between two members (or in the padding after a member's data): tar.Reader.Next reports io.EOF *)
| EndHalfMarker    (* exactly one zero block arrived: io.EOF as well *)
| EndTorn.         (* inside a header, inside a member's data, or inside a marker block: io.ErrUnexpectedEOF *)

Definition pad512 (z : Z) : Z := ((z + 511) / 512) * 512.

(* [locate sizes pos k i]: the stream is cut after k bytes; members before position [pos] (i of
   them) arrived completely.  Result: number of complete members, how the stream ends. *)
Fixpoint locate (sizes : list Z) (pos k : Z) (i : nat) : nat * end_kind :=
  match sizes with
  | [] => if k =? pos then (i, EndClean)
          else if k =? pos + 512 then (i, EndHalfMarker)
          else if pos + 1024 <=? k then (i, EndMarker)
          else (i, EndTorn)
  | sz :: r =>
      let data := pos + 512 in
      if k =? pos then (i, EndClean)
      else if k <? data + sz then (i, EndTorn)
      else if k <=? data + pad512 sz then (S i, EndClean)
      else locate r (data + pad512 sz) k (S i)
  end.

(* cut = None: the connection is not cut *)
Definition stream_end (sizes : list Z) (cut : option Z) (nmembers : nat) : nat * end_kind :=
  match cut with
  | None => (nmembers, EndMarker)
  | Some k => locate sizes 0 k 0
  end.

(* ---------- Engine.overlay / readFileFromBackup ---------- *)

Definition dir := list (name * mbody).

Fixpoint dir_get (n : name) (d : dir) : option mbody :=
  match d with
  | [] => None
  | (n', b) :: r => if nlist_eqb n' n then Some b else dir_get n r
  end.

Fixpoint dir_put (n : name) (b : mbody) (d : dir) : dir :=
  match d with
  | [] => [(n, b)]
  | (n', b') :: r => if nlist_eqb n' n then (n', b) :: r else (n', b') :: dir_put n b r
  end.

Inductive fkind := KTsm | KTomb.

Definition kind_ext (k : fkind) : name := match k with KTsm => c18_tsm_ext | KTomb => c18_tombstone_ext end.

(* state of the member loop: files written so far under a temporary name (final name, kind,
   content), in order; for Import the table original stem -> new stem and the generation counter *)
Record rstate := mk_rstate { rs_new : list (name * (fkind * mbody)); rs_names : list (name * name); rs_gen : nat }.

Fixpoint assoc (n : name) (l : list (name * name)) : option name :=
  match l with
  | [] => None
  | (a, b) :: r => if nlist_eqb a n then Some b else assoc n r
  end.

Section Overlay.
  (* [tomb_fix]: readFileFromBackup accepts ".tombstone" members (the repaired code);
     [end_check]: overlay refuses a stream without the end-of-archive marker (the repaired code);
     [fresh g]: formatFileName(g, 1), the stem Import gives to generation g *)
  Variable tomb_fix end_check : bool.
  Variable fresh : nat -> name.

  (* the name tests of readFileFromBackup, in the code's order *)
  Definition classify (base : name) (m : member) : option (fkind * name) :=
    let is_tomb := tomb_fix && has_suffix (m_name m) tomb_suffix in
    if negb is_tomb && negb (has_suffix (m_name m) c18_tsm_ext) then None     (* "This isn't a .tsm file." *)
    else if negb (has_prefix (m_name m) base) then None                        (* other shard *)
    else if m_dir m then None                                                  (* directory entry: MkdirAll *)
    else Some (if is_tomb then KTomb else KTsm, skipn (length base + 1) (m_name m)).   (* filepath.Rel *)

  Definition read_member (base : name) (as_new : bool) (st : rstate) (m : member) : rstate :=
    match classify base m with
    | None => st
    | Some (k, filename) =>
        if as_new then
          let orig := trim_suffix filename (dot :: kind_ext k) in
          match assoc orig (rs_names st) with
          | Some nm => mk_rstate (rs_new st ++ [(nm ++ dot :: kind_ext k, (k, m_body m))]) (rs_names st) (rs_gen st)
          | None => let nm := fresh (S (rs_gen st)) in
                    mk_rstate (rs_new st ++ [(nm ++ dot :: kind_ext k, (k, m_body m))])
                              ((orig, nm) :: rs_names st) (S (rs_gen st))
          end
        else mk_rstate (rs_new st ++ [(filename, (k, m_body m))]) (rs_names st) (rs_gen st)
    end.

  (* after the loop: tombstone files are renamed in place, then FileStore.Replace renames and
     opens every TSM file.  A name written twice cannot be renamed twice, and a TSM file that
     cannot be opened fails the restore.  The names being distinct, the order of the renames
     is immaterial for the resulting directory: they are applied in archive order. *)
  Definition installable (e : name * (fkind * mbody)) : bool :=
    match e with (_, (KTsm, BTsm _)) => true | (_, (KTomb, _)) => true | _ => false end.

  Definition install (d : dir) (new : list (name * (fkind * mbody))) : option dir :=
    if negb (nodup_names (map fst new)) then None
    else if negb (forallb installable new) then None
    else Some (fold_left (fun d e => dir_put (fst e) (snd (snd e)) d) new d).

  (* Engine.overlay on a stream that delivers the first [n] members completely and then ends
     as [ek]; generation counter [gen0] = FileStore.currentGeneration of the destination *)
  Definition overlay (base : name) (as_new : bool) (gen0 : nat) (d : dir) (ms : list member) (n : nat) (ek : end_kind)
    : option dir :=
    let st := fold_left (read_member base as_new) (firstn n ms) (mk_rstate [] [] gen0) in
    match ek with
    | EndTorn => None
    | EndClean | EndHalfMarker => if end_check then None else install d (rs_new st)
    | EndMarker => install d (rs_new st)
    end.
End Overlay.

(* the code as it is now *)
Definition restore_dir (base : name) (d : dir) (ms : list member) (n : nat) (ek : end_kind) : option dir :=
  overlay true true (fun _ => []) base false 0 d ms n ek.

(* ---------- the destination shard: FileStore.Open after Shard.Restore's close/reopen ---------- *)

(* every "*.tsm" file of the directory, in name order, each with the entries of its tombstone file *)
Definition dir_tsm_entries (d : dir) : list (name * mbody) :=
  sort_entries (filter (fun e => has_suffix (fst e) tsm_suffix && match snd e with BTsm _ => true | _ => false end) d).

Definition dir_tombs (d : dir) (tsm : name) : list (key * (Z * Z)) :=
  match dir_get (trim_suffix tsm tsm_suffix ++ tomb_suffix) d with
  | Some (BTomb t) => t
  | _ => []
  end.

Definition dir_files (d : dir) : list tsmfile :=
  map (fun e => {| f_gen := 0; f_seq := 0;
                   f_data := match snd e with BTsm b => blocks_data b | _ => [] end;
                   f_tombs := dir_tombs d (fst e) |}) (dir_tsm_entries d).

Record dshard := mk_dshard { d_dir : dir; d_cache : cache }.

Definition dshard_read (ds : dshard) (k : key) (lo hi : Z) (asc : bool) : list tv :=
  read (dir_files (d_dir ds)) (d_cache ds) k lo hi asc.

Definition empty_dshard : dshard := mk_dshard [] empty_cache.

(* Store.RestoreShard / ImportShard: an error leaves the directory as it was (temporary files
   are removed by the next open) *)
Definition restore (base : name) (ds : dshard) (ms : list member) (n : nat) (ek : end_kind) : option dshard :=
  match restore_dir base (d_dir ds) ms n ek with
  | Some d' => Some (mk_dshard d' (d_cache ds))
  | None => None
  end.

Definition import (fresh : nat -> name) (base : name) (gen0 : nat) (ds : dshard) (ms : list member) (n : nat) (ek : end_kind)
  : option dshard :=
  match overlay true true fresh base true gen0 (d_dir ds) ms n ek with
  | Some d' => Some (mk_dshard d' (d_cache ds))
  | None => None
  end.

(* complete, uncut stream *)
Definition restore_all (base : name) (ds : dshard) (ms : list member) : option dshard :=
  restore base ds ms (length ms) EndMarker.

(* ---------- copy-shard ---------- *)

(* Data.CopyShardOwner: insert the node into the owner list ordered by node id, once *)
Fixpoint add_owner (node : N) (owners : list N) : list N :=
  match owners with
  | [] => [node]
  | o :: r => if N.eqb o node then owners
              else if N.ltb node o then node :: owners
              else o :: add_owner node r
  end.

(* CopyShardOwner scans the whole list for the node before inserting *)
Definition copy_shard_owner (node : N) (owners : list N) : list N :=
  if existsb (N.eqb node) owners then owners else add_owner node owners.

(* what can go wrong, step by step *)
Record faults := mk_faults {
  ft_dial : bool;            (* destination cannot connect to the source *)
  ft_src_shard_missing : bool; (* Store.BackupShard: "shard doesn't exist on this server": connection closed, no byte sent *)
  ft_snap : snap_oracle;     (* CreateSnapshot on the source *)
  ft_cut : option Z;         (* the backup connection is cut after this many bytes *)
  ft_src_fail : option (nat * bool);
                             (* tar.Stream fails on the source after this many members were written completely
                                (a snapshot file cannot be lstat'ed / opened / read); true = the header of the
                                next member had already been written *)
  ft_create_shard : bool;    (* CreateShard on the destination fails *)
  ft_response_lost : bool    (* the CopyShard response does not reach the meta node *)
}.

Definition no_faults : faults := mk_faults false false SnapIdle None None false false.

(* how the stream ends when tar.Stream returns an error on the source: no end-of-archive marker
   is written (Stream closes the tar writer only after a complete walk) and the connection is
   closed; a header without its body leaves the reader inside a member *)
Definition source_error_end (header_written : bool) : end_kind := if header_written then EndTorn else EndClean.

Record copy_result := mk_copy_result {
  cr_src : shard;                 (* source afterwards *)
  cr_dst : option dshard;         (* destination shard: None = does not exist *)
  cr_rpc_ok : bool;               (* Client.CopyShard returned nil to serveCopyShard *)
  cr_owners : list N
}.

(* serveCopyShard -> Client.CopyShard -> processCopyShardRequest (backupRemoteShard ->
   processBackupShardRequest on the source; CreateShard; RestoreShard) -> store.copyShard.
   [sizes]: byte sizes of the archive members (for the cut position only). *)
Definition copy_shard (ft : faults) (stem : name) (now : Z) (base : name) (sizes : list Z)
           (src : shard) (dst : option dshard) (node : N) (owners : list N) : copy_result :=
  if ft_dial ft then mk_copy_result src dst false owners
  else
    (* the source answers on its own goroutine: the snapshot is taken whatever happens next *)
    let '(src', ms, n, ek) :=
      if ft_src_shard_missing ft then (src, [], O, EndClean)
      else match backup (ft_snap ft) stem now base None src with
           | None => (src, [], O, EndClean)                       (* error before the first byte: the connection is just closed *)
           | Some (s', ms) =>
               match ft_src_fail ft with
               | Some (k, hdr) => (s', ms, k, source_error_end hdr)
               | None => let '(n, ek) := stream_end sizes (ft_cut ft) (length ms) in (s', ms, n, ek)
               end
           end in
    if ft_create_shard ft then mk_copy_result src' dst false owners
    else
      let d0 := match dst with Some d => d | None => empty_dshard end in   (* CreateShard: "Shard already exists" is not an error *)
      match restore base d0 ms n ek with
      | None => mk_copy_result src' (Some d0) false owners
      | Some d1 =>
          if ft_response_lost ft then mk_copy_result src' (Some d1) false owners
          else mk_copy_result src' (Some d1) true (copy_shard_owner node owners)
      end.

(* ---------- writes interleaved with a backup (cache level) ---------- *)

Inductive step :=
| SWrite (pts : list (key * tv))        (* Engine.WritePoints: appended to the hot cache *)
| SFlush (stem : name) (now : Z).       (* a cache snapshot (the backup's own, or the background one) *)

Definition cache_write (c : cache) (pts : list (key * tv)) : cache :=
  {| c_snap := c_snap c; c_hot := fold_left (fun m p => kv_append (fst p) [snd p] m) pts (c_hot c) |}.

Definition run_step (s : shard) (st : step) : shard :=
  match st with
  | SWrite pts => mk_shard (sh_files s) (cache_write (sh_cache s) pts)
  | SFlush stem now => write_snapshot stem now s
  end.

Definition run_steps (s : shard) (l : list step) : shard := fold_left run_step l s.
