(* C18/Names.v — lemmas on the byte-string tests, the name order, sorting and directories
   of C18/Model.v. *)
From Verif Require Import C18.Model.
From VerifGen Require Import Consts.
From Coq Require Import Permutation.
Open Scope Z_scope.

(* ---------- prefixes and suffixes ---------- *)

Lemma is_prefix_app p r : is_prefix p (p ++ r) = true.
Proof. induction p as [|x p IH]; cbn; [reflexivity|]. rewrite N.eqb_refl. exact IH. Qed.

Lemma is_prefix_app_same s a b : is_prefix (s ++ a) (s ++ b) = is_prefix a b.
Proof. induction s as [|x s IH]; cbn; [reflexivity|]. rewrite N.eqb_refl. exact IH. Qed.

Lemma has_suffix_app x s : has_suffix (x ++ s) s = true.
Proof. unfold has_suffix. rewrite rev_app_distr. apply is_prefix_app. Qed.

Lemma has_suffix_app_same a b s : has_suffix (a ++ s) (b ++ s) = has_suffix a b.
Proof. unfold has_suffix. rewrite !rev_app_distr. apply is_prefix_app_same. Qed.

Lemma has_prefix_app b r : has_prefix (b ++ r) b = true.
Proof. apply is_prefix_app. Qed.

Lemma skipn_app_exact {A} (a b : list A) n : n = length a -> skipn n (a ++ b) = b.
Proof. intros ->. rewrite skipn_app, skipn_all, Nat.sub_diag. reflexivity. Qed.

Lemma tsm_suffix_split x : x ++ tsm_suffix = (x ++ [dot]) ++ c18_tsm_ext.
Proof. unfold tsm_suffix. rewrite <- app_assoc. reflexivity. Qed.

(* the four facts about ".tsm" / ".tombstone" the restore path relies on *)
Lemma tsm_name_has_tsm_ext x : has_suffix (x ++ tsm_suffix) c18_tsm_ext = true.
Proof. rewrite tsm_suffix_split. apply has_suffix_app. Qed.

Lemma tsm_name_not_tomb x : has_suffix (x ++ tsm_suffix) tomb_suffix = false.
Proof. unfold has_suffix. rewrite rev_app_distr. reflexivity. Qed.

Lemma tomb_name_is_tomb x : has_suffix (x ++ tomb_suffix) tomb_suffix = true.
Proof. apply has_suffix_app. Qed.

Lemma tomb_name_not_tsm x : has_suffix (x ++ tomb_suffix) tsm_suffix = false.
Proof. unfold has_suffix. rewrite rev_app_distr. reflexivity. Qed.

Lemma tomb_name_no_tsm_ext x : has_suffix (x ++ tomb_suffix) c18_tsm_ext = false.
Proof. unfold has_suffix. rewrite rev_app_distr. reflexivity. Qed.

Lemma tsm_name_is_tsm x : has_suffix (x ++ tsm_suffix) tsm_suffix = true.
Proof. apply has_suffix_app. Qed.

Lemma tsm_tomb_names_differ x y : x ++ tsm_suffix <> y ++ tomb_suffix.
Proof.
  intros E. pose proof (tsm_name_not_tomb x) as H. rewrite E, tomb_name_is_tomb in H. discriminate.
Qed.

Lemma trim_suffix_app x s : trim_suffix (x ++ s) s = x.
Proof.
  unfold trim_suffix. rewrite has_suffix_app. rewrite app_length, Nat.add_sub.
  rewrite firstn_app, firstn_all, Nat.sub_diag. cbn. apply app_nil_r.
Qed.

(* ---------- name order ---------- *)

Lemma lex_ltb_irrefl a : lex_ltb a a = false.
Proof. induction a as [|x a IH]; cbn; [reflexivity|]. rewrite N.ltb_irrefl, N.eqb_refl. exact IH. Qed.

Lemma lex_ltb_asym a : forall b, lex_ltb a b = true -> lex_ltb b a = false.
Proof.
  induction a as [|x a IH]; intros [|y b] H; cbn [lex_ltb] in *; try reflexivity; try discriminate.
  destruct (N.ltb_spec x y) as [L|L].
  - destruct (N.ltb_spec y x) as [L'|L']; [lia|]. destruct (N.eqb_spec y x); [lia|reflexivity].
  - destruct (N.eqb_spec x y) as [E|E]; [|discriminate]. subst y.
    rewrite N.ltb_irrefl, N.eqb_refl. apply IH. exact H.
Qed.

Lemma lex_ltb_neq a b : lex_ltb a b = true -> a <> b.
Proof. intros H E. subst b. rewrite lex_ltb_irrefl in H. discriminate. Qed.

(* ---------- strictly sorted lists ---------- *)

Lemma strictly_sorted_app a : forall b, strictly_sorted (a ++ b) = true ->
  strictly_sorted a = true /\ strictly_sorted b = true /\
  (forall x y, In x a -> In y b -> lex_ltb x y = true).
Proof.
  induction a as [|h a IH]; intros b H; cbn in *.
  - repeat split; auto; intros x y [].
  - apply andb_true_iff in H. destruct H as [H1 H2]. rewrite forallb_app in H1.
    apply andb_true_iff in H1. destruct H1 as [H1a H1b].
    destruct (IH b H2) as (Sa & Sb & Hab). rewrite H1a, Sa. repeat split; auto.
    intros x y [<-|Hx] Hy; [|apply Hab; assumption].
    rewrite forallb_forall in H1b. apply H1b. exact Hy.
Qed.

Lemma strictly_sorted_NoDup l : strictly_sorted l = true -> NoDup l.
Proof.
  induction l as [|x r IH]; intros H; [constructor|].
  cbn in H. apply andb_true_iff in H. destruct H as [H1 H2]. constructor; [|apply IH; exact H2].
  intros Hin. rewrite forallb_forall in H1. specialize (H1 x Hin). rewrite lex_ltb_irrefl in H1. discriminate.
Qed.

Lemma ins_head {A} (e : name * A) l :
  (forall x, In x l -> lex_ltb (fst e) (fst x) = true) -> ins e l = e :: l.
Proof.
  destruct l as [|x r]; intros H; cbn; [reflexivity|].
  rewrite (lex_ltb_asym _ _ (H x (or_introl eq_refl))). reflexivity.
Qed.

Lemma sort_sorted {A} (l : list (name * A)) : strictly_sorted (map fst l) = true -> sort_entries l = l.
Proof.
  induction l as [|x r IH]; intros H; [reflexivity|].
  cbn in H. apply andb_true_iff in H. destruct H as [H1 H2].
  unfold sort_entries in *. cbn [fold_right]. rewrite (IH H2).
  apply ins_head. intros y Hy. rewrite forallb_forall in H1. apply H1. apply in_map. exact Hy.
Qed.

(* ---------- nodup_names reflects NoDup ---------- *)

Lemma existsb_nlist_eqb x l : existsb (nlist_eqb x) l = true <-> In x l.
Proof.
  rewrite existsb_exists. split.
  - intros (y & Hy & E). apply nlist_eqb_eq in E. subst. exact Hy.
  - intros H. exists x. split; [exact H|]. apply nlist_eqb_eq. reflexivity.
Qed.

Lemma nodup_names_spec l : nodup_names l = true <-> NoDup l.
Proof.
  induction l as [|x r IH]; cbn; [split; [constructor|reflexivity]|].
  rewrite andb_true_iff, negb_true_iff, IH. split.
  - intros [H1 H2]. constructor; [|exact H2]. intros Hin. apply existsb_nlist_eqb in Hin. congruence.
  - intros H. inversion H as [|? ? Hn Hd]; subst. split; [|exact Hd].
    destruct (existsb (nlist_eqb x) r) eqn:E; [|reflexivity]. apply existsb_nlist_eqb in E. contradiction.
Qed.

(* ---------- directories ---------- *)

Lemma nlist_eqb_refl a : nlist_eqb a a = true.
Proof. apply nlist_eqb_eq. reflexivity. Qed.

Lemma nlist_eqb_neq a b : a <> b -> nlist_eqb a b = false.
Proof. intros H. destruct (nlist_eqb a b) eqn:E; [|reflexivity]. apply nlist_eqb_eq in E. contradiction. Qed.

Lemma dir_get_none n d : ~ In n (map fst d) -> dir_get n d = None.
Proof.
  induction d as [|[n' b] r IH]; intros H; cbn; [reflexivity|].
  cbn in H. rewrite nlist_eqb_neq by (intros E; apply H; left; exact E). apply IH. intros Hin. apply H. right. exact Hin.
Qed.

Lemma dir_get_app n d1 d2 :
  dir_get n (d1 ++ d2) = match dir_get n d1 with Some b => Some b | None => dir_get n d2 end.
Proof.
  induction d1 as [|[n' b] r IH]; cbn; [reflexivity|]. destruct (nlist_eqb n' n); [reflexivity|exact IH].
Qed.

Lemma dir_put_fresh n b d : ~ In n (map fst d) -> dir_put n b d = d ++ [(n, b)].
Proof.
  induction d as [|[n' b'] r IH]; intros H; cbn; [reflexivity|].
  cbn in H. rewrite nlist_eqb_neq by (intros E; apply H; left; exact E).
  rewrite IH by (intros Hin; apply H; right; exact Hin). reflexivity.
Qed.

Lemma fold_put_fresh {B} (f : B -> mbody) (es : list (name * B)) : forall d,
  NoDup (map fst d ++ map fst es) ->
  fold_left (fun d e => dir_put (fst e) (f (snd e)) d) es d = d ++ map (fun e => (fst e, f (snd e))) es.
Proof.
  induction es as [|[n b] r IH]; intros d H; cbn [fold_left map fst snd].
  - rewrite app_nil_r. reflexivity.
  - cbn [map fst] in H.
    assert (Hn : ~ In n (map fst d)).
    { apply NoDup_remove_2 in H. intros Hin. apply H. apply in_or_app. left. exact Hin. }
    rewrite dir_put_fresh by exact Hn. rewrite IH.
    + rewrite <- app_assoc. reflexivity.
    + rewrite map_app. cbn [map fst]. rewrite <- app_assoc. exact H.
Qed.
