(* C18/ProofsRetained.v — Engine.flushCache (used by CreateSnapshot): a snapshot the cache
   retained after a failed write is written out on its own, under the next file name; the live
   cache follows in a second pass.  The intermediate state answers every read as before. *)
From Verif Require Import Shard.Values Shard.Store C18.Model C18.Names C18.Proofs.
Open Scope Z_scope.

Lemma merge_lw_assoc a x y : ssorted a -> merge_lw (merge_lw a x) y = merge_lw a (x ++ y).
Proof.
  intros Ha. apply sorted_lookup_ext.
  - apply merge_lw_sorted. apply merge_lw_sorted. exact Ha.
  - apply merge_lw_sorted. exact Ha.
  - intros t. rewrite merge_lw_lookup by (apply merge_lw_sorted; exact Ha).
    rewrite lookup_last_app. rewrite merge_lw_lookup by exact Ha.
    rewrite merge_lw_lookup by exact Ha. rewrite !lookup_last_app.
    destruct (lookup_last t y); reflexivity.
Qed.

Lemma flush_retained_read_all stem now s k :
  read_all (map to_tsm (sh_files (flush_retained stem now s))) (sh_cache (flush_retained stem now s)) k =
  read_all (map to_tsm (sh_files s)) (sh_cache s) k.
Proof.
  unfold flush_retained. cbn [sh_files sh_cache]. rewrite map_app. cbn [map]. unfold read_all.
  rewrite files_values_snoc, flush_file_values.
  unfold cache_values. cbn [c_snap c_hot kv_get]. rewrite app_nil_r. cbn [app].
  rewrite (merge_lw_dedup _ _ (files_values_sorted _ _)).
  apply merge_lw_assoc. apply files_values_sorted.
Qed.

Lemma flush_retained_read stem now s k lo hi asc :
  shard_read (flush_retained stem now s) k lo hi asc = shard_read s k lo hi asc.
Proof. unfold shard_read, read. rewrite flush_retained_read_all. reflexivity. Qed.

(* the backup that follows: flushCache's second pass is the ordinary snapshot of the live cache *)
Lemma backup_after_retained_lemma stem0 stem now0 now base s :
  let s1 := flush_retained stem0 now0 s in
  wf_files (sh_files (write_snapshot stem now s1)) = true ->
  exists s' ms d,
    backup SnapIdle stem now base None s1 = Some (s', ms) /\
    restore_all base empty_dshard ms = Some d /\
    forall k lo hi asc, dshard_read d k lo hi asc = shard_read s k lo hi asc.
Proof.
  intros s1 Hwf.
  destruct (restore_backup_eq_lemma stem now base s1 Hwf) as (s' & ms & d & Hb & Hr & Hq).
  exists s', ms, d. split; [exact Hb|]. split; [exact Hr|].
  intros k lo hi asc. rewrite Hq. unfold s1. apply flush_retained_read.
Qed.
