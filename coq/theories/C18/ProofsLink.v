(* C18/ProofsLink.v — the link between the model and the executable spec of Spec.v as it is
   evaluated by Run.v: for ALL inputs the model's outputs satisfy the spec. *)
From Verif Require Import C18.Model C18.Names C18.Proofs C18.ProofsCopy C18.ProofsExport C18.Spec C18.Run.
From VerifGen Require Import Consts.
Open Scope Z_scope.

Lemma value_eqb_refl v : value_eqb v v = true.
Proof. apply value_eqb_eq. reflexivity. Qed.

Lemma tvl_eqb_refl l : tvl_eqb l l = true.
Proof. induction l as [|[t v] r IH]; cbn; [reflexivity|]. rewrite Z.eqb_refl, value_eqb_refl, IH. reflexivity. Qed.

Lemma same_reads_ext a b : (forall k, kv_get k a = kv_get k b) -> same_reads a b = true.
Proof. intros H. unfold same_reads. apply forallb_forall. intros k _. rewrite H. apply tvl_eqb_refl. Qed.

Lemma in_nodup_keys k l : In k (nodup_keys l) <-> In k l.
Proof.
  induction l as [|a r IH]; cbn [nodup_keys]; [tauto|].
  destruct (existsb (nlist_eqb a) r) eqn:E.
  - rewrite IH. split; [intros H; right; exact H|]. intros [<-|H]; [apply existsb_nlist_eqb; exact E|exact H].
  - cbn [In]. rewrite IH. tauto.
Qed.

(* a key no file and no cache entry mentions reads as empty *)
Lemma apply_tombs_nil k tombs : apply_tombs k tombs [] = [].
Proof.
  unfold apply_tombs. induction tombs as [|tb r IH]; cbn [fold_left]; [reflexivity|].
  destruct (key_eqb (fst tb) k); exact IH.
Qed.

Lemma files_values_nil fs k : (forall f, In f fs -> ~ In k (kv_keys (f_data f))) -> files_values fs k = [].
Proof.
  unfold files_values. induction fs as [|f r IH]; intros H; [reflexivity|]. cbn [fold_left].
  assert (E : file_values f k = []).
  { unfold file_values. rewrite kv_get_notin by (apply H; left; reflexivity). apply apply_tombs_nil. }
  rewrite E. change (merge_lw [] []) with (@nil tv). apply IH. intros g Hg. apply H. right. exact Hg.
Qed.

Lemma read_nil fs c k lo hi asc :
  (forall f, In f fs -> ~ In k (kv_keys (f_data f))) -> ~ In k (cache_keys c) -> read fs c k lo hi asc = [].
Proof.
  intros Hf Hc. unfold read, read_all. rewrite (files_values_nil fs k Hf), (cache_values_notin c k Hc).
  destruct asc; reflexivity.
Qed.

Lemma kv_get_reads (g : key -> list tv) ks k : (~ In k ks -> g k = []) ->
  kv_get k (map (fun k' => (k', g k')) ks) = g k.
Proof.
  intros H. rewrite kv_get_map_keys. destruct (existsb (nlist_eqb k) ks) eqn:E; [reflexivity|].
  symmetry. apply H. intros Hin. apply existsb_nlist_eqb in Hin. congruence.
Qed.

Lemma blocks_data_keys b : kv_keys (blocks_data b) = map fst b.
Proof. unfold kv_keys, blocks_data. rewrite map_map. reflexivity. Qed.

Lemma shard_reads_get s k : kv_get k (shard_reads s) = shard_read s k t_min t_max true.
Proof.
  unfold shard_reads. apply (kv_get_reads (fun k' => shard_read s k' t_min t_max true)).
  intros Hn. unfold shard_keys in Hn. rewrite in_nodup_keys in Hn. unfold shard_read. apply read_nil.
  - intros f Hf Hk. apply in_map_iff in Hf. destruct Hf as (sf & <- & Hsf). apply Hn. apply in_or_app. left.
    apply in_flat_map. exists sf. split; [exact Hsf|]. unfold to_tsm in Hk. cbn [f_data] in Hk. rewrite blocks_data_keys in Hk. exact Hk.
  - intros Hk. apply Hn. apply in_or_app. right. exact Hk.
Qed.

Lemma dshard_reads_get d k : kv_get k (dshard_reads d) = dshard_read d k t_min t_max true.
Proof.
  unfold dshard_reads. apply (kv_get_reads (fun k' => dshard_read d k' t_min t_max true)).
  intros Hn. unfold dshard_keys in Hn. rewrite in_nodup_keys in Hn. unfold dshard_read. apply read_nil.
  - intros f Hf Hk. apply Hn. apply in_or_app. left. apply in_flat_map. exists f. split; assumption.
  - intros Hk. apply Hn. apply in_or_app. right. exact Hk.
Qed.

Lemma source_preserved_nil a b : (forall k, kv_get k a = kv_get k b) -> source_preserved a b [] = true.
Proof.
  intros H. unfold source_preserved. apply same_reads_ext. intros k. unfold reads_after_writes. cbn [map]. rewrite app_nil_r.
  rewrite (kv_get_reads (fun k' => merge_lw (kv_get k' a) (batch_values k' []))).
  - cbn. symmetry. apply H.
  - intros Hn. cbn. apply kv_get_notin. exact Hn.
Qed.

(* ---- full backup + restore: the model's output satisfies copy_exact and source_preserved ---- *)

Theorem model_full_satisfies_spec stem now base s :
  wf_files (sh_files (write_snapshot stem now s)) = true ->
  exists s' ms d,
    backup SnapIdle stem now base None s = Some (s', ms) /\
    restore_all base empty_dshard ms = Some d /\
    copy_exact (shard_reads s) (shard_reads s') (dshard_reads d) [] = true /\
    source_preserved (shard_reads s) (shard_reads s') [] = true.
Proof.
  intros Hwf. destruct (restore_backup_eq_lemma stem now base s Hwf) as (s' & ms & d & Hb & Hr & Hread).
  exists s', ms, d. split; [exact Hb|]. split; [exact Hr|]. split.
  - unfold copy_exact. rewrite same_reads_ext; [reflexivity|]. intros k. rewrite dshard_reads_get, shard_reads_get. apply Hread.
  - apply source_preserved_nil. intros k. rewrite !shard_reads_get. symmetry.
    exact (backup_preserves_source_lemma _ _ _ _ _ _ _ _ Hb k t_min t_max true).
Qed.

(* ---- copy with faults: advertised only if exact ---- *)

Theorem model_copy_satisfies_spec ft stem now base sizes src node owners :
  wf_files (sh_files (write_snapshot stem now src)) = true ->
  ft_snap ft = SnapIdle ->
  length sizes = length (walk base (sh_files (write_snapshot stem now src))) ->
  let r := copy_shard ft stem now base sizes src None node owners in
  advertised_only_if_exact (cr_rpc_ok r) true (shard_reads src) (shard_reads (cr_src r))
    (match cr_dst r with Some d => dshard_reads d | None => [] end) [] = true.
Proof.
  intros Hwf Hs Hl. cbn zeta. unfold advertised_only_if_exact.
  destruct (cr_rpc_ok (copy_shard ft stem now base sizes src None node owners)) eqn:E; [|reflexivity].
  destruct (copy_advertised_exact ft stem now base sizes src node owners Hwf Hs Hl E) as (_ & d & Hd & Hread).
  rewrite Hd. cbn [negb orb andb]. unfold copy_exact. rewrite same_reads_ext; [reflexivity|].
  intros k. rewrite dshard_reads_get, shard_reads_get. apply Hread.
Qed.

(* ---- export: exact inside the window ---- *)

Lemma filter_filter_implies {A} (p q : A -> bool) l : (forall x, p x = true -> q x = true) -> filter p (filter q l) = filter p l.
Proof.
  intros H. induction l as [|x r IH]; [reflexivity|]. cbn [filter]. destruct (q x) eqn:Eq; cbn [filter]; rewrite IH; [reflexivity|].
  destruct (p x) eqn:Ep; [|reflexivity]. rewrite (H x Ep) in Eq. discriminate.
Qed.

Lemma read_window fs c k lo hi : t_min <= lo -> hi <= t_max ->
  include_range lo hi (read fs c k t_min t_max true) = read fs c k lo hi true.
Proof.
  intros H1 H2. unfold read, include_range. apply filter_filter_implies. intros x. unfold in_range. lia.
Qed.

Theorem model_export_satisfies_spec stem now base s e sh :
  wf_files (sh_files (write_snapshot stem now sh)) = true ->
  wf_blocks (sh_files (write_snapshot stem now sh)) = true ->
  t_min <= s -> e <= t_max ->
  exists sh' ms d,
    export SnapIdle stem now base s e sh = Some (sh', ms) /\
    restore_all base empty_dshard ms = Some d /\
    export_exact_in_window s e (shard_reads sh) (dshard_reads d) = true.
Proof.
  intros Hwf Hwb H1 H2.
  destruct (export_restore_eq_in_window_lemma stem now base s e sh Hwf Hwb) as (sh' & ms & d & He & Hr & Hread).
  exists sh', ms, d. split; [exact He|]. split; [exact Hr|].
  unfold export_exact_in_window, same_reads_in. apply forallb_forall. intros k _.
  rewrite dshard_reads_get, shard_reads_get. unfold dshard_read, shard_read. rewrite !read_window by assumption.
  fold (dshard_read d k s e true). fold (shard_read sh k s e true). rewrite (Hread k s e true) by lia. apply tvl_eqb_refl.
Qed.
