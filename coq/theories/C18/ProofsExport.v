(* C18/ProofsExport.v — a time-bounded export restored into an empty shard reads, inside
   the window, exactly like the source.  The archive of an export is the archive of a full
   backup in which each TSM member is present with all, some or none of its blocks; the first
   part generalises the restore argument of Proofs.v to such archives, the second part shows
   that the block filter does not change any lookup inside the window. *)
From Verif Require Import C18.Model C18.Names C18.Proofs.
From VerifGen Require Import Consts.
Open Scope Z_scope.

(* ---------- archives with per-file optional TSM content ---------- *)

Definition xfile := (sfile * option blocks)%type.

Definition xtomb (f : sfile) : list (name * (fkind * mbody)) :=
  if sf_has_ts f then [(tomb_name f, (KTomb, BTomb (sf_tombs f)))] else [].
Definition xtsm (x : xfile) : list (name * (fkind * mbody)) :=
  match snd x with Some b => [(tsm_name (fst x), (KTsm, BTsm b))] | None => [] end.

Definition xnew_of (xs : list xfile) : list (name * (fkind * mbody)) := flat_map (fun x => xtomb (fst x) ++ xtsm x) xs.
Definition xdir_of (xs : list xfile) : dir := map (fun e => (fst e, snd (snd e))) (xnew_of xs).

Definition xmembers (base : name) (xs : list xfile) : list member :=
  flat_map (fun x =>
    (if sf_has_ts (fst x)
     then [mk_member (member_path base (tomb_name (fst x))) false (sf_tmtime (fst x)) (BTomb (sf_tombs (fst x)))] else []) ++
    match snd x with
    | Some b => [mk_member (member_path base (tsm_name (fst x))) false (sf_mtime (fst x)) (BTsm b)]
    | None => []
    end) xs.

Definition xfiles (xs : list xfile) : list tsmfile :=
  flat_map (fun x => match snd x with
                     | Some b => [{| f_gen := 0; f_seq := 0; f_data := blocks_data b; f_tombs := sf_tombs (fst x) |}]
                     | None => []
                     end) xs.

Lemma xentries base xs : flat_map (entry_of true base) (xmembers base xs) = xnew_of xs.
Proof.
  unfold xmembers, xnew_of. induction xs as [|[f ob] r IH]; [reflexivity|]. cbn [flat_map fst snd].
  rewrite flat_map_app, IH. f_equal. unfold xtomb, xtsm, tomb_name, tsm_name. cbn [fst snd].
  destruct (sf_has_ts f), ob; cbn [flat_map app]; unfold entry_of;
    rewrite ?classify_tomb, ?classify_tsm; reflexivity.
Qed.

Lemma xnew_in_names xs n : In n (map fst (xnew_of xs)) -> In n (dir_names (map fst xs)).
Proof.
  unfold xnew_of, dir_names. induction xs as [|[f ob] r IH]; [intros []|]. cbn [flat_map map fst snd].
  rewrite map_app. intros H. apply in_app_or in H. apply in_or_app. destruct H as [H|H]; [left|right; exact (IH H)].
  unfold file_names, xtomb, xtsm in *. cbn [fst snd] in H. rewrite map_app in H. apply in_app_or in H. apply in_or_app.
  destruct H as [H|H].
  - left. destruct (sf_has_ts f); exact H.
  - right. destruct ob; [exact H|destruct H].
Qed.

Lemma strictly_sorted_app_intro a : forall b,
  strictly_sorted a = true -> strictly_sorted b = true ->
  (forall x y, In x a -> In y b -> lex_ltb x y = true) -> strictly_sorted (a ++ b) = true.
Proof.
  induction a as [|h a IH]; intros b Ha Hb Hab; [exact Hb|]. cbn in *.
  apply andb_true_iff in Ha. destruct Ha as [H1 H2]. rewrite forallb_app, H1. cbn.
  rewrite IH; [|exact H2|exact Hb|intros x y Hx Hy; apply Hab; [right; exact Hx|exact Hy]].
  rewrite andb_true_r. apply forallb_forall. intros y Hy. apply Hab; [left; reflexivity|exact Hy].
Qed.

Lemma xnames_sorted xs :
  strictly_sorted (dir_names (map fst xs)) = true -> strictly_sorted (map fst (xnew_of xs)) = true.
Proof.
  induction xs as [|[f ob] r IH]; intros H; [reflexivity|].
  cbn [map fst dir_names flat_map] in H. apply strictly_sorted_app in H. destruct H as (Hf & Hr & Hlt).
  unfold xnew_of. cbn [flat_map fst snd]. rewrite map_app. apply strictly_sorted_app_intro.
  - unfold xtomb, xtsm, file_names in *. cbn [fst snd]. destruct (sf_has_ts f), ob; cbn [map fst app strictly_sorted forallb] in *; try reflexivity.
    exact Hf.
  - apply IH. exact Hr.
  - intros x y Hx Hy. apply Hlt; [|apply xnew_in_names; exact Hy].
    pose proof (xnew_in_names [(f, ob)] x) as Hn. unfold xnew_of, dir_names in Hn.
    cbn [flat_map map fst snd] in Hn. rewrite !app_nil_r in Hn. apply Hn. exact Hx.
Qed.

Lemma xnew_installable xs : forallb installable (xnew_of xs) = true.
Proof.
  unfold xnew_of. induction xs as [|[f ob] r IH]; [reflexivity|]. cbn [flat_map fst snd]. rewrite !forallb_app, IH.
  unfold xtomb, xtsm. cbn [fst snd]. destruct (sf_has_ts f), ob; reflexivity.
Qed.

Lemma xinstall xs : strictly_sorted (dir_names (map fst xs)) = true -> install [] (xnew_of xs) = Some (xdir_of xs).
Proof.
  intros H. unfold install.
  assert (Hnd : NoDup (map fst (xnew_of xs))) by (apply strictly_sorted_NoDup, xnames_sorted; exact H).
  apply nodup_names_spec in Hnd as Hb. rewrite Hb, xnew_installable. cbn [negb].
  rewrite (fold_put_fresh (@snd fkind mbody)); [reflexivity|exact Hnd].
Qed.

Lemma xrestore base xs :
  strictly_sorted (dir_names (map fst xs)) = true ->
  restore_all base empty_dshard (xmembers base xs) = Some (mk_dshard (xdir_of xs) empty_cache).
Proof.
  intros H. unfold restore_all, restore, restore_dir, overlay. rewrite firstn_all, read_members_fold. cbn [rs_new app d_dir empty_dshard].
  rewrite xentries, (xinstall xs H). reflexivity.
Qed.

(* reopening *)

Lemma xdir_of_cons x r :
  xdir_of (x :: r) =
  ((if sf_has_ts (fst x) then [(tomb_name (fst x), BTomb (sf_tombs (fst x)))] else []) ++
   match snd x with Some b => [(tsm_name (fst x), BTsm b)] | None => [] end) ++ xdir_of r.
Proof.
  unfold xdir_of, xnew_of. cbn [flat_map]. rewrite !map_app. f_equal. unfold xtomb, xtsm.
  destruct (sf_has_ts (fst x)), (snd x); reflexivity.
Qed.

Definition xtsm_entries (xs : list xfile) : list (name * mbody) :=
  flat_map (fun x => match snd x with Some b => [(tsm_name (fst x), BTsm b)] | None => [] end) xs.

Lemma xdir_tsm_filter xs :
  filter (fun e => has_suffix (fst e) tsm_suffix && match snd e with BTsm _ => true | _ => false end) (xdir_of xs) = xtsm_entries xs.
Proof.
  induction xs as [|[f ob] r IH]; [reflexivity|]. rewrite xdir_of_cons, !filter_app, IH. cbn [xtsm_entries flat_map fst snd].
  f_equal. unfold tomb_name, tsm_name. destruct (sf_has_ts f), ob; cbn [filter fst snd app];
    rewrite ?tomb_name_not_tsm, ?tsm_name_is_tsm; reflexivity.
Qed.

Lemma xtsm_entries_in xs n : In n (map fst (xtsm_entries xs)) -> In n (dir_names (map fst xs)).
Proof.
  intros H. apply xnew_in_names. unfold xtsm_entries, xnew_of in *.
  induction xs as [|[f ob] r IH]; [destruct H|]. cbn [flat_map fst snd] in *. rewrite map_app in *.
  apply in_app_or in H. apply in_or_app. destruct H as [H|H]; [left|right; exact (IH H)].
  rewrite map_app. apply in_or_app. right. unfold xtsm. cbn [snd fst]. destruct ob; exact H.
Qed.

Lemma xtsm_entries_sorted xs :
  strictly_sorted (dir_names (map fst xs)) = true -> strictly_sorted (map fst (xtsm_entries xs)) = true.
Proof.
  induction xs as [|[f ob] r IH]; intros H; [reflexivity|].
  cbn [map fst dir_names flat_map] in H. apply strictly_sorted_app in H. destruct H as (Hf & Hr & Hlt).
  unfold xtsm_entries. cbn [flat_map fst snd]. rewrite map_app. apply strictly_sorted_app_intro.
  - destruct ob; reflexivity.
  - apply IH. exact Hr.
  - intros x y Hx Hy. apply Hlt; [|apply xtsm_entries_in; exact Hy].
    destruct ob; [|destruct Hx]. cbn in Hx. destruct Hx as [<-|[]]. unfold file_names. apply in_or_app. right. left. reflexivity.
Qed.

Lemma xdir_names_in xs n : In n (map fst (xdir_of xs)) -> In n (dir_names (map fst xs)).
Proof. intros H. apply xnew_in_names. unfold xdir_of in H. rewrite map_map in H. cbn [fst] in H. exact H. Qed.

Lemma xdir_get_tomb xs : NoDup (dir_names (map fst xs)) -> forall x, In x xs ->
  dir_get (tomb_name (fst x)) (xdir_of xs) = if sf_has_ts (fst x) then Some (BTomb (sf_tombs (fst x))) else None.
Proof.
  induction xs as [|[g ob] r IH]; intros Hnd x Hin; [destruct Hin|].
  cbn [map fst dir_names flat_map] in Hnd. rewrite xdir_of_cons, dir_get_app. cbn [fst snd].
  pose proof (NoDup_app_disjoint _ _ Hnd) as Hdis.
  assert (Hg_tsm : In (tsm_name g) (file_names g)) by (unfold file_names; apply in_or_app; right; left; reflexivity).
  destruct Hin as [<-|Hin]; cbn [fst snd].
  - destruct (sf_has_ts g) eqn:Ets.
    + cbn [app dir_get]. rewrite nlist_eqb_refl. reflexivity.
    + assert (Hh : dir_get (tomb_name g) ([] ++ match ob with Some b => [(tsm_name g, BTsm b)] | None => [] end) = None).
      { destruct ob; cbn [app dir_get]; [rewrite nlist_eqb_neq by (apply tsm_tomb_names_differ)|]; reflexivity. }
      rewrite Hh. apply dir_get_none. intros Hin'. apply xdir_names_in in Hin'.
      destruct (in_dir_names _ _ Hin') as (g' & Hg' & [E|[_ E]]).
      * symmetry in E. exact (tsm_tomb_names_differ _ _ E).
      * apply stem_of_tomb_name in E. apply (Hdis (tsm_name g) Hg_tsm). rewrite E. apply tsm_name_in_dir_names. exact Hg'.
  - assert (Hx : In (fst x) (map fst r)) by (apply in_map; exact Hin).
    assert (Hne : tomb_name (fst x) <> tomb_name g).
    { intros E. apply stem_of_tomb_name in E. apply (Hdis (tsm_name g) Hg_tsm). rewrite <- E. apply tsm_name_in_dir_names. exact Hx. }
    assert (dir_get (tomb_name (fst x))
              ((if sf_has_ts g then [(tomb_name g, BTomb (sf_tombs g))] else []) ++
               match ob with Some b => [(tsm_name g, BTsm b)] | None => [] end) = None) as ->.
    { destruct (sf_has_ts g), ob; cbn [app dir_get];
        rewrite ?(nlist_eqb_neq (tomb_name g)) by (intros E; apply Hne; symmetry; exact E);
        rewrite ?(nlist_eqb_neq (tsm_name g)) by (apply tsm_tomb_names_differ); reflexivity. }
    apply IH; [exact (NoDup_app_r _ _ Hnd)|exact Hin].
Qed.

Lemma xdir_files xs :
  wf_files (map fst xs) = true -> dir_files (xdir_of xs) = xfiles xs.
Proof.
  intros H. pose proof (wf_files_sorted _ H) as Hs.
  unfold dir_files, dir_tsm_entries. rewrite xdir_tsm_filter.
  rewrite sort_sorted by (apply xtsm_entries_sorted; exact Hs).
  pose proof (xdir_get_tomb xs (strictly_sorted_NoDup _ Hs)) as Hget.
  assert (Htombs : forall x, In x xs -> dir_tombs (xdir_of xs) (tsm_name (fst x)) = sf_tombs (fst x)).
  { intros x Hx. unfold dir_tombs, tsm_name. rewrite trim_suffix_app. fold (tomb_name (fst x)). rewrite (Hget x Hx).
    destruct (sf_has_ts (fst x)) eqn:E; [reflexivity|]. symmetry. apply (wf_files_tombs (map fst xs)); [exact H|apply in_map; exact Hx|exact E]. }
  clear Hget. unfold xtsm_entries, xfiles. generalize (xdir_of xs) Htombs. intros d.
  assert (G : forall l, (forall x, In x l -> dir_tombs d (tsm_name (fst x)) = sf_tombs (fst x)) ->
           map (fun e => {| f_gen := 0; f_seq := 0; f_data := match snd e with BTsm b => blocks_data b | _ => [] end; f_tombs := dir_tombs d (fst e) |})
               (flat_map (fun x => match snd x with Some b => [(tsm_name (fst x), BTsm b)] | None => [] end) l) =
           flat_map (fun x => match snd x with
                              | Some b => [{| f_gen := 0; f_seq := 0; f_data := blocks_data b; f_tombs := sf_tombs (fst x) |}]
                              | None => [] end) l).
  { induction l as [|[f ob] r IH]; intros Hl; [reflexivity|]. cbn [flat_map fst snd]. rewrite map_app, IH by (intros x Hx; apply Hl; right; exact Hx).
    f_equal. destruct ob; [|reflexivity]. cbn [map fst snd]. pose proof (Hl (f, Some b) (or_introl eq_refl)) as Hh. cbn [fst] in Hh. rewrite Hh. reflexivity. }
  apply G.
Qed.

(* ---------- the export archive is such an archive ---------- *)

Definition export_x (s e : Z) (fs : list sfile) : list xfile := map (fun f => (f, export_tsm s e (sf_dead f) (sf_blocks f))) fs.

Lemma export_x_fst s e fs : map fst (export_x s e fs) = fs.
Proof. unfold export_x. rewrite map_map. cbn [fst]. apply map_id. Qed.

Lemma export_members_snd s e base fs :
  map snd (export_members base s e fs) = xmembers base (export_x s e fs).
Proof.
  unfold export_members, xmembers, export_x. induction fs as [|f r IH]; [reflexivity|]. cbn [flat_map map fst snd].
  rewrite map_app, IH. f_equal.
  destruct (sf_has_ts f), (export_tsm s e (sf_dead f) (sf_blocks f)); reflexivity.
Qed.

Lemma export_members_fst s e base fs :
  map fst (export_members base s e fs) = map fst (xnew_of (export_x s e fs)).
Proof.
  unfold export_members, xnew_of, export_x. induction fs as [|f r IH]; [reflexivity|]. cbn [flat_map map fst snd].
  rewrite !map_app, IH. f_equal. unfold xtomb, xtsm. cbn [fst snd].
  destruct (sf_has_ts f), (export_tsm s e (sf_dead f) (sf_blocks f)); reflexivity.
Qed.

(* ---------- lookups through tombstones and blocks ---------- *)

Lemma lookup_apply_tombs t k tombs : forall vs,
  lookup_last t (apply_tombs k tombs vs) = if covered k t tombs then None else lookup_last t vs.
Proof.
  unfold apply_tombs. induction tombs as [|tb r IH]; intros vs; cbn [fold_left covered existsb]; [reflexivity|].
  rewrite IH. fold (covered k t r). destruct (key_eqb (fst tb) k); cbn [andb orb].
  - rewrite lookup_exclude_range. destruct ((fst (snd tb) <=? t) && (t <=? snd (snd tb))); cbn [orb];
      destruct (covered k t r); reflexivity.
  - reflexivity.
Qed.

Fixpoint kblocks (k : key) (b : blocks) : list (list tv) :=
  match b with
  | [] => []
  | (k', bs) :: r => if key_eqb k' k then bs else kblocks k r
  end.

Lemma kv_get_blocks_data k b : kv_get k (blocks_data b) = concat (kblocks k b).
Proof.
  unfold blocks_data. induction b as [|[k' bs] r IH]; [reflexivity|]. cbn [map kv_get kblocks fst snd].
  destruct (key_eqb k' k); [reflexivity|exact IH].
Qed.

Lemma kblocks_notin k b : ~ In k (map fst b) -> kblocks k b = [].
Proof.
  induction b as [|[k' bs] r IH]; intros H; [reflexivity|]. cbn [kblocks]. cbn in H. unfold key_eqb.
  rewrite nlist_eqb_neq by (intros E; apply H; left; exact E). apply IH. intros Hin. apply H. right. exact Hin.
Qed.

Lemma existsb_key_eqb_false k dead k' : existsb (key_eqb k') dead = false -> k' = k -> existsb (key_eqb k) dead = false.
Proof. intros H ->. exact H. Qed.

Lemma kblocks_filter s e dead k b : NoDup (map fst b) ->
  kblocks k (filter_blocks s e dead b) =
  if existsb (key_eqb k) dead then [] else filter (block_kept s e) (kblocks k b).
Proof.
  unfold filter_blocks. induction b as [|[k' bs] r IH]; intros Hnd; [destruct (existsb (key_eqb k) dead); reflexivity|].
  cbn [map fst] in Hnd. inversion Hnd as [|? ? Hn Hd]; subst. cbn [flat_map kblocks fst snd].
  destruct (key_eqb k' k) eqn:E.
  - unfold key_eqb in E. apply nlist_eqb_eq in E. subst k'.
    destruct (existsb (key_eqb k) dead) eqn:Ed.
    + cbn [app]. rewrite (IH Hd). reflexivity.
    + destruct (filter (block_kept s e) bs) as [|b0 l] eqn:Ef.
      * cbn [app]. rewrite (IH Hd), (kblocks_notin k r Hn). reflexivity.
      * cbn [app kblocks]. unfold key_eqb. rewrite nlist_eqb_refl. reflexivity.
  - destruct (existsb (key_eqb k') dead); [exact (IH Hd)|].
    destruct (filter (block_kept s e) bs) as [|b0 l]; cbn [app kblocks]; [|rewrite E]; exact (IH Hd).
Qed.

Lemma lookup_last_in t v l : lookup_last t l = Some v -> In (t, v) l.
Proof.
  induction l as [|[t' v'] r IH]; cbn [lookup_last]; [discriminate|].
  destruct (lookup_last t r) as [v0|] eqn:E.
  - intros H. inversion H; subst. right. apply IH. reflexivity.
  - destruct (t' =? t) eqn:Et; [|discriminate]. intros H. inversion H; subst. left. f_equal. lia.
Qed.

Lemma lookup_concat_some t v bls : lookup_last t (concat bls) = Some v -> exists b, In b bls /\ In (t, v) b.
Proof.
  induction bls as [|b r IH]; cbn [concat]; [discriminate|]. rewrite lookup_last_app.
  destruct (lookup_last t (concat r)) as [v0|] eqn:E.
  - intros H. inversion H; subst. destruct (IH eq_refl) as (b' & Hb & Hin). exists b'. split; [right; exact Hb|exact Hin].
  - intros H. exists b. split; [left; reflexivity|apply lookup_last_in; exact H].
Qed.

Lemma block_max_cons a r : block_max (a :: r) = match r with [] => Some (fst a) | _ => block_max r end.
Proof.
  unfold block_max. cbn [rev]. destruct r as [|y r']; [reflexivity|]. cbn [rev].
  destruct (rev r' ++ [y]) as [|z l] eqn:E; [apply app_eq_nil in E; destruct E; discriminate|reflexivity].
Qed.

(* in a sorted block every timestamp lies between the first and the last *)
Lemma block_bounds b : ssorted b -> forall x, In x b ->
  exists mn mx, block_min b = Some mn /\ block_max b = Some mx /\ mn <= fst x <= mx.
Proof.
  induction b as [|a r IH]; intros Hs x Hin; [destruct Hin|].
  pose proof (ssorted_all_gt _ _ Hs) as Hgt. rewrite block_max_cons. cbn [block_min].
  destruct r as [|y r'].
  - destruct Hin as [->|[]]. exists (fst x), (fst x). repeat split; lia.
  - specialize (IH (ssorted_tail _ _ Hs)).
    destruct Hin as [->|Hin].
    + destruct (IH y (or_introl eq_refl)) as (mn & mx & _ & Hmx & Hb). exists (fst x), mx. repeat split; [exact Hmx|lia|].
      specialize (Hgt y (or_introl eq_refl)). lia.
    + destruct (IH x Hin) as (mn & mx & _ & Hmx & Hb). exists (fst a), mx. repeat split; [exact Hmx| |lia].
      specialize (Hgt x Hin). lia.
Qed.

Lemma block_dropped_no_point s e t b :
  ssorted b -> s <= t <= e -> block_kept s e b = false -> lookup_last t b = None.
Proof.
  intros Hs Ht Hk. destruct (lookup_last t b) as [v|] eqn:E; [|reflexivity]. exfalso.
  apply lookup_last_in in E. destruct (block_bounds b Hs _ E) as (mn & mx & Hmn & Hmx & Hb). cbn [fst] in Hb.
  unfold block_kept in Hk. rewrite Hmn, Hmx in Hk. lia.
Qed.

Lemma lookup_concat_filter s e t bls :
  s <= t <= e -> (forall b, In b bls -> ssorted b) ->
  lookup_last t (concat (filter (block_kept s e) bls)) = lookup_last t (concat bls).
Proof.
  intros Ht. induction bls as [|b r IH]; intros Hs; [reflexivity|]. cbn [filter concat].
  assert (IH' := IH (fun b' Hb' => Hs b' (or_intror Hb'))).
  destruct (block_kept s e b) eqn:E; cbn [concat]; rewrite !lookup_last_app, IH'; [reflexivity|].
  rewrite (block_dropped_no_point s e t b (Hs b (or_introl eq_refl)) Ht E).
  destruct (lookup_last t (concat r)); reflexivity.
Qed.

(* ---------- TSMReader.TimeRange bounds every point of the file ---------- *)

Lemma fold_min_le r : forall x, fold_left Z.min r x <= x /\ forall y, In y r -> fold_left Z.min r x <= y.
Proof.
  induction r as [|a r IH]; intros x; cbn [fold_left]; [split; [lia|intros y []]|].
  destruct (IH (Z.min x a)) as [H1 H2]. split; [lia|]. intros y [<-|Hy]; [lia|exact (H2 y Hy)].
Qed.

Lemma fold_max_ge r : forall x, x <= fold_left Z.max r x /\ forall y, In y r -> y <= fold_left Z.max r x.
Proof.
  induction r as [|a r IH]; intros x; cbn [fold_left]; [split; [lia|intros y []]|].
  destruct (IH (Z.max x a)) as [H1 H2]. split; [lia|]. intros y [<-|Hy]; [lia|exact (H2 y Hy)].
Qed.

Lemma zmin_list_le l x : In x l -> exists m, zmin_list l = Some m /\ m <= x.
Proof.
  destruct l as [|a r]; [intros []|]. intros Hin. cbn [zmin_list]. eexists. split; [reflexivity|].
  destruct (fold_min_le r a) as [H1 H2]. destruct Hin as [<-|Hin]; [exact H1|exact (H2 x Hin)].
Qed.

Lemma zmax_list_ge l x : In x l -> exists m, zmax_list l = Some m /\ x <= m.
Proof.
  destruct l as [|a r]; [intros []|]. intros Hin. cbn [zmax_list]. eexists. split; [reflexivity|].
  destruct (fold_max_ge r a) as [H1 H2]. destruct Hin as [<-|Hin]; [exact H1|exact (H2 x Hin)].
Qed.

Lemma kblocks_in_all k bs b : In b (kblocks k bs) -> In b (all_blocks bs).
Proof.
  unfold all_blocks. induction bs as [|[k' l] r IH]; [intros []|]. cbn [kblocks flat_map snd].
  intros H. apply in_or_app. destruct (key_eqb k' k); [left; exact H|right; exact (IH H)].
Qed.

Lemma point_in_file_range bs b x :
  In b (all_blocks bs) -> ssorted b -> In x b ->
  exists fm fM, file_min bs = Some fm /\ file_max bs = Some fM /\ fm <= fst x <= fM.
Proof.
  intros Hb Hs Hx. destruct (block_bounds b Hs x Hx) as (mn & mx & Hmn & Hmx & Hbd).
  assert (Hin1 : In mn (flat_map (fun b => opt_list (block_min b)) (all_blocks bs))).
  { apply in_flat_map. exists b. split; [exact Hb|]. rewrite Hmn. left. reflexivity. }
  assert (Hin2 : In mx (flat_map (fun b => opt_list (block_max b)) (all_blocks bs))).
  { apply in_flat_map. exists b. split; [exact Hb|]. rewrite Hmx. left. reflexivity. }
  destruct (zmin_list_le _ _ Hin1) as (fm & Hfm & Hle1). destruct (zmax_list_ge _ _ Hin2) as (fM & HfM & Hle2).
  exists fm, fM. unfold file_min, file_max. repeat split; try assumption; lia.
Qed.

(* ---------- one file: the export filter keeps every lookup inside the window ---------- *)

Lemma wf_file_blocks_spec bs : wf_file_blocks bs = true ->
  NoDup (map fst bs) /\ forall b, In b (all_blocks bs) -> ssorted b.
Proof.
  unfold wf_file_blocks. intros H. apply andb_true_iff in H. destruct H as [H1 H2]. split; [apply nodup_names_spec; exact H1|].
  intros b Hb. unfold all_blocks in Hb. apply in_flat_map in Hb. destruct Hb as (kb & Hkb & Hb).
  rewrite forallb_forall in H2. specialize (H2 kb Hkb). rewrite forallb_forall in H2. specialize (H2 b Hb).
  apply andb_true_iff in H2. apply ssortedb_spec. tauto.
Qed.

Lemma dead_key_covered (f : sfile) k t :
  dead_ok f = true -> existsb (key_eqb k) (sf_dead f) = true ->
  covered k t (sf_tombs f) = false -> lookup_last t (kv_get k (blocks_data (sf_blocks f))) = None.
Proof.
  intros Hd Hk Hc. destruct (lookup_last t (kv_get k (blocks_data (sf_blocks f)))) as [v|] eqn:E; [|reflexivity]. exfalso.
  apply lookup_last_in in E. unfold dead_ok in Hd. rewrite forallb_forall in Hd.
  apply existsb_exists in Hk. destruct Hk as (k' & Hk' & Ek). unfold key_eqb in Ek. apply nlist_eqb_eq in Ek. subst k'.
  specialize (Hd k Hk'). rewrite forallb_forall in Hd. specialize (Hd (t, v) E). cbn [fst] in Hd. congruence.
Qed.

Lemma export_file_lookup s e t k (f : sfile) :
  wf_file_blocks (sf_blocks f) = true -> dead_ok f = true -> s <= t <= e ->
  lookup_last t (match export_tsm s e (sf_dead f) (sf_blocks f) with
                 | Some b => file_values {| f_gen := 0; f_seq := 0; f_data := blocks_data b; f_tombs := sf_tombs f |} k
                 | None => []
                 end) = lookup_last t (file_values (to_tsm f) k).
Proof.
  intros Hwf Hdead Ht. destruct (wf_file_blocks_spec _ Hwf) as [Hnd Hsorted].
  set (bs := sf_blocks f) in *. set (dead := sf_dead f) in *.
  assert (Hk_sorted : forall b, In b (kblocks k bs) -> ssorted b) by (intros b Hb; apply Hsorted, kblocks_in_all with k; exact Hb).
  (* a filtered file answers like the whole file inside the window, tombstones applied *)
  assert (Hfilt : (if covered k t (sf_tombs f) then None else lookup_last t (kv_get k (blocks_data (filter_blocks s e dead bs)))) =
                  (if covered k t (sf_tombs f) then None else lookup_last t (kv_get k (blocks_data bs)))).
  { destruct (covered k t (sf_tombs f)) eqn:Ec; [reflexivity|].
    rewrite !kv_get_blocks_data, (kblocks_filter s e dead k bs Hnd).
    destruct (existsb (key_eqb k) dead) eqn:Ed.
    - cbn. rewrite <- kv_get_blocks_data. symmetry. exact (dead_key_covered f k t Hdead Ed Ec).
    - apply lookup_concat_filter; assumption. }
  unfold file_values at 2. unfold to_tsm. cbn [f_tombs f_data]. fold bs. rewrite lookup_apply_tombs.
  unfold export_tsm.
  destruct (file_min bs) as [fm|] eqn:Efm, (file_max bs) as [fM|] eqn:EfM.
  - destruct (((s <=? fm) && (fm <=? e) && (e <? fM)) || ((s <=? fM) && (fM <=? e) && (fm <? s)) ||
              ((fm <=? s) && (e <=? fM) && negb ((fm =? s) && (fM =? e)))) eqn:Eov.
    + destruct (filter_blocks s e dead bs) as [|kb l] eqn:Ef.
      * cbn [lookup_last]. change (lookup_last t (kv_get k (blocks_data []))) with (@None value) in Hfilt.
        rewrite <- Hfilt. destruct (covered k t (sf_tombs f)); reflexivity.
      * unfold file_values. cbn [f_tombs f_data]. rewrite lookup_apply_tombs. exact Hfilt.
    + destruct ((s <=? fm) && (fM <=? e)) eqn:Ein.
      * unfold file_values. cbn [f_tombs f_data]. rewrite lookup_apply_tombs. reflexivity.
      * cbn [lookup_last]. destruct (lookup_last t (kv_get k (blocks_data bs))) as [v|] eqn:E; [|destruct (covered k t (sf_tombs f)); reflexivity].
        exfalso. rewrite kv_get_blocks_data in E. destruct (lookup_concat_some _ _ _ E) as (b & Hb & Hin).
        destruct (point_in_file_range bs b (t, v) (kblocks_in_all _ _ _ Hb) (Hk_sorted b Hb) Hin) as (fm' & fM' & H1 & H2 & H3).
        rewrite Efm in H1. rewrite EfM in H2. inversion H1; inversion H2; subst. cbn [fst] in H3. lia.
  - cbn [lookup_last]. destruct (lookup_last t (kv_get k (blocks_data bs))) as [v|] eqn:E; [|destruct (covered k t (sf_tombs f)); reflexivity].
    exfalso. rewrite kv_get_blocks_data in E. destruct (lookup_concat_some _ _ _ E) as (b & Hb & Hin).
    destruct (point_in_file_range bs b (t, v) (kblocks_in_all _ _ _ Hb) (Hk_sorted b Hb) Hin) as (fm' & fM' & H1 & H2 & H3). congruence.
  - cbn [lookup_last]. destruct (lookup_last t (kv_get k (blocks_data bs))) as [v|] eqn:E; [|destruct (covered k t (sf_tombs f)); reflexivity].
    exfalso. rewrite kv_get_blocks_data in E. destruct (lookup_concat_some _ _ _ E) as (b & Hb & Hin).
    destruct (point_in_file_range bs b (t, v) (kblocks_in_all _ _ _ Hb) (Hk_sorted b Hb) Hin) as (fm' & fM' & H1 & H2 & H3). congruence.
  - cbn [lookup_last]. destruct (lookup_last t (kv_get k (blocks_data bs))) as [v|] eqn:E; [|destruct (covered k t (sf_tombs f)); reflexivity].
    exfalso. rewrite kv_get_blocks_data in E. destruct (lookup_concat_some _ _ _ E) as (b & Hb & Hin).
    destruct (point_in_file_range bs b (t, v) (kblocks_in_all _ _ _ Hb) (Hk_sorted b Hb) Hin) as (fm' & fM' & H1 & H2 & H3). congruence.
Qed.

(* ---------- all files ---------- *)

Lemma export_files_lookup s e t k fs :
  wf_blocks fs = true -> s <= t <= e ->
  lookup_last t (flat_map (fun f => file_values f k) (xfiles (export_x s e fs))) =
  lookup_last t (flat_map (fun f => file_values f k) (map to_tsm fs)).
Proof.
  intros Hwf Ht. unfold xfiles, export_x. induction fs as [|f r IH]; [reflexivity|].
  cbn [wf_blocks forallb] in Hwf. apply andb_true_iff in Hwf. destruct Hwf as [Hf Hr].
  apply andb_true_iff in Hf. destruct Hf as [Hf Hdead].
  cbn [map flat_map fst snd]. rewrite flat_map_app, !lookup_last_app. fold (wf_blocks r) in Hr. rewrite (IH Hr).
  pose proof (export_file_lookup s e t k f Hf Hdead Ht) as Hfile.
  destruct (export_tsm s e (sf_dead f) (sf_blocks f)); cbn [flat_map app] in *; [rewrite app_nil_r|]; rewrite Hfile; reflexivity.
Qed.

Lemma export_window_read s e fs k lo hi asc :
  wf_blocks fs = true -> s <= lo -> hi <= e ->
  read (xfiles (export_x s e fs)) empty_cache k lo hi asc = read (map to_tsm fs) empty_cache k lo hi asc.
Proof.
  intros Hwf Hlo Hhi. unfold read.
  assert (E : include_range lo hi (read_all (xfiles (export_x s e fs)) empty_cache k) =
              include_range lo hi (read_all (map to_tsm fs) empty_cache k)).
  { apply sorted_lookup_ext; try (apply filter_ssorted, read_all_sorted).
    intros t. rewrite !lookup_include_range.
    destruct ((lo <=? t) && (t <=? hi)) eqn:Et; [|reflexivity].
    rewrite !read_all_lookup. change (cache_values empty_cache k) with (@nil tv). rewrite !app_nil_r.
    apply export_files_lookup; [exact Hwf|lia]. }
  rewrite E. reflexivity.
Qed.

(* ---------- export, restore, read ---------- *)

Lemma export_restore_eq_in_window_lemma stem now base s e sh :
  wf_files (sh_files (write_snapshot stem now sh)) = true ->
  wf_blocks (sh_files (write_snapshot stem now sh)) = true ->
  exists sh' ms d,
    export SnapIdle stem now base s e sh = Some (sh', ms) /\
    restore_all base empty_dshard ms = Some d /\
    forall k lo hi asc, s <= lo -> hi <= e -> dshard_read d k lo hi asc = shard_read sh k lo hi asc.
Proof.
  intros Hwf Hwb. set (sh' := write_snapshot stem now sh) in *. set (fs := sh_files sh') in *.
  exists sh', (map snd (sort_entries (export_members base s e fs))), (mk_dshard (xdir_of (export_x s e fs)) empty_cache).
  split; [reflexivity|].
  assert (Hs : strictly_sorted (dir_names (map fst (export_x s e fs))) = true) by (rewrite export_x_fst; apply wf_files_sorted; exact Hwf).
  split.
  - rewrite sort_sorted by (rewrite export_members_fst; apply xnames_sorted; exact Hs).
    rewrite export_members_snd. apply xrestore. exact Hs.
  - intros k lo hi asc Hlo Hhi. unfold dshard_read. cbn [d_dir d_cache].
    rewrite xdir_files by (rewrite export_x_fst; exact Hwf).
    rewrite (export_window_read s e fs k lo hi asc Hwb Hlo Hhi).
    rewrite <- (write_snapshot_read stem now sh k lo hi asc). fold sh'. unfold shard_read. fold fs.
    symmetry. apply read_cache_empty. apply write_snapshot_cache_empty.
Qed.
