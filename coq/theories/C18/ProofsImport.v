(* C18/ProofsImport.v — Engine.Import (overlay with asNew): every TSM file of the archive is
   installed under a new name and its tombstone file follows it under the same new stem; an
   import of a full backup into an empty shard reads like the source. *)
From Verif Require Import C18.Model C18.Names C18.Proofs.
From VerifGen Require Import Consts.
Open Scope Z_scope.

(* the i-th file of the archive gets the stem of generation g+i *)
Fixpoint rename_files (fresh : nat -> name) (g : nat) (fs : list sfile) : list sfile :=
  match fs with
  | [] => []
  | f :: r => mk_sfile (fresh g) (sf_blocks f) (sf_tombs f) (sf_has_ts f) (sf_mtime f) (sf_tmtime f) (sf_dead f)
              :: rename_files fresh (S g) r
  end.

Lemma rename_files_to_tsm fresh fs : forall g, map to_tsm (rename_files fresh g fs) = map to_tsm fs.
Proof. induction fs as [|f r IH]; intros g; [reflexivity|]. cbn [rename_files map]. rewrite IH. reflexivity. Qed.

Lemma assoc_none n l : ~ In n (map fst l) -> assoc n l = None.
Proof.
  induction l as [|[a b] r IH]; intros H; [reflexivity|]. cbn [assoc]. cbn in H.
  rewrite nlist_eqb_neq by (intros E; apply H; left; exact E). apply IH. intros Hin. apply H. right. exact Hin.
Qed.

Lemma trim_tomb x : trim_suffix (x ++ tomb_suffix) (dot :: kind_ext KTomb) = x.
Proof. apply trim_suffix_app. Qed.
Lemma trim_tsm x : trim_suffix (x ++ tsm_suffix) (dot :: kind_ext KTsm) = x.
Proof. apply trim_suffix_app. Qed.

(* stems of a well-formed directory are distinct *)
Lemma stems_distinct f r : NoDup (dir_names (f :: r)) -> ~ In (sf_stem f) (map sf_stem r).
Proof.
  cbn [dir_names flat_map]. intros Hnd Hin. apply in_map_iff in Hin. destruct Hin as (g & E & Hg).
  apply (NoDup_app_disjoint _ _ Hnd (tsm_name f)).
  - unfold file_names. apply in_or_app. right. left. reflexivity.
  - replace (tsm_name f) with (tsm_name g) by (unfold tsm_name; rewrite E; reflexivity). apply tsm_name_in_dir_names. exact Hg.
Qed.

Lemma import_members_fold fresh base fs : forall st,
  NoDup (dir_names fs) ->
  (forall f, In f fs -> ~ In (sf_stem f) (map fst (rs_names st))) ->
  exists names',
    fold_left (read_member true fresh base true) (map snd (link_members base fs)) st =
    mk_rstate (rs_new st ++ new_of (rename_files fresh (S (rs_gen st)) fs)) names' (rs_gen st + length fs).
Proof.
  unfold link_members. induction fs as [|f r IH]; intros [nw nm g] Hnd Hfresh; cbn [rs_new rs_names rs_gen] in *.
  - exists nm. cbn. rewrite app_nil_r, Nat.add_0_r. reflexivity.
  - assert (Hf : assoc (sf_stem f) nm = None) by (apply assoc_none, Hfresh; left; reflexivity).
    assert (Hnd' : NoDup (dir_names r)) by (cbn [dir_names flat_map] in Hnd; exact (NoDup_app_r _ _ Hnd)).
    pose proof (stems_distinct f r Hnd) as Hdist.
    cbn [flat_map]. rewrite map_app, fold_left_app.
    set (st1 := fold_left (read_member true fresh base true) _ (mk_rstate nw nm g)).
    assert (Hst1 : st1 = mk_rstate
              (nw ++ (if sf_has_ts f then [(fresh (S g) ++ tomb_suffix, (KTomb, BTomb (sf_tombs f)))] else []) ++
                     [(fresh (S g) ++ tsm_suffix, (KTsm, BTsm (sf_blocks f)))])
              ((sf_stem f, fresh (S g)) :: nm) (S g)).
    { subst st1. unfold tomb_name, tsm_name. destruct (sf_has_ts f); cbn [map snd app fold_left].
      - unfold read_member at 2. rewrite classify_tomb. rewrite trim_tomb. cbn [rs_names rs_gen rs_new]. rewrite Hf.
        unfold read_member. rewrite classify_tsm, trim_tsm. cbn [rs_names rs_gen rs_new assoc]. rewrite nlist_eqb_refl.
        rewrite <- app_assoc. reflexivity.
      - unfold read_member. rewrite classify_tsm, trim_tsm. cbn [rs_names rs_gen rs_new]. rewrite Hf. reflexivity. }
    rewrite Hst1.
    destruct (IH (mk_rstate (nw ++ (if sf_has_ts f then [(fresh (S g) ++ tomb_suffix, (KTomb, BTomb (sf_tombs f)))] else []) ++
                                   [(fresh (S g) ++ tsm_suffix, (KTsm, BTsm (sf_blocks f)))])
                            ((sf_stem f, fresh (S g)) :: nm) (S g)) Hnd') as (names' & E).
    { intros f' Hf' Hin. cbn [rs_names map fst] in Hin. destruct Hin as [E|Hin].
      - apply Hdist. rewrite E. apply in_map. exact Hf'.
      - exact (Hfresh f' (or_intror Hf') Hin). }
    exists names'. rewrite E. cbn [rs_new rs_gen length rename_files new_of flat_map].
    f_equal; [|lia]. rewrite <- !app_assoc. f_equal.
    all: try (unfold tomb_name, tsm_name; cbn [sf_stem sf_has_ts sf_tombs sf_blocks]; destruct (sf_has_ts f); reflexivity).
Qed.

Lemma import_backup_eq_lemma fresh stem now base s :
  let s' := write_snapshot stem now s in
  wf_files (sh_files s') = true ->
  wf_files (rename_files fresh 1 (sh_files s')) = true ->
  exists ms d,
    backup SnapIdle stem now base None s = Some (s', ms) /\
    import fresh base 0 empty_dshard ms (length ms) EndMarker = Some d /\
    forall k lo hi asc, dshard_read d k lo hi asc = shard_read s k lo hi asc.
Proof.
  cbn zeta. intros Hwf Hwf'. set (s' := write_snapshot stem now s) in *. set (fs := sh_files s') in *.
  exists (walk base fs), (mk_dshard (dir_of (rename_files fresh 1 fs)) empty_cache). split; [reflexivity|]. split.
  - unfold import, overlay. rewrite firstn_all, (walk_wf base fs Hwf).
    destruct (import_members_fold fresh base fs (mk_rstate [] [] 0)
                (strictly_sorted_NoDup _ (wf_files_sorted _ Hwf)) (fun f _ H => H)) as (names' & E).
    rewrite E. cbn [rs_new rs_gen app d_dir empty_dshard]. rewrite (install_new_of _ Hwf'). reflexivity.
  - intros k lo hi asc. unfold dshard_read. cbn [d_dir d_cache].
    rewrite (dir_files_dir_of _ Hwf'), rename_files_to_tsm.
    rewrite <- (write_snapshot_read stem now s k lo hi asc). fold s'. unfold shard_read. fold fs.
    symmetry. apply read_cache_empty. apply write_snapshot_cache_empty.
Qed.
