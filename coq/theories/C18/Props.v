(* C18/Props.v — property theorems only.  Each is closed by [exact] of a lemma proved in
   Proofs*.v and followed by Print Assumptions.
   [wf_files fs = true] is the invariant of a shard directory: file names (TSM and tombstone)
   distinct and in FileStore order, tombstones only where a tombstone file exists.  It is
   executable and re-checked on every observed source state by Run.v. *)
From Verif Require Import C18.Model C18.Names C18.Proofs C18.ProofsCopy C18.ProofsExport C18.ProofsImport C18.ProofsIncr C18.ProofsSeq C18.Spec C18.Run C18.ProofsLink C18.ProofsRetained.
From VerifGen Require Import Consts.
Open Scope Z_scope.

(* For EVERY shard state (any files with any tombstones, any cache: snapshot being flushed and
   hot store) whose directory is well formed once the backup's cache snapshot has been written
   under the next file name [stem]: a full backup succeeds, restoring the archive into an
   empty shard succeeds, and every read (any key, any window, both directions) of the restored
   shard equals the read of the source. *)
Theorem restore_backup_eq :
  forall (stem : name) (now : Z) (base : name) (s : shard),
  wf_files (sh_files (write_snapshot stem now s)) = true ->
  exists s' ms d,
    backup SnapIdle stem now base None s = Some (s', ms) /\
    restore_all base empty_dshard ms = Some d /\
    forall k lo hi asc, dshard_read d k lo hi asc = shard_read s k lo hi asc.
Proof. exact restore_backup_eq_lemma. Qed.
Print Assumptions restore_backup_eq.

(* Whatever the snapshotter does (idle, busy for all attempts, failing), for full and
   incremental backups: the state the source is left in answers every read as before. *)
Theorem backup_preserves_source :
  forall o stem now base since s s' ms,
  backup o stem now base since s = Some (s', ms) ->
  forall k lo hi asc, shard_read s' k lo hi asc = shard_read s k lo hi asc.
Proof. exact backup_preserves_source_lemma. Qed.
Print Assumptions backup_preserves_source.

(* Writes [pre] before the backup starts, the backup's cache snapshot, then any interleaving
   [mid] of writes and background cache snapshots until FileStore.CreateSnapshot links the
   files: the restored copy reads exactly like the source after some prefix [mid1] of [mid],
   i.e. like a state the source was in between start and end of the backup. *)
Theorem backup_under_writes :
  forall s pre mid stem now base,
  let s1 := write_snapshot stem now (run_steps s pre) in
  let s2 := run_steps s1 mid in
  wf_files (sh_files s2) = true ->
  exists mid1 mid2 d, mid = mid1 ++ mid2 /\
    restore_all base empty_dshard (walk base (sh_files s2)) = Some d /\
    forall k lo hi asc, dshard_read d k lo hi asc = shard_read (run_steps s1 mid1) k lo hi asc.
Proof. exact backup_under_writes_lemma. Qed.
Print Assumptions backup_under_writes.

(* Any failure before the metadata command — the destination cannot reach the source, the
   source does not have the shard, its snapshot fails, the stream is cut after ANY number of
   bytes short of its full length, tar.Stream fails on the source before ANY member (with or
   without that member's header written), CreateShard fails, the response is lost — whatever the
   source, the destination and the member sizes are: the RPC reports failure and the owner
   list is unchanged. *)
Theorem failed_copy_not_advertised :
  forall ft stem now base sizes src dst node owners,
  fails ft sizes ->
  let r := copy_shard ft stem now base sizes src dst node owners in
  cr_rpc_ok r = false /\ cr_owners r = owners.
Proof. exact copy_failed_not_advertised. Qed.
Print Assumptions failed_copy_not_advertised.

(* The order [copy_shard] models - the owner command only after the CopyShard RPC returned
   without error - is the order of the statements of services/meta/handler.go serveCopyShard
   (re-read from the Go AST on every run: both calls present, the RPC first, an error return
   between them).  Adding the owner first and copying afterwards would advertise a replica that a
   failed copy leaves empty or partial. *)
Theorem owner_is_added_only_after_the_copy_in_the_source : c18_owner_added_after_copy = true.
Proof. reflexivity. Qed.
Print Assumptions owner_is_added_only_after_the_copy_in_the_source.

(* Conversely: whatever faults are injected, if the copy into a fresh destination is
   advertised then the destination shard exists and reads exactly like the source. *)
Theorem advertised_copy_is_exact :
  forall ft stem now base sizes src node owners,
  wf_files (sh_files (write_snapshot stem now src)) = true ->
  ft_snap ft = SnapIdle ->
  length sizes = length (walk base (sh_files (write_snapshot stem now src))) ->
  let r := copy_shard ft stem now base sizes src None node owners in
  cr_rpc_ok r = true ->
  cr_owners r = copy_shard_owner node owners /\
  exists d, cr_dst r = Some d /\ forall k lo hi asc, dshard_read d k lo hi asc = shard_read src k lo hi asc.
Proof. exact copy_advertised_exact. Qed.
Print Assumptions advertised_copy_is_exact.

(* An incremental backup holds every TSM file and every tombstone file modified after [since]. *)
Theorem since_backup_keeps_newer :
  forall base since fs f,
  wf_files fs = true -> In f fs ->
  (since < sf_mtime f ->
     In (mk_member (member_path base (tsm_name f)) false (sf_mtime f) (BTsm (sf_blocks f)))
        (since_filter (Some since) (walk base fs))) /\
  (sf_has_ts f = true -> since < sf_tmtime f ->
     In (mk_member (member_path base (tomb_name f)) false (sf_tmtime f) (BTomb (sf_tombs f)))
        (since_filter (Some since) (walk base fs))).
Proof. exact since_keeps_newer. Qed.
Print Assumptions since_backup_keeps_newer.

(* Time-bounded export [s, e] (Engine.Export with the file and block filters of
   timeStampFilterTarFile / filterFileToBackup), restored into an empty shard: every read whose
   window lies inside [s, e] equals the read of the source.  Partial: outside the window the
   copy may hold points of the source at block granularity; nothing is claimed there.
   [wf_blocks]: per file unique keys, blocks sorted and non-empty (executable, re-checked on
   every observed state). *)
Theorem export_contains_range_partial :
  forall stem now base s e sh,
  wf_files (sh_files (write_snapshot stem now sh)) = true ->
  wf_blocks (sh_files (write_snapshot stem now sh)) = true ->
  exists sh' ms d,
    export SnapIdle stem now base s e sh = Some (sh', ms) /\
    restore_all base empty_dshard ms = Some d /\
    forall k lo hi asc, s <= lo -> hi <= e -> dshard_read d k lo hi asc = shard_read sh k lo hi asc.
Proof. exact export_restore_eq_in_window_lemma. Qed.
Print Assumptions export_contains_range_partial.

(* Engine.Import (ImportShard, files installed under NEW names): for every shard state, if
   the names [fresh 1], [fresh 2], ... Import gives to the archive's files form a well-formed
   directory (they do when [fresh] is increasing, e.g. %09d-%09d of increasing generations),
   importing a full backup into an empty shard succeeds and reads like the source: each
   tombstone file follows its TSM file under the new name. *)
Theorem import_backup_eq :
  forall (fresh : nat -> name) stem now base s,
  let s' := write_snapshot stem now s in
  wf_files (sh_files s') = true ->
  wf_files (rename_files fresh 1 (sh_files s')) = true ->
  exists ms d,
    backup SnapIdle stem now base None s = Some (s', ms) /\
    import fresh base 0 empty_dshard ms (length ms) EndMarker = Some d /\
    forall k lo hi asc, dshard_read d k lo hi asc = shard_read s k lo hi asc.
Proof. exact import_backup_eq_lemma. Qed.
Print Assumptions import_backup_eq.

(* Incremental restore (partial: under [incr_hyp]).  The destination directory [d0] is, as a map
   from file names to contents, an exact copy of the file list [fs0] (e.g. the result of
   [restore_backup_eq], or of an earlier increment: the conclusion re-establishes the premise,
   so increments chain).  [fs1] is the source's file list when the backup of everything modified
   after [since] is taken.  Hypothesis [incr_hyp since fs0 fs1], exactly: every TSM file and every
   tombstone file of [fs1] that is NOT newer than [since] is unchanged from [fs0], and no file of
   [fs0] has been removed from the source nor lost its tombstone file (no compaction replaced
   it).  Then the archive — which may hold tombstone files WITHOUT their TSM files — restored
   over [d0] succeeds, and the destination reads exactly like the source's files, whatever
   cache [c] the destination holds.  Without the hypothesis (a compaction between the two
   backups) the destination keeps files the source no longer has: see the harness cases
   classified c18-incremental-restore-keeps-removed-files. *)
Theorem incremental_restore_eq_partial :
  forall base since fs0 fs1 d0 c,
  wf_files fs0 = true -> wf_files fs1 = true -> incr_hyp since fs0 fs1 ->
  NoDup (map fst d0) -> (forall n, dir_get n d0 = dir_get n (dir_of fs0)) ->
  let ms := since_filter (Some since) (walk base fs1) in
  exists d1,
    restore base (mk_dshard d0 c) ms (length ms) EndMarker = Some (mk_dshard d1 c) /\
    NoDup (map fst d1) /\ (forall n, dir_get n d1 = dir_get n (dir_of fs1)) /\
    forall k lo hi asc, dshard_read (mk_dshard d1 c) k lo hi asc = read (map to_tsm fs1) c k lo hi asc.
Proof. exact incremental_restore_lemma. Qed.
Print Assumptions incremental_restore_eq_partial.

(* Sequences of copy-shard attempts to the SAME destination.  [copy_inv dst fs0]: the destination
   does not exist / was only created ([fs0] = []), or holds, as a map from names to contents,
   an exact older copy of the file list [fs0], with an empty cache.  For EVERY list of attempts —
   each with its own source state, member sizes and fault record (dial failure, source without
   the shard, cut after any number of bytes, source error before any member, CreateShard
   failure, lost response, or none) — such that every attempt's source directory is well formed
   and the source keeps its files from the earlier copy and from one attempt to every later one
   ([keeps]/[grows]: no compaction removed a file): after every attempt that is NOT acknowledged
   the owner list is unchanged, and after every ACKNOWLEDGED attempt the node is an owner and
   the destination shard reads exactly like the source did at that attempt — in particular a
   retry after a failure that left an empty shard behind, and a copy over an older copy. *)
Theorem copy_attempts_sound :
  forall base node atts dst fs0 owners,
  copy_inv dst fs0 ->
  (forall a, In a atts -> attempt_wf base a /\ keeps fs0 (at_files a)) ->
  grows atts ->
  attempts_ok base node atts dst owners.
Proof. exact copy_attempts_lemma. Qed.
Print Assumptions copy_attempts_sound.

Theorem copy_attempts_to_fresh_destination_sound :
  forall base node atts owners,
  (forall a, In a atts -> attempt_wf base a) -> grows atts -> attempts_ok base node atts None owners.
Proof. exact copy_attempts_fresh. Qed.
Print Assumptions copy_attempts_to_fresh_destination_sound.

(* ---- the model satisfies the executable spec (C18/Spec.v, as evaluated by Run.v) for all inputs ---- *)

Theorem model_satisfies_spec_full :
  forall stem now base s,
  wf_files (sh_files (write_snapshot stem now s)) = true ->
  exists s' ms d,
    backup SnapIdle stem now base None s = Some (s', ms) /\
    restore_all base empty_dshard ms = Some d /\
    copy_exact (shard_reads s) (shard_reads s') (dshard_reads d) [] = true /\
    source_preserved (shard_reads s) (shard_reads s') [] = true.
Proof. exact model_full_satisfies_spec. Qed.
Print Assumptions model_satisfies_spec_full.

Theorem model_satisfies_spec_copy :
  forall ft stem now base sizes src node owners,
  wf_files (sh_files (write_snapshot stem now src)) = true ->
  ft_snap ft = SnapIdle ->
  length sizes = length (walk base (sh_files (write_snapshot stem now src))) ->
  let r := copy_shard ft stem now base sizes src None node owners in
  advertised_only_if_exact (cr_rpc_ok r) true (shard_reads src) (shard_reads (cr_src r))
    (match cr_dst r with Some d => dshard_reads d | None => [] end) [] = true.
Proof. exact model_copy_satisfies_spec. Qed.
Print Assumptions model_satisfies_spec_copy.

Theorem model_satisfies_spec_export :
  forall stem now base s e sh,
  wf_files (sh_files (write_snapshot stem now sh)) = true ->
  wf_blocks (sh_files (write_snapshot stem now sh)) = true ->
  t_min <= s -> e <= t_max ->
  exists sh' ms d,
    export SnapIdle stem now base s e sh = Some (sh', ms) /\
    restore_all base empty_dshard ms = Some d /\
    export_exact_in_window s e (shard_reads sh) (dshard_reads d) = true.
Proof. exact model_export_satisfies_spec. Qed.
Print Assumptions model_satisfies_spec_export.

(* ---- refutations: the defects repaired by fix: commits, and the one recorded as a finding ---- *)

(* pinned tree: readFileFromBackup skipped ".tombstone" members, deleted points came back *)
Theorem restore_backup_eq_unpatched_refuted :
  exists s stem now base s' ms d,
    wf_files (sh_files (write_snapshot stem now s)) = true /\
    backup SnapIdle stem now base None s = Some (s', ms) /\
    restore_unpatched base empty_dshard ms = Some d /\
    dshard_read d k_w 0 10 true <> shard_read s k_w 0 10 true.
Proof. exact restore_unpatched_resurrects. Qed.
Print Assumptions restore_backup_eq_unpatched_refuted.

(* pinned tree: a stream cut between two members was installed as a complete backup *)
Theorem failed_copy_not_advertised_unpatched_refuted :
  exists s base sizes k d,
    let ms := walk base (sh_files s) in
    wf_files (sh_files s) = true /\ length sizes = length ms /\ 0 <= k < stream_len sizes /\
    overlay true false (fun _ => []) base false 0 [] ms (fst (locate sizes 0 k 0)) (snd (locate sizes 0 k 0)) = Some d /\
    read (dir_files d) empty_cache k_w 0 10 true <> shard_read s k_w 0 10 true.
Proof. exact cut_stream_accepted_unpatched. Qed.
Print Assumptions failed_copy_not_advertised_unpatched_refuted.

(* pinned tree: tar.Stream wrote the end-of-archive marker in a deferred Close, also after a
   walk that failed between two members: the partial archive was installed as complete *)
Theorem source_error_trailer_unpatched_refuted :
  exists s base d,
    let ms := walk base (sh_files s) in
    wf_files (sh_files s) = true /\
    restore base empty_dshard ms 1 EndMarker = Some d /\
    dshard_read d k_w 0 10 true <> shard_read s k_w 0 10 true.
Proof. exact source_error_trailer_accepted_unpatched. Qed.
Print Assumptions source_error_trailer_unpatched_refuted.

(* A backup that starts while a background cache snapshot is in flight.  In the repaired
   engine WriteSnapshot runs under Engine.snapshotMu, so the backup's own snapshot waits until
   the one in flight (writing file [stem0]) is committed; Cache.Snapshot can then no longer
   answer ErrSnapshotInProgress and CreateSnapshot's "proceeding without cache contents"
   branch (oracle SnapBusy) is unreachable.  What the waiting backup archives restores to a
   copy that answers every read as the source did when the backup was requested. *)
Theorem backup_waits_for_snapshot_in_flight :
  forall (stem0 stem : name) (now0 now : Z) (base : name) (s : shard),
  let s0 := write_snapshot stem0 now0 s in
  wf_files (sh_files (write_snapshot stem now s0)) = true ->
  exists s' ms d,
    backup SnapIdle stem now base None s0 = Some (s', ms) /\
    restore_all base empty_dshard ms = Some d /\
    forall k lo hi asc, dshard_read d k lo hi asc = shard_read s k lo hi asc.
Proof.
  intros stem0 stem now0 now base s s0 Hwf.
  destruct (restore_backup_eq_lemma stem now base s0 Hwf) as (s' & ms & d & Hb & Hr & Hq).
  exists s', ms, d. split; [exact Hb|]. split; [exact Hr|].
  intros k lo hi asc. rewrite Hq. unfold s0. apply write_snapshot_read.
Qed.
Print Assumptions backup_waits_for_snapshot_in_flight.

(* A backup taken after a cache snapshot whose write failed.  The cache then holds a retained
   snapshot AND a live store; one WriteSnapshot only writes the retained snapshot again (the
   pinned tree's CreateSnapshot did just that and the archive lacked the live cache: repaired,
   see known_findings.json).  Engine.flushCache writes the retained snapshot out as a file of
   its own ([flush_retained], which changes no read) and then snapshots the live cache: the
   restored copy answers every read as the source did. *)
Theorem backup_after_failed_snapshot :
  forall (stem0 stem : name) (now0 now : Z) (base : name) (s : shard),
  let s1 := flush_retained stem0 now0 s in
  wf_files (sh_files (write_snapshot stem now s1)) = true ->
  exists s' ms d,
    backup SnapIdle stem now base None s1 = Some (s', ms) /\
    restore_all base empty_dshard ms = Some d /\
    forall k lo hi asc, dshard_read d k lo hi asc = shard_read s k lo hi asc.
Proof. exact backup_after_retained_lemma. Qed.
Print Assumptions backup_after_failed_snapshot.

Theorem flush_retained_preserves_reads :
  forall stem now s k lo hi asc, shard_read (flush_retained stem now s) k lo hi asc = shard_read s k lo hi asc.
Proof. exact flush_retained_read. Qed.
Print Assumptions flush_retained_preserves_reads.

(* why the wait matters (the pinned tree's finding c18-backup-busy-skips-cache, repaired by the
   mutex): if the snapshotter could stay busy for all attempts, Backup would proceed without the
   cache and the copy would lack acknowledged points *)
Theorem restore_backup_eq_busy_refuted :
  exists s stem now base s' ms d,
    backup SnapBusy stem now base None s = Some (s', ms) /\
    restore_all base empty_dshard ms = Some d /\
    dshard_read d k_w 0 10 true <> shard_read s k_w 0 10 true.
Proof. exact backup_busy_drops_cache. Qed.
Print Assumptions restore_backup_eq_busy_refuted.

(* ---- non-vacuity ---- *)

Definition ex_shard : shard :=
  mk_shard [mk_sfile [49]%N [(k_w, [[(1, VInt 7); (2, VInt 8)]])] [(k_w, (2, 2))] true 5 6 []]
           {| c_snap := [(k_w, [(3, VInt 1)])]; c_hot := [(k_w, [(2, VInt 9); (3, VInt 2)])] |}.

Example restore_backup_eq_nonvacuous :
  wf_files (sh_files (write_snapshot [50]%N 0 ex_shard)) = true /\
  shard_read ex_shard k_w 0 10 true = [(1, VInt 7); (2, VInt 9); (3, VInt 2)].
Proof. split; vm_compute; reflexivity. Qed.

Example failed_copy_nonvacuous :
  fails (mk_faults false false SnapIdle (Some 700) None false false) [100; 200] /\
  cr_dst (copy_shard (mk_faults false false SnapIdle (Some 700) None false false) [50]%N 0 [100]%N [100; 200] ex_shard None 3%N [1; 5]%N)
    = Some empty_dshard.
Proof. split; [right; right; right; left; exists 700; split; [reflexivity|vm_compute; reflexivity]|vm_compute; reflexivity]. Qed.

Example backup_under_writes_nonvacuous :
  let s1 := write_snapshot [50]%N 0 ex_shard in
  let mid := [SWrite [(k_w, (4, VInt 4))]; SFlush [51]%N 0; SWrite [(k_w, (5, VInt 5))]] in
  wf_files (sh_files (run_steps s1 mid)) = true /\
  shard_read (run_steps s1 (firstn 2 mid)) k_w 0 10 true <> shard_read s1 k_w 0 10 true.
Proof. split; [vm_compute; reflexivity|vm_compute; discriminate]. Qed.

Definition ex_blocks_shard : shard :=
  mk_shard [mk_sfile [49]%N [(k_w, [[(1, VInt 7); (2, VInt 8)]; [(5, VInt 1); (9, VInt 2)]])] [(k_w, (2, 2))] true 5 6 []] empty_cache.

Example export_nonvacuous :
  wf_files (sh_files (write_snapshot [50]%N 0 ex_blocks_shard)) = true /\
  wf_blocks (sh_files (write_snapshot [50]%N 0 ex_blocks_shard)) = true /\
  (exists sh' ms, export SnapIdle [50]%N 0 [100]%N 4 6 ex_blocks_shard = Some (sh', ms) /\ length ms = 2%nat) /\
  shard_read ex_blocks_shard k_w 4 6 true = [(5, VInt 1)].
Proof. repeat split; try (vm_compute; reflexivity). eexists _, _. split; vm_compute; reflexivity. Qed.

Example import_nonvacuous :
  wf_files (rename_files fresh_impl 1 (sh_files (write_snapshot [50]%N 0 ex_shard))) = true /\
  length (sh_files (write_snapshot [50]%N 0 ex_shard)) = 2%nat.
Proof. split; vm_compute; reflexivity. Qed.

(* a delete that hits a file the earlier backup shipped: the increment is the tombstone file alone *)
Definition ex_old : sfile := mk_sfile [49]%N [(k_w, [[(1, VInt 7); (2, VInt 8)]])] [] false 5 0 [].
Definition ex_new : sfile := mk_sfile [49]%N [(k_w, [[(1, VInt 7); (2, VInt 8)]])] [(k_w, (2, 2))] true 5 20 [].

Example incremental_nonvacuous :
  incr_hyp 10 [ex_old] [ex_new] /\
  map m_name (since_filter (Some 10) (walk [100]%N [ex_new])) = [member_path [100]%N (tomb_name ex_new)] /\
  read (map to_tsm [ex_new]) empty_cache k_w 0 10 true = [(1, VInt 7)].
Proof.
  split; [|split; vm_compute; reflexivity]. repeat split.
  - intros f [<-|[]]. right. exists ex_old. repeat split. left. reflexivity.
  - intros f [<-|[]] _. left. reflexivity.
  - intros f0 [<-|[]]. exists ex_new. repeat split. left. reflexivity.
Qed.

(* a cut first attempt leaves an empty shard behind; the retry is acknowledged and exact *)
Definition ex_attempts : list attempt :=
  [mk_attempt (mk_faults false false SnapIdle (Some 700) None false false) [50]%N 0 [100; 200] ex_shard;
   mk_attempt no_faults [50]%N 0 [100; 200; 300] ex_shard].

Example copy_attempts_nonvacuous :
  (forall a, In a ex_attempts -> wf_files (at_files a) = true) /\
  map (fun a => length (walk [100]%N (at_files a))) ex_attempts = [3%nat; 3%nat] /\
  let r1 := copy_shard (at_ft (hd (mk_attempt no_faults [] 0 [] ex_shard) ex_attempts)) [50]%N 0 [100]%N [100; 200; 300] ex_shard None 3%N [1]%N in
  cr_rpc_ok r1 = false /\ cr_dst r1 = Some empty_dshard /\
  cr_rpc_ok (copy_shard no_faults [50]%N 0 [100]%N [100; 200; 300] ex_shard (cr_dst r1) 3%N [1]%N) = true.
Proof.
  split; [intros a [<-|[<-|[]]]; vm_compute; reflexivity|]. split; [vm_compute; reflexivity|].
  cbn zeta. repeat split; vm_compute; reflexivity.
Qed.
