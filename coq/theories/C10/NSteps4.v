(* C10/NSteps4.v — absence half preserved: the delete steps. *)
From Verif Require Import Shard.Engine C01.Kv C01.Facts C01.Dinv C01.Inv C01.Steps1 C01.Steps2 C01.Steps3 C01.Steps4 C01.Steps5 C10.Ninv C10.NSteps1 C10.NSteps2.
From Coq Require Import ZifyBool ZifyN ZifyNat.
Open Scope Z_scope.
Local Arguments exclude_range : simpl never.
Local Arguments key_eqb : simpl never.

(* what the replayed log shows at (k, t), through the split of the invariant *)
Lemma wal_point s Wsn Wh k t :
  Split s Wsn Wh ->
  pfold (evs (E s) k t) None = papply (pfold (evs (wal_entries Wsn) k t) None) (last_ev (evs (wal_entries Wh) k t)) /\
  cpt (hot (sv s)) k t = papply None (last_ev (evs (wal_entries Wh) k t)).
Proof.
  intros Sp. split.
  - unfold E. rewrite (sp_wal _ _ _ Sp), wal_entries_app, evs_app, pfold_app. apply pfold_last.
  - rewrite (kv_equiv_cpt _ _ k t (sp_hot _ _ _ Sp)), cpt_replay_nil. apply pfold_last.
Qed.

(* nothing of the covered points in the snapshot's segments and nothing in the hot cache:
   the replayed log shows nothing there *)
Lemma wal_point_none s Wsn Wh k t :
  Split s Wsn Wh -> cpt (replay (wal_entries Wsn) []) k t = None -> cpt (hot (sv s)) k t = None ->
  pfold (evs (E s) k t) None = None.
Proof.
  intros Sp Hs Hh. destruct (wal_point s Wsn Wh k t Sp) as [H1 H2]. rewrite H1. rewrite cpt_replay_nil in Hs. rewrite Hs.
  rewrite H2 in Hh. exact Hh.
Qed.

Lemma snap_cpt_none s Wsn Wh k t :
  Split s Wsn Wh -> cpt (replay (wal_entries Wsn) []) k t = None -> cpt (snap (sv s)) k t = None.
Proof.
  intros Sp H. destruct (sstage (sv s)) eqn:Est;
    try (assert (Hnc : sstage (sv s) <> SCleared) by congruence; rewrite (kv_equiv_cpt _ _ k t (sp_snap _ _ _ Sp Hnc)); exact H).
  rewrite (sp_cleared _ _ _ Sp Est). reflexivity.
Qed.

Lemma cpt_not_key m k t : kmem k (kv_keys m) = false -> cpt m k t = None.
Proof. intros H. unfold cpt. rewrite kv_get_no_key by assumption. reflexivity. Qed.

Lemma kmem_filter_intro (p : key -> bool) k l : kmem k l = true -> p k = true -> kmem k (filter p l) = true.
Proof.
  unfold kmem. rewrite !existsb_exists. intros [x [Hin Hx]] Hp. apply key_eqb_eq in Hx. subst x.
  exists k. split; [apply filter_In; auto|apply key_eqb_refl].
Qed.

(* ---------- DeleteBegin ---------- *)

Lemma ninv_deletebegin s ss lo hi :
  Inv s -> NInv s -> ph (sv s) = Up -> pend (sv s) = PNone -> dstage (sv s) = DIdle ->
  kvs_hit ss lo hi (snap_content s) = false ->
  delete_hits_snapshot (do_step repaired s (DeleteBegin ss lo hi)) = false ->
  NInv (do_step repaired s (DeleteBegin ss lo hi)).
Proof.
  intros I N Hup Hp Hd Hpre Hcl. pose proof (i_up _ I Hup) as V. destruct (u_split _ V) as [Wsn [Wh Sp]].
  unfold do_step in *.
  destruct (existsb (file_overlaps lo hi) (files (sd s)) || negb (is_nil (hot (sv s)))) eqn:Eov.
  - (* the delete starts *)
    match goal with |- NInv ?st => set (s' := st) in * end.
    assert (Hmb : forall k t, mb_now s k t = true -> mb_now s' k t = true).
    { intros k t H. unfold mb_now, inflight, maybe_deleted, s' in *. sim. rewrite Hd in H. rewrite orb_false_r in H. rewrite H. reflexivity. }
    assert (Heff : eff_now s' = eff_now s) by (apply eff_now_eq; reflexivity).
    destruct N. constructor; rewrite ?Heff; auto.
    + apply (Ndur_mb _ _ _ (mb_now s)); [exact Hmb|assumption].
    + unfold s'. sim. intros pts H. congruence.
    + intros k t H. destruct (n_hot k t H); auto.
    + intros k t H. destruct (n_snap k t H); auto.
    + unfold s'. sim. intros ss0 lo0 hi0 dk [H|H]; discriminate.
    + unfold s'. sim. intros ss0 lo0 hi0 todo H f Hin. inversion H; subst. left.
      apply existsb_exists. exists (fid f). split; [apply in_map; assumption|].
      unfold fid_eqb. rewrite !N.eqb_refl. reflexivity.
  - (* nothing overlaps and the hot cache is empty: acknowledged at once *)
    apply orb_false_iff in Eov. destruct Eov as [Eo Eh]. apply negb_false_iff in Eh.
    assert (Hh0 : hot (sv s) = []) by (destruct (hot (sv s)); [reflexivity|discriminate]).
    match goal with |- NInv ?st => set (s' := st) in * end.
    assert (Hmb : forall k t, mb_now s k t = mb_now s' k t).
    { intros k t. unfold mb_now, s'. rewrite maybe_deleted_add, orb_false_r. reflexivity. }
    assert (Heff : eff_now s' = eff_now s ++ [GDelete ss lo hi]).
    { unfold eff_now, pending_ops, s'. rewrite effective_add. sim. rewrite Hp, !app_nil_r. rewrite (effective_eq s) by reflexivity. reflexivity. }
    assert (Hsn : forall k t, covered ss lo hi k t = true -> cpt (replay (wal_entries Wsn) []) k t = None).
    { rewrite <- (snap_content_split s Wsn Wh Sp). apply kvs_hit_none. assumption. }
    assert (Hfn : forall k t, covered ss lo hi k t = true -> fview (files (sd s)) k t = None).
    { intros k t Hcv. apply fview_all_none. intros f Hin. rewrite fpt_tombs.
      destruct (tomb_hit (f_tombs f) k t); [reflexivity|]. apply (no_overlap_none lo hi).
      - destruct (file_overlaps lo hi f) eqn:E1; [|reflexivity].
        assert (existsb (file_overlaps lo hi) (files (sd s)) = true) by (apply existsb_exists; eauto). congruence.
      - unfold covered in Hcv. apply andb_true_iff in Hcv. tauto. }
    assert (Hcovered : forall k t, covered ss lo hi k t = true ->
               rview (E s) (files (sd s)) k t = None /\ cpt (hot (sv s)) k t = None /\ cpt (snap (sv s)) k t = None).
    { intros k t Hcv. assert (Hhn : cpt (hot (sv s)) k t = None) by (rewrite Hh0; reflexivity).
      split; [|split; [assumption|apply (snap_cpt_none s Wsn Wh); auto]].
      apply rview_none. split; [apply (wal_point_none s Wsn Wh); auto|apply Hfn; assumption]. }
    assert (Hg : forall k t, glww (eff_now s') k t = None -> covered ss lo hi k t = true \/ glww (eff_now s) k t = None).
    { intros k t H. rewrite Heff, glww_snoc in H. cbn [gapply] in H. fold (in_rng lo hi t) in H. fold (covered ss lo hi k t) in H.
      destruct (covered ss lo hi k t); auto. }
    destruct N. constructor; auto.
    + rewrite Heff. change (E s') with (E s). change (files (sd s')) with (files (sd s)).
      apply (Ndur_delete_done _ _ _ (mb_now s)).
      * intros k t H. left. rewrite <- Hmb. exact H.
      * intros k t Hcv. right. apply (Hcovered k t Hcv).
      * assumption.
    + unfold s'. sim. intros pts H. congruence.
    + intros k t H. rewrite <- Hmb. change (hot (sv s')) with (hot (sv s)).
      destruct (Hg k t H) as [Hcv|Hn]; [right; apply (Hcovered k t Hcv)|auto].
    + intros k t H. rewrite <- Hmb. change (snap (sv s')) with (snap (sv s)).
      destruct (Hg k t H) as [Hcv|Hn]; [right; apply (Hcovered k t Hcv)|auto].
Qed.

(* ---------- DeleteTombstone ---------- *)

Lemma ninv_deletetombstone s i ss lo hi todo f :
  Inv s -> NInv s -> ph (sv s) = Up -> pend (sv s) = PNone -> dstage (sv s) = DTomb ss lo hi todo ->
  nth_error (files (sd s)) i = Some f ->
  delete_hits_snapshot (do_step repaired s (DeleteTombstone i)) = false ->
  NInv (do_step repaired s (DeleteTombstone i)).
Proof.
  intros I N Hup Hp Hd Hn Hcl. unfold do_step in *. rewrite Hd, Hn in *.
  set (todo' := filter (fun id => negb (fid_eqb id (fid f))) todo) in *.
  destruct (nth_error_split _ _ Hn) as [a [b [Hfs Hlen]]]. subst i.
  assert (Hup' : update_nth (length a) (tombstone_file ss lo hi) (files (sd s)) = a ++ tombstone_file ss lo hi f :: b).
  { rewrite Hfs. apply update_nth_split. }
  rewrite Hup' in *.
  match goal with |- NInv ?st => set (s' := st) in * end.
  assert (Hmb : forall k t, mb_now s k t = mb_now s' k t).
  { intros k t. unfold mb_now, inflight, maybe_deleted, s'. sim. rewrite Hd. reflexivity. }
  assert (Heff : eff_now s' = eff_now s) by (apply eff_now_eq; reflexivity).
  assert (Hfv : forall k t, mb_now s k t = true \/ fview (a ++ tombstone_file ss lo hi f :: b) k t = fview (files (sd s)) k t).
  { intros k t. destruct (covered ss lo hi k t) eqn:Ec.
    - left. unfold mb_now, inflight. rewrite Hd. unfold covered in Ec. rewrite Ec. apply orb_true_r.
    - right. rewrite Hfs, !fview_app, !fview_cons. rewrite fpt_tombstone_outside by exact Ec. reflexivity. }
  pose proof (n_nodup _ N) as Hnd. rewrite Hfs in Hnd.
  destruct N. constructor; rewrite ?Heff; auto.
  - change (E s') with (E s). change (files (sd s')) with (a ++ tombstone_file ss lo hi f :: b).
    apply (Ndur_mb _ _ _ (mb_now s)); [intros k t H; rewrite <- Hmb; exact H|].
    apply (Ndur_files _ (files (sd s))); [|assumption]. intros k t. destruct (Hfv k t); auto.
  - unfold s'. sim. intros pts H. congruence.
  - intros k t H. rewrite <- Hmb. apply n_hot. assumption.
  - intros k t H. rewrite <- Hmb. apply n_snap. assumption.
  - unfold s'. sim. intros ss0 lo0 hi0 dk [H|H]; discriminate.
  - unfold s'. sim. intros ss0 lo0 hi0 todo0 H g Hin. inversion H; subst ss0 lo0 hi0 todo0.
    assert (Hfid : forall x, In x (a ++ b) -> fid x <> fid f).
    { intros x Hx Heq. rewrite map_app in Hnd. cbn [map] in Hnd. apply NoDup_remove_2 in Hnd. apply Hnd.
      rewrite <- map_app. rewrite <- Heq. apply in_map. assumption. }
    apply in_app_or in Hin. destruct Hin as [Hin|[<-|Hin]].
    + assert (Hg : In g (files (sd s))) by (rewrite Hfs; apply in_or_app; left; assumption).
      destruct (n_del4 ss lo hi todo Hd g Hg) as [X|X]; [left|right; assumption].
      unfold todo'. apply existsb_exists in X. destruct X as [id [Hid Heq]]. apply existsb_exists. exists id. split; [|assumption].
      apply filter_In. split; [assumption|]. apply negb_true_iff. destruct (fid_eqb id (fid f)) eqn:E1; [|reflexivity]. exfalso.
      apply (Hfid g); [apply in_or_app; left; assumption|].
      unfold fid_eqb in *. destruct (fid g), id, (fid f). cbn [fst snd] in *. f_equal; lia.
    + right. intros k t Hcv. apply fpt_tombstone_covered. assumption.
    + assert (Hg : In g (files (sd s))) by (rewrite Hfs; apply in_or_app; right; right; assumption).
      destruct (n_del4 ss lo hi todo Hd g Hg) as [X|X]; [left|right; assumption].
      unfold todo'. apply existsb_exists in X. destruct X as [id [Hid Heq]]. apply existsb_exists. exists id. split; [|assumption].
      apply filter_In. split; [assumption|]. apply negb_true_iff. destruct (fid_eqb id (fid f)) eqn:E1; [|reflexivity]. exfalso.
      apply (Hfid g); [apply in_or_app; right; assumption|].
      unfold fid_eqb in *. destruct (fid g), id, (fid f). cbn [fst snd] in *. f_equal; lia.
  - unfold s'. sim. rewrite map_app. cbn [map]. rewrite tombstone_file_fid. rewrite map_app in Hnd. exact Hnd.
Qed.
