(* C10/Epoch.v — the epoch tracker (tsdb/epoch_tracker.go) and the protocol Store runs on it
   (tsdb/store.go: WriteToShard, DeleteSeries, DeleteMeasurement).  Definitions only.

   Tracker operations mirror the code statement by statement.  The counters are Go uint64 /
   int64; the model uses N / Z without wrap-around (2^64 operations on one shard are out of
   scope).  A guard is named by the number of the deleter that installed it.

   Threads: writer i = StartWrite; for each returned guard, in the order returned: if the guard
   matches the writer's points, wait until the guard is done; critical section (WritePoints);
   EndWrite.  Deleter j = WaitDelete(guard j); wait until pending <= 0; critical section (the
   engine delete); Done.  [mt j i] says whether guard j matches the points of writer i.  Go
   ranges over the deletes map in random order: the order in which a writer gets the guards
   is chosen by the schedule (any list with the same members). *)
From Coq Require Import List ZArith NArith Bool.
Import ListNotations.
Open Scope Z_scope.

(* ---------- the tracker ---------- *)

Record edel := { d_gen : N; d_pending : Z; d_guard : nat }.       (* deletes[gen] = &epochDeleteState{pending, guard} *)

Record tracker := { t_epoch : N; t_largest : N; t_writes : Z; t_deletes : list edel }.

Definition tracker0 : tracker := {| t_epoch := 0; t_largest := 0; t_writes := 0; t_deletes := [] |}.

(* StartWrite: gen := next(); writes++; the guards of all pending deletes *)
Definition start_write (t : tracker) : list nat * N * tracker :=
  let gen := (t_epoch t + 1)%N in
  (map d_guard (t_deletes t), gen,
   {| t_epoch := gen; t_largest := t_largest t; t_writes := t_writes t + 1; t_deletes := t_deletes t |}).

(* EndWrite(gen): if gen <= largest, every delete with gen <= dgen gets done(); writes-- *)
Definition end_write (gen : N) (t : tracker) : tracker :=
  {| t_epoch := t_epoch t; t_largest := t_largest t; t_writes := t_writes t - 1;
     t_deletes :=
       if (gen <=? t_largest t)%N then
         map (fun d => if (d_gen d <? gen)%N then d         (* gen > dgen: continue *)
                       else {| d_gen := d_gen d; d_pending := d_pending d - 1; d_guard := d_guard d |})
             (t_deletes t)
       else t_deletes t |}.

(* WaitDelete(guard): state{pending: writes}; gen := next(); largest = gen; deletes[gen] = state *)
Definition wait_delete (g : nat) (t : tracker) : N * tracker :=
  let gen := (t_epoch t + 1)%N in
  (gen,
   {| t_epoch := gen; t_largest := gen; t_writes := t_writes t;
      t_deletes := filter (fun d => negb (d_gen d =? gen)%N) (t_deletes t)
                   ++ [{| d_gen := gen; d_pending := t_writes t; d_guard := g |}] |}).

(* epochWaiter.Done: delete(deletes, gen) (and guard.Done(), see [gs_done]) *)
Definition done_delete (gen : N) (t : tracker) : tracker :=
  {| t_epoch := t_epoch t; t_largest := t_largest t; t_writes := t_writes t;
     t_deletes := filter (fun d => negb (d_gen d =? gen)%N) (t_deletes t) |}.

Definition find_delete (gen : N) (t : tracker) : option edel :=
  find (fun d => (d_gen d =? gen)%N) (t_deletes t).

(* epochDeleteState.Wait returns when !(pending > 0) *)
Definition wait_returns (gen : N) (t : tracker) : bool :=
  match find_delete gen t with
  | Some d => negb (0 <? d_pending d)
  | None => true
  end.

(* ---------- raw calls, for the statement-level correspondence ---------- *)

Inductive rawop := RStartWrite | REndWrite (gen : N) | RWaitDelete | RDone (gen : N).

(* tracker, guards marked done (by generation of their delete), generations handed out to deletes *)
Record rawstate := { r_tr : tracker; r_done : list N; r_waiters : list N }.

Definition raw_step (s : rawstate) (o : rawop) : rawstate :=
  match o with
  | RStartWrite => let '(_, _, t') := start_write (r_tr s) in
                   {| r_tr := t'; r_done := r_done s; r_waiters := r_waiters s |}
  | REndWrite gen => {| r_tr := end_write gen (r_tr s); r_done := r_done s; r_waiters := r_waiters s |}
  | RWaitDelete => let '(gen, t') := wait_delete 0%nat (r_tr s) in
                   {| r_tr := t'; r_done := r_done s; r_waiters := gen :: r_waiters s |}
  | RDone gen =>
      if existsb (N.eqb gen) (r_waiters s)
      then {| r_tr := done_delete gen (r_tr s); r_done := gen :: r_done s; r_waiters := r_waiters s |}
      else s
  end.

(* ---------- threads ---------- *)

Inductive wst := WIdle | WChk (gen : N) (gs : list nat) | WDone.    (* WChk gen []: in the critical section *)
Inductive dst := DlIdle | DlWait (gen : N) | DlCrit (gen : N) | DlDone.

Record gstate := { gs_tr : tracker; gs_done : list nat; gs_ws : list wst; gs_ds : list dst }.

Inductive act := AW (i : nat) (order : list nat) | AD (j : nat).

Fixpoint lupd {A} (l : list A) (n : nat) (x : A) : list A :=
  match l, n with
  | [], _ => []
  | _ :: r, O => x :: r
  | y :: r, S n' => y :: lupd r n' x
  end.

Definition nat_mem (j : nat) (l : list nat) : bool := existsb (Nat.eqb j) l.
Definition same_members (a b : list nat) : bool :=
  forallb (fun x => nat_mem x b) a && forallb (fun x => nat_mem x a) b.

Section Threads.
Variable mt : nat -> nat -> bool.      (* guard j matches the points of writer i *)

Definition ep_step (s : gstate) (a : act) : option gstate :=
  match a with
  | AW i order =>
      match nth_error (gs_ws s) i with
      | Some WIdle =>
          let '(guards, gen, t') := start_write (gs_tr s) in
          let gs := if same_members order guards then order else guards in
          Some {| gs_tr := t'; gs_done := gs_done s; gs_ws := lupd (gs_ws s) i (WChk gen gs); gs_ds := gs_ds s |}
      | Some (WChk gen []) =>
          Some {| gs_tr := end_write gen (gs_tr s); gs_done := gs_done s;
                  gs_ws := lupd (gs_ws s) i WDone; gs_ds := gs_ds s |}
      | Some (WChk gen (j :: gs)) =>
          if mt j i && negb (nat_mem j (gs_done s)) then None          (* guard.Wait() blocks *)
          else Some {| gs_tr := gs_tr s; gs_done := gs_done s;
                       gs_ws := lupd (gs_ws s) i (WChk gen gs); gs_ds := gs_ds s |}
      | _ => None
      end
  | AD j =>
      match nth_error (gs_ds s) j with
      | Some DlIdle =>
          let '(gen, t') := wait_delete j (gs_tr s) in
          Some {| gs_tr := t'; gs_done := gs_done s; gs_ws := gs_ws s; gs_ds := lupd (gs_ds s) j (DlWait gen) |}
      | Some (DlWait gen) =>
          if wait_returns gen (gs_tr s)
          then Some {| gs_tr := gs_tr s; gs_done := gs_done s; gs_ws := gs_ws s; gs_ds := lupd (gs_ds s) j (DlCrit gen) |}
          else None                                                     (* waiter.Wait() blocks *)
      | Some (DlCrit gen) =>
          Some {| gs_tr := done_delete gen (gs_tr s); gs_done := j :: gs_done s;
                  gs_ws := gs_ws s; gs_ds := lupd (gs_ds s) j DlDone |}
      | _ => None
      end
  end.

(* a schedule: actions that cannot run (blocked, finished, no such thread) are skipped *)
Definition ep_exec (s : gstate) (a : act) : gstate :=
  match ep_step s a with Some s' => s' | None => s end.

Definition ep_run (sched : list act) (s : gstate) : gstate := fold_left ep_exec sched s.

Definition ep_init (nw nd : nat) : gstate :=
  {| gs_tr := tracker0; gs_done := []; gs_ws := repeat WIdle nw; gs_ds := repeat DlIdle nd |}.

(* ---------- the executable checks ---------- *)

Definition w_active (w : wst) : bool := match w with WChk _ _ => true | _ => false end.
Definition w_active_lt (g : N) (w : wst) : bool := match w with WChk gen _ => (gen <? g)%N | _ => false end.
Definition w_crit (w : wst) : bool := match w with WChk _ [] => true | _ => false end.
Definition d_crit (d : dst) : bool := match d with DlCrit _ => true | _ => false end.
Definition d_gen_of (d : dst) : option N := match d with DlWait g | DlCrit g => Some g | _ => None end.
Definition w_gen_of (w : wst) : option N := match w with WChk g _ => Some g | _ => None end.

Fixpoint count {A} (f : A -> bool) (l : list A) : Z :=
  match l with [] => 0 | x :: r => (if f x then 1 else 0) + count f r end.

(* with indices *)
Fixpoint forallb_i {A} (f : nat -> A -> bool) (n : nat) (l : list A) : bool :=
  match l with [] => true | x :: r => f n x && forallb_i f (S n) r end.

(* no deleter is in its critical section together with a writer its guard matches *)
Definition mutex_ok (s : gstate) : bool :=
  forallb_i (fun j d => negb (d_crit d) ||
     forallb_i (fun i w => negb (w_crit w && mt j i)) 0 (gs_ws s)) 0 (gs_ds s).

(* the bookkeeping is exact: every pending delete counts exactly the writes that started
   before it and have not ended; every waiting or running deleter has its entry; writes counts
   the writes in flight; a running deleter waits for nobody *)
Definition counts_ok (s : gstate) : bool :=
  forallb (fun d => (d_pending d =? count (w_active_lt (d_gen d)) (gs_ws s)) &&
                    match nth_error (gs_ds s) (d_guard d) with
                    | Some x => match d_gen_of x with Some g => (g =? d_gen d)%N | None => false end
                    | None => false
                    end) (t_deletes (gs_tr s))
  && forallb_i (fun j x => match d_gen_of x with
                           | Some g => match find_delete g (gs_tr s) with
                                       | Some d => Nat.eqb (d_guard d) j
                                       | None => false
                                       end
                           | None => true
                           end) 0 (gs_ds s)
  && (t_writes (gs_tr s) =? count w_active (gs_ws s))
  && forallb (fun x => match x with DlCrit g => count (w_active_lt g) (gs_ws s) =? 0 | _ => true end) (gs_ds s).

(* a deleter's Wait returns exactly when no earlier write is in flight *)
Definition wait_exact_ok (s : gstate) : bool :=
  forallb (fun x => match x with
                    | DlWait g => Bool.eqb (wait_returns g (gs_tr s)) (count (w_active_lt g) (gs_ws s) =? 0)
                    | _ => true
                    end) (gs_ds s).

Definition unfinished (s : gstate) : bool :=
  existsb (fun w => match w with WDone => false | _ => true end) (gs_ws s)
  || existsb (fun d => match d with DlDone => false | _ => true end) (gs_ds s).

(* some thread can take a step *)
Definition can_step (s : gstate) : bool :=
  existsb (fun i => match ep_step s (AW i []) with Some _ => true | None => false end) (seq 0 (length (gs_ws s)))
  || existsb (fun j => match ep_step s (AD j) with Some _ => true | None => false end) (seq 0 (length (gs_ds s))).

Definition progress_ok (s : gstate) : bool := negb (unfinished s) || can_step s.

Definition state_ok (s : gstate) : bool := mutex_ok s && counts_ok s && wait_exact_ok s && progress_ok s.

End Threads.

(* ---------- equality of observed and modelled states ---------- *)

Definition edel_eqb (a b : edel) : bool :=
  (d_gen a =? d_gen b)%N && (d_pending a =? d_pending b) && Nat.eqb (d_guard a) (d_guard b).

Fixpoint list_eqb {A} (f : A -> A -> bool) (a b : list A) : bool :=
  match a, b with
  | [], [] => true
  | x :: a', y :: b' => f x y && list_eqb f a' b'
  | _, _ => false
  end.

Definition tracker_eqb (a b : tracker) : bool :=
  (t_epoch a =? t_epoch b)%N && (t_largest a =? t_largest b)%N && (t_writes a =? t_writes b)
  && list_eqb edel_eqb (t_deletes a) (t_deletes b).

Definition wst_eqb (a b : wst) : bool :=
  match a, b with
  | WIdle, WIdle | WDone, WDone => true
  | WChk g gs, WChk g' gs' => (g =? g')%N && list_eqb Nat.eqb gs gs'
  | _, _ => false
  end.

Definition dst_eqb (a b : dst) : bool :=
  match a, b with
  | DlIdle, DlIdle | DlDone, DlDone => true
  | DlWait g, DlWait g' | DlCrit g, DlCrit g' => (g =? g')%N
  | _, _ => false
  end.

Definition gstate_eqb (a b : gstate) : bool :=
  tracker_eqb (gs_tr a) (gs_tr b) && same_members (gs_done a) (gs_done b)
  && list_eqb wst_eqb (gs_ws a) (gs_ws b) && list_eqb dst_eqb (gs_ds a) (gs_ds b).
