(* C10/Proofs.v — crash and recovery for the absence half; the invariant over clean histories;
   the C10 statements. *)
From Verif Require Import Shard.Engine C01.Kv C01.Facts C01.Dinv C01.Inv C01.Steps1 C01.Steps2 C01.Steps3 C01.Steps4 C01.Steps5 C01.Steps6
  C01.Spec C01.Proofs C10.Ninv C10.NSteps1 C10.NSteps2 C10.NSteps3 C10.NSteps4 C10.NSteps5.
From Coq Require Import ZifyBool ZifyN ZifyNat.
Open Scope Z_scope.
Local Arguments exclude_range : simpl never.
Local Arguments key_eqb : simpl never.

(* ---------- Crash ---------- *)

Lemma crash_ninv_of s s' keep torn :
  sd s' = {| wal := cut_wal keep torn (wal (sd s)); files := files (sd s); tmps := tmps (sd s) |} ->
  sv s' = vol0 -> NoDup (map fid (files (sd s))) ->
  Ndur (wal_entries (cut_wal keep torn (wal (sd s)))) (files (sd s)) (effective s') (maybe_deleted s') ->
  NInv s'.
Proof.
  intros Hd Hv Hnd HD.
  assert (Hmb : forall k t, mb_now s' k t = maybe_deleted s' k t).
  { intros k t. unfold mb_now, inflight. rewrite Hv. cbn [dstage vol0]. apply orb_false_r. }
  assert (Heff : eff_now s' = effective s').
  { unfold eff_now, pending_ops. rewrite Hv. cbn [pend vol0]. apply app_nil_r. }
  constructor.
  - unfold E. rewrite Hd, Heff. cbn [wal files]. apply (Ndur_mb _ _ _ (maybe_deleted s')); [intros k t H; rewrite Hmb; exact H|exact HD].
  - rewrite Hv. cbn [pend vol0]. discriminate.
  - intros k t _. right. rewrite Hv. reflexivity.
  - intros k t _. right. rewrite Hv. reflexivity.
  - rewrite Hv. cbn [dstage vol0]. intros ss lo hi dk [H|H]; discriminate.
  - rewrite Hv. cbn [dstage vol0]. intros ss lo hi todo H. discriminate.
  - rewrite Hd. cbn [files]. assumption.
  - unfold delete_hits_snapshot. rewrite Hv. reflexivity.
Qed.

Lemma ninv_crash s keep torn :
  Inv s -> NInv s -> (keep <= length (pending_unsynced s))%nat -> NInv (do_step repaired s (Crash keep torn)).
Proof.
  intros I N Hk. pose proof (i_sync _ I) as Hs. pose proof (n_dur _ N) as HD. pose proof (n_nodup _ N) as Hnd.
  unfold do_step. fold (cut_wal keep torn (wal (sd s))).
  set (s1 := {| sd := {| wal := cut_wal keep torn (wal (sd s)); files := files (sd s); tmps := tmps (sd s) |};
                sv := vol0; g_hist := g_hist s |}).
  assert (Hclean : ph (sv s) = Up -> Forall seg_clean (wal (sd s))) by (intros H; apply (u_clean _ (i_up _ I H))).
  assert (Hmbs : forall k t, mb_now s k t = maybe_deleted s k t || inflight s k t) by reflexivity.
  destruct (pend_entry_cases s I) as [[Hp He]|[[pts [Hp [Hd He]]]|[ss [lo [hi [dk [Hp [Hd He]]]]]]]].
  - destruct (cut_entries_none s keep torn Hs He) as [HE Hpu]. rewrite Hp.
    rewrite (eff_now_nopend s Hp) in HD.
    destruct (dstage (sv s)) as [|ss lo hi todo|ss lo hi dk|ss lo hi dk] eqn:Ed.
    + apply (crash_ninv_of s _ keep torn); try reflexivity; try assumption. rewrite HE.
      apply (Ndur_mb _ _ _ (mb_now s)); [|exact HD]. intros k t H. rewrite Hmbs in H. unfold inflight in H. rewrite Ed, orb_false_r in H. exact H.
    + apply (crash_ninv_of s _ keep torn); try reflexivity; try assumption. rewrite HE.
      rewrite effective_add. cbn [app]. rewrite app_nil_r. rewrite (effective_eq s s1) by reflexivity.
      apply (Ndur_mb _ _ _ (mb_now s)); [|exact HD]. intros k t H. rewrite maybe_deleted_add.
      rewrite (maybe_deleted_eq s s1) by reflexivity. rewrite Hmbs in H. unfold inflight in H. rewrite Ed in H. exact H.
    + exfalso. destruct (i_dwal _ I _ _ _ _ Ed) as [H _]. congruence.
    + apply (crash_ninv_of s _ keep torn); try reflexivity; try assumption. rewrite HE.
      rewrite effective_add. rewrite (effective_eq s s1) by reflexivity.
      apply (Ndur_delete_done _ _ _ (mb_now s)); [| |exact HD].
      * intros k t H. rewrite maybe_deleted_add, orb_false_r. rewrite (maybe_deleted_eq s s1) by reflexivity.
        rewrite Hmbs in H. unfold inflight in H. rewrite Ed in H. apply orb_true_iff in H. destruct H as [H|H]; [left|right]; exact H.
      * intros k t Hcv. right. apply (n_del3 _ N ss lo hi dk); auto.
  - assert (Hup : ph (sv s) = Up).
    { destruct (ph (sv s)) eqn:Eph; try reflexivity; exfalso;
        (assert (Hq : ph (sv s) <> Up) by congruence); destruct (i_down _ I Hq) as [Hq' _]; unfold quiescent in Hq'; rewrite Hp in Hq'; destruct Hq' as (_ & _ & _ & _ & _ & _ & X & _); discriminate. }
    destruct (cut_entries_some s keep torn _ Hs (Hclean Hup) He) as [es0 [HE0 [Hpu HE]]].
    rewrite Hp, Hpu. destruct (n_pw _ N pts Hp) as [es0' [HE0' HD0]].
    assert (es0' = es0) by (rewrite HE0 in HE0'; apply app_inj_tail in HE0'; destruct HE0' as [X _]; symmetry; exact X). subst es0'.
    destruct keep as [|keep]; cbn [firstn existsb is_entry orb].
    + apply (crash_ninv_of s _ 0 torn); try reflexivity; try assumption. rewrite HE.
      apply (Ndur_mb _ _ _ (mb_now s)); [|exact HD0]. intros k t H. rewrite Hmbs in H. unfold inflight in H. rewrite Hd, orb_false_r in H. exact H.
    + apply (crash_ninv_of s _ (S keep) torn); try reflexivity; try assumption. rewrite HE.
      rewrite effective_add. rewrite (effective_eq s s1) by reflexivity.
      assert (Hen : eff_now s = effective s ++ [GWrite pts]) by (unfold eff_now, pending_ops; rewrite Hp; reflexivity).
      rewrite <- Hen. apply (Ndur_mb _ _ _ (mb_now s)); [|exact HD]. intros k t H.
      rewrite maybe_deleted_add, orb_false_r. rewrite (maybe_deleted_eq s s1) by reflexivity.
      rewrite Hmbs in H. unfold inflight in H. rewrite Hd, orb_false_r in H. exact H.
  - assert (Hup : ph (sv s) = Up).
    { destruct (ph (sv s)) eqn:Eph; try reflexivity; exfalso;
        (assert (Hq : ph (sv s) <> Up) by congruence); destruct (i_down _ I Hq) as [Hq' _]; unfold quiescent in Hq'; rewrite Hp in Hq'; destruct Hq' as (_ & _ & _ & _ & _ & _ & X & _); discriminate. }
    destruct (cut_entries_some s keep torn _ Hs (Hclean Hup) He) as [es0 [HE0 [Hpu HE]]].
    rewrite Hp, Hd, Hpu. destruct (i_dwal _ I _ _ _ _ Hd) as [_ [Hdk _]].
    assert (Hen : eff_now s = effective s) by (unfold eff_now, pending_ops; rewrite Hp; apply app_nil_r).
    rewrite Hen in HD.
    assert (Hnop : forall k t, ept k t (EDelRange dk lo hi) = PNop \/ mb_now s k t = true).
    { intros k t. cbn [ept]. destruct (kmem k dk) eqn:Ek; [|left; reflexivity].
      destruct (in_rng lo hi t) eqn:Er; [|left; reflexivity]. right.
      rewrite Hmbs. unfold inflight. rewrite Hd, (Hdk k Ek), Er. apply orb_true_r. }
    destruct keep as [|keep]; cbn [firstn existsb is_entry orb].
    + apply (crash_ninv_of s _ 0 torn); try reflexivity; try assumption. rewrite HE.
      rewrite effective_add. cbn [app]. rewrite app_nil_r. rewrite (effective_eq s s1) by reflexivity.
      apply (Ndur_mb _ _ _ (mb_now s)).
      * intros k t H. rewrite maybe_deleted_add. rewrite (maybe_deleted_eq s s1) by reflexivity.
        rewrite Hmbs in H. unfold inflight in H. rewrite Hd in H. exact H.
      * apply (Ndur_drop_nop _ _ _ _ (EDelRange dk lo hi)); [exact Hnop|]. rewrite <- HE0. exact HD.
    + apply (crash_ninv_of s _ (S keep) torn); try reflexivity; try assumption. rewrite HE.
      rewrite effective_add. rewrite (effective_eq s s1) by reflexivity.
      apply (Ndur_delete_done _ _ _ (mb_now s)); [| |exact HD].
      * intros k t H. rewrite maybe_deleted_add, orb_false_r. rewrite (maybe_deleted_eq s s1) by reflexivity.
        rewrite Hmbs in H. unfold inflight in H. rewrite Hd in H. apply orb_true_iff in H. destruct H as [H|H]; [left|right]; exact H.
      * intros k t Hcv. right. apply (n_del3 _ N ss lo hi dk); auto.
Qed.

(* ---------- recovery ---------- *)

Lemma quiescent_idle s : Inv s -> ph (sv s) <> Up -> dstage (sv s) = DIdle /\ pend (sv s) = PNone /\ hot (sv s) = [] /\ snap (sv s) = [].
Proof. intros I H. destruct (i_down _ I H) as [Q _]. unfold quiescent in Q. tauto. Qed.

Lemma clean_idle s : dstage (sv s) = DIdle -> delete_hits_snapshot s = false.
Proof. intros H. unfold delete_hits_snapshot. rewrite H. reflexivity. Qed.

Lemma ninv_opencleanup s : NInv s -> dstage (sv s) = DIdle -> NInv (do_step repaired s OpenCleanup).
Proof. intros N Hd. unfold do_step. apply (ninv_frame s); auto. apply clean_idle. exact Hd. Qed.

Lemma ninv_openfiles s : NInv s -> dstage (sv s) = DIdle -> NInv (do_step repaired s OpenFiles).
Proof. intros N Hd. unfold do_step. apply (ninv_frame s); auto. apply clean_idle. exact Hd. Qed.

Lemma ninv_openwal s : NInv s -> dstage (sv s) = DIdle -> NInv (do_step repaired s OpenWAL).
Proof.
  intros N Hd. unfold do_step. destruct (rev (wal (sd s))) as [|sg r] eqn:Er.
  - apply (ninv_frame s); auto. apply clean_idle. exact Hd.
  - assert (Hwal : wal (sd s) = rev r ++ [sg]).
    { rewrite <- (rev_involutive (wal (sd s))), Er. reflexivity. }
    destruct (is_nil (sg_items sg)) eqn:En.
    + assert (Hi : sg_items sg = []) by (destruct (sg_items sg); [reflexivity|discriminate]).
      apply (ninv_frame s); auto.
      * unfold E. sim. rewrite Hwal, removelast_last, wal_entries_snoc_seg, Hi. cbn [good_prefix]. symmetry. apply app_nil_r.
      * apply clean_idle. exact Hd.
    + apply (ninv_frame s); auto. apply clean_idle. exact Hd.
Qed.

Lemma ninv_openload s : Inv s -> NInv s -> ph (sv s) = O3 -> NInv (do_step repaired s OpenLoad).
Proof.
  intros I N Hph. assert (Hn : ph (sv s) <> Up) by congruence.
  destruct (quiescent_idle s I Hn) as (Q1 & Q2 & Q3 & Q4).
  unfold do_step. cbn [fix_woff repaired].
  match goal with |- NInv ?st => set (s' := st) end.
  assert (HE : E s' = E s) by (unfold E, s'; sim; apply wal_entries_truncate).
  assert (Heff : eff_now s' = eff_now s) by (apply eff_now_eq; reflexivity).
  assert (Hmb : forall k t, mb_now s k t = mb_now s' k t) by (apply mb_now_eq; reflexivity).
  destruct N. constructor; rewrite ?HE, ?Heff; auto.
  - intros k t H. rewrite <- Hmb. destruct (n_dur k t H) as [X|X]; [left; assumption|right].
    unfold s'. sim. rewrite cpt_replay_nil. apply rview_none in X. tauto.
  - unfold s'. sim. intros ss lo hi dk [H|H]; congruence.
  - apply clean_idle. unfold s'. sim. assumption.
Qed.

(* ---------- every step of a clean history ---------- *)

Lemma ninv_init : NInv init.
Proof.
  constructor.
  - intros k t _. right. reflexivity.
  - intros pts H. discriminate.
  - intros k t _. right. reflexivity.
  - intros k t _. right. reflexivity.
  - intros ss lo hi dk [H|H]; discriminate.
  - intros ss lo hi todo H. discriminate.
  - constructor.
  - reflexivity.
Qed.

Lemma ninv_step s x :
  Inv s -> NInv s -> clean_step repaired s x = true -> NInv (step_fn repaired s x).
Proof.
  intros I N Hcs. pose proof Hcs as Hcs0. unfold clean_step in Hcs. apply andb_true_iff in Hcs. destruct Hcs as [Hpre Hpost].
  apply negb_true_iff in Hpost. unfold step_fn in *. destruct (step_ok s x) eqn:Ok; [|assumption].
  unfold step_ok in Ok. apply andb_true_iff in Ok. destruct Ok as [Hpf Ok].
  destruct x; cbn [pend_free orb] in Hpf; cbn [step_ok0] in Ok; split_guard.
  - apply ninv_write; auto using is_up_ph, no_pend_eq, d_idle_eq.
  - apply ninv_walsync; auto using is_up_ph. intros Hn. unfold no_pend in *. rewrite Hn in *. discriminate.
  - apply ninv_new_segment; auto.
  - apply ninv_snapbegin; auto.
  - apply ninv_snapwritetmp; auto.
  - apply ninv_snapfail; auto.
  - destruct (sstage (sv s)) eqn:E; try discriminate. apply (ninv_snaprename s f); auto using is_up_ph, no_pend_eq.
  - apply ninv_snapclear; auto.
  - apply ninv_snapremovewal; auto using is_up_ph, no_pend_eq.
  - apply ninv_compactwritetmp; auto.
  - apply ninv_compactabort; auto.
  - destruct (cstage (sv s)) as [|i n out|] eqn:E; try discriminate.
    apply (ninv_replacerename s i n out); auto using is_up_ph, no_pend_eq.
  - destruct (cstage (sv s)) as [| |i olds] eqn:E; try discriminate.
    apply (ninv_replaceremove s i olds); auto using is_up_ph, no_pend_eq.
  - apply ninv_deletebegin; auto using is_up_ph, no_pend_eq, d_idle_eq. apply negb_true_iff in Hpre. exact Hpre.
  - destruct (dstage (sv s)) as [|ss lo hi todo| |] eqn:E; try discriminate.
    destruct (nth_error (files (sd s)) i) as [f|] eqn:En; try discriminate.
    apply (ninv_deletetombstone s i ss lo hi todo f); auto using is_up_ph, no_pend_eq.
  - destruct (dstage (sv s)) as [|ss lo hi todo| |] eqn:E; try discriminate. destruct todo; try discriminate.
    apply (ninv_deletecache s ss lo hi); auto using is_up_ph, no_pend_eq.
  - destruct (dstage (sv s)) as [| | |ss lo hi dk] eqn:E; try discriminate.
    apply (ninv_deleteindex s ss lo hi dk); auto using is_up_ph, no_pend_eq.
  - apply ninv_crash; auto. apply Nat.leb_le. assumption.
  - assert (Hn : ph (sv s) <> Up) by (destruct (ph (sv s)); try discriminate; congruence).
    apply ninv_opencleanup; auto. apply (quiescent_idle s I Hn).
  - assert (Hn : ph (sv s) <> Up) by (destruct (ph (sv s)); try discriminate; congruence).
    apply ninv_openwal; auto. apply (quiescent_idle s I Hn).
  - assert (Hn : ph (sv s) <> Up) by (destruct (ph (sv s)); try discriminate; congruence).
    apply ninv_openfiles; auto. apply (quiescent_idle s I Hn).
  - apply ninv_openload; auto. destruct (ph (sv s)); try discriminate. reflexivity.
Qed.

Lemma ninv_run h : forall s, Inv s -> NInv s -> run_clean repaired h s = true -> NInv (run repaired h s).
Proof.
  unfold run. induction h as [|x r IH]; intros s I N Hc; cbn [fold_left]; [assumption|].
  cbn [run_clean] in Hc. apply andb_true_iff in Hc. destruct Hc as [Hc1 Hc2].
  apply IH; [apply inv_step; assumption|apply ninv_step; assumption|assumption].
Qed.

Lemma ninv_reachable h : run_clean repaired h init = true -> NInv (run repaired h init).
Proof. intros H. apply ninv_run; [apply inv_init|apply ninv_init|assumption]. Qed.

(* ---------- reads equal the last-write-wins meaning of the effective history ---------- *)

Lemma reads_refine_lemma h :
  run_clean repaired h init = true ->
  let s := run repaired h init in
  ph (sv s) = Up -> pend (sv s) = PNone -> dstage (sv s) = DIdle ->
  forall k t, maybe_deleted s k t = true \/ live s k t = glww (effective s) k t.
Proof.
  intros Hc s Hup Hp Hd k t. pose proof (inv_reachable h) as I. pose proof (ninv_reachable h Hc) as N. fold s in I, N.
  destruct (glww (effective s) k t) as [v|] eqn:Eg.
  - apply (ack_durable_lemma h Hup Hp Hd k t v Eg).
  - rewrite <- (eff_now_nopend s Hp) in Eg.
    assert (Hm : forall b, mb_now s k t = b -> maybe_deleted s k t = b).
    { intros b H. unfold mb_now, inflight in H. rewrite Hd, orb_false_r in H. exact H. }
    destruct (n_dur _ N k t Eg) as [X|X]; [left; apply Hm; exact X|].
    destruct (n_hot _ N k t Eg) as [Y|Y]; [left; apply Hm; exact Y|].
    destruct (n_snap _ N k t Eg) as [Z|Z]; [left; apply Hm; exact Z|].
    right. rewrite live_view, Y, Z. cbn [oplus]. apply rview_none in X. tauto.
Qed.

(* ---------- C10 statements ---------- *)

From Verif Require Import C01.Link.

Lemma run_app c a b s : run c (a ++ b) s = run c b (run c a s).
Proof. unfold run. apply fold_left_app. Qed.

(* exactness: a delete that completes (whatever the interleaving of its own steps with
   background snapshot / compaction steps) removes the covered points and nothing else *)
Lemma delete_exact_lemma h D ss lo hi :
  run_clean repaired (h ++ D) init = true ->
  let s := run repaired h init in
  let s' := run repaired D s in
  ph (sv s) = Up -> pend (sv s) = PNone -> dstage (sv s) = DIdle ->
  ph (sv s') = Up -> pend (sv s') = PNone -> dstage (sv s') = DIdle ->
  g_hist s' = g_hist s ++ [(KAck, GDelete ss lo hi)] ->
  forall k t, maybe_deleted s k t = false ->
  live s' k t = if sel ss k && in_rng lo hi t then None else live s k t.
Proof.
  intros Hc s s' Hup Hp Hd Hup' Hp' Hd' Hg k t Hm.
  assert (Hc1 : run_clean repaired h init = true).
  { clear -Hc. revert Hc. generalize init. induction h as [|x r IH]; intros s0 H; [reflexivity|].
    cbn [app run_clean] in *. apply andb_true_iff in H. destruct H as [H1 H2]. rewrite H1. apply IH. assumption. }
  pose proof (reads_refine_lemma h Hc1 Hup Hp Hd k t) as R1. fold s in R1.
  pose proof (reads_refine_lemma (h ++ D) Hc) as R2. cbv zeta in R2. rewrite run_app in R2. fold s in R2. fold s' in R2.
  specialize (R2 Hup' Hp' Hd' k t).
  assert (Hm' : maybe_deleted s' k t = false).
  { unfold maybe_deleted in *. rewrite Hg, existsb_app, Hm. reflexivity. }
  assert (He : effective s' = effective s ++ [GDelete ss lo hi]).
  { unfold effective. rewrite Hg, flat_map_app. cbn. reflexivity. }
  destruct R1 as [R1|R1]; [congruence|]. destruct R2 as [R2|R2]; [congruence|].
  rewrite R2, He, glww_snoc. cbn [gapply]. fold (in_rng lo hi t). rewrite <- R1. reflexivity.
Qed.

(* reads equal Shard/Spec.v's reads over the acknowledged history *)
Lemma reads_equal_spec_lemma h U k lo hi :
  run_clean repaired h init = true ->
  let s := run repaired h init in
  ph (sv s) = Up -> pend (sv s) = PNone -> dstage (sv s) = DIdle ->
  (forall e, In e (g_hist s) -> fst e = KAck) -> In k U ->
  eng_read s k lo hi true = spec_read (map (conc U) (acked s)) k lo hi true.
Proof.
  intros Hc s Hup Hp Hd Hack Hin. destruct (effective_is_acked s Hack) as [Heff Hmb].
  apply read_eq_spec. intros t _. rewrite (lww_conc U _ k t Hin), <- Heff.
  destruct (reads_refine_lemma h Hc Hup Hp Hd k t) as [X|X]; [fold s in X; rewrite Hmb in X; discriminate|exact X].
Qed.

Fixpoint tvlist_eqb_refl l : tvlist_eqb l l = true.
Proof.
  destruct l as [|[t v] r]; [reflexivity|]. cbn. rewrite Z.eqb_refl, tvlist_eqb_refl.
  assert (value_eqb v v = true) by (apply value_eqb_eq; reflexivity). rewrite H. reflexivity.
Qed.

(* the model's observation passes the executable check used on the implementation's *)
Lemma model_meets_spec_lemma h U k :
  run_clean repaired h init = true ->
  let s := run repaired h init in
  ph (sv s) = Up -> pend (sv s) = PNone -> dstage (sv s) = DIdle ->
  (forall e, In e (g_hist s) -> fst e = KAck) -> In k U ->
  read_ok (map HAck (map (conc U) (acked s))) k (eng_read s k min_time max_time true) = true.
Proof.
  intros Hc s Hup Hp Hd Hack Hin. unfold read_ok.
  assert (Hnm : existsb is_maybe (map HAck (map (conc U) (acked s))) = false).
  { induction (map (conc U) (acked s)); [reflexivity|assumption]. }
  rewrite Hnm.
  assert (Hid : forall l, map hop_op (map HAck l) = l) by (induction l as [|x r IH]; [reflexivity|cbn; rewrite IH; reflexivity]).
  rewrite Hid.
  pose proof (reads_equal_spec_lemma h U k min_time max_time Hc Hup Hp Hd Hack Hin) as R. cbv zeta in R. fold s in R.
  rewrite R. apply tvlist_eqb_refl.
Qed.

(* ---------- the excluded shape is a real counterexample ---------- *)

Definition sk : key := [109; 44; 115; 61; 97]%N.               (* series "m,s=a" *)
(* write; snapshot begins; delete; snapshot file installed: the deleted point is back for good *)
Definition witness_inflight : list step :=
  open_steps ++ [w1 1 10; WalSync; w1 2 20; WalSync; SnapBegin; SnapWriteTmp;
                 DeleteBegin [sk] 1 1;      (* nothing in files or hot cache: returns at once, acknowledged *)
                 SnapRename; SnapClear; SnapRemoveWAL; SnapRemoveWAL; Crash 0 0] ++ open_steps.

Definition resurrects (c : cfg) (h : list step) (k : key) (t : Z) : bool :=
  let s := run c h init in
  run_ok c h init && is_up s && negb (maybe_deleted s k t) &&
  match glww (acked s) k t, live s k t with
  | None, Some _ => true
  | _, _ => false
  end.

Lemma inflight_resurrects : resurrects repaired witness_inflight wk 1 = true /\ run_clean repaired witness_inflight init = false.
Proof. vm_compute. split; reflexivity. Qed.

(* two single-instant deletes remove every point of the series; it stays listed, also after recovery *)
Definition witness_piecewise : list step :=
  open_steps ++ [Write [(wk, (1, VInt 10)); (wk, (3, VInt 30))]; WalSync;
                 SnapBegin; SnapWriteTmp; SnapRename; SnapClear; SnapRemoveWAL; SnapRemoveWAL;
                 DeleteBegin [sk] 1 1; DeleteTombstone 0; DeleteCache; DeleteIndex;
                 DeleteBegin [sk] 3 3; DeleteTombstone 0; DeleteCache; DeleteIndex;
                 Crash 0 0] ++ open_steps.

Lemma piecewise_listed_without_points :
  let s := run repaired witness_piecewise init in
  run_ok repaired witness_piecewise init = true /\ run_clean repaired witness_piecewise init = true /\
  eng_read_all s wk = [] /\ kmem sk (listed (sv s)) = true.
Proof. vm_compute. repeat split; reflexivity. Qed.
