(* C10/EpochInvD.v — the invariant is preserved by the deleter's steps, hence by every step
   and every schedule. *)
From Coq Require Import List ZArith NArith Bool Lia Arith.
From Coq Require Import ZifyBool ZifyNat ZifyN.
From Verif Require Import C10.Epoch C10.EpochInv.
Import ListNotations.
Open Scope Z_scope.

Notation cnt g ws := (count (w_active_lt g) ws).

Section InvD.
Variable mt : nat -> nat -> bool.

(* ---------- deleter: WaitDelete ---------- *)

Lemma einv_dstart s j gen t' :
  EInv mt s -> nth_error (gs_ds s) j = Some DlIdle ->
  wait_delete j (gs_tr s) = (gen, t') ->
  EInv mt {| gs_tr := t'; gs_done := gs_done s; gs_ws := gs_ws s; gs_ds := lupd (gs_ds s) j (DlWait gen) |}.
Proof.
  intros I Hj Hs. unfold wait_delete in Hs. inversion Hs; subst gen t'; clear Hs.
  set (gen := (t_epoch (gs_tr s) + 1)%N).
  destruct I as [Ilar Iwg Idg Iwd Idd Ient Ihas Iwr Idone Icrit Icov Ilist].
  assert (Hold : forall k x g, nth_error (gs_ds s) k = Some x -> d_gen_of x = Some g -> (g < gen)%N).
  { intros k x g Hx Hg. specialize (Idg k x g Hx Hg). unfold gen. lia. }
  assert (Hcntall : cnt gen (gs_ws s) = t_writes (gs_tr s)).
  { rewrite Iwr. apply (cnt_all mt). intros i g' gs H. specialize (Iwg i g' gs H). unfold gen. lia. }
  constructor; cbn [gs_tr gs_ws gs_ds gs_done t_largest t_epoch t_writes t_deletes].
  - lia.
  - intros i g gs H. specialize (Iwg i g gs H). unfold gen. lia.
  - intros k x g H Hg. rewrite (nth_upd _ _ _ _ _ Hj) in H. destruct (Nat.eqb k j).
    + inversion H; subst x. cbn in Hg. inversion Hg; subst. lia.
    + specialize (Hold k x g H Hg). lia.
  - intros i k g gs x H Hx Hg. rewrite (nth_upd _ _ _ _ _ Hj) in Hx. destruct (Nat.eqb k j).
    + inversion Hx; subst x. cbn in Hg. inversion Hg; subst g. specialize (Iwg i _ _ H). unfold gen in Iwg. lia.
    + exact (Iwd i k g gs x H Hx Hg).
  - intros k k' x x' g H H' Hg Hg'. rewrite (nth_upd _ _ _ _ _ Hj) in H. rewrite (nth_upd _ _ _ _ _ Hj) in H'.
    destruct (Nat.eqb k j) eqn:E, (Nat.eqb k' j) eqn:E'.
    + apply Nat.eqb_eq in E, E'. congruence.
    + inversion H; subst x. cbn in Hg. inversion Hg; subst g. specialize (Hold k' x' _ H' Hg'). lia.
    + inversion H'; subst x'. cbn in Hg'. inversion Hg'; subst g. specialize (Hold k x _ H Hg). lia.
    + exact (Idd k k' x x' g H H' Hg Hg').
  - intros d Hd. apply in_app_iff in Hd. destruct Hd as [Hd|[<-|[]]].
    + apply filter_In in Hd. destruct Hd as [Hd _]. destruct (Ient d Hd) as [Hp [x [Hx Hg]]].
      split; [exact Hp|]. exists x. split; [|exact Hg].
      rewrite (nth_upd _ _ _ _ _ Hj). destruct (Nat.eqb (d_guard d) j) eqn:E; [|exact Hx].
      apply Nat.eqb_eq in E. rewrite E in Hx. rewrite Hj in Hx. inversion Hx; subst x. discriminate.
    + cbn [d_gen d_pending d_guard]. split; [symmetry; exact Hcntall|].
      exists (DlWait gen). split; [|reflexivity].
      rewrite (nth_upd _ _ _ _ _ Hj). rewrite Nat.eqb_refl. reflexivity.
  - intros k x g H Hg. rewrite (nth_upd _ _ _ _ _ Hj) in H. apply in_app_iff. destruct (Nat.eqb k j) eqn:E.
    + right. inversion H; subst x. cbn in Hg. inversion Hg; subst g. apply Nat.eqb_eq in E. subst k.
      left. rewrite Hcntall. reflexivity.
    + left. apply filter_In. split; [exact (Ihas k x g H Hg)|]. cbn [d_gen].
      specialize (Hold k x g H Hg). lia.
  - exact Iwr.
  - intros k Hk. specialize (Idone k Hk). rewrite (nth_upd _ _ _ _ _ Hj).
    destruct (Nat.eqb k j) eqn:E; [|exact Idone].
    apply Nat.eqb_eq in E. subst. rewrite Hj in Idone. discriminate.
  - intros k g H. rewrite (nth_upd _ _ _ _ _ Hj) in H. destruct (Nat.eqb k j); [discriminate|].
    exact (Icrit k g H).
  - intros i g gs k x gj H Hx Hg Hlt Hm. rewrite (nth_upd _ _ _ _ _ Hj) in Hx. destruct (Nat.eqb k j).
    + inversion Hx; subst x. cbn in Hg. inversion Hg; subst gj. specialize (Iwg i g gs H). unfold gen in Hlt. lia.
    + exact (Icov i g gs k x gj H Hx Hg Hlt Hm).
  - intros i g gs k H Hin. destruct (Ilist i g gs k H Hin) as [Hd|[x [gj [Hx [Hg Hlt]]]]]; [left; exact Hd|].
    right. exists x, gj. split; [|split; assumption].
    rewrite (nth_upd _ _ _ _ _ Hj). destruct (Nat.eqb k j) eqn:E; [|exact Hx].
    apply Nat.eqb_eq in E. subst k. rewrite Hj in Hx. inversion Hx; subst x. discriminate.
Qed.

(* ---------- deleter: Wait returns ---------- *)

(* what wait_returns reads is the count of earlier writes in flight *)
Lemma wait_returns_count s j x g :
  EInv mt s -> nth_error (gs_ds s) j = Some x -> d_gen_of x = Some g ->
  exists d, find_delete g (gs_tr s) = Some d /\ d_gen d = g /\ d_guard d = j /\
            d_pending d = cnt g (gs_ws s) /\
            wait_returns g (gs_tr s) = (cnt g (gs_ws s) =? 0).
Proof.
  intros I Hx Hg. pose proof (Hhas mt s I j x g Hx Hg) as Hin.
  destruct (find_In_some (fun d => (d_gen d =? g)%N) _ _ Hin) as [d Hf]; [cbn; lia|].
  exists d. unfold wait_returns, find_delete. rewrite Hf.
  apply find_some in Hf. destruct Hf as [Hd Hgd]. apply N.eqb_eq in Hgd.
  destruct (Hent mt s I d Hd) as [Hp [x' [Hx' Hg']]]. rewrite Hgd in *.
  assert (d_guard d = j) by exact (Hdd mt s I _ _ _ _ _ Hx' Hx Hg' Hg).
  repeat split; try assumption; try reflexivity.
  pose proof (count_nonneg (w_active_lt g) (gs_ws s)). rewrite Hp. lia.
Qed.

Lemma einv_denter s j g :
  EInv mt s -> nth_error (gs_ds s) j = Some (DlWait g) -> wait_returns g (gs_tr s) = true ->
  EInv mt {| gs_tr := gs_tr s; gs_done := gs_done s; gs_ws := gs_ws s; gs_ds := lupd (gs_ds s) j (DlCrit g) |}.
Proof.
  intros I Hj Hw.
  destruct (wait_returns_count s j _ g I Hj eq_refl) as [d [_ [_ [_ [_ Hwc]]]]].
  rewrite Hw in Hwc. symmetry in Hwc. apply Z.eqb_eq in Hwc.
  destruct I as [Ilar Iwg Idg Iwd Idd Ient Ihas Iwr Idone Icrit Icov Ilist].
  (* a deleter of the new state is a deleter of the old one with the same generation *)
  assert (Hback : forall k x, nth_error (lupd (gs_ds s) j (DlCrit g)) k = Some x ->
            exists x0, nth_error (gs_ds s) k = Some x0 /\ d_gen_of x0 = d_gen_of x).
  { intros k x H. rewrite (nth_upd _ _ _ _ _ Hj) in H. destruct (Nat.eqb k j) eqn:E.
    - apply Nat.eqb_eq in E. subst k. inversion H; subst x. exists (DlWait g). split; [exact Hj|reflexivity].
    - exists x. split; [exact H|reflexivity]. }
  assert (Hfwd : forall k x0, nth_error (gs_ds s) k = Some x0 ->
            exists x, nth_error (lupd (gs_ds s) j (DlCrit g)) k = Some x /\ d_gen_of x = d_gen_of x0 /\
                      (x0 = DlDone -> x = DlDone)).
  { intros k x0 H. rewrite (nth_upd _ _ _ _ _ Hj). destruct (Nat.eqb k j) eqn:E.
    - apply Nat.eqb_eq in E. subst k. rewrite Hj in H. inversion H; subst x0.
      exists (DlCrit g). split; [reflexivity|split; [reflexivity|discriminate]].
    - exists x0. split; [exact H|split; [reflexivity|auto]]. }
  constructor; cbn [gs_tr gs_ws gs_ds gs_done].
  - exact Ilar.
  - exact Iwg.
  - intros k x g' H Hg. destruct (Hback k x H) as [x0 [H0 E0]]. rewrite <- E0 in Hg. exact (Idg k x0 g' H0 Hg).
  - intros i k g' gs x H Hx Hg. destruct (Hback k x Hx) as [x0 [H0 E0]]. rewrite <- E0 in Hg.
    exact (Iwd i k g' gs x0 H H0 Hg).
  - intros k k' x x' g' H H' Hg Hg'. destruct (Hback k x H) as [x0 [H0 E0]]. destruct (Hback k' x' H') as [x0' [H0' E0']].
    rewrite <- E0 in Hg. rewrite <- E0' in Hg'. exact (Idd k k' x0 x0' g' H0 H0' Hg Hg').
  - intros d0 Hd. destruct (Ient d0 Hd) as [Hp [x0 [Hx0 Hg0]]]. split; [exact Hp|].
    destruct (Hfwd _ x0 Hx0) as [x [Hx [Ex _]]]. exists x. split; [exact Hx|]. rewrite Ex. exact Hg0.
  - intros k x g' H Hg. destruct (Hback k x H) as [x0 [H0 E0]]. rewrite <- E0 in Hg. exact (Ihas k x0 g' H0 Hg).
  - exact Iwr.
  - intros k Hk. specialize (Idone k Hk). destruct (Hfwd k DlDone Idone) as [x [Hx [_ Hd]]].
    rewrite Hx. rewrite (Hd eq_refl). reflexivity.
  - intros k g' H. rewrite (nth_upd _ _ _ _ _ Hj) in H. destruct (Nat.eqb k j).
    + inversion H; subst g'. exact Hwc.
    + exact (Icrit k g' H).
  - intros i g' gs k x gj H Hx Hg Hlt Hm. destruct (Hback k x Hx) as [x0 [H0 E0]]. rewrite <- E0 in Hg.
    exact (Icov i g' gs k x0 gj H H0 Hg Hlt Hm).
  - intros i g' gs k H Hin. destruct (Ilist i g' gs k H Hin) as [Hd|[x0 [gj [Hx0 [Hg Hlt]]]]]; [left; exact Hd|].
    right. destruct (Hfwd k x0 Hx0) as [x [Hx [Ex _]]]. exists x, gj. split; [exact Hx|]. split; [|exact Hlt].
    rewrite Ex. exact Hg.
Qed.

(* ---------- deleter: Done ---------- *)

Lemma einv_ddone s j g :
  EInv mt s -> nth_error (gs_ds s) j = Some (DlCrit g) ->
  EInv mt {| gs_tr := done_delete g (gs_tr s); gs_done := j :: gs_done s; gs_ws := gs_ws s;
            gs_ds := lupd (gs_ds s) j DlDone |}.
Proof.
  intros I Hj.
  destruct I as [Ilar Iwg Idg Iwd Idd Ient Ihas Iwr Idone Icrit Icov Ilist].
  (* a deleter of the new state with a generation is another deleter of the old one *)
  assert (Hback : forall k x g', nth_error (lupd (gs_ds s) j DlDone) k = Some x -> d_gen_of x = Some g' ->
            nth_error (gs_ds s) k = Some x /\ k <> j).
  { intros k x g' H Hg. rewrite (nth_upd _ _ _ _ _ Hj) in H. destruct (Nat.eqb k j) eqn:E.
    - inversion H; subst x. discriminate.
    - apply Nat.eqb_neq in E. split; assumption. }
  constructor; cbn [gs_tr gs_ws gs_ds gs_done]; cbn [done_delete t_largest t_epoch t_writes t_deletes].
  - exact Ilar.
  - exact Iwg.
  - intros k x g' H Hg. destruct (Hback k x g' H Hg) as [H0 _]. exact (Idg k x g' H0 Hg).
  - intros i k g' gs x H Hx Hg. destruct (Hback k x g' Hx Hg) as [H0 _]. exact (Iwd i k g' gs x H H0 Hg).
  - intros k k' x x' g' H H' Hg Hg'. destruct (Hback k x g' H Hg) as [H0 _]. destruct (Hback k' x' g' H' Hg') as [H0' _].
    exact (Idd k k' x x' g' H0 H0' Hg Hg').
  - intros d Hd. apply filter_In in Hd. destruct Hd as [Hd Hne]. destruct (Ient d Hd) as [Hp [x [Hx Hg]]].
    split; [exact Hp|]. exists x. split; [|exact Hg].
    rewrite (nth_upd _ _ _ _ _ Hj). destruct (Nat.eqb (d_guard d) j) eqn:E; [|exact Hx].
    apply Nat.eqb_eq in E. rewrite E in Hx. rewrite Hj in Hx. inversion Hx; subst x. cbn in Hg.
    inversion Hg as [Hgg]. rewrite <- Hgg in Hne. rewrite N.eqb_refl in Hne. discriminate.
  - intros k x g' H Hg. destruct (Hback k x g' H Hg) as [H0 Hkj]. apply filter_In.
    split; [exact (Ihas k x g' H0 Hg)|]. cbn [d_gen].
    destruct (g' =? g)%N eqn:E; [|reflexivity]. apply N.eqb_eq in E. subst g'.
    exfalso. apply Hkj. exact (Idd k j x (DlCrit g) g H0 Hj Hg eq_refl).
  - exact Iwr.
  - intros k [<-|Hk].
    + rewrite (nth_upd _ _ _ _ _ Hj). rewrite Nat.eqb_refl. reflexivity.
    + specialize (Idone k Hk). rewrite (nth_upd _ _ _ _ _ Hj). destruct (Nat.eqb k j); [reflexivity|exact Idone].
  - intros k g' H. rewrite (nth_upd _ _ _ _ _ Hj) in H. destruct (Nat.eqb k j); [discriminate|]. exact (Icrit k g' H).
  - intros i g' gs k x gj H Hx Hg Hlt Hm. destruct (Hback k x gj Hx Hg) as [H0 _].
    exact (Icov i g' gs k x gj H H0 Hg Hlt Hm).
  - intros i g' gs k H Hin. destruct (Nat.eq_dec k j) as [->|Hkj]; [left; left; reflexivity|].
    destruct (Ilist i g' gs k H Hin) as [Hd|[x [gj [Hx [Hg Hlt]]]]]; [left; right; exact Hd|].
    right. exists x, gj. split; [|split; assumption].
    rewrite (nth_upd _ _ _ _ _ Hj). apply Nat.eqb_neq in Hkj. rewrite Hkj. exact Hx.
Qed.

(* ---------- every step, every schedule ---------- *)

Lemma einv_step s a s' : EInv mt s -> ep_step mt s a = Some s' -> EInv mt s'.
Proof.
  intros I H. destruct a as [i order|j]; cbn [ep_step] in H.
  - destruct (nth_error (gs_ws s) i) as [[|gen [|j gs]|]|] eqn:Hi; try discriminate.
    + destruct (start_write (gs_tr s)) as [[guards gen] t'] eqn:Hs. inversion H; subst s'.
      exact (einv_wstart mt s i order guards gen t' I Hi Hs).
    + inversion H; subst s'. exact (einv_wend mt s i gen I Hi).
    + destruct (mt j i && negb (nat_mem j (gs_done s))) eqn:Hp; [discriminate|].
      inversion H; subst s'. exact (einv_wpass mt s i gen j gs I Hi Hp).
  - destruct (nth_error (gs_ds s) j) as [[|gen|gen|]|] eqn:Hj; try discriminate.
    + destruct (wait_delete j (gs_tr s)) as [gen t'] eqn:Hs. inversion H; subst s'.
      exact (einv_dstart s j gen t' I Hj Hs).
    + destruct (wait_returns gen (gs_tr s)) eqn:Hw; [|discriminate].
      inversion H; subst s'. exact (einv_denter s j gen I Hj Hw).
    + inversion H; subst s'. exact (einv_ddone s j gen I Hj).
Qed.

Lemma einv_exec s a : EInv mt s -> EInv mt (ep_exec mt s a).
Proof.
  intros I. unfold ep_exec. destruct (ep_step mt s a) as [s'|] eqn:E; [exact (einv_step s a s' I E)|exact I].
Qed.

Lemma einv_run_from sched s : EInv mt s -> EInv mt (ep_run mt sched s).
Proof.
  revert s; induction sched as [|a sched IH]; intros s I; [exact I|].
  cbn. apply IH. apply einv_exec. exact I.
Qed.

Lemma einv_run nw nd sched : EInv mt (ep_run mt sched (ep_init nw nd)).
Proof. apply einv_run_from. apply einv_init. Qed.

End InvD.
