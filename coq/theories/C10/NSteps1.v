(* C10/NSteps1.v — the absence half of the invariant is preserved: writes, syncs, snapshots, compactions. *)
From Verif Require Import Shard.Engine C01.Kv C01.Facts C01.Dinv C01.Inv C01.Steps1 C01.Steps2 C01.Steps3 C01.Steps4 C10.Ninv.
From Coq Require Import ZifyBool ZifyN ZifyNat.
Open Scope Z_scope.
Local Arguments exclude_range : simpl never.
Local Arguments key_eqb : simpl never.

Lemma clean_post s x : step_ok s x = true -> clean_step repaired s x = true -> delete_hits_snapshot (do_step repaired s x) = false.
Proof.
  intros Ok Hc. unfold clean_step in Hc. apply andb_true_iff in Hc. destruct Hc as [_ Hc].
  unfold step_fn in Hc. rewrite Ok in Hc. apply negb_true_iff in Hc. exact Hc.
Qed.

(* ---------- Write ---------- *)

Lemma ninv_write s pts :
  Inv s -> NInv s -> ph (sv s) = Up -> pend (sv s) = PNone -> dstage (sv s) = DIdle ->
  delete_hits_snapshot (do_step repaired s (Write pts)) = false ->
  NInv (do_step repaired s (Write pts)).
Proof.
  intros I N Hup Hp Hd Hcl. pose proof (i_up _ I Hup) as V. destruct (u_split _ V) as [Wsn [Wh Sp]].
  pose proof (u_gap _ V) as Hg. rewrite (do_write_eq s pts Hg) in *.
  set (e := EWrite pts) in *.
  assert (Hne : w_open (sv s) = true -> wal (sd s) <> []) by (apply (split_wal_nonempty _ _ _ Sp)).
  assert (HE : wal_entries (wal_append (w_open (sv s)) (w_id (sv s)) e (wal (sd s))) = E s ++ [e]).
  { apply wal_append_entries; [assumption|apply (u_clean _ V)]. }
  assert (Heff : eff_now s = effective s) by (apply eff_now_nopend; assumption).
  match goal with |- NInv ?st => set (s' := st) in * end.
  assert (Heff' : eff_now s' = eff_now s ++ [GWrite pts]).
  { unfold eff_now at 1, pending_ops, s'. sim. rewrite (effective_eq s) by reflexivity. rewrite Heff. reflexivity. }
  assert (Hmb : forall k t, mb_now s k t = mb_now s' k t) by (apply mb_now_eq; reflexivity).
  destruct N. constructor.
  - unfold E. unfold s' at 1 2. sim. rewrite HE, Heff'.
    apply (Ndur_mb _ _ _ (mb_now s)); [intros k t H; rewrite <- Hmb; exact H|]. apply Ndur_write. assumption.
  - unfold s' at 1. sim. intros pts' H. inversion H; subst pts'. exists (E s). split; [unfold E, s'; sim; exact HE|].
    unfold s' at 1 2. sim. rewrite (effective_eq s) by reflexivity. rewrite <- Heff.
    apply (Ndur_mb _ _ _ (mb_now s)); [intros k t X; rewrite <- Hmb; exact X|]. assumption.
  - intros k t H. rewrite Heff' in H. rewrite glww_snoc in H. cbn [gapply] in H. rewrite <- Hmb.
    destruct (lookup_last t (batch_values k pts)) eqn:Eb; [discriminate|].
    destruct (n_hot k t H) as [X|X]; [left; assumption|right].
    unfold s'. sim. unfold cpt in *. rewrite kv_get_write, lookup_last_app, Eb. exact X.
  - intros k t H. rewrite Heff' in H. rewrite glww_snoc in H. cbn [gapply] in H. rewrite <- Hmb.
    destruct (lookup_last t (batch_values k pts)) eqn:Eb; [discriminate|]. unfold s'. sim. auto.
  - unfold s'. sim. intros ss lo hi dk [H|H]; congruence.
  - unfold s'. sim. intros ss lo hi todo H. congruence.
  - unfold s'. sim. assumption.
  - exact Hcl.
Qed.

(* ---------- WalSync ---------- *)

Lemma ninv_walsync s :
  Inv s -> NInv s -> ph (sv s) = Up -> pend (sv s) <> PNone ->
  delete_hits_snapshot (do_step repaired s WalSync) = false ->
  NInv (do_step repaired s WalSync).
Proof.
  intros I N Hup Hp Hcl. unfold do_step in *. unfold sync_wal in *.
  destruct (pend (sv s)) as [|pts|] eqn:Ep; [contradiction| |].
  - match goal with |- NInv ?st => set (s' := st) in * end.
    assert (HE : E s' = E s) by (unfold E, s'; sim; apply wal_entries_sync).
    assert (Heff : eff_now s' = eff_now s).
    { unfold eff_now, pending_ops, s'. rewrite effective_add. sim. rewrite Ep. rewrite (effective_eq s) by reflexivity. rewrite app_nil_r. reflexivity. }
    assert (Hmb : forall k t, mb_now s k t = mb_now s' k t).
    { intros k t. unfold mb_now, s'. rewrite maybe_deleted_add. rewrite orb_false_r. reflexivity. }
    destruct N. constructor; rewrite ?HE, ?Heff; auto.
    + apply (Ndur_mb _ _ _ (mb_now s)); [intros k t H; rewrite <- Hmb; exact H|assumption].
    + unfold s'. sim. discriminate.
    + intros k t H. rewrite <- Hmb. auto.
    + intros k t H. rewrite <- Hmb. auto.
  - destruct (i_pd _ I Ep) as [ss [lo [hi [dk Hd]]]]. rewrite Hd in *.
    match goal with |- NInv ?st => set (s' := st) in * end.
    assert (HE : E s' = E s) by (unfold E, s'; sim; apply wal_entries_sync).
    assert (Heff : eff_now s' = eff_now s).
    { unfold eff_now, pending_ops, s'. sim. rewrite Ep. rewrite (effective_eq s) by reflexivity. reflexivity. }
    assert (Hmb : forall k t, mb_now s k t = mb_now s' k t).
    { intros k t. unfold mb_now, inflight, maybe_deleted, s'. sim. rewrite Hd. reflexivity. }
    destruct N. constructor; rewrite ?HE, ?Heff; auto.
    + apply (Ndur_mb _ _ _ (mb_now s)); [intros k t H; rewrite <- Hmb; exact H|assumption].
    + unfold s'. sim. discriminate.
    + intros k t H. rewrite <- Hmb. auto.
    + intros k t H. rewrite <- Hmb. auto.
    + unfold s'. sim. intros ss0 lo0 hi0 dk0 [H|H]; [discriminate|]. inversion H; subst.
      apply (n_del3 ss0 lo0 hi0 dk0). left. assumption.
    + unfold s'. sim. intros ss0 lo0 hi0 todo H. discriminate.
Qed.

(* ---------- steps that leave log, files, caches and ghost state alone ---------- *)

Lemma ninv_bookkeeping s s' :
  NInv s -> wal_entries (wal (sd s')) = E s -> files (sd s') = files (sd s) -> g_hist s' = g_hist s ->
  pend (sv s') = pend (sv s) -> dstage (sv s') = dstage (sv s) ->
  hot (sv s') = hot (sv s) -> snap (sv s') = snap (sv s) -> delete_hits_snapshot s' = false -> NInv s'.
Proof. intros. apply (ninv_frame s); auto. Qed.

Lemma ninv_new_segment s : NInv s -> delete_hits_snapshot (new_segment s) = false -> NInv (new_segment s).
Proof.
  intros N Hc. apply (ninv_bookkeeping s); auto.
  rewrite new_segment_eq. sim. unfold rolled_wal. rewrite wal_entries_snoc_seg. cbn [sg_items good_prefix]. rewrite app_nil_r.
  destruct (w_open (sv s)); [apply wal_entries_sync|reflexivity].
Qed.
