(* C10/Guard.v — the delete guard (tsdb/guard.go) and the delete's own selection
   (tsdb/store.go DeleteSeries -> tsdb/index.go IndexSet.seriesByExprIterator ->
   tsm1 Engine.DeleteSeriesRangeWithPredicate).  Definitions only; everything computes.

   A delete installs [newGuard(min, max, names, condition)] for its duration; a write that
   starts meanwhile waits for the delete iff [guard.Matches(points)].  The guard must therefore
   match every point the delete selects ([gselects]).

   [fixed : bool] selects the rule: [false] = guard.go as pinned (a tag predicate looks only at
   the tags a point HAS; a regex predicate becomes "has the key"), [true] = the repaired rule
   (a point without the tag is asked as if the value were empty — which is how the index
   evaluates the predicate; a regex predicate that the empty string satisfies, or that is about
   the measurement name, matches every point).

   Expressions are the influxql AST as far as guard.go and index.go look at it. *)
From Coq Require Import List ZArith NArith Bool.
Import ListNotations.
Open Scope Z_scope.

Definition str := list N.

Fixpoint str_eqb (a b : str) : bool :=
  match a, b with
  | [], [] => true
  | x :: a', y :: b' => N.eqb x y && str_eqb a' b'
  | _, _ => false
  end.

Definition str_nil (a : str) : bool := match a with [] => true | _ => false end.

Definition name_key : str := [95; 110; 97; 109; 101]%N.           (* "_name" *)
Definition is_name (k : str) : bool := str_eqb k name_key.

(* models.Point as far as the guard and the index look at it *)
Record gpoint := { gp_name : str; gp_tags : list (str * str); gp_time : Z }.

(* ---------- expressions ---------- *)

(* influxql.VarRef.Type: Unknown, Tag, anything else (Float .. AnyField) *)
Inductive vartype := TUnknown | TTag | TField.

Inductive operand :=
| OVar (k : str) (ty : vartype)          (* *influxql.VarRef *)
| OStr (v : str)                       (* *influxql.StringLiteral *)
| ORegex (r : N)                       (* *influxql.RegexLiteral; the regex is an id, see [re_match] *)
| OBinary                              (* a nested *influxql.BinaryExpr ("expression math") *)
| OLit.                                (* any other node: number, integer, boolean, call, paren ... *)

Inductive binop := BEq | BNeq | BEqRegex | BNeqRegex | BOtherOp.

Inductive gexpr :=
| EParen (e : gexpr)
| EBool (b : bool)
| EAnd (l r : gexpr)
| EOr (l r : gexpr)
| EBin (op : binop) (l r : operand)    (* *influxql.BinaryExpr with any other operator *)
| EOther.                              (* any other node type *)

(* ---------- exprGuard ---------- *)

Inductive tagop := TEq (v : str) | TNeq (v : str).     (* func(x) bytes.Equal(val,x) / !bytes.Equal(val,x) *)

Definition tagop_apply (op : tagop) (x : str) : bool :=
  match op with TEq v => str_eqb v x | TNeq v => negb (str_eqb v x) end.

(* *exprGuard: nil is [None] (matches everything); the zero value is [GEmpty] (matches nothing) *)
Inductive eguard :=
| GEmpty
| GAnd (a b : eguard)
| GOr (a b : eguard)
| GTagMatches (meas : bool) (key : str) (op : tagop)
| GTagExists (keys : list str).

(* exprGuard.empty() *)
Definition eg_empty (g : option eguard) : bool :=
  match g with Some GEmpty => true | _ => false end.

Section WithRegex.
(* regexp.Regexp.Match of regex [r] on a byte string *)
Variable re_match : N -> str -> bool.

Section Rule.
Variable fixed : bool.

(* newBinaryExprGuard *)
Definition new_binary_expr_guard (op : binop) (l r : operand) : option eguard :=
  match l, r with
  | OBinary, _ => None                               (* nested binary expression: always match *)
  | _, OBinary => None
  | _, _ =>
    (* one side must be a VarRef; that is the key *)
    let kv := match l with
              | OVar k ty => Some (k, ty, r)
              | _ => match r with OVar k ty => Some (k, ty, l) | _ => None end
              end in
    match kv with
    | None => None
    | Some (k, ty, value) =>
      if negb (is_name k) && match ty with TField => true | _ => false end then None
      else
        match value with
        | OStr v =>
            match op with
            | BEq => Some (GTagMatches (is_name k) k (TEq v))
            | BNeq => Some (GTagMatches (is_name k) k (TNeq v))
            | _ => None
            end
        | ORegex re =>
            if fixed && (is_name k || Bool.eqb (re_match re []) (match op with BEqRegex => true | _ => false end))
            then None
            else Some (GTagExists [k])
        | OVar k2 _ =>
            if is_name k || is_name k2 then None else Some (GTagExists [k; k2])
        | _ => None
        end
    end
  end.

(* newExprGuard (for a non-nil expression) *)
Fixpoint new_expr_guard (e : gexpr) : option eguard :=
  match e with
  | EParen e' => new_expr_guard e'
  | EBool true => None
  | EBool false => Some GEmpty
  | EAnd l r =>
      let lhs := new_expr_guard l in
      let rhs := new_expr_guard r in
      match lhs, rhs with
      | None, _ => rhs                                  (* reduce *)
      | _, None => lhs                                  (* reduce *)
      | Some a, Some b =>
          if eg_empty lhs || eg_empty rhs then Some GEmpty   (* short circuit *)
          else Some (GAnd a b)
      end
  | EOr l r =>
      let lhs := new_expr_guard l in
      let rhs := new_expr_guard r in
      if eg_empty lhs then rhs                          (* reduce *)
      else if eg_empty rhs then lhs                     (* reduce *)
      else match lhs, rhs with
           | Some a, Some b => Some (GOr a b)
           | _, _ => None                               (* short circuit *)
           end
  | EBin op l r => new_binary_expr_guard op l r
  | EOther => None
  end.

Definition new_expr_guard_opt (e : option gexpr) : option eguard :=
  match e with None => None | Some e' => new_expr_guard e' end.

(* the tagMatches loop of exprGuard.matches *)
Fixpoint tag_loop (key : str) (op : tagop) (tags : list (str * str)) (found : bool) : bool :=
  match tags with
  | [] => if fixed then negb found && tagop_apply op [] else false
  | t :: rest =>
      if str_eqb (fst t) key then
        if tagop_apply op (snd t) then true else tag_loop key op rest true
      else tag_loop key op rest found
  end.

(* exprGuard.matches (non-nil receiver) *)
Fixpoint eguard_matches (g : eguard) (pt : gpoint) : bool :=
  match g with
  | GAnd a b => eguard_matches a pt && eguard_matches b pt
  | GOr a b => eguard_matches a pt || eguard_matches b pt
  | GTagMatches true _ op => tagop_apply op (gp_name pt)
  | GTagMatches false key op => tag_loop key op (gp_tags pt) false
  | GTagExists keys => existsb (fun t => existsb (str_eqb (fst t)) keys) (gp_tags pt)
  | GEmpty => false
  end.

Definition eguard_matches_opt (g : option eguard) (pt : gpoint) : bool :=
  match g with None => true | Some g' => eguard_matches g' pt end.

(* guard *)
Record guard := { g_min : Z; g_max : Z; g_names : list str; g_expr : option eguard }.

Definition new_guard (min max : Z) (names : list str) (e : option gexpr) : guard :=
  {| g_min := min; g_max := max; g_names := names; g_expr := new_expr_guard_opt e |}.

Definition names_empty (g : guard) : bool := match g_names g with [] => true | _ => false end.

(* guard.Matches (non-nil receiver) *)
Fixpoint guard_matches (g : guard) (pts : list gpoint) : bool :=
  match pts with
  | [] => false
  | pt :: rest =>
      let t := gp_time pt in
      if (t <? g_min g) || (t >? g_max g) then guard_matches g rest
      else if names_empty g && eguard_matches_opt (g_expr g) pt then true
      else if existsb (str_eqb (gp_name pt)) (g_names g) && eguard_matches_opt (g_expr g) pt then true
      else guard_matches g rest
  end.

(* a nil *guard matches every batch *)
Definition guard_matches_opt (g : option guard) (pts : list gpoint) : bool :=
  match g with None => true | Some g' => guard_matches g' pts end.

End Rule.

(* ---------- what the delete selects ---------- *)

(* An element of a series-id iterator: absent, present, or present with a filter expression
   attached (newSeriesIDExprIterator) — the engine refuses those ("fields not supported in
   WHERE clause during deletion"), so only [SPlain] series are ever deleted. *)
Inductive sel3 := SAbsent | SPlain | SFiltered.

Definition of_bool (b : bool) : sel3 := if b then SPlain else SAbsent.

(* IntersectSeriesIDIterators / UnionSeriesIDIterators on one series *)
Definition sel_and (a b : sel3) : sel3 :=
  match a, b with
  | SAbsent, _ | _, SAbsent => SAbsent
  | SPlain, SPlain => SPlain
  | _, _ => SFiltered
  end.

Definition sel_or (a b : sel3) : sel3 :=
  match a, b with
  | SAbsent, x => x
  | x, SAbsent => x
  | SFiltered, SFiltered => SFiltered
  | _, _ => SPlain
  end.

Definition has_kv (tags : list (str * str)) (k v : str) : bool :=
  existsb (fun t => str_eqb (fst t) k && str_eqb (snd t) v) tags.
Definition has_k (tags : list (str * str)) (k : str) : bool :=
  existsb (fun t => str_eqb (fst t) k) tags.

(* seriesByBinaryExprStringIterator *)
Definition sel_string (pt : gpoint) (key v : str) (op : binop) : bool :=
  if is_name key then
    match op with
    | BEq => str_eqb v (gp_name pt)
    | BNeq => negb (str_eqb v (gp_name pt))
    | _ => false
    end
  else
    match op with
    | BEq => if negb (str_nil v) then has_kv (gp_tags pt) key v        (* tagValueSeriesIDIterator *)
             else negb (has_k (gp_tags pt) key)                        (* measurement \ tag key *)
    | _ => if negb (str_nil v) then negb (has_kv (gp_tags pt) key v)   (* measurement \ tag value *)
           else has_k (gp_tags pt) key                                 (* tagKeySeriesIDIterator *)
    end.

(* seriesByBinaryExprRegexIterator / matchTagValueSeriesIDIterator *)
Definition sel_regex (pt : gpoint) (key : str) (re : N) (op : binop) : bool :=
  if is_name key then
    let m := re_match re (gp_name pt) in
    match op with BEqRegex => m | BNeqRegex => negb m | _ => false end
  else
    let matches := match op with BEqRegex => true | _ => false end in
    let match_empty := re_match re [] in
    let ex_match := existsb (fun t => str_eqb (fst t) key && re_match re (snd t)) (gp_tags pt) in
    let ex_nomatch := existsb (fun t => str_eqb (fst t) key && negb (re_match re (snd t))) (gp_tags pt) in
    if matches then (if match_empty then negb ex_nomatch else ex_match)
    else (if match_empty then ex_nomatch else negb ex_match).

(* seriesByBinaryExprVarRefIterator *)
Definition sel_varref (pt : gpoint) (k1 k2 : str) (op : binop) : bool :=
  match op with
  | BEq => has_k (gp_tags pt) k1 && has_k (gp_tags pt) k2
  | _ => has_k (gp_tags pt) k1 && negb (has_k (gp_tags pt) k2)
  end.

(* seriesByBinaryExprIterator.  An untyped key is taken to name a tag (the code asks the
   measurement's field set; the harness keeps tag keys and field names apart). *)
Definition sel_bin (op : binop) (l r : operand) (pt : gpoint) : sel3 :=
  match l, r with
  | OBinary, _ => SFiltered
  | _, OBinary => SFiltered
  | _, _ =>
    let kv := match l with
              | OVar k ty => Some (k, ty, r)
              | _ => match r with OVar k ty => Some (k, ty, l) | _ => None end
              end in
    match kv with
    | None => SFiltered
    | Some (k, ty, value) =>
      if negb (is_name k) && match ty with TField => true | _ => false end then SFiltered
      else
        match value with
        | OVar k2 ty2 =>
            if negb (is_name k2) && match ty2 with TField => true | _ => false end then SFiltered
            else of_bool (sel_varref pt k k2 op)
        | OStr v => of_bool (sel_string pt k v op)
        | ORegex re => of_bool (sel_regex pt k re op)
        | _ => SFiltered
        end
    end
  end.

(* seriesByExprIterator *)
Fixpoint sel_expr (e : gexpr) (pt : gpoint) : sel3 :=
  match e with
  | EParen e' => sel_expr e' pt
  | EBool b => of_bool b
  | EAnd l r => sel_and (sel_expr l pt) (sel_expr r pt)
  | EOr l r => sel_or (sel_expr l pt) (sel_expr r pt)
  | EBin op l r => sel_bin op l r pt
  | EOther => SAbsent
  end.

(* measurementSeriesByExprIterator: no condition = every series of the measurement *)
Definition sel_expr_opt (e : option gexpr) (pt : gpoint) : sel3 :=
  match e with None => SPlain | Some e' => sel_expr e' pt end.

Definition is_plain (s : sel3) : bool := match s with SPlain => true | _ => false end.
Definition is_filtered (s : sel3) : bool := match s with SFiltered => true | _ => false end.

(* Store.DeleteSeries on one shard: for each name in names, the series the index yields for the
   condition, each over the inclusive time range [min, max] *)
Definition gselects (e : option gexpr) (names : list str) (min max : Z) (pt : gpoint) : bool :=
  existsb (str_eqb (gp_name pt)) names
  && ((min <=? gp_time pt) && (gp_time pt <=? max))
  && is_plain (sel_expr_opt e pt).

End WithRegex.

(* models.Tags of a real point never holds an empty value (Tags.HashKey skips them when the
   key is built, and Point.Tags() parses the key) *)
Definition wf_point (pt : gpoint) : bool :=
  forallb (fun t => negb (str_nil (snd t))) (gp_tags pt).
