(* C10/NSteps2.v — absence half preserved: snapshot and compaction steps. *)
From Verif Require Import Shard.Engine C01.Kv C01.Facts C01.Dinv C01.Inv C01.Steps1 C01.Steps2 C01.Steps3 C01.Steps4 C10.Ninv C10.NSteps1.
From Coq Require Import ZifyBool ZifyN ZifyNat.
Open Scope Z_scope.
Local Arguments exclude_range : simpl never.
Local Arguments key_eqb : simpl never.

(* a state that differs only in the two cache stores (and bookkeeping) *)
Lemma ninv_caches s s' :
  NInv s -> E s' = E s -> files (sd s') = files (sd s) -> g_hist s' = g_hist s ->
  pend (sv s') = pend (sv s) -> dstage (sv s') = dstage (sv s) ->
  (forall k t, cpt (hot (sv s')) k t = None \/ cpt (hot (sv s')) k t = cpt (hot (sv s)) k t) ->
  (forall k t, cpt (snap (sv s')) k t = None \/ cpt (snap (sv s')) k t = cpt (snap (sv s)) k t \/
               cpt (snap (sv s')) k t = cpt (hot (sv s)) k t) ->
  delete_hits_snapshot s' = false -> NInv s'.
Proof.
  intros N HE Hf Hg Hp Hd Hh Hsn Hc. destruct N.
  assert (Hmb : forall k t, mb_now s k t = mb_now s' k t) by (apply mb_now_eq; assumption).
  assert (Heff : eff_now s' = eff_now s) by (apply eff_now_eq; assumption).
  constructor; rewrite ?HE, ?Hf, ?Hp, ?Hd, ?Heff; auto.
  - apply (Ndur_mb _ _ _ (mb_now s)); [intros k t H; rewrite <- Hmb; exact H|assumption].
  - intros pts H. destruct (n_pw pts H) as [es0 [H1 H2]]. exists es0. split; [assumption|].
    rewrite (effective_eq s s' Hg). apply (Ndur_mb _ _ _ (mb_now s)); [intros k t X; rewrite <- Hmb; exact X|assumption].
  - intros k t H. rewrite <- Hmb. destruct (Hh k t) as [X|X]; [right; assumption|]. rewrite X. auto.
  - intros k t H. rewrite <- Hmb. destruct (Hsn k t) as [X|[X|X]]; [right; assumption| |]; rewrite X; auto.
  - intros ss lo hi dk Hst k t Hcv. destruct (n_del3 ss lo hi dk Hst k t Hcv) as [R1 [R2 R3]].
    split; [assumption|]. split.
    + destruct (Hh k t) as [X|X]; [assumption|congruence].
    + destruct (Hsn k t) as [X|[X|X]]; [assumption|congruence|congruence].
Qed.

Lemma E_upd f s : E (upd f s) = E s.
Proof. reflexivity. Qed.

(* ---------- SnapBegin ---------- *)

Lemma ninv_snapbegin s :
  Inv s -> NInv s -> delete_hits_snapshot (do_step repaired s SnapBegin) = false ->
  NInv (do_step repaired s SnapBegin).
Proof.
  intros I N Hcl. unfold do_step in *. cbn [fix_snapsegs repaired] in *.
  set (s1 := if negb (w_open (sv s)) || w_nonempty (sv s) then new_segment s else s) in *.
  assert (HE1 : E s1 = E s).
  { unfold s1. destruct (negb (w_open (sv s)) || w_nonempty (sv s)); [|reflexivity].
    rewrite new_segment_eq. unfold E. sim. unfold rolled_wal. rewrite wal_entries_snoc_seg. cbn [sg_items good_prefix]. rewrite app_nil_r.
    destruct (w_open (sv s)); [apply wal_entries_sync|reflexivity]. }
  assert (Hf1 : files (sd s1) = files (sd s) /\ g_hist s1 = g_hist s /\ pend (sv s1) = pend (sv s) /\ dstage (sv s1) = dstage (sv s) /\
                hot (sv s1) = hot (sv s) /\ snap (sv s1) = snap (sv s)).
  { unfold s1. destruct (negb (w_open (sv s)) || w_nonempty (sv s)); [rewrite new_segment_eq; sim|]; repeat split. }
  destruct Hf1 as (F1 & F2 & F3 & F4 & F5 & F6).
  destruct (is_nil (snap (sv s))) eqn:Esn; [destruct (is_nil (hot (sv s))) eqn:Eh|].
  - apply (ninv_caches s); sim; auto; rewrite ?E_upd; auto; intros k t; rewrite ?F5, ?F6; auto.
  - apply (ninv_caches s); sim; auto; rewrite ?E_upd; auto; intros k t; rewrite ?F5, ?F6; auto.
  - apply (ninv_caches s); sim; auto; rewrite ?E_upd; auto; intros k t; rewrite ?F5, ?F6; auto.
Qed.

(* ---------- SnapWriteTmp, SnapFail, SnapClear, CompactWriteTmp, CompactAbort ---------- *)

Lemma ninv_snapwritetmp s : NInv s -> delete_hits_snapshot (do_step repaired s SnapWriteTmp) = false -> NInv (do_step repaired s SnapWriteTmp).
Proof. intros N Hc. unfold do_step in *. apply (ninv_frame s); auto. Qed.

Lemma ninv_snapfail s : NInv s -> delete_hits_snapshot (do_step repaired s SnapFail) = false -> NInv (do_step repaired s SnapFail).
Proof. intros N Hc. unfold do_step in *. apply (ninv_frame s); auto. Qed.

Lemma ninv_snapclear s : NInv s -> delete_hits_snapshot (do_step repaired s SnapClear) = false -> NInv (do_step repaired s SnapClear).
Proof. intros N Hc. unfold do_step in *. apply (ninv_caches s); sim; auto. Qed.

Lemma ninv_compactwritetmp s i n : NInv s -> delete_hits_snapshot (do_step repaired s (CompactWriteTmp i n)) = false -> NInv (do_step repaired s (CompactWriteTmp i n)).
Proof. intros N Hc. unfold do_step in *. apply (ninv_frame s); auto. Qed.

Lemma ninv_compactabort s : NInv s -> delete_hits_snapshot (do_step repaired s CompactAbort) = false -> NInv (do_step repaired s CompactAbort).
Proof. intros N Hc. unfold do_step in *. apply (ninv_frame s); auto. Qed.

(* ---------- file-list changes ---------- *)

Lemma fid_ltb_irrefl a : fid_ltb a a = false.
Proof. unfold fid_ltb. destruct a as [a1 a2]. cbn [fst snd]. lia. Qed.

Lemma fits_between_notin a f b : fits_between a f b = true -> ~ In (fid f) (map fid (a ++ b)).
Proof.
  unfold fits_between. intros H Hin. apply andb_true_iff in H. destruct H as [Ha Hb].
  rewrite map_app in Hin. apply in_app_or in Hin. destruct Hin as [Hin|Hin]; apply in_map_iff in Hin; destruct Hin as [g [Hg Hgin]].
  - rewrite forallb_forall in Ha. specialize (Ha g Hgin). rewrite Hg, fid_ltb_irrefl in Ha. discriminate.
  - rewrite forallb_forall in Hb. specialize (Hb g Hgin). rewrite Hg, fid_ltb_irrefl in Hb. discriminate.
Qed.

Lemma nodup_middle {A} (x : A) l1 l2 : NoDup (l1 ++ l2) -> ~ In x (l1 ++ l2) -> NoDup (l1 ++ x :: l2).
Proof.
  induction l1 as [|y l1 IH]; cbn [app]; intros Hn Hin.
  - constructor; assumption.
  - inversion Hn as [|? ? Hy Hr]; subst. constructor.
    + intros H. apply in_app_or in H. destruct H as [H|[H|H]].
      * apply Hy. apply in_or_app. left. assumption.
      * subst. apply Hin. left. reflexivity.
      * apply Hy. apply in_or_app. right. assumption.
    + apply IH; [assumption|]. intros H. apply Hin. right. assumption.
Qed.

Lemma nodup_insert a f b : NoDup (map fid (a ++ b)) -> ~ In (fid f) (map fid (a ++ b)) -> NoDup (map fid (a ++ f :: b)).
Proof.
  intros Hn Hin. rewrite map_app in *. cbn [map]. apply nodup_middle; assumption.
Qed.

(* a state whose files changed; same log, caches, ghost state *)
Lemma ninv_files s s' :
  NInv s -> E s' = E s -> g_hist s' = g_hist s ->
  pend (sv s') = pend (sv s) -> dstage (sv s') = dstage (sv s) ->
  hot (sv s') = hot (sv s) -> snap (sv s') = snap (sv s) ->
  (forall k t, glww (eff_now s) k t = None -> mb_now s k t = true \/ fview (files (sd s')) k t = fview (files (sd s)) k t \/ fview (files (sd s')) k t = None) ->
  (forall ss lo hi dk, (dstage (sv s) = DWal ss lo hi dk \/ dstage (sv s) = DIndexing ss lo hi dk) ->
     forall k t, covered ss lo hi k t = true -> fview (files (sd s')) k t = None) ->
  (forall ss lo hi todo, dstage (sv s) = DTomb ss lo hi todo -> forall f, In f (files (sd s')) ->
     existsb (fid_eqb (fid f)) todo = true \/ forall k t, covered ss lo hi k t = true -> fpt f k t = None) ->
  NoDup (map fid (files (sd s'))) -> delete_hits_snapshot s' = false ->
  pend (sv s) = PNone -> NInv s'.
Proof.
  intros N HE Hg Hp Hd Hh Hsn Hf H3 H4 Hnd Hc Hpn. destruct N.
  assert (Hmb : forall k t, mb_now s k t = mb_now s' k t) by (apply mb_now_eq; assumption).
  assert (Heff : eff_now s' = eff_now s) by (apply eff_now_eq; assumption).
  constructor; rewrite ?HE, ?Hp, ?Hd, ?Hh, ?Hsn, ?Heff; auto.
  - intros k t Hgl. rewrite <- Hmb. destruct (n_dur k t Hgl) as [X|X]; [left; assumption|].
    destruct (Hf k t Hgl) as [Y|[Y|Y]]; [left; assumption| |]; right; apply rview_none in X; apply rview_none; rewrite Y; tauto.
  - intros pts H. congruence.
  - intros k t H. rewrite <- Hmb. auto.
  - intros k t H. rewrite <- Hmb. auto.
  - intros ss lo hi dk Hst k t Hcv. destruct (n_del3 ss lo hi dk Hst k t Hcv) as [R1 [R2 R3]].
    split; [|auto]. apply rview_none in R1. apply rview_none. split; [tauto|]. apply (H3 ss lo hi dk Hst k t Hcv).
Qed.
