(* C10/NSteps5.v — absence half preserved: cache/WAL part of a delete, its completion, crash, recovery. *)
From Verif Require Import Shard.Engine C01.Kv C01.Facts C01.Dinv C01.Inv C01.Steps1 C01.Steps2 C01.Steps3 C01.Steps4 C01.Steps5 C01.Steps6
  C10.Ninv C10.NSteps1 C10.NSteps2 C10.NSteps4.
From Coq Require Import ZifyBool ZifyN ZifyNat.
Open Scope Z_scope.
Local Arguments exclude_range : simpl never.
Local Arguments key_eqb : simpl never.

Lemma cpt_delrange dk lo hi m k t :
  kv_wf m -> cpt (kv_delrange dk lo hi m) k t = if kmem k dk && in_rng lo hi t then None else cpt m k t.
Proof.
  intros Hwf. unfold cpt. rewrite kv_get_delrange by assumption. unfold in_rng.
  destruct (kmem k dk); cbn [andb]; [|reflexivity]. apply lookup_exclude_range.
Qed.

(* ---------- DeleteCache ---------- *)

Lemma ninv_deletecache s ss lo hi :
  Inv s -> NInv s -> ph (sv s) = Up -> pend (sv s) = PNone -> dstage (sv s) = DTomb ss lo hi [] ->
  delete_hits_snapshot (do_step repaired s DeleteCache) = false ->
  NInv (do_step repaired s DeleteCache).
Proof.
  intros I N Hup Hp Hd Hcl. pose proof (i_up _ I Hup) as V. destruct (u_split _ V) as [Wsn [Wh Sp]].
  rewrite (do_deletecache_eq s ss lo hi [] (u_gap _ V) Hd) in *. cbv zeta in *.
  remember (filter (sel ss) (kv_keys (hot (sv s)))) as dk eqn:Edkdef.
  assert (Hdk : forall k, kmem k dk = true -> sel ss k = true) by (intros k; subst dk; apply kmem_filter).
  (* the state before is clean: the snapshot's segments hold no covered point *)
  assert (Hsn : forall k t, covered ss lo hi k t = true -> cpt (replay (wal_entries Wsn) []) k t = None).
  { pose proof (n_clean _ N) as Hc0. unfold delete_hits_snapshot in Hc0. rewrite Hd in Hc0.
    rewrite <- (snap_content_split s Wsn Wh Sp). apply kvs_hit_none. assumption. }
  (* every file is tombstoned *)
  assert (Hfn : forall k t, covered ss lo hi k t = true -> fview (files (sd s)) k t = None).
  { intros k t Hcv. apply fview_all_none. intros f Hin.
    destruct (n_del4 _ N ss lo hi [] Hd f Hin) as [X|X]; [discriminate|]. apply X. assumption. }
  (* covered keys that are not in dk are not in the hot cache at all *)
  assert (Hnk : forall k t, covered ss lo hi k t = true -> kmem k dk = false -> cpt (hot (sv s)) k t = None).
  { intros k t Hcv Hk. apply cpt_not_key. destruct (kmem k (kv_keys (hot (sv s)))) eqn:E1; [|reflexivity].
    unfold covered in Hcv. apply andb_true_iff in Hcv. destruct Hcv as [Hs _].
    assert (Hk' : kmem k dk = true) by (subst dk; apply kmem_filter_intro; assumption). congruence. }
  assert (Hnop : forall k t, ept k t (EDelRange dk lo hi) = PNop \/ mb_now s k t = true).
  { intros k t. cbn [ept]. destruct (kmem k dk) eqn:Ek; [|left; reflexivity].
    destruct (in_rng lo hi t) eqn:Er; [|left; reflexivity]. right.
    unfold mb_now, inflight. rewrite Hd, (Hdk k Ek), Er. apply orb_true_r. }
  assert (Hwf : kv_wf (hot (sv s))) by apply (u_wf_hot _ V).
  destruct (is_nil dk) eqn:Edk.
  - assert (Hdk0 : dk = []) by (destruct dk; [reflexivity|discriminate]). rewrite Hdk0, kv_delrange_nil_keys in *.
    match goal with |- NInv ?st => set (s' := st) in * end.
    assert (Hmb : forall k t, mb_now s k t = mb_now s' k t).
    { intros k t. unfold mb_now, inflight, maybe_deleted, s'. sim. rewrite Hd. reflexivity. }
    assert (Heff : eff_now s' = eff_now s) by (apply eff_now_eq; reflexivity).
    destruct N. constructor; rewrite ?Heff; auto.
    + apply (Ndur_mb _ _ _ (mb_now s)); [intros k t H; rewrite <- Hmb; exact H|assumption].
    + unfold s'. sim. intros pts H. congruence.
    + intros k t H. rewrite <- Hmb. apply n_hot. assumption.
    + intros k t H. rewrite <- Hmb. apply n_snap. assumption.
    + unfold s'. sim. intros ss0 lo0 hi0 dk0 [H|H]; [discriminate|]. inversion H; subst ss0 lo0 hi0 dk0.
      intros k t Hcv. assert (Hh : cpt (hot (sv s)) k t = None) by (apply Hnk; [assumption|reflexivity]).
      split; [|split; [assumption|apply (snap_cpt_none s Wsn Wh); auto]].
      apply rview_none. split; [apply (wal_point_none s Wsn Wh); auto|apply Hfn; assumption].
    + unfold s'. sim. intros ss0 lo0 hi0 todo H. discriminate.
  - set (e := EDelRange dk lo hi) in *.
    assert (Hne : w_open (sv s) = true -> wal (sd s) <> []) by (apply (split_wal_nonempty _ _ _ Sp)).
    assert (HE : wal_entries (wal_append (w_open (sv s)) (w_id (sv s)) e (wal (sd s))) = E s ++ [e]).
    { apply wal_append_entries; [assumption|apply (u_clean _ V)]. }
    match goal with |- NInv ?st => set (s' := st) in * end.
    assert (HE' : E s' = E s ++ [e]) by (unfold E, s'; sim; exact HE).
    assert (Hmb : forall k t, mb_now s k t = mb_now s' k t).
    { intros k t. unfold mb_now, inflight, maybe_deleted, s'. sim. rewrite Hd. reflexivity. }
    assert (Heff : eff_now s' = eff_now s).
    { unfold eff_now, pending_ops, s'. sim. rewrite Hp. rewrite (effective_eq s) by reflexivity. reflexivity. }
    assert (Hhot : forall k t, cpt (hot (sv s')) k t = if kmem k dk && in_rng lo hi t then None else cpt (hot (sv s)) k t).
    { intros k t. unfold s'. sim. apply cpt_delrange. assumption. }
    destruct N. constructor; rewrite ?HE', ?Heff; auto.
    + apply (Ndur_mb _ _ _ (mb_now s)); [intros k t H; rewrite <- Hmb; exact H|]. apply Ndur_add_nop; assumption.
    + unfold s'. sim. discriminate.
    + intros k t H. rewrite <- Hmb. rewrite Hhot. destruct (kmem k dk && in_rng lo hi t); [right; reflexivity|]. apply n_hot. assumption.
    + intros k t H. rewrite <- Hmb. apply n_snap. assumption.
    + unfold s'. sim. intros ss0 lo0 hi0 dk0 [H|H]; [|discriminate]. inversion H; subst ss0 lo0 hi0 dk0.
      intros k t Hcv. fold s'.
      assert (Hh' : cpt (hot (sv s')) k t = None).
      { rewrite Hhot. destruct (kmem k dk) eqn:Ek; cbn [andb].
        - unfold covered in Hcv. apply andb_true_iff in Hcv. destruct Hcv as [_ Hr]. rewrite Hr. reflexivity.
        - apply Hnk; assumption. }
      split; [|split; [exact Hh'|apply (snap_cpt_none s Wsn Wh); auto]].
      change (files (sd s)) with (files (sd s)). rewrite rview_snoc. cbn [ept e].
      destruct (kmem k dk) eqn:Ek; cbn [andb].
      * unfold covered in Hcv. apply andb_true_iff in Hcv. destruct Hcv as [Hs Hr]. rewrite Hr.
        apply Hfn. unfold covered. rewrite Hs, Hr. reflexivity.
      * apply rview_none. split; [apply (wal_point_none s Wsn Wh); auto|apply Hfn; assumption].
    + unfold s'. sim. intros ss0 lo0 hi0 todo H. discriminate.
Qed.

(* ---------- DeleteIndex ---------- *)

Lemma ninv_deleteindex s ss lo hi dk :
  Inv s -> NInv s -> ph (sv s) = Up -> pend (sv s) = PNone -> dstage (sv s) = DIndexing ss lo hi dk ->
  delete_hits_snapshot (do_step repaired s DeleteIndex) = false ->
  NInv (do_step repaired s DeleteIndex).
Proof.
  intros I N Hup Hp Hd Hcl. unfold do_step in *. rewrite Hd in *.
  match goal with |- NInv ?st => set (s' := st) in * end.
  assert (Hmb : forall k t, mb_now s k t = true -> mb_now s' k t = true \/ covered ss lo hi k t = true).
  { intros k t H. unfold mb_now in *. unfold s'. rewrite maybe_deleted_add, orb_false_r.
    unfold inflight, maybe_deleted in *. sim. rewrite Hd in H.
    apply orb_true_iff in H. destruct H as [H|H]; [left; rewrite H; reflexivity|right; exact H]. }
  assert (Heff : eff_now s' = eff_now s ++ [GDelete ss lo hi]).
  { unfold eff_now, pending_ops, s'. rewrite effective_add. sim. rewrite Hp, !app_nil_r. rewrite (effective_eq s) by reflexivity. reflexivity. }
  assert (Hcovered : forall k t, covered ss lo hi k t = true ->
             rview (E s) (files (sd s)) k t = None /\ cpt (hot (sv s)) k t = None /\ cpt (snap (sv s)) k t = None).
  { intros k t Hcv. apply (n_del3 _ N ss lo hi dk); auto. }
  assert (Hg : forall k t, glww (eff_now s') k t = None -> covered ss lo hi k t = true \/ (covered ss lo hi k t = false /\ glww (eff_now s) k t = None)).
  { intros k t H. rewrite Heff, glww_snoc in H. cbn [gapply] in H. fold (in_rng lo hi t) in H. fold (covered ss lo hi k t) in H.
    destruct (covered ss lo hi k t); auto. }
  destruct N. constructor; auto.
  - rewrite Heff. change (E s') with (E s). change (files (sd s')) with (files (sd s)).
    apply (Ndur_delete_done _ _ _ (mb_now s)); [exact Hmb| |assumption].
    intros k t Hcv. right. apply (Hcovered k t Hcv).
  - unfold s'. sim. intros pts H. congruence.
  - intros k t H. change (hot (sv s')) with (hot (sv s)).
    destruct (Hg k t H) as [Hcv|[Hcv Hn]]; [right; apply (Hcovered k t Hcv)|].
    destruct (n_hot k t Hn) as [X|X]; [|right; assumption]. destruct (Hmb k t X) as [Y|Y]; [left; assumption|congruence].
  - intros k t H. change (snap (sv s')) with (snap (sv s)).
    destruct (Hg k t H) as [Hcv|[Hcv Hn]]; [right; apply (Hcovered k t Hcv)|].
    destruct (n_snap k t Hn) as [X|X]; [|right; assumption]. destruct (Hmb k t X) as [Y|Y]; [left; assumption|congruence].
  - unfold s'. sim. intros ss0 lo0 hi0 dk0 [H|H]; discriminate.
  - unfold s'. sim. intros ss0 lo0 hi0 todo H. discriminate.
Qed.
