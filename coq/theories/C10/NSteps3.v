(* C10/NSteps3.v — absence half preserved: snapshot install, WAL removal, compaction replace. *)
From Verif Require Import Shard.Engine C01.Kv C01.Facts C01.Dinv C01.Inv C01.Steps1 C01.Steps2 C01.Steps3 C01.Steps4 C10.Ninv C10.NSteps1 C10.NSteps2.
From Coq Require Import ZifyBool ZifyN ZifyNat.
Open Scope Z_scope.
Local Arguments exclude_range : simpl never.
Local Arguments key_eqb : simpl never.

(* ---------- SnapRename ---------- *)

Lemma ninv_snaprename s f :
  Inv s -> NInv s -> ph (sv s) = Up -> pend (sv s) = PNone -> sstage (sv s) = SWritten f ->
  fits_between (files (sd s)) f [] = true ->
  delete_hits_snapshot (do_step repaired s SnapRename) = false ->
  NInv (do_step repaired s SnapRename).
Proof.
  intros I N Hup Hp Hst Hfit Hcl. pose proof (i_up _ I Hup) as V. destruct (u_split _ V) as [Wsn [Wh Sp]].
  unfold do_step in *. rewrite Hst in *. rewrite (insert_file_end _ _ Hfit) in *.
  assert (Hf : forall k t, fpt f k t = cpt (snap (sv s)) k t) by (apply (u_sw _ V f Hst)).
  apply (ninv_files s); sim; auto.
  - (* where the history says "absent", the snapshot holds nothing *)
    intros k t Hg. destruct (n_snap _ N k t Hg) as [X|X]; [left; assumption|right; left].
    rewrite fview_app, fview_single, Hf, X. reflexivity.
  - intros ss lo hi dk Hd k t Hcv. destruct (n_del3 _ N ss lo hi dk Hd k t Hcv) as [R1 [R2 R3]].
    apply rview_none in R1. rewrite fview_app, fview_single, Hf, R3. cbn [oplus]. tauto.
  - intros ss lo hi todo Hd g Hin. apply in_app_or in Hin. destruct Hin as [Hin|[<-|[]]].
    + apply (n_del4 _ N ss lo hi todo Hd g Hin).
    + (* the new file: by cleanliness the snapshot holds no covered point *)
      right. intros k t Hcv. rewrite Hf.
      assert (Hnc : sstage (sv s) <> SCleared) by congruence.
      rewrite (kv_equiv_cpt _ _ k t (sp_snap _ _ _ Sp Hnc)).
      unfold delete_hits_snapshot in Hcl. sim. rewrite Hd in Hcl.
      assert (Hsc : snap_content (set_tmps (remove_file (fid f) (tmps (sd s))) (set_files (files (sd s) ++ [f]) (upd (v_sstage SRenamed) s))) = replay (wal_entries Wsn) []).
      { rewrite <- (snap_content_split s Wsn Wh Sp). reflexivity. }
      rewrite Hsc in Hcl. apply (kvs_hit_none _ _ _ _ Hcl). assumption.
  - rewrite <- (app_nil_r (files (sd s) ++ [f])). rewrite <- app_assoc. apply nodup_insert.
    + rewrite app_nil_r. apply (n_nodup _ N).
    + apply fits_between_notin. assumption.
Qed.

(* ---------- SnapRemoveWAL ---------- *)

Lemma ninv_snapremovewal s :
  Inv s -> NInv s -> ph (sv s) = Up -> pend (sv s) = PNone ->
  match snap_segs (sv s), wal (sd s) with
  | [], _ => true
  | id :: _, sg :: r => N.eqb (sg_id sg) id && negb (existsb (N.eqb id) (seg_ids r))
  | _ :: _, [] => false
  end = true ->
  delete_hits_snapshot (do_step repaired s SnapRemoveWAL) = false ->
  NInv (do_step repaired s SnapRemoveWAL).
Proof.
  intros I N Hup Hp Hg Hcl. unfold do_step in *.
  destruct (snap_segs (sv s)) as [|id rest] eqn:Esegs.
  - apply (ninv_frame s); auto.
  - destruct (wal (sd s)) as [|sg r] eqn:Ewal; [discriminate|].
    apply andb_true_iff in Hg. destruct Hg as [Hid Hnd]. apply N.eqb_eq in Hid. subst id.
    rewrite (remove_seg_head _ _ Hnd) in *.
    assert (HE : E s = good_prefix (sg_items sg) ++ wal_entries r).
    { unfold E. rewrite Ewal. reflexivity. }
    match goal with |- NInv ?st => set (s' := st) in * end.
    assert (HE' : E s' = wal_entries r) by reflexivity.
    assert (Hmb : forall k t, mb_now s k t = mb_now s' k t) by (apply mb_now_eq; reflexivity).
    assert (Heff : eff_now s' = eff_now s) by (apply eff_now_eq; reflexivity).
    destruct N. constructor; rewrite ?HE', ?Heff; auto.
    + apply (Ndur_mb _ _ _ (mb_now s)); [intros k t H; rewrite <- Hmb; exact H|].
      apply (Ndur_remove_prefix (good_prefix (sg_items sg))). rewrite <- HE. assumption.
    + unfold s'. sim. intros pts H. congruence.
    + unfold s'. sim. intros ss lo hi dk Hst k t Hcv. destruct (n_del3 ss lo hi dk Hst k t Hcv) as [R1 [R2 R3]].
      split; [|auto]. apply (rview_remove_prefix_none (good_prefix (sg_items sg))). rewrite <- HE. assumption.
Qed.

(* ---------- ReplaceRename / ReplaceRemove ---------- *)

Lemma nodup_remove_nth {A} (l : list A) i : NoDup l -> NoDup (remove_nth i l).
Proof.
  revert i; induction l as [|x r IH]; intros i Hn; [destruct i; constructor|].
  inversion Hn as [|? ? Hx Hr]; subst. destruct i as [|i]; cbn [remove_nth]; [assumption|].
  constructor; [|apply IH; assumption].
  intros Hin. apply Hx. clear -Hin. revert i Hin. induction r as [|y r IH2]; intros i Hin; [destruct i; destruct Hin|].
  destruct i as [|i]; cbn [remove_nth] in Hin; [right; assumption|].
  destruct Hin as [<-|Hin]; [left; reflexivity|right; apply (IH2 i); assumption].
Qed.

Lemma map_remove_nth {A B} (g : A -> B) l i : map g (remove_nth i l) = remove_nth i (map g l).
Proof. revert i; induction l as [|x r IH]; intros [|i]; cbn; auto. rewrite IH. reflexivity. Qed.

Lemma ninv_replacerename s i n out :
  Inv s -> NInv s -> ph (sv s) = Up -> pend (sv s) = PNone -> cstage (sv s) = CWritten i n out ->
  match out with
  | Some f => fits_between (firstn (i + n) (files (sd s))) f (skipn (i + n) (files (sd s)))
  | None => true
  end = true ->
  delete_hits_snapshot (do_step repaired s ReplaceRename) = false ->
  NInv (do_step repaired s ReplaceRename).
Proof.
  intros I N Hup Hp Hc Hfit Hcl. pose proof (i_up _ I Hup) as V.
  assert (Hdi : dstage (sv s) = DIdle) by (apply (u_c2 _ V); congruence).
  destruct (u_c1 _ V _ _ _ Hc) as [Hout Hlen].
  set (fs := files (sd s)) in *. set (grp := group_at i n fs) in *.
  assert (Hsplit : fs = firstn i fs ++ grp ++ skipn (i + n) fs).
  { rewrite app_assoc. unfold grp, group_at. rewrite <- firstn_add_split. symmetry. apply firstn_skipn. }
  assert (Hview : forall k t, ofpt out k t = fview grp k t) by (intros; subst out; apply compact_out_view).
  unfold do_step in *. rewrite Hc in *. fold fs in Hcl |- *. fold grp in Hcl |- *.
  destruct out as [f|].
  - assert (Hins : insert_file f fs = firstn i fs ++ grp ++ [f] ++ skipn (i + n) fs).
    { rewrite <- (firstn_skipn (i + n) fs) at 1. rewrite (insert_file_pos _ _ _ Hfit).
      rewrite firstn_add_split. fold grp. rewrite <- !app_assoc. reflexivity. }
    assert (Hfv : forall k t, fview (insert_file f fs) k t = fview fs k t).
    { intros k t. rewrite Hins.
      assert (R : fview fs k t = fview (firstn i fs ++ grp ++ skipn (i + n) fs) k t) by (rewrite <- Hsplit; reflexivity).
      rewrite R. rewrite !fview_app, fview_single. cbn [ofpt] in Hview. rewrite Hview.
      rewrite <- (oplus_assoc (fview (skipn (i + n) fs) k t)). rewrite oplus_idem. reflexivity. }
    apply (ninv_files s); sim; auto.
    + intros ss lo hi dk [H|H]; congruence.
    + intros ss lo hi todo H. congruence.
    + rewrite <- (firstn_skipn (i + n) fs) at 1. rewrite (insert_file_pos _ _ _ Hfit). apply nodup_insert.
      * rewrite firstn_skipn. apply (n_nodup _ N).
      * apply fits_between_notin. assumption.
  - apply (ninv_frame s); auto.
Qed.

Lemma ninv_replaceremove s i olds :
  Inv s -> NInv s -> ph (sv s) = Up -> pend (sv s) = PNone -> cstage (sv s) = CReplacing i olds ->
  match olds with
  | id :: _ => match nth_error (files (sd s)) i with Some f => fid_eqb (fid f) id | None => false end
  | [] => true
  end = true ->
  delete_hits_snapshot (do_step repaired s ReplaceRemove) = false ->
  NInv (do_step repaired s ReplaceRemove).
Proof.
  intros I N Hup Hp Hc Hg Hcl. pose proof (i_up _ I Hup) as V.
  assert (Hdi : dstage (sv s) = DIdle) by (apply (u_c2 _ V); congruence).
  destruct (u_c3 _ V _ _ Hc) as [pre [grp [o [post [Hfs [Hlen [Hids Hdom]]]]]]].
  unfold do_step in *. rewrite Hc in *. destruct olds as [|id r].
  - apply (ninv_frame s); auto.
  - destruct grp as [|x grp']; [discriminate|].
    assert (Hrm : remove_nth i (files (sd s)) = pre ++ grp' ++ o ++ post).
    { rewrite Hfs. subst i. cbn [app]. apply remove_nth_split. }
    assert (Hfv : forall k t, fview (remove_nth i (files (sd s))) k t = fview (files (sd s)) k t).
    { intros k t. rewrite Hrm, Hfs. rewrite !fview_app. f_equal.
      destruct (fview o k t) eqn:Eo; [destruct (fview post k t); reflexivity|].
      destruct (fview post k t); [reflexivity|]. cbn [oplus].
      specialize (Hdom k t Eo). rewrite fview_cons in Hdom.
      destruct (fview grp' k t) eqn:Eg; [discriminate|]. cbn [oplus] in Hdom. rewrite fview_cons, Eg. cbn [oplus].
      rewrite Hdom. reflexivity. }
    apply (ninv_files s); sim; auto.
    + intros ss lo hi dk [H|H]; congruence.
    + intros ss lo hi todo H. congruence.
    + rewrite map_remove_nth. apply nodup_remove_nth. apply (n_nodup _ N).
Qed.
