(* C10/Props.v — property theorems of C10 (deletes remove exactly the targeted data, permanently).
   Same engine step machine as C01: [run repaired h init] ranges over every list of steps.
   [run_clean repaired h init = true] excludes exactly one history shape: a delete of (series, range)
   executing (from DeleteBegin until its cache step) while an in-flight cache snapshot — begun,
   written, installed but with its WAL segments not yet removed, or retained after a failed
   flush — holds a point of a selected series inside the range.  That shape was a genuine defect
   of the pinned code ([delete_permanent_refuted]); the repaired code excludes it with
   Engine.snapshotMu: a delete and a cache snapshot never overlap ([run_mu], the step-level form
   of the mutex), and [mutex_makes_histories_clean] shows that every history respecting the mutex
   is clean, so [delete_permanent] and [delete_exact_mutex] hold without any exclusion. *)
From Verif Require Import Shard.Engine C01.Kv C01.Facts C01.Dinv C01.Inv C01.Spec C01.Proofs C01.Link C10.Ninv C10.Proofs C10.Mu.
From Verif Require Import C10.Guard C10.GuardProofs C10.Epoch C10.EpochInv C10.EpochInvD C10.EpochProofs.
Open Scope Z_scope.

(* A completed delete removes exactly the points of the selected series inside the inclusive
   range and leaves everything else unchanged: for every (clean) history [h], every step sequence
   [D] that takes the engine from an idle state to an idle state and acknowledges exactly that
   delete — its own steps in any order of files, interleaved with any background snapshot
   steps — and every key and time. *)
Theorem delete_exact :
  forall (h D : list step) (ss : list key) (lo hi : Z),
  run_clean repaired (h ++ D) init = true ->
  let s := run repaired h init in
  let s' := run repaired D s in
  ph (sv s) = Up -> pend (sv s) = PNone -> dstage (sv s) = DIdle ->
  ph (sv s') = Up -> pend (sv s') = PNone -> dstage (sv s') = DIdle ->
  g_hist s' = g_hist s ++ [(KAck, GDelete ss lo hi)] ->
  forall k t, maybe_deleted s k t = false ->
  live s' k t = if sel ss k && in_rng lo hi t then None else live s k t.
Proof. exact delete_exact_lemma. Qed.
Print Assumptions delete_exact.

(* Permanence (partial: clean histories).  Whatever follows — snapshots incl. failed and retried
   ones, compactions of any adjacent group, crashes at any step inside or after the delete with
   any cut of the WAL tail, any number of restarts, later writes — whenever the engine is up and
   idle, every read shows at every (key, time) exactly the last-write-wins value of the effective
   history: deleted points stay absent, later writes are kept.  (Points inside a delete that a
   crash cut short, never acknowledged, are exempt.) *)
Theorem delete_permanent_partial :
  forall (h : list step),
  run_clean repaired h init = true ->
  let s := run repaired h init in
  ph (sv s) = Up -> pend (sv s) = PNone -> dstage (sv s) = DIdle ->
  forall k t, maybe_deleted s k t = true \/ lookup_last t (eng_read_all s k) = glww (effective s) k t.
Proof. exact reads_refine_lemma. Qed.
Print Assumptions delete_permanent_partial.

(* Engine.snapshotMu (held by WriteSnapshot from Cache.Snapshot until the snapshot's WAL
   segments are removed, and by deleteSeriesRange from its first to its last statement, after
   writing out a snapshot retained by a failed flush) turns into: DeleteBegin only when no
   snapshot is in flight or retained, SnapBegin only when no delete is running.  Every history
   whose steps respect that is clean — for ANY length and interleaving of the other steps. *)
Theorem mutex_makes_histories_clean :
  forall (h : list step), run_mu repaired h init = true -> run_clean repaired h init = true.
Proof. exact (mu_clean_init repaired). Qed.
Print Assumptions mutex_makes_histories_clean.

(* Permanence, full statement for the code as repaired. *)
Theorem delete_permanent :
  forall (h : list step),
  run_mu repaired h init = true ->
  let s := run repaired h init in
  ph (sv s) = Up -> pend (sv s) = PNone -> dstage (sv s) = DIdle ->
  forall k t, maybe_deleted s k t = true \/ lookup_last t (eng_read_all s k) = glww (effective s) k t.
Proof. intros h Hmu. apply reads_refine_lemma. apply mu_clean_init. exact Hmu. Qed.
Print Assumptions delete_permanent.

Theorem delete_exact_mutex :
  forall (h D : list step) (ss : list key) (lo hi : Z),
  run_mu repaired (h ++ D) init = true ->
  let s := run repaired h init in
  let s' := run repaired D s in
  ph (sv s) = Up -> pend (sv s) = PNone -> dstage (sv s) = DIdle ->
  ph (sv s') = Up -> pend (sv s') = PNone -> dstage (sv s') = DIdle ->
  g_hist s' = g_hist s ++ [(KAck, GDelete ss lo hi)] ->
  forall k t, maybe_deleted s k t = false ->
  live s' k t = if sel ss k && in_rng lo hi t then None else live s k t.
Proof. intros h D ss lo hi Hmu. apply delete_exact_lemma. apply mu_clean_init. exact Hmu. Qed.
Print Assumptions delete_exact_mutex.

(* ... and in the form of Shard/Spec.v: reads of any range equal [spec_read] of the acknowledged history *)
Theorem reads_equal_spec :
  forall (h : list step) (U : list key) (k : key) (lo hi : Z),
  run_clean repaired h init = true ->
  let s := run repaired h init in
  ph (sv s) = Up -> pend (sv s) = PNone -> dstage (sv s) = DIdle ->
  (forall e, In e (g_hist s) -> fst e = KAck) -> In k U ->
  eng_read s k lo hi true = spec_read (map (conc U) (acked s)) k lo hi true.
Proof. exact reads_equal_spec_lemma. Qed.
Print Assumptions reads_equal_spec.

(* the link: the model's own observation passes the executable check applied to the implementation *)
Theorem model_meets_exec_spec :
  forall (h : list step) (U : list key) (k : key),
  run_clean repaired h init = true ->
  let s := run repaired h init in
  ph (sv s) = Up -> pend (sv s) = PNone -> dstage (sv s) = DIdle ->
  (forall e, In e (g_hist s) -> fst e = KAck) -> In k U ->
  read_ok (map HAck (map (conc U) (acked s))) k (eng_read s k min_time max_time true) = true.
Proof. exact model_meets_spec_lemma. Qed.
Print Assumptions model_meets_exec_spec.

(* Why the mutex is needed: the excluded shape refutes permanence when steps may interleave
   freely — Write; SnapBegin; SnapWriteTmp; Delete; SnapRename ... ; crash; recovery: the deleted
   point is read back, for good.  The witness does not respect the mutex ([run_mu] = false).
   (Corpus entry; on the real store the harness issues the delete from a second goroutine at the
   verifPoint inside WriteSnapshot and observes that it is held back until the snapshot is
   committed; a delete that completes inside the in-flight snapshot is reported.) *)
Theorem delete_permanent_refuted :
  (exists h k t, resurrects repaired h k t = true /\ run_clean repaired h init = false) /\
  resurrects repaired witness_inflight wk 1 = true.
Proof.
  split; [exists witness_inflight, wk, 1; exact inflight_resurrects|]. exact (proj1 inflight_resurrects).
Qed.
Print Assumptions delete_permanent_refuted.

Example witness_breaks_mutex : run_mu repaired witness_inflight init = false.
Proof. vm_compute. reflexivity. Qed.

(* Tombstones are replayed independently: what a file shows for a key at a time is its stored
   value unless SOME tombstone (key', lo, hi) of the file has key' = key and lo <= t <= hi —
   each tombstone hides exactly its own key over its own range, whatever other tombstones
   precede or follow it (no batching of keys across ranges); and recovery re-reads the tombstone
   lists as they are: the four recovery steps leave every file, data and tombstones, unchanged. *)
Theorem tombstones_replay_independent :
  forall (f : tsmfile) (k : key) (t : Z),
  lookup_last t (file_values f k) =
  if existsb (fun tb => key_eqb (fst tb) k && in_rng (fst (snd tb)) (snd (snd tb)) t) (f_tombs f)
  then None else lookup_last t (kv_get k (f_data f)).
Proof. exact fpt_tombs. Qed.
Print Assumptions tombstones_replay_independent.

Theorem recovery_keeps_files_and_tombstones :
  forall (s : state) (x : step), In x open_steps -> files (sd (step_fn repaired s x)) = files (sd s).
Proof.
  intros s x Hx. unfold step_fn. destruct (step_ok s x); [|reflexivity].
  cbn in Hx. destruct Hx as [<-|[<-|[<-|[<-|[]]]]]; unfold do_step; try reflexivity.
  destruct (rev (wal (sd s))) as [|sg r]; [reflexivity|]. destruct (is_nil (sg_items sg)); reflexivity.
Qed.
Print Assumptions recovery_keeps_files_and_tombstones.

(* Listings.  After every recovery the shard lists a series iff a key of it is left in some
   file's index or in the cache ... *)
Theorem listing_after_recovery :
  forall (fs : list tsmfile) (h : kvs) (sr : key),
  kmem sr (rebuild_listed fs h) =
  existsb (fun f => existsb (fun k => key_eqb sr (series_of k) && file_has_key f k) (kv_keys (f_data f))) fs
  || existsb (fun k => key_eqb sr (series_of k)) (kv_keys h).
Proof. exact rebuild_listed_spec. Qed.
Print Assumptions listing_after_recovery.

(* ... but "left in a file's index" is weaker than "has points": indirectIndex.DeleteRange drops
   a key only when its tombstones form one gap-free chain over its block time range.  Two
   single-instant deletes that together remove every point of a series leave it listed, also
   after a restart (until a compaction rewrites the file): listing_iff_has_points is refuted
   on a clean history. *)
Theorem listing_iff_has_points_refuted :
  exists h sr k, let s := run repaired h init in
    run_ok repaired h init = true /\ run_clean repaired h init = true /\
    series_of k = sr /\ eng_read_all s k = [] /\ kmem sr (listed (sv s)) = true.
Proof.
  exists witness_piecewise, sk, wk. cbv zeta.
  destruct piecewise_listed_without_points as (H1 & H2 & H3 & H4). repeat split; try assumption.
Qed.
Print Assumptions listing_iff_has_points_refuted.

(* non-vacuity: a clean history with a delete over cache + two files, a snapshot, a compaction,
   a crash and a later write; the delete's effect is exact and permanent *)
Definition nv10 : list step :=
  open_steps ++
  [w1 1 10; WalSync; SnapBegin; SnapWriteTmp; SnapRename; SnapClear; SnapRemoveWAL; SnapRemoveWAL;
   w1 2 20; WalSync; SnapBegin; SnapWriteTmp; SnapRename; SnapClear; SnapRemoveWAL; SnapRemoveWAL;
   w1 3 30; WalSync].
Definition nv10_del : list step :=
  [DeleteBegin [sk] 2 3; DeleteTombstone 1; DeleteTombstone 0; DeleteCache; WalSync; DeleteIndex].
Definition nv10_rest : list step :=
  [SnapBegin; CompactWriteTmp 0 2; ReplaceRename; ReplaceRemove; ReplaceRemove; ReplaceRemove;
   w1 3 31; WalSync; Crash 0 0] ++ open_steps.

Example delete_nonvacuous :
  let s := run repaired nv10 init in
  let s' := run repaired nv10_del s in
  let s'' := run repaired nv10_rest s' in
  run_ok repaired (nv10 ++ nv10_del ++ nv10_rest) init = true /\
  run_clean repaired (nv10 ++ nv10_del ++ nv10_rest) init = true /\
  run_mu repaired (nv10 ++ nv10_del ++ nv10_rest) init = true /\
  g_hist s' = g_hist s ++ [(KAck, GDelete [sk] 2 3)] /\
  eng_read_all s wk = [(1, VInt 10); (2, VInt 20); (3, VInt 30)] /\
  eng_read_all s' wk = [(1, VInt 10)] /\
  eng_read_all s'' wk = [(1, VInt 10); (3, VInt 31)] /\ ph (sv s'') = Up.
Proof. vm_compute. repeat split; reflexivity. Qed.

(* ====================================================================================
   Delete guards and the epoch tracker (tsdb/guard.go, tsdb/epoch_tracker.go, and the
   protocol of Store.WriteToShard / DeleteSeries / DeleteMeasurement).  C10/Guard.v,
   C10/Epoch.v.  A delete must not run together with a write to data it selects: a write that
   started earlier is waited for (epoch tracker), a write that starts meanwhile waits for the
   delete iff the delete's guard matches one of its points — so the guard has to match every
   point the delete selects.
   ==================================================================================== *)

(* The guard over-approximates the delete's selection: for every regex oracle, every condition
   of the AST (any nesting of AND / OR / parentheses / boolean literals / comparisons of every
   operand shape, and no condition at all), every list of measurement names, all bounds, every
   well-formed point (no empty tag value: models.Tags of a real point has none) at any position
   of any batch: if Store.DeleteSeries would delete the point ([gselects]: the measurement is
   one of the names, min <= t <= max, and the index yields the series without a filter
   expression), then guard.Matches of the guard the delete installs answers true.
   Code as repaired (commit "fix: the delete guard did not cover ..."). *)
Theorem guard_sound :
  forall (re_match : N -> str -> bool) (e : option gexpr) (names : list str) (min max : Z)
         (pt : gpoint) (pre post : list gpoint),
  wf_point pt = true ->
  gselects re_match e names min max pt = true ->
  guard_matches true (new_guard re_match true min max names e) (pre ++ pt :: post) = true.
Proof. exact guard_sound_lemma. Qed.
Print Assumptions guard_sound.

(* The pinned guard.go was not sound: `host != 'a'` selects the series cpu (no host tag: the
   index reads a missing tag as the empty value) and the guard, which only looks at tags the
   point has, does not match it.  (Corpus entries; confirmed on the real Store.DeleteSeries with
   both index types: the delete removed the point, the guard answered false.) *)
Theorem old_guard_sound_refuted :
  exists (re_match : N -> str -> bool) (e : option gexpr) (names : list str) (min max : Z) (pt : gpoint),
    wf_point pt = true /\ gselects re_match e names min max pt = true /\
    guard_matches false (new_guard re_match false min max names e) [pt] = false.
Proof. exact old_guard_sound_refuted_lemma. Qed.
Print Assumptions old_guard_sound_refuted.

(* ... in each of these shapes: tag != 'v', tag = '', a regex the empty string matches, !~ with a
   regex the empty string does not match, _name =~ re, and the first one again under AND / OR /
   parentheses / boolean literals with the key on the right *)
Example old_guard_unsound_shapes :
  forallb (fun e => old_unsound e wit_pt) wit_exprs = true /\
  forallb (fun e => guard_matches true (new_guard wit_re true 10 10 [s_cpu] (Some e)) [wit_pt]) wit_exprs = true.
Proof. split; [exact old_guard_unsound_all|exact new_guard_covers_witnesses]. Qed.

(* The repair only widens the guard: whatever the pinned guard matched is still matched. *)
Theorem guard_fix_only_widens :
  forall (re_match : N -> str -> bool) (e : option gexpr) (names : list str) (min max : Z) (pts : list gpoint),
  guard_matches false (new_guard re_match false min max names e) pts = true ->
  guard_matches true (new_guard re_match true min max names e) pts = true.
Proof. exact fix_only_widens_lemma. Qed.
Print Assumptions guard_fix_only_widens.

(* Inclusive bounds: a point at exactly min or exactly max that is otherwise selected is matched. *)
Theorem guard_time_inclusive :
  forall (re_match : N -> str -> bool) (e : option gexpr) (names : list str) (min max : Z) (pt : gpoint),
  wf_point pt = true -> min <= max ->
  gp_time pt = min \/ gp_time pt = max ->
  existsb (str_eqb (gp_name pt)) names = true ->
  is_plain (sel_expr_opt re_match e pt) = true ->
  guard_matches true (new_guard re_match true min max names e) [pt] = true.
Proof. exact guard_time_inclusive_lemma. Qed.
Print Assumptions guard_time_inclusive.

(* ... and the guard is not "match everything": outside the time range, or outside a non-empty
   list of names, it answers false (either rule) *)
Theorem guard_skips_outside :
  forall (fixed : bool) (g : guard) (pt : gpoint),
  gp_time pt < g_min g \/ gp_time pt > g_max g \/
  (g_names g <> [] /\ existsb (str_eqb (gp_name pt)) (g_names g) = false) ->
  guard_matches fixed g [pt] = false.
Proof. exact guard_skips_outside_lemma. Qed.
Print Assumptions guard_skips_outside.

(* The reduce / short-circuit rules of newExprGuard keep the meaning: the guard of l AND r
   matches iff both guards match, the guard of l OR r iff one does (either rule, any regex oracle) *)
Theorem guard_and_or_compositional :
  forall (re_match : N -> str -> bool) (fixed : bool) (l r : gexpr) (pt : gpoint),
  eguard_matches_opt fixed (new_expr_guard re_match fixed (EAnd l r)) pt =
    eguard_matches_opt fixed (new_expr_guard re_match fixed l) pt && eguard_matches_opt fixed (new_expr_guard re_match fixed r) pt
  /\
  eguard_matches_opt fixed (new_expr_guard re_match fixed (EOr l r)) pt =
    eguard_matches_opt fixed (new_expr_guard re_match fixed l) pt || eguard_matches_opt fixed (new_expr_guard re_match fixed r) pt.
Proof. intros. split; [apply guard_and_sem|apply guard_or_sem]. Qed.
Print Assumptions guard_and_or_compositional.

(* the link for kind guard: the model's answers pass the executable spec of C10/Run.v *)
Theorem guard_model_meets_exec_spec :
  forall (re_match : N -> str -> bool) (e : option gexpr) (names : list str) (min max : Z) (pts : list gpoint),
  forallb (fun pt => implb (wf_point pt && gselects re_match e names min max pt)
                           (guard_matches true (new_guard re_match true min max names e) [pt])) pts = true.
Proof. exact guard_spec_link. Qed.
Print Assumptions guard_model_meets_exec_spec.

(* non-vacuity: host != 'a' OR b::tag =~ /a/ selects cpu (no tags) at the bounds and not outside;
   the guard matches it at the bounds, and does not match cpu,host=a *)
Example guard_nonvacuous :
  let e := Some (EOr (EBin BNeq (OVar s_host TUnknown) (OStr s_a)) (EBin BEqRegex (OVar s_b TTag) (ORegex 1))) in
  let at_ t := {| gp_name := s_cpu; gp_tags := []; gp_time := t |} in
  let ha := {| gp_name := s_cpu; gp_tags := [(s_host, s_a)]; gp_time := 10 |} in
  map (fun t => gselects wit_re e [s_cpu] 10 20 (at_ t)) [9; 10; 20; 21] = [false; true; true; false] /\
  map (fun t => guard_matches true (new_guard wit_re true 10 20 [s_cpu] e) [at_ t]) [9; 10; 20; 21] = [false; true; true; false] /\
  gselects wit_re e [s_cpu] 10 20 ha = false /\
  guard_matches true (new_guard wit_re true 10 20 [s_cpu] e) [ha] = false /\
  guard_matches true (new_guard wit_re true 10 20 [s_cpu] e) [ha; at_ 9; at_ 20] = true.
Proof. vm_compute. repeat split; reflexivity. Qed.

(* Mutual exclusion.  For every number of writers and deleters, every relation "guard j matches
   the points of writer i", every schedule (any interleaving of thread steps, any order in which a
   writer receives the pending guards): in every reachable state, a deleter in its critical
   section (between Wait and Done: the engine delete) and a writer in its critical section
   (after all guards, before EndWrite: WritePoints) are never together if the deleter's guard
   matches the writer's points. *)
Theorem epoch_mutual_exclusion :
  forall (mt : nat -> nat -> bool) (nw nd : nat) (sched : list act),
  let s := ep_run mt sched (ep_init nw nd) in
  forall (i j : nat) (g gj : N),
  nth_error (gs_ws s) i = Some (WChk g []) -> nth_error (gs_ds s) j = Some (DlCrit gj) ->
  mt j i = false.
Proof. exact epoch_mutual_exclusion_lemma. Qed.
Print Assumptions epoch_mutual_exclusion.

(* The bookkeeping is exact.  In every reachable state: [writes] is the number of writes in
   flight; every deleter that is waiting or running has its entry in [deletes], whose pending
   count IS the number of writes that started before its WaitDelete (smaller generation) and
   have not ended — never negative, never stuck above 0 once those writes have ended; so its
   Wait returns exactly when that number is 0. *)
Theorem epoch_wait_counts :
  forall (mt : nat -> nat -> bool) (nw nd : nat) (sched : list act),
  let s := ep_run mt sched (ep_init nw nd) in
  t_writes (gs_tr s) = count w_active (gs_ws s) /\
  forall (j : nat) (x : dst) (g : N), nth_error (gs_ds s) j = Some x -> d_gen_of x = Some g ->
  exists d, find_delete g (gs_tr s) = Some d /\ d_guard d = j /\
            d_pending d = count (w_active_lt g) (gs_ws s) /\ 0 <= d_pending d /\
            wait_returns g (gs_tr s) = (count (w_active_lt g) (gs_ws s) =? 0).
Proof. exact epoch_wait_counts_lemma. Qed.
Print Assumptions epoch_wait_counts.

(* No deadlock: in every reachable state with an unfinished thread some thread can take a step
   (a wait only ever points to a thread with a strictly smaller generation). *)
Theorem epoch_no_deadlock :
  forall (mt : nat -> nat -> bool) (nw nd : nat) (sched : list act),
  let s := ep_run mt sched (ep_init nw nd) in
  unfinished s = true -> exists a s', ep_step mt s a = Some s'.
Proof. exact epoch_no_deadlock_lemma. Qed.
Print Assumptions epoch_no_deadlock.

(* the link for kind epoch: every reachable state passes the executable checks that C10/Run.v
   applies to the states observed on the real tracker *)
Theorem epoch_model_meets_exec_spec :
  forall (mt : nat -> nat -> bool) (nw nd : nat) (sched : list act),
  state_ok mt (ep_run mt sched (ep_init nw nd)) = true.
Proof. exact epoch_state_ok_lemma. Qed.
Print Assumptions epoch_model_meets_exec_spec.

(* non-vacuity: two writers and two deleters block each other (a delete waits for the write in
   flight, the matching write waits for the delete, the second delete for that write) and all
   four run to completion *)
Example epoch_nonvacuous :
  let s := ep_run nv_mt nv_sched (ep_init 2 2) in
  unfinished s = false /\ gs_ws s = [WDone; WDone] /\ gs_ds s = [DlDone; DlDone] /\
  t_writes (gs_tr s) = 0 /\ t_deletes (gs_tr s) = [] /\ t_epoch (gs_tr s) = 4%N.
Proof. exact nv_runs. Qed.
