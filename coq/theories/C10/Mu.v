(* C10/Mu.v — Engine.snapshotMu (deletes and cache snapshots exclude each other) makes every
   history clean: the shape [run_clean] excludes cannot be produced by steps that respect the
   mutual exclusion [mu_ok]. *)
From Verif Require Import Shard.Engine C01.Inv.
Open Scope Z_scope.

(* the four components the argument is about *)
Definition mu4 (s : state) : del_stage * snap_stage * kvs * list N :=
  (dstage (sv s), sstage (sv s), snap (sv s), snap_segs (sv s)).

Definition stage_has_snap (s : state) : Prop :=
  match sstage (sv s) with SBegun | SWritten _ => snap (sv s) <> [] | _ => True end.

Record J (s : state) : Prop := {
  j_del : d_idle s = false -> snap_segs (sv s) = [] /\ snap_idle s = true /\ snap (sv s) = [];
  j_idle : snap_idle s = true -> snap (sv s) = [] -> snap_segs (sv s) = [];
  j_has : stage_has_snap s
}.

Lemma J_ext s s' : mu4 s' = mu4 s -> J s -> J s'.
Proof.
  unfold mu4. intros H [A B C]. inversion H as [[H1 H2 H3 H4]].
  constructor; unfold d_idle, snap_idle, stage_has_snap in *; rewrite ?H1, ?H2, ?H3, ?H4; assumption.
Qed.

Lemma mu4_new_segment s : mu4 (new_segment s) = mu4 s.
Proof. reflexivity. Qed.

Lemma mu4_append_entry e s : mu4 (append_entry e s) = mu4 s.
Proof. unfold append_entry. destruct (w_open (sv s)); reflexivity. Qed.

Lemma J_init : J init.
Proof. constructor; cbn; try discriminate; auto. Qed.

Lemma J_vol0 d g : J {| sd := d; sv := vol0; g_hist := g |}.
Proof. constructor; cbn; try discriminate; auto. Qed.

Lemma is_nil_true {A} (l : list A) : is_nil l = true -> l = [].
Proof. destruct l; [reflexivity|discriminate]. Qed.
Lemma is_nil_false {A} (l : list A) : is_nil l = false -> l <> [].
Proof. destruct l; [discriminate|intros _ H; discriminate]. Qed.

Lemma mu4_close s : mu4 (if negb (w_open (sv s)) || w_nonempty (sv s) then new_segment s else s) = mu4 s.
Proof. destruct (negb (w_open (sv s)) || w_nonempty (sv s)); reflexivity. Qed.

Ltac jfin :=
  constructor; unfold d_idle, snap_idle, stage_has_snap, mu4 in *; sim;
  repeat match goal with H : (_, _, _, _) = (_, _, _, _) |- _ => inversion H; clear H end;
  repeat match goal with H : ?a = _ |- context [?a] => rewrite H end;
  intuition (try discriminate; try congruence).

Lemma J_step c s x : J s -> mu_ok s x = true -> J (step_fn c s x).
Proof.
  intros Js Hmu. unfold step_fn. destruct (step_ok s x) eqn:Ok; [|assumption].
  unfold step_ok in Ok. apply andb_true_iff in Ok. destruct Ok as [_ Ok].
  assert (Keep : forall s', mu4 s' = mu4 s -> J s') by (intros s' H; apply (J_ext s); assumption).
  destruct x; unfold do_step; cbv zeta; cbn [step_ok0 mu_ok] in *.
  - (* Write *)
    apply Keep.
    match goal with |- mu4 (upd ?f (append_entry ?e ?s0)) = _ =>
      transitivity (mu4 (append_entry e s0)); [reflexivity|rewrite mu4_append_entry; reflexivity] end.
  - (* WalSync *)
    unfold sync_wal.
    destruct (pend (sv s)) eqn:Ep; try (apply Keep; reflexivity).
    destruct (dstage (sv s)) eqn:Ed; try (apply Keep; unfold mu4; sim; rewrite ?Ed; reflexivity).
    destruct Js as [A B C]. unfold d_idle, snap_idle, stage_has_snap in *. rewrite Ed in A.
    constructor; unfold d_idle, snap_idle, stage_has_snap; sim; auto.
  - (* RollSegment *)
    apply Keep. apply mu4_new_segment.
  - (* SnapBegin *)
    assert (Hd : d_idle s = true) by exact Hmu.
    pose proof (mu4_close s) as H1.
    remember (if negb (w_open (sv s)) || w_nonempty (sv s) then new_segment s else s) as s1 eqn:Hs1.
    assert (E5 : hot (sv s1) = hot (sv s)) by (subst s1; destruct (negb (w_open (sv s)) || w_nonempty (sv s)); reflexivity).
    clear Hs1. unfold mu4 in H1. inversion H1 as [[E1 E2 E3 E4]]. clear H1.
    assert (Hd1 : d_idle s1 = true) by (unfold d_idle in *; rewrite E1; exact Hd).
    match goal with |- J (if ?b then _ else _) => destruct b eqn:En end;
      [match goal with |- J (if ?b then _ else _) => destruct b eqn:Eh end|].
    + destruct Js as [A B C]. unfold d_idle, snap_idle, stage_has_snap in *.
      constructor; unfold d_idle, snap_idle, stage_has_snap; sim; rewrite ?E1, ?E2, ?E3; auto.
      intros X. first [rewrite Hd in X|rewrite Hd1 in X]. discriminate.
    + unfold d_idle in *. constructor; unfold d_idle, snap_idle, stage_has_snap; sim.
      * intros X. rewrite Hd1 in X. discriminate.
      * discriminate.
      * rewrite E5. apply is_nil_false. exact Eh.
    + unfold d_idle in *. constructor; unfold d_idle, snap_idle, stage_has_snap; sim.
      * intros X. rewrite Hd1 in X. discriminate.
      * discriminate.
      * rewrite ?E3. apply is_nil_false. rewrite <- ?E3. exact En.
  - (* SnapWriteTmp *)
    apply andb_true_iff in Ok. destruct Ok as [_ Ok].
    destruct (sstage (sv s)) eqn:Es; try discriminate.
    destruct Js as [A B C]. unfold d_idle, snap_idle, stage_has_snap in *. rewrite Es in *.
    constructor; unfold d_idle, snap_idle, stage_has_snap; sim.
    + intros X. destruct (A X) as [_ [Y _]]. discriminate.
    + discriminate.
    + exact C.
  - (* SnapFail *)
    apply andb_true_iff in Ok. destruct Ok as [_ Ok].
    destruct Js as [A B C]. unfold d_idle, snap_idle, stage_has_snap in *.
    constructor; unfold d_idle, snap_idle, stage_has_snap; sim.
    + intros X. destruct (A X) as [_ [Y _]]. destruct (sstage (sv s)); discriminate.
    + intros _ X. destruct (sstage (sv s)); try discriminate; contradiction.
    + exact I.
  - (* SnapRename *)
    apply andb_true_iff in Ok. destruct Ok as [_ Ok].
    destruct (sstage (sv s)) eqn:Es; try discriminate.
    destruct Js as [A B C]. unfold d_idle, snap_idle, stage_has_snap in *. rewrite Es in *.
    constructor; unfold d_idle, snap_idle, stage_has_snap; sim.
    + intros X. destruct (A X) as [_ [Y _]]. discriminate.
    + discriminate.
    + exact I.
  - (* SnapClear *)
    apply andb_true_iff in Ok. destruct Ok as [_ Ok].
    destruct (sstage (sv s)) eqn:Es; try discriminate.
    destruct Js as [A B C]. unfold d_idle, snap_idle, stage_has_snap in *. rewrite Es in *.
    constructor; unfold d_idle, snap_idle, stage_has_snap; sim.
    + intros X. destruct (A X) as [_ [Y _]]. discriminate.
    + discriminate.
    + exact I.
  - (* SnapRemoveWAL *)
    apply andb_true_iff in Ok. destruct Ok as [Ok _]. apply andb_true_iff in Ok. destruct Ok as [_ Ok].
    destruct (sstage (sv s)) eqn:Es; try discriminate.
    destruct Js as [A B C]. unfold d_idle, snap_idle, stage_has_snap in *. rewrite Es in *.
    destruct (snap_segs (sv s)) as [|id r] eqn:Eg.
    + constructor; unfold d_idle, snap_idle, stage_has_snap; sim; auto.
      intros X. destruct (A X) as [_ [Y _]]. discriminate.
    + constructor; unfold d_idle, snap_idle, stage_has_snap; sim; rewrite ?Es.
      * intros X. destruct (A X) as [Y _]. discriminate.
      * discriminate.
      * exact I.
  - (* CompactWriteTmp *)
    apply Keep. reflexivity.
  - apply Keep. reflexivity.
  - (* ReplaceRename *)
    destruct (cstage (sv s)) as [|i n out|]; try exact Js.
    destruct out; apply Keep; reflexivity.
  - (* ReplaceRemove *)
    destruct (cstage (sv s)) as [| |i [|id r]]; try exact Js; apply Keep; reflexivity.
  - (* DeleteBegin *)
    apply andb_true_iff in Hmu. destruct Hmu as [Hi Hn]. apply is_nil_true in Hn.
    destruct Js as [A B C]. pose proof (B Hi Hn) as Hg.
    destruct (existsb (file_overlaps lo hi) (files (sd s)) || negb (is_nil (hot (sv s)))).
    + unfold d_idle, snap_idle, stage_has_snap in *.
      constructor; unfold d_idle, snap_idle, stage_has_snap; sim; auto.
    + apply Keep. reflexivity.
  - (* DeleteTombstone *)
    destruct (dstage (sv s)) eqn:Ed; try exact Js.
    destruct (nth_error (files (sd s)) i); [|exact Js].
    destruct Js as [A B C]. unfold d_idle, snap_idle, stage_has_snap in *. rewrite Ed in *.
    constructor; unfold d_idle, snap_idle, stage_has_snap; sim; auto.
  - (* DeleteCache *)
    destruct (dstage (sv s)) eqn:Ed; try exact Js.
    destruct Js as [A B C]. unfold d_idle, snap_idle, stage_has_snap in *. rewrite Ed in *.
    match goal with |- J (if ?b then _ else _) => destruct b end.
    + constructor; unfold d_idle, snap_idle, stage_has_snap; sim; auto.
    + match goal with |- J (upd ?f (append_entry ?e ?s0)) =>
        pose proof (mu4_append_entry e s0) as H; remember (append_entry e s0) as s2 eqn:Hs2; clear Hs2 end.
      unfold mu4 in H. sim. inversion H as [[H1 H2 H3 H4]].
      constructor; unfold d_idle, snap_idle, stage_has_snap; sim; rewrite ?H2, ?H3, ?H4; auto.
  - (* DeleteIndex *)
    destruct (dstage (sv s)) eqn:Ed; try exact Js.
    destruct Js as [A B C]. unfold d_idle, snap_idle, stage_has_snap in *. rewrite Ed in *.
    constructor; unfold d_idle, snap_idle, stage_has_snap; sim; auto; intros X; discriminate.
  - (* Crash *)
    destruct (pend (sv s)); destruct (dstage (sv s));
      try destruct (existsb is_entry (firstn keep (pending_unsynced s)));
      (apply (J_ext {| sd := {| wal := update_last (cut_seg keep torn) (wal (sd s)); files := files (sd s); tmps := tmps (sd s) |}; sv := vol0; g_hist := g_hist s |});
           [reflexivity|apply J_vol0]).
  - (* OpenCleanup *)
    apply Keep. reflexivity.
  - (* OpenWAL *)
    destruct (rev (wal (sd s))) as [|sg r]; [apply Keep; reflexivity|].
    destruct (is_nil (sg_items sg)); apply Keep; reflexivity.
  - apply Keep. reflexivity.
  - apply Keep. reflexivity.
Qed.

Lemma snap_content_nil s : snap_segs (sv s) = [] -> snap_content s = [].
Proof. intros H. unfold snap_content. rewrite H. reflexivity. Qed.

Lemma J_not_hit s : J s -> delete_hits_snapshot s = false.
Proof.
  intros [A _ _]. unfold delete_hits_snapshot. destruct (dstage (sv s)) eqn:Ed; try reflexivity.
  assert (X : d_idle s = false) by (unfold d_idle; rewrite Ed; reflexivity).
  destruct (A X) as [Hg _]. rewrite (snap_content_nil _ Hg). unfold kvs_hit. reflexivity.
Qed.

Lemma mu_clean_step c s x : J s -> mu_ok s x = true -> clean_step c s x = true.
Proof.
  intros Js Hmu. unfold clean_step. apply andb_true_iff. split.
  - destruct x; try reflexivity. cbn [mu_ok] in Hmu. apply andb_true_iff in Hmu. destruct Hmu as [Hi Hn].
    apply is_nil_true in Hn. rewrite (snap_content_nil _ (j_idle _ Js Hi Hn)). reflexivity.
  - rewrite (J_not_hit _ (J_step c s x Js Hmu)). reflexivity.
Qed.

(* the mutual exclusion makes every history clean *)
Lemma mu_run_clean c h : forall s, J s -> run_mu c h s = true -> run_clean c h s = true.
Proof.
  induction h as [|x r IH]; intros s Js H; [reflexivity|].
  cbn [run_mu] in H. apply andb_true_iff in H. destruct H as [Hx Hr].
  cbn [run_clean]. rewrite (mu_clean_step c s x Js Hx). cbn [andb].
  apply IH; [apply J_step; assumption|exact Hr].
Qed.

Lemma mu_clean_init c h : run_mu c h init = true -> run_clean c h init = true.
Proof. apply mu_run_clean. apply J_init. Qed.
