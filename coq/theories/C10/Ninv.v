(* C10/Ninv.v — the "nothing comes back" half of the invariant: where the effective history
   says a point is absent (never written, or deleted), recovery and reads show nothing —
   for histories that avoid the excluded shape (a delete while an in-flight snapshot holds
   matching points).  Definitions and the pointwise lemmas. *)
From Verif Require Import Shard.Engine C01.Kv C01.Facts C01.Dinv C01.Inv.
From Coq Require Import ZifyBool ZifyN ZifyNat.
Open Scope Z_scope.
Local Arguments exclude_range : simpl never.
Local Arguments key_eqb : simpl never.

Definition covered (ss : list key) (lo hi : Z) (k : key) (t : Z) : bool := sel ss k && in_rng lo hi t.

Definition Ndur es fs (eff : list gop) (mb : key -> Z -> bool) : Prop :=
  forall k t, glww eff k t = None -> mb k t = true \/ rview es fs k t = None.

Record NInv (s : state) : Prop := {
  n_dur : Ndur (E s) (files (sd s)) (eff_now s) (mb_now s);
  n_pw : forall pts, pend (sv s) = PWrite pts ->
         exists es0, E s = es0 ++ [EWrite pts] /\ Ndur es0 (files (sd s)) (effective s) (mb_now s);
  n_hot : forall k t, glww (eff_now s) k t = None -> mb_now s k t = true \/ cpt (hot (sv s)) k t = None;
  n_snap : forall k t, glww (eff_now s) k t = None -> mb_now s k t = true \/ cpt (snap (sv s)) k t = None;
  (* cache and WAL part of a delete done: nothing of the covered points is left anywhere *)
  n_del3 : forall ss lo hi dk,
           (dstage (sv s) = DWal ss lo hi dk \/ dstage (sv s) = DIndexing ss lo hi dk) ->
           forall k t, covered ss lo hi k t = true ->
           rview (E s) (files (sd s)) k t = None /\ cpt (hot (sv s)) k t = None /\ cpt (snap (sv s)) k t = None;
  (* tombstone phase: every file is either still to do or shows nothing of the covered points *)
  n_del4 : forall ss lo hi todo, dstage (sv s) = DTomb ss lo hi todo ->
           forall f, In f (files (sd s)) ->
           existsb (fid_eqb (fid f)) todo = true \/ forall k t, covered ss lo hi k t = true -> fpt f k t = None;
  n_nodup : NoDup (map fid (files (sd s)));
  n_clean : delete_hits_snapshot s = false
}.

Lemma oplus_none a b : oplus a b = None <-> a = None /\ b = None.
Proof. destruct a, b; cbn; split; intros H; try (destruct H; discriminate); try discriminate; auto. Qed.

Lemma rview_none es fs k t : rview es fs k t = None <-> pfold (evs es k t) None = None /\ fview fs k t = None.
Proof. apply oplus_none. Qed.

(* ---------- Ndur under the changes a step can make ---------- *)

Lemma Ndur_write es fs eff mb pts : Ndur es fs eff mb -> Ndur (es ++ [EWrite pts]) fs (eff ++ [GWrite pts]) mb.
Proof.
  intros H k t Hg. rewrite glww_snoc in Hg. cbn [gapply] in Hg. rewrite rview_snoc. cbn [ept].
  destruct (lookup_last t (batch_values k pts)); [discriminate|]. apply H. assumption.
Qed.

Lemma Ndur_add_nop es fs eff mb e :
  (forall k t, ept k t e = PNop \/ mb k t = true) -> Ndur es fs eff mb -> Ndur (es ++ [e]) fs eff mb.
Proof.
  intros He H k t Hg. destruct (He k t) as [E|E]; [|left; assumption].
  rewrite rview_snoc, E. apply H. assumption.
Qed.

Lemma Ndur_drop_nop es fs eff mb e :
  (forall k t, ept k t e = PNop \/ mb k t = true) -> Ndur (es ++ [e]) fs eff mb -> Ndur es fs eff mb.
Proof.
  intros He H k t Hg. destruct (He k t) as [E|E]; [|left; assumption].
  specialize (H k t Hg). rewrite rview_snoc, E in H. assumption.
Qed.

Lemma Ndur_mb es fs eff (mb mb' : key -> Z -> bool) :
  (forall k t, mb k t = true -> mb' k t = true) -> Ndur es fs eff mb -> Ndur es fs eff mb'.
Proof. intros Hm H k t Hg. destruct (H k t Hg); auto. Qed.

(* files may lose visible values (tombstones), or stay as they are *)
Lemma Ndur_files es fs fs' eff mb :
  (forall k t, mb k t = true \/ fview fs' k t = fview fs k t \/ fview fs' k t = None) ->
  Ndur es fs eff mb -> Ndur es fs' eff mb.
Proof.
  intros Hf H k t Hg. destruct (H k t Hg) as [Hm|Hr]; [left; assumption|].
  destruct (Hf k t) as [Hm|[He|He]]; [left; assumption| |]; right; apply rview_none in Hr; apply rview_none; rewrite He; tauto.
Qed.

(* a prefix of the log goes away (a segment of an installed snapshot) *)
Lemma Ndur_remove_prefix a es fs eff mb : Ndur (a ++ es) fs eff mb -> Ndur es fs eff mb.
Proof.
  intros H k t Hg. destruct (H k t Hg) as [Hm|Hr]; [left; assumption|right].
  apply rview_none in Hr. apply rview_none. destruct Hr as [Hp Hf]. split; [|assumption].
  rewrite evs_app, pfold_app, pfold_last in Hp. rewrite pfold_last.
  destruct (last_ev (evs es k t)); cbn [papply] in *; auto.
Qed.

(* a delete joins the history: its covered points must show nothing *)
Lemma Ndur_delete_done es fs eff (mb mb' : key -> Z -> bool) ss lo hi :
  (forall k t, mb k t = true -> mb' k t = true \/ covered ss lo hi k t = true) ->
  (forall k t, covered ss lo hi k t = true -> mb' k t = true \/ rview es fs k t = None) ->
  Ndur es fs eff mb -> Ndur es fs (eff ++ [GDelete ss lo hi]) mb'.
Proof.
  intros Hm Hc H k t Hg. rewrite glww_snoc in Hg. cbn [gapply] in Hg. fold (in_rng lo hi t) in Hg. fold (covered ss lo hi k t) in Hg.
  destruct (covered ss lo hi k t) eqn:Ec; [apply Hc; assumption|].
  destruct (H k t Hg) as [X|X]; [|right; assumption].
  destruct (Hm k t X) as [Y|Y]; [left; assumption|congruence].
Qed.

(* ---------- the excluded shape, pointwise ---------- *)

Lemma lookup_last_some_in t vs v : lookup_last t vs = Some v -> exists x, In x vs /\ fst x = t.
Proof.
  revert v. induction vs as [|[t' v'] r IH]; intros v; cbn; [discriminate|].
  destruct (lookup_last t r) as [v0|] eqn:E.
  - intros _. destruct (IH v0 eq_refl) as [x [H1 H2]]. exists x. auto.
  - destruct (t' =? t) eqn:Et; [|discriminate]. intros _. exists (t', v'). split; [left; reflexivity|cbn; lia].
Qed.

Lemma kv_get_in k m : kv_get k m <> [] -> exists k', key_eqb k' k = true /\ In (k', kv_get k m) m.
Proof.
  induction m as [|[k' vs] r IH]; cbn; [congruence|].
  destruct (key_eqb k' k) eqn:E.
  - intros _. exists k'. auto.
  - intros H. destruct (IH H) as [k2 [H1 H2]]. exists k2. auto.
Qed.

Lemma kvs_hit_none ss lo hi m :
  kvs_hit ss lo hi m = false -> forall k t, covered ss lo hi k t = true -> cpt m k t = None.
Proof.
  intros Hh k t Hc. unfold covered in Hc. apply andb_true_iff in Hc. destruct Hc as [Hs Hr].
  unfold cpt. destruct (lookup_last t (kv_get k m)) as [v|] eqn:El; [|reflexivity]. exfalso.
  destruct (lookup_last_some_in _ _ _ El) as [x [Hx Ht]].
  assert (Hne : kv_get k m <> []) by (intros H0; rewrite H0 in Hx; destruct Hx).
  destruct (kv_get_in k m Hne) as [k' [Hk Hin]]. apply key_eqb_eq in Hk. subst k'.
  unfold kvs_hit in Hh. assert (Ht' : existsb (fun kv => sel ss (fst kv) && existsb (in_range lo hi) (snd kv)) m = true).
  { apply existsb_exists. exists (k, kv_get k m). split; [assumption|]. cbn [fst snd]. rewrite Hs. cbn [andb].
    apply existsb_exists. exists x. split; [assumption|]. unfold in_range. rewrite Ht. exact Hr. }
  congruence.
Qed.

(* the Split of the invariant is the functional one *)
Lemma split_functional s Wsn Wh :
  Split s Wsn Wh -> firstn (length (snap_segs (sv s))) (wal (sd s)) = Wsn.
Proof.
  intros Sp. rewrite (sp_wal _ _ _ Sp). rewrite <- (sp_ids _ _ _ Sp). unfold seg_ids. rewrite map_length.
  rewrite firstn_app, Nat.sub_diag, firstn_all. cbn [firstn]. apply app_nil_r.
Qed.

Lemma snap_content_split s Wsn Wh : Split s Wsn Wh -> snap_content s = replay (wal_entries Wsn) [].
Proof. intros Sp. unfold snap_content. rewrite (split_functional _ _ _ Sp). reflexivity. Qed.

(* ---------- tombstones on covered points ---------- *)

Lemma fold_min_le r : forall t0 x, In x (t0 :: r) -> fold_left Z.min r t0 <= x.
Proof.
  induction r as [|y r IH]; intros t0 x Hx; cbn [fold_left].
  - destruct Hx as [<-|[]]. lia.
  - destruct Hx as [<-|[<-|Hx]].
    + specialize (IH (Z.min t0 y) (Z.min t0 y) (or_introl eq_refl)). lia.
    + specialize (IH (Z.min t0 y) (Z.min t0 y) (or_introl eq_refl)). lia.
    + apply IH. right. assumption.
Qed.

Lemma fold_max_ge r : forall t0 x, In x (t0 :: r) -> x <= fold_left Z.max r t0.
Proof.
  induction r as [|y r IH]; intros t0 x Hx; cbn [fold_left].
  - destruct Hx as [<-|[]]. lia.
  - destruct Hx as [<-|[<-|Hx]].
    + specialize (IH (Z.max t0 y) (Z.max t0 y) (or_introl eq_refl)). lia.
    + specialize (IH (Z.max t0 y) (Z.max t0 y) (or_introl eq_refl)). lia.
    + apply IH. right. assumption.
Qed.

Lemma in_file_times f k x : In x (kv_get k (f_data f)) -> In (fst x) (file_times f).
Proof.
  intros Hx. unfold file_times. apply in_flat_map.
  assert (Hne : kv_get k (f_data f) <> []) by (intros H0; rewrite H0 in Hx; destruct Hx).
  destruct (kv_get_in k (f_data f) Hne) as [k' [_ Hin]]. exists (k', kv_get k (f_data f)). split; [assumption|].
  cbn [snd]. apply in_map. assumption.
Qed.

(* a file whose time range misses [lo, hi] has nothing there *)
Lemma no_overlap_none lo hi f k t :
  file_overlaps lo hi f = false -> in_rng lo hi t = true -> lookup_last t (kv_get k (f_data f)) = None.
Proof.
  intros Ho Hr. destruct (lookup_last t (kv_get k (f_data f))) as [v|] eqn:El; [|reflexivity]. exfalso.
  destruct (lookup_last_some_in _ _ _ El) as [x [Hx Ht]]. pose proof (in_file_times f k x Hx) as Hin. rewrite Ht in Hin.
  unfold file_overlaps in Ho. destruct (file_times f) as [|t0 r] eqn:Eft; [destruct Hin|].
  pose proof (fold_min_le r t0 t Hin). pose proof (fold_max_ge r t0 t Hin). unfold in_rng in Hr. lia.
Qed.

Lemma kmem_in k l : In k l -> kmem k l = true.
Proof. intros H. unfold kmem. apply existsb_exists. exists k. split; [assumption|apply key_eqb_refl]. Qed.

Lemma kmem_keys_of_get k m : kv_get k m <> [] -> kmem k (kv_keys m) = true.
Proof.
  intros H. destruct (kv_get_in k m H) as [k' [Hk Hin]]. apply key_eqb_eq in Hk. subst k'.
  apply kmem_in. unfold kv_keys. apply in_map_iff. exists (k, kv_get k m). auto.
Qed.

Lemma fpt_tombstone_covered ss lo hi f k t :
  covered ss lo hi k t = true -> fpt (tombstone_file ss lo hi f) k t = None.
Proof.
  intros Hc. unfold covered in Hc. apply andb_true_iff in Hc. destruct Hc as [Hs Hr].
  unfold tombstone_file. destruct (file_overlaps lo hi f) eqn:Eo.
  - rewrite fpt_tombs. cbn [f_tombs f_data]. rewrite tomb_hit_app.
    destruct (tomb_hit (f_tombs f) k t); cbn [orb]; [reflexivity|].
    destruct (kv_get k (f_data f)) as [|x xs] eqn:Eg; [destruct (tomb_hit _ k t); reflexivity|].
    assert (Hk : kmem k (kv_keys (f_data f)) = true) by (apply kmem_keys_of_get; congruence).
    assert (Hh : tomb_hit (map (fun k' => (k', (lo, hi))) (filter (sel ss) (kv_keys (f_data f)))) k t = true).
    { unfold tomb_hit. apply existsb_exists. unfold kmem in Hk. apply existsb_exists in Hk. destruct Hk as [k' [Hin Hk']].
      apply key_eqb_eq in Hk'. subst k'. exists (k, (lo, hi)). split.
      - apply in_map_iff. exists k. split; [reflexivity|]. apply filter_In. auto.
      - cbn [fst snd]. rewrite key_eqb_refl, Hr. reflexivity. }
    rewrite Hh. reflexivity.
  - rewrite fpt_tombs. destruct (tomb_hit (f_tombs f) k t); [reflexivity|]. apply (no_overlap_none lo hi); assumption.
Qed.

Lemma rview_remove_prefix_none a es fs k t : rview (a ++ es) fs k t = None -> rview es fs k t = None.
Proof.
  intros Hr. apply rview_none in Hr. apply rview_none. destruct Hr as [Hp Hf]. split; [|assumption].
  rewrite evs_app, pfold_app, pfold_last in Hp. rewrite pfold_last.
  destruct (last_ev (evs es k t)); cbn [papply] in *; auto.
Qed.

(* a state that differs only in bookkeeping *)
Lemma ninv_frame s s' :
  NInv s -> E s' = E s -> files (sd s') = files (sd s) -> g_hist s' = g_hist s ->
  pend (sv s') = pend (sv s) -> dstage (sv s') = dstage (sv s) ->
  hot (sv s') = hot (sv s) -> snap (sv s') = snap (sv s) -> delete_hits_snapshot s' = false ->
  NInv s'.
Proof.
  intros N HE Hf Hg Hp Hd Hh Hsn Hc. destruct N.
  assert (Hmb : forall k t, mb_now s k t = mb_now s' k t) by (apply mb_now_eq; assumption).
  assert (Heff : eff_now s' = eff_now s) by (apply eff_now_eq; assumption).
  constructor; rewrite ?HE, ?Hf, ?Hp, ?Hd, ?Hh, ?Hsn, ?Heff; auto.
  - apply (Ndur_mb _ _ _ (mb_now s)); [intros k t H; rewrite <- Hmb; exact H|assumption].
  - intros pts H. destruct (n_pw0 pts H) as [es0 [H1 H2]]. exists es0. split; [assumption|].
    rewrite (effective_eq s s' Hg). apply (Ndur_mb _ _ _ (mb_now s)); [intros k t X; rewrite <- Hmb; exact X|assumption].
  - intros k t H. rewrite <- Hmb. auto.
  - intros k t H. rewrite <- Hmb. auto.
Qed.
