(* C10/EpochInv.v — the invariant of the epoch-tracker protocol and its preservation by every
   thread step. *)
From Coq Require Import List ZArith NArith Bool Lia Arith.
From Coq Require Import ZifyBool ZifyNat ZifyN.
From Verif Require Import C10.Epoch.
Import ListNotations.
Open Scope Z_scope.

(* ---------- lists ---------- *)

Lemma nth_upd {A} (l : list A) i k x old :
  nth_error l i = Some old ->
  nth_error (lupd l i x) k = if Nat.eqb k i then Some x else nth_error l k.
Proof.
  revert i k; induction l as [|y l IH]; intros i k H.
  - destruct i; discriminate.
  - destruct i as [|i]; cbn in H |- *.
    + destruct k; reflexivity.
    + destruct k as [|k]; [reflexivity|]. cbn. apply IH. exact H.
Qed.

Lemma upd_length {A} (l : list A) i x : length (lupd l i x) = length l.
Proof. revert i; induction l as [|y l IH]; intros i; [reflexivity|]. destruct i; cbn; [reflexivity|]. rewrite IH. reflexivity. Qed.

Definition b2z (b : bool) : Z := if b then 1 else 0.

Lemma count_upd {A} (f : A -> bool) l i x old :
  nth_error l i = Some old -> count f (lupd l i x) = count f l - b2z (f old) + b2z (f x).
Proof.
  revert i; induction l as [|y l IH]; intros i H.
  - destruct i; discriminate.
  - destruct i as [|i]; cbn in H |- *.
    + inversion H; subst. unfold b2z. destruct (f old), (f x); lia.
    + rewrite (IH i H). lia.
Qed.

Lemma count_nonneg {A} (f : A -> bool) l : 0 <= count f l.
Proof. induction l as [|y l IH]; cbn; [lia|]. destruct (f y); lia. Qed.

Lemma count_pos_ex {A} (f : A -> bool) l :
  0 < count f l -> exists k x, nth_error l k = Some x /\ f x = true.
Proof.
  induction l as [|y l IH]; cbn; [lia|]. intros H. destruct (f y) eqn:E.
  - exists 0%nat, y. split; [reflexivity|exact E].
  - destruct IH as [k [x [H1 H2]]]; [lia|]. exists (S k), x. split; assumption.
Qed.

Lemma count_ge_one {A} (f : A -> bool) l k x :
  nth_error l k = Some x -> f x = true -> 1 <= count f l.
Proof.
  revert k; induction l as [|y l IH]; intros k H Hf; destruct k as [|k]; cbn in *; try discriminate.
  - inversion H; subst. rewrite Hf. pose proof (count_nonneg f l). lia.
  - specialize (IH k H Hf). destruct (f y); lia.
Qed.

Lemma count_ext {A} (f g : A -> bool) l :
  (forall k x, nth_error l k = Some x -> f x = g x) -> count f l = count g l.
Proof.
  induction l as [|y l IH]; intros H; cbn; [reflexivity|].
  rewrite (H 0%nat y eq_refl). rewrite IH; [reflexivity|].
  intros k x Hk. apply (H (S k)). exact Hk.
Qed.

Lemma nth_repeat {A} (a x : A) n k : nth_error (repeat a n) k = Some x -> x = a.
Proof. intros H. apply nth_error_In in H. apply repeat_spec in H. exact H. Qed.

Lemma nat_mem_In j l : nat_mem j l = true <-> In j l.
Proof.
  unfold nat_mem. rewrite existsb_exists. split.
  - intros [x [Hin Hx]]. apply Nat.eqb_eq in Hx. subst. exact Hin.
  - intros H. exists j. split; [exact H|apply Nat.eqb_refl].
Qed.

Lemma same_members_In a b : same_members a b = true -> forall j, In j a <-> In j b.
Proof.
  unfold same_members. intros H j. apply andb_true_iff in H. destruct H as [H1 H2].
  rewrite forallb_forall in H1, H2. split; intros Hin.
  - apply nat_mem_In. apply H1. exact Hin.
  - apply nat_mem_In. apply H2. exact Hin.
Qed.

Lemma existsb_false_nth {A} (f : A -> bool) l k x :
  existsb f l = false -> nth_error l k = Some x -> f x = false.
Proof.
  intros H Hk. destruct (f x) eqn:E; [|reflexivity].
  assert (existsb f l = true) by (apply existsb_exists; exists x; split; [eapply nth_error_In; exact Hk|exact E]).
  congruence.
Qed.

Lemma find_In_some {A} (f : A -> bool) l x :
  In x l -> f x = true -> exists y, find f l = Some y.
Proof.
  induction l as [|z l IH]; intros Hin Hf; [destruct Hin|]. cbn.
  destruct (f z) eqn:E; [exists z; reflexivity|].
  destruct Hin as [->|Hin]; [congruence|]. apply IH; assumption.
Qed.

(* ---------- the invariant ---------- *)

Notation cnt g ws := (count (w_active_lt g) ws).

Section EInv.
Variable mt : nat -> nat -> bool.

Record EInv (s : gstate) : Prop := {
  Hlar : (t_largest (gs_tr s) <= t_epoch (gs_tr s))%N;
  Hwg : forall i g gs, nth_error (gs_ws s) i = Some (WChk g gs) -> (g <= t_epoch (gs_tr s))%N;
  Hdg : forall j x g, nth_error (gs_ds s) j = Some x -> d_gen_of x = Some g -> (g <= t_largest (gs_tr s))%N;
  Hwd : forall i j g gs x, nth_error (gs_ws s) i = Some (WChk g gs) ->
        nth_error (gs_ds s) j = Some x -> d_gen_of x = Some g -> False;
  Hdd : forall j j' x x' g, nth_error (gs_ds s) j = Some x -> nth_error (gs_ds s) j' = Some x' ->
        d_gen_of x = Some g -> d_gen_of x' = Some g -> j = j';
  Hent : forall d, In d (t_deletes (gs_tr s)) ->
        d_pending d = cnt (d_gen d) (gs_ws s) /\
        exists x, nth_error (gs_ds s) (d_guard d) = Some x /\ d_gen_of x = Some (d_gen d);
  Hhas : forall j x g, nth_error (gs_ds s) j = Some x -> d_gen_of x = Some g ->
        In {| d_gen := g; d_pending := cnt g (gs_ws s); d_guard := j |} (t_deletes (gs_tr s));
  Hwr : t_writes (gs_tr s) = count w_active (gs_ws s);
  Hdone : forall j, In j (gs_done s) -> nth_error (gs_ds s) j = Some DlDone;
  Hcrit : forall j g, nth_error (gs_ds s) j = Some (DlCrit g) -> cnt g (gs_ws s) = 0;
  Hcov : forall i g gs j x gj, nth_error (gs_ws s) i = Some (WChk g gs) ->
        nth_error (gs_ds s) j = Some x -> d_gen_of x = Some gj -> (gj < g)%N -> mt j i = true -> In j gs;
  Hlist : forall i g gs j, nth_error (gs_ws s) i = Some (WChk g gs) -> In j gs ->
        In j (gs_done s) \/
        exists x gj, nth_error (gs_ds s) j = Some x /\ d_gen_of x = Some gj /\ (gj < g)%N
}.

Lemma einv_init nw nd : EInv (ep_init nw nd).
Proof.
  constructor; cbn [ep_init gs_tr gs_ws gs_ds gs_done tracker0 t_largest t_epoch t_writes t_deletes].
  - lia.
  - intros i g gs H. apply nth_repeat in H. discriminate.
  - intros j x g H Hg. apply nth_repeat in H. subst. discriminate.
  - intros i j g gs x H. apply nth_repeat in H. discriminate.
  - intros j j' x x' g H _ Hg. apply nth_repeat in H. subst. discriminate.
  - intros d [].
  - intros j x g H Hg. apply nth_repeat in H. subst. discriminate.
  - induction nw as [|n IH]; cbn; [reflexivity|]. rewrite <- IH. reflexivity.
  - intros j [].
  - intros j g H. apply nth_repeat in H. discriminate.
  - intros i g gs j x gj H. apply nth_repeat in H. discriminate.
  - intros i g gs j H. apply nth_repeat in H. discriminate.
Qed.

(* the count below a generation that no writer in flight reaches is the count of all writers in flight *)
Lemma cnt_all ws g :
  (forall i g' gs, nth_error ws i = Some (WChk g' gs) -> (g' < g)%N) -> cnt g ws = count w_active ws.
Proof.
  intros H. apply count_ext. intros k x Hk. destruct x as [|g' gs|]; cbn; try reflexivity.
  specialize (H k g' gs Hk). lia.
Qed.

(* generations of pending deletes are bounded by largest *)
Lemma ent_gen_le s d : EInv s -> In d (t_deletes (gs_tr s)) -> (d_gen d <= t_largest (gs_tr s))%N.
Proof.
  intros I Hd. destruct (Hent s I d Hd) as [_ [x [Hx Hg]]]. exact (Hdg s I _ _ _ Hx Hg).
Qed.

(* ---------- writer: StartWrite ---------- *)

Lemma einv_wstart s i order guards gen t' :
  EInv s -> nth_error (gs_ws s) i = Some WIdle ->
  start_write (gs_tr s) = (guards, gen, t') ->
  EInv {| gs_tr := t'; gs_done := gs_done s;
         gs_ws := lupd (gs_ws s) i (WChk gen (if same_members order guards then order else guards));
         gs_ds := gs_ds s |}.
Proof.
  intros I Hi Hs. unfold start_write in Hs. inversion Hs; subst guards gen t'; clear Hs.
  set (gen := (t_epoch (gs_tr s) + 1)%N).
  set (gl := if same_members order (map d_guard (t_deletes (gs_tr s))) then order else map d_guard (t_deletes (gs_tr s))).
  assert (Hgl : forall j, In j gl <-> In j (map d_guard (t_deletes (gs_tr s)))).
  { intros j. unfold gl. destruct (same_members order (map d_guard (t_deletes (gs_tr s)))) eqn:E;
      [apply same_members_In; exact E|reflexivity]. }
  assert (Hcnt : forall g, (g <= t_largest (gs_tr s))%N ->
            cnt g (lupd (gs_ws s) i (WChk gen gl)) = cnt g (gs_ws s)).
  { intros g Hg. rewrite (count_upd _ _ _ _ _ Hi). cbn [w_active_lt b2z]. pose proof (Hlar s I).
    replace (gen <? g)%N with false by (unfold gen; lia). cbn. lia. }
  destruct I as [Ilar Iwg Idg Iwd Idd Ient Ihas Iwr Idone Icrit Icov Ilist].
  constructor; cbn [gs_tr gs_ws gs_ds gs_done t_largest t_epoch t_writes t_deletes].
  - unfold gen in *. lia.
  - intros k g gs H. rewrite (nth_upd _ _ _ _ _ Hi) in H. destruct (Nat.eqb k i).
    + inversion H; subst. unfold gen. lia.
    + specialize (Iwg k g gs H). unfold gen. lia.
  - exact Idg.
  - intros k j g gs x H Hx Hg. rewrite (nth_upd _ _ _ _ _ Hi) in H. destruct (Nat.eqb k i).
    + inversion H; subst. specialize (Idg j x _ Hx Hg). unfold gen in Idg. lia.
    + exact (Iwd k j g gs x H Hx Hg).
  - exact Idd.
  - intros d Hd. destruct (Ient d Hd) as [Hp [x [Hx Hg]]]. split; [|exists x; split; assumption].
    rewrite Hcnt; [exact Hp|]. exact (Idg _ _ _ Hx Hg).
  - intros j x g Hx Hg. rewrite Hcnt; [exact (Ihas j x g Hx Hg)|exact (Idg _ _ _ Hx Hg)].
  - rewrite (count_upd _ _ _ _ _ Hi). cbn [w_active b2z]. lia.
  - exact Idone.
  - intros j g Hj. rewrite Hcnt; [exact (Icrit j g Hj)|]. exact (Idg j (DlCrit g) g Hj eq_refl).
  - intros k g gs j x gj H Hx Hg Hlt Hm. rewrite (nth_upd _ _ _ _ _ Hi) in H. destruct (Nat.eqb k i) eqn:E.
    + inversion H; subst g gs. apply Nat.eqb_eq in E. subst k. apply Hgl.
      apply in_map_iff. eexists. split; [|exact (Ihas j x gj Hx Hg)]. reflexivity.
    + exact (Icov k g gs j x gj H Hx Hg Hlt Hm).
  - intros k g gs j H Hin. rewrite (nth_upd _ _ _ _ _ Hi) in H. destruct (Nat.eqb k i).
    + inversion H; subst g gs. right. apply Hgl in Hin. apply in_map_iff in Hin.
      destruct Hin as [d [Hdj Hd]]. destruct (Ient d Hd) as [_ [x [Hx Hg]]].
      exists x, (d_gen d). subst j. split; [exact Hx|]. split; [exact Hg|].
      specialize (Idg _ _ _ Hx Hg). unfold gen. lia.
    + exact (Ilist k g gs j H Hin).
Qed.

(* ---------- writer: one guard checked ---------- *)

Lemma einv_wpass s i gen j gs :
  EInv s -> nth_error (gs_ws s) i = Some (WChk gen (j :: gs)) ->
  (mt j i && negb (nat_mem j (gs_done s))) = false ->
  EInv {| gs_tr := gs_tr s; gs_done := gs_done s; gs_ws := lupd (gs_ws s) i (WChk gen gs); gs_ds := gs_ds s |}.
Proof.
  intros I Hi Hpass.
  assert (Hcnt : forall g, cnt g (lupd (gs_ws s) i (WChk gen gs)) = cnt g (gs_ws s)).
  { intros g. rewrite (count_upd _ _ _ _ _ Hi). cbn [w_active_lt]. lia. }
  destruct I as [Ilar Iwg Idg Iwd Idd Ient Ihas Iwr Idone Icrit Icov Ilist].
  constructor; cbn [gs_tr gs_ws gs_ds gs_done].
  - exact Ilar.
  - intros k g gs' H. rewrite (nth_upd _ _ _ _ _ Hi) in H. destruct (Nat.eqb k i).
    + inversion H; subst. exact (Iwg i _ _ Hi).
    + exact (Iwg k g gs' H).
  - exact Idg.
  - intros k j' g gs' x H Hx Hg. rewrite (nth_upd _ _ _ _ _ Hi) in H. destruct (Nat.eqb k i).
    + inversion H; subst. exact (Iwd i j' _ _ x Hi Hx Hg).
    + exact (Iwd k j' g gs' x H Hx Hg).
  - exact Idd.
  - intros d Hd. rewrite Hcnt. exact (Ient d Hd).
  - intros j' x g Hx Hg. rewrite Hcnt. exact (Ihas j' x g Hx Hg).
  - rewrite (count_upd _ _ _ _ _ Hi). cbn [w_active]. lia.
  - exact Idone.
  - intros j' g Hj. rewrite Hcnt. exact (Icrit j' g Hj).
  - intros k g gs' j' x gj H Hx Hg Hlt Hm. rewrite (nth_upd _ _ _ _ _ Hi) in H. destruct (Nat.eqb k i) eqn:E.
    + inversion H; subst g gs'. apply Nat.eqb_eq in E. subst k.
      destruct (Icov i gen (j :: gs) j' x gj Hi Hx Hg Hlt Hm) as [Hj|Hin]; [|exact Hin].
      subst j'. rewrite Hm in Hpass. cbn in Hpass. apply negb_false_iff in Hpass.
      apply nat_mem_In in Hpass. rewrite (Idone j Hpass) in Hx. inversion Hx; subst x. discriminate.
    + exact (Icov k g gs' j' x gj H Hx Hg Hlt Hm).
  - intros k g gs' j' H Hin. rewrite (nth_upd _ _ _ _ _ Hi) in H. destruct (Nat.eqb k i).
    + inversion H; subst g gs'. exact (Ilist i gen (j :: gs) j' Hi (or_intror Hin)).
    + exact (Ilist k g gs' j' H Hin).
Qed.

(* ---------- writer: EndWrite ---------- *)

Lemma einv_wend s i gen :
  EInv s -> nth_error (gs_ws s) i = Some (WChk gen []) ->
  EInv {| gs_tr := end_write gen (gs_tr s); gs_done := gs_done s; gs_ws := lupd (gs_ws s) i WDone; gs_ds := gs_ds s |}.
Proof.
  intros I Hi.
  assert (Hcnt : forall g, cnt g (lupd (gs_ws s) i WDone) = cnt g (gs_ws s) - b2z (gen <? g)%N).
  { intros g. rewrite (count_upd _ _ _ _ _ Hi). cbn [w_active_lt b2z]. lia. }
  pose proof (fun d => ent_gen_le s d I) as Hle.
  destruct I as [Ilar Iwg Idg Iwd Idd Ient Ihas Iwr Idone Icrit Icov Ilist].
  (* what EndWrite does to one entry is what the count does *)
  set (f := fun d => if (d_gen d <? gen)%N then d
                     else {| d_gen := d_gen d; d_pending := d_pending d - 1; d_guard := d_guard d |}).
  assert (Hf : forall d, In d (t_deletes (gs_tr s)) ->
            (if (gen <=? t_largest (gs_tr s))%N then f d else d) =
            {| d_gen := d_gen d; d_pending := cnt (d_gen d) (lupd (gs_ws s) i WDone); d_guard := d_guard d |}).
  { intros d Hd. destruct (Ient d Hd) as [Hp [x [Hx Hg]]]. rewrite Hcnt, <- Hp.
    assert (Hne : d_gen d <> gen) by (intros E; rewrite E in Hg; exact (Iwd i _ _ _ x Hi Hx Hg)).
    specialize (Hle d Hd). unfold f.
    destruct (gen <=? t_largest (gs_tr s))%N eqn:E1; [destruct (d_gen d <? gen)%N eqn:E2|].
    - replace (gen <? d_gen d)%N with false by lia. cbn. destruct d; cbn. f_equal. lia.
    - replace (gen <? d_gen d)%N with true by lia. reflexivity.
    - replace (gen <? d_gen d)%N with false by lia. cbn. destruct d; cbn. f_equal. lia. }
  assert (Hdel : forall d', In d' (t_deletes (end_write gen (gs_tr s))) ->
            exists d, In d (t_deletes (gs_tr s)) /\
              d' = {| d_gen := d_gen d; d_pending := cnt (d_gen d) (lupd (gs_ws s) i WDone); d_guard := d_guard d |}).
  { intros d' Hd'. cbn [end_write t_deletes] in Hd'.
    destruct (gen <=? t_largest (gs_tr s))%N eqn:E1.
    - apply in_map_iff in Hd'. destruct Hd' as [d [Hfd Hd]]. exists d. split; [exact Hd|].
      rewrite <- Hfd. specialize (Hf d Hd). try rewrite E1 in Hf. exact Hf.
    - exists d'. split; [exact Hd'|]. specialize (Hf d' Hd'). try rewrite E1 in Hf. exact Hf. }
  constructor; cbn [gs_tr gs_ws gs_ds gs_done]; cbn [end_write t_largest t_epoch t_writes].
  - exact Ilar.
  - intros k g gs H. rewrite (nth_upd _ _ _ _ _ Hi) in H. destruct (Nat.eqb k i); [discriminate|].
    exact (Iwg k g gs H).
  - exact Idg.
  - intros k j g gs x H Hx Hg. rewrite (nth_upd _ _ _ _ _ Hi) in H. destruct (Nat.eqb k i); [discriminate|].
    exact (Iwd k j g gs x H Hx Hg).
  - exact Idd.
  - intros d' Hd'. destruct (Hdel d' Hd') as [d [Hd ->]]. cbn [d_gen d_pending d_guard].
    split; [reflexivity|]. destruct (Ient d Hd) as [_ Hx]. exact Hx.
  - intros j x g Hx Hg. specialize (Ihas j x g Hx Hg).
    change (In {| d_gen := g; d_pending := cnt g (lupd (gs_ws s) i WDone); d_guard := j |}
              (t_deletes (end_write gen (gs_tr s)))).
    cbn [end_write t_deletes]. specialize (Hf _ Ihas). cbn [d_gen d_guard] in Hf.
    destruct (gen <=? t_largest (gs_tr s))%N.
    + rewrite <- Hf. apply in_map. exact Ihas.
    + rewrite <- Hf. exact Ihas.
  - rewrite (count_upd _ _ _ _ _ Hi). cbn [w_active b2z]. lia.
  - exact Idone.
  - intros j g Hj. rewrite Hcnt. specialize (Icrit j g Hj).
    pose proof (count_nonneg (w_active_lt g) (lupd (gs_ws s) i WDone)) as Hnn. rewrite Hcnt in Hnn.
    unfold b2z in *. destruct (gen <? g)%N; lia.
  - intros k g gs j x gj H Hx Hg Hlt Hm. rewrite (nth_upd _ _ _ _ _ Hi) in H. destruct (Nat.eqb k i); [discriminate|].
    exact (Icov k g gs j x gj H Hx Hg Hlt Hm).
  - intros k g gs j H Hin. rewrite (nth_upd _ _ _ _ _ Hi) in H. destruct (Nat.eqb k i); [discriminate|].
    exact (Ilist k g gs j H Hin).
Qed.

End EInv.
