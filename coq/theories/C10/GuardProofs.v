(* C10/GuardProofs.v — the delete guard over-approximates what the delete selects. *)
From Coq Require Import List ZArith NArith Bool Lia.
From Coq Require Import ZifyBool.
From Verif Require Import C10.Guard.
Import ListNotations.
Open Scope Z_scope.

(* ---------- strings ---------- *)

Lemma str_eqb_eq a b : str_eqb a b = true <-> a = b.
Proof.
  revert b; induction a as [|x a IH]; destruct b as [|y b]; cbn; try (split; congruence).
  rewrite andb_true_iff, N.eqb_eq, IH. split; [intros [-> ->]; reflexivity|intros H; inversion H; auto].
Qed.

Lemma str_eqb_refl a : str_eqb a a = true.
Proof. apply str_eqb_eq. reflexivity. Qed.

Lemma str_eqb_sym a b : str_eqb a b = str_eqb b a.
Proof.
  destruct (str_eqb a b) eqn:E1, (str_eqb b a) eqn:E2; try reflexivity.
  - apply str_eqb_eq in E1. subst. rewrite str_eqb_refl in E2. discriminate.
  - apply str_eqb_eq in E2. subst. rewrite str_eqb_refl in E1. discriminate.
Qed.

Lemma str_eqb_nil_l x : str_eqb [] x = str_nil x.
Proof. destruct x; reflexivity. Qed.

(* ---------- the reduce / short-circuit rules of newExprGuard keep the meaning ---------- *)

Section Sem.
Variable re_match : N -> str -> bool.
Variable fixed : bool.

Notation neg := (new_expr_guard re_match fixed).
Notation mopt := (eguard_matches_opt fixed).

Lemma eg_empty_matches g pt : eg_empty g = true -> mopt g pt = false.
Proof. destruct g as [[]|]; cbn; congruence. Qed.

Lemma guard_and_sem l r pt :
  mopt (neg (EAnd l r)) pt = mopt (neg l) pt && mopt (neg r) pt.
Proof.
  cbn [new_expr_guard].
  destruct (neg l) as [a|] eqn:El, (neg r) as [b|] eqn:Er; cbn [eguard_matches_opt].
  - destruct (eg_empty (Some a) || eg_empty (Some b)) eqn:Ee.
    + apply orb_true_iff in Ee. destruct Ee as [Ee|Ee].
      * pose proof (eg_empty_matches _ pt Ee) as H. cbn in H. rewrite H. reflexivity.
      * pose proof (eg_empty_matches _ pt Ee) as H. cbn in H. rewrite H, andb_false_r. reflexivity.
    + reflexivity.
  - rewrite andb_true_r. reflexivity.
  - reflexivity.
  - reflexivity.
Qed.

Lemma guard_or_sem l r pt :
  mopt (neg (EOr l r)) pt = mopt (neg l) pt || mopt (neg r) pt.
Proof.
  cbn [new_expr_guard].
  destruct (eg_empty (neg l)) eqn:E1.
  { rewrite (eg_empty_matches _ pt E1). reflexivity. }
  destruct (eg_empty (neg r)) eqn:E2.
  { rewrite (eg_empty_matches _ pt E2), orb_false_r. reflexivity. }
  destruct (neg l) as [a|], (neg r) as [b|]; cbn [eguard_matches_opt eguard_matches]; try reflexivity.
  rewrite orb_true_r. reflexivity.
Qed.

Lemma guard_paren_sem e pt : mopt (neg (EParen e)) pt = mopt (neg e) pt.
Proof. reflexivity. Qed.

Lemma guard_bool_sem b pt : mopt (neg (EBool b)) pt = b.
Proof. destruct b; reflexivity. Qed.

End Sem.

(* ---------- the tag loop ---------- *)

Lemma tag_loop_eq_found tags k v found :
  has_kv tags k v = true -> tag_loop true k (TEq v) tags found = true.
Proof.
  revert found; induction tags as [|t tags IH]; intros found H; cbn in *; [discriminate|].
  destruct (str_eqb (fst t) k) eqn:Ek; cbn in H.
  - rewrite (str_eqb_sym v (snd t)). destruct (str_eqb (snd t) v) eqn:Ev; [reflexivity|].
    apply IH. exact H.
  - apply IH. exact H.
Qed.

Lemma tag_loop_eq_missing tags k :
  has_k tags k = false -> tag_loop true k (TEq []) tags false = true.
Proof.
  induction tags as [|t tags IH]; intros H; cbn in *; [reflexivity|].
  destruct (str_eqb (fst t) k) eqn:Ek; cbn in H; [discriminate|]. apply IH. exact H.
Qed.

Lemma tag_loop_neq tags k v found :
  has_kv tags k v = false ->
  tag_loop true k (TNeq v) tags found = has_k tags k || (negb found && negb (str_nil v)).
Proof.
  revert found; induction tags as [|t tags IH]; intros found H; cbn in *.
  - destruct v, found; reflexivity.
  - destruct (str_eqb (fst t) k) eqn:Ek; cbn in H |- *.
    + apply orb_false_iff in H. destruct H as [Hv H].
      rewrite (str_eqb_sym v (snd t)), Hv. reflexivity.
    + apply IH. exact H.
Qed.

Lemma tag_loop_neq_nil tags k found :
  forallb (fun t => negb (str_nil (snd t))) tags = true ->
  has_k tags k = true -> tag_loop true k (TNeq []) tags found = true.
Proof.
  revert found; induction tags as [|t tags IH]; intros found Hwf H; cbn in *; [discriminate|].
  apply andb_true_iff in Hwf. destruct Hwf as [Ht Hwf].
  destruct (str_eqb (fst t) k) eqn:Ek; cbn in H.
  - destruct (snd t); [discriminate Ht|reflexivity].
  - apply IH; assumption.
Qed.

(* the pinned loop never matches more than the repaired one *)
Lemma tag_loop_mono tags k op found :
  tag_loop false k op tags found = true -> tag_loop true k op tags found = true.
Proof.
  revert found; induction tags as [|t tags IH]; intros found H; cbn in *; [discriminate|].
  destruct (str_eqb (fst t) k); [destruct (tagop_apply op (snd t)); [reflexivity|]|]; apply IH; exact H.
Qed.

Lemma existsb_impl {A} (f g : A -> bool) l :
  (forall x, f x = true -> g x = true) -> existsb f l = true -> existsb g l = true.
Proof.
  intros Hfg H. apply existsb_exists in H. destruct H as [x [Hin Hx]].
  apply existsb_exists. exists x. split; [exact Hin|apply Hfg; exact Hx].
Qed.

Lemma exists_key_in tags k (P : str * str -> bool) :
  existsb (fun t => str_eqb (fst t) k && P t) tags = true ->
  existsb (fun t => existsb (str_eqb (fst t)) [k]) tags = true.
Proof.
  apply existsb_impl. intros t H. apply andb_true_iff in H. destruct H as [H _].
  cbn [existsb]. rewrite H. reflexivity.
Qed.

Lemma has_k_in2_l tags k k2 :
  has_k tags k = true -> existsb (fun t => existsb (str_eqb (fst t)) [k; k2]) tags = true.
Proof.
  unfold has_k. apply existsb_impl. intros t H. cbn [existsb]. rewrite H. reflexivity.
Qed.

(* ---------- soundness of the repaired rule ---------- *)

Section Sound.
Variable re_match : N -> str -> bool.

Notation neg := (new_expr_guard re_match true).
Notation mopt := (eguard_matches_opt true).

Lemma sound_string pt k v op :
  wf_point pt = true -> sel_string pt k v op = true ->
  mopt (match op with
        | BEq => Some (GTagMatches (is_name k) k (TEq v))
        | BNeq => Some (GTagMatches (is_name k) k (TNeq v))
        | _ => None
        end) pt = true.
Proof.
  intros Hwf H. unfold sel_string in H.
  destruct (is_name k) eqn:Hn.
  - destruct op; cbn; try reflexivity; exact H.
  - destruct op; cbn [eguard_matches_opt eguard_matches]; try reflexivity.
    + (* = *)
      destruct (str_nil v) eqn:Hv; cbn in H.
      * destruct v; [|discriminate]. apply tag_loop_eq_missing.
        destruct (has_k (gp_tags pt) k); [discriminate|reflexivity].
      * apply tag_loop_eq_found. exact H.
    + (* != *)
      destruct (str_nil v) eqn:Hv; cbn in H.
      * destruct v; [|discriminate]. apply tag_loop_neq_nil; assumption.
      * rewrite tag_loop_neq by (destruct (has_kv (gp_tags pt) k v); [discriminate|reflexivity]).
        rewrite Hv. cbn. apply orb_true_r.
Qed.

Lemma sound_regex pt k re op :
  sel_regex re_match pt k re op = true ->
  mopt (if true && (is_name k || Bool.eqb (re_match re []) (match op with BEqRegex => true | _ => false end))
        then None else Some (GTagExists [k])) pt = true.
Proof.
  intros H. unfold sel_regex in H. cbn [andb].
  destruct (is_name k) eqn:Hn; [reflexivity|]. cbn [orb].
  destruct (re_match re []) eqn:Hme; destruct op; cbn [Bool.eqb eguard_matches_opt eguard_matches] in *;
    try reflexivity; try (eapply exists_key_in; exact H).
Qed.

Lemma sound_varref pt k k2 op :
  sel_varref pt k k2 op = true ->
  mopt (if is_name k || is_name k2 then None else Some (GTagExists [k; k2])) pt = true.
Proof.
  intros H. destruct (is_name k || is_name k2); [reflexivity|].
  cbn [eguard_matches_opt eguard_matches]. apply has_k_in2_l.
  unfold sel_varref in H. destruct op; apply andb_true_iff in H; destruct H as [H _]; exact H.
Qed.

Lemma of_bool_plain b : is_plain (of_bool b) = b.
Proof. destruct b; reflexivity. Qed.

Lemma sound_bin pt op l r :
  wf_point pt = true -> is_plain (sel_bin re_match op l r pt) = true ->
  mopt (new_binary_expr_guard re_match true op l r) pt = true.
Proof.
  intros Hwf H. unfold sel_bin in H. unfold new_binary_expr_guard.
  destruct l as [k ty|v|re| |]; destruct r as [k2 ty2|v2|re2| |];
    cbn [is_plain] in H; try discriminate; try reflexivity.
  (* the key is on the left *)
  1-3: destruct (negb (is_name k) && match ty with TField => true | _ => false end) eqn:Ef;
       [cbn in H; discriminate|].
  - (* var, var *)
    destruct (negb (is_name k2) && match ty2 with TField => true | _ => false end); [cbn in H; discriminate|].
    rewrite of_bool_plain in H. apply (sound_varref pt k k2 op). exact H.
  - rewrite of_bool_plain in H. apply sound_string; assumption.
  - rewrite of_bool_plain in H. apply sound_regex. exact H.
  - (* var, literal *)
    destruct (negb (is_name k) && match ty with TField => true | _ => false end); reflexivity.
  - (* the key is on the right: string, var *)
    destruct (negb (is_name k2) && match ty2 with TField => true | _ => false end) eqn:Ef;
      [cbn in H; discriminate|].
    rewrite of_bool_plain in H. apply sound_string; assumption.
  - (* regex, var *)
    destruct (negb (is_name k2) && match ty2 with TField => true | _ => false end) eqn:Ef;
      [cbn in H; discriminate|].
    rewrite of_bool_plain in H. apply sound_regex. exact H.
  - (* literal, var *)
    destruct (negb (is_name k2) && match ty2 with TField => true | _ => false end); reflexivity.
Qed.

Lemma sound_expr e pt :
  wf_point pt = true -> is_plain (sel_expr re_match e pt) = true -> mopt (neg e) pt = true.
Proof.
  intros Hwf. induction e as [e IH|b|l IHl r IHr|l IHl r IHr|op l r|]; intros H.
  - rewrite guard_paren_sem. apply IH. exact H.
  - rewrite guard_bool_sem. cbn in H. rewrite of_bool_plain in H. exact H.
  - rewrite guard_and_sem. cbn [sel_expr] in H.
    destruct (sel_expr re_match l pt), (sel_expr re_match r pt); cbn in H; try discriminate.
    rewrite IHl, IHr; reflexivity.
  - rewrite guard_or_sem. cbn [sel_expr] in H.
    destruct (sel_expr re_match l pt), (sel_expr re_match r pt); cbn in H; try discriminate;
      try (rewrite IHl by reflexivity; reflexivity);
      try (rewrite IHr by reflexivity; apply orb_true_r).
  - cbn [new_expr_guard]. apply sound_bin; assumption.
  - reflexivity.
Qed.

Lemma sound_expr_opt e pt :
  wf_point pt = true -> is_plain (sel_expr_opt re_match e pt) = true ->
  mopt (new_expr_guard_opt re_match true e) pt = true.
Proof. destruct e as [e|]; [apply sound_expr|reflexivity]. Qed.

End Sound.

(* ---------- guard.Matches over a batch ---------- *)

Lemma guard_matches_one fixed g pt :
  guard_matches fixed g [pt] =
  negb ((gp_time pt <? g_min g) || (gp_time pt >? g_max g))
  && (names_empty g || existsb (str_eqb (gp_name pt)) (g_names g))
  && eguard_matches_opt fixed (g_expr g) pt.
Proof.
  cbn [guard_matches].
  destruct ((gp_time pt <? g_min g) || (gp_time pt >? g_max g)); [reflexivity|].
  destruct (names_empty g), (existsb (str_eqb (gp_name pt)) (g_names g)),
    (eguard_matches_opt fixed (g_expr g) pt); reflexivity.
Qed.

Lemma guard_matches_batch fixed g pts :
  guard_matches fixed g pts = existsb (fun pt => guard_matches fixed g [pt]) pts.
Proof.
  induction pts as [|pt pts IH]; [reflexivity|].
  cbn [existsb]. rewrite <- IH. cbn [guard_matches].
  destruct ((gp_time pt <? g_min g) || (gp_time pt >? g_max g)); [reflexivity|].
  destruct (names_empty g && eguard_matches_opt fixed (g_expr g) pt); [reflexivity|].
  destruct (existsb (str_eqb (gp_name pt)) (g_names g) && eguard_matches_opt fixed (g_expr g) pt); reflexivity.
Qed.

Lemma guard_sound_one re_match e names min max pt :
  wf_point pt = true ->
  gselects re_match e names min max pt = true ->
  guard_matches true (new_guard re_match true min max names e) [pt] = true.
Proof.
  intros Hwf H. unfold gselects in H.
  apply andb_true_iff in H. destruct H as [H Hp].
  apply andb_true_iff in H. destruct H as [Hn Ht].
  rewrite guard_matches_one. unfold new_guard; cbn [g_min g_max g_names g_expr names_empty].
  rewrite Hn, (sound_expr_opt re_match e pt Hwf Hp).
  replace ((gp_time pt <? min) || (gp_time pt >? max)) with false by lia.
  destruct names; reflexivity.
Qed.

Lemma guard_sound_lemma re_match e names min max pt pre post :
  wf_point pt = true ->
  gselects re_match e names min max pt = true ->
  guard_matches true (new_guard re_match true min max names e) (pre ++ pt :: post) = true.
Proof.
  intros Hwf H. rewrite guard_matches_batch, existsb_app. cbn [existsb].
  rewrite (guard_sound_one _ _ _ _ _ _ Hwf H). rewrite orb_true_r. reflexivity.
Qed.

(* the link to C10/Run.v: the model's own answers pass the executable spec of kind guard *)
Lemma guard_spec_link re_match e names min max pts :
  forallb (fun pt => implb (wf_point pt && gselects re_match e names min max pt)
                           (guard_matches true (new_guard re_match true min max names e) [pt])) pts = true.
Proof.
  apply forallb_forall. intros pt _. destruct (wf_point pt) eqn:Hw; [|reflexivity].
  destruct (gselects re_match e names min max pt) eqn:Hs; [|reflexivity].
  cbn [andb implb]. apply guard_sound_one; assumption.
Qed.

(* a selected point at exactly min or max is matched *)
Lemma guard_time_inclusive_lemma re_match e names min max pt :
  wf_point pt = true -> min <= max ->
  gp_time pt = min \/ gp_time pt = max ->
  existsb (str_eqb (gp_name pt)) names = true ->
  is_plain (sel_expr_opt re_match e pt) = true ->
  guard_matches true (new_guard re_match true min max names e) [pt] = true.
Proof.
  intros Hwf Hle Ht Hn Hp. apply guard_sound_one; [exact Hwf|].
  unfold gselects. rewrite Hn, Hp.
  replace ((min <=? gp_time pt) && (gp_time pt <=? max)) with true by lia. reflexivity.
Qed.

(* the guard says nothing outside the time range or the named measurements: it is not the
   trivial "match everything" *)
Lemma guard_skips_outside_lemma fixed g pt :
  gp_time pt < g_min g \/ gp_time pt > g_max g \/
  (g_names g <> [] /\ existsb (str_eqb (gp_name pt)) (g_names g) = false) ->
  guard_matches fixed g [pt] = false.
Proof.
  intros H. rewrite guard_matches_one.
  destruct H as [H|[H|[Hne H]]].
  - replace ((gp_time pt <? g_min g) || (gp_time pt >? g_max g)) with true by lia. reflexivity.
  - replace ((gp_time pt <? g_min g) || (gp_time pt >? g_max g)) with true by lia. reflexivity.
  - rewrite H. unfold names_empty. destruct (g_names g); [congruence|].
    cbn. rewrite andb_false_r. reflexivity.
Qed.

(* ---------- the repaired rule only widens the pinned one ---------- *)

Section Mono.
Variable re_match : N -> str -> bool.

Lemma eguard_mono g pt : eguard_matches false g pt = true -> eguard_matches true g pt = true.
Proof.
  induction g as [|a IHa b IHb|a IHa b IHb|meas k op|ks]; cbn; intros H; try exact H.
  - apply andb_true_iff in H. destruct H as [H1 H2]. rewrite IHa, IHb by assumption. reflexivity.
  - apply orb_true_iff in H. destruct H as [H|H]; [rewrite IHa by exact H; reflexivity|rewrite IHb by exact H; apply orb_true_r].
  - destruct meas; [exact H|]. apply tag_loop_mono. exact H.
Qed.

Lemma bin_mono op l r pt :
  eguard_matches_opt false (new_binary_expr_guard re_match false op l r) pt = true ->
  eguard_matches_opt true (new_binary_expr_guard re_match true op l r) pt = true.
Proof.
  unfold new_binary_expr_guard.
  destruct l as [k ty|v|re| |]; destruct r as [k2 ty2|v2|re2| |]; try (intros _; reflexivity);
    repeat match goal with
    | |- context [if ?c then _ else _] => destruct c eqn:?
    | |- context [match ?o with BEq => _ | _ => _ end] => destruct o
    end; cbn [eguard_matches_opt]; try (intros _; reflexivity); try discriminate; apply eguard_mono.
Qed.

Lemma expr_mono e pt :
  eguard_matches_opt false (new_expr_guard re_match false e) pt = true ->
  eguard_matches_opt true (new_expr_guard re_match true e) pt = true.
Proof.
  induction e as [e IH|b|l IHl r IHr|l IHl r IHr|op l r|]; intros H.
  - rewrite guard_paren_sem in *. apply IH. exact H.
  - rewrite guard_bool_sem in *. exact H.
  - rewrite guard_and_sem in *. apply andb_true_iff in H. destruct H as [H1 H2].
    rewrite IHl, IHr by assumption. reflexivity.
  - rewrite guard_or_sem in *. apply orb_true_iff in H.
    destruct H as [H|H]; [rewrite IHl by exact H; reflexivity|rewrite IHr by exact H; apply orb_true_r].
  - apply bin_mono. exact H.
  - reflexivity.
Qed.

Lemma fix_only_widens_lemma e names min max pts :
  guard_matches false (new_guard re_match false min max names e) pts = true ->
  guard_matches true (new_guard re_match true min max names e) pts = true.
Proof.
  rewrite !guard_matches_batch. induction pts as [|pt pts IH]; cbn [existsb]; [congruence|].
  intros H. apply orb_true_iff in H. destruct H as [H|H]; [|rewrite IH by exact H; apply orb_true_r].
  rewrite guard_matches_one in *. unfold new_guard, names_empty in *; cbn [g_min g_max g_names g_expr] in *.
  apply andb_true_iff in H. destruct H as [H He]. rewrite H. cbn [andb].
  destruct e as [e|]; [|reflexivity]. cbn [new_expr_guard_opt] in *.
  rewrite (expr_mono e pt He). reflexivity.
Qed.

End Mono.

(* ---------- the pinned rule is refuted ---------- *)

(* regex oracle of the witnesses: regex 0 matches exactly the empty string, regex 1 the strings
   that contain an 'a' (97), regex 2 the names starting with 'c' (99) *)
Definition wit_re (r : N) (s : str) : bool :=
  match r with
  | 0%N => str_nil s
  | 1%N => existsb (N.eqb 97) s
  | _ => match s with c :: _ => N.eqb c 99 | [] => false end
  end.

Definition s_host : str := [104; 111; 115; 116]%N.
Definition s_cpu : str := [99; 112; 117]%N.
Definition s_a : str := [97]%N.
Definition s_b : str := [98]%N.

(* cpu (no tags) at time 10 *)
Definition wit_pt : gpoint := {| gp_name := s_cpu; gp_tags := []; gp_time := 10 |}.

Definition wit_exprs : list gexpr :=
  [ EBin BNeq (OVar s_host TUnknown) (OStr s_a);            (* host != 'a' *)
    EBin BEq (OVar s_host TUnknown) (OStr []);               (* host = '' *)
    EBin BEqRegex (OVar s_host TUnknown) (ORegex 0);         (* host =~ /^$/ *)
    EBin BNeqRegex (OVar s_host TUnknown) (ORegex 1);        (* host !~ /a/ *)
    EBin BEqRegex (OVar name_key TUnknown) (ORegex 2);       (* _name =~ /^c/ *)
    EAnd (EBool true) (EOr (EBool false) (EParen (EBin BNeq (OStr s_b) (OVar s_host TTag)))) ].

Definition old_unsound (e : gexpr) (pt : gpoint) : bool :=
  wf_point pt && gselects wit_re (Some e) [gp_name pt] (gp_time pt) (gp_time pt) pt
  && negb (guard_matches false (new_guard wit_re false (gp_time pt) (gp_time pt) [gp_name pt] (Some e)) [pt]).

Lemma old_guard_unsound_all : forallb (fun e => old_unsound e wit_pt) wit_exprs = true.
Proof. vm_compute. reflexivity. Qed.

Lemma old_guard_sound_refuted_lemma :
  exists re_match e names min max pt,
    wf_point pt = true /\ gselects re_match e names min max pt = true /\
    guard_matches false (new_guard re_match false min max names e) [pt] = false.
Proof.
  exists wit_re, (Some (EBin BNeq (OVar s_host TUnknown) (OStr s_a))), [s_cpu], 10, 10, wit_pt.
  vm_compute. repeat split; reflexivity.
Qed.

(* the same inputs under the repaired rule *)
Lemma new_guard_covers_witnesses :
  forallb (fun e => guard_matches true (new_guard wit_re true 10 10 [s_cpu] (Some e)) [wit_pt]) wit_exprs = true.
Proof. vm_compute. reflexivity. Qed.
