(* C10/Run.v — correspondence cases for C10 (deletes remove exactly the targeted data,
   permanently).  A case is one history on one shard: engine steps (macros for complete
   operations), the growth of the client-side history, and observations (full-range reads of
   every key ever written + the listed series) taken after every operation.
   result code: 0 agree & property holds; 1 model differs, property holds;
                2 model differs and property fails; 3 agree and property fails (model mirrors a defect). *)
From Verif Require Export Shard.Engine C01.Spec C01.Run.
From Verif Require Export C10.Guard C10.Epoch.
Open Scope Z_scope.

Inductive xstep :=
| XS (x : step)                             (* exactly this step *)
| XTry (x : step)
| XSnapRest                                 (* rest of WriteSnapshot *)
| XReplaceAll
| XDelete (req : list key) (lo hi : Z)      (* one engine delete: the requested series that the index lists *)
| XOpen
| XHist (o : hop)                           (* the client-side history grows by one operation *)
| XObs (reads : list (key * list tv)) (lst : list key).   (* what the store returned; listed series *)

Record acc := { a_s : state; a_ok : bool; a_hist : list hop; a_agree : bool; a_spec : bool }.

(* what a case checks at its observations: the reads (exactness and permanence of deletes) or
   the listings (a series is listed iff points of it remain) *)
Inductive mode := MReads | MList.

Definition kset_eqb (a b : list key) : bool :=
  forallb (fun k => kmem k b) a && forallb (fun k => kmem k a) b.

(* does the history leave any point in series sr (over the keys ever written) *)
Definition spec_has_points (h : list hop) (U : list key) (sr : key) : bool :=
  existsb (fun k => key_eqb (series_of k) sr &&
                    negb (is_nil (spec_read (map hop_op h) k min_time max_time true))) U.

Definition series_universe (U : list key) : list key :=
  fold_left (fun acc k => add_key (series_of k) acc) U [].

Definition xexec (md : mode) (c : cfg) (a : acc) (x : xstep) : acc :=
  let s := a_s a in
  let upd_s s' ok' := {| a_s := s'; a_ok := a_ok a && ok'; a_hist := a_hist a; a_agree := a_agree a; a_spec := a_spec a |} in
  match x with
  | XS y => upd_s (step_fn c s y) (step_ok s y && mu_ok s y)      (* the code's mutex admits the step *)
  | XTry y => upd_s (step_fn c s y) true
  | XSnapRest => let (s', ok) := exec c (s, true) HSnapRest in upd_s s' ok
  | XReplaceAll => let (s', ok) := exec c (s, true) HReplaceAll in upd_s s' ok
  | XDelete req lo hi =>
      let ss := filter (fun sr => kmem sr (listed (sv s))) req in
      if is_nil ss then a
      else
        (* deleteSeriesRange under Engine.snapshotMu: a snapshot retained by a failed flush is
           written out first; a snapshot in flight would hold the delete back (not ok) *)
        let s := if snap_retained s
                 then fst (exec c (step_fn c s SnapBegin, true) HSnapRest) else s in
        let s1 := step_fn c s (DeleteBegin ss lo hi) in
        let ok1 := step_ok s (DeleteBegin ss lo hi) && mu_ok s (DeleteBegin ss lo hi) in
        let s2 := tomb_all c s1 in
        let s3 := step_fn c s2 DeleteCache in
        let s4 := step_fn c s3 WalSync in
        upd_s (step_fn c s4 DeleteIndex) ok1
  | XOpen => upd_s (run c open_steps s) (run_ok c open_steps s)
  | XHist o => {| a_s := s; a_ok := a_ok a; a_hist := a_hist a ++ [o]; a_agree := a_agree a; a_spec := a_spec a |}
  | XObs reads lst =>
      let U := map fst reads in
      let ag := match md with
                | MReads => forallb (fun kv => tvlist_eqb (eng_read_all s (fst kv)) (snd kv)) reads
                | MList => kset_eqb (listed (sv s)) lst
                end in
      let sp := match md with
                | MReads => forallb (fun kv => read_ok (a_hist a) (fst kv) (snd kv)) reads
                | MList => forallb (fun sr => Bool.eqb (kmem sr lst) (spec_has_points (a_hist a) U sr)) (series_universe U ++ lst)
                end in
      {| a_s := s; a_ok := a_ok a; a_hist := a_hist a; a_agree := a_agree a && ag; a_spec := a_spec a && sp |}
  end.

(* ---------- delete guards (C10/Guard.v) ---------- *)

(* the regular expressions of a case: regexp.Regexp.Match as observed on every string of the case *)
Definition retab := list (N * list (str * bool)).

Definition re_lookup (tab : retab) (r : N) (s : str) : bool :=
  match find (fun e => N.eqb (fst e) r) tab with
  | Some e => match find (fun p => str_eqb (fst p) s) (snd e) with
              | Some p => snd p
              | None => false
              end
  | None => false
  end.

Fixpoint pick {A} (l : list A) (idx : list nat) : list A :=
  match idx with
  | [] => []
  | i :: r => match nth_error l i with Some x => x :: pick l r | None => pick l r end
  end.

(* guard.Matches on single points and on batches: model = implementation; executable spec:
   whatever the delete selects (C10/Guard.v gselects, checked against the real delete by
   [guarddel_check]) is matched by the implementation's guard *)
Definition guard_check (tab : retab) (e : option gexpr) (min max : Z) (names : list str)
    (pts : list (gpoint * bool)) (batches : list (list nat * bool)) (nil_guard : bool) : bool * bool :=
  let g := new_guard (re_lookup tab) true min max names e in
  let agree :=
    forallb (fun po => Bool.eqb (guard_matches true g [fst po]) (snd po)) pts
    && forallb (fun bo => Bool.eqb (guard_matches true g (pick (map fst pts) (fst bo))) (snd bo)) batches
    && Bool.eqb (guard_matches_opt true None (map fst pts)) nil_guard in
  let spec :=
    forallb (fun po => implb (wf_point (fst po) && gselects (re_lookup tab) e names min max (fst po)) (snd po)) pts in
  (agree, spec).

(* a real Store.DeleteSeries: rows = (point written, lost by the delete, matched by the guard the
   delete installs); derr = the delete returned an error (then it may have stopped early) *)
Definition guarddel_check (tab : retab) (e : option gexpr) (min max : Z) (names : list str) (derr : bool)
    (rows : list (gpoint * bool * bool)) : bool * bool :=
  let g := new_guard (re_lookup tab) true min max names e in
  let agree :=
    forallb (fun r => let '(pt, lost, matched) := r in
                      wf_point pt
                      && Bool.eqb (guard_matches true g [pt]) matched
                      && (if derr then implb lost (gselects (re_lookup tab) e names min max pt)
                          else Bool.eqb (gselects (re_lookup tab) e names min max pt) lost)) rows in
  let spec := forallb (fun r => let '(_, lost, matched) := r in implb lost matched) rows in
  (agree, spec).

(* ---------- epoch tracker (C10/Epoch.v) ---------- *)

Definition mt_of (tab : list (list bool)) (j i : nat) : bool := nth i (nth j tab []) false.

(* a schedule driven against the real tracker: after every action the observed state (tracker
   fields, guards done, thread positions as the driver's calls left them) equals the model's,
   an action ran iff the model's step is enabled; executable spec on the OBSERVED states:
   mutual exclusion, exact counts, wait exactness, progress *)
Definition epoch_check (tab : list (list bool)) (nw nd : nat) (steps : list (act * bool * gstate)) : bool * bool :=
  let mt := mt_of tab in
  let '(_, ag, sp) :=
    fold_left (fun (acc : gstate * bool * bool) (st : act * bool * gstate) =>
      let '(s, ag, sp) := acc in
      let '(a, ran, obs) := st in
      match ep_step mt s a with
      | Some s' => (s', ag && ran && gstate_eqb s' obs, sp && state_ok mt obs)
      | None => (s, ag && negb ran && gstate_eqb s obs, sp && state_ok mt obs)
      end) steps (ep_init nw nd, true, true) in
  (ag, sp).

(* raw calls in any order: (call, returned guards as generations, returned generation,
   observed epoch, largest, writes, deletes as (generation, pending), generations whose guard is done) *)
Definition rawobs := (list N * N * (N * N * Z * list (N * Z) * list N))%type.

Definition nset_eqb (a b : list N) : bool :=
  forallb (fun x => existsb (N.eqb x) b) a && forallb (fun x => existsb (N.eqb x) a) b.

Definition raw_check (ops : list (rawop * rawobs)) : bool :=
  snd (fold_left (fun (acc : rawstate * bool) (oo : rawop * rawobs) =>
    let '(s, ag) := acc in
    let '(o, (rg, rgen, (ep, lar, wr, dels, dn))) := oo in
    let s' := raw_step s o in
    let t' := r_tr s' in
    let ret_ok := match o with
                  | RStartWrite => list_eqb N.eqb (map d_gen (t_deletes (r_tr s))) rg && N.eqb (t_epoch t') rgen
                  | RWaitDelete => N.eqb (t_epoch t') rgen
                  | _ => true
                  end in
    (s', ag && ret_ok && N.eqb (t_epoch t') ep && N.eqb (t_largest t') lar && Z.eqb (t_writes t') wr
         && list_eqb (fun a b => N.eqb (fst a) (fst b) && Z.eqb (snd a) (snd b))
                     (map (fun d => (d_gen d, d_pending d)) (t_deletes t')) dels
         && nset_eqb (r_done s') dn))
    ops ({| r_tr := tracker0; r_done := []; r_waiters := [] |}, true)).

Inductive case :=
| CHist (md : mode) (xs : list xstep)
| CGuard (tab : retab) (e : option gexpr) (min max : Z) (names : list str)
         (pts : list (gpoint * bool)) (batches : list (list nat * bool)) (nil_guard : bool)
| CGuardDel (tab : retab) (e : option gexpr) (min max : Z) (names : list str) (derr : bool)
            (rows : list (gpoint * bool * bool))
| CEpoch (tab : list (list bool)) (nw nd : nat) (steps : list (act * bool * gstate))
| CEpochRaw (ops : list (rawop * rawobs)).

Definition check_case (c : case) : N :=
  match c with
  | CHist md xs =>
      let a := fold_left (xexec md repaired) xs {| a_s := init; a_ok := true; a_hist := []; a_agree := true; a_spec := true |} in
      code (a_ok a && a_agree a) (a_spec a)
  | CGuard tab e min max names pts batches ng =>
      let '(ag, sp) := guard_check tab e min max names pts batches ng in code ag sp
  | CGuardDel tab e min max names derr rows =>
      let '(ag, sp) := guarddel_check tab e min max names derr rows in code ag sp
  | CEpoch tab nw nd steps =>
      let '(ag, sp) := epoch_check tab nw nd steps in code ag sp
  | CEpochRaw ops => code (raw_check ops) true
  end.
